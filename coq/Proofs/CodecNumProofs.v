(* C04: facts about the minimal CScriptNum encoding (Script/Bytes.v num_encode) of the numbers
   Miniscript pushes (0 <= z < 2^31): explicit byte lists by range, hence the exact length and
   agreement with the code's script_num_size; minimality and decoding come from ScriptNumProofs. *)
From Coq Require Import Lia.
From Verif Require Import Bytes ScriptNumProofs.
Local Open Scope Z_scope.

(* the four bytes of z, little endian *)
Definition b0 (z : Z) : N := Z.to_N (z mod 256).
Definition b1 (z : Z) : N := Z.to_N ((z / 256) mod 256).
Definition b2 (z : Z) : N := Z.to_N ((z / 65536) mod 256).
Definition b3 (z : Z) : N := Z.to_N ((z / 16777216) mod 256).

(* ---- the encoding of 0 <= z < 2^31, by range ---- *)
Inductive enc_shape (z : Z) : bytes -> Prop :=
| Es0 : z = 0 -> enc_shape z []
| Es1 : 1 <= z < 128 -> enc_shape z [b0 z]
| Es1p : 128 <= z < 256 -> enc_shape z [b0 z; 0%N]
| Es2 : 256 <= z < 32768 -> enc_shape z [b0 z; b1 z]
| Es2p : 32768 <= z < 65536 -> enc_shape z [b0 z; b1 z; 0%N]
| Es3 : 65536 <= z < 8388608 -> enc_shape z [b0 z; b1 z; b2 z]
| Es3p : 8388608 <= z < 16777216 -> enc_shape z [b0 z; b1 z; b2 z; 0%N]
| Es4 : 16777216 <= z < 2147483648 -> enc_shape z [b0 z; b1 z; b2 z; b3 z].

Lemma byte_small z : 0 <= z < 256 -> z mod 256 = z.
Proof. intros. apply Z.mod_small. lia. Qed.

Lemma num_encode_shape z : 0 <= z < 2147483648 -> enc_shape z (num_encode z).
Proof.
  intros Hz. unfold num_encode.
  destruct (Z.eqb_spec z 0) as [->|Hnz]; [constructor; reflexivity|].
  destruct (Z.ltb_spec z 0); [lia|]. rewrite Z.abs_eq by lia.
  assert (D1 : 0 <= z / 256) by (apply Z.div_pos; lia).
  assert (D2 : 0 <= z / 65536) by (apply Z.div_pos; lia).
  assert (D3 : 0 <= z / 16777216) by (apply Z.div_pos; lia).
  assert (E2 : z / 256 / 256 = z / 65536) by (rewrite Z.div_div by lia; reflexivity).
  assert (E3 : z / 65536 / 256 = z / 16777216) by (rewrite Z.div_div by lia; reflexivity).
  assert (U1 : z / 256 < 256 -> z < 65536) by (intros; pose proof (Z.mul_succ_div_gt z 256 ltac:(lia)); lia).
  assert (L1 : 128 <= z / 256 -> 32768 <= z) by (intros; pose proof (Z.mul_div_le z 256 ltac:(lia)); lia).
  assert (U1' : z / 256 < 128 -> z < 32768) by (intros; pose proof (Z.mul_succ_div_gt z 256 ltac:(lia)); lia).
  assert (L1' : 256 <= z / 256 -> 65536 <= z) by (intros; pose proof (Z.mul_div_le z 256 ltac:(lia)); lia).
  assert (U2 : z / 65536 < 128 -> z < 8388608) by (intros; pose proof (Z.mul_succ_div_gt z 65536 ltac:(lia)); lia).
  assert (L2 : 128 <= z / 65536 -> 8388608 <= z) by (intros; pose proof (Z.mul_div_le z 65536 ltac:(lia)); lia).
  assert (U2' : z / 65536 < 256 -> z < 16777216) by (intros; pose proof (Z.mul_succ_div_gt z 65536 ltac:(lia)); lia).
  assert (L2' : 256 <= z / 65536 -> 16777216 <= z) by (intros; pose proof (Z.mul_div_le z 65536 ltac:(lia)); lia).
  assert (U3 : z / 16777216 < 128) by (apply Z.div_lt_upper_bound; lia).
  cbn [enc_mag].
  destruct (Z.ltb_spec z 128).
  { rewrite N.add_0_r. replace (Z.to_N z) with (b0 z) by (unfold b0; rewrite byte_small by lia; reflexivity).
    apply Es1. lia. }
  destruct (Z.ltb_spec z 256).
  { replace (Z.to_N z) with (b0 z) by (unfold b0; rewrite byte_small by lia; reflexivity). apply Es1p. lia. }
  fold (b0 z). rewrite E2.
  destruct (Z.ltb_spec (z / 256) 128).
  { rewrite N.add_0_r. replace (Z.to_N (z / 256)) with (b1 z) by (unfold b1; rewrite byte_small by lia; reflexivity).
    apply Es2. lia. }
  destruct (Z.ltb_spec (z / 256) 256).
  { replace (Z.to_N (z / 256)) with (b1 z) by (unfold b1; rewrite byte_small by lia; reflexivity). apply Es2p. lia. }
  fold (b1 z). rewrite E3.
  destruct (Z.ltb_spec (z / 65536) 128).
  { rewrite N.add_0_r. replace (Z.to_N (z / 65536)) with (b2 z) by (unfold b2; rewrite byte_small by lia; reflexivity).
    apply Es3. lia. }
  destruct (Z.ltb_spec (z / 65536) 256).
  { replace (Z.to_N (z / 65536)) with (b2 z) by (unfold b2; rewrite byte_small by lia; reflexivity). apply Es3p. lia. }
  fold (b2 z).
  destruct (Z.ltb_spec (z / 16777216) 128); [|lia].
  rewrite N.add_0_r. replace (Z.to_N (z / 16777216)) with (b3 z) by (unfold b3; rewrite byte_small by lia; reflexivity).
  apply Es4. lia.
Qed.

(* ---- consequences ---- *)
Definition num_len (z : Z) : N :=
  if z =? 0 then 0%N else if z <? 128 then 1%N else if z <? 32768 then 2%N
  else if z <? 8388608 then 3%N else 4%N.

Lemma num_encode_len z : 0 <= z < 2147483648 -> blen (num_encode z) = num_len z.
Proof.
  intros Hz. unfold num_len.
  destruct (num_encode_shape z Hz); unfold blen; cbn [length];
    repeat match goal with |- context [if ?c then _ else _] =>
      match c with
      | (?a =? ?b) => destruct (Z.eqb_spec a b); try lia
      | (?a <? ?b) => destruct (Z.ltb_spec a b); try lia
      end end; reflexivity.
Qed.

Lemma num_decode_encode z : 0 <= z < 2147483648 -> num_decode (num_encode z) = z.
Proof.
  intros Hz. destruct (Z.eq_dec z 0) as [->|Hnz]; [reflexivity|].
  destruct (num_encode_pos z ltac:(lia)) as [H1 _]. unfold num_decode. rewrite H1. reflexivity.
Qed.

Lemma num_minimal_encode z : 0 <= z < 2147483648 -> num_minimal (num_encode z) = true.
Proof.
  intros Hz. destruct (Z.eq_dec z 0) as [->|Hnz]; [reflexivity|].
  apply (num_encode_pos z ltac:(lia)).
Qed.

(* a one-byte encoding is the number itself *)
Lemma num_encode_single z x : 0 <= z < 2147483648 -> num_encode z = [x] -> x = Z.to_N z /\ 1 <= z < 128.
Proof.
  intros Hz E. destruct (num_encode_shape z Hz) as [R|R|R|R|R|R|R|R]; try discriminate.
  injection E as <-. split; [|lia]. unfold b0. rewrite byte_small by lia. reflexivity.
Qed.

Lemma num_operand4_encode z : 0 <= z < 2147483648 -> num_operand 4 (num_encode z) = Some z.
Proof. intros Hz. apply num_roundtrip; [reflexivity|exact Hz]. Qed.
