(* C04: facts about the minimal CScriptNum encoding (Script/Bytes.v num_encode) of the numbers
   Miniscript pushes (0 <= z < 2^31): explicit byte lists by range, hence length, minimality,
   decoding, and agreement with the code's script_num_size. *)
From Coq Require Import Lia.
From Verif Require Import Bytes.
Local Open Scope Z_scope.

Lemma le_bytes_fuel_zero f : le_bytes_fuel f 0 = [].
Proof. destruct f; reflexivity. Qed.

Lemma le_bytes_fuel_step f z : 0 < z ->
  le_bytes_fuel (S f) z = Z.to_N (z mod 256) :: le_bytes_fuel f (z / 256).
Proof. intros Hz. cbn [le_bytes_fuel]. destruct (Z.leb_spec z 0); [lia|reflexivity]. Qed.

Lemma le_bytes_fuel_irrelevant : forall f z, 0 <= z < 256 ^ Z.of_nat f ->
  forall f', (f <= f')%nat -> le_bytes_fuel f' z = le_bytes_fuel f z.
Proof.
  induction f as [|f IH]; intros z Hz f' Hf.
  - cbn in Hz. assert (z = 0) by lia. subst. rewrite !le_bytes_fuel_zero. reflexivity.
  - destruct f' as [|f']; [lia|].
    destruct (Z.eq_dec z 0) as [->|Hnz]; [rewrite !le_bytes_fuel_zero; reflexivity|].
    rewrite !le_bytes_fuel_step by lia. f_equal. apply IH; [|lia].
    rewrite Nat2Z.inj_succ, Z.pow_succ_r in Hz by lia.
    split; [apply Z.div_pos; lia|]. apply Z.div_lt_upper_bound; lia.
Qed.

Lemma le_bytes_fuel4 z : 0 <= z < 4294967296 -> le_bytes z = le_bytes_fuel 4 z.
Proof.
  intros Hz. unfold le_bytes.
  destruct (Z.eq_dec z 0) as [->|Hnz]; [reflexivity|].
  set (F := S (Z.to_nat (Z.log2 z))).
  assert (HF : 0 <= z < 256 ^ Z.of_nat F).
  { split; [lia|]. unfold F. rewrite Nat2Z.inj_succ, Z2Nat.id by apply Z.log2_nonneg.
    destruct (Z.log2_spec z ltac:(lia)) as [_ H2].
    eapply Z.lt_le_trans; [exact H2|]. apply Z.pow_le_mono_l. lia. }
  rewrite <- (le_bytes_fuel_irrelevant F z HF (4 + F)%nat ltac:(lia)).
  apply (le_bytes_fuel_irrelevant 4 z); [change (256 ^ Z.of_nat 4) with 4294967296; lia|lia].
Qed.

(* the four bytes of z, little endian *)
Definition b0 (z : Z) : N := Z.to_N (z mod 256).
Definition b1 (z : Z) : N := Z.to_N ((z / 256) mod 256).
Definition b2 (z : Z) : N := Z.to_N ((z / 65536) mod 256).
Definition b3 (z : Z) : N := Z.to_N ((z / 16777216) mod 256).

Lemma le_bytes_cases z : 0 <= z < 4294967296 ->
  le_bytes z =
  if z <=? 0 then [] else
  if z <? 256 then [b0 z] else
  if z <? 65536 then [b0 z; b1 z] else
  if z <? 16777216 then [b0 z; b1 z; b2 z] else [b0 z; b1 z; b2 z; b3 z].
Proof.
  intros Hz. rewrite le_bytes_fuel4 by exact Hz. unfold b0, b1, b2, b3.
  destruct (Z.leb_spec z 0) as [H0|H0]; [assert (z = 0) by lia; subst; reflexivity|].
  rewrite le_bytes_fuel_step by lia.
  destruct (Z.ltb_spec z 256) as [H1|H1].
  { rewrite Z.div_small by lia. rewrite le_bytes_fuel_zero. reflexivity. }
  assert (D1 : 0 < z / 256) by (apply Z.div_str_pos; lia).
  rewrite le_bytes_fuel_step by lia.
  rewrite Z.div_div by lia. change (256 * 256) with 65536.
  destruct (Z.ltb_spec z 65536) as [H2|H2].
  { rewrite (Z.div_small z 65536) by lia. rewrite le_bytes_fuel_zero. reflexivity. }
  assert (D2 : 0 < z / 65536) by (apply Z.div_str_pos; lia).
  rewrite le_bytes_fuel_step by lia.
  rewrite Z.div_div by lia. change (65536 * 256) with 16777216.
  destruct (Z.ltb_spec z 16777216) as [H3|H3].
  { rewrite (Z.div_small z 16777216) by lia. rewrite le_bytes_fuel_zero. reflexivity. }
  assert (D3 : 0 < z / 16777216) by (apply Z.div_str_pos; lia).
  rewrite le_bytes_fuel_step by lia.
  rewrite Z.div_div by lia. change (16777216 * 256) with 4294967296.
  rewrite (Z.div_small z 4294967296) by lia. rewrite le_bytes_fuel_zero. reflexivity.
Qed.

(* ---- the encoding of 0 <= z < 2^31, by range ---- *)
Inductive enc_shape (z : Z) : bytes -> Prop :=
| Es0 : z = 0 -> enc_shape z []
| Es1 : 1 <= z < 128 -> enc_shape z [b0 z]
| Es1p : 128 <= z < 256 -> enc_shape z [b0 z; 0%N]
| Es2 : 256 <= z < 32768 -> enc_shape z [b0 z; b1 z]
| Es2p : 32768 <= z < 65536 -> enc_shape z [b0 z; b1 z; 0%N]
| Es3 : 65536 <= z < 8388608 -> enc_shape z [b0 z; b1 z; b2 z]
| Es3p : 8388608 <= z < 16777216 -> enc_shape z [b0 z; b1 z; b2 z; 0%N]
| Es4 : 16777216 <= z < 2147483648 -> enc_shape z [b0 z; b1 z; b2 z; b3 z].

Lemma byte_small z : 0 <= z < 256 -> z mod 256 = z.
Proof. intros. apply Z.mod_small. lia. Qed.

Lemma num_encode_shape z : 0 <= z < 2147483648 -> enc_shape z (num_encode z).
Proof.
  intros Hz. unfold num_encode.
  destruct (Z.eqb_spec z 0) as [->|Hnz]; [constructor; reflexivity|].
  replace (z <? 0) with false by lia. rewrite Z.abs_eq by lia.
  rewrite le_bytes_cases by lia.
  destruct (Z.leb_spec z 0) as [H0|H0]; [lia|].
  destruct (Z.ltb_spec z 256) as [H1|H1].
  { cbn [rev app]. unfold b0 at 1. rewrite byte_small by lia.
    destruct (N.leb_spec 128 (Z.to_N z)); [apply Es1p|apply Es1]; lia. }
  destruct (Z.ltb_spec z 65536) as [H2|H2].
  { cbn [rev app]. unfold b1 at 1.
    assert (0 <= z / 256 < 256) by (split; [apply Z.div_pos; lia|apply Z.div_lt_upper_bound; lia]).
    rewrite byte_small by lia.
    destruct (N.leb_spec 128 (Z.to_N (z / 256))) as [Hb|Hb].
    - apply Es2p. assert (128 <= z / 256) by lia. pose proof (Z.mul_div_le z 256 ltac:(lia)). lia.
    - cbn [rev app]. apply Es2. assert (z / 256 < 128) by lia.
      pose proof (Z.div_mod z 256 ltac:(lia)). pose proof (Z.mod_pos_bound z 256 ltac:(lia)). lia. }
  destruct (Z.ltb_spec z 16777216) as [H3|H3].
  { cbn [rev app]. unfold b2 at 1.
    assert (0 <= z / 65536 < 256) by (split; [apply Z.div_pos; lia|apply Z.div_lt_upper_bound; lia]).
    rewrite byte_small by lia.
    destruct (N.leb_spec 128 (Z.to_N (z / 65536))) as [Hb|Hb].
    - apply Es3p. assert (128 <= z / 65536) by lia. pose proof (Z.mul_div_le z 65536 ltac:(lia)). lia.
    - cbn [rev app]. apply Es3. assert (z / 65536 < 128) by lia.
      pose proof (Z.div_mod z 65536 ltac:(lia)). pose proof (Z.mod_pos_bound z 65536 ltac:(lia)). lia. }
  cbn [rev app]. unfold b3 at 1.
  assert (0 <= z / 16777216 < 128) by (split; [apply Z.div_pos; lia|apply Z.div_lt_upper_bound; lia]).
  rewrite byte_small by lia.
  destruct (N.leb_spec 128 (Z.to_N (z / 16777216))) as [Hb|Hb]; [lia|].
  cbn [rev app]. apply Es4. lia.
Qed.

(* ---- consequences ---- *)
Lemma b0_bound z : (b0 z < 256)%N.
Proof. unfold b0. pose proof (Z.mod_pos_bound z 256 ltac:(lia)). lia. Qed.
Lemma b1_bound z : (b1 z < 256)%N.
Proof. unfold b1. pose proof (Z.mod_pos_bound (z / 256) 256 ltac:(lia)). lia. Qed.
Lemma b2_bound z : (b2 z < 256)%N.
Proof. unfold b2. pose proof (Z.mod_pos_bound (z / 65536) 256 ltac:(lia)). lia. Qed.
Lemma b3_bound z : (b3 z < 256)%N.
Proof. unfold b3. pose proof (Z.mod_pos_bound (z / 16777216) 256 ltac:(lia)). lia. Qed.

Definition num_len (z : Z) : N :=
  if z =? 0 then 0%N else if z <? 128 then 1%N else if z <? 32768 then 2%N
  else if z <? 8388608 then 3%N else 4%N.

Lemma num_encode_len z : 0 <= z < 2147483648 -> blen (num_encode z) = num_len z.
Proof.
  intros Hz. unfold num_len.
  destruct (num_encode_shape z Hz); unfold blen; cbn [length];
    repeat match goal with |- context [if ?c then _ else _] =>
      match c with
      | (?a =? ?b) => destruct (Z.eqb_spec a b); try lia
      | (?a <? ?b) => destruct (Z.ltb_spec a b); try lia
      end end; reflexivity.
Qed.

(* the decomposition of z into its bytes *)
Lemma bytes_sum z : 0 <= z < 4294967296 ->
  z = Z.of_N (b0 z) + 256 * (Z.of_N (b1 z) + 256 * (Z.of_N (b2 z) + 256 * Z.of_N (b3 z))).
Proof.
  intros Hz. unfold b0, b1, b2, b3.
  pose proof (Z.mod_pos_bound z 256 ltac:(lia)).
  pose proof (Z.mod_pos_bound (z / 256) 256 ltac:(lia)).
  pose proof (Z.mod_pos_bound (z / 65536) 256 ltac:(lia)).
  pose proof (Z.mod_pos_bound (z / 16777216) 256 ltac:(lia)).
  rewrite !Z2N.id by lia.
  pose proof (Z.div_mod z 256 ltac:(lia)) as E0.
  pose proof (Z.div_mod (z / 256) 256 ltac:(lia)) as E1.
  pose proof (Z.div_mod (z / 65536) 256 ltac:(lia)) as E2.
  pose proof (Z.div_mod (z / 16777216) 256 ltac:(lia)) as E3.
  rewrite Z.div_div in E1 by lia. change (256 * 256) with 65536 in E1.
  rewrite Z.div_div in E2 by lia. change (65536 * 256) with 16777216 in E2.
  rewrite Z.div_div in E3 by lia. change (16777216 * 256) with 4294967296 in E3.
  rewrite (Z.div_small z 4294967296) in E3 by lia. lia.
Qed.

Lemma high_zero z k : 0 <= z < k -> 0 < k -> z / k = 0.
Proof. intros. apply Z.div_small. lia. Qed.

Lemma num_decode_encode z : 0 <= z < 2147483648 -> num_decode (num_encode z) = z.
Proof.
  intros Hz. pose proof (bytes_sum z ltac:(lia)) as Hsum.
  pose proof (b0_bound z). pose proof (b1_bound z). pose proof (b2_bound z). pose proof (b3_bound z).
  destruct (num_encode_shape z Hz) as [R|R|R|R|R|R|R|R]; unfold num_decode; cbn [rev app length le_val].
  - lia.
  - assert (b1 z = 0%N) by (unfold b1; rewrite (high_zero z 256) by lia; reflexivity).
    assert (b2 z = 0%N) by (unfold b2; rewrite (high_zero z 65536) by lia; reflexivity).
    assert (b3 z = 0%N) by (unfold b3; rewrite (high_zero z 16777216) by lia; reflexivity).
    destruct (N.leb_spec 128 (b0 z)); lia.
  - assert (b1 z = 0%N) by (unfold b1; rewrite (high_zero z 256) by lia; reflexivity).
    assert (b2 z = 0%N) by (unfold b2; rewrite (high_zero z 65536) by lia; reflexivity).
    assert (b3 z = 0%N) by (unfold b3; rewrite (high_zero z 16777216) by lia; reflexivity).
    change (N.leb 128 0) with false. cbv iota. lia.
  - assert (b2 z = 0%N) by (unfold b2; rewrite (high_zero z 65536) by lia; reflexivity).
    assert (b3 z = 0%N) by (unfold b3; rewrite (high_zero z 16777216) by lia; reflexivity).
    destruct (N.leb_spec 128 (b1 z)); [|lia].
    change (Z.of_nat 2 - 1) with 1. lia.
  - assert (b2 z = 0%N) by (unfold b2; rewrite (high_zero z 65536) by lia; reflexivity).
    assert (b3 z = 0%N) by (unfold b3; rewrite (high_zero z 16777216) by lia; reflexivity).
    change (N.leb 128 0) with false. cbv iota. lia.
  - assert (b3 z = 0%N) by (unfold b3; rewrite (high_zero z 16777216) by lia; reflexivity).
    destruct (N.leb_spec 128 (b2 z)); [|lia].
    change (Z.of_nat 3 - 1) with 2. change (256 ^ 2) with 65536. lia.
  - assert (b3 z = 0%N) by (unfold b3; rewrite (high_zero z 16777216) by lia; reflexivity).
    change (N.leb 128 0) with false. cbv iota. lia.
  - destruct (N.leb_spec 128 (b3 z)); [|lia].
    change (Z.of_nat 4 - 1) with 3. change (256 ^ 3) with 16777216. lia.
Qed.

Lemma num_minimal_encode z : 0 <= z < 2147483648 -> num_minimal (num_encode z) = true.
Proof.
  intros Hz. pose proof (bytes_sum z ltac:(lia)) as Hsum.
  pose proof (b0_bound z). pose proof (b1_bound z). pose proof (b2_bound z). pose proof (b3_bound z).
  assert (Hland : forall x : N, (x < 128)%N -> N.land x 127 = x).
  { intros x Hx. change 127%N with (N.ones 7). rewrite N.land_ones. apply N.mod_small. exact Hx. }
  destruct (num_encode_shape z Hz) as [R|R|R|R|R|R|R|R]; unfold num_minimal; cbn [rev app].
  - reflexivity.
  - assert (b1 z = 0%N) by (unfold b1; rewrite (high_zero z 256) by lia; reflexivity).
    assert (b2 z = 0%N) by (unfold b2; rewrite (high_zero z 65536) by lia; reflexivity).
    assert (b3 z = 0%N) by (unfold b3; rewrite (high_zero z 16777216) by lia; reflexivity).
    rewrite Hland by lia. destruct (N.eqb_spec (b0 z) 0); [lia|reflexivity].
  - assert (b1 z = 0%N) by (unfold b1; rewrite (high_zero z 256) by lia; reflexivity).
    assert (b2 z = 0%N) by (unfold b2; rewrite (high_zero z 65536) by lia; reflexivity).
    assert (b3 z = 0%N) by (unfold b3; rewrite (high_zero z 16777216) by lia; reflexivity).
    cbn [N.land N.eqb]. destruct (N.leb_spec 128 (b0 z)); [reflexivity|lia].
  - assert (b2 z = 0%N) by (unfold b2; rewrite (high_zero z 65536) by lia; reflexivity).
    assert (b3 z = 0%N) by (unfold b3; rewrite (high_zero z 16777216) by lia; reflexivity).
    assert (b1 z < 128)%N by lia. rewrite Hland by lia. destruct (N.eqb_spec (b1 z) 0); [lia|reflexivity].
  - assert (b2 z = 0%N) by (unfold b2; rewrite (high_zero z 65536) by lia; reflexivity).
    assert (b3 z = 0%N) by (unfold b3; rewrite (high_zero z 16777216) by lia; reflexivity).
    cbn [N.land N.eqb]. destruct (N.leb_spec 128 (b1 z)); [reflexivity|lia].
  - assert (b3 z = 0%N) by (unfold b3; rewrite (high_zero z 16777216) by lia; reflexivity).
    assert (b2 z < 128)%N by lia. rewrite Hland by lia. destruct (N.eqb_spec (b2 z) 0); [lia|reflexivity].
  - assert (b3 z = 0%N) by (unfold b3; rewrite (high_zero z 16777216) by lia; reflexivity).
    cbn [N.land N.eqb]. destruct (N.leb_spec 128 (b2 z)); [reflexivity|lia].
  - assert (b3 z < 128)%N by lia. rewrite Hland by lia. destruct (N.eqb_spec (b3 z) 0); [lia|reflexivity].
Qed.

(* a one-byte encoding is the number itself *)
Lemma num_encode_single z x : 0 <= z < 2147483648 -> num_encode z = [x] -> x = Z.to_N z /\ 1 <= z < 128.
Proof.
  intros Hz E. destruct (num_encode_shape z Hz) as [R|R|R|R|R|R|R|R]; try discriminate.
  injection E as <-. split; [|lia]. unfold b0. rewrite byte_small by lia. reflexivity.
Qed.

Lemma num_operand4_encode z : 0 <= z < 2147483648 -> num_operand 4 (num_encode z) = Some z.
Proof.
  intros Hz. unfold num_operand. rewrite num_encode_len, num_minimal_encode, num_decode_encode by exact Hz.
  replace (N.leb (num_len z) 4) with true; [reflexivity|].
  unfold num_len. repeat match goal with |- context [if ?c then _ else _] => destruct c end; reflexivity.
Qed.
