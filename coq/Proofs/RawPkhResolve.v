(* Resolution layer for raw_pk_h: a script with raw key hashes whose hashes the satisfier resolves
   is, for encoding, typing, well-formedness and the satisfier model, THE SAME as the script with
   pk_h of the resolved keys. Nothing in Ms/Sat.v, SatSpec.v, TheoremA.v is touched. *)
From Verif Require Import Exec Ser Ast Types TypeCheck SatSpec Sat ExecLemmas TheoremA SatProofs RawPkhModel.
From Coq Require Import Lia.

(* the inner fixpoints are maps *)
Lemma resolve_thresh rs k xs : resolve rs (MThresh k xs) = MThresh k (map (resolve rs) xs).
Proof. reflexivity. Qed.

Lemma raw_hashes_thresh k xs : raw_hashes (MThresh k xs) = flat_map raw_hashes xs.
Proof. reflexivity. Qed.

Lemma in_raw_thresh k xs x h : In x xs -> In h (raw_hashes x) -> In h (raw_hashes (MThresh k xs)).
Proof. intros Hx Hh. rewrite raw_hashes_thresh. apply in_flat_map. exists x. auto. Qed.

Ltac split_in H :=
  repeat match goal with
  | |- forall _, _ => intro
  | |- _ => solve [eapply H; cbn [raw_hashes]; repeat (rewrite in_app_iff); eauto; tauto]
  end.

Section Resolve.
  Variable ke : keyenv.
  Variable rs : bytes -> option key.

  (* (a) the encoded script does not change when the resolved key hashes to the raw hash *)
  Definition hash_matches (m : ms) : Prop := forall h k, In h (raw_hashes m) -> rs h = Some k -> kh ke k = h.

  Lemma enc_resolve : forall m, hash_matches m -> enc ke (resolve rs m) = enc ke m.
  Proof.
    unfold hash_matches.
    induction m using ms_ind'; intros HM; try reflexivity;
      try (cbn [resolve enc]; rewrite IHm by (split_in HM); reflexivity);
      try (cbn [resolve enc]; rewrite IHm1 by (split_in HM); rewrite IHm2 by (split_in HM); reflexivity).
    - (* raw *) cbn [resolve]. destruct (rs h) as [k|] eqn:E; [|reflexivity].
      cbn [enc]. rewrite (HM h k); [reflexivity | cbn; auto | exact E].
    - (* andor *) cbn [resolve enc]. rewrite IHm1 by (split_in HM). rewrite IHm2 by (split_in HM).
      rewrite IHm3 by (split_in HM). reflexivity.
    - (* thresh *) rewrite resolve_thresh.
      assert (HE : map (enc ke) (map (resolve rs) xs) = map (enc ke) xs).
      { rewrite map_map. apply map_ext_in. intros x Hx. rewrite Forall_forall in H. apply (H x Hx).
        intros h k' Hh. apply HM. exact (in_raw_thresh k xs x h Hx Hh). }
      clear H HM. cbn [enc]. f_equal.
      destruct xs as [|x0 rest]; [reflexivity|]. cbn [map] in *. inversion HE as [[H0 H1]]. rewrite H0. f_equal.
      clear H0 HE. revert H1. induction rest as [|x r IH]; intros H1; [reflexivity|].
      cbn [map] in *. inversion H1 as [[Hx Hr]]. rewrite Hx. rewrite (IH Hr). reflexivity.
  Qed.

  Corollary encode_resolve m : hash_matches m -> encode ke (resolve rs m) = encode ke m.
  Proof. intros H. unfold encode. rewrite (enc_resolve m H). reflexivity. Qed.

  (* (b) the type does not change (RawPkH and PkH share the type rule) *)
  Lemma type_of_resolve : forall m, type_of (resolve rs m) = type_of m.
  Proof.
    induction m using ms_ind'; try reflexivity;
      try (cbn [resolve type_of]; rewrite IHm; reflexivity);
      try (cbn [resolve type_of]; rewrite IHm1, IHm2; reflexivity).
    - cbn [resolve]. destruct (rs h); reflexivity.
    - cbn [resolve type_of]. rewrite IHm1, IHm2, IHm3. reflexivity.
    - rewrite resolve_thresh. cbn [type_of]. f_equal.
      induction H as [|x r Hx Hr IH]; [reflexivity|]. cbn [map]. rewrite Hx, IH. reflexivity.
  Qed.

  (* (c) no raw leaf is left when the resolver knows every hash of the script *)
  Definition all_resolved (m : ms) : Prop := forall h, In h (raw_hashes m) -> rs h <> None.

  Lemma no_raw_resolve : forall m, all_resolved m -> no_multi (resolve rs m).
  Proof.
    unfold all_resolved.
    induction m using ms_ind'; intros HR; try exact I;
      try (cbn [resolve no_multi]; apply IHm; split_in HR);
      try (cbn [resolve no_multi]; split; [apply IHm1 | apply IHm2]; split_in HR).
    - cbn [resolve]. destruct (rs h) as [k|] eqn:E; [exact I|]. exfalso. apply (HR h); [cbn; auto | exact E].
    - cbn [resolve no_multi]. split; [apply IHm1 | split; [apply IHm2 | apply IHm3]]; split_in HR.
    - rewrite resolve_thresh. cbn [no_multi].
      assert (HR' : forall x, In x xs -> forall h, In h (raw_hashes x) -> rs h <> None).
      { intros x Hx h Hh. apply HR. exact (in_raw_thresh k xs x h Hx Hh). }
      clear HR. induction H as [|x r Hx Hr IH]; [exact I|]. cbn [map]. split.
      + apply Hx. apply HR'. left. reflexivity.
      + apply IH. intros y Hy. apply HR'. right. exact Hy.
  Qed.

  (* the structural well-formedness of Theorem A ignores the key-hash leaves *)
  Lemma wf_resolve e : forall m, wf e ke m -> wf e ke (resolve rs m).
  Proof.
    induction m using ms_ind'; intros HW; try exact HW;
      try solve [cbn [resolve wf] in *; apply IHm; exact HW];
      try solve [cbn [resolve wf] in *; destruct HW; split; auto].
    - cbn [resolve]. destruct (rs h); exact I.
    - cbn [resolve wf] in *. destruct HW as [Ha [Hb Hc]]. auto.
    - rewrite resolve_thresh. cbn [wf] in *. destruct HW as [Hk [Hn Hw]]. rewrite map_length.
      split; [exact Hk|]. split; [exact Hn|]. clear Hk Hn.
      induction H as [|x r Hx Hr IH]; [exact I|]. cbn [map]. destruct Hw as [H1 H2]. split; [apply Hx, H1 | apply IH, H2].
  Qed.
End Resolve.

(* ---- the satisfier model with the real RawPkH arm agrees with the old model on the resolved script ---- *)
Section SatResolve.
  Variable ke : keyenv.
  Variable se : senv.
  Variable re : rawenv.

  (* every raw hash of m is known to lookup_raw_pkh_pk and the signature lookup is consistent with it *)
  Definition resolved_by (m : ms) : Prop :=
    forall h, In h (raw_hashes m) -> rs_pk re h <> None /\ coherent se re h.

  Lemma sd_raw_resolved h k : rs_pk re h = Some k -> coherent se re h -> sd_raw_pk_h re h = sd_pk_h se k.
  Proof.
    intros Hk Hc. unfold coherent in Hc. rewrite Hk in Hc.
    unfold sd_raw_pk_h, sd_pk_h, w_pkh_public_key, w_pkh_signature, w_signature. rewrite Hk, Hc.
    destruct (se_sig se k); reflexivity.
  Qed.

  Lemma sat_dissat_resolve mall rhs : forall m, resolved_by m ->
    sat_dissat_r ke se re mall rhs m = sat_dissat ke se mall rhs (resolve (rs_pk re) m).
  Proof.
    unfold resolved_by.
    induction m using ms_ind'; intros HR; try reflexivity;
      try (cbn [resolve sat_dissat sat_dissat_r]; rewrite IHm by (split_in HR); reflexivity);
      try (cbn [resolve sat_dissat sat_dissat_r]; rewrite IHm1 by (split_in HR); rewrite IHm2 by (split_in HR); reflexivity).
    - (* raw *) cbn [resolve]. destruct (HR h) as [Hn Hc]; [cbn; auto|].
      destruct (rs_pk re h) as [k|] eqn:E; [|congruence]. cbn [sat_dissat sat_dissat_r].
      apply sd_raw_resolved; assumption.
    - (* andor *) cbn [resolve sat_dissat sat_dissat_r]. rewrite IHm1 by (split_in HR). rewrite IHm2 by (split_in HR).
      rewrite IHm3 by (split_in HR). reflexivity.
    - (* thresh *) rewrite resolve_thresh.
      assert (HE : (fix go (l : list ms) : list (satn * satn) :=
                      match l with [] => [] | x :: r => sat_dissat_r ke se re mall rhs x :: go r end) xs
                 = (fix go (l : list ms) : list (satn * satn) :=
                      match l with [] => [] | x :: r => sat_dissat ke se mall rhs x :: go r end) (map (resolve (rs_pk re)) xs)).
      { assert (HR' : forall x, In x xs -> forall h, In h (raw_hashes x) -> rs_pk re h <> None /\ coherent se re h).
        { intros x Hx h Hh. apply HR. exact (in_raw_thresh k xs x h Hx Hh). }
        clear HR. induction H as [|x r Hx Hr IH]; [reflexivity|]. cbn [map]. rewrite Hx, IH; [reflexivity| |].
        - intros y Hy. apply HR'. right. exact Hy.
        - apply HR'. left. reflexivity. }
      cbn [sat_dissat sat_dissat_r]. rewrite HE. rewrite map_length. reflexivity.
  Qed.

  Corollary satisfy_resolve f mall rhs m : resolved_by m ->
    satisfy_r ke se re f mall rhs m = satisfy ke se f mall rhs (resolve (rs_pk re) m).
  Proof. intros H. unfold satisfy_r, satisfy. rewrite (sat_dissat_resolve mall rhs m H). reflexivity. Qed.

  (* UNRESOLVED hash: the leaf offers no satisfaction and no dissatisfaction (the dissatisfaction is
     Unavailable, not Impossible: exactly `pkh_public_key`'s comment in the code) *)
  Lemma sd_raw_unresolved h : rs_pk re h = None -> rs_sig re h = None ->
    s_stack (fst (sd_raw_pk_h re h)) = WUnavailable /\ s_stack (snd (sd_raw_pk_h re h)) = WImpossible
    /\ s_has_sig (snd (sd_raw_pk_h re h)) = true.
  Proof.
    intros H1 H2. unfold sd_raw_pk_h, w_pkh_public_key, w_pkh_signature. rewrite H1, H2. cbn. auto.
  Qed.

  (* in particular `c:raw_pk_h(h)` alone is not satisfiable and `satisfy` returns an error *)
  Lemma satisfy_unresolved_check f mall rhs h : rs_sig re h = None ->
    satisfy_r ke se re f mall rhs (MCheck (MRawPkH h)) = None.
  Proof.
    intros H2. unfold satisfy_r. cbn [sat_dissat_r]. unfold sd_raw_pk_h, w_pkh_signature. rewrite H2. reflexivity.
  Qed.

  (* whatever the lookups answer, the raw leaf never returns a stack that is not [0 pk] / [sig pk] of
     the looked-up key *)
  Lemma sd_raw_shape h :
    (forall l, s_stack (fst (sd_raw_pk_h re h)) = WStack l -> exists k, rs_pk re h = Some k /\ l = [PhPushZero; PhPubkey k]) /\
    (forall l, s_stack (snd (sd_raw_pk_h re h)) = WStack l -> exists k, rs_sig re h = Some k /\ l = [PhSig k; PhPubkey k]).
  Proof.
    unfold sd_raw_pk_h, w_pkh_public_key, w_pkh_signature. split; intros l.
    - destruct (rs_pk re h) as [k|]; cbn; intros E; [|discriminate]. inversion E. eauto.
    - destruct (rs_sig re h) as [k|]; cbn; intros E; [|discriminate]. inversion E. eauto.
  Qed.
End SatResolve.
