(* C04 second round: the lexer is CANONICAL — a byte string is determined by the token list
   the lexer makes of it.  [unlex] rebuilds the bytes from the tokens (an X, VERIFY pair of
   tokens with X in EQUAL/NUMEQUAL/CHECKSIG/CHECKMULTISIG can only come from the one-byte
   X-VERIFY opcode, because the lexer refuses OP_VERIFY directly after X). *)
From Coq Require Import Lia.
From Verif Require Import LexModel SerProofs ScriptNumProofs CodecNumProofs LexProofs.
Local Open Scope N_scope.

(* ------------------------------------------------------------------ numbers: encode after decode *)
Lemma dm a q : (0 <= a < 256 -> (a + q * 256) mod 256 = a /\ (a + q * 256) / 256 = q)%Z.
Proof.
  intros H. split.
  - rewrite Z_mod_plus_full. apply Z.mod_small. lia.
  - rewrite Z_div_plus_full by lia. rewrite Z.div_small by lia. lia.
Qed.

Lemma bytes4 (x0 x1 x2 x3 : N) z : x0 < 256 -> x1 < 256 -> x2 < 256 -> x3 < 256 ->
  z = (Z.of_N x0 + 256 * Z.of_N x1 + 65536 * Z.of_N x2 + 16777216 * Z.of_N x3)%Z ->
  b0 z = x0 /\ b1 z = x1 /\ b2 z = x2 /\ b3 z = x3.
Proof.
  intros H0 H1 H2 H3 Hz. unfold b0, b1, b2, b3.
  remember (Z.of_N x2 + Z.of_N x3 * 256)%Z as q2 eqn:Eq2.
  remember (Z.of_N x1 + q2 * 256)%Z as q1 eqn:Eq1.
  assert (Ez : z = (Z.of_N x0 + q1 * 256)%Z) by lia.
  destruct (dm (Z.of_N x0) q1 ltac:(lia)) as [M0 D0].
  destruct (dm (Z.of_N x1) q2 ltac:(lia)) as [M1 D1].
  destruct (dm (Z.of_N x2) (Z.of_N x3) ltac:(lia)) as [M2 D2].
  assert (E1 : (z / 256 = q1)%Z) by (rewrite Ez; exact D0).
  assert (E2 : (z / 65536 = q2)%Z).
  { change 65536%Z with (256 * 256)%Z. rewrite <- Z.div_div by lia. rewrite E1, Eq1. exact D1. }
  assert (E3 : (z / 16777216 = Z.of_N x3)%Z).
  { change 16777216%Z with (65536 * 256)%Z. rewrite <- Z.div_div by lia. rewrite E2, Eq2. exact D2. }
  rewrite E1, E2, E3. rewrite Ez at 1. rewrite M0. rewrite Eq1 at 1. rewrite M1. rewrite Eq2, M2.
  rewrite Z.mod_small by lia. rewrite !N2Z.id. auto.
Qed.

Lemma enc_bytes4 (x0 x1 x2 x3 : N) z : x0 < 256 -> x1 < 256 -> x2 < 256 -> x3 < 128 ->
  z = (Z.of_N x0 + 256 * Z.of_N x1 + 65536 * Z.of_N x2 + 16777216 * Z.of_N x3)%Z ->
  num_encode z =
    if x3 =? 0 then
      if x2 =? 0 then
        if x1 =? 0 then (if x0 =? 0 then [] else if x0 <? 128 then [x0] else [x0; 0])
        else (if x1 <? 128 then [x0; x1] else [x0; x1; 0])
      else (if x2 <? 128 then [x0; x1; x2] else [x0; x1; x2; 0])
    else [x0; x1; x2; x3].
Proof.
  intros H0 H1 H2 H3 Hz.
  destruct (bytes4 x0 x1 x2 x3 z H0 H1 H2 ltac:(lia) Hz) as [E0 [E1 [E2 E3]]].
  pose proof (num_encode_shape z ltac:(lia)) as Hs.
  remember (num_encode z) as en eqn:Een.
  destruct (N.eqb_spec x3 0) as [Z3|Z3].
  - destruct (N.eqb_spec x2 0) as [Z2|Z2].
    + destruct (N.eqb_spec x1 0) as [Z1|Z1].
      * destruct (N.eqb_spec x0 0) as [Z0|Z0].
        -- destruct Hs; try lia. reflexivity.
        -- destruct (N.ltb_spec x0 128).
           ++ destruct Hs; try lia. rewrite E0. reflexivity.
           ++ destruct Hs; try lia. rewrite E0. reflexivity.
      * destruct (N.ltb_spec x1 128).
        -- destruct Hs; try lia. rewrite E0, E1. reflexivity.
        -- destruct Hs; try lia. rewrite E0, E1. reflexivity.
    + destruct (N.ltb_spec x2 128).
      * destruct Hs; try lia. rewrite E0, E1, E2. reflexivity.
      * destruct Hs; try lia. rewrite E0, E1, E2. reflexivity.
  - destruct Hs; try lia. rewrite E0, E1, E2, E3. reflexivity.
Qed.

Lemma is_bytes_cons x r : is_bytes (x :: r) -> x < 256 /\ is_bytes r.
Proof. intros H. inversion H; subst. split; assumption. Qed.

Lemma num_encode_decode d : is_bytes d -> blen d <= 4 -> num_minimal d = true -> (0 <= num_decode d)%Z ->
  num_encode (num_decode d) = d /\ (num_decode d < 2147483648)%Z.
Proof.
  intros Hb Hl Hm Hz.
  destruct d as [|x0 [|x1 [|x2 [|x3 [|x4 r]]]]].
  - split; [reflexivity|cbn; lia].
  - apply is_bytes_cons in Hb. destruct Hb as [B0 _].
    unfold num_decode in *. cbn [dec_mag] in *.
    destruct (N.leb_spec 128 x0) as [G|G].
    + assert (x0 = 128) by lia. subst. discriminate Hm.
    + cbn [num_minimal] in Hm. rewrite land127, N.mod_small in Hm by lia.
      destruct (N.eqb_spec x0 0) as [Z0|Z0]; [discriminate|].
      rewrite (enc_bytes4 x0 0 0 0 (Z.of_N x0)) by lia. cbn [N.eqb].
      destruct (N.eqb_spec x0 0); [lia|]. destruct (N.ltb_spec x0 128); [|lia]. split; [reflexivity|lia].
  - apply is_bytes_cons in Hb. destruct Hb as [B0 Hb]. apply is_bytes_cons in Hb. destruct Hb as [B1 _].
    unfold num_decode in *. cbn [dec_mag] in *.
    destruct (N.leb_spec 128 x1) as [G|G].
    + assert (x0 = 0 /\ x1 = 128) by lia. destruct H; subst. discriminate Hm.
    + cbn [num_minimal] in Hm. rewrite land127, N.mod_small in Hm by lia.
      rewrite (enc_bytes4 x0 x1 0 0 (Z.of_N x0 + 256 * Z.of_N x1)) by lia. cbn [N.eqb].
      split; [|lia].
      destruct (N.eqb_spec x1 0) as [Z1|Z1].
      * apply N.leb_le in Hm. destruct (N.eqb_spec x0 0); [lia|]. destruct (N.ltb_spec x0 128); [lia|]. subst. reflexivity.
      * destruct (N.ltb_spec x1 128); [reflexivity|lia].
  - apply is_bytes_cons in Hb. destruct Hb as [B0 Hb]. apply is_bytes_cons in Hb. destruct Hb as [B1 Hb].
    apply is_bytes_cons in Hb. destruct Hb as [B2 _].
    unfold num_decode in *. cbn [dec_mag] in *.
    destruct (N.leb_spec 128 x2) as [G|G].
    + assert (x0 = 0 /\ x1 = 0 /\ x2 = 128) by lia. destruct H as [? [? ?]]; subst. discriminate Hm.
    + cbn [num_minimal] in Hm. rewrite land127, N.mod_small in Hm by lia.
      rewrite (enc_bytes4 x0 x1 x2 0 (Z.of_N x0 + 256 * (Z.of_N x1 + 256 * Z.of_N x2))) by lia. cbn [N.eqb].
      split; [|lia].
      destruct (N.eqb_spec x2 0) as [Z2|Z2].
      * apply N.leb_le in Hm. destruct (N.eqb_spec x1 0); [lia|]. destruct (N.ltb_spec x1 128); [lia|]. subst. reflexivity.
      * destruct (N.ltb_spec x2 128); [reflexivity|lia].
  - apply is_bytes_cons in Hb. destruct Hb as [B0 Hb]. apply is_bytes_cons in Hb. destruct Hb as [B1 Hb].
    apply is_bytes_cons in Hb. destruct Hb as [B2 Hb]. apply is_bytes_cons in Hb. destruct Hb as [B3 _].
    unfold num_decode in *. cbn [dec_mag] in *.
    destruct (N.leb_spec 128 x3) as [G|G].
    + assert (x0 = 0 /\ x1 = 0 /\ x2 = 0 /\ x3 = 128) by lia. destruct H as [? [? [? ?]]]; subst. discriminate Hm.
    + cbn [num_minimal] in Hm. rewrite land127, N.mod_small in Hm by lia.
      rewrite (enc_bytes4 x0 x1 x2 x3 (Z.of_N x0 + 256 * (Z.of_N x1 + 256 * (Z.of_N x2 + 256 * Z.of_N x3)))) by lia.
      split; [|lia].
      destruct (N.eqb_spec x3 0) as [Z3|Z3]; [|reflexivity].
      apply N.leb_le in Hm. destruct (N.eqb_spec x2 0); [lia|]. destruct (N.ltb_spec x2 128); [lia|]. subst. reflexivity.
  - rewrite !blen_cons in Hl. lia.
Qed.

(* ------------------------------------------------------------------ tokens back to bytes *)
Definition merged (t : token) : option N :=
  match t with
  | TkEqual => Some 136 | TkNumEqual => Some 157 | TkCheckSig => Some 173 | TkCheckMultiSig => Some 175
  | _ => None
  end.
Definition is_verify (t : token) : bool := match t with TkVerify => true | _ => false end.

Definition tok_bytes (t : token) : bytes :=
  match t with
  | TkBoolAnd => [154] | TkBoolOr => [155] | TkAdd => [147] | TkEqual => [135] | TkNumEqual => [156]
  | TkCheckSig => [172] | TkCheckSigAdd => [186] | TkCheckMultiSig => [174]
  | TkCheckSequenceVerify => [178] | TkCheckLockTimeVerify => [177]
  | TkFromAltStack => [108] | TkToAltStack => [107] | TkDrop => [117] | TkDup => [118]
  | TkIf => [99] | TkIfDup => [115] | TkNotIf => [100] | TkElse => [103] | TkEndIf => [104]
  | TkZeroNotEqual => [146] | TkSize => [130] | TkSwap => [124] | TkVerify => [105]
  | TkRipemd160 => [166] | TkHash160 => [169] | TkSha256 => [168] | TkHash256 => [170]
  | TkNum n => if n =? 0 then [0] else if n <=? 16 then [80 + n] else ser_push (num_encode (Z.of_N n))
  | TkHash20 d | TkBytes32 d | TkBytes33 d | TkBytes65 d => blen d :: d
  end.

Fixpoint unlex (ts : list token) : bytes :=
  match ts with
  | [] => []
  | t :: r =>
    match merged t, r with
    | Some c, t2 :: r' => if is_verify t2 then c :: unlex r' else tok_bytes t ++ unlex r
    | _, _ => tok_bytes t ++ unlex r
    end
  end.

Lemma unlex_plain t r : merged t = None -> unlex (t :: r) = tok_bytes t ++ unlex r.
Proof. intros H. cbn [unlex]. rewrite H. reflexivity. Qed.
Lemma unlex_nov t t2 r : is_verify t2 = false -> unlex (t :: t2 :: r) = tok_bytes t ++ unlex (t2 :: r).
Proof. intros H. cbn [unlex]. rewrite H. destruct (merged t); reflexivity. Qed.
Lemma unlex_pair t c r : merged t = Some c -> unlex (t :: TkVerify :: r) = c :: unlex r.
Proof. intros H. cbn [unlex]. rewrite H. reflexivity. Qed.
Lemma unlex_single t : unlex [t] = tok_bytes t.
Proof. cbn [unlex]. destruct (merged t); apply app_nil_r. Qed.

Lemma merged_bad t c : merged t = Some c -> bad_prev (Some t) = true.
Proof. destruct t; cbn; intros; try discriminate; reflexivity. Qed.
Lemma bad_merged t : bad_prev (Some t) = false -> merged t = None.
Proof. destruct t; cbn; intros; try discriminate; reflexivity. Qed.

Lemma lastt_ne p t r : lastt p (t :: r) = lastt None (t :: r).
Proof. reflexivity. Qed.

(* the condition under which un-lexing distributes: no X | VERIFY pair is formed at the seam *)
Definition seam_ok (a l : list token) : Prop :=
  match l with t :: _ => is_verify t = true -> bad_prev (lastt None a) = false | [] => True end.

Lemma seam_tl p a l : (match l with t :: _ => is_verify t = true -> bad_prev (lastt p a) = false | [] => True end) ->
  a <> [] -> seam_ok a l.
Proof. intros H Ha. destruct a as [|x a]; [contradiction|]. exact H. Qed.

Lemma unlex_app_n : forall n a, (length a <= n)%nat -> forall l, seam_ok a l -> unlex (a ++ l) = unlex a ++ unlex l.
Proof.
  induction n as [|n IH]; intros a Hl l Hs.
  - destruct a; [reflexivity|cbn in Hl; lia].
  - destruct a as [|t r]; [reflexivity|]. cbn [length] in Hl.
    assert (Hr : seam_ok r l \/ r = []).
    { destruct r as [|t2 r2]; [right; reflexivity|left]. exact Hs. }
    destruct (merged t) as [c|] eqn:Em.
    + destruct r as [|t2 r2].
      * cbn [app]. rewrite unlex_single. destruct l as [|t' l']; [rewrite unlex_single, app_nil_r; reflexivity|].
        destruct (is_verify t') eqn:Ev.
        -- cbn [seam_ok lastt] in Hs. specialize (Hs Ev). rewrite (merged_bad t c Em) in Hs. discriminate.
        -- apply unlex_nov, Ev.
      * destruct Hr as [Hr|Hr]; [|discriminate]. cbn [app].
        destruct (is_verify t2) eqn:Ev.
        -- destruct t2; try discriminate. rewrite !(unlex_pair t c _ Em). cbn [app]. f_equal.
           apply IH; [cbn [length] in Hl; lia|].
           destruct r2 as [|t3 r3]; [|exact Hs].
           destruct l as [|t' l']; [exact I|]. intros _. reflexivity.
        -- rewrite !(unlex_nov t t2 _ Ev). rewrite <- app_assoc. f_equal.
           apply (IH (t2 :: r2)); [lia|exact Hr].
    + cbn [app]. rewrite !(unlex_plain t _ Em). rewrite <- app_assoc. f_equal.
      destruct Hr as [Hr|Hr]; [apply IH; [lia|exact Hr]|subst; reflexivity].
Qed.

Lemma unlex_app a l : seam_ok a l -> unlex (a ++ l) = unlex a ++ unlex l.
Proof. apply (unlex_app_n (length a)). lia. Qed.

Lemma lastt_rev acc : lastt None (rev acc) = hd_error acc.
Proof. pose proof (hd_rev_app (rev acc) []) as H. rewrite rev_involutive, app_nil_r in H. symmetry. exact H. Qed.

(* ------------------------------------------------------------------ what the lexer guarantees about tokens *)
Definition tokb (t : token) : Prop :=
  match t with
  | TkNum n => n < 2147483648
  | TkHash20 d => blen d = 20 /\ is_bytes d
  | TkBytes32 d => blen d = 32 /\ is_bytes d
  | TkBytes33 d => blen d = 33 /\ is_bytes d
  | TkBytes65 d => blen d = 65 /\ is_bytes d
  | _ => True
  end.

(* ------------------------------------------------------------------ one instruction *)
Lemma pushdata_inv ll m r i rest : 76 <= m -> pushdata ll m r = NxIns i rest -> exists d, i = RPush d /\ 76 <= blen d.
Proof.
  intros Hm. unfold pushdata. destruct (take_n ll r) as [[lenb r1]|]; [|discriminate].
  destruct (N.ltb_spec (Z.to_N (le_val lenb)) m); [discriminate|].
  destruct (blen r1 <? _); [discriminate|].
  destruct (split_n _ r1) as [[d r']|] eqn:E; [|discriminate].
  intros H0. injection H0 as <- <-. exists d. split; [reflexivity|].
  apply split_n_spec in E. destruct E as [_ E]. lia.
Qed.

Definition nonmin1 (x : N) : bool := (x =? 129) || ((0 <? x) && (x <=? 16)).

Lemma next_instr_inv b i rest : next_instr b = NxIns i rest ->
  match i with
  | ROp c => b = c :: rest /\ 78 < c
  | RPush d => (b = blen d :: d ++ rest /\ blen d <= 75 /\ forall x, d = [x] -> nonmin1 x = false) \/ 76 <= blen d
  end.
Proof.
  unfold next_instr. destruct b as [|c r]; [discriminate|].
  assert (Hpd : forall ll m, 76 <= m -> pushdata ll m r = NxIns i rest ->
                match i with ROp c0 => c :: r = c0 :: rest /\ 78 < c0
                | RPush d => (c :: r = blen d :: d ++ rest /\ blen d <= 75 /\
                              forall x, d = [x] -> nonmin1 x = false) \/ 76 <= blen d end).
  { intros ll m Hm H. destruct (pushdata_inv ll m r i rest Hm H) as [d [-> Hd]]. right. exact Hd. }
  destruct (N.leb_spec c 75) as [Hc|Hc].
  - destruct (match r with [] => false | x :: _ => _ end) eqn:Enm; [discriminate|].
    destruct (split_n c r) as [[d r']|] eqn:E; [|discriminate].
    intros H0. injection H0 as <- <-. apply split_n_spec in E. destruct E as [E1 E2]. left.
    split; [rewrite E2, E1; reflexivity|]. split; [lia|].
    intros x Hx. subst d. cbn [app] in E1. subst r. change (blen [x]) with 1 in E2. subst c.
    exact Enm.
  - destruct (N.eqb_spec c 76); [apply Hpd; lia|]. destruct (N.eqb_spec c 77); [apply Hpd; lia|].
    destruct (N.eqb_spec c 78); [apply Hpd; lia|].
    intros H0. injection H0 as <- <-. split; [reflexivity|lia].
Qed.

Lemma next_instr_end b : next_instr b = NxEnd -> b = [].
Proof.
  unfold next_instr. destruct b as [|c r]; [reflexivity|].
  assert (Hpd : forall ll m, pushdata ll m r <> NxEnd).
  { intros ll m. unfold pushdata. destruct (take_n ll r) as [[lenb r1]|]; [|discriminate].
    destruct (_ <? m); [discriminate|]. destruct (blen r1 <? _); [discriminate|].
    destruct (split_n _ r1) as [[d r']|]; discriminate. }
  destruct (c <=? 75).
  - destruct (match r with [] => false | x :: _ => _ end); [discriminate|].
    destruct (split_n c r) as [[d r']|]; discriminate.
  - destruct (c =? 76); [intros H; destruct (Hpd _ _ H)|]. destruct (c =? 77); [intros H; destruct (Hpd _ _ H)|].
    destruct (c =? 78); [intros H; destruct (Hpd _ _ H)|discriminate].
Qed.

(* a push: exactly one token, which knows its bytes *)
Lemma push_tokens_canon d acc acc' : is_bytes d -> push_tokens d acc = LexOk acc' ->
  blen d <= 75 -> (forall x, d = [x] -> nonmin1 x = false) ->
  exists t, acc' = t :: acc /\ tok_bytes t = blen d :: d /\ tokb t /\ is_verify t = false.
Proof.
  intros Hb H Hl Hnm. unfold push_tokens in H.
  destruct (N.eqb_spec (blen d) 20) as [E|_]; [injection H as <-; eexists; repeat split; auto|].
  destruct (N.eqb_spec (blen d) 32) as [E|_]; [injection H as <-; eexists; repeat split; auto|].
  destruct (N.eqb_spec (blen d) 33) as [E|_]; [injection H as <-; eexists; repeat split; auto|].
  destruct (N.eqb_spec (blen d) 65) as [E|_]; [injection H as <-; eexists; repeat split; auto|].
  destruct (N.ltb_spec 4 (blen d)) as [|H4]; [discriminate|].
  destruct (num_minimal d) eqn:Em; [|discriminate]. cbn [negb] in H.
  destruct (Z.ltb_spec (num_decode d) 0) as [|Hz]; [discriminate|]. injection H as <-.
  destruct (num_encode_decode d Hb H4 Em Hz) as [Hed Hlt].
  remember (num_decode d) as z eqn:Ez.
  eexists. split; [reflexivity|]. split; [|split; [cbn [tokb]; lia|reflexivity]].
  cbn [tok_bytes]. rewrite Z2N.id by lia.
  destruct (N.eqb_spec (Z.to_N (z)) 0) as [E0|E0].
  - assert (z = 0%Z) as E by lia. rewrite E in Hed. cbn in Hed. subst d. reflexivity.
  - destruct (N.leb_spec (Z.to_N (z)) 16) as [E16|E16].
    + exfalso. assert (Hr : (1 <= z < 128)%Z) by lia.
      pose proof (num_encode_shape (z) ltac:(lia)) as Hs. rewrite Hed in Hs.
      inversion Hs; try lia.
      match goal with B : [_] = d |- _ => specialize (Hnm _ (eq_sym B)) end. unfold nonmin1 in Hnm. apply Bool.orb_false_elim in Hnm. destruct Hnm as [_ Hnm].
      unfold b0 in Hnm. rewrite Z.mod_small in Hnm by lia.
      destruct (N.ltb_spec 0 (Z.to_N (z))); [|lia].
      destruct (N.leb_spec (Z.to_N (z)) 16); [discriminate|lia].
    + rewrite Hed. unfold ser_push. destruct (N.leb_spec (blen d) 75); [reflexivity|lia].
Qed.

(* an opcode: one or two new tokens, which un-lex to that opcode byte *)
Lemma op_tokens_canon c acc acc' : op_tokens c acc = LexOk acc' ->
  exists new, acc' = rev new ++ acc /\ unlex new = [c] /\ seam_ok (rev acc) new /\ Forall tokb new.
Proof.
  intros H.
  assert (Hnum : forall acc0, (if (81 <=? c) && (c <=? 96) then LexOk (TkNum (c - 80) :: acc) else LexErr LeInvalidOpcode) = LexOk acc0 ->
                 exists new, acc0 = rev new ++ acc /\ unlex new = [c] /\ seam_ok (rev acc) new /\ Forall tokb new).
  { intros acc0 H0. destruct (N.leb_spec 81 c); [|discriminate]. destruct (N.leb_spec c 96); [|discriminate].
    cbn [andb] in H0. injection H0 as <-. exists [TkNum (c - 80)]. split; [reflexivity|]. split; [|split].
    - rewrite unlex_single. cbn [tok_bytes]. destruct (N.eqb_spec (c - 80) 0); [lia|].
      destruct (N.leb_spec (c - 80) 16); [|lia]. f_equal. lia.
    - cbn. discriminate.
    - constructor; [cbn; lia|constructor]. }
  assert (Hone : forall t, is_verify t = false -> unlex [t] = [c] -> tokb t ->
                 exists new, t :: acc = rev new ++ acc /\ unlex new = [c] /\ seam_ok (rev acc) new /\ Forall tokb new).
  { intros t Hv Hu Ht. exists [t]. split; [reflexivity|]. split; [exact Hu|]. split; [|constructor; [exact Ht|constructor]].
    cbn [seam_ok]. rewrite Hv. discriminate. }
  assert (Htwo : forall t, merged t = Some c ->
                 exists new, TkVerify :: t :: acc = rev new ++ acc /\ unlex new = [c] /\ seam_ok (rev acc) new /\ Forall tokb new).
  { intros t Hu. exists [t; TkVerify]. split; [reflexivity|]. split; [apply (unlex_pair t c [] Hu)|]. split.
    - cbn [seam_ok]. destruct t; cbn in Hu; try discriminate; cbn; discriminate.
    - destruct t; cbn in Hu; try discriminate; repeat constructor. }
  unfold op_tokens in H.
  repeat match type of H with
         | context [match ?x with _ => _ end] =>
           lazymatch x with
           | (_ && _)%bool => fail
           | _ => destruct x
           end
         end;
  try discriminate;
  try (apply Hnum; exact H);
  try (injection H as <-;
       first [ apply Htwo; reflexivity
             | apply Hone; [reflexivity|reflexivity|exact I]
             | (* OP_VERIFY after an allowed token *)
               exists [TkVerify]; split; [reflexivity|]; split; [reflexivity|]; split; [|repeat constructor];
               cbn [seam_ok]; intros _; rewrite lastt_rev; reflexivity ]).
Qed.

(* ------------------------------------------------------------------ the whole pass *)
Lemma push_tokens_big d acc acc' : 76 <= blen d -> push_tokens d acc = LexOk acc' -> False.
Proof.
  intros Hl H. unfold push_tokens in H.
  destruct (N.eqb_spec (blen d) 20); [lia|]. destruct (N.eqb_spec (blen d) 32); [lia|].
  destruct (N.eqb_spec (blen d) 33); [lia|]. destruct (N.eqb_spec (blen d) 65); [lia|].
  destruct (N.ltb_spec 4 (blen d)); [discriminate|lia].
Qed.

Lemma lex_go_canon : forall f b acc ts, is_bytes b -> lex_go f b acc = LexOk ts ->
  unlex ts = unlex (rev acc) ++ b /\ (Forall tokb acc -> Forall tokb ts).
Proof.
  induction f as [|f IH]; intros b acc ts Hb H; [discriminate|]. cbn [lex_go] in H.
  destruct (next_instr b) as [|i rest|e] eqn:E; [| |discriminate].
  - injection H as <-. apply next_instr_end in E. subst b. rewrite app_nil_r.
    split; [reflexivity|apply Forall_rev].
  - pose proof (next_instr_inv b i rest E) as Hi.
    destruct i as [d|c].
    + destruct (push_tokens d acc) as [acc'|] eqn:Ep; [|discriminate].
      destruct Hi as [[Eb [Hl Hnm]]|Hbig]; [|destruct (push_tokens_big d acc acc' Hbig Ep)].
      assert (Hbd : is_bytes d /\ is_bytes rest).
      { rewrite Eb in Hb. apply is_bytes_cons in Hb. destruct Hb as [_ Hb]. apply is_bytes_app in Hb. exact Hb. }
      destruct Hbd as [Hd Hrest].
      destruct (push_tokens_canon d acc acc' Hd Ep Hl Hnm) as [t [-> [Htb [Htk Hv]]]].
      destruct (IH rest (t :: acc) ts Hrest H) as [IH1 IH2]. split.
      * rewrite IH1. cbn [rev]. rewrite unlex_app by (cbn [seam_ok]; rewrite Hv; discriminate).
        rewrite unlex_single, Htb, Eb, <- app_assoc. reflexivity.
      * intros Ha. apply IH2. constructor; assumption.
    + destruct (op_tokens c acc) as [acc'|] eqn:Eo; [|discriminate].
      destruct Hi as [Eb Hc].
      assert (Hrest : is_bytes rest) by (rewrite Eb in Hb; apply is_bytes_cons in Hb; apply Hb).
      destruct (op_tokens_canon c acc acc' Eo) as [new [-> [Hu [Hs Hf]]]].
      destruct (IH rest (rev new ++ acc) ts Hrest H) as [IH1 IH2]. split.
      * rewrite IH1, rev_app_distr, rev_involutive, unlex_app by exact Hs.
        rewrite Hu, Eb, <- app_assoc. reflexivity.
      * intros Ha. apply IH2. apply Forall_app. split; [apply Forall_rev, Hf|exact Ha].
Qed.

(* lex is injective on byte strings: the bytes are a function of the tokens *)
Theorem lex_canonical b ts : is_bytes b -> lex b = LexOk ts -> unlex ts = b /\ Forall tokb ts.
Proof.
  intros Hb H. destruct (lex_go_canon _ b [] ts Hb H) as [H1 H2]. split; [exact H1|apply H2; constructor].
Qed.

Corollary lex_injective b1 b2 ts : is_bytes b1 -> is_bytes b2 -> lex b1 = LexOk ts -> lex b2 = LexOk ts -> b1 = b2.
Proof.
  intros H1 H2 L1 L2. rewrite <- (proj1 (lex_canonical b1 ts H1 L1)). apply (lex_canonical b2 ts H2 L2).
Qed.
