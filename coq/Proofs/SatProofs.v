(* The model of the satisfier only ever outputs entries of the specification table:
   whatever sat_dissat returns as a Stack, once completed with the caller's data, is an
   element of all_sat (resp. all_dsat).  With Theorem A this gives: every satisfaction the
   MODEL returns spends.  For all fragment nestings, both modes, all asset sets. *)
From Verif Require Import Exec Ser Ast Types TypeCheck SatSpec Sat ExecLemmas TheoremA.
From Coq Require Import Lia Permutation.

Section SatInTable.
  Variable ke : keyenv.
  Variable A : assets.
  Variable se : senv.
  Variable f : fill.

  Definition look (kd : hkind) : bytes -> option bytes :=
    match kd with HSha256 => a_sha256 A | HHash256 => a_hash256 A | HRipemd160 => a_ripemd160 A | HHash160 => a_hash160 A end.

  (* the satisfier's view of the assets (senv), the completion data (fill) and the
     specification's view (assets) describe the same holdings *)
  Record linked : Prop := {
    lk_sig : forall k, f_sig f k = a_sig A k;
    lk_sig_avail : forall k, se_sig se k = None <-> a_sig A k = None;
    lk_pre : forall kd h, f_pre f kd h = look kd h;
    lk_pre_avail : forall kd h, se_pre se kd h = true <-> look kd h <> None;
    lk_after : forall t, se_after se t = a_after A t;
    lk_older : forall t, se_older se t = a_older A t;
    lk_kb : forall k, f_keybytes f k = kb ke k
  }.
  Hypothesis L : linked.
  Hypothesis Hksort_len : forall ks, length (ksort ke ks) = length ks.

  Lemma fill_all_app l1 l2 bs : fill_all f (l1 ++ l2) = Some bs ->
    exists b1 b2, fill_all f l1 = Some b1 /\ fill_all f l2 = Some b2 /\ bs = b1 ++ b2.
  Proof.
    revert bs. induction l1 as [|p r IH]; intros bs H; cbn [app fill_all] in *.
    - exists [], bs. auto.
    - destruct (fill_ph f p) as [b|]; [|discriminate]. destruct (fill_all f (r ++ l2)) as [bs'|] eqn:E; [|discriminate].
      inversion H; subst. destruct (IH bs' eq_refl) as [b1 [b2 [H1 [H2 ->]]]]. exists (b :: b1), b2. rewrite H1. auto.
  Qed.

  Lemma concat_stack a b l : s_stack (concatenate_rev a b) = WStack l ->
    exists la lb, s_stack a = WStack la /\ s_stack b = WStack lb /\ l = lb ++ la.
  Proof.
    unfold concatenate_rev. destruct (is_imp (s_stack a) || is_imp (s_stack b)); [discriminate|].
    destruct (merge_lock rel_max (s_rel a) (s_rel b)); [|discriminate].
    destruct (merge_lock abs_max (s_abs a) (s_abs b)); [|discriminate].
    cbn [s_stack]. destruct (s_stack a) as [la| |], (s_stack b) as [lb| |]; cbn; try discriminate.
    intros H. inversion H. eauto.
  Qed.
  Lemma minimum_stack a b l : s_stack (minimum se a b) = WStack l -> s_stack a = WStack l \/ s_stack b = WStack l.
  Proof.
    unfold minimum. destruct (is_imp (s_stack a)); [auto|]. destruct (is_imp (s_stack b)); [auto|].
    destruct (s_has_sig a), (s_has_sig b); cbn [s_stack]; try discriminate; auto.
    destruct (wit_lt se (s_stack a) (s_stack b)); cbn [s_stack]; auto.
  Qed.
  Lemma minimum_mall_stack a b l : s_stack (minimum_mall se a b) = WStack l -> s_stack a = WStack l \/ s_stack b = WStack l.
  Proof.
    unfold minimum_mall. destruct (is_stack (s_stack a)); cbn [negb]; [|auto].
    destruct (is_stack (s_stack b)); cbn [negb]; [|auto].
    destruct (wit_lt se (s_stack a) (s_stack b)); cbn [s_stack]; auto.
  Qed.
  Definition min_fn (mall : bool) := if mall then minimum_mall se else minimum se.
  Lemma min_fn_stack mall a b l : s_stack (min_fn mall a b) = WStack l -> s_stack a = WStack l \/ s_stack b = WStack l.
  Proof. destruct mall; [apply minimum_mall_stack | apply minimum_stack]. Qed.

  Lemma cross_intro (S T : list wit) a b : In a S -> In b T -> In (a ++ b) (cross S T).
  Proof. intros. apply in_cross. eauto. Qed.

  Definition satok (m : ms) (s : satn) : Prop :=
    forall l bs, s_stack s = WStack l -> fill_all f l = Some bs -> In (rev bs) (all_sat ke A m).
  Definition disok (m : ms) (s : satn) : Prop :=
    forall l bs, s_stack s = WStack l -> fill_all f l = Some bs -> In (rev bs) (all_dsat ke A m).
  Definition in_table (m : ms) (ds : satn * satn) : Prop := disok m (fst ds) /\ satok m (snd ds).

  (* generic: concatenation of a left and a right part lands in a cross product *)
  Lemma concat_in (S T : list wit) a b :
    (forall l bs, s_stack a = WStack l -> fill_all f l = Some bs -> In (rev bs) S) ->
    (forall l bs, s_stack b = WStack l -> fill_all f l = Some bs -> In (rev bs) T) ->
    forall l bs, s_stack (concatenate_rev a b) = WStack l -> fill_all f l = Some bs -> In (rev bs) (cross S T).
  Proof.
    intros Ha Hb l bs Hs Hf. apply concat_stack in Hs. destruct Hs as [la [lb [Ea [Eb ->]]]].
    apply fill_all_app in Hf. destruct Hf as [b1 [b2 [F1 [F2 ->]]]]. rewrite rev_app_distr.
    apply cross_intro; [eapply Ha | eapply Hb]; eassumption.
  Qed.

  Lemma push_in (S : list wit) a (p : ph) (v : bytes) : fill_ph f p = Some v ->
    (forall l bs, s_stack a = WStack l -> fill_all f l = Some bs -> In (rev bs) S) ->
    forall l bs, s_stack (with_stack a (wcombine (s_stack a) (WStack [p]))) = WStack l -> fill_all f l = Some bs ->
      In (rev bs) (map (cons v) S).
  Proof.
    intros Hp Ha l bs Hs Hf. cbn [with_stack s_stack] in Hs. destruct (s_stack a) as [la| |] eqn:Ea; cbn in Hs; try discriminate.
    inversion Hs; subst. apply fill_all_app in Hf. destruct Hf as [b1 [b2 [F1 [F2 ->]]]].
    cbn [fill_all] in F2. rewrite Hp in F2. inversion F2; subst. rewrite rev_app_distr. cbn [rev app].
    apply in_map. eapply Ha; [reflexivity | exact F1].
  Qed.

  (* ---------- leaves ---------- *)
  Lemma sig_some k sz : se_sig se k = Some sz -> exists sg, a_sig A k = Some sg /\ f_sig f k = Some sg.
  Proof.
    intros H. destruct (a_sig A k) as [sg|] eqn:E.
    - exists sg. split; [reflexivity|]. rewrite (lk_sig L). exact E.
    - apply (lk_sig_avail L) in E. congruence.
  Qed.

  Lemma it_pk_k k : in_table (MPkK k) (sd_pk_k se k).
  Proof.
    split; intros l bs Hs Hf; cbn [sd_pk_k fst snd s_stack push_0] in Hs.
    - inversion Hs; subst. cbn in Hf. inversion Hf; subst. cbn. left. reflexivity.
    - unfold w_signature in Hs. destruct (se_sig se k) as [sz|] eqn:E; [|discriminate]. inversion Hs; subst.
      destruct (sig_some k sz E) as [sg [E1 E2]]. cbn in Hf. rewrite E2 in Hf. inversion Hf; subst.
      cbn. rewrite E1. left. reflexivity.
  Qed.
  Lemma it_pk_h k : in_table (MPkH k) (sd_pk_h se k).
  Proof.
    split; intros l bs Hs Hf; cbn [sd_pk_h fst snd s_stack] in Hs.
    - cbn in Hs. inversion Hs; subst. cbn in Hf. inversion Hf; subst. cbn. rewrite (lk_kb L). left. reflexivity.
    - unfold w_signature in Hs. destruct (se_sig se k) as [sz|] eqn:E; cbn in Hs; [|discriminate]. inversion Hs; subst.
      destruct (sig_some k sz E) as [sg [E1 E2]]. cbn in Hf. rewrite E2 in Hf. inversion Hf; subst.
      cbn. rewrite E1, (lk_kb L). left. reflexivity.
  Qed.
  Lemma it_hash kd h m : (sd ke A m = hash_sd (look kd) h) -> in_table m (sd_hash se kd h).
  Proof.
    intros Hm. unfold in_table, disok, satok, all_sat, all_dsat. rewrite Hm. unfold hash_sd. cbn [fst snd sd_hash s_stack].
    split; intros l bs Hs Hf.
    - inversion Hs; subst. cbn in Hf. inversion Hf; subst. left. reflexivity.
    - unfold w_preimage in Hs. destruct (se_pre se kd h) eqn:E; [|discriminate]. inversion Hs; subst.
      cbn in Hf. rewrite (lk_pre L) in Hf. destruct (look kd h) as [p|]; [|discriminate]. inversion Hf; subst.
      left. reflexivity.
  Qed.
  Lemma it_time (ok : bool) rhs t isabs m : sd ke A m = ((if ok then (@nil bytes :: nil) else (@nil wit)), @nil wit) -> in_table m (sd_time ok rhs t isabs).
  Proof.
    intros Hm. unfold in_table, disok, satok, all_sat, all_dsat. rewrite Hm. cbn [fst snd]. unfold sd_time.
    split; intros l bs Hs Hf; cbn [fst snd s_stack IMPOSSIBLE] in Hs; [discriminate|].
    destruct isabs; cbn [s_stack] in Hs; destruct ok; try (destruct rhs; discriminate);
      inversion Hs; subst; cbn in Hf; inversion Hf; subst; left; reflexivity.
  Qed.

  Lemma count_avail_cons key r : count_avail se (key :: r) =
    ((match se_sig se key with Some _ => 1 | None => 0 end) + count_avail se r)%nat.
  Proof. unfold count_avail. cbn [filter]. destruct (se_sig se key); reflexivity. Qed.

  (* multi: the first k available signatures, in key order *)
  Lemma take_avail_pick ks : forall k sigs, fill_all f (take_avail se k ks) = Some sigs ->
    (k <= count_avail se ks)%nat -> In sigs (pick_sigs A k ks).
  Proof.
    induction ks as [|key r IH]; intros k sigs Hf Hc; cbn [take_avail pick_sigs] in *.
    - cbn in Hf. inversion Hf; subst. destruct k; [left; reflexivity | cbn in Hc; lia].
    - rewrite count_avail_cons in Hc. destruct (se_sig se key) as [sz|] eqn:E.
      + destruct (sig_some key sz E) as [sg [E1 E2]]. destruct k as [|k'].
        * apply in_or_app. right. apply IH; [exact Hf | lia].
        * cbn [fill_all fill_ph] in Hf. rewrite E2 in Hf. destruct (fill_all f (take_avail se k' r)) as [ss|] eqn:F; [|discriminate].
          inversion Hf; subst. apply in_or_app. left. rewrite E1. apply in_map. apply IH; [exact F | lia].
      + assert (E1 : a_sig A key = None) by (apply (lk_sig_avail L); exact E).
        apply in_or_app. right. apply IH; [exact Hf | exact Hc].
  Qed.

  Lemma stack_inj (l l' : list ph) : WStack l = WStack l' -> l = l'.
  Proof. congruence. Qed.

  Lemma fill_repeat_zero n : fill_all f (repeat PhPushZero n) = Some (repeat [] n).
  Proof. induction n as [|n IH]; [reflexivity|]. cbn [repeat fill_all fill_ph]. rewrite IH. reflexivity. Qed.
  Lemma rev_repeat {X} (x : X) n : rev (repeat x n) = repeat x n.
  Proof.
    induction n as [|n IH]; [reflexivity|]. cbn [repeat rev]. rewrite IH. clear.
    induction n as [|n IH]; [reflexivity|]. cbn [repeat app]. rewrite IH. reflexivity.
  Qed.

  Lemma it_multi_gen k ks (S D : list wit) :
    S = map (fun sigs => rev sigs ++ [[]]) (pick_sigs A (N.to_nat k) ks) -> D = [repeat [] (Datatypes.S (N.to_nat k))] ->
    (forall l bs, s_stack (fst (sd_multi se k ks)) = WStack l -> fill_all f l = Some bs -> In (rev bs) D) /\
    (forall l bs, s_stack (snd (sd_multi se k ks)) = WStack l -> fill_all f l = Some bs -> In (rev bs) S).
  Proof.
    intros -> ->. unfold sd_multi. cbv zeta. destruct (Nat.ltb (count_avail se ks) (N.to_nat k)) eqn:Ec; cbn [fst snd s_stack];
    (split; intros l bs Hs Hf; [apply stack_inj in Hs; subst l; rewrite fill_repeat_zero in Hf; match type of Hf with Some ?x = Some _ => assert (Hb : bs = x) by congruence end; rewrite Hb, rev_repeat; left; reflexivity|]).
    - cbn in Hs. discriminate.
    - inversion Hs; subst. cbn [fill_all fill_ph] in Hf.
      destruct (fill_all f (take_avail se (N.to_nat k) ks)) as [sigs|] eqn:F; [|discriminate]. inversion Hf; subst.
      cbn [rev]. apply in_map_iff. exists sigs. split; [reflexivity|]. apply take_avail_pick; [exact F|].
      apply Nat.ltb_ge in Ec. exact Ec.
  Qed.

  (* multi_a *)
  Lemma pick_sigs_a_app K1 : forall K2 j1 j2 a b, In a (pick_sigs_a A j1 K1) -> In b (pick_sigs_a A j2 K2) ->
    In (a ++ b) (pick_sigs_a A (j1 + j2) (K1 ++ K2)).
  Proof.
    induction K1 as [|key r IH]; intros K2 j1 j2 a b Ha Hb; cbn [pick_sigs_a app] in *.
    - destruct j1; [|contradiction]. destruct Ha as [<-|[]]. exact Hb.
    - apply in_app_or in Ha. apply in_or_app. destruct Ha as [Ha|Ha].
      + left. destruct j1 as [|j1']; [contradiction|]. destruct (a_sig A key) as [sg|]; [|contradiction].
        apply in_map_iff in Ha. destruct Ha as [a' [<- Ha']]. cbn [Nat.add app]. apply in_map. apply IH; assumption.
      + right. apply in_map_iff in Ha. destruct Ha as [a' [<- Ha']]. cbn [app]. apply in_map. apply IH; assumption.
  Qed.

  Definition avail_count (ks : list key) := count_avail se ks.
  Lemma multi_a_fill_pick Lk : forall k bs, fill_all f (multi_a_fill se k Lk) = Some bs ->
    In (rev bs) (pick_sigs_a A (Nat.min k (count_avail se Lk)) (rev Lk)).
  Proof.
    induction Lk as [|key r IH]; intros k bs Hf; cbn [multi_a_fill rev] in *.
    - cbn in Hf. inversion Hf; subst. rewrite Nat.min_0_r. left. reflexivity.
    - rewrite count_avail_cons. destruct (se_sig se key) as [sz|] eqn:E.
      + destruct (sig_some key sz E) as [sg [E1 E2]]. destruct k as [|k'].
        * cbn [fill_all fill_ph] in Hf. destruct (fill_all f (multi_a_fill se 0 r)) as [bs'|] eqn:F; [|discriminate].
          inversion Hf; subst. cbn [rev]. specialize (IH 0%nat bs' F). cbn [Nat.min] in *.
          replace 0%nat with (0 + 0)%nat by reflexivity. apply pick_sigs_a_app; [exact IH|].
          cbn [pick_sigs_a]. apply in_or_app. right. left. reflexivity.
        * cbn [fill_all fill_ph] in Hf. rewrite E2 in Hf. destruct (fill_all f (multi_a_fill se k' r)) as [bs'|] eqn:F; [|discriminate].
          inversion Hf; subst. cbn [rev length]. specialize (IH k' bs' F).
          replace (Nat.min (S k') (1 + count_avail se r)) with (Nat.min k' (count_avail se r) + 1)%nat by lia.
          apply pick_sigs_a_app; [exact IH|]. cbn [pick_sigs_a]. rewrite E1. apply in_or_app. left. left. reflexivity.
      + cbn [fill_all fill_ph] in Hf. destruct (fill_all f (multi_a_fill se k r)) as [bs'|] eqn:F; [|discriminate].
        inversion Hf; subst. cbn [rev]. specialize (IH k bs' F).
        replace (Nat.min k (0 + count_avail se r)) with (Nat.min k (count_avail se r) + 0)%nat by lia.
        apply pick_sigs_a_app; [exact IH|]. cbn [pick_sigs_a].
        assert (E1 : a_sig A key = None) by (apply (lk_sig_avail L); exact E).
        apply in_or_app. right. left. reflexivity.
  Qed.

  Lemma count_avail_rev ks : count_avail se (rev ks) = count_avail se ks.
  Proof.
    unfold count_avail. induction ks as [|x r IH]; [reflexivity|]. cbn [rev filter].
    rewrite filter_app, app_length, IH. cbn [filter]. destruct (se_sig se x); cbn [length]; lia.
  Qed.

  Lemma it_multi_a_gen k ks :
    (forall l bs, s_stack (fst (sd_multi_a se k ks)) = WStack l -> fill_all f l = Some bs -> In (rev bs) [repeat [] (length ks)]) /\
    (forall l bs, s_stack (snd (sd_multi_a se k ks)) = WStack l -> fill_all f l = Some bs -> In (rev bs) (pick_sigs_a A (N.to_nat k) ks)).
  Proof.
    unfold sd_multi_a. cbv zeta. destruct (Nat.ltb (count_avail se ks) (N.to_nat k)) eqn:Ec; cbn [fst snd s_stack];
    (split; intros l bs Hs Hf; [apply stack_inj in Hs; subst l; rewrite fill_repeat_zero in Hf; match type of Hf with Some ?x = Some _ => assert (Hb : bs = x) by congruence end; rewrite Hb, rev_repeat; left; reflexivity|]).
    - cbn in Hs. discriminate.
    - inversion Hs; subst. apply multi_a_fill_pick in Hf. rewrite rev_involutive, count_avail_rev in Hf.
      apply Nat.ltb_ge in Ec. rewrite Nat.min_l in Hf by exact Ec. exact Hf.
  Qed.

  (* ---------- thresh ---------- *)
  Definition tcount (T : list (ms * satn * bool)) : nat := length (filter (fun t => snd t) T).

  Lemma flat_gen (T : list (ms * satn * bool)) :
    (forall x e b, In (x, e, b) T -> if b then satok x e else disok x e) ->
    forall acc l, s_stack (fold_left concatenate_rev (map (fun t => snd (fst t)) T) acc) = WStack l ->
    exists lacc lT, s_stack acc = WStack lacc /\ l = lT ++ lacc /\
      forall bT, fill_all f lT = Some bT ->
        In (rev bT) (thresh_comb (tcount T) (map (fun t => sd ke A (fst (fst t))) T)).
  Proof.
    induction T as [|[[x e] b] T' IH]; intros HT acc l Hs; cbn [map fold_left] in *.
    - exists l, []. repeat split; auto. intros bT Hf. cbn in Hf. inversion Hf; subst. left. reflexivity.
    - destruct (IH (fun x0 e0 b0 Hin => HT x0 e0 b0 (or_intror Hin)) _ _ Hs) as [lacc' [lT' [Ha [-> Hrest]]]].
      apply concat_stack in Ha. destruct Ha as [la [le [Ea [Ee ->]]]].
      exists la, (lT' ++ le). split; [exact Ea|]. split; [rewrite app_assoc; reflexivity|].
      intros bT Hf. apply fill_all_app in Hf. destruct Hf as [b1 [b2 [F1 [F2 ->]]]]. rewrite rev_app_distr.
      pose proof (HT x e b (or_introl eq_refl)) as Hx. specialize (Hrest b1 F1).
      cbn [thresh_comb fst snd]. destruct (sd ke A x) as [S D] eqn:Ex.
      unfold tcount in *. cbn [filter snd]. destruct b; cbn [length].
      + apply in_or_app. left. apply cross_intro; [|exact Hrest].
        unfold satok, all_sat in Hx. rewrite Ex in Hx. eapply Hx; eassumption.
      + apply in_or_app. right. apply cross_intro; [|exact Hrest].
        unfold disok, all_dsat in Hx. rewrite Ex in Hx. eapply Hx; eassumption.
  Qed.

  Lemma insert_perm {K} (le : K -> K -> bool) x l : Permutation (insert_by le x l) (x :: l).
  Proof.
    induction l as [|y r IH]; cbn [insert_by]; [reflexivity|]. destruct (le (snd y) (snd x)).
    - rewrite IH. apply perm_swap.
    - reflexivity.
  Qed.
  Lemma sort_perm {K} (le : K -> K -> bool) l : Permutation (sort_by le l) l.
  Proof.
    unfold sort_by. assert (H : forall acc, Permutation (fold_left (fun a x => insert_by le x a) l acc) (l ++ acc)).
    { induction l as [|x r IH]; intros acc; cbn [fold_left app]; [reflexivity|].
      rewrite IH. rewrite insert_perm. symmetry. apply Permutation_middle. }
    rewrite H, app_nil_r. reflexivity.
  Qed.

  Lemma chosen_count (chosen : list nat) n : NoDup chosen -> (forall i, In i chosen -> (i < n)%nat) ->
    length (filter (fun i => existsb (Nat.eqb i) chosen) (seq 0 n)) = length chosen.
  Proof.
    intros Hnd Hlt. apply Permutation_length. apply NoDup_Permutation.
    - apply NoDup_filter, seq_NoDup.
    - exact Hnd.
    - intros i. rewrite filter_In, in_seq, existsb_exists. split.
      + intros [_ [j [Hj Hij]]]. apply Nat.eqb_eq in Hij. subst. exact Hj.
      + intros Hi. split; [pose proof (Hlt i Hi); lia|]. exists i. split; [exact Hi | apply Nat.eqb_refl].
  Qed.

  Lemma firstn_incl {X} k (l : list X) x : In x (firstn k l) -> In x l.
  Proof. revert k. induction l as [|y r IH]; intros [|k] H; cbn in *; try contradiction. destruct H; [auto | right; eapply IH; eauto]. Qed.
  Lemma firstn_nodup {X} k (l : list X) : NoDup l -> NoDup (firstn k l).
  Proof.
    revert k. induction l as [|y r IH]; intros [|k] H; cbn; try constructor.
    - inversion H; subst. intros Hin. apply firstn_incl in Hin. contradiction.
    - inversion H; subst. apply IH. assumption.
  Qed.
  Lemma filter_map_len {X Y} (g : X -> Y) (p : Y -> bool) l :
    length (filter p (map g l)) = length (filter (fun x => p (g x)) l).
  Proof. induction l as [|x r IH]; [reflexivity|]. cbn. destruct (p (g x)); cbn; rewrite IH; reflexivity. Qed.

  (* children outputs and their in_table facts *)
  Lemma swap_in_table (xs : list ms) (ds : list (satn * satn)) (order : list nat) (k : nat) :
    length ds = length xs ->
    (forall i x d, nth_error xs i = Some x -> nth_error ds i = Some d -> in_table x d) ->
    Permutation order (seq 0 (length xs)) -> (k <= length xs)%nat ->
    forall l bs, s_stack (flatten_rev (swap_in (firstn k order) (map fst ds) (map snd ds))) = WStack l ->
      fill_all f l = Some bs -> In (rev bs) (thresh_comb k (map (sd ke A) xs)).
  Proof.
    intros Hlen Hin Hperm Hk l bs Hs Hf.
    set (chosen := firstn k order) in *.
    set (T := map (fun i => (nth i xs MTrue, (if existsb (Nat.eqb i) chosen then nth_sat (map snd ds) i else nth i (map fst ds) IMPOSSIBLE),
                             existsb (Nat.eqb i) chosen)) (seq 0 (length xs))).
    assert (HE : swap_in chosen (map fst ds) (map snd ds) = map (fun t => snd (fst t)) T).
    { unfold swap_in, T. rewrite map_length, Hlen, map_map. cbn [fst snd].
      assert (Hc : forall (dl : list satn) a, map (fun p => if existsb (Nat.eqb (fst p)) chosen then nth_sat (map snd ds) (fst p) else snd p)
                       (combine (seq a (length dl)) dl)
                   = map (fun i => if existsb (Nat.eqb i) chosen then nth_sat (map snd ds) i else nth (i - a) dl IMPOSSIBLE) (seq a (length dl))).
      { induction dl as [|d r IHd]; intros a; [reflexivity|]. cbn [length seq combine map fst snd].
        rewrite Nat.sub_diag. cbn [nth]. f_equal. rewrite IHd. apply map_ext_in. intros i Hi. apply in_seq in Hi.
        destruct (existsb (Nat.eqb i) chosen); [reflexivity|]. replace (i - a)%nat with (S (i - S a)) by lia. reflexivity. }
      specialize (Hc (map fst ds) 0%nat). rewrite map_length, Hlen in Hc. rewrite Hc.
      apply map_ext. intros i. rewrite Nat.sub_0_r. reflexivity. }
    assert (HC : map (fun t => sd ke A (fst (fst t))) T = map (sd ke A) xs).
    { unfold T. rewrite map_map. cbn [fst]. clear. 
      assert (G : forall (l : list ms) a, map (fun i => sd ke A (nth (i - a) l MTrue)) (seq a (length l)) = map (sd ke A) l).
      { induction l as [|x r IH]; intros a; [reflexivity|]. cbn [length seq map]. rewrite Nat.sub_diag. cbn [nth]. f_equal.
        rewrite <- (IH (S a)). apply map_ext_in. intros i Hi. apply in_seq in Hi. replace (i - a)%nat with (S (i - S a)) by lia. reflexivity. }
      specialize (G xs 0%nat). rewrite <- G. apply map_ext. intros i. rewrite Nat.sub_0_r. reflexivity. }
    assert (HT : forall x e b, In (x, e, b) T -> if b then satok x e else disok x e).
    { intros x e b Hi. unfold T in Hi. apply in_map_iff in Hi. destruct Hi as [i [Hi Hseq]]. apply in_seq in Hseq.
      inversion Hi; subst; clear Hi.
      assert (Hx : nth_error xs i = Some (nth i xs MTrue)) by (apply nth_error_nth'; lia).
      destruct (nth_error ds i) as [d|] eqn:Ed; [|apply nth_error_None in Ed; lia].
      destruct (Hin i _ d Hx Ed) as [Hd Hsat].
      assert (E1 : nth i (map fst ds) IMPOSSIBLE = fst d).
      { rewrite (nth_indep _ IMPOSSIBLE (fst (IMPOSSIBLE, IMPOSSIBLE))) by (rewrite map_length; lia).
        rewrite map_nth. erewrite nth_error_nth; [reflexivity | exact Ed]. }
      assert (E2 : nth_sat (map snd ds) i = snd d).
      { unfold nth_sat. rewrite (nth_indep _ IMPOSSIBLE (snd (IMPOSSIBLE, IMPOSSIBLE))) by (rewrite map_length; lia).
        rewrite map_nth. erewrite nth_error_nth; [reflexivity | exact Ed]. }
      destruct (existsb (Nat.eqb i) chosen); [rewrite E2; exact Hsat | rewrite E1; exact Hd]. }
    unfold flatten_rev in Hs. rewrite HE in Hs.
    destruct (flat_gen T HT TRIVIAL l Hs) as [lacc [lT [Ha [-> Hres]]]]. cbn in Ha. inversion Ha; subst.
    rewrite app_nil_r in Hf. specialize (Hres bs Hf). rewrite HC in Hres.
    assert (Hcount : tcount T = k).
    { unfold tcount, T. rewrite filter_map_len. cbn [snd].
      assert (Hnd : NoDup order) by (eapply Permutation_NoDup; [symmetry; exact Hperm | apply seq_NoDup]).
      rewrite chosen_count.
      - unfold chosen. apply firstn_length_le. rewrite (Permutation_length Hperm), seq_length. exact Hk.
      - apply firstn_nodup. exact Hnd.
      - intros i Hi. apply firstn_incl in Hi. eapply Permutation_in in Hi; [|exact Hperm]. apply in_seq in Hi. lia. }
    rewrite Hcount in Hres. exact Hres.
  Qed.

  (* constant-mask version: all dissatisfactions / all satisfactions *)
  Lemma flat_const (b : bool) (xs : list ms) (ds : list (satn * satn)) :
    Forall2 in_table xs ds ->
    forall l bs, s_stack (flatten_rev (map (fun d => if b then snd d else fst d) ds)) = WStack l ->
      fill_all f l = Some bs ->
      In (rev bs) (thresh_comb (if b then length xs else 0) (map (sd ke A) xs)).
  Proof.
    intros HF l bs Hs Hf.
    set (T := map (fun p => (fst p, (if b then snd (snd p) else fst (snd p)), b)) (combine xs ds)).
    assert (Hlen : length xs = length ds) by (clear -HF; induction HF; cbn; congruence).
    assert (HE : map (fun d => if b then snd d else fst d) ds = map (fun t => snd (fst t)) T).
    { unfold T. rewrite map_map. cbn [fst snd]. clear -Hlen. revert ds Hlen.
      induction xs as [|x r IH]; intros [|d ds] Hl; cbn in *; try lia; [reflexivity|]. f_equal. apply IH. lia. }
    assert (HC : map (fun t => sd ke A (fst (fst t))) T = map (sd ke A) xs).
    { unfold T. rewrite map_map. cbn [fst]. clear -Hlen. revert ds Hlen.
      induction xs as [|x r IH]; intros [|d ds] Hl; cbn in *; try lia; [reflexivity|]. f_equal. apply IH. lia. }
    assert (HT : forall x e b0, In (x, e, b0) T -> if b0 then satok x e else disok x e).
    { intros x e b0 Hi. unfold T in Hi. apply in_map_iff in Hi. destruct Hi as [[x' d] [Hi Hc]]. cbn [fst snd] in Hi. inversion Hi; subst x e b0; clear Hi.
      assert (Hxd : in_table x' d).
      { clear -HF Hc. induction HF as [|x0 d0 xs0 ds0 H0 HF' IH]; cbn in Hc; [contradiction|].
        destruct Hc as [Hc|Hc]; [inversion Hc; subst; exact H0 | apply IH, Hc]. }
      destruct Hxd as [Hd Hsat]. destruct b; assumption. }
    unfold flatten_rev in Hs. rewrite HE in Hs.
    destruct (flat_gen T HT TRIVIAL l Hs) as [lacc [lT [Ha [-> Hres]]]]. cbn in Ha. inversion Ha; subst.
    rewrite app_nil_r in Hf. specialize (Hres bs Hf). rewrite HC in Hres.
    assert (Hcount : tcount T = if b then length xs else 0%nat).
    { unfold tcount, T. rewrite filter_map_len. cbn [snd]. destruct b.
      - assert (Hf' : filter (fun _ : ms * (satn * satn) => true) (combine xs ds) = combine xs ds).
        { clear. induction (combine xs ds) as [|p r IH]; [reflexivity|]. cbn. rewrite IH. reflexivity. }
        rewrite Hf', combine_length. lia.
      - assert (Hf' : filter (fun _ : ms * (satn * satn) => false) (combine xs ds) = []).
        { clear. induction (combine xs ds) as [|p r IH]; [reflexivity|]. cbn. exact IH. }
        rewrite Hf'. reflexivity. }
    rewrite Hcount in Hres. exact Hres.
  Qed.

  Fixpoint kwf (m : ms) : Prop :=
    match m with
    | MAlt x | MSwap x | MCheck x | MDupIf x | MVerify x | MNonZero x | MZeroNotEqual x => kwf x
    | MAndV x y | MAndB x y | MOrB x y | MOrD x y | MOrC x y | MOrI x y => kwf x /\ kwf y
    | MAndOr a b c => kwf a /\ kwf b /\ kwf c
    | MThresh k xs => (1 <= k <= N.of_nat (length xs))%N /\
        (fix go (l : list ms) : Prop := match l with [] => True | x :: r => kwf x /\ go r end) xs
    | _ => True
    end.

  Lemma ds_thresh mall rhs xs :
    (fix go (l : list ms) : list (satn * satn) :=
       match l with [] => [] | x :: r => sat_dissat ke se mall rhs x :: go r end) xs
    = map (sat_dissat ke se mall rhs) xs.
  Proof. induction xs as [|x r IH]; [reflexivity|]. cbn [map]. rewrite <- IH. reflexivity. Qed.

  Lemma sd_thresh' k xs : sd ke A (MThresh k xs) =
    (thresh_comb (N.to_nat k) (map (sd ke A) xs), thresh_comb 0 (map (sd ke A) xs)).
  Proof.
    cbn [sd].
    assert (H : (fix go (l : list ms) : list (list wit * list wit) :=
                   match l with [] => [] | x :: r => sd ke A x :: go r end) xs = map (sd ke A) xs).
    { induction xs as [|x r IH]; [reflexivity|]. cbn [map]. rewrite <- IH. reflexivity. }
    rewrite H. reflexivity.
  Qed.

  Lemma order_perm {K} (le : K -> K -> bool) (g : nat -> K) n :
    Permutation (map fst (sort_by le (map (fun i => (i, g i)) (seq 0 n)))) (seq 0 n).
  Proof.
    rewrite (Permutation_map fst (sort_perm le _)). rewrite map_map. cbn [fst]. rewrite map_id. reflexivity.
  Qed.

  Lemma nostack_ok m (s : satn) : (forall l, s_stack s <> WStack l) -> satok m s /\ disok m s.
  Proof. intros H. split; intros l bs Hs; exfalso; exact (H l Hs). Qed.

  Lemma min_in (S : list wit) (mall : bool) a b :
    (forall l bs, s_stack a = WStack l -> fill_all f l = Some bs -> In (rev bs) S) ->
    (forall l bs, s_stack b = WStack l -> fill_all f l = Some bs -> In (rev bs) S) ->
    forall l bs, s_stack ((if mall then minimum_mall se else minimum se) a b) = WStack l -> fill_all f l = Some bs -> In (rev bs) S.
  Proof. intros Ha Hb l bs Hs Hf. apply (min_fn_stack mall) in Hs. destruct Hs; eauto. Qed.

  Lemma in_weaken_l (S T : list wit) (P : satn) :
    (forall l bs, s_stack P = WStack l -> fill_all f l = Some bs -> In (rev bs) S) ->
    (forall l bs, s_stack P = WStack l -> fill_all f l = Some bs -> In (rev bs) (S ++ T)).
  Proof. intros H l bs Hs Hf. apply in_or_app. left. eauto. Qed.
  Lemma in_weaken_r (S T : list wit) (P : satn) :
    (forall l bs, s_stack P = WStack l -> fill_all f l = Some bs -> In (rev bs) T) ->
    (forall l bs, s_stack P = WStack l -> fill_all f l = Some bs -> In (rev bs) (S ++ T)).
  Proof. intros H l bs Hs Hf. apply in_or_app. right. eauto. Qed.

  Theorem sat_in_table mall rhs : forall m, kwf m -> in_table m (sat_dissat ke se mall rhs m).
  Proof.
    induction m using ms_ind'; intros Hk; cbn [sat_dissat kwf] in *.
    - (* 1 *) split; intros l bs Hs Hf; cbn in Hs; [discriminate|]. inversion Hs; subst. cbn in Hf. inversion Hf. left. reflexivity.
    - (* 0 *) split; intros l bs Hs Hf; cbn in Hs; [|discriminate]. inversion Hs; subst. cbn in Hf. inversion Hf. left. reflexivity.
    - apply it_pk_k.
    - apply it_pk_h.
    - split; intros l bs Hs; cbn in Hs; discriminate.
    - apply it_time. cbn [sd]. rewrite (lk_after L). reflexivity.
    - apply it_time. cbn [sd]. rewrite (lk_older L). reflexivity.
    - apply (it_hash HSha256). reflexivity.
    - apply (it_hash HHash256). reflexivity.
    - apply (it_hash HRipemd160). reflexivity.
    - apply (it_hash HHash160). reflexivity.
    - (* a *) exact (IHm Hk).
    - exact (IHm Hk).
    - exact (IHm Hk).
    - (* d *) destruct (sat_dissat ke se mall rhs m) as [d0 sub] eqn:E. destruct (IHm Hk) as [_ Hs]. cbn [snd] in Hs.
      split; cbn [fst snd].
      + intros l bs Hl Hf. cbn in Hl. inversion Hl; subst. cbn in Hf. inversion Hf. cbn. left. reflexivity.
      + unfold satok, all_sat. cbn [sd fst]. apply (push_in _ sub PhPushOne [1%N]); [reflexivity | exact Hs].
    - (* v *) destruct (sat_dissat ke se mall rhs m) as [d0 sub] eqn:E. destruct (IHm Hk) as [_ Hs].
      split; cbn [fst snd]; [intros l bs Hl; cbn in Hl; discriminate | exact Hs].
    - (* j *) destruct (sat_dissat ke se mall rhs m) as [d0 sub] eqn:E. destruct (IHm Hk) as [_ Hs].
      split; cbn [fst snd]; [|exact Hs]. intros l bs Hl Hf. cbn in Hl. inversion Hl; subst. cbn in Hf. inversion Hf. cbn. left. reflexivity.
    - (* n *) exact (IHm Hk).
    - (* and_v *) destruct Hk as [H1 H2]. destruct (sat_dissat ke se mall rhs m1) as [ld ls] eqn:E1.
      destruct (sat_dissat ke se mall rhs m2) as [rd rs] eqn:E2. destruct (IHm1 H1) as [_ Hls]. destruct (IHm2 H2) as [Hrd Hrs].
      cbn [fst snd] in *. split; cbn [fst snd]; unfold satok, disok; [rewrite dsat_and_v | rewrite sat_and_v]; apply concat_in; assumption.
    - (* and_b *) destruct Hk as [H1 H2]. destruct (sat_dissat ke se mall rhs m1) as [ld ls] eqn:E1.
      destruct (sat_dissat ke se mall rhs m2) as [rd rs] eqn:E2. destruct (IHm1 H1) as [Hld Hls]. destruct (IHm2 H2) as [Hrd Hrs].
      cbn [fst snd] in *. split; cbn [fst snd]; unfold satok, disok, all_sat, all_dsat; rewrite sd_and_b; cbn [fst snd]; apply concat_in; assumption.
    - (* andor *) destruct Hk as [H1 [H2 H3]]. destruct (sat_dissat ke se mall rhs m1) as [ad asat] eqn:E1.
      destruct (sat_dissat ke se mall rhs m2) as [bd bsat] eqn:E2. destruct (sat_dissat ke se mall rhs m3) as [cd csat] eqn:E3.
      destruct (IHm1 H1) as [Had Has]. destruct (IHm2 H2) as [_ Hbs]. destruct (IHm3 H3) as [Hcd Hcs]. cbn [fst snd] in *.
      split; cbn [fst snd]; unfold satok, disok, all_sat, all_dsat; rewrite sd_andor; cbn [fst snd].
      + apply concat_in; assumption.
      + apply min_in; [apply in_weaken_l | apply in_weaken_r]; apply concat_in; assumption.
    - (* or_b *) destruct Hk as [H1 H2]. destruct (sat_dissat ke se mall rhs m1) as [ld ls] eqn:E1.
      destruct (sat_dissat ke se mall rhs m2) as [rd rs] eqn:E2. destruct (IHm1 H1) as [Hld Hls]. destruct (IHm2 H2) as [Hrd Hrs].
      cbn [fst snd] in *. split; cbn [fst snd]; unfold satok, disok, all_sat, all_dsat; rewrite sd_or_b; cbn [fst snd].
      + apply concat_in; assumption.
      + apply min_in; [apply in_weaken_l | apply in_weaken_r]; apply concat_in; assumption.
    - (* or_d *) destruct Hk as [H1 H2]. destruct (sat_dissat ke se mall rhs m1) as [ld ls] eqn:E1.
      destruct (sat_dissat ke se mall rhs m2) as [rd rs] eqn:E2. destruct (IHm1 H1) as [Hld Hls]. destruct (IHm2 H2) as [Hrd Hrs].
      cbn [fst snd] in *. split; cbn [fst snd]; unfold satok, disok, all_sat, all_dsat; rewrite sd_or_d; cbn [fst snd].
      + apply concat_in; assumption.
      + apply min_in; [apply in_weaken_l; exact Hls | apply in_weaken_r; apply concat_in; assumption].
    - (* or_c *) destruct Hk as [H1 H2]. destruct (sat_dissat ke se mall rhs m1) as [ld ls] eqn:E1.
      destruct (sat_dissat ke se mall rhs m2) as [rd rs] eqn:E2. destruct (IHm1 H1) as [Hld Hls]. destruct (IHm2 H2) as [_ Hrs].
      cbn [fst snd] in *. split; cbn [fst snd].
      + intros l bs Hl; cbn in Hl; discriminate.
      + unfold satok. rewrite sat_or_c. apply min_in; [apply in_weaken_l; exact Hls | apply in_weaken_r; apply concat_in; assumption].
    - (* or_i *) destruct Hk as [H1 H2]. destruct (sat_dissat ke se mall rhs m1) as [ld ls] eqn:E1.
      destruct (sat_dissat ke se mall rhs m2) as [rd rs] eqn:E2. destruct (IHm1 H1) as [Hld Hls]. destruct (IHm2 H2) as [Hrd Hrs].
      cbn [fst snd] in *. split; cbn [fst snd]; unfold satok, disok, all_sat, all_dsat; rewrite sd_or_i; cbn [fst snd];
      (apply min_in; [apply in_weaken_l; apply (push_in _ _ PhPushOne [1%N]); [reflexivity | assumption]
                     | apply in_weaken_r; apply (push_in _ _ PhPushZero []); [reflexivity | assumption]]).
    - (* thresh *) destruct Hk as [Hk Hkw]. rewrite ds_thresh.
      set (ds := map (sat_dissat ke se mall rhs) xs).
      assert (HF : Forall2 in_table xs ds).
      { unfold ds. clear Hk. induction H as [|x r Hx Hr IHr]; cbn [map]; constructor.
        - apply Hx. apply Hkw. - apply IHr. apply Hkw. }
      assert (Hlen : length ds = length xs) by (unfold ds; apply map_length).
      split; cbn [fst snd]; unfold satok, disok, all_sat, all_dsat; rewrite sd_thresh'; cbn [fst snd].
      + intros l bs Hs Hf. exact (flat_const false xs ds HF l bs Hs Hf).
      + destruct (N.eqb_spec k (N.of_nat (length xs))) as [Ekn|Ekn].
        * intros l bs Hs Hf. pose proof (flat_const true xs ds HF l bs Hs Hf) as Hr. cbn in Hr.
          replace (N.to_nat k) with (length xs) by lia. exact Hr.
        * assert (Hnth : forall i x d, nth_error xs i = Some x -> nth_error ds i = Some d -> in_table x d).
          { clear -HF. induction HF as [|x0 d0 xs0 ds0 H0 HF' IH]; intros [|i] x d Hx Hd; cbn in *; try discriminate.
            - inversion Hx; inversion Hd; subst. exact H0.
            - eapply IH; eassumption. }
          destruct mall.
          -- intros l bs Hs Hf. unfold thresh_mall in Hs. rewrite map_length, Hlen in Hs.
             eapply (swap_in_table xs ds _ (N.to_nat k) Hlen Hnth); [ | | exact Hs | exact Hf]; [apply order_perm | lia].
          -- intros l bs Hs Hf. unfold thresh_nonmall in Hs. rewrite map_length, Hlen in Hs. cbv zeta in Hs.
             destruct (is_imp _) in Hs; [cbn in Hs; discriminate|].
             destruct (negb _ && negb _) in Hs; [cbn in Hs; discriminate|].
             eapply (swap_in_table xs ds _ (N.to_nat k) Hlen Hnth); [ | | exact Hs | exact Hf]; [apply order_perm | lia].
    - (* multi *) unfold in_table, satok, disok, all_sat, all_dsat. cbn [sd fst snd]. apply (it_multi_gen k ks); reflexivity.
    - unfold in_table, satok, disok, all_sat, all_dsat. cbn [sd fst snd]. apply (it_multi_gen k (ksort ke ks)); reflexivity.
    - unfold in_table, satok, disok, all_sat, all_dsat. cbn [sd fst snd]. apply (it_multi_a_gen k ks).
    - unfold in_table, satok, disok, all_sat, all_dsat. cbn [sd fst snd].
      destruct (it_multi_a_gen k (ksort ke ks)) as [H1 H2]. split; [|exact H2].
      intros l bs Hs Hf. specialize (H1 l bs Hs Hf). rewrite Hksort_len in H1. exact H1.
  Qed.
End SatInTable.

(* wf (Theorem A's well-formedness) contains the threshold bounds kwf needs *)
Lemma wf_kwf e ke : forall m, wf e ke m -> kwf m.
Proof.
  induction m using ms_ind'; cbn [wf kwf]; try tauto; try (intros; exact I).
  intros [Hk [_ Hw]]. split; [exact Hk|]. clear Hk. induction H as [|x r Hx Hr IH]; [exact I|].
  destruct Hw as [H1 H2]. split; [apply Hx, H1 | apply IH, H2].
Qed.

(* Every satisfaction the MODEL of the satisfier returns is accepted by the Script semantics *)
Theorem model_satisfaction_spends (e : env) (ke : keyenv) (A : assets) (se : senv) (f : fill) :
  linked ke A se f -> (forall ks, length (ksort ke ks) = length ks) ->
  assets_ok e ke A -> (forall kbs, e_sigok e kbs [] = false) ->
  forall (mall rhs : bool) (m : ms) (t : ty),
    type_of m = ROk t -> c_base (t_corr t) = BB -> wf e ke m -> no_multi m ->
    forall bs, satisfy ke se f mall rhs m = Some bs -> accepts e (enc ke m) (rev bs) = true.
Proof.
  intros HL Hks HA Hse mall rhs m t Ht Hb Hwf Hnm bs Hsat.
  unfold satisfy in Hsat. destruct (s_stack (snd (sat_dissat ke se mall rhs m))) as [l| |] eqn:Es; try discriminate.
  destruct (sat_in_table ke A se f HL Hks mall rhs m (wf_kwf e ke m Hwf)) as [_ Hs].
  apply (witness_script_accepts e ke A HA Hse m t Ht Hb Hwf Hnm). exact (Hs l bs Es Hsat).
Qed.

(* Descriptor level, P2WSH: the witness [items ..., script] validates against the program
   sha256(script), provided the serialised script parses back (C04: ser_parse) and the
   standardness size limits hold for this script and witness (C09: the library's figures). *)
From Verif Require Import Spend.
Theorem model_wsh_spends (e : env) (ke : keyenv) (A : assets) (se : senv) (f : fill) :
  linked ke A se f -> (forall ks, length (ksort ke ks) = length ks) ->
  assets_ok (with_sv e SvWitnessV0) ke A -> (forall kbs, e_sigok e kbs [] = false) ->
  forall (mall rhs : bool) (m : ms) (t : ty),
    type_of m = ROk t -> c_base (t_corr t) = BB -> wf (with_sv e SvWitnessV0) ke m -> no_multi m ->
    forall bs, satisfy ke se f mall rhs m = Some bs ->
    let sb := serialize (enc ke m) in
    parse_script sb = Some (enc ke m) ->
    (blen sb <= 3600)%N -> (N.of_nat (length bs) <= 100)%N -> forallb (fun it => N.leb (blen it) 80) (rev bs) = true ->
    (count_nonpush_ops (enc ke m) <= 201)%N ->
    verify_wsh e (e_sha256 e sb) (bs ++ [sb]) = true.
Proof.
  intros HL Hks HA Hse mall rhs m t Ht Hb Hwf Hnm bs Hsat sb Hparse H1 H2 H3 H4.
  unfold verify_wsh. rewrite rev_app_distr. cbn [rev app].
  rewrite bytes_eqb_refl. cbn [andb].
  replace (N.leb (blen sb) 3600) with true by (symmetry; apply N.leb_le; exact H1).
  rewrite rev_length. replace (N.leb (N.of_nat (length bs)) 100) with true by (symmetry; apply N.leb_le; exact H2).
  rewrite H3. cbn [andb]. rewrite Hparse.
  replace (N.leb (blen sb) 10000) with true by (symmetry; apply N.leb_le; lia).
  replace (N.leb (count_nonpush_ops (enc ke m)) 201) with true by (symmetry; apply N.leb_le; exact H4).
  cbn [andb].
  pose proof (model_satisfaction_spends (with_sv e SvWitnessV0) ke A se f HL Hks HA Hse mall rhs m t Ht Hb Hwf Hnm bs Hsat) as Hacc.
  unfold accepts in Hacc. unfold final_ok.
  destruct (exec (with_sv e SvWitnessV0) (enc ke m) {| stk := rev bs; alt := [] |}) as [st|]; [|discriminate].
  exact Hacc.
Qed.
