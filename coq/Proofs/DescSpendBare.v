(* Dispatcher level for BARE outputs: the scriptPubKey is the script itself, so verify_spend must
   not mistake it for one of the four templates it tests first.  Witness-program / taproot shapes
   are excluded semantically (DescSpendProofs.accepted_not_wprog); the P2SH shape
   HASH160 <20 bytes> EQUAL is excluded syntactically: no encoding starts with OP_HASH160. *)
From Verif Require Import Exec Ser Spend Ast Types TypeCheck SatSpec Sat ExecLemmas TheoremA SatProofs.
From Verif Require Import CodecSpec SerProofs EncProofs DescSpendModel DescSpendPush DescSpendProofs.
From Coq Require Import Lia.
Local Open Scope N_scope.

Definition hd_ok (s : script) : bool :=
  match s with [] => false | IOp OP_HASH160 :: _ => false | _ => true end.

Lemma hd_ok_app a b : hd_ok a = true -> hd_ok (a ++ b) = true.
Proof. destruct a as [|i r]; [discriminate|]. intros H. exact H. Qed.
Lemma hd_ok_push_int n r : hd_ok (push_int n :: r) = true.
Proof. unfold push_int. destruct (n =? 0)%Z; [reflexivity|]. destruct (_ || _); reflexivity. Qed.
Lemma hd_ok_pv s : hd_ok s = true -> hd_ok (push_verify s) = true.
Proof.
  destruct s as [|i [|j r]]; [discriminate | | rewrite push_verify_cons; intros H; exact H].
  destruct i as [| |o|]; try reflexivity. destruct o; cbn; try reflexivity; discriminate.
Qed.

Theorem enc_hd_ok ke : forall m, hd_ok (enc ke m) = true.
Proof.
  induction m using ms_ind'; cbn [enc hash_frag app];
    try reflexivity; try apply hd_ok_push_int; try (apply hd_ok_app; assumption); try (apply hd_ok_pv; assumption).
  - (* thresh *) destruct xs as [|x0 rest]; [apply hd_ok_push_int|].
    inversion H; subst. rewrite <- app_assoc. apply hd_ok_app. assumption.
  - (* multi_a *) destruct ks; [apply hd_ok_push_int | reflexivity].
  - (* sortedmulti_a *) destruct (ksort ke ks); [apply hd_ok_push_int | reflexivity].
Qed.

Lemma spk_is_p2sh_inv spk h : spk_is_p2sh spk = Some h -> spk = 169 :: 20 :: h ++ [135] /\ blen h = 20.
Proof.
  unfold spk_is_p2sh. intros H. kill_match H.
  destruct (rev spk) as [|c hr] eqn:Er; [discriminate|]. kill_match H.
  destruct (N.eqb_spec (blen hr) 20) as [E|E]; [|discriminate]. inversion H; subst h.
  apply (f_equal (@rev byte)) in Er. rewrite rev_involutive in Er.
  subst spk. cbn [rev]. split; [reflexivity | rewrite blen_rev; exact E].
Qed.

Lemma encoding_not_p2sh ke m sb : parse_script sb = Some (enc ke m) -> spk_is_p2sh sb = None.
Proof.
  intros Hp. destruct (spk_is_p2sh sb) as [h|] eqn:E; [exfalso | reflexivity].
  apply spk_is_p2sh_inv in E. destruct E as [-> Hl].
  assert (Hs : serialize [IOp OP_HASH160; IPush h; IOp OP_EQUAL] = 169 :: 20 :: h ++ [135]).
  { cbn [serialize ser_instr opcode_byte app]. rewrite ser_push_short by lia. rewrite Hl. reflexivity. }
  rewrite <- Hs, ser_parse in Hp.
  - inversion Hp as [Hq]. pose proof (enc_hd_ok ke m) as Hh. rewrite <- Hq in Hh. discriminate.
  - cbn [wf_script wf_instr]. repeat split; try (apply wf_op_named; exact I). apply wf_push_long. lia.
Qed.

Section BareDispatch.
  Variable e : env.
  Variable ke : keyenv.
  Variable A : assets.
  Variable se : senv.
  Variable f : fill.
  Hypothesis HL : linked ke A se f.
  Hypothesis Hks : ksort_ok ke.
  Hypothesis Hse : forall kbs, e_sigok e kbs [] = false.
  Variables mall rhs : bool.
  Variable m : ms.
  Variable t : ty.
  Hypothesis Ht : type_of m = ROk t.
  Hypothesis Hb : c_base (t_corr t) = BB.
  Hypothesis Hnm : no_multi m.
  Variable bs : list bytes.
  Hypothesis Hsat : satisfy ke se f mall rhs m = Some bs.

  Theorem bare_dispatch commit_ok :
    assets_ok (with_sv e SvBase) ke A -> wf (with_sv e SvBase) ke m -> ms_wf Bare ke m ->
    Forall is_bytes bs ->
    forall ss, witness_to_scriptsig bs = Some ss ->
    blen (serialize ss) <= 1650 -> blen (encode ke m) <= 10000 -> count_nonpush_ops (enc ke m) <= 201 ->
    verify_spend e commit_ok (spk_bare (encode ke m)) (serialize ss) [] = true.
  Proof.
    intros HA Hwf Hmw Hbs ss Hss H1 H2 H3.
    pose proof (parse_encode Bare ke Hks m Hmw) as Hparse.
    pose proof (model_exec_ok e ke A se f HL Hks Hse mall rhs m t Ht Hb Hnm bs Hsat SvBase HA Hwf) as Hex.
    destruct (accepted_not_wprog _ _ _ _ Hparse Hex) as [N1 [N2 N3]].
    unfold verify_spend, spk_bare. rewrite N1, N2, (encoding_not_p2sh ke m _ Hparse), N3.
    exact (bare_spends e ke A se f HL Hks Hse mall rhs m t Ht Hb Hnm bs Hsat HA Hwf Hmw Hbs ss Hss H1 H2 H3).
  Qed.
End BareDispatch.
