(* Bridge between the denotational relation and the specification's table (Ms/SatSpec.v).
   (a) every table entry built from genuine assets is in the relation (Theorem A + Theorem B);
   (b) every CANONICAL witness ([Rcan]) is a table entry for the assets the witness itself exhibits
       ([assets_of W]), provided that material is unambiguous ([uniq_material]: at most one signature
       per key, at most one preimage per image among the elements of the witness).
   Together with [Rcan_R] : the table is the canonical part of what the script accepts; the clauses
   of Ms/DenotSpec.v guarded by [can = true -> ...] list everything else. *)
From Verif Require Import Exec Ser Ast Types TypeCheck SatSpec ExecLemmas Spec TypesSpec ScriptNumProofs TheoremA.
From Verif Require Import FrameBase FrameSound FrameDissat SignedLemmas DenotSpec DenotLemmas DenotComplete DenotSound DenotMain.
From Coq Require Import Lia.

(* ================= (b) canonical witness => table entry ================= *)
Section CanTable.
  Variable e : env.
  Variable ke : keyenv.
  Hypothesis Hse : forall kbs, e_sigok e kbs [] = false.
  Hypothesis Hksort : forall ks, length (ksort ke ks) = length ks.
  Variable W : wit.
  (* the keys [K] and hash images [P] for which the material of [W] has to be unambiguous *)
  Variable K : key -> Prop.
  Variable P : bytes -> Prop.
  Hypothesis HKs : forall ks, (forall k, In k ks -> K k) -> forall k, In k (ksort ke ks) -> K k.
  Hypothesis HU : uniq_material_on e ke K P W.
  Definition covers (m : ms) : Prop :=
    (forall k, In k (dn_keys m) -> K k) /\ (forall h, In h (dn_imgs m) -> P h).
  Notation AW := (assets_of e ke W).
  Notation RC := (Rg e ke true).

  Definition dn_tbl (m : ms) (s : bool) : list wit := if s then all_sat ke AW m else all_dsat ke AW m.

  Lemma find_sig k sg : K k -> In sg W -> sg <> [] -> e_sigok e (kb ke k) sg = true -> a_sig AW k = Some sg.
  Proof.
    intros HK Hin Hne Hok. cbn [assets_of a_sig]. unfold wfind_sig.
    destruct (find _ W) as [y|] eqn:Ef.
    - apply find_some in Ef. destruct Ef as [Hy Hp]. apply andb_prop in Hp. destruct Hp as [Hn Ho].
      f_equal. destruct HU as [Hu _]. apply (Hu k HK y sg); auto. intros ->. discriminate.
    - exfalso. apply (find_none _ _ Ef) in Hin. destruct sg; [congruence|]. cbn [dn_nonnil andb] in Hin. congruence.
  Qed.

  Lemma find_pre hf h x : uniq_pre_on P hf W -> P h -> In x W -> blen x = 32%N -> hf x = h -> wfind_pre hf W h = Some x.
  Proof.
    intros Hu HP Hin Hl Hh. unfold wfind_pre. destruct (find _ W) as [y|] eqn:Ef.
    - apply find_some in Ef. destruct Ef as [Hy Hp]. apply andb_prop in Hp. destruct Hp as [Hn Ho].
      apply N.eqb_eq in Hn. apply bytes_eqb_eq in Ho. f_equal. apply (Hu h HP); auto.
    - exfalso. apply (find_none _ _ Ef) in Hin. rewrite Hl, Hh, bytes_eqb_refl in Hin. discriminate.
  Qed.

  Lemma can_hash hf look h s w v : uniq_pre_on P hf W -> P h -> (forall h', look h' = wfind_pre hf W h') ->
    incl w W -> Rhash true hf h s w v -> In w (if s then fst (hash_sd look h) else snd (hash_sd look h)).
  Proof.
    intros Hu HP Hlook Hin [x [-> [Hl [_ [Hh Hc]]]]]. unfold hash_sd. destruct s; cbn [fst snd].
    - rewrite Hlook, (find_pre hf h x Hu HP (Hin x (or_introl eq_refl)) Hl Hh). left. reflexivity.
    - rewrite (Hc eq_refl eq_refl). left. reflexivity.
  Qed.

  Lemma incl_app_l {X} (a b c : list X) : incl (a ++ b) c -> incl a c.
  Proof. intros H x Hx. apply H, in_or_app. auto. Qed.
  Lemma incl_app_r {X} (a b c : list X) : incl (a ++ b) c -> incl b c.
  Proof. intros H x Hx. apply H, in_or_app. auto. Qed.
  Lemma incl_tl' {X} (a : X) b c : incl (a :: b) c -> incl b c.
  Proof. intros H x Hx. apply H. right. exact Hx. Qed.

  (* ---------- multi: CHECKMULTISIG's matching yields an in-order choice of keys ---------- *)
  Lemma SubV_nil_r Ks : SubV e Ks [].
  Proof. induction Ks; constructor; assumption. Qed.
  Lemma mm_sub_inv Ks : forall S, multisig_match e Ks S = true -> SubV e Ks S.
  Proof.
    induction Ks as [|kbs Ks IH]; intros S H.
    - destruct S; [constructor | discriminate].
    - destruct S as [|s S']; [apply SubV_nil_r|]. rewrite mm_unfold in H.
      destruct (Nat.ltb _ _); [discriminate|]. destruct (e_sigok e kbs s) eqn:Es.
      + apply SV_take; auto.
      + apply SV_skip; auto.
  Qed.

  Lemma sub_pick ks : (forall k, In k ks -> K k) ->
    forall S, SubV e (map (kb ke) ks) S -> incl S W -> In S (pick_sigs AW (length S) ks).
  Proof.
    induction ks as [|key r IH]; intros HK S H Hin; cbn [map] in H;
      [|assert (HKr : forall k, In k r -> K k) by (intros q Hq; apply HK; right; exact Hq); specialize (IH HKr)].
    - inversion H; subst. left. reflexivity.
    - cbn [pick_sigs]. apply in_or_app. inversion H; subst.
      + left. cbn [length]. assert (Hne : s <> []) by (intros ->; rewrite Hse in *; discriminate).
        rewrite (find_sig key s (HK key (or_introl eq_refl)) (Hin s (or_introl eq_refl)) Hne) by assumption.
        apply in_map. apply IH; [assumption | eapply incl_tl'; eassumption].
      + right. apply IH; assumption.
  Qed.

  Lemma repeat_snoc {X} (x : X) n : repeat x n ++ [x] = repeat x (S n).
  Proof. induction n as [|n IH]; [reflexivity|]. cbn [repeat app]. rewrite IH. reflexivity. Qed.

  Lemma can_cms k ks s w v : (forall q, In q ks -> K q) -> incl w W -> Rcms e k (map (kb ke) ks) s w v ->
    In w (if s then map (fun sigs => rev sigs ++ [[]]) (pick_sigs AW (N.to_nat k) ks) else [repeat [] (S (N.to_nat k))]).
  Proof.
    intros HK Hin [_ [sigs [-> [Hl [_ Hm]]]]]. destruct s.
    - apply mm_sub_inv, SubV_rev in Hm. rewrite rev_involutive in Hm.
      apply in_map_iff. exists (rev sigs). split; [rewrite rev_involutive; reflexivity|].
      rewrite <- Hl, <- (rev_length sigs). apply sub_pick; [exact HK | exact Hm|].
      intros x Hx. apply Hin, in_or_app. left. apply in_rev. exact Hx.
    - destruct Hm as [_ ->]. left. symmetry. apply repeat_snoc.
  Qed.

  (* ---------- multi_a ---------- *)
  Lemma can_csa ks : (forall q, In q ks -> K q) -> forall w j, incl w W -> Rcsa e ke ks w j -> In w (pick_sigs_a AW j ks).
  Proof.
    induction ks as [|key r IH]; intros HK w j Hin H; cbn [Rcsa] in H;
      [|assert (HKr : forall q, In q r -> K q) by (intros q Hq; apply HK; right; exact Hq); specialize (IH HKr)].
    - destruct H as [-> ->]. left. reflexivity.
    - destruct H as [sg [w' [-> [_ H]]]]. cbn [pick_sigs_a]. apply in_or_app.
      destruct H as [[-> H]|[Hne [Hok [j' [-> H]]]]].
      + right. apply in_map. apply IH; [eapply incl_tl'; eassumption | exact H].
      + left. rewrite (find_sig key sg (HK key (or_introl eq_refl)) (Hin sg (or_introl eq_refl)) Hne Hok).
        apply in_map. apply IH; [eapply incl_tl'; eassumption | exact H].
  Qed.
  Lemma csa_zero ks : forall w, Rcsa e ke ks w 0 -> w = repeat [] (length ks).
  Proof.
    induction ks as [|key r IH]; intros w H; cbn [Rcsa] in H.
    - destruct H as [-> _]. reflexivity.
    - destruct H as [sg [w' [-> [_ [[-> H]|[_ [_ [j' [Hj _]]]]]]]]]; [|discriminate].
      cbn [length repeat]. f_equal. apply IH, H.
  Qed.
  Lemma can_multi_a k ks (s : bool) w : (forall q, In q ks -> K q) -> incl w W ->
    (exists j, Rcsa e ke ks w j /\ s = N.eqb (N.of_nat j) k /\ (true = true -> s = false -> j = 0%nat)) ->
    In w (if s then pick_sigs_a AW (N.to_nat k) ks else [repeat [] (length ks)]).
  Proof.
    intros HK Hin [j [H [Hs Hc]]]. destruct s.
    - symmetry in Hs. apply N.eqb_eq in Hs. subst k. rewrite Nat2N.id. apply can_csa; assumption.
    - rewrite (Hc eq_refl eq_refl) in H. left. symmetry. apply csa_zero, H.
  Qed.

  (* ---------- thresh ---------- *)
  Lemma can_thr xs : Forall (fun x => forall s w v, incl w W -> RC x s w v -> In w (dn_tbl x s)) xs ->
    forall w j, incl w W -> Rthr (fun x => RC x) xs w j -> In w (thresh_comb j (map (sd ke AW) xs)).
  Proof.
    induction 1 as [|x r Hx _ IH]; intros w j Hin H.
    - destruct H as [-> ->]. left. reflexivity.
    - apply Rthr_cons in H. destruct H as [wx [wr [-> H]]]. cbn [map thresh_comb].
      destruct (sd ke AW x) as [sx dx] eqn:Ex. apply in_or_app.
      destruct H as [[j' [-> [H1 H2]]]|[H1 H2]].
      + left. apply in_cross. exists wx, wr. split; [|split; [|reflexivity]].
        * pose proof (Hx true wx _ (incl_app_l _ _ _ Hin) H1) as Hs. unfold dn_tbl, all_sat in Hs. rewrite Ex in Hs. exact Hs.
        * apply IH; [eapply incl_app_r; eassumption | exact H2].
      + right. apply in_cross. exists wx, wr. split; [|split; [|reflexivity]].
        * pose proof (Hx false wx _ (incl_app_l _ _ _ Hin) H1) as Hs. unfold dn_tbl, all_dsat in Hs. rewrite Ex in Hs. exact Hs.
        * apply IH; [eapply incl_app_r; eassumption | exact H2].
  Qed.

  Ltac cross_in a b := apply in_cross; exists a, b; split; [|split; [|reflexivity]].

  Ltac cv := match goal with HC : covers _ |- covers _ =>
    let C1 := fresh in let C2 := fresh in destruct HC as [C1 C2]; split; intros q Hq; [apply C1 | apply C2];
    cbn [dn_keys dn_imgs]; rewrite ?in_app_iff; auto end.

  Theorem can_table : forall m, covers m -> forall s w v, incl w W -> RC m s w v -> In w (dn_tbl m s).
  Proof.
    destruct HU as [_ [Hu1 [Hu2 [Hu3 Hu4]]]].
    induction m using ms_ind'; intros HC s w v Hin HR; cbn [Rg] in HR; unfold dn_tbl;
      repeat match goal with IH : covers ?x -> _ |- _ =>
        let Hc := fresh in assert (Hc : covers x) by cv; specialize (IH Hc); clear Hc end.
    - destruct HR as [-> [-> _]]. left. reflexivity.
    - destruct HR as [-> [-> _]]. left. reflexivity.
    - (* pk_k *) destruct HR as [sg [-> [-> [_ Hs]]]]. cbn [all_sat all_dsat sd fst snd]. destruct s.
      + destruct Hs as [Hne Hok]. rewrite (find_sig k sg (proj1 HC k (or_introl eq_refl)) (Hin sg (or_introl eq_refl)) Hne Hok). left. reflexivity.
      + subst sg. left. reflexivity.
    - (* pk_h *) destruct HR as [sg [-> [_ [[_ Hs] Hc]]]]. rewrite (Hc eq_refl) in *. cbn [all_sat all_dsat sd fst snd]. destruct s.
      + destruct Hs as [Hne Hok]. rewrite (find_sig k sg (proj1 HC k (or_introl eq_refl)) (Hin sg (or_intror (or_introl eq_refl))) Hne Hok). left. reflexivity.
      + subst sg. left. reflexivity.
    - destruct HR as [HF _]. discriminate.
    - (* after *) destruct HR as [-> [-> [_ Hc]]]. cbn [all_sat sd fst assets_of a_after]. rewrite Hc. left. reflexivity.
    - destruct HR as [-> [-> [_ Hc]]]. cbn [all_sat sd fst assets_of a_older]. rewrite Hc. left. reflexivity.
    - pose proof (can_hash _ (a_sha256 AW) h s w v Hu1 (proj2 HC h (or_introl eq_refl)) (fun _ => eq_refl) Hin HR) as H. destruct s; exact H.
    - pose proof (can_hash _ (a_hash256 AW) h s w v Hu2 (proj2 HC h (or_introl eq_refl)) (fun _ => eq_refl) Hin HR) as H. destruct s; exact H.
    - pose proof (can_hash _ (a_ripemd160 AW) h s w v Hu3 (proj2 HC h (or_introl eq_refl)) (fun _ => eq_refl) Hin HR) as H. destruct s; exact H.
    - pose proof (can_hash _ (a_hash160 AW) h s w v Hu4 (proj2 HC h (or_introl eq_refl)) (fun _ => eq_refl) Hin HR) as H. destruct s; exact H.
    - (* a: *) exact (IHm s w v Hin HR).
    - (* s: *) exact (IHm s w v Hin HR).
    - (* c: *) destruct HR as [_ [key HR]]. exact (IHm s w key Hin HR).
    - (* d: *) destruct HR as [-> [_ [Hx Hc]]]. rewrite (Hc eq_refl). cbn [all_sat all_dsat sd fst snd]. destruct s.
      + apply (in_map (cons [1%N])). exact (IHm true [] [] ltac:(intros x []) (Hx eq_refl)).
      + left. reflexivity.
    - (* v: *) destruct HR as [-> [_ [v' HR]]]. exact (IHm true w v' Hin HR).
    - (* j: *) destruct HR as [[-> [-> _]]|[a [r [_ [_ [_ [HR Hc]]]]]]].
      + left. reflexivity.
      + rewrite (Hc eq_refl) in *. exact (IHm true w v Hin HR).
    - (* n: *) destruct HR as [_ [v' [HR _]]]. exact (IHm s w v' Hin HR).
    - (* and_v *) destruct HR as [wx [wy [-> [Hx Hy]]]].
      pose proof (IHm1 true wx _ (incl_app_l _ _ _ Hin) Hx) as H1. pose proof (IHm2 s wy _ (incl_app_r _ _ _ Hin) Hy) as H2.
      unfold dn_tbl in H1, H2. destruct s; [rewrite sat_and_v | rewrite dsat_and_v]; cross_in wx wy; assumption.
    - (* and_b *) destruct HR as [wx [wy [vx [vy [sx [sy [-> [Hx [Hy [_ [_ [Hs [_ Hc]]]]]]]]]]]]].
      rewrite <- (Hc eq_refl) in *. assert (sx = s) by (destruct sx; auto). subst sx.
      pose proof (IHm1 s wx _ (incl_app_l _ _ _ Hin) Hx) as H1. pose proof (IHm2 s wy _ (incl_app_r _ _ _ Hin) Hy) as H2.
      unfold dn_tbl in H1, H2. unfold all_sat, all_dsat. rewrite sd_and_b. destruct s; cbn [fst snd]; cross_in wx wy; assumption.
    - (* andor *) destruct HR as [wa [w' [va [-> [[Ha [_ [Hb Hc]]]|[Ha [_ Hc]]]]]]].
      + rewrite (Hc eq_refl) in *.
        pose proof (IHm1 true wa _ (incl_app_l _ _ _ Hin) Ha) as H1. pose proof (IHm2 true w' _ (incl_app_r _ _ _ Hin) Hb) as H2.
        unfold dn_tbl in H1, H2. unfold all_sat. rewrite sd_andor. cbn [fst]. apply in_or_app. left. cross_in wa w'; assumption.
      + pose proof (IHm1 false wa _ (incl_app_l _ _ _ Hin) Ha) as H1. pose proof (IHm3 s w' _ (incl_app_r _ _ _ Hin) Hc) as H2.
        unfold dn_tbl in H1, H2. unfold all_sat, all_dsat. rewrite sd_andor. destruct s; cbn [fst snd].
        * apply in_or_app. right. cross_in wa w'; assumption.
        * cross_in wa w'; assumption.
    - (* or_b *) destruct HR as [wx [wy [vx [vy [sx [sy [-> [Hx [Hy [_ [_ [Hs [_ Hc]]]]]]]]]]]]]. specialize (Hc eq_refl).
      pose proof (IHm1 sx wx _ (incl_app_l _ _ _ Hin) Hx) as H1. pose proof (IHm2 sy wy _ (incl_app_r _ _ _ Hin) Hy) as H2.
      unfold dn_tbl in H1, H2. unfold all_sat, all_dsat. rewrite sd_or_b.
      destruct sx, sy; try discriminate; subst s; cbn [orb fst snd].
      * apply in_or_app. right. cross_in wx wy; assumption.
      * apply in_or_app. left. cross_in wx wy; assumption.
      * cross_in wx wy; assumption.
    - (* or_d *) unfold all_sat, all_dsat. rewrite sd_or_d. destruct HR as [[-> [Hx _]]|[wx [wy [vx [-> [Hx [_ Hy]]]]]]].
      + cbn [fst]. apply in_or_app. left. exact (IHm1 true w v Hin Hx).
      + pose proof (IHm1 false wx _ (incl_app_l _ _ _ Hin) Hx) as H1. pose proof (IHm2 s wy _ (incl_app_r _ _ _ Hin) Hy) as H2.
        unfold dn_tbl in H1, H2. destruct s; cbn [fst snd].
        * apply in_or_app. right. cross_in wx wy; assumption.
        * cross_in wx wy; assumption.
    - (* or_c *) destruct HR as [-> [_ HR]]. rewrite sat_or_c. apply in_or_app.
      destruct HR as [[vx [Hx _]]|[wx [wy [vx [-> [Hx [_ Hy]]]]]]].
      + left. exact (IHm1 true w vx Hin Hx).
      + right. pose proof (IHm1 false wx _ (incl_app_l _ _ _ Hin) Hx) as H1. pose proof (IHm2 true wy _ (incl_app_r _ _ _ Hin) Hy) as H2.
        cross_in wx wy; assumption.
    - (* or_i *) destruct HR as [sel [w' [b [-> [_ [HR Hc]]]]]]. rewrite (Hc eq_refl). unfold all_sat, all_dsat. rewrite sd_or_i.
      destruct b; cbn [bool_bytes].
      + pose proof (IHm1 s w' v (incl_tl' _ _ _ Hin) HR) as H1. unfold dn_tbl in H1.
        destruct s; cbn [fst snd]; apply in_or_app; left; apply in_map; exact H1.
      + pose proof (IHm2 s w' v (incl_tl' _ _ _ Hin) HR) as H1. unfold dn_tbl in H1.
        destruct s; cbn [fst snd]; apply in_or_app; right; apply in_map; exact H1.
    - (* thresh *) destruct HR as [_ [j [HT [Hs Hc]]]]. unfold all_sat, all_dsat. rewrite sd_thresh.
      assert (H' : Forall (fun x => forall s w v, incl w W -> RC x s w v -> In w (dn_tbl x s)) xs).
      { rewrite Forall_forall in H |- *. intros x Hx. apply (H x Hx). destruct HC as [C1 C2].
        split; intros q Hq; [apply C1 | apply C2]; cbn [dn_keys dn_imgs]; apply in_flat_map; exists x; auto. }
      pose proof (can_thr xs H' w j Hin HT) as Hin'. destruct s; cbn [fst snd].
      + symmetry in Hs. apply N.eqb_eq in Hs. subst k. rewrite Nat2N.id. exact Hin'.
      + rewrite (Hc eq_refl eq_refl) in Hin'. exact Hin'.
    - (* multi *) pose proof (can_cms k ks s w v (proj1 HC) Hin HR) as Hc. destruct s; exact Hc.
    - (* sortedmulti *) pose proof (can_cms k (ksort ke ks) s w v (HKs ks (proj1 HC)) Hin HR) as Hc. destruct s; exact Hc.
    - (* multi_a *) destruct HR as [_ HR]. pose proof (can_multi_a k ks s w (proj1 HC) Hin HR) as Hc. destruct s; exact Hc.
    - (* sortedmulti_a *) destruct HR as [_ HR]. pose proof (can_multi_a k (ksort ke ks) s w (HKs ks (proj1 HC)) Hin HR) as Hc.
      rewrite Hksort in Hc. destruct s; exact Hc.
  Qed.
End CanTable.

(* the assets a witness exhibits are genuine *)
Lemma assets_of_ok (e : env) (ke : keyenv) (W : wit) :
  keys_ok e ke -> (forall x, In x W -> (blen x < 2147483648)%N) -> assets_ok e ke (assets_of e ke W).
Proof.
  intros [K1 K2 K3] Hlen.
  assert (Hpre : forall hf h p, wfind_pre hf W h = Some p -> hf p = h /\ blen p = 32%N).
  { intros hf h p Hf. apply find_some in Hf. destruct Hf as [_ Hp]. apply andb_prop in Hp. destruct Hp as [H1 H2].
    apply N.eqb_eq in H1. apply bytes_eqb_eq in H2. auto. }
  constructor; cbn [assets_of a_sig a_sha256 a_hash256 a_ripemd160 a_hash160 a_after a_older]; auto.
  intros k s Hf. apply find_some in Hf. destruct Hf as [Hin Hp]. apply andb_prop in Hp. destruct Hp as [H1 H2].
  split; [exact H2|]. split; [|apply Hlen, Hin]. destruct s; [discriminate|]. unfold blen. cbn [length]. lia.
Qed.

(* a witness without any valid signature exhibits no signature asset: its table is the
   signature-free one (starting point for the uniqueness-of-dissatisfaction property e) *)
Lemma assets_of_sigfree (e : env) (ke : keyenv) (W : wit) :
  (forall k sg, In sg W -> e_sigok e (kb ke k) sg = true -> sg = []) ->
  forall k, a_sig (assets_of e ke W) k = None.
Proof.
  intros Hf k. cbn [assets_of a_sig]. unfold wfind_sig. destruct (find _ W) as [y|] eqn:Ef; [|reflexivity].
  apply find_some in Ef. destruct Ef as [Hy Hp]. apply andb_prop in Hp. destruct Hp as [Hn Ho].
  rewrite (Hf k y Hy Ho) in Hn. discriminate.
Qed.

(* (b), closed: a canonical witness is an entry of the table of its own assets *)
Theorem Rcan_in_table (e : env) (ke : keyenv) (m : ms) (s : bool) (w : wit) (v : bytes) :
  (forall kbs, e_sigok e kbs [] = false) -> (forall ks, length (ksort ke ks) = length ks) ->
  uniq_material e ke w -> Rcan e ke m s w v ->
  In w (if s then all_sat ke (assets_of e ke w) m else all_dsat ke (assets_of e ke w) m).
Proof.
  intros Hse Hks HU HR.
  refine (can_table e ke Hse Hks w (fun _ => True) (fun _ => True) (fun _ _ _ _ => I) _ m (conj (fun _ _ => I) (fun _ _ => I)) s w v (fun x Hx => Hx) HR).
  destruct HU as [U0 [U1 [U2 [U3 U4]]]].
  split; [intros k _; apply U0|].
  repeat split; intros h _ x1 x2 I1 I2 L1 L2 E1 E2; [apply U1 | apply U2 | apply U3 | apply U4]; auto; congruence.
Qed.

(* (b), restricted: only the keys and hash images OF [m] have to be unambiguous in the witness *)
Theorem Rcan_in_table_of (e : env) (ke : keyenv) (m : ms) (s : bool) (w : wit) (v : bytes) :
  (forall kbs, e_sigok e kbs [] = false) -> (forall ks, length (ksort ke ks) = length ks) ->
  (forall ks k, In k (ksort ke ks) -> In k ks) ->
  uniq_material_of e ke m w -> Rcan e ke m s w v ->
  In w (if s then all_sat ke (assets_of e ke w) m else all_dsat ke (assets_of e ke w) m).
Proof.
  intros Hse Hks Hkin HU HR.
  refine (can_table e ke Hse Hks w (fun k => In k (dn_keys m)) (fun h => In h (dn_imgs m)) _ HU m
            (conj (fun _ H => H) (fun _ H => H)) s w v (fun x Hx => Hx) HR).
  (* keys of sortedmulti / sortedmulti_a: a sub-list [ks] of the keys of m, sorted *)
  intros ks Hall k Hk. apply Hall, Hkin, Hk.
Qed.

(* ================= (a) table entry => relation ================= *)
Section TableR.
  Variable e : env.
  Variable ke : keyenv.
  Variable A : assets.
  Hypothesis HA : assets_ok e ke A.
  Hypothesis Hse : forall kbs, e_sigok e kbs [] = false.

  Theorem table_in_R (m : ms) (t : ty) : type_of m = ROk t -> wf e ke m -> no_multi m ->
    (forall w, In w (all_sat ke A m) -> Rsat e ke m w) /\
    (c_base (t_corr t) <> BV -> forall w, In w (all_dsat ke A m) -> Rdsat e ke m w).
  Proof.
    intros Ht Hwf Hnm. destruct (theoremA_closed e ke A HA Hse m t Ht Hwf Hnm) as [Hg _].
    pose proof (theoremB e ke m t Ht Hwf) as HB. unfold good in Hg.
    destruct (c_base (t_corr t)).
    - (* B *) destruct Hg as [Hs Hd]. split; [|intros _]; intros w Hin.
      + destruct (Hs w [] [] Hin) as [v [Hr [Htv _]]]. destruct (HB _ _ _ Hr) as [w' [rest [v' [H1 [H2 H3]]]]].
        inversion H2; subst v' rest. apply app_inv_tail in H1. subst w'. rewrite Htv in H3. exists v. exact H3.
      + pose proof (Hd w [] [] Hin) as Hr. destruct (HB _ _ _ Hr) as [w' [rest [v' [H1 [H2 H3]]]]].
        inversion H2; subst v' rest. apply app_inv_tail in H1. subst w'. exists []. exact H3.
    - (* K *) destruct Hg as [Hs Hd]. split; [|intros _]; intros w Hin.
      + destruct (Hs w [] [] Hin) as [kbs [sg [Hr [Hk [Hok Hne]]]]]. destruct (HB _ _ _ Hr) as [c [rest [key [H1 [H2 H3]]]]].
        inversion H2; subst key rest. exists kbs.
        replace w with (c ++ [sg]); [apply H3; repeat split; assumption|].
        apply (app_inv_tail []). rewrite <- app_assoc. symmetry. exact H1.
      + destruct (Hd w [] [] Hin) as [kbs [Hr Hk]]. destruct (HB _ _ _ Hr) as [c [rest [key [H1 [H2 H3]]]]].
        inversion H2; subst key rest. exists kbs.
        replace w with (c ++ [[]]); [apply H3; repeat split; assumption|].
        apply (app_inv_tail []). rewrite <- app_assoc. symmetry. exact H1.
    - (* V *) split; [|intros Hne; exfalso; apply Hne; reflexivity]. intros w Hin.
      + pose proof (Hg w [] [] Hin) as Hr. destruct (HB _ _ _ Hr) as [w' [rest [H1 [H2 H3]]]].
        inversion H2; subst rest. apply app_inv_tail in H1. subst w'. exists []. exact H3.
    - (* W *) destruct Hg as [Hs Hd]. split; [|intros _]; intros w Hin.
      + destruct (Hs w [] [] [] Hin) as [v [Hr [Htv _]]].
        assert (Hx : exists r, exec e (enc ke m) (mkSt ([] :: w ++ []) []) = Ok r /\ (r = mkSt (v :: [] :: []) [] \/ r = mkSt ([] :: v :: []) []))
          by (destruct Hr as [Hr|Hr]; eauto).
        destruct Hx as [r [Hx Hr']]. destruct (HB _ _ _ Hx) as [c0 [w' [rest [v' [above [H1 [H2 H3]]]]]]].
        inversion H1; subst c0. assert (E : rest = [] /\ v' = v).
        { subst r. destruct above, Hr' as [Hr'|Hr']; cbn [app] in Hr'; inversion Hr'; subst; auto.
          all: try (split; [reflexivity|]; reflexivity). }
        destruct E as [-> ->]. apply app_inv_tail in H4. subst w'. rewrite Htv in H3. exists v. exact H3.
      + pose proof (Hd w [] [] [] Hin) as Hr.
        assert (Hx : exists r, exec e (enc ke m) (mkSt ([] :: w ++ []) []) = Ok r /\ r = mkSt ([] :: [] :: []) [])
          by (destruct Hr as [Hr|Hr]; eauto).
        destruct Hx as [r [Hx ->]]. destruct (HB _ _ _ Hx) as [c0 [w' [rest [v' [above [H1 [H2 H3]]]]]]].
        inversion H1; subst c0. assert (E : rest = [] /\ v' = []).
        { destruct above; cbn [app] in H2; inversion H2; subst; auto. }
        destruct E as [-> ->]. apply app_inv_tail in H4. subst w'. exists []. exact H3.
  Qed.
End TableR.
