(* C14: how the finalizer's satisfier finds the key behind a raw key hash (pkh / c:pk_h in a
   decoded script): bip32_derivation first, else the partial signature that carries the key.
   Key-origin records are optional: a key whose signature is present is always found, and
   adding or removing derivation records cannot change which key is found. *)
From Coq Require Import List Bool NArith Arith Lia.
Import ListNotations.
From Verif Require Import PsbtModel PsbtLemmas.

Lemma lookup_In k v m : lookup k m = Some v -> In (k, v) m.
Proof.
  induction m as [|[k' v'] r IH]; simpl; [discriminate|].
  destruct (N.eqb_spec k k'); intros H.
  - inversion H; subst. left; auto.
  - right; auto.
Qed.

Section Pkh.
  Variable pkh_of : N -> N.

  Lemma find_key_sound h m k : find_key pkh_of h m = Some k -> pkh_of k = h /\ exists v, In (k, v) m.
  Proof.
    unfold find_key. destruct (find (fun kv => (pkh_of (fst kv) =? h)%N) m) as [[k0 v0]|] eqn:F; simpl; [|discriminate].
    intros H; inversion H; subst. apply find_some in F. destruct F as [Hin Hh]. simpl in Hh.
    apply N.eqb_eq in Hh. split; auto. eauto.
  Qed.

  Lemma find_key_complete h m k v : In (k, v) m -> pkh_of k = h -> find_key pkh_of h m <> None.
  Proof.
    intros Hin Hh. unfold find_key.
    destruct (find (fun kv => (pkh_of (fst kv) =? h)%N) m) eqn:F; simpl; [discriminate|].
    pose proof (find_none _ _ F _ Hin) as N0. simpl in N0. apply N.eqb_neq in N0. congruence.
  Qed.

  (* ================= a key whose signature is present is found ================= *)
  Theorem resolve_pkh_from_sig : forall a h k s,
    lookup k (i_psigs a) = Some s -> pkh_of k = h ->
    exists k', resolve_pkh pkh_of a h = Some k' /\ pkh_of k' = h.
  Proof.
    intros a h k s Hl Hh. unfold resolve_pkh.
    destruct (find_key pkh_of h (i_bip32 a)) as [k1|] eqn:F1.
    - exists k1. split; auto. apply (find_key_sound _ _ _ F1).
    - destruct (find_key pkh_of h (i_psigs a)) as [k2|] eqn:F2.
      + exists k2. split; auto. apply (find_key_sound _ _ _ F2).
      + exfalso. eapply find_key_complete; eauto using lookup_In.
  Qed.

  (* tap leaves: the x-only key is found in tap_key_origins or in the tap_script_sigs made with it *)
  Theorem resolve_pkh_tap_from_sig : forall xonly_of a h kl s,
    lookup kl (i_tapsigs a) = Some s -> pkh_of (xonly_of kl) = h ->
    exists k', resolve_pkh_tap pkh_of xonly_of a h = Some k' /\ pkh_of k' = h.
  Proof.
    intros xonly_of a h kl s Hl Hh. unfold resolve_pkh_tap.
    destruct (find_key pkh_of h (i_taporigins a)) as [k1|] eqn:F1.
    - exists k1. split; auto. apply (find_key_sound _ _ _ F1).
    - destruct (find (fun kv => (pkh_of (xonly_of (fst kv)) =? h)%N) (i_tapsigs a)) as [[k2 v2]|] eqn:F2; simpl.
      + exists (xonly_of k2). split; auto. apply find_some in F2. destruct F2 as [_ E]. simpl in E.
        now apply N.eqb_eq in E.
      + exfalso. pose proof (find_none _ _ F2 _ (lookup_In _ _ _ Hl)) as N0. simpl in N0.
        apply N.eqb_neq in N0. congruence.
  Qed.

  Hypothesis pkh_inj : forall k1 k2, pkh_of k1 = pkh_of k2 -> k1 = k2.   (* no hash160 collision *)

  Theorem resolve_pkh_is_signer : forall a h k s,
    lookup k (i_psigs a) = Some s -> pkh_of k = h -> resolve_pkh pkh_of a h = Some k.
  Proof.
    intros a h k s Hl Hh. destruct (resolve_pkh_from_sig a h k s Hl Hh) as (k' & R & E).
    rewrite R. f_equal. apply pkh_inj. congruence.
  Qed.

  (* ================= derivation records are optional =================
     with the signature present the same key is found whatever bip32_derivation holds *)
  Theorem resolve_pkh_deriv_irrelevant : forall a h k s m,
    lookup k (i_psigs a) = Some s -> pkh_of k = h ->
    resolve_pkh pkh_of (set_bip32 a m) h = resolve_pkh pkh_of a h.
  Proof.
    intros a h k s m Hl Hh.
    rewrite (resolve_pkh_is_signer a h k s Hl Hh).
    apply (resolve_pkh_is_signer (set_bip32 a m) h k s); auto.
  Qed.
End Pkh.

Example resolve_pkh_example :
  let pkh_of := fun k => (k + 100)%N in
  let a := mkIn None None [(5%N, 50%N)] None None None [] None None [] [] [] [] None [] [] [] None None [] [] in
  resolve_pkh pkh_of a 105%N = Some 5%N /\
  resolve_pkh pkh_of (set_bip32 a [(5%N, 9%N)]) 105%N = Some 5%N /\
  resolve_pkh pkh_of (set_bip32 a [(6%N, 9%N)]) 105%N = Some 5%N /\
  resolve_pkh pkh_of a 106%N = None.
Proof. repeat split. Qed.
