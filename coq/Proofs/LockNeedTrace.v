(* C17 (L2/L3), the executed path.  For every fragment and every Stack the model's satisfier
   returns for it (as satisfaction or dissatisfaction), the CLTV / CSV checks that the Script
   interpreter actually executes on that witness (the TAbs / TRel events of Script/ExecTrace.v) are
   described exactly by the reported locks:
     * s_abs = None    : no CLTV is executed at all;
     * s_abs = Some T  : CLTV with operand T IS executed, and every executed CLTV operand is in the
                         unit of T and not larger;
   and the same for s_rel / CSV.  The induction follows the satisfier (concatenate_rev, minimum,
   thresh) on one side and the script encoding on the other; intermediate states come from Theorem A
   instantiated at the assets restricted to each sub-result's own locks (LockNeedTable.v). *)
From Verif Require Import Exec ExecTrace Ser Ast Types TypeCheck SatSpec Sat ExecLemmas ExecTraceLemmas Spec TypesSpec ScriptNumProofs TheoremA SatProofs PlanProofs.
From Verif Require Import LockNeedExec LockNeedTable LockNeedSuffice.
From Coq Require Import Lia.

(* ---------- reported lock vs. list of executed operands ---------- *)
Definition lk_ok (le : N -> N -> bool) (o : option N) (ns : list N) : Prop :=
  match o with
  | None => ns = []
  | Some T => In T ns /\ forall n, In n ns -> le n T = true
  end.
Definition tr_ok (r : satn) (tr : list event) : Prop :=
  lk_ok abs_le (s_abs r) (abs_evs tr) /\ lk_ok rel_le (s_rel r) (rel_evs tr).

Lemma lk_ok_merge (le : N -> N -> bool) (mx : N -> N -> option N) :
  (forall x y t, mx x y = Some t -> t = x \/ t = y) ->
  (forall x y t, mx x y = Some t -> le x t = true /\ le y t = true) ->
  (forall a b c, le a b = true -> le b c = true -> le a c = true) ->
  forall oa ob oc la lb, merge_lock mx oa ob = Some oc -> lk_ok le oa la -> lk_ok le ob lb -> lk_ok le oc (la ++ lb).
Proof.
  intros Hp Hmx Htr oa ob oc la lb H Ha Hb. destruct oa as [x|], ob as [y|]; cbn [merge_lock lk_ok] in *.
  - destruct (mx x y) as [t|] eqn:E; [|discriminate]. inversion H; subst. cbn [lk_ok].
    destruct Ha as [Ia La], Hb as [Ib Lb]. destruct (Hmx x y t E) as [Lx Ly]. split.
    + apply in_or_app. destruct (Hp x y t E) as [->| ->]; auto.
    + intros n Hn. apply in_app_or in Hn. destruct Hn as [Hn|Hn]; eapply Htr; eauto.
  - inversion H; subst. cbn [lk_ok]. rewrite app_nil_r. exact Ha.
  - inversion H; subst. cbn [lk_ok]. exact Hb.
  - inversion H; subst. cbn [lk_ok]. reflexivity.
Qed.

Lemma tr_ok_concat a b l ta tb : s_stack (concatenate_rev a b) = WStack l ->
  tr_ok a ta -> tr_ok b tb -> tr_ok (concatenate_rev a b) (ta ++ tb).
Proof.
  unfold concatenate_rev. destruct (is_imp (s_stack a) || is_imp (s_stack b)); [discriminate|].
  destruct (merge_lock rel_max (s_rel a) (s_rel b)) as [r|] eqn:Er; [|discriminate].
  destruct (merge_lock abs_max (s_abs a) (s_abs b)) as [ab|] eqn:Ea; [|discriminate].
  intros _ [A1 R1] [A2 R2]. unfold tr_ok. cbn [s_abs s_rel]. rewrite abs_evs_app, rel_evs_app. split.
  - exact (lk_ok_merge abs_le abs_max abs_max_pick abs_max_le abs_le_trans _ _ _ _ _ Ea A1 A2).
  - exact (lk_ok_merge rel_le rel_max rel_max_pick rel_max_le rel_le_trans _ _ _ _ _ Er R1 R2).
Qed.

Lemma tr_ok_nolock_r r t t' : tr_ok r t -> no_lock_evs t' -> tr_ok r (t ++ t').
Proof. intros [H1 H2] [N1 N2]. unfold tr_ok. rewrite abs_evs_app, rel_evs_app, N1, N2, !app_nil_r. auto. Qed.
Lemma tr_ok_nolock_l r t t' : no_lock_evs t' -> tr_ok r t -> tr_ok r (t' ++ t).
Proof. intros [N1 N2] [H1 H2]. unfold tr_ok. rewrite abs_evs_app, rel_evs_app, N1, N2. auto. Qed.
Lemma tr_ok_locks r r' tr : s_abs r = s_abs r' -> s_rel r = s_rel r' -> tr_ok r' tr -> tr_ok r tr.
Proof. unfold tr_ok. intros -> ->. auto. Qed.
Lemma tr_ok_none r tr : s_abs r = None -> s_rel r = None -> no_lock_evs tr -> tr_ok r tr.
Proof. unfold tr_ok. intros -> -> [H1 H2]. rewrite H1, H2. split; reflexivity. Qed.
Lemma tr_ok_levs r t t' : abs_evs t' = abs_evs t -> rel_evs t' = rel_evs t -> tr_ok r t -> tr_ok r t'.
Proof. unfold tr_ok. intros -> ->. auto. Qed.

Lemma lkP_false_none r : lkP (fun _ => False) r -> s_abs r = None /\ s_rel r = None.
Proof.
  intros [H1 H2]. split; [destruct (s_abs r) as [T|] | destruct (s_rel r) as [T|]]; try reflexivity; exfalso; eauto.
Qed.

(* ---------- traces of composed scripts ---------- *)
Lemma tr_single e i st : tr_script e [i] st = tr_instr e i st.
Proof. cbn [tr_script]. destruct (exec_instr e i st); apply app_nil_r. Qed.

Lemma tr_if_last e neg thn els v r0 al c : if_cond e v = Some c ->
  tr_script e [IIf neg thn els] (mkSt (v :: r0) al) =
  if xorb c neg then tr_script e thn (mkSt r0 al)
  else match els with Some el => tr_script e el (mkSt r0 al) | None => [] end.
Proof. intros H. rewrite tr_single, tr_if. cbn [stk alt]. rewrite H. reflexivity. Qed.

Lemma nl_if_last e neg thn els v r0 al c : if_cond e v = Some c ->
  no_lock_evs (if xorb c neg then tr_script e thn (mkSt r0 al)
               else match els with Some el => tr_script e el (mkSt r0 al) | None => [] end) ->
  no_lock_evs (tr_script e [IIf neg thn els] (mkSt (v :: r0) al)).
Proof. intros H Hn. rewrite (tr_if_last e neg thn els v r0 al c H). exact Hn. Qed.
Lemma tr_ok_if_last e r neg thn els v r0 al c : if_cond e v = Some c ->
  tr_ok r (if xorb c neg then tr_script e thn (mkSt r0 al)
           else match els with Some el => tr_script e el (mkSt r0 al) | None => [] end) ->
  tr_ok r (tr_script e [IIf neg thn els] (mkSt (v :: r0) al)).
Proof. intros H Hn. rewrite (tr_if_last e neg thn els v r0 al c H). exact Hn. Qed.

Lemma tr_push_int e z st : tr_instr e (push_int z) st = [].
Proof. unfold push_int. destruct (z =? 0)%Z; [reflexivity|]. destruct (_ || _); reflexivity. Qed.
Lemma push_int_lockfree z : instr_lockfree (push_int z) = true.
Proof. unfold push_int. destruct (z =? 0)%Z; [reflexivity|]. destruct (_ || _); reflexivity. Qed.

Lemma script_lockfree_app s1 s2 : script_lockfree (s1 ++ s2) = script_lockfree s1 && script_lockfree s2.
Proof. apply forallb_app. Qed.

Section TrOk.
  Variable e : env.

  Lemma tr_ok_app_lockfree r s s' st : script_lockfree s' = true ->
    tr_ok r (tr_script e s st) -> tr_ok r (tr_script e (s ++ s') st).
  Proof.
    intros Hl H. rewrite tr_script_app. apply tr_ok_nolock_r; [exact H|].
    destruct (exec e s st); [apply lockfree_no_lock_evs, Hl | apply no_lock_evs_nil].
  Qed.
  Lemma tr_ok_cons_lockfree r i s st st1 : instr_lockfree i = true -> exec_instr e i st = Ok st1 ->
    tr_ok r (tr_script e s st1) -> tr_ok r (tr_script e (i :: s) st).
  Proof.
    intros Hl He H. cbn [tr_script]. rewrite He. apply tr_ok_nolock_l; [apply lockfree_instr, Hl | exact H].
  Qed.
  Lemma nl_cons_lockfree i s st st1 : instr_lockfree i = true -> exec_instr e i st = Ok st1 ->
    no_lock_evs (tr_script e s st1) -> no_lock_evs (tr_script e (i :: s) st).
  Proof.
    intros Hl He H. cbn [tr_script]. rewrite He. apply no_lock_evs_app; [apply lockfree_instr, Hl | exact H].
  Qed.
  Lemma tr_ok_seq r s1 s2 st st1 t1 : exec e s1 st = Ok st1 -> tr_script e s1 st = t1 ->
    tr_ok r (t1 ++ tr_script e s2 st1) -> tr_ok r (tr_script e (s1 ++ s2) st).
  Proof. intros He <- H. rewrite tr_script_app, He. exact H. Qed.

  Lemma tr_ok_concat_lf a b l ta s s' st : s_stack (concatenate_rev a b) = WStack l -> script_lockfree s' = true ->
    tr_ok a ta -> tr_ok b (tr_script e s st) -> tr_ok (concatenate_rev a b) (ta ++ tr_script e (s ++ s') st).
  Proof.
    intros Hs Hl Ha Hb. rewrite tr_script_app, app_assoc. apply tr_ok_nolock_r; [apply (tr_ok_concat a b l); assumption|].
    destruct (exec e s st); [apply lockfree_no_lock_evs, Hl | apply no_lock_evs_nil].
  Qed.

  (* v: the VERIFY form of the last opcode records the same lock events *)
  Lemma op_lock_evs o st : is_lock_op o = false -> no_lock_evs (op_events e o st).
  Proof. apply op_events_lockfree. Qed.

  Lemma verify_form_nolock o o' : verify_form o = Some o' -> is_lock_op o = false /\ is_lock_op o' = false.
  Proof. destruct o; cbn; intros H; inversion H; split; reflexivity. Qed.

  Lemma push_verify_levs s : forall st,
    abs_evs (tr_script e (push_verify s) st) = abs_evs (tr_script e s st) /\
    rel_evs (tr_script e (push_verify s) st) = rel_evs (tr_script e s st).
  Proof.
    induction s as [|i r IH]; intros st.
    - cbn [push_verify]. destruct (lockfree_no_lock_evs e [IOp OP_VERIFY] st eq_refl) as [H1 H2]. rewrite H1, H2. split; reflexivity.
    - assert (Hgen : abs_evs (tr_script e (i :: push_verify r) st) = abs_evs (tr_script e (i :: r) st) /\
                     rel_evs (tr_script e (i :: push_verify r) st) = rel_evs (tr_script e (i :: r) st)).
      { cbn [tr_script]. rewrite !abs_evs_app, !rel_evs_app. destruct (exec_instr e i st) as [s1|]; [|split; reflexivity].
        destruct (IH s1) as [H1 H2]. rewrite H1, H2. split; reflexivity. }
      destruct r as [|j r']; [|destruct i; exact Hgen].
      destruct i as [b|n|o|neg thn els]; try exact Hgen.
      cbn [push_verify]. destruct (verify_form o) as [o'|] eqn:Ev.
      + destruct (verify_form_nolock o o' Ev) as [N1 N2].
        destruct (lockfree_no_lock_evs e [IOp o'] st) as [H1 H2]; [cbn; rewrite N2; reflexivity|].
        destruct (lockfree_no_lock_evs e [IOp o] st) as [H3 H4]; [cbn; rewrite N1; reflexivity|].
        rewrite H1, H2, H3, H4. split; reflexivity.
      + change [IOp o; IOp OP_VERIFY] with ([IOp o] ++ [IOp OP_VERIFY]). rewrite tr_script_app, abs_evs_app, rel_evs_app.
        assert (Hn : no_lock_evs (match exec e [IOp o] st with Ok st1 => tr_script e [IOp OP_VERIFY] st1 | Fail => [] end)).
        { destruct (exec e [IOp o] st); [apply lockfree_no_lock_evs; reflexivity | apply no_lock_evs_nil]. }
        destruct Hn as [H1 H2]. rewrite H1, H2, !app_nil_r. split; reflexivity.
  Qed.
  Lemma tr_ok_push_verify r s st : tr_ok r (tr_script e s st) -> tr_ok r (tr_script e (push_verify s) st).
  Proof. destruct (push_verify_levs s st) as [H1 H2]. apply tr_ok_levs; assumption. Qed.
End TrOk.

(* lock-free fragments *)
Lemma pushes_lockfree ke (ks : list key) : script_lockfree (map (fun key => IPush (kb ke key)) ks) = true.
Proof. induction ks as [|k r IH]; [reflexivity | exact IH]. Qed.
Lemma csa_lockfree ke (ks : list key) :
  script_lockfree (flat_map (fun key => [IPush (kb ke key); IOp OP_CHECKSIGADD]) ks) = true.
Proof. induction ks as [|k r IH]; [reflexivity | exact IH]. Qed.

Lemma lf_cons i s : script_lockfree (i :: s) = instr_lockfree i && script_lockfree s.
Proof. reflexivity. Qed.
Lemma multi_a_lockfree ke (k : N) (ks : list key) :
  script_lockfree ((match ks with
                    | [] => []
                    | k0 :: rest => [IPush (kb ke k0); IOp OP_CHECKSIG] ++ flat_map (fun key => [IPush (kb ke key); IOp OP_CHECKSIGADD]) rest
                    end) ++ [push_int (Z.of_N k); IOp OP_NUMEQUAL]) = true.
Proof.
  rewrite script_lockfree_app, !lf_cons, push_int_lockfree. destruct ks as [|k0 rest]; [reflexivity|].
  rewrite script_lockfree_app, csa_lockfree. reflexivity.
Qed.
Lemma multi_lockfree ke (k : N) (n : nat) (ks : list key) :
  script_lockfree ([push_int (Z.of_N k)] ++ map (fun key => IPush (kb ke key)) ks ++ [push_int (Z.of_nat n); IOp OP_CHECKMULTISIG]) = true.
Proof. rewrite !script_lockfree_app, pushes_lockfree, !lf_cons, !push_int_lockfree. reflexivity. Qed.

Lemma leaf_enc_lockfree ke m : lockless_leaf m = true -> script_lockfree (enc ke m) = true.
Proof.
  destruct m; try discriminate; intros _; cbn [enc hash_frag]; try reflexivity.
  - apply multi_lockfree.
  - apply multi_lockfree.
  - apply multi_a_lockfree.
  - apply multi_a_lockfree.
Qed.

Lemma leaf_locks_none ke se mall rhs m : lockless_leaf m = true ->
  lkP (fun _ => False) (fst (sat_dissat ke se mall rhs m)) /\ lkP (fun _ => False) (snd (sat_dissat ke se mall rhs m)).
Proof.
  destruct m; try discriminate; intros _; cbn [sat_dissat]; try (split; apply lkP_none);
  unfold sd_multi, sd_multi_a; cbv zeta; destruct (Nat.ltb _ _); split; apply lkP_none.
Qed.

Lemma if_both {X} (P : X -> Prop) (c : bool) a b : P a -> P b -> P (if c then a else b).
Proof. destruct c; auto. Qed.

Definition instk (b : base) (c : bytes) (w rest : stack) : stack :=
  match b with BW => c :: w ++ rest | _ => w ++ rest end.

Section Trace.
  Variable e : env.
  Variable ke : keyenv.
  Variable A : assets.
  Variable se : senv.
  Variable f : fill.
  Hypothesis HL : linked ke A se f.
  Hypothesis Hks : forall ks, length (ksort ke ks) = length ks.
  Hypothesis HC : crypto_ok e ke A.
  Hypothesis Hse : forall kbs, e_sigok e kbs [] = false.
  Variable mall rhs : bool.

  Notation SD m := (sat_dissat ke se mall rhs m).

  Definition runs_ok (m : ms) (t : ty) (r : satn) : Prop :=
    forall l bs, s_stack r = WStack l -> fill_all f l = Some bs -> lock_met e (s_abs r) (s_rel r) ->
    forall c rest al, tr_ok r (tr_script e (enc ke m) (mkSt (instk (c_base (t_corr t)) c (rev bs) rest) al)).

  Definition tstmt (m : ms) : Prop := forall t, type_of m = ROk t -> wf e ke m -> no_multi m ->
    runs_ok m t (fst (SD m)) /\ runs_ok m t (snd (SD m)).

  (* Theorem A and table membership for a result whose reported locks the environment meets *)
  Lemma child_facts (dis : bool) x tx : type_of x = ROk tx -> wf e ke x -> no_multi x ->
    let r := (if dis then fst else snd) (SD x) in
    forall l bs, s_stack r = WStack l -> fill_all f l = Some bs -> lock_met e (s_abs r) (s_rel r) ->
    In (rev bs) ((if dis then all_dsat else all_sat) ke (rA A r) x) /\ good e ke (rA A r) x tx /\ shape ke (rA A r) x tx.
  Proof.
    intros Ht Hwf Hnm r l bs Hs Hf Hm.
    pose proof (result_assets_ok e ke A se HC mall rhs x dis Hwf Hm) as HA. fold r in HA.
    destruct (sat_in_table_locks ke A se f HL Hks mall rhs x (wf_kwf e ke x Hwf)) as [Hd Hsat].
    destruct (theoremA_closed e ke (rA A r) HA Hse x tx Ht Hwf Hnm) as [Hg Hsh].
    split; [|split; assumption]. unfold r in *. destruct dis; [exact (Hd l bs Hs Hf) | exact (Hsat l bs Hs Hf)].
  Qed.

  Lemma lock_met_lsub a c : lsub a c -> (forall R, s_rel c = Some R -> lock_small R) ->
    lock_met e (s_abs c) (s_rel c) -> lock_met e (s_abs a) (s_rel a).
  Proof.
    intros [Sa Sr] Hb [Ma Mr]. split.
    - intros T ET. specialize (Sa T). rewrite ET in Sa. cbn [leo] in Sa. specialize (Sa (abs_le_refl T)).
      destruct (s_abs c) as [T'|]; [|discriminate]. cbn [leo] in Sa. exact (check_locktime_mono e T T' Sa (Ma T' eq_refl)).
    - intros R ER. specialize (Sr R). rewrite ER in Sr. cbn [leo] in Sr. specialize (Sr (rel_le_refl R)).
      destruct (s_rel c) as [R'|]; [|discriminate]. cbn [leo] in Sr.
      apply (check_sequence_mono e R R' Sr); [apply land_disable_small, (Hb R' eq_refl) | exact (Mr R' eq_refl)].
  Qed.

  Definition rel_small (r : satn) : Prop := forall R, s_rel r = Some R -> lock_small R.

  Lemma bounded_results m : wf e ke m -> rel_small (fst (SD m)) /\ rel_small (snd (SD m)).
  Proof.
    intros Hwf. destruct (locks_bounded e ke se mall rhs lock_small (fun t H => H) m Hwf) as [[_ H1] [_ H2]]. split; assumption.
  Qed.

  (* splitting a concatenation: stacks, completed bytes, and the environment meets both parts *)
  Lemma concat_split a b l bs : s_stack (concatenate_rev a b) = WStack l -> fill_all f l = Some bs ->
    rel_small (concatenate_rev a b) -> lock_met e (s_abs (concatenate_rev a b)) (s_rel (concatenate_rev a b)) ->
    exists la lb ba bb, s_stack a = WStack la /\ s_stack b = WStack lb /\ fill_all f la = Some ba /\ fill_all f lb = Some bb /\
      rev bs = rev ba ++ rev bb /\ lock_met e (s_abs a) (s_rel a) /\ lock_met e (s_abs b) (s_rel b).
  Proof.
    intros Hs Hf Hb Hm. destruct (concat_lsub a b l Hs) as [La Lb].
    apply concat_stack in Hs. destruct Hs as [la [lb [Ea [Eb ->]]]].
    apply fill_all_app in Hf. destruct Hf as [b1 [b2 [F1 [F2 ->]]]].
    exists la, lb, b2, b1. repeat split; try assumption; try apply rev_app_distr;
    [exact (proj1 (lock_met_lsub a _ La Hb Hm)) | exact (proj2 (lock_met_lsub a _ La Hb Hm))
    | exact (proj1 (lock_met_lsub b _ Lb Hb Hm)) | exact (proj2 (lock_met_lsub b _ Lb Hb Hm))].
  Qed.

  Lemma push_split a p v l bs : fill_ph f p = Some v ->
    s_stack (with_stack a (wcombine (s_stack a) (WStack [p]))) = WStack l -> fill_all f l = Some bs ->
    exists la ba, s_stack a = WStack la /\ fill_all f la = Some ba /\ rev bs = v :: rev ba.
  Proof.
    intros Hp Hs Hf. cbn [with_stack s_stack] in Hs. destruct (s_stack a) as [la| |]; cbn in Hs; try discriminate.
    inversion Hs; subst. apply fill_all_app in Hf. destruct Hf as [b1 [b2 [F1 [F2 ->]]]].
    cbn [fill_all] in F2. rewrite Hp in F2. inversion F2; subst. exists la, b1. rewrite rev_app_distr. auto.
  Qed.

  Ltac unf H := unfold t_cast_alt, t_cast_swap, t_cast_check, t_cast_dupif, t_cast_verify, t_cast_nonzero,
    t_cast_zeronotequal, t_and_v, t_and_b, t_or_b, t_or_c, t_or_d, t_or_i, t_and_or, lift1, lift2,
    c_cast_alt, c_cast_swap, c_cast_check, c_cast_dupif, c_cast_verify, c_cast_nonzero, c_cast_zeronotequal,
    c_and_v, c_and_b, c_or_b, c_or_c, c_or_d, c_or_i, c_and_or in H; cbn [t_corr t_mall c_base c_input c_dissat c_unit] in H.

  Ltac one_child Ht Hwf Hnm tx Hx bx ix dx ux mx :=
    cbn [type_of] in Ht; apply rbind_ok in Ht; destruct Ht as [tx [Hx Ht]];
    cbn [wf no_multi] in Hwf, Hnm; destruct tx as [[bx ix dx ux] mx]; unf Ht.

  (* ---------- leaves ---------- *)
  Lemma t_leaf m : lockless_leaf m = true -> tstmt m.
  Proof.
    intros Hl t Ht Hwf Hnm. destruct (leaf_locks_none ke se mall rhs m Hl) as [Hd Hs].
    apply lkP_false_none in Hd. apply lkP_false_none in Hs. destruct Hd as [D1 D2], Hs as [S1 S2].
    split; intros l bs _ _ _ c rest al; (apply tr_ok_none; [assumption | assumption |]);
    apply lockfree_no_lock_evs, leaf_enc_lockfree, Hl.
  Qed.

  Lemma t_after t : tstmt (MAfter t).
  Proof.
    intros ty0 Ht Hwf _. inversion Ht; subst; clear Ht. cbn [wf] in Hwf. cbn [sat_dissat]. unfold sd_time. cbn [fst snd].
    split; intros l bs Hs Hf Hm c rest al; cbn [s_stack IMPOSSIBLE] in Hs; [discriminate|].
    destruct (se_after se t); [|destruct rhs; discriminate]. inversion Hs; subst. cbn in Hf. inversion Hf; subst.
    cbn [t_time t_corr c_time c_base instk rev app enc]. rewrite tr_script_cons, tr_push_int, exec_push_int. cbn [app stk alt].
    rewrite tr_single. cbn [tr_instr op_events stk]. rewrite num_roundtrip by lia. rewrite N2Z.id.
    split; cbn [s_abs s_rel abs_evs rel_evs lk_ok]; [|reflexivity].
    split; [left; reflexivity|]. intros n [<-|[]]. apply abs_le_refl.
  Qed.
  Lemma t_older t : tstmt (MOlder t).
  Proof.
    intros ty0 Ht Hwf _. inversion Ht; subst; clear Ht. cbn [wf] in Hwf. cbn [sat_dissat]. unfold sd_time. cbn [fst snd].
    split; intros l bs Hs Hf Hm c rest al; cbn [s_stack IMPOSSIBLE] in Hs; [discriminate|].
    destruct (se_older se t); [|destruct rhs; discriminate]. inversion Hs; subst. cbn in Hf. inversion Hf; subst.
    cbn [t_time t_corr c_time c_base instk rev app enc]. rewrite tr_script_cons, tr_push_int, exec_push_int. cbn [app stk alt].
    rewrite tr_single. cbn [tr_instr op_events stk]. rewrite num_roundtrip by lia. rewrite N2Z.id.
    rewrite (land_disable_small t) by (destruct Hwf; assumption). rewrite N.eqb_refl.
    split; cbn [s_abs s_rel abs_evs rel_evs lk_ok]; [reflexivity|].
    split; [left; reflexivity|]. intros n [<-|[]]. apply rel_le_refl.
  Qed.

  (* ---------- wrappers ---------- *)
  Lemma t_alt x : tstmt x -> tstmt (MAlt x).
  Proof.
    intros IH t Ht Hwf Hnm. one_child Ht Hwf Hnm tx Hx bx ix dx ux mx.
    destruct bx; try discriminate. inversion Ht; subst; clear Ht.
    destruct (IH _ Hx Hwf Hnm) as [IHd IHs]. cbn [sat_dissat].
    split; intros l bs Hs Hf Hm c rest al; cbn [t_corr c_base instk enc app];
    (eapply tr_ok_cons_lockfree; [reflexivity | reflexivity |]); apply tr_ok_app_lockfree; try reflexivity;
    [exact (IHd l bs Hs Hf Hm c rest (c :: al)) | exact (IHs l bs Hs Hf Hm c rest (c :: al))].
  Qed.

  Lemma len1 {X} (w : list X) : length w = 1%nat -> exists a, w = [a].
  Proof. destruct w as [|a [|b r]]; cbn; intros H; try discriminate. eauto. Qed.

  Lemma t_swap x : tstmt x -> tstmt (MSwap x).
  Proof.
    intros IH t Ht Hwf Hnm. one_child Ht Hwf Hnm tx Hx bx ix dx ux mx.
    destruct (IH _ Hx Hwf Hnm) as [IHd IHs]. cbn [sat_dissat].
    assert (Hlen : forall (dis : bool) l bs, s_stack ((if dis then fst else snd) (SD x)) = WStack l -> fill_all f l = Some bs ->
                     lock_met e (s_abs ((if dis then fst else snd) (SD x))) (s_rel ((if dis then fst else snd) (SD x))) ->
                     bx = BB -> (ix = IOne \/ ix = IOneNonZero) -> exists a, rev bs = [a]).
    { intros dis l bs Hs Hf Hm -> Hi. destruct (child_facts dis x _ Hx Hwf Hnm l bs Hs Hf Hm) as [Hin [_ [Sh1 Sh2]]].
      cbn [t_corr c_input] in Sh1, Sh2. apply len1.
      destruct dis; [specialize (Sh2 _ Hin) | specialize (Sh1 _ Hin)]; destruct Hi as [-> | ->]; cbn [wshape] in *; tauto. }
    destruct bx; try discriminate; destruct ix; try discriminate; inversion Ht; subst; clear Ht;
    (split; intros l bs Hs Hf Hm c rest al; cbn [t_corr c_base instk enc app];
     [destruct (Hlen true l bs Hs Hf Hm eq_refl ltac:(auto)) as [a Ea] | destruct (Hlen false l bs Hs Hf Hm eq_refl ltac:(auto)) as [a Ea]];
     rewrite Ea in *; (eapply tr_ok_cons_lockfree; [reflexivity | reflexivity |]); cbn [app stk alt];
     [pose proof (IHd l bs Hs Hf Hm c (c :: rest) al) as Hr | pose proof (IHs l bs Hs Hf Hm c (c :: rest) al) as Hr];
     cbn [t_corr c_base instk] in Hr; rewrite Ea in Hr; exact Hr).
  Qed.

  Lemma t_check x : tstmt x -> tstmt (MCheck x).
  Proof.
    intros IH t Ht Hwf Hnm. one_child Ht Hwf Hnm tx Hx bx ix dx ux mx.
    destruct bx; try discriminate. inversion Ht; subst; clear Ht.
    destruct (IH _ Hx Hwf Hnm) as [IHd IHs]. cbn [sat_dissat].
    split; intros l bs Hs Hf Hm c rest al; cbn [t_corr c_base instk enc]; apply tr_ok_app_lockfree; try reflexivity;
    [exact (IHd l bs Hs Hf Hm c rest al) | exact (IHs l bs Hs Hf Hm c rest al)].
  Qed.
  Lemma t_zne x : tstmt x -> tstmt (MZeroNotEqual x).
  Proof.
    intros IH t Ht Hwf Hnm. one_child Ht Hwf Hnm tx Hx bx ix dx ux mx.
    destruct bx; try discriminate. inversion Ht; subst; clear Ht.
    destruct (IH _ Hx Hwf Hnm) as [IHd IHs]. cbn [sat_dissat].
    split; intros l bs Hs Hf Hm c rest al; cbn [t_corr c_base instk enc]; apply tr_ok_app_lockfree; try reflexivity;
    [exact (IHd l bs Hs Hf Hm c rest al) | exact (IHs l bs Hs Hf Hm c rest al)].
  Qed.
  Lemma t_verify x : tstmt x -> tstmt (MVerify x).
  Proof.
    intros IH t Ht Hwf Hnm. one_child Ht Hwf Hnm tx Hx bx ix dx ux mx.
    destruct bx; try discriminate. inversion Ht; subst; clear Ht.
    destruct (IH _ Hx Hwf Hnm) as [IHd IHs]. cbn [sat_dissat]. destruct (SD x) as [d0 sub]. cbn [fst snd] in *.
    split; intros l bs Hs Hf Hm c rest al; [cbn in Hs; discriminate|].
    cbn [t_corr c_base instk enc]. apply tr_ok_push_verify. exact (IHs l bs Hs Hf Hm c rest al).
  Qed.

  Lemma push0_ok m t (s : script) :
    (forall rest al, no_lock_evs (tr_script e s (mkSt ([] :: rest) al))) -> enc ke m = s -> c_base (t_corr t) = BB -> runs_ok m t push_0.
  Proof.
    intros Hn He Hb l bs Hs Hf _ c rest al. cbn in Hs. inversion Hs; subst. cbn in Hf. inversion Hf; subst.
    rewrite Hb. cbn [instk rev app]. apply tr_ok_none; [reflexivity | reflexivity | apply Hn].
  Qed.

  Lemma t_dupif x : tstmt x -> tstmt (MDupIf x).
  Proof.
    intros IH t Ht Hwf Hnm. one_child Ht Hwf Hnm tx Hx bx ix dx ux mx.
    destruct bx; try discriminate; destruct ix; try discriminate. inversion Ht; subst; clear Ht.
    destruct (IH _ Hx Hwf Hnm) as [_ IHs]. cbn [sat_dissat].
    pose proof (child_facts false x _ Hx Hwf Hnm) as CF. destruct (SD x) as [d0 sub]. cbn [fst snd] in *. split.
    - apply (push0_ok _ _ [IOp OP_DUP; IIf false (enc ke x) None]); try reflexivity. intros rest al.
      apply (nl_cons_lockfree e (IOp OP_DUP) _ _ (mkSt ([] :: [] :: rest) al)); [reflexivity | reflexivity |].
      apply (nl_if_last e false (enc ke x) None [] ([] :: rest) al false (if_cond_empty e)). apply no_lock_evs_nil.
    - intros l bs Hs Hf Hm c rest al.
      destruct (push_split sub PhPushOne [1%N] l bs eq_refl Hs Hf) as [la [ba [Ea [Fa Er]]]].
      cbn [with_stack s_abs s_rel] in Hm. destruct (CF la ba Ea Fa Hm) as [Hin [_ [Sh _]]].
      cbn [t_corr c_input] in Sh. specialize (Sh _ Hin). cbn [wshape] in Sh.
      cbn [t_corr c_base instk enc]. rewrite Er, Sh. cbn [app].
      eapply tr_ok_cons_lockfree; [reflexivity | reflexivity |]. cbn [stk alt].
      apply (tr_ok_if_last e _ false (enc ke x) None [1%N] ([1%N] :: rest) al true (if_cond_one e)). cbn [xorb].
      pose proof (IHs la ba Ea Fa Hm c ([1%N] :: rest) al) as Hr. cbn [t_corr c_base instk] in Hr. rewrite Sh in Hr.
      eapply tr_ok_locks; [| |exact Hr]; reflexivity.
  Qed.

  Lemma t_nonzero x : tstmt x -> tstmt (MNonZero x).
  Proof.
    intros IH t Ht Hwf Hnm. one_child Ht Hwf Hnm tx Hx bx ix dx ux mx.
    destruct (IH _ Hx Hwf Hnm) as [_ IHs]. cbn [sat_dissat].
    pose proof (child_facts false x _ Hx Hwf Hnm) as CF. destruct (SD x) as [d0 sub]. cbn [fst snd] in *.
    assert (Hdis : forall t', c_base (t_corr t') = BB -> runs_ok (MNonZero x) t' push_0).
    { intros t' Hb. apply (push0_ok _ _ [IOp OP_SIZE; IOp OP_0NOTEQUAL; IIf false (enc ke x) None]); try reflexivity; [|exact Hb]. intros rest al.
      apply (nl_cons_lockfree e (IOp OP_SIZE) _ _ (mkSt ([] :: [] :: rest) al)); [reflexivity | reflexivity |].
      apply (nl_cons_lockfree e (IOp OP_0NOTEQUAL) _ _ (mkSt ([] :: [] :: rest) al)); [reflexivity | reflexivity |].
      apply (nl_if_last e false (enc ke x) None [] ([] :: rest) al false (if_cond_empty e)). apply no_lock_evs_nil. }
    assert (Hsat : forall t', c_base (t_corr t') = BB -> bx = BB -> (ix = IOneNonZero \/ ix = IAnyNonZero) -> runs_ok (MNonZero x) t' sub).
    { intros t' Hb -> Hi l bs Hs Hf Hm c rest al.
      destruct (CF l bs Hs Hf Hm) as [Hin [_ [Sh _]]]. cbn [t_corr c_input] in Sh. specialize (Sh _ Hin).
      assert (Hnz : exists a r, rev bs = a :: r /\ nz a).
      { destruct (rev bs) as [|a r]; destruct Hi as [-> | ->]; cbn [wshape top_nz] in Sh.
        - destruct Sh as [Sh _]. discriminate.
        - exfalso. exact (Sh eq_refl).
        - destruct Sh as [_ Sh]. exists a, r. split; [reflexivity | exact (Sh eq_refl)].
        - exists a, r. split; [reflexivity | exact (Sh eq_refl)]. }
      destruct Hnz as [a [r [Er Hnz]]]. unfold nz in Hnz.
      rewrite Hb. cbn [instk enc]. rewrite Er. cbn [app].
      eapply tr_ok_cons_lockfree; [reflexivity | reflexivity |]. cbn [stk alt].
      eapply tr_ok_cons_lockfree; [reflexivity | |].
      { cbn [exec_instr exec_op stk alt]. rewrite num_roundtrip by lia. reflexivity. }
      replace (negb (Z.of_N (blen a) =? 0)%Z) with true by (symmetry; apply Bool.negb_true_iff, Z.eqb_neq; lia).
      cbn [bool_bytes].
      apply (tr_ok_if_last e _ false (enc ke x) None [1%N] (a :: r ++ rest) al true (if_cond_one e)). cbn [xorb].
      pose proof (IHs l bs Hs Hf Hm c rest al) as Hr. cbn [t_corr c_base instk] in Hr. rewrite Er in Hr. exact Hr. }
    destruct ix; cbn in Ht; try discriminate; destruct bx; try discriminate; inversion Ht; subst; clear Ht;
    (split; [apply Hdis; reflexivity | apply Hsat; auto]).
  Qed.

  Lemma rel_small_concat a b : rel_small a -> rel_small b -> rel_small (concatenate_rev a b).
  Proof.
    intros Ha Hb R. unfold concatenate_rev. destruct (is_imp (s_stack a) || is_imp (s_stack b)); [discriminate|].
    destruct (merge_lock rel_max (s_rel a) (s_rel b)) as [r|] eqn:Er; [|discriminate].
    destruct (merge_lock abs_max (s_abs a) (s_abs b)) as [ab|]; [|discriminate]. cbn [s_rel]. intros ->.
    destruct (merge_pick rel_max rel_max_pick _ _ _ Er) as [E|E]; [apply Ha | apply Hb]; auto.
  Qed.

  Lemma min_runs m t a b : runs_ok m t a -> runs_ok m t b ->
    runs_ok m t ((if mall then minimum_mall se else minimum se) a b).
  Proof.
    intros Ha Hb l bs Hs Hf Hm c rest al.
    destruct (min_pick se mall a b l Hs) as [[E [E1 E2]]|[E [E1 E2]]]; cbv zeta in E1, E2.
    - eapply tr_ok_locks; [exact E1 | exact E2|]. apply (Ha l bs E Hf); rewrite <- E1, <- E2; exact Hm.
    - eapply tr_ok_locks; [exact E1 | exact E2|]. apply (Hb l bs E Hf); rewrite <- E1, <- E2; exact Hm.
  Qed.

  Lemma goodval_unit v : goodval true v -> v = [1%N].
  Proof. intros [_ [_ H]]. exact (H eq_refl). Qed.

  Ltac two_children Ht Hwf Hnm tx t2 Hx Hy Hwx Hwy Hnx Hny :=
    cbn [type_of] in Ht; apply rbind_ok in Ht; destruct Ht as [tx [Hx Ht]];
    apply rbind_ok in Ht; destruct Ht as [t2 [Hy Ht]];
    cbn [wf no_multi] in Hwf, Hnm; destruct Hwf as [Hwx Hwy]; destruct Hnm as [Hnx Hny].

  Ltac csplit a b l bs Hs Hf Ba Bb Hm la lb ba bb Ea Eb Fa Fb Er Ma Mb :=
    destruct (concat_split a b l bs Hs Hf (rel_small_concat a b Ba Bb) Hm) as [la [lb [ba [bb [Ea [Eb [Fa [Fb [Er [Ma Mb]]]]]]]]]].

  (* ---------- and_v ---------- *)
  Lemma t_and_v x y : tstmt x -> tstmt y -> tstmt (MAndV x y).
  Proof.
    intros IHx IHy t Ht Hwf Hnm. two_children Ht Hwf Hnm tx t2 Hx Hy Hwx Hwy Hnx Hny.
    destruct (IHx _ Hx Hwx Hnx) as [_ IHxs]. destruct (IHy _ Hy Hwy Hny) as [IHyd IHys].
    destruct (bounded_results x Hwx) as [_ Bxs]. destruct (bounded_results y Hwy) as [Byd Bys].
    pose proof (child_facts false x _ Hx Hwx Hnx) as CFx. cbn [sat_dissat].
    destruct (SD x) as [ld ls]. destruct (SD y) as [rd rs]. cbn [fst snd] in *.
    destruct tx as [[bx ix dx ux] mx]; destruct t2 as [[b2 i2 d2 u2] m2]; unf Ht.
    destruct bx, b2; try discriminate; inversion Ht; subst; clear Ht;
    (split; intros l bs Hs Hf Hm c rest al; cbn [t_corr c_base instk enc];
     [csplit ls rd l bs Hs Hf Bxs Byd Hm la lb ba bb Ea Eb Fa Fb Er Ma Mb
     |csplit ls rs l bs Hs Hf Bxs Bys Hm la lb ba bb Ea Eb Fa Fb Er Ma Mb];
     destruct (CFx la ba Ea Fa Ma) as [Hin [Hg _]]; unfold good in Hg; cbn [t_corr c_base] in Hg;
     rewrite Er, <- app_assoc;
     (eapply tr_ok_seq; [exact (Hg _ (rev bb ++ rest) al Hin) | reflexivity |]);
     apply (tr_ok_concat _ _ l); try exact Hs;
     [exact (IHxs la ba Ea Fa Ma c (rev bb ++ rest) al) | exact (IHyd lb bb Eb Fb Mb c rest al)
     |exact (IHxs la ba Ea Fa Ma c (rev bb ++ rest) al) | exact (IHys lb bb Eb Fb Mb c rest al)]).
  Qed.

  (* x : B run first (satisfied or dissatisfied), then y : W, then one lock-free opcode *)
  Lemma seq_BW (dx dy : bool) x y tx t2 (o : opcode) t' :
    type_of x = ROk tx -> type_of y = ROk t2 -> c_base (t_corr tx) = BB -> c_base (t_corr t2) = BW ->
    wf e ke x -> no_multi x -> is_lock_op o = false -> c_base (t_corr t') = BB ->
    runs_ok x tx ((if dx then fst else snd) (SD x)) -> runs_ok y t2 ((if dy then fst else snd) (SD y)) ->
    rel_small ((if dx then fst else snd) (SD x)) -> rel_small ((if dy then fst else snd) (SD y)) ->
    forall m', enc ke m' = enc ke x ++ enc ke y ++ [IOp o] ->
    runs_ok m' t' (concatenate_rev ((if dx then fst else snd) (SD x)) ((if dy then fst else snd) (SD y))).
  Proof.
    intros Hx Hy Hbx Hby Hwx Hnx Ho Hbt IHx' IHy' Bx By m' Henc l bs Hs Hf Hm c rest al.
    csplit ((if dx then fst else snd) (SD x)) ((if dy then fst else snd) (SD y)) l bs Hs Hf Bx By Hm la lb ba bb Ea Eb Fa Fb Er Ma Mb.
    destruct (child_facts dx x _ Hx Hwx Hnx la ba Ea Fa Ma) as [Hin [Hg _]]. unfold good in Hg. rewrite Hbx in Hg.
    rewrite Hbt, Henc. cbn [instk]. rewrite Er, <- app_assoc.
    assert (Hex : exists v, exec e (enc ke x) (mkSt (rev ba ++ rev bb ++ rest) al) = Ok (mkSt (v :: rev bb ++ rest) al)).
    { destruct dx; [exists []; exact (proj2 Hg _ _ _ Hin) | destruct (proj1 Hg _ (rev bb ++ rest) al Hin) as [v [Hr _]]; eauto]. }
    destruct Hex as [v Hex].
    eapply tr_ok_seq; [exact Hex | reflexivity |].
    apply (tr_ok_concat_lf e _ _ l); [exact Hs | cbn; rewrite Ho; reflexivity | |].
    - pose proof (IHx' la ba Ea Fa Ma c (rev bb ++ rest) al) as Hr. rewrite Hbx in Hr. exact Hr.
    - pose proof (IHy' lb bb Eb Fb Mb v rest al) as Hr. rewrite Hby in Hr. exact Hr.
  Qed.

  Lemma t_and_b x y : tstmt x -> tstmt y -> tstmt (MAndB x y).
  Proof.
    intros IHx IHy t Ht Hwf Hnm. two_children Ht Hwf Hnm tx t2 Hx Hy Hwx Hwy Hnx Hny.
    destruct (IHx _ Hx Hwx Hnx) as [IHxd IHxs]. destruct (IHy _ Hy Hwy Hny) as [IHyd IHys].
    destruct (bounded_results x Hwx) as [Bxd Bxs]. destruct (bounded_results y Hwy) as [Byd Bys].
    assert (Hb : c_base (t_corr tx) = BB /\ c_base (t_corr t2) = BW /\ c_base (t_corr t) = BB).
    { destruct tx as [[bx ix dx ux] mx]; destruct t2 as [[b2 i2 d2 u2] m2]; unf Ht.
      destruct bx, b2; try discriminate; inversion Ht; subst; auto. }
    destruct Hb as [Hbx [Hby Hbt]].
    pose proof (seq_BW true true x y tx t2 OP_BOOLAND t Hx Hy Hbx Hby Hwx Hnx eq_refl Hbt IHxd IHyd Bxd Byd (MAndB x y) eq_refl) as Hd.
    pose proof (seq_BW false false x y tx t2 OP_BOOLAND t Hx Hy Hbx Hby Hwx Hnx eq_refl Hbt IHxs IHys Bxs Bys (MAndB x y) eq_refl) as Hsat.
    cbn [sat_dissat]. destruct (SD x) as [ld ls]. destruct (SD y) as [rd rs]. cbn [fst snd] in *. split; assumption.
  Qed.

  Lemma t_or_b x y : tstmt x -> tstmt y -> tstmt (MOrB x y).
  Proof.
    intros IHx IHy t Ht Hwf Hnm. two_children Ht Hwf Hnm tx t2 Hx Hy Hwx Hwy Hnx Hny.
    destruct (IHx _ Hx Hwx Hnx) as [IHxd IHxs]. destruct (IHy _ Hy Hwy Hny) as [IHyd IHys].
    destruct (bounded_results x Hwx) as [Bxd Bxs]. destruct (bounded_results y Hwy) as [Byd Bys].
    assert (Hb : c_base (t_corr tx) = BB /\ c_base (t_corr t2) = BW /\ c_base (t_corr t) = BB).
    { destruct tx as [[bx ix dx ux] mx]; destruct t2 as [[b2 i2 d2 u2] m2]; unf Ht.
      destruct dx; cbn [negb] in Ht; try discriminate. destruct d2; cbn [negb] in Ht; try discriminate.
      destruct bx, b2; try discriminate; inversion Ht; subst; auto. }
    destruct Hb as [Hbx [Hby Hbt]].
    pose proof (seq_BW true true x y tx t2 OP_BOOLOR t Hx Hy Hbx Hby Hwx Hnx eq_refl Hbt IHxd IHyd Bxd Byd (MOrB x y) eq_refl) as Hdd.
    pose proof (seq_BW true false x y tx t2 OP_BOOLOR t Hx Hy Hbx Hby Hwx Hnx eq_refl Hbt IHxd IHys Bxd Bys (MOrB x y) eq_refl) as Hds.
    pose proof (seq_BW false true x y tx t2 OP_BOOLOR t Hx Hy Hbx Hby Hwx Hnx eq_refl Hbt IHxs IHyd Bxs Byd (MOrB x y) eq_refl) as Hsd.
    cbn [sat_dissat]. destruct (SD x) as [ld ls]. destruct (SD y) as [rd rs]. cbn [fst snd] in *.
    split; [exact Hdd | apply min_runs; assumption].
  Qed.

  (* x : Bdu run first; what it leaves decides the IF that follows *)
  Lemma x_exit (dis : bool) x tx : type_of x = ROk tx -> wf e ke x -> no_multi x ->
    c_base (t_corr tx) = BB -> c_unit (t_corr tx) = true ->
    let r := (if dis then fst else snd) (SD x) in
    forall l bs, s_stack r = WStack l -> fill_all f l = Some bs -> lock_met e (s_abs r) (s_rel r) ->
    forall rest al, exec e (enc ke x) (mkSt (rev bs ++ rest) al) = Ok (mkSt ((if dis then [] else [1%N]) :: rest) al).
  Proof.
    intros Hx Hwx Hnx Hb Hu r l bs Hs Hf Hm rest al.
    destruct (child_facts dis x _ Hx Hwx Hnx l bs Hs Hf Hm) as [Hin [Hg _]]. unfold good in Hg. rewrite Hb, Hu in Hg.
    destruct dis; [exact (proj2 Hg _ _ _ Hin)|]. destruct (proj1 Hg _ rest al Hin) as [v [Hr Hv]].
    rewrite (goodval_unit v Hv) in Hr. exact Hr.
  Qed.

  Lemma t_or_c x z : tstmt x -> tstmt z -> tstmt (MOrC x z).
  Proof.
    intros IHx IHz t Ht Hwf Hnm. two_children Ht Hwf Hnm tx tz Hx Hz Hwx Hwz Hnx Hnz.
    destruct (IHx _ Hx Hwx Hnx) as [IHxd IHxs]. destruct (IHz _ Hz Hwz Hnz) as [_ IHzs].
    destruct (bounded_results x Hwx) as [Bxd Bxs]. destruct (bounded_results z Hwz) as [_ Bzs].
    assert (Hb : c_base (t_corr tx) = BB /\ c_unit (t_corr tx) = true /\ c_base (t_corr tz) = BV /\ c_base (t_corr t) = BV).
    { destruct tx as [[bx ix dx ux] mx]; destruct tz as [[b2 i2 d2 u2] m2]; unf Ht.
      destruct dx; cbn [negb] in Ht; try discriminate. destruct ux; cbn [negb] in Ht; try discriminate.
      destruct bx, b2; try discriminate; inversion Ht; subst; auto. }
    destruct Hb as [Hbx [Hux [Hbz Hbt]]].
    pose proof (x_exit true x tx Hx Hwx Hnx Hbx Hux) as Xd. pose proof (x_exit false x tx Hx Hwx Hnx Hbx Hux) as Xs.
    cbn [sat_dissat]. destruct (SD x) as [ld ls]. destruct (SD z) as [rd rs]. cbn [fst snd] in *. split.
    - intros l bs Hs. cbn in Hs. discriminate.
    - apply min_runs.
      + intros l bs Hs Hf Hm c rest al. rewrite Hbt. cbn [instk enc].
        eapply tr_ok_seq; [exact (Xs l bs Hs Hf Hm rest al) | reflexivity |].
        apply tr_ok_nolock_r.
        * pose proof (IHxs l bs Hs Hf Hm c rest al) as Hr. rewrite Hbx in Hr. exact Hr.
        * apply (nl_if_last e true (enc ke z) None [1%N] rest al true (if_cond_one e)). apply no_lock_evs_nil.
      + intros l bs Hs Hf Hm c rest al. rewrite Hbt. cbn [instk enc].
        csplit ld rs l bs Hs Hf Bxd Bzs Hm la lb ba bb Ea Eb Fa Fb Er Ma Mb. rewrite Er, <- app_assoc.
        eapply tr_ok_seq; [exact (Xd la ba Ea Fa Ma (rev bb ++ rest) al) | reflexivity |].
        apply (tr_ok_concat _ _ l); [exact Hs | |].
        * pose proof (IHxd la ba Ea Fa Ma c (rev bb ++ rest) al) as Hr. rewrite Hbx in Hr. exact Hr.
        * apply (tr_ok_if_last e _ true (enc ke z) None [] (rev bb ++ rest) al false (if_cond_empty e)). cbn [xorb].
          pose proof (IHzs lb bb Eb Fb Mb c rest al) as Hr. rewrite Hbz in Hr. exact Hr.
  Qed.

  Lemma t_or_d x z : tstmt x -> tstmt z -> tstmt (MOrD x z).
  Proof.
    intros IHx IHz t Ht Hwf Hnm. two_children Ht Hwf Hnm tx tz Hx Hz Hwx Hwz Hnx Hnz.
    destruct (IHx _ Hx Hwx Hnx) as [IHxd IHxs]. destruct (IHz _ Hz Hwz Hnz) as [IHzd IHzs].
    destruct (bounded_results x Hwx) as [Bxd Bxs]. destruct (bounded_results z Hwz) as [Bzd Bzs].
    assert (Hb : c_base (t_corr tx) = BB /\ c_unit (t_corr tx) = true /\ c_base (t_corr tz) = BB /\ c_base (t_corr t) = BB).
    { destruct tx as [[bx ix dx ux] mx]; destruct tz as [[b2 i2 d2 u2] m2]; unf Ht.
      destruct dx; cbn [negb] in Ht; try discriminate. destruct ux; cbn [negb] in Ht; try discriminate.
      destruct bx, b2; try discriminate; inversion Ht; subst; auto. }
    destruct Hb as [Hbx [Hux [Hbz Hbt]]].
    pose proof (x_exit true x tx Hx Hwx Hnx Hbx Hux) as Xd. pose proof (x_exit false x tx Hx Hwx Hnx Hbx Hux) as Xs.
    cbn [sat_dissat]. destruct (SD x) as [ld ls]. destruct (SD z) as [rd rs]. cbn [fst snd] in *.
    assert (Hleft : forall rz, rel_small rz -> runs_ok z tz rz -> runs_ok (MOrD x z) t (concatenate_rev ld rz)).
    { intros rz Bz IHzr l bs Hs Hf Hm c rest al. rewrite Hbt. cbn [instk enc].
      csplit ld rz l bs Hs Hf Bxd Bz Hm la lb ba bb Ea Eb Fa Fb Er Ma Mb. rewrite Er, <- app_assoc.
      eapply tr_ok_seq; [exact (Xd la ba Ea Fa Ma (rev bb ++ rest) al) | reflexivity |].
      apply (tr_ok_concat _ _ l); [exact Hs | |].
      * pose proof (IHxd la ba Ea Fa Ma c (rev bb ++ rest) al) as Hr. rewrite Hbx in Hr. exact Hr.
      * apply (tr_ok_cons_lockfree e _ (IOp OP_IFDUP) _ _ (mkSt ([] :: rev bb ++ rest) al)); [reflexivity | reflexivity |].
        apply (tr_ok_if_last e _ true (enc ke z) None [] (rev bb ++ rest) al false (if_cond_empty e)). cbn [xorb].
        pose proof (IHzr lb bb Eb Fb Mb c rest al) as Hr. rewrite Hbz in Hr. exact Hr. }
    split; [exact (Hleft rd Bzd IHzd)|]. apply min_runs; [|exact (Hleft rs Bzs IHzs)].
    intros l bs Hs Hf Hm c rest al. rewrite Hbt. cbn [instk enc].
    eapply tr_ok_seq; [exact (Xs l bs Hs Hf Hm rest al) | reflexivity |].
    apply tr_ok_nolock_r.
    - pose proof (IHxs l bs Hs Hf Hm c rest al) as Hr. rewrite Hbx in Hr. exact Hr.
    - apply (nl_cons_lockfree e (IOp OP_IFDUP) _ _ (mkSt ([1%N] :: [1%N] :: rest) al)); [reflexivity | reflexivity |].
      apply (nl_if_last e true (enc ke z) None [1%N] ([1%N] :: rest) al true (if_cond_one e)). apply no_lock_evs_nil.
  Qed.

  Lemma t_or_i x z : tstmt x -> tstmt z -> tstmt (MOrI x z).
  Proof.
    intros IHx IHz t Ht Hwf Hnm. two_children Ht Hwf Hnm tx tz Hx Hz Hwx Hwz Hnx Hnz.
    destruct (IHx _ Hx Hwx Hnx) as [IHxd IHxs]. destruct (IHz _ Hz Hwz Hnz) as [IHzd IHzs].
    assert (Hb : c_base (t_corr tx) = c_base (t_corr t) /\ c_base (t_corr tz) = c_base (t_corr t) /\ c_base (t_corr t) <> BW).
    { destruct tx as [[bx ix dx ux] mx]; destruct tz as [[b2 i2 d2 u2] m2]; unf Ht.
      destruct bx, b2; try discriminate; inversion Ht; subst; cbn [t_corr c_base]; repeat split; discriminate. }
    destruct Hb as [Hbx [Hbz Hbt]].
    assert (Hin : forall b, b <> BW -> forall c w rest, instk b c w rest = w ++ rest) by (intros b Hb c w rest; destruct b; try reflexivity; contradiction).
    cbn [sat_dissat]. destruct (SD x) as [ld ls]. destruct (SD z) as [rd rs]. cbn [fst snd] in *.
    assert (HL1 : forall r, runs_ok x tx r -> runs_ok (MOrI x z) t (with_stack r (wcombine (s_stack r) (WStack [PhPushOne])))).
    { intros r IHr l bs Hs Hf Hm c rest al. rewrite (Hin _ Hbt). cbn [enc].
      destruct (push_split r PhPushOne [1%N] l bs eq_refl Hs Hf) as [la [ba [Ea [Fa Er]]]]. rewrite Er. cbn [app].
      apply (tr_ok_if_last e _ false (enc ke x) (Some (enc ke z)) [1%N] (rev ba ++ rest) al true (if_cond_one e)). cbn [xorb].
      pose proof (IHr la ba Ea Fa Hm c rest al) as Hr. rewrite Hbx, (Hin _ Hbt) in Hr.
      eapply tr_ok_locks; [| |exact Hr]; reflexivity. }
    assert (HL0 : forall r, runs_ok z tz r -> runs_ok (MOrI x z) t (with_stack r (wcombine (s_stack r) (WStack [PhPushZero])))).
    { intros r IHr l bs Hs Hf Hm c rest al. rewrite (Hin _ Hbt). cbn [enc].
      destruct (push_split r PhPushZero [] l bs eq_refl Hs Hf) as [la [ba [Ea [Fa Er]]]]. rewrite Er. cbn [app].
      apply (tr_ok_if_last e _ false (enc ke x) (Some (enc ke z)) [] (rev ba ++ rest) al false (if_cond_empty e)). cbn [xorb].
      pose proof (IHr la ba Ea Fa Hm c rest al) as Hr. rewrite Hbz, (Hin _ Hbt) in Hr.
      eapply tr_ok_locks; [| |exact Hr]; reflexivity. }
    split; apply min_runs; auto.
  Qed.

  Lemma t_andor a b c0 : tstmt a -> tstmt b -> tstmt c0 -> tstmt (MAndOr a b c0).
  Proof.
    intros IHa IHb IHc t Ht Hwf Hnm.
    cbn [type_of] in Ht. apply rbind_ok in Ht. destruct Ht as [ta [Ha Ht]].
    apply rbind_ok in Ht. destruct Ht as [tb [Hb Ht]]. apply rbind_ok in Ht. destruct Ht as [tc [Hc Ht]].
    cbn [wf no_multi] in Hwf, Hnm. destruct Hwf as [Hwa [Hwb Hwc]]. destruct Hnm as [Hna [Hnb Hnc]].
    destruct (IHa _ Ha Hwa Hna) as [IHad IHas]. destruct (IHb _ Hb Hwb Hnb) as [_ IHbs]. destruct (IHc _ Hc Hwc Hnc) as [IHcd IHcs].
    destruct (bounded_results a Hwa) as [Bad Bas]. destruct (bounded_results b Hwb) as [_ Bbs]. destruct (bounded_results c0 Hwc) as [Bcd Bcs].
    assert (Hbb : c_base (t_corr ta) = BB /\ c_unit (t_corr ta) = true /\ c_base (t_corr tb) = c_base (t_corr t)
                  /\ c_base (t_corr tc) = c_base (t_corr t) /\ c_base (t_corr t) <> BW).
    { destruct ta as [[ba ia da ua] ma], tb as [[bb ib db ub] mb], tc as [[bc ic dc uc] mc]. unf Ht.
      destruct da; cbn [negb] in Ht; try discriminate. destruct ua; cbn [negb] in Ht; try discriminate.
      destruct ba, bb, bc; try discriminate; inversion Ht; subst; cbn [t_corr c_base]; repeat split; discriminate. }
    destruct Hbb as [Hba [Hua [Hbb [Hbc Hbt]]]].
    assert (Hin : forall b', b' <> BW -> forall c w rest, instk b' c w rest = w ++ rest) by (intros b' Hb' c w rest; destruct b'; try reflexivity; contradiction).
    pose proof (x_exit true a ta Ha Hwa Hna Hba Hua) as Xd. pose proof (x_exit false a ta Ha Hwa Hna Hba Hua) as Xs.
    cbn [sat_dissat]. destruct (SD a) as [ad asat]. destruct (SD b) as [bd bsat]. destruct (SD c0) as [cd csat]. cbn [fst snd] in *.
    assert (Hneg : forall rc, rel_small rc -> runs_ok c0 tc rc -> runs_ok (MAndOr a b c0) t (concatenate_rev ad rc)).
    { intros rc Bc IHcr l bs Hs Hf Hm c rest al. rewrite (Hin _ Hbt). cbn [enc].
      csplit ad rc l bs Hs Hf Bad Bc Hm la lb ba bb Ea Eb Fa Fb Er Ma Mb. rewrite Er, <- app_assoc.
      eapply tr_ok_seq; [exact (Xd la ba Ea Fa Ma (rev bb ++ rest) al) | reflexivity |].
      apply (tr_ok_concat _ _ l); [exact Hs | |].
      * pose proof (IHad la ba Ea Fa Ma c (rev bb ++ rest) al) as Hr. rewrite Hba in Hr. exact Hr.
      * apply (tr_ok_if_last e _ true (enc ke c0) (Some (enc ke b)) [] (rev bb ++ rest) al false (if_cond_empty e)). cbn [xorb].
        pose proof (IHcr lb bb Eb Fb Mb c rest al) as Hr. rewrite Hbc, (Hin _ Hbt) in Hr. exact Hr. }
    split; [exact (Hneg cd Bcd IHcd)|]. apply min_runs; [|exact (Hneg csat Bcs IHcs)].
    intros l bs Hs Hf Hm c rest al. rewrite (Hin _ Hbt). cbn [enc].
    csplit asat bsat l bs Hs Hf Bas Bbs Hm la lb ba bb Ea Eb Fa Fb Er Ma Mb. rewrite Er, <- app_assoc.
    eapply tr_ok_seq; [exact (Xs la ba Ea Fa Ma (rev bb ++ rest) al) | reflexivity |].
    apply (tr_ok_concat _ _ l); [exact Hs | |].
    - pose proof (IHas la ba Ea Fa Ma c (rev bb ++ rest) al) as Hr. rewrite Hba in Hr. exact Hr.
    - apply (tr_ok_if_last e _ true (enc ke c0) (Some (enc ke b)) [1%N] (rev bb ++ rest) al true (if_cond_one e)). cbn [xorb].
      pose proof (IHbs lb bb Eb Fb Mb c rest al) as Hr. rewrite Hbb, (Hin _ Hbt) in Hr. exact Hr.
  Qed.

  (* ---------- thresh ---------- *)
  (* a child together with its type and the side (dissatisfaction / satisfaction) the satisfier took *)
  Definition tchild := (ms * ty * bool)%type.
  Definition cres (c : tchild) : satn := let '(x, _, dis) := c in (if dis then fst else snd) (SD x).
  Definition cms (c : tchild) : ms := fst (fst c).
  Definition cok (b : base) (c : tchild) : Prop :=
    let '(x, tx, dis) := c in
    type_of x = ROk tx /\ wf e ke x /\ no_multi x /\ c_base (t_corr tx) = b /\ c_unit (t_corr tx) = true
    /\ runs_ok x tx (cres c) /\ rel_small (cres c).

  Lemma rel_small_fold Ls : Forall rel_small Ls -> forall acc, rel_small acc -> rel_small (fold_left concatenate_rev Ls acc).
  Proof.
    induction 1 as [|x r Hx Hr IH]; intros acc Ha; cbn [fold_left]; [exact Ha|]. apply IH, rel_small_concat; assumption.
  Qed.

  Lemma W_step x tx dis : cok BW (x, tx, dis) ->
    forall l bs, s_stack (cres (x, tx, dis)) = WStack l -> fill_all f l = Some bs ->
    lock_met e (s_abs (cres (x, tx, dis))) (s_rel (cres (x, tx, dis))) ->
    forall s rest al, (0 <= s)%Z -> (s + 1 < 2147483648)%Z ->
    exec e (enc ke x ++ [IOp OP_ADD]) (mkSt (num_encode s :: rev bs ++ rest) al)
    = Ok (mkSt (num_encode (s + (if dis then 0 else 1)) :: rest) al).
  Proof.
    intros [Hx [Hwx [Hnx [Hb [Hu _]]]]] l bs Hs Hf Hm s rest al Hs0 Hs1. cbn [cres] in *.
    destruct (child_facts dis x _ Hx Hwx Hnx l bs Hs Hf Hm) as [Hin [Hg _]]. unfold good in Hg. rewrite Hb, Hu in Hg.
    rewrite exec_app. destruct dis.
    - pose proof (proj2 Hg _ (num_encode s) rest al Hin) as Hrv.
      destruct Hrv as [Hrv|Hrv]; rewrite Hrv; cbn [bind exec exec_instr exec_op stk alt];
      rewrite (num_roundtrip 4 s) by lia; rewrite num_operand_empty; cbn [bind]; rewrite ?Z.add_0_r, ?Z.add_0_l; reflexivity.
    - destruct (proj1 Hg _ (num_encode s) rest al Hin) as [v [Hrv Hv]]. rewrite (goodval_unit v Hv) in Hrv.
      destruct Hrv as [Hrv|Hrv]; rewrite Hrv; cbn [bind exec exec_instr exec_op stk alt];
      rewrite (num_roundtrip 4 s) by lia; rewrite (num_operand_one 4) by lia; cbn [bind]; rewrite ?(Z.add_comm 1 s); reflexivity.
  Qed.

  Lemma tail_tr (Tr : list tchild) : Forall (cok BW) Tr ->
    forall acc l, s_stack (fold_left concatenate_rev (map cres Tr) acc) = WStack l ->
    exists lacc lT, s_stack acc = WStack lacc /\ l = lT ++ lacc /\
      forall tacc bT s rest al sfx,
        tr_ok acc tacc ->
        lock_met e (s_abs (fold_left concatenate_rev (map cres Tr) acc)) (s_rel (fold_left concatenate_rev (map cres Tr) acc)) ->
        rel_small (fold_left concatenate_rev (map cres Tr) acc) ->
        fill_all f lT = Some bT -> (0 <= s)%Z -> (s + Z.of_nat (length Tr) < 2147483648)%Z -> script_lockfree sfx = true ->
        tr_ok (fold_left concatenate_rev (map cres Tr) acc)
              (tacc ++ tr_script e (enc_tail ke (map cms Tr) ++ sfx) (mkSt (num_encode s :: rev bT ++ rest) al)).
  Proof.
    induction 1 as [|c Tr' Hc HTr IH]; intros acc l Hs; cbn [map fold_left] in *.
    - exists l, []. split; [exact Hs|]. split; [reflexivity|].
      intros tacc bT s rest al sfx Hacc _ _ Hf _ _ Hl. cbn [enc_tail app].
      apply tr_ok_nolock_r; [exact Hacc | apply lockfree_no_lock_evs, Hl].
    - destruct (IH _ _ Hs) as [lacc' [lT' [Ea' [-> H']]]].
      pose proof Ea' as Ea''. apply concat_stack in Ea''. destruct Ea'' as [lacc [lc [Ea [Ec ->]]]].
      exists lacc, (lT' ++ lc). split; [exact Ea|]. split; [rewrite app_assoc; reflexivity|].
      intros tacc bT s rest al sfx Hacc Hm Hsm Hf Hs0 Hs1 Hl.
      apply fill_all_app in Hf. destruct Hf as [bT' [bc [FT [Fc ->]]]].
      destruct c as [[x tx] dis].
      (* the environment meets this child's locks *)
      destruct (fold_lsub _ _ _ Hs) as [Lacc' _].
      destruct (concat_lsub acc (cres (x, tx, dis)) _ Ea') as [_ Lc].
      pose proof (lock_met_lsub _ _ (lsub_trans _ _ _ Lc Lacc') Hsm Hm) as Mc.
      cbn [length] in Hs1.
      pose proof (W_step x tx dis Hc lc bc Ec Fc Mc s (rev bT' ++ rest) al Hs0 ltac:(lia)) as Hex.
      cbn [cms fst enc_tail]. rewrite rev_app_distr.
      replace ((enc ke x ++ [IOp OP_ADD] ++ enc_tail ke (map cms Tr')) ++ sfx)
        with ((enc ke x ++ [IOp OP_ADD]) ++ (enc_tail ke (map cms Tr') ++ sfx)) by (rewrite <- !app_assoc; reflexivity).
      rewrite <- (app_assoc (rev bc) (rev bT') rest). rewrite tr_script_app, Hex, app_assoc.
      apply H'; try assumption; try lia.
      + apply (tr_ok_concat_lf e acc (cres (x, tx, dis)) _ tacc (enc ke x) [IOp OP_ADD] _ Ea' eq_refl Hacc).
        destruct Hc as [_ [_ [_ [Hb [_ [Hrun _]]]]]].
        pose proof (Hrun lc bc Ec Fc Mc (num_encode s) (rev bT' ++ rest) al) as Hr. rewrite Hb in Hr. exact Hr.
      + destruct dis; lia.
      + destruct dis; lia.
  Qed.

  (* the whole threshold script for a list of (child, side) *)
  Lemma thresh_runs (k : N) x0 t0 d0 (Tr : list tchild) t :
    cok BB (x0, t0, d0) -> Forall (cok BW) Tr -> (S (length Tr) < 1000)%nat -> c_base (t_corr t) = BB ->
    runs_ok (MThresh k (x0 :: map cms Tr)) t (flatten_rev (map cres ((x0, t0, d0) :: Tr))).
  Proof.
    intros H0 HT Hn Hbt l bs Hs Hf Hm c rest al. unfold flatten_rev in *. cbn [map fold_left] in *.
    assert (Hsm : rel_small (fold_left concatenate_rev (map cres Tr) (concatenate_rev TRIVIAL (cres (x0, t0, d0))))).
    { apply rel_small_fold.
      - clear -HT. induction HT as [|c' r Hc Hr IH]; cbn [map]; constructor; [|exact IH].
        destruct c' as [[x' tx'] dis']. destruct Hc as [_ [_ [_ [_ [_ [_ Hc]]]]]]. exact Hc.
      - apply rel_small_concat; [intros R HR; discriminate|]. destruct H0 as [_ [_ [_ [_ [_ [_ Hc]]]]]]. exact Hc. }
    destruct (tail_tr Tr HT _ _ Hs) as [lacc [lT [Ea [-> H']]]].
    pose proof Ea as Ea'. apply concat_stack in Ea'. destruct Ea' as [lt [l0 [Et [E0 ->]]]].
    cbn in Et. inversion Et; subst lt. rewrite app_nil_r in *.
    apply fill_all_app in Hf. destruct Hf as [bT [b0 [FT [F0 ->]]]].
    destruct (fold_lsub _ _ _ Hs) as [Lacc _].
    destruct (concat_lsub TRIVIAL (cres (x0, t0, d0)) _ Ea) as [_ L0].
    pose proof (lock_met_lsub _ _ (lsub_trans _ _ _ L0 Lacc) Hsm Hm) as M0.
    destruct H0 as [Hx [Hwx [Hnx [Hb [Hu [Hrun _]]]]]].
    pose proof (x_exit d0 x0 t0 Hx Hwx Hnx Hb Hu l0 b0 E0 F0 M0 (rev bT ++ rest) al) as Hex.
    rewrite Hbt. cbn [instk]. rewrite (enc_thresh ke k x0 (map cms Tr)), rev_app_distr, <- app_assoc.
    assert (Hex' : exec e (enc ke x0) (mkSt (rev b0 ++ rev bT ++ rest) al)
                   = Ok (mkSt (num_encode (if d0 then 0 else 1) :: rev bT ++ rest) al)) by (destruct d0; exact Hex).
    rewrite tr_script_app, Hex'.
    apply H'; try assumption.
    - rewrite <- (app_nil_l (tr_script e (enc ke x0) _)).
      apply (tr_ok_concat TRIVIAL (cres (x0, t0, d0)) _ [] _ Ea); [split; reflexivity|].
      pose proof (Hrun l0 b0 E0 F0 M0 c (rev bT ++ rest) al) as Hr. rewrite Hb in Hr. exact Hr.
    - destruct d0; lia.
    - destruct d0; lia.
    - cbn. rewrite push_int_lockfree. reflexivity.
  Qed.

  (* the satisfier's three selections as lists of (child, side) *)
  Fixpoint mkT (ch : nat -> bool) (xs : list ms) (ts : list ty) (i : nat) : list tchild :=
    match xs, ts with
    | x :: xr, t :: tr => (x, t, negb (ch i)) :: mkT ch xr tr (S i)
    | _, _ => []
    end.
  Lemma mkT_cms ch xs : forall ts i, length ts = length xs -> map cms (mkT ch xs ts i) = xs.
  Proof.
    induction xs as [|x r IH]; intros [|t tr] i Hl; cbn in *; try discriminate; [reflexivity|]. f_equal. apply IH. lia.
  Qed.
  Lemma mkT_length ch xs : forall ts i, length ts = length xs -> length (mkT ch xs ts i) = length xs.
  Proof.
    induction xs as [|x r IH]; intros [|t tr] i Hl; cbn in *; try discriminate; [reflexivity|]. f_equal. apply IH. lia.
  Qed.
  Lemma mkT_const (b : bool) xs : forall ts i, length ts = length xs ->
    map (if b then @snd satn satn else @fst satn satn) (map (sat_dissat ke se mall rhs) xs) = map cres (mkT (fun _ => b) xs ts i).
  Proof.
    induction xs as [|x r IH]; intros [|t tr] i Hl; cbn [map mkT length] in *; try discriminate; [reflexivity|].
    f_equal; [destruct b; reflexivity | apply IH; lia].
  Qed.
  Lemma mkT_swap chosen xs : forall pre ts, length ts = length xs ->
    map (fun p => if existsb (Nat.eqb (fst p)) chosen then nth_sat (map snd (map (sat_dissat ke se mall rhs) (pre ++ xs))) (fst p) else snd p)
        (combine (seq (length pre) (length (map fst (map (sat_dissat ke se mall rhs) xs)))) (map fst (map (sat_dissat ke se mall rhs) xs)))
    = map cres (mkT (fun i => existsb (Nat.eqb i) chosen) xs ts (length pre)).
  Proof.
    induction xs as [|x r IH]; intros pre [|t tr] Hl; cbn [map mkT length seq combine fst snd] in *; try discriminate; [reflexivity|].
    f_equal.
    - destruct (existsb (Nat.eqb (length pre)) chosen); cbn [negb cres]; [|reflexivity].
      unfold nth_sat. rewrite !map_app, app_nth2 by (rewrite !map_length; lia). rewrite !map_length, Nat.sub_diag. reflexivity.
    - specialize (IH (pre ++ [x]) tr ltac:(lia)). rewrite app_length in IH. cbn [length] in IH.
      rewrite Nat.add_1_r, <- app_assoc in IH. exact IH.
  Qed.

  Lemma mkT_cok ch xs ts : Forall tstmt xs -> Forall2 (fun x t => type_of x = ROk t) xs ts ->
    (fix go (l : list ms) : Prop := match l with [] => True | x :: r => wf e ke x /\ go r end) xs ->
    (fix go (l : list ms) : Prop := match l with [] => True | x :: r => no_multi x /\ go r end) xs ->
    forall b, Forall (fun t => c_base (t_corr t) = b /\ c_unit (t_corr t) = true) ts ->
    forall i, Forall (cok b) (mkT ch xs ts i).
  Proof.
    intros HI HT. revert HI. induction HT as [|x t xr tr Hx Hr IH]; intros HI Hw Hn b Hb i; cbn [mkT]; [constructor|].
    inversion HI as [|? ? Ix Ir]; subst. inversion Hb as [|? ? Bh Br]; subst. destruct Bh as [B1 B2]. destruct Hw as [W1 W2]. destruct Hn as [N1 N2].
    constructor; [|apply IH; assumption].
    destruct (Ix t Hx W1 N1) as [Id Is]. destruct (bounded_results x W1) as [Bd Bs].
    cbn [cok cres]. refine (conj Hx (conj W1 (conj N1 (conj B1 (conj B2 _))))).
    destruct (negb (ch i)); split; assumption.
  Qed.

  Lemma t_thresh k xs : Forall tstmt xs -> tstmt (MThresh k xs).
  Proof.
    intros IH t Ht Hwf Hnm. cbn [type_of] in Ht. fold (tys_of xs) in Ht.
    apply rbind_ok in Ht. destruct Ht as [ts [Hts Ht]]. apply tys_of_ok in Hts.
    cbn [wf no_multi] in Hwf, Hnm. destruct Hwf as [Hk [Hn Hwf]].
    unfold t_threshold in Ht. destruct (c_threshold k (map t_corr ts)) as [cc|] eqn:Ec; [|discriminate].
    inversion Ht; subst; clear Ht.
    destruct xs as [|x0 r]; [cbn in Hk; lia|]. inversion Hts as [|x0' t0 r' ts0 Ht0 Hrest]; subst.
    unfold c_threshold in Ec. cbn [map] in Ec. destruct (loop_first (t_corr t0) (map t_corr ts0)) as [Lt Lf].
    destruct (child_ok true (t_corr t0) && forallb (child_ok false) (map t_corr ts0)) eqn:Eok.
    2:{ destruct (Lf eq_refl) as [err He]. rewrite He in Ec. discriminate. }
    rewrite (Lt eq_refl) in Ec. inversion Ec; subst; clear Ec.
    apply andb_prop in Eok. destruct Eok as [Ok0 Okr].
    assert (Hb0 : c_base (t_corr t0) = BB /\ c_unit (t_corr t0) = true).
    { unfold child_ok in Ok0. destruct t0 as [[b0 i0 d0 u0] m0]. cbn [t_corr c_base c_unit c_dissat] in *.
      destruct b0, u0, d0; try discriminate. auto. }
    assert (HbW : Forall (fun t => c_base (t_corr t) = BW /\ c_unit (t_corr t) = true) ts0).
    { clear -Okr. induction ts0 as [|t tr IHt]; [constructor|]. cbn [map forallb] in Okr. apply andb_prop in Okr. destruct Okr as [O1 O2].
      constructor; [|apply IHt, O2]. unfold child_ok in O1. destruct t as [[b i d u] m]. cbn [t_corr c_base c_unit c_dissat] in *.
      destruct b, u, d; try discriminate. auto. }
    assert (Hlen : length ts0 = length r) by (clear -Hrest; induction Hrest; cbn; congruence).
    inversion IH as [|? ? I0 Ir]; subst. destruct Hwf as [W0 Wr]. destruct Hnm as [N0 Nr].
    (* every selection *)
    match goal with |- runs_ok _ ?T _ /\ _ => set (tt := T) end.
    assert (Hbt : c_base (t_corr tt) = BB) by reflexivity. clearbody tt.
    assert (Hsel : forall ch, runs_ok (MThresh k (x0 :: r)) tt (flatten_rev (map cres (mkT ch (x0 :: r) (t0 :: ts0) 0)))).
    { intros ch. cbn [mkT].
      pose proof (mkT_cok ch [x0] [t0] (Forall_cons _ I0 (Forall_nil _)) (Forall2_cons _ _ Ht0 (Forall2_nil _)) (conj W0 I) (conj N0 I) BB
                    (Forall_cons _ Hb0 (Forall_nil _)) 0%nat) as H0. cbn [mkT] in H0. inversion H0 as [|? ? H0' _]; subst.
      pose proof (mkT_cok ch r ts0 Ir Hrest Wr Nr BW HbW 1%nat) as HT.
      pose proof (thresh_runs k x0 t0 (negb (ch 0%nat)) (mkT ch r ts0 1) tt H0' HT
                    ltac:(rewrite mkT_length by exact Hlen; cbn [length] in Hn; lia) Hbt) as Hr.
      rewrite mkT_cms in Hr by exact Hlen. exact Hr. }
    remember (x0 :: r) as xs eqn:Exs. cbn [sat_dissat]. rewrite ds_thresh. subst xs. split; cbn [fst snd].
    - rewrite (mkT_const false (x0 :: r) (t0 :: ts0) 0%nat) by (cbn; congruence). apply Hsel.
    - destruct (N.eqb k (N.of_nat (length (x0 :: r)))).
      + rewrite (mkT_const true (x0 :: r) (t0 :: ts0) 0%nat) by (cbn; congruence). apply Hsel.
      + apply (if_both (runs_ok (MThresh k (x0 :: r)) tt)).
        * unfold thresh_mall, swap_in.
          pose proof (fun ch => mkT_swap ch (x0 :: r) [] (t0 :: ts0) ltac:(cbn; congruence)) as E. cbn [app length] in E. rewrite E. apply Hsel.
        * unfold thresh_nonmall. cbv zeta. destruct (is_imp _); [intros l bs Hs; cbn in Hs; discriminate|].
          destruct (negb _ && negb _); [intros l bs Hs; cbn in Hs; discriminate|]. unfold swap_in.
          pose proof (fun ch => mkT_swap ch (x0 :: r) [] (t0 :: ts0) ltac:(cbn; congruence)) as E. cbn [app length] in E. rewrite E. apply Hsel.
  Qed.

  Theorem trace_all : forall m, tstmt m.
  Proof.
    induction m using ms_ind'; try (apply t_leaf; reflexivity).
    - apply t_after.
    - apply t_older.
    - apply t_alt; assumption.
    - apply t_swap; assumption.
    - apply t_check; assumption.
    - apply t_dupif; assumption.
    - apply t_verify; assumption.
    - apply t_nonzero; assumption.
    - apply t_zne; assumption.
    - apply t_and_v; assumption.
    - apply t_and_b; assumption.
    - apply t_andor; assumption.
    - apply t_or_b; assumption.
    - apply t_or_d; assumption.
    - apply t_or_c; assumption.
    - apply t_or_i; assumption.
    - apply t_thresh; assumption.
  Qed.
End Trace.
