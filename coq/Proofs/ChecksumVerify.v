(* Characterisation of verify_checksum (scan for the last '#', length rule, comparison of the
   eight characters) and of the printed checksum characters. *)
From Coq Require Import List Bool Arith NArith Lia Btauto.
From Verif Require Import ChecksumModel ChecksumSpec ChecksumBits ChecksumStream.
Import ListNotations.
Local Open Scope N_scope.

Arguments N.shiftl : simpl never.
Arguments N.shiftr : simpl never.
Arguments N.land : simpl never.
Arguments N.lor : simpl never.
Arguments N.lxor : simpl never.
Arguments N.testbit : simpl never.
Arguments N.pow : simpl never.
Arguments N.mul : simpl never.
Arguments N.add : simpl never.
Arguments N.sub : simpl never.

Definition allvalid (s : bytes) : Prop := Forall (fun c => valid_char c = true) s.

Lemma allvalid_dec : forall s, {allvalid s} + {~ allvalid s}.
Proof. intro. apply Forall_dec. intro x. destruct (valid_char x); [left; reflexivity|right; discriminate]. Qed.

Lemma allvalid_app : forall a b, allvalid (a ++ b) <-> allvalid a /\ allvalid b.
Proof. intros. apply Forall_app. Qed.

Lemma valid_HASH : valid_char HASH = true. Proof. reflexivity. Qed.

Lemma blen_cons : forall x s, blen (x :: s) = blen s + 1.
Proof. intros. unfold blen. cbn [length]. lia. Qed.

Lemma blen_app : forall a b, blen (a ++ b) = blen a + blen b.
Proof. intros. unfold blen. rewrite app_length. lia. Qed.

(* ---------------------------------------------------------------- scan *)
Lemma scan_invalid : forall s pos last, ~ allvalid s -> exists p, scan pos last s = Err (InvalidCharacter p).
Proof.
  induction s as [|c s IH]; intros pos last H.
  - exfalso. apply H. constructor.
  - cbn [scan]. fold (valid_char c). destruct (valid_char c) eqn:V; cbn [negb].
    + assert (~ allvalid s) as Hs by (intro A; apply H; constructor; assumption).
      destruct (c =? HASH); apply IH; assumption.
    + eexists. reflexivity.
Qed.

Lemma scan_nohash : forall s pos last, allvalid s -> ~ In HASH s -> scan pos last s = Ok last.
Proof.
  induction s as [|c s IH]; intros pos last H Hn; [reflexivity|].
  inversion H as [|? ? Hc Hs]; subst. cbn [scan]. fold (valid_char c). rewrite Hc. cbn [negb].
  destruct (N.eqb_spec c HASH) as [->|Hne].
  - exfalso. apply Hn. left. reflexivity.
  - apply IH; [assumption|]. intro I. apply Hn. right. assumption.
Qed.

Lemma scan_app_hash : forall a b pos last, allvalid a -> allvalid b -> ~ In HASH b ->
  scan pos last (a ++ HASH :: b) = Ok (pos + blen a).
Proof.
  induction a as [|c a IH]; intros b pos last Ha Hb Hn.
  - cbn [app scan]. fold (valid_char HASH). rewrite valid_HASH. cbn [negb]. rewrite N.eqb_refl.
    rewrite scan_nohash by assumption. unfold blen. cbn [length]. f_equal. lia.
  - inversion Ha as [|? ? Hc Ha']; subst. cbn [app scan]. fold (valid_char c). rewrite Hc. cbn [negb].
    rewrite blen_cons. destruct (c =? HASH); rewrite IH by assumption; f_equal; lia.
Qed.

Lemma last_hash_split : forall s, In HASH s -> exists a b, s = a ++ HASH :: b /\ ~ In HASH b.
Proof.
  induction s as [|c s IH]; intro H; [destruct H|].
  destruct (in_dec N.eq_dec HASH s) as [I|NI].
  - destruct (IH I) as [a [b [E Hb]]]. exists (c :: a), b. split; [rewrite E; reflexivity|assumption].
  - destruct H as [->|H]; [|contradiction]. exists [], s. split; [reflexivity|assumption].
Qed.

(* ---------------------------------------------------------------- bytes_eqb *)
Lemma bytes_eqb_eq : forall a b, bytes_eqb a b = true <-> a = b.
Proof.
  unfold bytes_eqb, blen. induction a as [|x a IH]; intros [|y b]; cbn [length combine forallb fst snd].
  - split; reflexivity.
  - split; [intro H; apply andb_true_iff in H; destruct H as [H _]; apply N.eqb_eq in H; lia|discriminate].
  - split; [intro H; apply andb_true_iff in H; destruct H as [H _]; apply N.eqb_eq in H; lia|discriminate].
  - split.
    + intro H. apply andb_true_iff in H. destruct H as [H1 H2]. apply andb_true_iff in H2. destruct H2 as [H2 H3].
      apply N.eqb_eq in H1. apply N.eqb_eq in H2. subst y. f_equal. apply IH. apply andb_true_iff. split; [|assumption].
      apply N.eqb_eq. lia.
    + intro E. injection E as -> ->. rewrite N.eqb_refl. cbn [andb]. rewrite N.eqb_refl. cbn [andb].
      specialize (IH b). destruct IH as [_ IH]. specialize (IH eq_refl). apply andb_true_iff in IH. tauto.
Qed.

(* ---------------------------------------------------------------- verify_checksum *)
Lemma skipn_app_exact : forall (A : Type) (a b : list A) (x : A), skipn (length a + 1) (a ++ x :: b) = b.
Proof. intros. replace (length a + 1)%nat with (length (a ++ [x])) by (rewrite app_length; reflexivity).
  replace (a ++ x :: b) with ((a ++ [x]) ++ b) by (rewrite <- app_assoc; reflexivity).
  rewrite skipn_app, skipn_all, Nat.sub_diag. reflexivity. Qed.

Lemma firstn_app_exact : forall (A : Type) (a b : list A), firstn (length a) (a ++ b) = a.
Proof. intros. rewrite firstn_app, firstn_all, Nat.sub_diag. cbn [firstn]. apply app_nil_r. Qed.

Lemma verify_hash : forall p c, allvalid p -> allvalid c -> ~ In HASH c ->
  verify_checksum (p ++ HASH :: c) =
    if negb (blen c =? CHECKSUM_LENGTH) then Err (InvalidChecksumLength (blen c))
    else if negb (bytes_eqb (cks p) c) then Err InvalidChecksum else Ok p.
Proof.
  intros p c Hp Hc Hn. unfold verify_checksum. rewrite scan_app_hash by assumption. rewrite N.add_0_l.
  replace (blen p <? blen (p ++ HASH :: c)) with true
    by (symmetry; apply N.ltb_lt; rewrite blen_app, blen_cons; lia).
  replace (N.to_nat (blen p + 1)) with (length p + 1)%nat by (unfold blen; lia).
  replace (N.to_nat (blen p)) with (length p) by (unfold blen; lia).
  rewrite skipn_app_exact, firstn_app_exact.
  destruct (negb (blen c =? CHECKSUM_LENGTH)); [reflexivity|].
  destruct (cks_chars p Hp) as [st [E1 E2]]. rewrite E1, E2. reflexivity.
Qed.

Lemma verify_nohash : forall s, allvalid s -> ~ In HASH s -> verify_checksum s = Ok s.
Proof.
  intros s Hs Hn. unfold verify_checksum. rewrite scan_nohash by assumption.
  rewrite N.ltb_irrefl. replace (N.to_nat (blen s)) with (length s) by (unfold blen; lia).
  rewrite firstn_all. reflexivity.
Qed.

Lemma verify_invalid : forall s, ~ allvalid s -> exists p, verify_checksum s = Err (InvalidCharacter p).
Proof.
  intros s H. unfold verify_checksum. destruct (scan_invalid s 0 (blen s) H) as [p ->]. eexists. reflexivity.
Qed.

(* what an accepted string with a '#' looks like *)
Lemma verify_ok_inv : forall s p, verify_checksum s = Ok p -> In HASH s ->
  allvalid p /\ s = p ++ HASH :: cks p.
Proof.
  intros s p H I. destruct (allvalid_dec s) as [V|NV].
  - destruct (last_hash_split s I) as [a [b [E Hb]]]. subst s.
    apply allvalid_app in V. destruct V as [Va Vb]. inversion Vb as [|? ? _ Vb']; subst.
    rewrite verify_hash in H by assumption.
    destruct (negb (blen b =? CHECKSUM_LENGTH)); [discriminate|].
    destruct (bytes_eqb (cks a) b) eqn:E; cbn [negb] in H; [|discriminate].
    apply bytes_eqb_eq in E. injection H as <-. split; [assumption|]. rewrite E. reflexivity.
  - destruct (verify_invalid s NV) as [q E]. rewrite E in H. discriminate.
Qed.

(* ---------------------------------------------------------------- the eight characters *)
Lemma unpack_lt : forall r k, unpack r k < 32.
Proof. intros. unfold unpack. change 0x1f with (N.ones 5). rewrite N.land_ones. apply N.mod_lt. discriminate. Qed.

Lemma CHARS_LOWER_props : forallb (fun c => valid_char c && negb (c =? HASH)) CHARS_LOWER = true.
Proof. vm_compute. reflexivity. Qed.

Lemma CHARS_LOWER_nodup : NoDup CHARS_LOWER.
Proof.
  assert (forall l : list N, (fix nd (l : list N) := match l with [] => true | x :: r => negb (existsb (N.eqb x) r) && nd r end) l = true -> NoDup l) as H.
  { induction l as [|x r IH]; intro E; constructor.
    - apply andb_true_iff in E. destruct E as [E _]. apply negb_true_iff in E. intro I.
      assert (existsb (N.eqb x) r = true) by (apply existsb_exists; exists x; split; [assumption|apply N.eqb_refl]).
      congruence.
    - apply IH. apply andb_true_iff in E. tauto. }
  apply H. vm_compute. reflexivity.
Qed.

Definition chr (i : N) : N := nth (N.to_nat i) CHARS_LOWER 0.

Lemma chr_props : forall i, i < 32 -> valid_char (chr i) = true /\ chr i <> HASH.
Proof.
  intros i Hi. pose proof CHARS_LOWER_props as P. rewrite forallb_forall in P.
  assert (In (chr i) CHARS_LOWER) as I by (apply nth_In; change (length CHARS_LOWER) with 32%nat; lia).
  specialize (P _ I). apply andb_true_iff in P. destruct P as [P1 P2]. split; [assumption|].
  apply negb_true_iff in P2. apply N.eqb_neq. assumption.
Qed.

Lemma chr_inj : forall i j, i < 32 -> j < 32 -> chr i = chr j -> i = j.
Proof.
  intros i j Hi Hj E. pose proof CHARS_LOWER_nodup as ND. rewrite (NoDup_nth CHARS_LOWER 0) in ND.
  assert (N.to_nat i = N.to_nat j) by (apply ND; try exact E; change (length CHARS_LOWER) with 32%nat; lia).
  lia.
Qed.

Lemma chars_of_eq : forall r, chars_of r = map (fun k => chr (unpack r k)) [7; 6; 5; 4; 3; 2; 1; 0].
Proof. reflexivity. Qed.

Lemma chars_of_props : forall r, length (chars_of r) = 8%nat /\ allvalid (chars_of r) /\ ~ In HASH (chars_of r).
Proof.
  intro r. rewrite chars_of_eq. split; [reflexivity|]. split.
  - unfold allvalid. apply Forall_map. apply Forall_forall. intros k _. apply chr_props. apply unpack_lt.
  - intro I. apply in_map_iff in I. destruct I as [k [E _]]. revert E. apply chr_props. apply unpack_lt.
Qed.

(* number of non-zero 5-bit fields of a residue *)
Definition Wt (s : N) : nat :=
  length (filter (fun k => negb (unpack s k =? 0)) [7; 6; 5; 4; 3; 2; 1; 0]).

Lemma unpack_lxor : forall a b k, unpack (N.lxor a b) k = N.lxor (unpack a k) (unpack b k).
Proof. intros. unfold unpack. rewrite N.shiftr_lxor, !land_lxor_l. reflexivity. Qed.

Lemma hamming_chars : forall r s, hamming (chars_of r) (chars_of (N.lxor r s)) = Wt s.
Proof.
  intros r s. rewrite !chars_of_eq. unfold Wt.
  generalize [7; 6; 5; 4; 3; 2; 1; 0]. induction l as [|k l IH]; [reflexivity|].
  cbn [map hamming filter]. rewrite IH. rewrite unpack_lxor.
  destruct (N.eqb_spec (unpack s k) 0) as [E|E].
  - rewrite E, N.lxor_0_r, N.eqb_refl. reflexivity.
  - destruct (N.eqb_spec (chr (unpack r k)) (chr (N.lxor (unpack r k) (unpack s k)))) as [E'|E'].
    + exfalso. apply chr_inj in E'; [|apply unpack_lt|apply (lxor_lt _ _ 5); apply unpack_lt].
      apply E. set (u := unpack r k) in *. set (v := unpack s k) in *.
      assert (X : N.lxor u u = N.lxor u (N.lxor u v)) by (f_equal; exact E').
      rewrite N.lxor_nilpotent, <- N.lxor_assoc, N.lxor_nilpotent, N.lxor_0_l in X. symmetry. exact X.
    + reflexivity.
Qed.

(* a non-zero 40-bit residue has a non-zero field *)
Lemma unpack_bit : forall s k j, j < 5 -> N.testbit (unpack s k) j = N.testbit s (k * 5 + j).
Proof.
  intros. unfold unpack. change 0xff with (N.ones 8). change 0x1f with (N.ones 5).
  rewrite !N.land_spec, N.shiftr_spec', !N.ones_spec_low by lia. rewrite !andb_true_r.
  f_equal. lia.
Qed.

Lemma Wt_pos : forall s, s < 2 ^ 40 -> s <> 0 -> (1 <= Wt s)%nat.
Proof.
  intros s Hs Hn. destruct (Nat.eq_dec (Wt s) 0) as [E|]; [|lia]. exfalso. apply Hn.
  unfold Wt in E. apply length_zero_iff_nil in E.
  assert (Z : forall k, In k [7; 6; 5; 4; 3; 2; 1; 0] -> unpack s k = 0).
  { intros k I. destruct (N.eqb_spec (unpack s k) 0) as [|Hk]; [assumption|]. exfalso.
    assert (In k (filter (fun k => negb (unpack s k =? 0)) [7; 6; 5; 4; 3; 2; 1; 0])) as I'.
    { apply filter_In. split; [assumption|]. apply negb_true_iff. apply N.eqb_neq. assumption. }
    rewrite E in I'. destruct I'. }
  apply N.bits_inj. intro n. rewrite N.bits_0.
  destruct (N.lt_ge_cases n 40) as [Hlt|Hge]; [|apply (testbit_high s 40); assumption].
  replace n with ((n / 5) * 5 + n mod 5) by (rewrite N.mul_comm; symmetry; apply N.div_mod; discriminate).
  rewrite <- unpack_bit by (apply N.mod_lt; discriminate).
  rewrite Z; [apply N.bits_0|].
  assert (n / 5 < 8) by (apply N.div_lt_upper_bound; [discriminate|exact Hlt]).
  set (q := n / 5) in *. clearbody q. cbn [In]. lia.
Qed.
