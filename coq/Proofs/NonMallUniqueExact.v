(* C03, table level: the published witness IS one of the third party's table entries, so the
   third party's satisfaction table is exactly {w} (U1 gave "at most w").
   [sat_in_table] (SatProofs.v) needs the satisfier's view and the assets to describe the same
   holdings; the third party holds less than the honest satisfier assumed.  But membership only
   needs the COMPLETION data to agree with the assets ([wlinked]): a template the third party can
   complete from its own holdings lands in its own table, whatever satisfier produced it. *)
From Verif Require Import Exec Ser Ast Types TypeCheck SatSpec Sat ExecLemmas TheoremA SatProofs
  CompleteProofs CompleteThresh CompleteNonMall HasSigProofs
  NonMallUnique NonMallUniqueThresh NonMallUniqueMulti NonMallUniqueMain NonMallUniqueStatic.
From Coq Require Import Lia Permutation.

Record wlinked (ke : keyenv) (B : assets) (se : senv) (f : fill) : Prop := {
  wl_sig : forall k, f_sig f k = a_sig B k;
  wl_pre : forall kd h, f_pre f kd h = look B kd h;
  wl_after : forall t, se_after se t = a_after B t;
  wl_older : forall t, se_older se t = a_older B t;
  wl_kb : forall k, f_keybytes f k = kb ke k
}.

Section WeakInTable.
  Variable ke : keyenv.
  Variable B : assets.
  Variable se : senv.
  Variable f : fill.
  Hypothesis W : wlinked ke B se f.
  Hypothesis Hksort_len : forall ks, length (ksort ke ks) = length ks.
  Notation in_table := (in_table ke B f).
  Notation satok := (satok ke B f).
  Notation disok := (disok ke B f).

  Lemma wt_pk_k k : in_table (MPkK k) (sd_pk_k se k).
  Proof.
    split; intros l bs Hs Hf; cbn [sd_pk_k fst snd s_stack push_0] in Hs.
    - inversion Hs; subst. cbn in Hf. inversion Hf; subst. cbn. left. reflexivity.
    - unfold w_signature in Hs. destruct (se_sig se k) as [sz|]; [|discriminate]. inversion Hs; subst.
      cbn [fill_all fill_ph] in Hf. rewrite (wl_sig _ _ _ _ W) in Hf. destruct (a_sig B k) as [sg|] eqn:E; [|discriminate].
      inversion Hf; subst. unfold all_sat. cbn [sd fst]. rewrite E. left. reflexivity.
  Qed.
  Lemma wt_pk_h k : in_table (MPkH k) (sd_pk_h se k).
  Proof.
    split; intros l bs Hs Hf; cbn [sd_pk_h fst snd s_stack] in Hs.
    - cbn in Hs. inversion Hs; subst. cbn in Hf. inversion Hf; subst. cbn. rewrite (wl_kb _ _ _ _ W). left. reflexivity.
    - unfold w_signature in Hs. destruct (se_sig se k) as [sz|]; cbn in Hs; [|discriminate]. inversion Hs; subst.
      cbn [fill_all fill_ph] in Hf. rewrite (wl_sig _ _ _ _ W) in Hf. destruct (a_sig B k) as [sg|] eqn:E; [|discriminate].
      inversion Hf; subst. unfold all_sat. cbn [sd fst]. rewrite E, (wl_kb _ _ _ _ W). left. reflexivity.
  Qed.
  Lemma wt_hash kd h m : sd ke B m = hash_sd (look B kd) h -> in_table m (sd_hash se kd h).
  Proof.
    intros Hm. unfold SatProofs.in_table, SatProofs.disok, SatProofs.satok, all_sat, all_dsat. rewrite Hm. unfold hash_sd. cbn [fst snd sd_hash s_stack].
    split; intros l bs Hs Hf.
    - inversion Hs; subst. cbn in Hf. inversion Hf; subst. left. reflexivity.
    - unfold w_preimage in Hs. destruct (se_pre se kd h); [|discriminate]. inversion Hs; subst.
      cbn in Hf. rewrite (wl_pre _ _ _ _ W) in Hf. destruct (look B kd h) as [p|]; [|discriminate]. inversion Hf; subst.
      left. reflexivity.
  Qed.

  (* multi: the template's signatures, in key order, are a k-subset the third party can pick *)
  Lemma wt_take_avail ks : forall k sigs, fill_all f (take_avail se k ks) = Some sigs ->
    length (take_avail se k ks) = k -> In sigs (pick_sigs B k ks).
  Proof.
    induction ks as [|key r IH]; intros k sigs Hf Hlen; cbn [take_avail pick_sigs] in *.
    - cbn in Hf. inversion Hf; subst. left. reflexivity.
    - destruct (se_sig se key) as [sz|].
      + destruct k as [|k'].
        * apply in_or_app. right. apply IH; assumption.
        * cbn [fill_all fill_ph] in Hf. rewrite (wl_sig _ _ _ _ W) in Hf. destruct (a_sig B key) as [sg|]; [|discriminate].
          destruct (fill_all f (take_avail se k' r)) as [ss|] eqn:F; [|discriminate]. inversion Hf; subst.
          apply in_or_app. left. apply in_map. apply IH; [exact F | cbn [length] in Hlen; lia].
      + apply in_or_app. right. apply IH; assumption.
  Qed.
  Lemma take_avail_full ks : forall k, (k <= count_avail se ks)%nat -> length (take_avail se k ks) = k.
  Proof.
    induction ks as [|key r IH]; intros k Hk; cbn [take_avail].
    - cbn in Hk. assert (k = 0%nat) by lia. subst. reflexivity.
    - rewrite count_avail_cons in Hk. destruct (se_sig se key); [destruct k as [|k']|].
      + apply IH. lia.
      + cbn [length]. rewrite IH by lia. reflexivity.
      + apply IH. lia.
  Qed.
  Lemma wt_multi_gen k ks (S D : list wit) :
    S = map (fun sigs => rev sigs ++ [[]]) (pick_sigs B (N.to_nat k) ks) -> D = [repeat [] (Datatypes.S (N.to_nat k))] ->
    (forall l bs, s_stack (fst (sd_multi se k ks)) = WStack l -> fill_all f l = Some bs -> In (rev bs) D) /\
    (forall l bs, s_stack (snd (sd_multi se k ks)) = WStack l -> fill_all f l = Some bs -> In (rev bs) S).
  Proof.
    intros -> ->. unfold sd_multi. cbv zeta. destruct (Nat.ltb (count_avail se ks) (N.to_nat k)) eqn:Ec; cbn [fst snd s_stack];
    (split; intros l bs Hs Hf; [apply stack_inj in Hs; subst l; rewrite fill_repeat_zero in Hf; match type of Hf with Some ?x = Some _ => assert (Hb : bs = x) by congruence end; rewrite Hb, rev_repeat; left; reflexivity|]).
    - cbn in Hs. discriminate.
    - inversion Hs; subst. cbn [fill_all fill_ph] in Hf.
      destruct (fill_all f (take_avail se (N.to_nat k) ks)) as [sigs|] eqn:F; [|discriminate]. inversion Hf; subst.
      cbn [rev]. apply in_map_iff. exists sigs. split; [reflexivity|]. apply wt_take_avail; [exact F|].
      apply take_avail_full. apply Nat.ltb_ge in Ec. exact Ec.
  Qed.

  (* multi_a *)
  Lemma wt_multi_a_fill Lk : forall k bs, fill_all f (multi_a_fill se k Lk) = Some bs ->
    In (rev bs) (pick_sigs_a B (nsig (multi_a_fill se k Lk)) (rev Lk)).
  Proof.
    induction Lk as [|key r IH]; intros k bs Hf; cbn [multi_a_fill rev] in *.
    - cbn in Hf. inversion Hf; subst. left. reflexivity.
    - destruct (se_sig se key) as [sz|]; [destruct k as [|k']|].
      + cbn [fill_all fill_ph] in Hf. destruct (fill_all f (multi_a_fill se 0 r)) as [bs'|] eqn:F; [|discriminate].
        inversion Hf; subst. cbn [rev]. unfold nsig. cbn [filter is_sigb]. fold (nsig (multi_a_fill se 0 r)).
        rewrite <- (Nat.add_0_r (nsig (multi_a_fill se 0 r))). apply pick_sigs_a_app; [exact (IH 0%nat bs' F)|].
        cbn [pick_sigs_a]. apply in_or_app. right. left. reflexivity.
      + cbn [fill_all fill_ph] in Hf. rewrite (wl_sig _ _ _ _ W) in Hf. destruct (a_sig B key) as [sg|] eqn:E; [|discriminate].
        destruct (fill_all f (multi_a_fill se k' r)) as [bs'|] eqn:F; [|discriminate].
        inversion Hf; subst. cbn [rev]. unfold nsig. cbn [filter is_sigb length]. fold (nsig (multi_a_fill se k' r)).
        replace (S (nsig (multi_a_fill se k' r))) with (nsig (multi_a_fill se k' r) + 1)%nat by lia.
        apply pick_sigs_a_app; [exact (IH k' bs' F)|]. cbn [pick_sigs_a]. rewrite E. apply in_or_app. left. left. reflexivity.
      + cbn [fill_all fill_ph] in Hf. destruct (fill_all f (multi_a_fill se k r)) as [bs'|] eqn:F; [|discriminate].
        inversion Hf; subst. cbn [rev]. unfold nsig. cbn [filter is_sigb]. fold (nsig (multi_a_fill se k r)).
        rewrite <- (Nat.add_0_r (nsig (multi_a_fill se k r))). apply pick_sigs_a_app; [exact (IH k bs' F)|].
        cbn [pick_sigs_a]. apply in_or_app. right. left. reflexivity.
  Qed.
  Lemma wt_multi_a_gen k ks :
    (forall l bs, s_stack (fst (sd_multi_a se k ks)) = WStack l -> fill_all f l = Some bs -> In (rev bs) [repeat [] (length ks)]) /\
    (forall l bs, s_stack (snd (sd_multi_a se k ks)) = WStack l -> fill_all f l = Some bs -> In (rev bs) (pick_sigs_a B (N.to_nat k) ks)).
  Proof.
    unfold sd_multi_a. cbv zeta. destruct (Nat.ltb (count_avail se ks) (N.to_nat k)) eqn:Ec; cbn [fst snd s_stack];
    (split; intros l bs Hs Hf; [apply stack_inj in Hs; subst l; rewrite fill_repeat_zero in Hf; match type of Hf with Some ?x = Some _ => assert (Hb : bs = x) by congruence end; rewrite Hb, rev_repeat; left; reflexivity|]).
    - cbn in Hs. discriminate.
    - inversion Hs; subst. apply wt_multi_a_fill in Hf. rewrite rev_involutive in Hf.
      rewrite (nsig_fill se), (count_avail_cnt se), <- (cnt_perm (avs se) _ _ (Permutation_rev ks)), <- (count_avail_cnt se) in Hf.
      apply Nat.ltb_ge in Ec. rewrite Nat.min_l in Hf by exact Ec. exact Hf.
  Qed.

  Theorem sat_in_table_w mall rhs : forall m, kwf m -> in_table m (sat_dissat ke se mall rhs m).
  Proof.
    induction m using ms_ind'; intros Hk; cbn [sat_dissat kwf] in *.
    - split; intros l bs Hs Hf; cbn in Hs; [discriminate|]. inversion Hs; subst. cbn in Hf. inversion Hf. left. reflexivity.
    - split; intros l bs Hs Hf; cbn in Hs; [|discriminate]. inversion Hs; subst. cbn in Hf. inversion Hf. left. reflexivity.
    - apply wt_pk_k.
    - apply wt_pk_h.
    - split; intros l bs Hs; cbn in Hs; discriminate.
    - apply it_time. cbn [sd]. rewrite (wl_after _ _ _ _ W). reflexivity.
    - apply it_time. cbn [sd]. rewrite (wl_older _ _ _ _ W). reflexivity.
    - apply (wt_hash HSha256). reflexivity.
    - apply (wt_hash HHash256). reflexivity.
    - apply (wt_hash HRipemd160). reflexivity.
    - apply (wt_hash HHash160). reflexivity.
    - exact (IHm Hk).
    - exact (IHm Hk).
    - exact (IHm Hk).
    - destruct (sat_dissat ke se mall rhs m) as [d0 sub] eqn:E. destruct (IHm Hk) as [_ Hs]. cbn [snd] in Hs.
      split; cbn [fst snd].
      + intros l bs Hl Hf. cbn in Hl. inversion Hl; subst. cbn in Hf. inversion Hf. cbn. left. reflexivity.
      + unfold SatProofs.satok, all_sat. cbn [sd fst]. apply (push_in f _ sub PhPushOne [1%N]); [reflexivity | exact Hs].
    - destruct (sat_dissat ke se mall rhs m) as [d0 sub] eqn:E. destruct (IHm Hk) as [_ Hs].
      split; cbn [fst snd]; [intros l bs Hl; cbn in Hl; discriminate | exact Hs].
    - destruct (sat_dissat ke se mall rhs m) as [d0 sub] eqn:E. destruct (IHm Hk) as [_ Hs].
      split; cbn [fst snd]; [|exact Hs]. intros l bs Hl Hf. cbn in Hl. inversion Hl; subst. cbn in Hf. inversion Hf. cbn. left. reflexivity.
    - exact (IHm Hk).
    - destruct Hk as [H1 H2]. destruct (sat_dissat ke se mall rhs m1) as [ld ls] eqn:E1.
      destruct (sat_dissat ke se mall rhs m2) as [rd rs] eqn:E2. destruct (IHm1 H1) as [_ Hls]. destruct (IHm2 H2) as [Hrd Hrs].
      cbn [fst snd] in *. split; cbn [fst snd]; unfold SatProofs.satok, SatProofs.disok; [rewrite dsat_and_v | rewrite sat_and_v]; apply concat_in; assumption.
    - destruct Hk as [H1 H2]. destruct (sat_dissat ke se mall rhs m1) as [ld ls] eqn:E1.
      destruct (sat_dissat ke se mall rhs m2) as [rd rs] eqn:E2. destruct (IHm1 H1) as [Hld Hls]. destruct (IHm2 H2) as [Hrd Hrs].
      cbn [fst snd] in *. split; cbn [fst snd]; unfold SatProofs.satok, SatProofs.disok, all_sat, all_dsat; rewrite sd_and_b; cbn [fst snd]; apply concat_in; assumption.
    - destruct Hk as [H1 [H2 H3]]. destruct (sat_dissat ke se mall rhs m1) as [ad asat] eqn:E1.
      destruct (sat_dissat ke se mall rhs m2) as [bd bsat] eqn:E2. destruct (sat_dissat ke se mall rhs m3) as [cd csat] eqn:E3.
      destruct (IHm1 H1) as [Had Has]. destruct (IHm2 H2) as [_ Hbs]. destruct (IHm3 H3) as [Hcd Hcs]. cbn [fst snd] in *.
      split; cbn [fst snd]; unfold SatProofs.satok, SatProofs.disok, all_sat, all_dsat; rewrite sd_andor; cbn [fst snd].
      + apply concat_in; assumption.
      + apply min_in; [apply in_weaken_l | apply in_weaken_r]; apply concat_in; assumption.
    - destruct Hk as [H1 H2]. destruct (sat_dissat ke se mall rhs m1) as [ld ls] eqn:E1.
      destruct (sat_dissat ke se mall rhs m2) as [rd rs] eqn:E2. destruct (IHm1 H1) as [Hld Hls]. destruct (IHm2 H2) as [Hrd Hrs].
      cbn [fst snd] in *. split; cbn [fst snd]; unfold SatProofs.satok, SatProofs.disok, all_sat, all_dsat; rewrite sd_or_b; cbn [fst snd].
      + apply concat_in; assumption.
      + apply min_in; [apply in_weaken_l | apply in_weaken_r]; apply concat_in; assumption.
    - destruct Hk as [H1 H2]. destruct (sat_dissat ke se mall rhs m1) as [ld ls] eqn:E1.
      destruct (sat_dissat ke se mall rhs m2) as [rd rs] eqn:E2. destruct (IHm1 H1) as [Hld Hls]. destruct (IHm2 H2) as [Hrd Hrs].
      cbn [fst snd] in *. split; cbn [fst snd]; unfold SatProofs.satok, SatProofs.disok, all_sat, all_dsat; rewrite sd_or_d; cbn [fst snd].
      + apply concat_in; assumption.
      + apply min_in; [apply in_weaken_l; exact Hls | apply in_weaken_r; apply concat_in; assumption].
    - destruct Hk as [H1 H2]. destruct (sat_dissat ke se mall rhs m1) as [ld ls] eqn:E1.
      destruct (sat_dissat ke se mall rhs m2) as [rd rs] eqn:E2. destruct (IHm1 H1) as [Hld Hls]. destruct (IHm2 H2) as [_ Hrs].
      cbn [fst snd] in *. split; cbn [fst snd].
      + intros l bs Hl; cbn in Hl; discriminate.
      + unfold SatProofs.satok. rewrite sat_or_c. apply min_in; [apply in_weaken_l; exact Hls | apply in_weaken_r; apply concat_in; assumption].
    - destruct Hk as [H1 H2]. destruct (sat_dissat ke se mall rhs m1) as [ld ls] eqn:E1.
      destruct (sat_dissat ke se mall rhs m2) as [rd rs] eqn:E2. destruct (IHm1 H1) as [Hld Hls]. destruct (IHm2 H2) as [Hrd Hrs].
      cbn [fst snd] in *. split; cbn [fst snd]; unfold SatProofs.satok, SatProofs.disok, all_sat, all_dsat; rewrite sd_or_i; cbn [fst snd];
      (apply min_in; [apply in_weaken_l; apply (push_in f _ _ PhPushOne [1%N]); [reflexivity | assumption]
                     | apply in_weaken_r; apply (push_in f _ _ PhPushZero []); [reflexivity | assumption]]).
    - destruct Hk as [Hk Hkw]. rewrite ds_thresh.
      set (ds := map (sat_dissat ke se mall rhs) xs).
      assert (HF : Forall2 in_table xs ds).
      { unfold ds. clear Hk. induction H as [|x r Hx Hr IHr]; cbn [map]; constructor.
        - apply Hx. apply Hkw. - apply IHr. apply Hkw. }
      assert (Hlen : length ds = length xs) by (unfold ds; apply map_length).
      split; cbn [fst snd]; unfold SatProofs.satok, SatProofs.disok, all_sat, all_dsat; rewrite sd_thresh'; cbn [fst snd].
      + intros l bs Hs Hf. exact (flat_const ke B f false xs ds HF l bs Hs Hf).
      + destruct (N.eqb_spec k (N.of_nat (length xs))) as [Ekn|Ekn].
        * intros l bs Hs Hf. pose proof (flat_const ke B f true xs ds HF l bs Hs Hf) as Hr. cbn in Hr.
          replace (N.to_nat k) with (length xs) by lia. exact Hr.
        * assert (Hnth : forall i x d, nth_error xs i = Some x -> nth_error ds i = Some d -> in_table x d).
          { clear -HF. induction HF as [|x0 d0 xs0 ds0 H0 HF' IH]; intros [|i] x d Hx Hd; cbn in *; try discriminate.
            - inversion Hx; inversion Hd; subst. exact H0.
            - eapply IH; eassumption. }
          destruct mall.
          -- intros l bs Hs Hf. unfold thresh_mall in Hs. rewrite map_length, Hlen in Hs.
             eapply (swap_in_table ke B f xs ds _ (N.to_nat k) Hlen Hnth); [ | | exact Hs | exact Hf]; [apply order_perm | lia].
          -- intros l bs Hs Hf. unfold thresh_nonmall in Hs. rewrite map_length, Hlen in Hs. cbv zeta in Hs.
             destruct (is_imp _) in Hs; [cbn in Hs; discriminate|].
             destruct (negb _ && negb _) in Hs; [cbn in Hs; discriminate|].
             eapply (swap_in_table ke B f xs ds _ (N.to_nat k) Hlen Hnth); [ | | exact Hs | exact Hf]; [apply order_perm | lia].
    - unfold SatProofs.in_table, SatProofs.satok, SatProofs.disok, all_sat, all_dsat. cbn [sd fst snd]. apply (wt_multi_gen k ks); reflexivity.
    - unfold SatProofs.in_table, SatProofs.satok, SatProofs.disok, all_sat, all_dsat. cbn [sd fst snd]. apply (wt_multi_gen k (ksort ke ks)); reflexivity.
    - unfold SatProofs.in_table, SatProofs.satok, SatProofs.disok, all_sat, all_dsat. cbn [sd fst snd]. apply (wt_multi_a_gen k ks).
    - unfold SatProofs.in_table, SatProofs.satok, SatProofs.disok, all_sat, all_dsat. cbn [sd fst snd].
      destruct (wt_multi_a_gen k (ksort ke ks)) as [H1 H2]. split; [|exact H2].
      intros l bs Hs Hf. specialize (H1 l bs Hs Hf). rewrite Hksort_len in H1. exact H1.
  Qed.
End WeakInTable.

(* ---------- the third party can complete the published template from its own holdings ---------- *)
Lemma adv_fill_same ke A se f Pre : linked ke A se f ->
  (forall kd h p, look A kd h = Some p -> Pre kd h = Some p) ->
  forall w l bs, fill_all f l = Some bs -> (forall v, In v bs -> In v w) ->
  fill_all (f_of ke (adv_assets A Pre w)) l = Some bs.
Proof.
  intros L HP w. induction l as [|p r IH]; intros bs Hf Hin; cbn [fill_all] in *; [exact Hf|].
  destruct (fill_ph f p) as [b|] eqn:Ep; [|discriminate]. destruct (fill_all f r) as [bs'|] eqn:Er; [|discriminate].
  inversion Hf; subst bs. rewrite (IH bs' eq_refl) by (intros v Hv; apply Hin; right; exact Hv).
  assert (Hb : In b w) by (apply Hin; left; reflexivity).
  assert (E : fill_ph (f_of ke (adv_assets A Pre w)) p = Some b); [|rewrite E; reflexivity].
  destruct p as [k|k|kd h| | |]; cbn [fill_ph f_of f_keybytes f_sig f_pre adv_assets a_sig] in *.
  - rewrite <- (lk_kb _ _ _ _ L). exact Ep.
  - rewrite (lk_sig _ _ _ _ L) in Ep. rewrite Ep.
    assert (Ex : existsb (bytes_eqb b) w = true).
    { apply existsb_exists. exists b. split; [exact Hb|]. clear. induction b as [|x b IH]; [reflexivity|]. cbn [bytes_eqb]. rewrite N.eqb_refl, IH. reflexivity. }
    rewrite Ex. reflexivity.
  - rewrite (lk_pre _ _ _ _ L) in Ep. destruct kd; cbn [look adv_assets a_sha256 a_hash256 a_ripemd160 a_hash160]; exact (HP _ h b Ep).
  - exact Ep.
  - exact Ep.
  - exact Ep.
Qed.

Lemma adv_wlinked ke A se f Pre w : linked ke A se f -> wlinked ke (adv_assets A Pre w) se (f_of ke (adv_assets A Pre w)).
Proof.
  intros L. constructor; cbn; try reflexivity.
  - apply (lk_after _ _ _ _ L).
  - apply (lk_older _ _ _ _ L).
Qed.

(* the published witness is an entry of the third party's table (when the oracle knows at least what the
   honest party knows) *)
Theorem nonmall_witness_in_adv_table (ke : keyenv) (A : assets) (se : senv) (f : fill) (Pre : hkind -> bytes -> option bytes) :
  linked ke A se f -> (forall ks, length (ksort ke ks) = length ks) ->
  (forall kd h p, look A kd h = Some p -> Pre kd h = Some p) ->
  forall (mall rhs : bool) (m : ms), kwf m ->
  forall bs, satisfy ke se f mall rhs m = Some bs ->
  In (rev bs) (all_sat ke (adv_assets A Pre (rev bs)) m).
Proof.
  intros L Hks HP mall rhs m Hk bs Hs. unfold satisfy in Hs.
  destruct (s_stack (snd (sat_dissat ke se mall rhs m))) as [l| |] eqn:El; try discriminate.
  destruct (sat_in_table_w ke _ se _ (adv_wlinked ke A se f Pre (rev bs) L) Hks mall rhs m Hk) as [_ G].
  apply (G l bs El). apply (adv_fill_same ke A se f Pre L HP (rev bs) l bs Hs). intros v Hv. apply in_rev in Hv. exact Hv.
Qed.

(* (U1), exact form: the third party's satisfaction table, as a set, is {published witness} *)
Theorem nonmall_unique_exact (ke : keyenv) (A : assets) (se : senv) (f : fill) (Pre : hkind -> bytes -> option bytes) :
  linked ke A se f -> locks_compatible se -> (forall ks, Permutation (ksort ke ks) ks) ->
  sigs_distinct ke A -> (forall kd h p, look A kd h = Some p -> Pre kd h = Some p) ->
  forall (rhs : bool) (m : ms) (t : ty), uwf m -> NoDup (ukeys m) -> type_of m = ROk t -> m_nm (t_mall t) = true ->
  forall bs, satisfy ke se f false rhs m = Some bs ->
  forall w', In w' (all_sat ke (adv_assets A Pre (rev bs)) m) <-> w' = rev bs.
Proof.
  intros L HC Hks HD HP rhs m t Hwf Hnd Ht Hnm bs Hs w'. split.
  - exact (nonmall_unique ke A se f Pre L HC Hks HD (pre_extends_consistent A Pre HP) rhs m t Hwf Hnd Ht Hnm bs Hs w').
  - intros ->. apply (nonmall_witness_in_adv_table ke A se f Pre L (fun ks => Permutation_length (Hks ks)) HP false rhs m (uwf_kwf m Hwf) bs Hs).
Qed.
