(* C14: update_input_with_descriptor records data consistent with the descriptor's output,
   and only after checking that output against the input's utxo. *)
From Coq Require Import List Bool NArith Arith Lia.
Import ListNotations.
From Verif Require Import PsbtModel PsbtLemmas.

Lemma sorted_tail k v r : sorted ((k, v) :: r) -> sorted r.
Proof. inversion 1; subst; auto; constructor. Qed.

Lemma sorted_tail_none k v r : sorted ((k, v) :: r) -> lookup k r = None.
Proof.
  intros S. destruct r as [|[k1 v1] r]; auto. inversion S; subst. apply sorted_head_min; auto.
Qed.

(* a loop of inserts from a canonical source map: source entries win, the rest is kept *)
Lemma lookup_ins_all src : sorted src -> forall dst k,
  lookup k (ins_all src dst) = match lookup k src with Some v => Some v | None => lookup k dst end.
Proof.
  unfold ins_all. induction src as [|[k0 v0] r IH]; intros S dst k; simpl; auto.
  rewrite (IH (sorted_tail _ _ _ S)). destruct (N.eqb_spec k k0) as [->|Hne].
  - rewrite (sorted_tail_none _ _ _ S). apply lookup_ins_eq.
  - destruct (lookup k r); auto. apply lookup_ins_neq. congruence.
Qed.

(* The utxo fields of an input are tied to the output the unsigned transaction references:
   a non_witness_utxo is the transaction named by the outpoint and has that output; a
   witness_utxo next to it IS that output - the WHOLE TxOut, amount and script (segwit
   signatures commit to the amount, and get_utxo / prevouts / sighash_msg prefer witness_utxo);
   a witness_utxo alone is only accepted for segwit descriptors.  [spk] is the script found. *)
Definition utxo_tied (a : pinput) (segwit : bool) (spk : N) : Prop :=
  match i_wutxo a, i_nwutxo a with
  | Some w, Some nw => nw_txid_ok nw = true /\ nw_out nw = Some w /\ to_spk w = spk
  | Some w, None => segwit = true /\ to_spk w = spk
  | None, Some nw => nw_txid_ok nw = true /\ exists o, nw_out nw = Some o /\ to_spk o = spk
  | None, None => False
  end.

Lemma txout_eqb_eq w o : txout_eqb w o = true -> w = o.
Proof.
  destruct w as [v1 s1], o as [v2 s2]. unfold txout_eqb. simpl. intros H.
  apply andb_prop in H. destruct H as [H1 H2]. apply N.eqb_eq in H1. apply N.eqb_eq in H2. now subst.
Qed.

Lemma expected_spk_tied a sg spk :
  match i_nwutxo a with Some nw => negb (nw_txid_ok nw) | None => false end = false ->
  expected_spk a sg = Some spk -> utxo_tied a sg spk.
Proof.
  unfold expected_spk, utxo_tied. intros Hc He.
  destruct (i_wutxo a) as [w|], (i_nwutxo a) as [nw|]; simpl in *.
  - apply negb_false_iff in Hc. destruct (nw_out nw) as [o|]; [|discriminate].
    destruct (txout_eqb w o) eqn:E; [|discriminate]. apply txout_eqb_eq in E. subst o.
    inversion He; subst. auto.
  - destruct sg; [|discriminate]. inversion He; auto.
  - apply negb_false_iff in Hc. destruct (nw_out nw) as [o|]; simpl in He; [|discriminate].
    inversion He; subst. split; auto. exists o; auto.
  - discriminate.
Qed.

Section Update.
  Variable desc_info : N -> dinfo.
  (* script hashing, supplied by the output-type layer (C15/C16) *)
  Variable h_p2wsh : N -> N.                       (* witness script  -> its P2WSH script_pubkey *)
  Variable h_p2sh : N -> N.                        (* redeem script   -> its P2SH script_pubkey *)
  Variable tap_output : N -> option N -> N.        (* internal key, merkle root -> P2TR script_pubkey *)
  Variable cb_commits : N -> N -> N -> Prop.       (* spk, control block, leaf: BIP341 commitment check *)

  (* what C15/C16 establish about the data derived from a descriptor *)
  Definition desc_wf (di : dinfo) : Prop :=
    sorted (d_bip32 di) /\ sorted (d_tapscripts di) /\ sorted (d_origins di) /\
    if d_tr di then
      d_spk di = tap_output (d_ik di) (d_merkle di) /\
      forall cb leaf, lookup cb (d_tapscripts di) = Some leaf -> cb_commits (d_spk di) cb leaf
    else
      match d_ws di, d_rs di with
      | Some ws, None => d_spk di = h_p2wsh ws
      | Some ws, Some rs => rs = h_p2wsh ws /\ d_spk di = h_p2sh rs
      | None, Some rs => d_spk di = h_p2sh rs
      | None, None => True
      end.

  Notation update_inputM := (update_input desc_info).

  (* a failing update leaves the PSBT untouched *)
  Theorem update_fail_untouched : forall st i d st' r,
    update_inputM st i d = (st', r) -> r <> ROk -> st' = st.
  Proof.
    intros st i d st' r H Hr. unfold update_input in H.
    destruct (nth_error (p_inputs st) i); [|inversion H; auto].
    destruct (p_ntx st <=? i); [inversion H; auto|].
    destruct (match i_nwutxo p with Some nw => negb (nw_txid_ok nw) | None => false end); [inversion H; auto|].
    destruct (expected_spk p (d_segwit (desc_info d))); [|inversion H; auto].
    destruct (negb (n =? d_spk (desc_info d))%N); inversion H; subst; auto. congruence.
  Qed.

  (* ================= update_consistent ================= *)
  Theorem update_consistent : forall st i d st' a,
    update_inputM st i d = (st', ROk) -> nth_error (p_inputs st) i = Some a ->
    let di := desc_info d in
    desc_wf di ->
    exists spk a',
      (* the descriptor's output is the spent output, checked before anything is written *)
      expected_spk a (d_segwit di) = Some spk /\ spk = d_spk di /\
      utxo_tied a (d_segwit di) spk /\
      nth_error (p_inputs st') i = Some a' /\ a' = apply_update a di /\
      (forall j, j <> i -> nth_error (p_inputs st') j = nth_error (p_inputs st) j) /\
      i_fsig a' = i_fsig a /\ i_fwit a' = i_fwit a /\
      if d_tr di then
        i_tapik a' = Some (d_ik di) /\ i_tapmerkle a' = d_merkle di /\
        tap_output (d_ik di) (d_merkle di) = spk /\
        (forall cb leaf, lookup cb (d_tapscripts di) = Some leaf ->
           lookup cb (i_tapscripts a') = Some leaf /\ cb_commits spk cb leaf) /\
        (forall cb, lookup cb (d_tapscripts di) = None -> lookup cb (i_tapscripts a') = lookup cb (i_tapscripts a)) /\
        (forall k o, lookup k (d_origins di) = Some o -> lookup k (i_taporigins a') = Some o) /\
        (forall k, lookup k (d_origins di) = None -> lookup k (i_taporigins a') = lookup k (i_taporigins a))
      else
        (forall k o, lookup k (d_bip32 di) = Some o -> lookup k (i_bip32 a') = Some o) /\
        (forall k, lookup k (d_bip32 di) = None -> lookup k (i_bip32 a') = lookup k (i_bip32 a)) /\
        match d_ws di, d_rs di with
        | Some ws, None => i_witscript a' = Some ws /\ h_p2wsh ws = spk
        | Some ws, Some rs => i_witscript a' = Some ws /\ i_redeem a' = Some rs /\
                              h_p2wsh ws = rs /\ h_p2sh rs = spk
        | None, Some rs => i_redeem a' = Some rs /\ h_p2sh rs = spk
        | None, None => i_witscript a' = i_witscript a /\ i_redeem a' = i_redeem a
        end.
  Proof.
    intros st i d st' a H Hn di (S1 & S2 & S3 & W). unfold update_input in H. rewrite Hn in H.
    destruct (p_ntx st <=? i); [inversion H|].
    destruct (match i_nwutxo a with Some nw => negb (nw_txid_ok nw) | None => false end) eqn:Hnwc; [inversion H|].
    fold di in H. destruct (expected_spk a (d_segwit di)) as [spk|] eqn:He; [|inversion H].
    destruct (N.eqb_spec spk (d_spk di)) as [E|E]; simpl in H; [|inversion H].
    inversion H; subst st'. clear H. exists spk, (apply_update a di).
    split; auto. split; auto. split. { apply expected_spk_tied; auto. } split. { simpl. eapply nth_set_nth_eq; eauto. }
    split; auto. split. { intros j Hj. simpl. apply nth_set_nth_neq. auto. }
    unfold apply_update. destruct (d_tr di) eqn:Htr; simpl.
    - destruct W as [Wk Wc]. repeat split; auto.
      + congruence.
      + rewrite (lookup_ins_all _ S2). now rewrite H.
      + rewrite E. auto.
      + intros cb Hc. rewrite (lookup_ins_all _ S2). now rewrite Hc.
      + intros k o Hk. rewrite (lookup_ins_all _ S3). now rewrite Hk.
      + intros k Hk. rewrite (lookup_ins_all _ S3). now rewrite Hk.
    - split; auto. split; auto. split.
      { intros k o Hk. rewrite (lookup_ins_all _ S1). now rewrite Hk. }
      split. { intros k Hk. rewrite (lookup_ins_all _ S1). now rewrite Hk. }
      destruct (d_ws di) as [ws|], (d_rs di) as [rs|]; simpl.
      + destruct W as [-> W2]. repeat split; auto. congruence.
      + repeat split; auto. congruence.
      + repeat split; auto. congruence.
      + split; auto.
  Qed.
End Update.
