(* Frame soundness, part 2: the leaves (every successful execution, any input stack). *)
From Verif Require Import Exec Ser Ast Types TypeCheck SatSpec ExecLemmas Spec TypesSpec ScriptNumProofs TheoremA FrameBase.
From Coq Require Import Lia.

Section Leaves.
  Variable e : env.
  Variable ke : keyenv.

  Ltac stepH H := cbn [app exec exec_instr exec_op bind stk alt] in H.
  Ltac stepG := cbn [app exec exec_instr exec_op bind stk alt].

  Lemma L_true : invB e [INum 1] IZero true.
  Proof.
    intros st al r H. stepH H. inversion H; subst; clear H. exists [], st, [1%N].
    split; [reflexivity|]. split; [reflexivity|]. split; [intros rest' al'; reflexivity|].
    split; [reflexivity|]. split; [intros _ _; reflexivity | discriminate].
  Qed.

  Lemma L_false : invB e [IPush []] IZero true.
  Proof.
    intros st al r H. stepH H. inversion H; subst; clear H. exists [], st, [].
    split; [reflexivity|]. split; [reflexivity|]. split; [intros rest' al'; reflexivity|].
    split; [reflexivity|]. split; [intros _; discriminate | discriminate].
  Qed.

  Lemma L_pk_k kbs : invK e [IPush kbs] IOneNonZero.
  Proof.
    intros st al r H. stepH H. inversion H; subst; clear H. exists [], st, kbs.
    split; [reflexivity|]. split; [reflexivity|]. split; [intros rest' al'; reflexivity|].
    split; [reflexivity|]. intros _ _ [s [r [-> [_ [Hne _]]]]]. exact Hne.
  Qed.

  Lemma L_pk_h h : invK e [IOp OP_DUP; IOp OP_HASH160; IPush h; IOp OP_EQUALVERIFY] IAnyNonZero.
  Proof.
    intros st al r H. destruct st as [|x rest]; [stepH H; discriminate|]. stepH H.
    destruct (bytes_eqb h (e_hash160 e x)) eqn:E; [|discriminate]. inversion H; subst; clear H.
    exists [x], rest, x.
    split; [reflexivity|]. split; [reflexivity|].
    split; [intros rest' al'; stepG; rewrite E; reflexivity|].
    split; [cbn; lia|]. intros [_ Hk] _ [s [r [_ [Hok _]]]]. cbn. intros ->. congruence.
  Qed.

  Lemma L_time (o : opcode) t : o = OP_CLTV \/ o = OP_CSV -> invB e [push_int t; IOp o] IZero false.
  Proof.
    intros Ho st al r H. rewrite exec_cons, exec_push_int in H. cbn [bind stk alt] in H.
    rewrite exec_single in H. cbn [exec_instr] in H.
    assert (Hall : forall st' al', exec_op e o (mkSt (num_encode t :: st') al') = Ok (mkSt (num_encode t :: st') al')).
    { destruct Ho; subst o; cbn [exec_op stk alt] in *; destruct (num_operand 5 (num_encode t)) as [n|]; try discriminate;
        [destruct (check_locktime e n) | destruct (check_sequence e n)]; try discriminate; intros; reflexivity. }
    rewrite Hall in H. inversion H; subst; clear H. exists [], st, (num_encode t).
    split; [reflexivity|]. split; [reflexivity|].
    split. { intros rest' al'. rewrite exec_cons, exec_push_int. cbn [bind stk alt app]. rewrite exec_single. cbn [exec_instr]. apply Hall. }
    split; [reflexivity|]. split; [apply uval_false | discriminate].
  Qed.

  Lemma L_hash (o : opcode) (hf : bytes -> bytes) h :
    (forall v r al, exec_op e o (mkSt (v :: r) al) = Ok (mkSt (hf v :: r) al)) ->
    invB e (hash_frag o h) IOneNonZero true.
  Proof.
    intros Hop st al r H. unfold hash_frag in H. destruct st as [|x rest]; [stepH H; discriminate|].
    rewrite exec_op_cons in H. cbn [exec_op stk alt bind] in H.
    rewrite exec_cons, exec_push_int in H. cbn [bind stk alt] in H.
    rewrite exec_op_cons in H. cbn [exec_op stk alt] in H.
    destruct (bytes_eqb (num_encode 32) (num_encode (Z.of_N (blen x)))) eqn:E; [|discriminate]. cbn [bind] in H.
    rewrite exec_op_cons, Hop in H. cbn [bind] in H. rewrite exec_push, exec_op_cons in H.
    cbn [exec_op stk alt bind exec] in H. inversion H; subst; clear H.
    exists [x], rest, (bool_bytes (bytes_eqb h (hf x))).
    split; [reflexivity|]. split; [reflexivity|].
    split.
    { intros rest' al'. unfold hash_frag. cbn [app]. rewrite exec_op_cons. cbn [exec_op stk alt bind].
      rewrite exec_cons, exec_push_int. cbn [bind stk alt]. rewrite exec_op_cons. cbn [exec_op stk alt]. rewrite E. cbn [bind].
      rewrite exec_op_cons, Hop. cbn [bind]. rewrite exec_push, exec_op_cons. cbn [exec_op stk alt bind exec]. reflexivity. }
    split; [reflexivity|]. split; [apply uval_bool|].
    intros _ _ _. cbn. intros ->. discriminate.
  Qed.

  (* ---------- multi / sortedmulti (CHECKMULTISIG) ---------- *)
  Definition cms_result (keys_rev : list bytes) (k : N) (st : stack) (al : stack) : result state :=
    match take_n (N.to_nat k) st with
    | Some (sigs, [] :: r5) =>
      if negb (forallb (e_keyok e) keys_rev) then Fail else
      if multisig_match e keys_rev sigs then Ok (mkSt ([1%N] :: r5) al)
      else if forallb (fun sg => match sg with [] => true | _ => false end) sigs then Ok (mkSt ([] :: r5) al)
      else Fail
    | _ => Fail
    end.

  Lemma cms_step (k : N) (keys : list bytes) st al :
    (1 <= k <= N.of_nat (length keys))%N -> (length keys <= 20)%nat ->
    exec_op e OP_CHECKMULTISIG (mkSt (num_encode (Z.of_nat (length keys)) :: rev keys ++ num_encode (Z.of_N k) :: st) al)
    = match e_sv e with SvTapscript => Fail | _ => cms_result (rev keys) k st al end.
  Proof.
    intros Hk Hn. assert (Hlen : length (rev keys) = length keys) by apply rev_length.
    cbn [exec_op stk alt]. destruct (e_sv e); [| |reflexivity];
    (rewrite num_roundtrip by lia;
     replace ((Z.of_nat (length keys) <? 0)%Z || (20 <? Z.of_nat (length keys))%Z) with false
       by (symmetry; apply Bool.orb_false_iff; split; apply Z.ltb_ge; lia);
     rewrite Nat2Z.id, <- Hlen, take_n_app, num_roundtrip by lia;
     replace ((Z.of_N k <? 0)%Z || (Z.of_nat (length (rev keys)) <? Z.of_N k)%Z) with false
       by (symmetry; apply Bool.orb_false_iff; split; apply Z.ltb_ge; lia);
     replace (Z.to_nat (Z.of_N k)) with (N.to_nat k) by lia; unfold cms_result;
     destruct (take_n (N.to_nat k) st) as [[sigs r4]|]; [|reflexivity];
     destruct r4 as [|dm r5]; [reflexivity|]; destruct dm; reflexivity).
  Qed.

  Lemma L_multi (k : N) (keys : list bytes) :
    (1 <= k <= N.of_nat (length keys))%N -> (length keys <= 20)%nat ->
    invB e ([push_int (Z.of_N k)] ++ map IPush keys ++ [push_int (Z.of_nat (length keys)); IOp OP_CHECKMULTISIG])
         IAnyNonZero true.
  Proof.
    intros Hk Hn.
    assert (Hrun : forall st al,
      exec e ([push_int (Z.of_N k)] ++ map IPush keys ++ [push_int (Z.of_nat (length keys)); IOp OP_CHECKMULTISIG]) (mkSt st al)
      = match e_sv e with SvTapscript => Fail | _ => cms_result (rev keys) k st al end).
    { intros st al. cbn [app]. rewrite exec_cons, exec_push_int. cbn [bind stk alt]. rewrite exec_pushes. cbn [stk alt].
      rewrite exec_cons, exec_push_int. cbn [bind stk alt]. rewrite exec_single. cbn [exec_instr].
      apply cms_step; assumption. }
    intros st al r H. rewrite Hrun in H.
    assert (Hsv : match e_sv e with SvTapscript => False | _ => True end) by (destruct (e_sv e); try exact I; discriminate).
    assert (H' : cms_result (rev keys) k st al = Ok r) by (destruct (e_sv e); try contradiction; exact H). clear H.
    unfold cms_result in H'. destruct (take_n (N.to_nat k) st) as [[sigs r4]|] eqn:Et; [|discriminate].
    destruct r4 as [|dm r5]; [discriminate|]. destruct dm; [|discriminate].
    destruct (take_n_spec _ _ _ _ Et) as [-> Hl].
    destruct (forallb (e_keyok e) (rev keys)) eqn:Ekk; cbn [negb] in H'; [|discriminate].
    assert (Hfr : forall v, (if multisig_match e (rev keys) sigs then Ok (mkSt ([1%N] :: r5) al)
                   else if forallb (fun sg => match sg with [] => true | _ => false end) sigs then Ok (mkSt ([] :: r5) al)
                   else Fail) = Ok (mkSt (v :: r5) al) ->
                 fr e ([push_int (Z.of_N k)] ++ map IPush keys ++ [push_int (Z.of_nat (length keys)); IOp OP_CHECKMULTISIG])
                    (sigs ++ [[]]) [v]).
    { intros v Hv rest' al'. rewrite Hrun. destruct (e_sv e); try contradiction;
        (unfold cms_result; rewrite <- Hl, <- app_assoc, take_n_app; cbn [app]; rewrite Ekk; cbn [negb];
         destruct (multisig_match e (rev keys) sigs);
         [inversion Hv; reflexivity
         | destruct (forallb (fun sg => match sg with [] => true | _ => false end) sigs); [inversion Hv; reflexivity | discriminate]]). }
    destruct (multisig_match e (rev keys) sigs) eqn:Emm.
    - inversion H'; subst; clear H'. exists (sigs ++ [[]]), r5, [1%N].
      split; [rewrite <- app_assoc; reflexivity|]. split; [reflexivity|].
      split; [apply Hfr; reflexivity|].
      split; [cbn; rewrite app_length; cbn; lia|]. split; [intros _ _; reflexivity|].
      intros [Hse _] _ _. destruct sigs as [|s S]; [cbn in Hl; lia|]. cbn. intros ->.
      rewrite (mm_empty_sig e Hse) in Emm. discriminate.
    - destruct (forallb (fun sg => match sg with [] => true | _ => false end) sigs) eqn:Ee; [|discriminate].
      inversion H'; subst; clear H'. exists (sigs ++ [[]]), r5, [].
      split; [rewrite <- app_assoc; reflexivity|]. split; [reflexivity|].
      split; [apply Hfr; reflexivity|].
      split; [cbn; rewrite app_length; cbn; lia|]. split; [intros _; discriminate | intros _ _; discriminate].
  Qed.

  (* ---------- multi_a / sortedmulti_a (CHECKSIG, CHECKSIGADD ..., NUMEQUAL) ---------- *)
  Lemma csa_fwd ks : forall acc st al r s,
    exec e (csa_tail ke ks ++ s) (mkSt (acc :: st) al) = Ok r ->
    exists sigs rest acc', st = sigs ++ rest /\ length sigs = length ks /\
      exec e s (mkSt (acc' :: rest) al) = Ok r /\
      forall s' rest' al', exec e (csa_tail ke ks ++ s') (mkSt (acc :: sigs ++ rest') al')
                           = exec e s' (mkSt (acc' :: rest') al').
  Proof.
    induction ks as [|key ks IH]; intros acc st al r s H.
    - exists [], st, acc. split; [reflexivity|]. split; [reflexivity|]. split; [exact H|]. intros; reflexivity.
    - cbn [csa_tail flat_map app] in H. fold (csa_tail ke ks) in H.
      rewrite exec_push, exec_op_cons in H. cbn [stk alt exec_op] in H.
      destruct (e_sv e) eqn:Esv; try discriminate.
      destruct st as [|sg st']; [discriminate|].
      destruct (e_keyok e (kb ke key)) eqn:Ek; cbn [negb] in H; [|discriminate].
      destruct (num_operand 4 acc) as [n|] eqn:En; [|discriminate].
      assert (Hstep : exists acc1, forall X al',
        exec_op e OP_CHECKSIGADD (mkSt (kb ke key :: acc :: sg :: X) al') = Ok (mkSt (acc1 :: X) al')).
      { destruct sg as [|b0 sg'].
        - exists (num_encode n). intros X al'. cbn [exec_op stk alt]. rewrite Esv, Ek, En. reflexivity.
        - destruct (e_sigok e (kb ke key) (b0 :: sg')) eqn:Eo; [|discriminate].
          exists (num_encode (n + 1)). intros X al'. cbn [exec_op stk alt]. rewrite Esv, Ek, En, Eo. reflexivity. }
      destruct Hstep as [acc1 Hstep].
      assert (H1 : exec e (csa_tail ke ks ++ s) (mkSt (acc1 :: st') al) = Ok r).
      { pose proof (Hstep st' al) as Hs. cbn [exec_op stk alt] in Hs. rewrite Esv, Ek, En in Hs. cbn [negb] in Hs.
        rewrite Hs in H. exact H. }
      destruct (IH _ _ _ _ _ H1) as [sigs [rest [acc' [-> [Hl [Hs Hf]]]]]].
      exists (sg :: sigs), rest, acc'. split; [reflexivity|]. split; [cbn; lia|]. split; [exact Hs|].
      intros s' rest' al'. cbn [csa_tail flat_map app]. fold (csa_tail ke ks).
      rewrite exec_push, exec_op_cons. cbn [stk alt]. rewrite Hstep. cbn [bind]. apply Hf.
  Qed.

  Lemma L_multi_a (k : N) (k0 : key) (ks : list key) :
    invB e (([IPush (kb ke k0); IOp OP_CHECKSIG] ++ csa_tail ke ks) ++ [push_int (Z.of_N k); IOp OP_NUMEQUAL]) IAny true.
  Proof.
    intros st al r H. rewrite <- app_assoc in H. cbn [app] in H.
    rewrite exec_push, exec_op_cons in H. cbn [stk alt exec_op] in H.
    destruct st as [|sg st']; [discriminate|].
    destruct (e_keyok e (kb ke k0)) eqn:Ek; cbn [negb] in H; [|discriminate].
    assert (Hstep : exists b, forall X al',
      exec_op e OP_CHECKSIG (mkSt (kb ke k0 :: sg :: X) al') = Ok (mkSt (bool_bytes b :: X) al')).
    { destruct sg as [|b0 sg'].
      - exists false. intros X al'. cbn [exec_op stk alt]. rewrite Ek. reflexivity.
      - destruct (e_sigok e (kb ke k0) (b0 :: sg')) eqn:Eo; [|discriminate].
        exists true. intros X al'. cbn [exec_op stk alt]. rewrite Ek, Eo. reflexivity. }
    destruct Hstep as [b Hstep].
    assert (H1 : exec e (csa_tail ke ks ++ [push_int (Z.of_N k); IOp OP_NUMEQUAL]) (mkSt (bool_bytes b :: st') al) = Ok r).
    { pose proof (Hstep st' al) as Hs. cbn [exec_op stk alt] in Hs. rewrite Ek in Hs. cbn [negb] in Hs.
      rewrite Hs in H. exact H. }
    clear H. destruct (csa_fwd _ _ _ _ _ _ H1) as [sigs [rest [acc' [-> [Hl [Hs Hf]]]]]].
    rewrite exec_cons, exec_push_int in Hs. cbn [bind stk alt] in Hs. rewrite exec_single in Hs.
    cbn [exec_instr exec_op stk alt] in Hs.
    destruct (num_operand 4 (num_encode (Z.of_N k))) as [n1|] eqn:E1; [|discriminate].
    destruct (num_operand 4 acc') as [n2|] eqn:E2; [|discriminate].
    inversion Hs; subst; clear Hs.
    exists (sg :: sigs), rest, (bool_bytes (n1 =? n2)%Z).
    split; [reflexivity|]. split; [reflexivity|].
    split.
    { intros rest' al'. rewrite <- app_assoc. cbn [app]. rewrite exec_push, exec_op_cons. cbn [stk alt]. rewrite Hstep. cbn [bind].
      rewrite Hf. rewrite exec_cons, exec_push_int. cbn [bind stk alt]. rewrite exec_single.
      cbn [exec_instr exec_op stk alt]. rewrite E1, E2. reflexivity. }
    split; [exact I|]. split; [apply uval_bool | intros _; discriminate].
  Qed.
End Leaves.
