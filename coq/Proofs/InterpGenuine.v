(* C13: every constraint the interpreter yields was really checked and holds in the environment
   (signature verified for that key, preimage of that image with 32 bytes, lock time met by the
   interpreter's own comparison) -- for accepted AND rejected runs, every miniscript, typed or not.
   This is the "genuine" half of constraints_exact (the other half -- nothing the executed path
   checked is missing, same order -- is compared per run with the instrumented execution). *)
From Verif Require Import Exec Ser Ast TheoremA InterpModel InterpRefine.
From Coq Require Import Lia.
Local Open Scope N_scope.

Definition cvalid (e : env) (c : constr) : Prop :=
  match c with
  | CsPk k s => e_sigok e k s = true
  | CsPkh h k s => e_sigok e k s = true /\ bytes_eqb (e_hash160 e k) h = true
  | CsHash kd h p => bytes_eqb (hash_of e kd p) h = true /\ blen p = 32
  | CsAfter t =>
    e_sequence e <> SEQ_FINAL /\
    Bool.eqb (t <? LOCKTIME_THRESHOLD) (e_locktime e <? LOCKTIME_THRESHOLD) = true /\ t <= e_locktime e
  | CsOlder t =>
    2 <= e_txversion e /\ N.land (e_sequence e) SEQ_DISABLE = 0 /\
    N.land t SEQ_TYPE = N.land (e_sequence e) SEQ_TYPE /\ N.land t SEQ_MASK <= N.land (e_sequence e) SEQ_MASK
  end.

Definition cs_of (r : xres) : list constr :=
  match r with XOk _ cs | XErr _ cs => cs | XPanic _ => [] end.

Section Genuine.
  Variable e : env.
  Variable ke : keyenv.
  Variable kp : bytes -> bool.
  Notation ev m st := (ieval e ke kp m st).
  Notation good r := (Forall (cvalid e) (cs_of r)).

  Lemma g_xbind r f : good r -> (forall s, good (f s)) -> good (xbind r f).
  Proof.
    intros Hr Hf. destruct r as [s1 c1|er c1|n]; cbn in *; try assumption.
    specialize (Hf s1). destruct (f s1) as [s2 c2|er c2|n]; cbn in *; try constructor;
      apply Forall_app; split; assumption.
  Qed.
  Lemma g_xpop st fs fd : (forall r, good (fs r)) -> (forall r, good (fd r)) -> good (xpop_bool st fs fd).
  Proof. intros H1 H2. destruct st as [|[| |b] r]; cbn; auto; constructor. Qed.
  Lemma g_ok st : good (XOk st []). Proof. constructor. Qed.
  Lemma g_err er : good (XErr er []). Proof. constructor. Qed.

  Lemma g_pk k st : good (x_of_ev (evaluate_pk e k st)).
  Proof.
    unfold evaluate_pk. destruct st as [|[| |s] r]; cbn; try constructor.
    destruct (e_sigok e k s) eqn:Es; cbn; repeat constructor. exact Es.
  Qed.
  Lemma g_pkh h st : good (x_of_ev (evaluate_pkh e kp h st)).
  Proof.
    unfold evaluate_pkh. destruct st as [|[| |pk] r]; cbn; try constructor.
    destruct (bytes_eqb (e_hash160 e pk) h) eqn:Eh; cbn; [|constructor].
    destruct (kp pk); cbn; [|constructor]. destruct r as [|[| |s] r']; cbn; try constructor.
    destruct (e_sigok e pk s) eqn:Es; cbn; repeat constructor; assumption.
  Qed.
  Lemma g_after t st : good (x_of_ev (evaluate_after e t st)).
  Proof.
    unfold evaluate_after. destruct (N.eqb_spec (e_sequence e) SEQ_FINAL) as [Ef|Ef]; cbn; [constructor|].
    destruct (Bool.eqb _ _) eqn:Eu; cbn; [|constructor].
    destruct (N.leb_spec t (e_locktime e)); cbn; repeat constructor; assumption.
  Qed.
  Lemma g_older t st : good (x_of_ev (evaluate_older e t st)).
  Proof.
    unfold evaluate_older. destruct (N.ltb_spec (e_txversion e) 2) as [Ev|Ev]; cbn; [constructor|].
    destruct (N.eqb_spec (N.land (e_sequence e) SEQ_DISABLE) 0) as [Ed|Ed]; cbn; [|constructor].
    destruct (N.eqb_spec (N.land t SEQ_TYPE) (N.land (e_sequence e) SEQ_TYPE)) as [Et|Et]; cbn; [|constructor].
    destruct (N.leb_spec (N.land t SEQ_MASK) (N.land (e_sequence e) SEQ_MASK)); cbn; repeat constructor; assumption.
  Qed.
  Lemma g_hash kd h st : good (x_of_ev (evaluate_hash e kd h st)).
  Proof.
    unfold evaluate_hash. destruct st as [|[| |p] r]; cbn; try constructor.
    destruct (N.eqb_spec (blen p) 32) as [El|El]; cbn; [|constructor].
    destruct (bytes_eqb (hash_of e kd p) h) eqn:Eh; cbn; repeat constructor; assumption.
  Qed.
  Lemma g_multi_ev k st : match evaluate_multi e k st with EvOk _ c => cvalid e c | _ => True end.
  Proof.
    unfold evaluate_multi. destruct st as [|[| |s] r]; cbn; auto. destruct (e_sigok e k s) eqn:Es; cbn; auto.
  Qed.
  Lemma g_pk_ev k st : match evaluate_pk e k st with EvOk _ c => cvalid e c | _ => True end.
  Proof.
    unfold evaluate_pk. destruct st as [|[| |s] r]; cbn; auto. destruct (e_sigok e k s) eqn:Es; cbn; auto.
  Qed.

  Lemma g_multi_loop k l : forall ns st, good (multi_loop e ke k l ns st).
  Proof.
    induction l as [|key l' IH]; intros ns st; cbn [multi_loop].
    - destruct (ns =? k); [destruct st as [|[| |b] r]|]; cbn; constructor.
    - destruct (ns =? k); [destruct st as [|[| |b] r]; cbn; constructor|].
      pose proof (g_multi_ev (kb ke key) st) as Hc.
      destruct (evaluate_multi e (kb ke key) st) as [s1|s1 c|er]; [apply IH | | constructor].
      apply g_xbind; [repeat constructor; exact Hc | intros s; apply IH].
  Qed.
  Lemma g_multi_eval k ks st : good (multi_eval e ke k ks st).
  Proof.
    unfold multi_eval. destruct (_ <? _); [constructor|].
    destruct st as [|a st0]; [constructor|].
    assert (Hgen : good (match rev ks with
                         | [] => XPanic 1
                         | key :: l' =>
                           match evaluate_multi e (kb ke key) (a :: st0) with
                           | EvOk st' c => xbind (XOk st' [c]) (multi_loop e ke k l' 1)
                           | EvNone st' => multi_loop e ke k l' 0 st'
                           | EvErr er => XErr er []
                           end
                         end)).
    { destruct (rev ks) as [|key l']; [constructor|].
      pose proof (g_multi_ev (kb ke key) (a :: st0)) as Hc.
      destruct (evaluate_multi e (kb ke key) (a :: st0)) as [s1|s1 c|er]; [apply g_multi_loop | | constructor].
      apply g_xbind; [repeat constructor; exact Hc | intros s; apply g_multi_loop]. }
    destruct a; try exact Hgen. destruct (forallb _ _); constructor.
  Qed.
  Lemma g_multi_a_loop k l : forall ns st, good (multi_a_loop e ke k l ns st).
  Proof.
    induction l as [|key l' IH]; intros ns st; cbn [multi_a_loop]; [constructor|].
    pose proof (g_pk_ev (kb ke key) st) as Hc.
    destruct (evaluate_pk e (kb ke key) st) as [s1|s1 c|er]; [destruct s1; [constructor | apply IH] | | constructor].
    destruct s1; [constructor|]. apply g_xbind; [repeat constructor; exact Hc | intros s; apply IH].
  Qed.

  Lemma g_tloop k l : Forall (fun x => forall st, good (ev x st)) l -> forall ns s, good (tloop e ke kp k l ns s).
  Proof.
    induction 1 as [|x l' Hx Hl IH]; intros ns s; cbn [tloop].
    - destruct s as [|[| |b] r]; cbn; try constructor. destruct (k =? 0); constructor.
    - apply g_xpop; intros r; apply g_xbind; auto.
  Qed.

  Theorem ieval_genuine : forall m st, good (ev m st).
  Proof.
    induction m using ms_ind'; intros st; cbn [ieval];
      try apply g_pk; try apply g_pkh; try apply g_after; try apply g_hash; try apply g_multi_eval;
      try apply g_multi_a_loop; try (apply IHm); try constructor.
    - destruct (negb _); [constructor | apply g_older].
    - apply g_xpop; intros r; [apply g_xbind; [apply IHm | intros s; constructor] | constructor].
    - apply g_xbind; [apply IHm|]. intros s. destruct s as [|[| |b] r]; constructor.
    - destruct st as [|[| |b] r]; try constructor; apply IHm.
    - apply g_xbind; [apply IHm|]. intros s. destruct s as [|[| |b] r]; constructor.
    - apply g_xbind; [apply IHm1 | apply IHm2].
    - apply g_xbind; [apply IHm1|]. intros s. apply g_xpop; intros r; (apply g_xbind; [apply IHm2|]);
        intros s2; destruct s2; constructor.
    - apply g_xbind; [apply IHm1|]. intros s. apply g_xpop; intros r; [apply IHm2 | apply IHm3].
    - apply g_xbind; [apply IHm1|]. intros s. apply g_xpop; intros r; (apply g_xbind; [apply IHm2|]);
        intros s2; destruct s2; constructor.
    - apply g_xbind; [apply IHm1|]. intros s. apply g_xpop; intros r; [constructor | apply IHm2].
    - apply g_xbind; [apply IHm1|]. intros s. apply g_xpop; intros r; [constructor | apply IHm2].
    - apply g_xpop; intros r; [apply IHm1 | apply IHm2].
    - destruct xs as [|x0 rest]; [constructor|]. change (good (ev (MThresh k (x0 :: rest)) st)).
      rewrite ev_thresh. inversion H as [|? ? H0 Hr]; subst.
      apply g_xbind; [apply H0 | intros s; apply g_tloop; exact Hr].
  Qed.

  (* the faithful interpreter: accepted or rejected, what it yielded is genuine *)
  Theorem interp_constraints_genuine m st :
    match interp e ke kp m st with
    | IAccept cs | IReject _ cs => Forall (cvalid e) cs
    | _ => True
    end.
  Proof.
    rewrite interp_eq_rec. unfold interp_rec. pose proof (ieval_genuine m st) as H.
    destruct (ev m st) as [st' cs|er cs|n]; cbn in *; auto.
    unfold final_rule. destruct st' as [|[| |b] [|y r]]; exact H.
  Qed.
End Genuine.

(* the lock the implementation reports (a relative::LockTime: [rel_norm t]) and the script's operand
   [t] denote the same CSV condition, and the same validity *)
Lemma rel_norm_type t : N.land (rel_norm t) SEQ_TYPE = N.land t SEQ_TYPE.
Proof. unfold rel_norm. rewrite <- N.land_assoc. reflexivity. Qed.
Lemma rel_norm_mask t : N.land (rel_norm t) SEQ_MASK = N.land t SEQ_MASK.
Proof. unfold rel_norm. rewrite <- N.land_assoc. reflexivity. Qed.
Lemma rel_norm_disable t : N.land (rel_norm t) SEQ_DISABLE = 0.
Proof. unfold rel_norm. rewrite <- N.land_assoc. change (N.land 4259839 SEQ_DISABLE) with 0. apply N.land_0_r. Qed.

Lemma rel_norm_equiv (e : env) (t : N) :
  N.land t SEQ_DISABLE = 0 ->
  check_sequence e (Z.of_N (rel_norm t)) = check_sequence e (Z.of_N t) /\
  (cvalid e (CsOlder (rel_norm t)) <-> cvalid e (CsOlder t)).
Proof.
  intros Hd. split.
  - unfold check_sequence. rewrite !N2Z.id.
    replace (0 <=? Z.of_N (rel_norm t))%Z with true by (symmetry; apply Z.leb_le; lia).
    replace (0 <=? Z.of_N t)%Z with true by (symmetry; apply Z.leb_le; lia).
    rewrite rel_norm_type, rel_norm_mask, rel_norm_disable, Hd. reflexivity.
  - cbn [cvalid]. rewrite rel_norm_type, rel_norm_mask. reflexivity.
Qed.
