(* Plans = satisfier templates: lemmas behind Properties/C17.v *)
From Verif Require Import Exec Ser Ast Types TypeCheck SatSpec Sat ExecLemmas TheoremA SatProofs.
From Coq Require Import Lia.

Definition plan_template (ke : keyenv) (se : senv) (mall rhs : bool) (m : ms) : option (list ph) :=
  match s_stack (snd (sat_dissat ke se mall rhs m)) with WStack l => Some l | _ => None end.
Definition plan_complete (f : fill) (tpl : list ph) : option (list bytes) := fill_all f tpl.

Lemma plan_is_template ke se f mall rhs m :
  satisfy ke se f mall rhs m =
  match plan_template ke se mall rhs m with Some l => plan_complete f l | None => None end.
Proof. unfold satisfy, plan_template, plan_complete. destruct (s_stack _); reflexivity. Qed.


Lemma completed_plan_spends (e : env) (ke : keyenv) (A : assets) (se : senv) (f : fill) :
  linked ke A se f -> (forall ks, length (ksort ke ks) = length ks) ->
  assets_ok e ke A -> (forall kbs, e_sigok e kbs [] = false) ->
  forall (mall rhs : bool) (m : ms) (t : ty),
    type_of m = ROk t -> c_base (t_corr t) = BB -> wf e ke m -> no_multi m ->
    forall tpl bs, plan_template ke se mall rhs m = Some tpl -> plan_complete f tpl = Some bs ->
      accepts e (enc ke m) (rev bs) = true.
Proof.
  intros HL Hk HA Hse mall rhs m t Ht Hb Hwf Hnm tpl bs Hp Hc.
  apply (model_satisfaction_spends e ke A se f HL Hk HA Hse mall rhs m t Ht Hb Hwf Hnm).
  rewrite plan_is_template, Hp. exact Hc.
Qed.

(* lock accumulation: per unit, the merged lock is one of the operands and >= both *)
Lemma abs_max_spec a b t : abs_max a b = Some t ->
  (t = a \/ t = b) /\ (a <= t)%N /\ (b <= t)%N /\ Bool.eqb (N.ltb a 500000000) (N.ltb b 500000000) = true.
Proof.
  unfold abs_max. destruct (Bool.eqb (N.ltb a 500000000) (N.ltb b 500000000)) eqn:E; [|discriminate].
  destruct (N.leb_spec b a) as [Hle|Hle]; intros Hq; inversion Hq; subst; repeat split; auto; lia.
Qed.
Lemma concat_abs_lock (a b : satn) l : s_stack (concatenate_rev a b) = WStack l ->
  match s_abs a, s_abs b with
  | Some x, Some y => exists t, s_abs (concatenate_rev a b) = Some t /\ (t = x \/ t = y) /\ (x <= t)%N /\ (y <= t)%N
  | Some x, None | None, Some x => s_abs (concatenate_rev a b) = Some x
  | None, None => s_abs (concatenate_rev a b) = None
  end.
Proof.
  unfold concatenate_rev. destruct (is_imp (s_stack a) || is_imp (s_stack b)); [discriminate|].
  destruct (merge_lock rel_max (s_rel a) (s_rel b)) as [r|]; [|discriminate].
  destruct (s_abs a) as [x|], (s_abs b) as [y|]; cbn [merge_lock].
  - destruct (abs_max x y) as [t|] eqn:E; [|discriminate]. intros _. cbn [s_abs].
    destruct (abs_max_spec x y t E) as [H1 [H2 [H3 _]]]. exists t. auto.
  - intros _. reflexivity.
  - intros _. reflexivity.
  - intros _. reflexivity.
Qed.
