(* C03, table level — the theorem.
   (U1) What the non-malleable satisfier returns is the only entry of the specification's
        satisfaction table a third party can build, for EVERY fragment (thresh with any k,
        multi, multi_a, sortedmulti(_a) included; raw_pk_h excluded: it has no table entry).
   The third party: signatures = those of the honest party that occur in the published witness,
   hash preimages = an ARBITRARY oracle [Pre] (it may open hashes the honest party cannot) that
   does not contradict the honest party's preimages, lock environment = the honest party's.
   (U2) Script level, as far as Theorem A and the signed/forced all-stacks theorems reach. *)
From Verif Require Import Exec Ser Ast Types TypeCheck SatSpec Sat ExecLemmas TheoremA SatProofs
  CompleteProofs CompleteThresh CompleteNonMall HasSigProofs SignedLemmas SignedSound
  NonMallUnique NonMallUniqueThresh NonMallUniqueMulti.
From Coq Require Import Lia Permutation.

(* constructor side conditions used here: no raw_pk_h, thresh 1 <= k <= n, multi* 1 <= k *)
Fixpoint uwf (m : ms) : Prop :=
  match m with
  | MRawPkH _ => False
  | MAlt x | MSwap x | MCheck x | MDupIf x | MVerify x | MNonZero x | MZeroNotEqual x => uwf x
  | MAndV x y | MAndB x y | MOrB x y | MOrD x y | MOrC x y | MOrI x y => uwf x /\ uwf y
  | MAndOr a b c => uwf a /\ uwf b /\ uwf c
  | MThresh k xs => (1 <= k <= N.of_nat (length xs))%N /\
      (fix go (l : list ms) : Prop := match l with [] => True | x :: r => uwf x /\ go r end) xs
  | MMulti k _ | MSortedMulti k _ | MMultiA k _ | MSortedMultiA k _ => (1 <= k)%N
  | _ => True
  end.

(* Theorem A's well-formedness and "no raw_pk_h" give uwf *)
Lemma wf_uwf e ke : forall m, wf e ke m -> no_multi m -> uwf m.
Proof.
  induction m using ms_ind'; cbn [wf no_multi uwf]; try tauto; try (intros; exact I); try (intros; lia).
  intros [Hk [_ Hw]] Hn. split; [exact Hk|]. clear Hk. induction H as [|x r Hx Hr IH]; [exact I|].
  destruct Hw as [H1 H2], Hn as [N1 N2]. split; [apply Hx; assumption | apply IH; assumption].
Qed.

Section Main.
  Variable ke : keyenv.
  Variable A : assets.
  Variable se : senv.
  Variable f : fill.
  Hypothesis L : linked ke A se f.
  Hypothesis Habs_unit : forall t1 t2, se_after se t1 = true -> se_after se t2 = true ->
    Bool.eqb (N.ltb t1 500000000) (N.ltb t2 500000000) = true.
  Hypothesis Hrel_unit : forall t1 t2, se_older se t1 = true -> se_older se t2 = true ->
    Bool.eqb (rel_is_time t1) (rel_is_time t2) = true.
  (* BIP67 ordering is a reordering of the keys *)
  Hypothesis Hksort : forall ks, Permutation (ksort ke ks) ks.
  Variable rhs : bool.

  Notation uinv := (uinv A se f).

  Lemma uinv_weaken K K' ds TD TS ml : incl K K' -> uinv K ds TD TS ml -> uinv K' ds TD TS ml.
  Proof.
    intros Hi H. constructor; try apply H.
    - intros E. exact (J_weaken A se f K K' _ _ Hi (u_jd _ _ _ _ _ _ _ _ H E)).
    - intros E. exact (J_weaken A se f K K' _ _ Hi (u_js _ _ _ _ _ _ _ _ H E)).
  Qed.

  Definition UInv (m : ms) (t : ty) : Prop :=
    uinv (ukeys m) (sat_dissat ke se false rhs m) (fun B => all_dsat ke B m) (fun B => all_sat ke B m) (t_mall t).

  Ltac bin_case IH1 IH2 Ht Hwf Hnd lem :=
    apply type2 in Ht; destruct Ht as [tx [ty [Hx [Hy Hc]]]]; apply lift2_mall in Hc; rewrite Hc; destruct Hwf as [W1 W2];
    cbn [ukeys] in Hnd |- *; destruct (nodup_app_disj _ _ Hnd) as [N1 [N2 D]];
    pose proof (IH1 W1 N1 tx Hx) as G1; pose proof (IH2 W2 N2 ty Hy) as G2; unfold UInv in G1, G2;
    destruct (sat_dissat ke se false rhs _) as [ld ls] in G1 |- *; destruct (sat_dissat ke se false rhs _) as [rd rs] in G2 |- *;
    refine (uinv_ext A se f _ _ _ _ _ _ _ _ _ (lem _ _ (ld, ls) (rd, rs) _ _ _ _ _ _ D G1 G2)).

  Theorem uniq_inv : forall m, uwf m -> NoDup (ukeys m) -> forall t, type_of m = ROk t -> UInv m t.
  Proof.
    induction m using ms_ind'; intros Hwf Hnd t0 Ht; cbn [uwf type_of] in *; unfold UInv; cbn [sat_dissat]; cbv zeta.
    - (* 1 *) inversion Ht; subst. apply ut_true.
    - (* 0 *) inversion Ht; subst. apply ut_false.
    - (* pk_k *) inversion Ht; subst. exact (ut_pk_k ke A se f L k).
    - (* pk_h *) inversion Ht; subst. exact (ut_pk_h ke A se f L k).
    - (* raw *) contradiction.
    - (* after *) inversion Ht; subst. cbn [ukeys].
      refine (uinv_ext A se f _ _ _ _ _ _ _ _ _ (ut_time A se f (se_after se t) rhs t true (fun B => all_sat ke B (MAfter t)) _ _)).
      + reflexivity. + reflexivity.
      + intros E. exact E.
      + intros B HB. unfold all_sat. cbn [sd fst]. rewrite (bl_after _ _ HB), <- (lk_after _ _ _ _ L). reflexivity.
    - (* older *) inversion Ht; subst. cbn [ukeys].
      refine (uinv_ext A se f _ _ _ _ _ _ _ _ _ (ut_time A se f (se_older se t) rhs t false (fun B => all_sat ke B (MOlder t)) _ _)).
      + reflexivity. + reflexivity.
      + intros E. exact E.
      + intros B HB. unfold all_sat. cbn [sd fst]. rewrite (bl_older _ _ HB), <- (lk_older _ _ _ _ L). reflexivity.
    - inversion Ht; subst. apply (ut_hash ke A se f L HSha256 h); reflexivity.
    - inversion Ht; subst. apply (ut_hash ke A se f L HHash256 h); reflexivity.
    - inversion Ht; subst. apply (ut_hash ke A se f L HRipemd160 h); reflexivity.
    - inversion Ht; subst. apply (ut_hash ke A se f L HHash160 h); reflexivity.
    - (* a *) apply type1 in Ht. destruct Ht as [tx [Hx Hc]]. apply lift1_mall in Hc. rewrite Hc. exact (IHm Hwf Hnd tx Hx).
    - (* s *) apply type1 in Ht. destruct Ht as [tx [Hx Hc]]. apply lift1_mall in Hc. rewrite Hc. exact (IHm Hwf Hnd tx Hx).
    - (* c *) apply type1 in Ht. destruct Ht as [tx [Hx Hc]]. apply lift1_mall in Hc. rewrite Hc. exact (IHm Hwf Hnd tx Hx).
    - (* d *) apply type1 in Ht. destruct Ht as [tx [Hx Hc]]. apply lift1_mall in Hc. rewrite Hc. pose proof (IHm Hwf Hnd tx Hx) as G.
      unfold UInv in G. cbn [ukeys]. destruct (sat_dissat ke se false rhs m) as [d0 sub].
      refine (uinv_ext A se f _ _ _ _ _ _ _ _ _ (ut_dupif A se f _ (d0, sub) _ _ _ G)); intros B; reflexivity.
    - (* v *) apply type1 in Ht. destruct Ht as [tx [Hx Hc]]. apply lift1_mall in Hc. rewrite Hc. pose proof (IHm Hwf Hnd tx Hx) as G.
      unfold UInv in G. cbn [ukeys]. destruct (sat_dissat ke se false rhs m) as [d0 sub].
      refine (uinv_ext A se f _ _ _ _ _ _ _ _ _ (ut_verify A se f _ (d0, sub) _ _ _ G)); intros B; reflexivity.
    - (* j *) apply type1 in Ht. destruct Ht as [tx [Hx Hc]]. apply lift1_mall in Hc. rewrite Hc. pose proof (IHm Hwf Hnd tx Hx) as G.
      unfold UInv in G. cbn [ukeys]. destruct (sat_dissat ke se false rhs m) as [d0 sub].
      refine (uinv_ext A se f _ _ _ _ _ _ _ _ _ (ut_nonzero A se f _ (d0, sub) _ _ _ G)); intros B; reflexivity.
    - (* n *) apply type1 in Ht. destruct Ht as [tx [Hx Hc]]. apply lift1_mall in Hc. rewrite Hc. exact (IHm Hwf Hnd tx Hx).
    - (* and_v *) bin_case IHm1 IHm2 Ht Hwf Hnd (ut_and_v A se f Habs_unit Hrel_unit); intros B; [apply dsat_and_v | apply sat_and_v].
    - (* and_b *) bin_case IHm1 IHm2 Ht Hwf Hnd (ut_and_b A se f Habs_unit Hrel_unit); intros B; unfold all_sat, all_dsat; rewrite sd_and_b; reflexivity.
    - (* andor *) apply rbind_ok in Ht. destruct Ht as [ta [Ha Ht]]. apply rbind_ok in Ht. destruct Ht as [tb [Hb Ht]]. apply rbind_ok in Ht. destruct Ht as [tc [Hc Ht]].
      apply and_or_mall in Ht. rewrite Ht. destruct Hwf as [W1 [W2 W3]]. cbn [ukeys] in Hnd |- *.
      destruct (nodup_app_disj _ _ Hnd) as [N1 [N23 D1]]. destruct (nodup_app_disj _ _ N23) as [N2 [N3 D23]].
      assert (Dab : disj (ukeys m1) (ukeys m2)) by (intros k H1 H2; apply (D1 k H1); apply in_or_app; left; exact H2).
      assert (Dac : disj (ukeys m1) (ukeys m3)) by (intros k H1 H2; apply (D1 k H1); apply in_or_app; right; exact H2).
      pose proof (IHm1 W1 N1 ta Ha) as G1. pose proof (IHm2 W2 N2 tb Hb) as G2. pose proof (IHm3 W3 N3 tc Hc) as G3. unfold UInv in G1, G2, G3.
      destruct (sat_dissat ke se false rhs m1) as [ad asat], (sat_dissat ke se false rhs m2) as [bd bs], (sat_dissat ke se false rhs m3) as [cd cs].
      refine (uinv_ext A se f _ _ _ _ _ _ _ _ _ (ut_and_or A se f Habs_unit Hrel_unit _ _ _ (ad, asat) (bd, bs) (cd, cs) _ _ _ _ _ _ _ _ _ Dab Dac D23 G1 G2 G3));
        intros B; unfold all_sat, all_dsat; rewrite sd_andor; reflexivity.
    - (* or_b *) bin_case IHm1 IHm2 Ht Hwf Hnd (ut_or_b A se f Habs_unit Hrel_unit); intros B; unfold all_sat, all_dsat; rewrite sd_or_b; reflexivity.
    - (* or_d *) bin_case IHm1 IHm2 Ht Hwf Hnd (ut_or_d A se f Habs_unit Hrel_unit); intros B; unfold all_sat, all_dsat; rewrite sd_or_d; reflexivity.
    - (* or_c *) bin_case IHm1 IHm2 Ht Hwf Hnd (ut_or_c A se f Habs_unit Hrel_unit); intros B;
        [unfold all_dsat; cbn [sd]; destruct (sd ke B m1), (sd ke B m2); reflexivity | apply sat_or_c].
    - (* or_i *) bin_case IHm1 IHm2 Ht Hwf Hnd (ut_or_i A se f); intros B; unfold all_sat, all_dsat; rewrite sd_or_i; reflexivity.
    - (* thresh *) destruct Hwf as [Hk Hwf]. apply rbind_ok in Ht. destruct Ht as [ts [Hts Ht]].
      apply (tys_of_ok xs ts) in Hts. apply threshold_mall in Ht. rewrite Ht.
      rewrite ds_thresh. cbn [ukeys] in Hnd |- *.
      destruct (Forall2_ix _ _ _ MTrue dty Hts) as [Hlen Hty].
      refine (uinv_ext A se f _ _ _ _ _ _ _ _ _ (ut_thresh ke A se f Habs_unit Hrel_unit rhs k xs ts Hk (eq_sym Hlen) Hnd _)).
      + intros B. unfold all_dsat. rewrite sd_thresh'. reflexivity.
      + intros B. unfold all_sat. rewrite sd_thresh'. reflexivity.
      + intros i Hi. assert (Hin : In (nth i xs MTrue) xs) by (apply nth_In, Hi).
        rewrite Forall_forall in H. apply (H _ Hin); [| |apply Hty, Hi].
        * revert Hin. generalize (nth i xs MTrue). clear -Hwf. intros y Hin.
          induction xs as [|x r IH]; [contradiction|]. destruct Hwf as [W1 W2]. destruct Hin as [<-|Hin]; [exact W1 | apply IH; assumption].
        * rewrite flat_map_concat_map in Hnd. apply nodup_concat_pdisj in Hnd. destruct Hnd as [_ Hn]. rewrite Forall_forall in Hn.
          apply Hn. apply in_map. exact Hin.
    - (* multi *) inversion Ht; subst. cbn [ukeys] in Hnd |- *.
      refine (uinv_ext A se f _ _ _ _ _ _ _ _ _ (ut_multi_gen ke A se f L k ks Hwf Hnd)); intros B; reflexivity.
    - (* sortedmulti *) inversion Ht; subst. cbn [ukeys] in Hnd |- *.
      apply (uinv_weaken (ksort ke ks)); [intros x Hx; exact (Permutation_in x (Hksort ks) Hx)|].
      refine (uinv_ext A se f _ _ _ _ _ _ _ _ _ (ut_multi_gen ke A se f L k (ksort ke ks) Hwf _)); try (intros B; reflexivity).
      exact (Permutation_NoDup (Permutation_sym (Hksort ks)) Hnd).
    - (* multi_a *) inversion Ht; subst. cbn [ukeys] in Hnd |- *.
      refine (uinv_ext A se f _ _ _ _ _ _ _ _ _ (ut_multi_a_gen ke A se f L k ks Hwf Hnd)); intros B; reflexivity.
    - (* sortedmulti_a *) inversion Ht; subst. cbn [ukeys] in Hnd |- *.
      apply (uinv_weaken (ksort ke ks)); [intros x Hx; exact (Permutation_in x (Hksort ks) Hx)|].
      refine (uinv_ext A se f _ _ _ _ _ _ _ _ _ (ut_multi_a_gen ke A se f L k (ksort ke ks) Hwf _)).
      + intros B. unfold all_dsat. cbn [sd snd]. rewrite (Permutation_length (Hksort ks)). reflexivity.
      + intros B. reflexivity.
      + exact (Permutation_NoDup (Permutation_sym (Hksort ks)) Hnd).
  Qed.

  (* ---------- (U1) against an abstract third party ---------- *)
  Theorem nonmall_unique_table m t : uwf m -> NoDup (ukeys m) -> type_of m = ROk t -> m_nm (t_mall t) = true ->
    forall l bs, s_stack (snd (sat_dissat ke se false rhs m)) = WStack l -> fill_all f l = Some bs ->
    forall B, below A B -> vis B (ukeys m) l ->
    forall w', In w' (all_sat ke B m) -> w' = rev bs.
  Proof.
    intros Hwf Hnd Ht Hnm l bs Hl Hf B HB Hv w' Hw.
    pose proof (u_js _ _ _ _ _ _ _ _ (uniq_inv m Hwf Hnd t Ht) Hnm) as G.
    exact (j_stk _ _ _ _ _ _ G l bs Hl Hf B HB Hv w' Hw).
  Qed.
  (* the same for the dissatisfaction the model returns *)
  Theorem nonmall_unique_dissat_table m t : uwf m -> NoDup (ukeys m) -> type_of m = ROk t -> m_nm (t_mall t) = true ->
    forall l bs, s_stack (fst (sat_dissat ke se false rhs m)) = WStack l -> fill_all f l = Some bs ->
    forall B, below A B -> vis B (ukeys m) l ->
    forall w', In w' (all_dsat ke B m) -> w' = rev bs.
  Proof.
    intros Hwf Hnd Ht Hnm l bs Hl Hf B HB Hv w' Hw.
    pose proof (u_jd _ _ _ _ _ _ _ _ (uniq_inv m Hwf Hnd t Ht) Hnm) as G.
    exact (j_stk _ _ _ _ _ _ G l bs Hl Hf B HB Hv w' Hw).
  Qed.
  (* Impossible is sound: what the model calls impossible no third party can do either *)
  Theorem nonmall_impossible_table m t : uwf m -> NoDup (ukeys m) -> type_of m = ROk t -> m_nm (t_mall t) = true ->
    s_stack (snd (sat_dissat ke se false rhs m)) = WImpossible ->
    forall B, below A B -> all_sat ke B m = [].
  Proof.
    intros Hwf Hnd Ht Hnm Hi B HB.
    pose proof (u_js _ _ _ _ _ _ _ _ (uniq_inv m Hwf Hnd t Ht) Hnm) as G.
    apply (j_imp _ _ _ _ _ _ G); [rewrite Hi; reflexivity | exact HB].
  Qed.
  (* a satisfaction marked has_sig cannot be rebuilt without one of the fragment's signatures, and a
     signature-free one contains no signature: the bookkeeping [minimum] relies on is sound w.r.t. the table *)
  Theorem nonmall_hassig_table m t : uwf m -> NoDup (ukeys m) -> type_of m = ROk t -> m_nm (t_mall t) = true ->
    s_has_sig (snd (sat_dissat ke se false rhs m)) = true ->
    forall B, below A B -> nosigs B (ukeys m) -> all_sat ke B m = [].
  Proof.
    intros Hwf Hnd Ht Hnm Hs B HB Hn.
    pose proof (u_js _ _ _ _ _ _ _ _ (uniq_inv m Hwf Hnd t Ht) Hnm) as G.
    exact (j_sig _ _ _ _ _ _ G Hs B HB Hn).
  Qed.
End Main.

(* ---------- the concrete third party of property C03 ---------- *)
(* signatures: those of the honest party that occur (as byte strings) in the published witness w;
   preimages: the oracle Pre; locks: the honest party's (the signed transaction fixes them) *)
Definition adv_assets (A : assets) (Pre : hkind -> bytes -> option bytes) (w : list bytes) : assets :=
  mkAssets (fun k => match a_sig A k with
                     | Some s => if existsb (bytes_eqb s) w then Some s else None
                     | None => None end)
           (Pre HSha256) (Pre HHash256) (Pre HRipemd160) (Pre HHash160) (a_after A) (a_older A).

(* the oracle never gives a SECOND preimage of a hash the honest party can open *)
Definition pre_consistent (A : assets) (Pre : hkind -> bytes -> option bytes) : Prop :=
  forall kd h p p', look A kd h = Some p -> Pre kd h = Some p' -> p' = p.
(* ... in particular when it extends the honest party's knowledge *)
Lemma pre_extends_consistent A Pre : (forall kd h p, look A kd h = Some p -> Pre kd h = Some p) -> pre_consistent A Pre.
Proof. intros H kd h p p' E1 E2. rewrite (H kd h p E1) in E2. inversion E2. reflexivity. Qed.

(* signatures are recognisable: two keys never share a signature, and a signature is not one of the
   other things a witness is made of (empty vector, 01, 32 zero bytes, a public key, a preimage) *)
Record sigs_distinct (ke : keyenv) (A : assets) : Prop := {
  sd_inj : forall k1 k2 s, a_sig A k1 = Some s -> a_sig A k2 = Some s -> k1 = k2;
  sd_ne : forall k s, a_sig A k = Some s -> s <> [];
  sd_one : forall k s, a_sig A k = Some s -> s <> [1%N];
  sd_zeros : forall k s, a_sig A k = Some s -> s <> zeros32;
  sd_key : forall k s k', a_sig A k = Some s -> kb ke k' <> s;
  sd_pre : forall k s kd h, a_sig A k = Some s -> look A kd h <> Some s
}.

Lemma ubytes_eqb_eq : forall a b, bytes_eqb a b = true -> a = b.
Proof.
  induction a as [|x a IH]; intros [|y b] H; cbn [bytes_eqb] in H; try discriminate; [reflexivity|].
  apply Bool.andb_true_iff in H. destruct H as [H1 H2]. apply N.eqb_eq in H1. subst. f_equal. apply IH, H2.
Qed.
Lemma fill_all_in f l : forall bs s, fill_all f l = Some bs -> In s bs -> exists p, In p l /\ fill_ph f p = Some s.
Proof.
  induction l as [|p r IH]; intros bs s Hf Hin; cbn [fill_all] in Hf.
  - inversion Hf; subst. destruct Hin.
  - destruct (fill_ph f p) as [b|] eqn:Ep; [|discriminate]. destruct (fill_all f r) as [bs'|] eqn:Er; [|discriminate].
    inversion Hf; subst. destruct Hin as [<-|Hin].
    + exists p. split; [left; reflexivity | exact Ep].
    + destruct (IH bs' s eq_refl Hin) as [q [Hq Eq]]. exists q. split; [right; exact Hq | exact Eq].
Qed.

Lemma adv_below A Pre w : pre_consistent A Pre -> below A (adv_assets A Pre w).
Proof.
  intros HP. constructor; cbn [adv_assets a_sig a_after a_older].
  - intros k s H. destruct (a_sig A k) as [s0|]; [|discriminate]. destruct (existsb _ w); [|discriminate]. exact H.
  - intros kd h p p' E1 E2. apply (HP kd h p p' E1). destruct kd; exact E2.
  - reflexivity.
  - reflexivity.
Qed.
Lemma adv_vis ke A se f Pre K l bs : linked ke A se f -> sigs_distinct ke A -> fill_all f l = Some bs ->
  vis (adv_assets A Pre (rev bs)) K l.
Proof.
  intros L HD Hf k _ Hs. cbn [adv_assets a_sig] in Hs.
  destruct (a_sig A k) as [s|] eqn:Ek; [|congruence]. destruct (existsb (bytes_eqb s) (rev bs)) eqn:Ee; [|congruence].
  apply existsb_exists in Ee. destruct Ee as [x [Hx Ex]]. apply ubytes_eqb_eq in Ex. subst x. apply in_rev in Hx.
  destruct (fill_all_in f l bs s Hf Hx) as [p [Hp Ep]]. destruct p as [k'|k'|kd h| | |]; cbn [fill_ph] in Ep.
  - exfalso. inversion Ep as [E]. rewrite (lk_kb _ _ _ _ L) in E. exact (sd_key _ _ HD k s k' Ek E).
  - rewrite (lk_sig _ _ _ _ L) in Ep. rewrite (sd_inj _ _ HD k k' s Ek Ep). exact Hp.
  - exfalso. rewrite (lk_pre _ _ _ _ L) in Ep. exact (sd_pre _ _ HD k s kd h Ek Ep).
  - exfalso. inversion Ep as [E]. apply (sd_zeros _ _ HD k s Ek). symmetry. exact E.
  - exfalso. inversion Ep as [E]. apply (sd_one _ _ HD k s Ek). symmetry. exact E.
  - exfalso. inversion Ep as [E]. apply (sd_ne _ _ HD k s Ek). symmetry. exact E.
Qed.

(* (U1): the witness of Miniscript::satisfy (non-malleable mode) is the only table satisfaction of the
   third party that saw it.  Holds for every value of root_has_sig (the library passes the `s` flag of
   the root); the `s` flag of the root is what justifies "same lock environment". *)
Theorem nonmall_unique (ke : keyenv) (A : assets) (se : senv) (f : fill) (Pre : hkind -> bytes -> option bytes) :
  linked ke A se f -> locks_compatible se -> (forall ks, Permutation (ksort ke ks) ks) ->
  sigs_distinct ke A -> pre_consistent A Pre ->
  forall (rhs : bool) (m : ms) (t : ty), uwf m -> NoDup (ukeys m) -> type_of m = ROk t -> m_nm (t_mall t) = true ->
  forall bs, satisfy ke se f false rhs m = Some bs ->
  forall w', In w' (all_sat ke (adv_assets A Pre (rev bs)) m) -> w' = rev bs.
Proof.
  intros HL [Ha Hr] Hks HD HP rhs m t Hwf Hnd Ht Hnm bs Hs w' Hw. unfold satisfy in Hs.
  destruct (s_stack (snd (sat_dissat ke se false rhs m))) as [l| |] eqn:El; try discriminate.
  apply (nonmall_unique_table ke A se f HL Ha Hr Hks rhs m t Hwf Hnd Ht Hnm l bs El Hs (adv_assets A Pre (rev bs))); [| |exact Hw].
  - apply adv_below, HP.
  - exact (adv_vis ke A se f Pre (ukeys m) l bs HL HD Hs).
Qed.

(* ---------- (U2) script level ---------- *)
(* the oracle's preimages are genuine *)
Definition pre_genuine (e : env) (Pre : hkind -> bytes -> option bytes) : Prop :=
  (forall h p, Pre HSha256 h = Some p -> e_sha256 e p = h /\ blen p = 32%N) /\
  (forall h p, Pre HHash256 h = Some p -> e_hash256 e p = h /\ blen p = 32%N) /\
  (forall h p, Pre HRipemd160 h = Some p -> e_ripemd160 e p = h /\ blen p = 32%N) /\
  (forall h p, Pre HHash160 h = Some p -> e_hash160 e p = h /\ blen p = 32%N).

Lemma adv_assets_ok e ke A Pre w : assets_ok e ke A -> pre_genuine e Pre -> assets_ok e ke (adv_assets A Pre w).
Proof.
  intros HA [P1 [P2 [P3 P4]]]. constructor; cbn [adv_assets a_sig a_sha256 a_hash256 a_ripemd160 a_hash160 a_after a_older];
    try apply HA; try assumption.
  intros k s H. destruct (a_sig A k) as [s0|] eqn:E; [|discriminate]. destruct (existsb _ w); [|discriminate]. inversion H; subst.
  exact (ok_sig _ _ _ HA k s E).
Qed.

(* The published witness is accepted; every table satisfaction of the third party is accepted too
   (Theorem A) — and there is only one, the published witness (U1). *)
Theorem nonmall_unique_script (e : env) (ke : keyenv) (A : assets) (se : senv) (f : fill) (Pre : hkind -> bytes -> option bytes) :
  linked ke A se f -> locks_compatible se -> (forall ks, Permutation (ksort ke ks) ks) ->
  sigs_distinct ke A -> pre_consistent A Pre -> pre_genuine e Pre ->
  assets_ok e ke A -> (forall kbs, e_sigok e kbs [] = false) ->
  forall (m : ms) (t : ty), type_of m = ROk t -> c_base (t_corr t) = BB -> wf e ke m -> no_multi m -> NoDup (ukeys m) ->
  m_nm (t_mall t) = true -> m_signed (t_mall t) = true ->
  forall bs, satisfy ke se f false (m_signed (t_mall t)) m = Some bs ->
  accepts e (enc ke m) (rev bs) = true /\
  forall w', In w' (all_sat ke (adv_assets A Pre (rev bs)) m) ->
    accepts e (enc ke m) w' = true /\ w' = rev bs.
Proof.
  intros HL HC Hks HD HP HG HA Hse m t Ht Hb Hwf Hnm Hnd Hm Hsg bs Hs.
  assert (Hlen : forall ks, length (ksort ke ks) = length ks) by (intros ks; apply Permutation_length, Hks).
  split.
  - exact (model_satisfaction_spends e ke A se f HL Hlen HA Hse false _ m t Ht Hb Hwf Hnm bs Hs).
  - intros w' Hw. split.
    + exact (witness_script_accepts e ke _ (adv_assets_ok e ke A Pre (rev bs) HA HG) Hse m t Ht Hb Hwf Hnm w' Hw).
    + exact (nonmall_unique ke A se f Pre HL HC Hks HD HP _ m t (wf_uwf e ke m Hwf Hnm) Hnd Ht Hm bs Hs w' Hw).
Qed.

(* Any accepted witness whatsoever (table entry or not) of a sane script contains a valid signature;
   if the only valid signatures in the third party's alphabet are those of the published witness,
   it re-uses one of them. *)
Theorem accepted_alternative_reuses_signature (e : env) (ke : keyenv) (m : ms) (t : ty) :
  type_of m = ROk t -> wf e ke m -> c_base (t_corr t) = BB -> m_signed (t_mall t) = true ->
  forall (w w' : list bytes),
    (forall x, In x w' -> validsig e x -> In x w) ->
    accepts e (enc ke m) w' = true ->
    exists x, In x w' /\ In x w /\ validsig e x.
Proof.
  intros Ht Hwf Hb Hs w w' Halpha Hacc.
  destruct (signed_accepts e ke m t Ht Hwf Hb Hs w' Hacc) as [x [Hx Hv]].
  exists x. split; [exact Hx|]. split; [exact (Halpha x Hx Hv) | exact Hv].
Qed.
