(* C13: non-vacuity of from_txdata_interp_sound -- all hypotheses hold together on a bare spend of
   and_v(v:pk(A),after(10)) (the toy environment of InterpWitness.v), and the conclusion is true. *)
From Verif Require Import InterpTxdataModel InterpTxdataProofs InterpTxdataAll.
From Verif Require Import Exec ExecTrace Ser Ast Types TypeCheck InterpModel InterpSound InterpWitness InterpMain.
From Coq Require Import Lia.
Local Open Scope N_scope.

Definition nv_env : env := toy_env 100 4294967294 2.
Definition nv_spk : bytes := serialize (enc toy_ke m_after).
Definition nv_ssig : bytes := 2 :: toy_sig.

Lemma ftx_interp_nonvacuous :
  from_txdata nv_env ftx_toy_fenv nv_spk nv_ssig [] = FOk (InScript nv_spk StBare) [EPush toy_sig] (Some nv_spk) /\
  parse_script nv_spk = Some (enc toy_ke m_after) /\
  keys_ok (with_sv nv_env (sv_of StBare)) toy_ke toy_kp /\
  (exists t, type_of m_after = ROk t /\ c_base (t_corr t) = BB) /\
  iwf (with_sv nv_env (sv_of StBare)) m_after /\ icover m_after /\
  items_small (map conc [EPush toy_sig]) /\
  interp (with_sv nv_env (sv_of StBare)) toy_ke toy_kp m_after [EPush toy_sig] = IAccept [CsPk [2; 0] toy_sig; CsAfter 10] /\
  std_bounds StBare nv_ssig nv_spk (enc toy_ke m_after) (map conc [EPush toy_sig]) = true /\
  (forall co, verify_spend nv_env co nv_spk nv_ssig [] = true).
Proof.
  split; [vm_compute; reflexivity|].
  split; [vm_compute; reflexivity|].
  split; [repeat split; intros; reflexivity|].
  split; [exact m_after_typed|]. split; [cbn; lia|]. split; [cbn; tauto|].
  split; [repeat constructor|].
  split; [vm_compute; reflexivity|].
  split; [vm_compute; reflexivity|].
  intros co. vm_compute. reflexivity.
Qed.
