(* The depth hypothesis of the text-level round trip, derived from the accepted input:
   whatever tree [from_tree] accepts, the tree [to_tree m] the printer writes for the result is
   never deeper (sugar, aliases and wrapper prefixes add no nesting level; `c:pk_k(K)` is printed
   `pk(K)` at the same depth), and the tree the expression parser returns is within
   MAX_RECURSION_DEPTH.  Hence [from_str_model s = Ok m] alone gives the round trip of the printed
   text and its fixed point. *)
From Coq Require Import List Bool Arith NArith Lia.
From Verif Require Import ChecksumModel ExprTreeModel ExprTreeTotal ExprTreePass2 ExprTreeGrammar ExprTreeRt
  MsTextModel MsTextProofs MsTextCompose.
Import ListNotations.
Local Open Scope N_scope.

Definition dmaxl (cs : list etree) : N := fold_right (fun c acc => N.max (depth c) acc) 0 cs.
Definition kd (cs : list etree) : N := match cs with [] => 0 | _ => 1 + dmaxl cs end.

Lemma depth_node : forall name p cs, depth (ENode name p cs) = kd cs.
Proof. intros. destruct cs; reflexivity. Qed.

Lemma dmaxl_cons : forall c cs, dmaxl (c :: cs) = N.max (depth c) (dmaxl cs).
Proof. reflexivity. Qed.

Lemma kd_cons : forall c cs, kd (c :: cs) = 1 + N.max (depth c) (dmaxl cs).
Proof. reflexivity. Qed.

Lemma tb_eqb_true : forall a b, tb_eqb a b = true -> a = b.
Proof.
  induction a as [|x a IH]; intros [|y b] H; try discriminate; [reflexivity|].
  cbn [tb_eqb] in H. apply andb_prop in H. destruct H as [H1 H2].
  apply N.eqb_eq in H1. subst. f_equal. apply IH. exact H2.
Qed.

Section Depth.
Variable print_key : key -> tbytes.
Variable parse_key : tbytes -> option key.
Variable print_hash : hkind -> tbytes -> tbytes.
Variable parse_hash : hkind -> tbytes -> option tbytes.
Variable chk : ms -> bool.

Notation tw := (tw print_key print_hash).
Notation to_tree := (to_tree print_key print_hash).
Notation run := (run parse_key parse_hash chk).
Notation step := (step parse_key parse_hash chk).
Notation parse_frag := (parse_frag parse_key parse_hash chk).
Notation apply_wrappers := (apply_wrappers chk).
Notation from_tree := (from_tree parse_key parse_hash chk).
Notation from_ast := (from_ast chk).

Definition dm (m : ms) : N := depth (to_tree m).
Definition kids_of (m : ms) : list etree := snd (snd (tw m)).

Lemma dm_kd : forall m, dm m = kd (kids_of m).
Proof.
  intros m. unfold dm, kids_of, MsTextModel.to_tree. destruct (tw m) as [w [name kids]].
  cbn [mk_node snd]. apply depth_node.
Qed.

Lemma kids_wrap : forall c wb, snd (snd (wrap c wb)) = snd (snd wb).
Proof. reflexivity. Qed.

(* ---- a wrapper character adds no depth *)
Lemma dm_wrap : forall c m t, wrap_term c m = Ok t -> dm t = dm m.
Proof.
  intros c m t H. rewrite !dm_kd. f_equal. unfold wrap_term in H. unfold kids_of.
  repeat match type of H with (if ?b then _ else _) = _ => destruct b end;
    try discriminate; inversion H; subst; cbn [MsTextModel.tw is_true is_false];
    try (rewrite kids_wrap; reflexivity).
  - (* c: *) destruct m; try reflexivity.
  - (* u: *) destruct m; reflexivity.
  - (* l: *) destruct (is_false m); reflexivity.
Qed.

Lemma dm_apply_wrappers : forall w m m', apply_wrappers w m = Ok m' -> dm m' = dm m.
Proof.
  induction w as [|c w IH]; intros m m' H.
  - inversion H; subst. reflexivity.
  - cbn [MsTextModel.apply_wrappers] in H. destruct (wrap_term c m) eqn:E; cbn [obind] in H; try discriminate.
    destruct (from_ast a) eqn:E2; cbn [obind] in H; try discriminate.
    apply from_ast_ok in E2. destruct E2 as [-> _]. rewrite (IH _ _ H). eapply dm_wrap; eauto.
Qed.

(* ---- depth of what the printer writes for each composite *)
Definition bound2 (mk : ms -> ms -> ms) : Prop :=
  forall x y, dm (mk x y) <= 1 + N.max (dm x) (N.max (dm y) 0).

Lemma dm_sub2 : forall name x y,
  kd (snd (snd (([] : tbytes), (name : tbytes, [mk_node (tw x); mk_node (tw y)])))) = 1 + N.max (dm x) (N.max (dm y) 0).
Proof. reflexivity. Qed.

Lemma b2_andv : bound2 MAndV.
Proof.
  intros x y. rewrite (dm_kd (MAndV x y)). unfold kids_of. cbn [MsTextModel.tw].
  destruct (is_true y).
  - rewrite kids_wrap. fold (kids_of x). rewrite <- dm_kd. lia.
  - rewrite dm_sub2. lia.
Qed.
Lemma b2_plain : forall (mk : ms -> ms -> ms) name,
  (forall x y, tw (mk x y) = ([], (name, [mk_node (tw x); mk_node (tw y)]))) -> bound2 mk.
Proof. intros mk name E x y. rewrite (dm_kd (mk x y)). unfold kids_of. rewrite E, dm_sub2. lia. Qed.
Lemma b2_andn : bound2 (fun x y => MAndOr x y MFalse).
Proof. apply (b2_plain _ n_and_n). reflexivity. Qed.
Lemma b2_ori : bound2 MOrI.
Proof.
  intros x y. rewrite (dm_kd (MOrI x y)). unfold kids_of. cbn [MsTextModel.tw].
  destruct (is_false y) eqn:Ey.
  - rewrite kids_wrap. destruct (is_false x).
    + fold (kids_of y). rewrite <- dm_kd. lia.
    + fold (kids_of x). rewrite <- dm_kd. lia.
  - destruct (is_false x).
    + rewrite kids_wrap. fold (kids_of y). rewrite <- dm_kd. lia.
    + rewrite dm_sub2. lia.
Qed.

Lemma dm_andor : forall a b c, dm (MAndOr a b c) <= 1 + N.max (dm a) (N.max (dm b) (N.max (dm c) 0)).
Proof.
  intros a b c. rewrite (dm_kd (MAndOr a b c)). unfold kids_of. cbn [MsTextModel.tw].
  destruct (is_false c).
  - rewrite dm_sub2. lia.
  - cbn [snd]. rewrite !kd_cons, dmaxl_cons, dmaxl_cons. fold (to_tree a) (to_tree b) (to_tree c). fold (dm a) (dm b) (dm c).
    change (dmaxl []) with 0. lia.
Qed.

Lemma dmaxl_leaves : forall (ks : list key), dmaxl (map (fun k => leaf (print_key k)) ks) = 0.
Proof. induction ks as [|k r IH]; [reflexivity|]. cbn [map]. rewrite dmaxl_cons, IH. reflexivity. Qed.

(* ---- which children push: the relation between the children of a node and the stack segment
   their items leave (top first = first child first) *)
Definition root_item (t : etree) (parent : option (tbytes * nat * bool)) : item :=
  match t with ENode name p kids => mkItem name p kids parent end.

Inductive krel (pn : tbytes) (n : nat) : bool -> list etree -> list ms -> Prop :=
| krel_nil : forall first, krel pn n first [] []
| krel_skip : forall first k r l, skip_item (root_item k (Some (pn, n, first))) = Ok true ->
    krel pn n false r l -> krel pn n first (k :: r) l
| krel_push : forall first k r l m, skip_item (root_item k (Some (pn, n, first))) = Ok false ->
    dm m <= depth k -> krel pn n false r l -> krel pn n first (k :: r) (m :: l).

Definition skipk (n : nat) (fname : tbytes) (first : bool) (k : etree) : bool :=
  match n_kids k with
  | O => Nat.eqb n 1 || (is_multi_name fname || (tb_eqb fname n_thresh && first))
  | _ => false
  end.

Lemma skip_item_eq : forall pname fw fname n first k,
  name_separated pname = Ok (fw, fname) ->
  skip_item (root_item k (Some (pname, n, first))) = Ok (skipk n fname first k).
Proof.
  intros pname fw fname n first [nm p ks] H. unfold skip_item, skipk, root_item. cbn [it_parent it_kids n_kids].
  destruct ks; [|reflexivity]. cbn [length].
  destruct (Nat.eqb n 1); [reflexivity|]. rewrite H. cbn [obind orb].
  destruct (is_multi_name fname); [reflexivity|]. cbn [orb].
  destruct (tb_eqb fname n_thresh && first); reflexivity.
Qed.

Lemma skip_true_leaf : forall k parent, skip_item (root_item k parent) = Ok true -> n_kids k = 0%nat.
Proof.
  intros [nm p ks] parent H. unfold skip_item, root_item in H. cbn [it_parent it_kids] in H.
  destruct parent as [[[a b] c]|]; [|discriminate]. destruct ks; [reflexivity|discriminate].
Qed.

(* no child is skipped: one AST per child, pointwise not deeper *)
Lemma krel_noskip_tail : forall pn n kids pushed,
  krel pn n false kids pushed ->
  (forall k, In k kids -> skip_item (root_item k (Some (pn, n, false))) <> Ok true) ->
  Forall2 (fun k m => dm m <= depth k) kids pushed.
Proof.
  intros pn n kids pushed H. remember false as fst eqn:Ef. induction H as [|first k r l Hs Hr IH|first k r l m Hs Hd Hr IH]; intros Hn; subst.
  - constructor.
  - exfalso. apply (Hn k (or_introl eq_refl)). exact Hs.
  - constructor; [exact Hd|]. apply IH; [reflexivity|]. intros k' Hk. apply Hn. right. exact Hk.
Qed.

Lemma krel_noskip : forall pn n first kids pushed,
  krel pn n first kids pushed ->
  (forall k fst, In k kids -> skip_item (root_item k (Some (pn, n, fst))) <> Ok true) ->
  Forall2 (fun k m => dm m <= depth k) kids pushed.
Proof.
  intros pn n first kids pushed H Hn. inversion H; subst.
  - constructor.
  - exfalso. eapply Hn; [left; reflexivity|eassumption].
  - constructor; [assumption|]. eapply krel_noskip_tail; [eassumption|].
    intros k' Hk. apply Hn. right. exact Hk.
Qed.

Lemma krel_allskip : forall pn n first kids pushed,
  krel pn n first kids pushed ->
  (forall k fst, In k kids -> skip_item (root_item k (Some (pn, n, fst))) = Ok true) ->
  pushed = [].
Proof.
  intros pn n first kids pushed H. induction H as [|first k r l Hs Hr IH|first k r l m Hs Hd Hr IH]; intros Hn.
  - reflexivity.
  - apply IH. intros k' fst Hk. apply Hn. right. exact Hk.
  - rewrite (Hn k first (or_introl eq_refl)) in Hs. discriminate.
Qed.

Lemma krel_one_leaf : forall pn first c pushed, krel pn 1 first [c] pushed -> n_kids c = 0%nat -> pushed = [].
Proof.
  intros pn first c pushed H Hc. eapply krel_allskip; [exact H|].
  intros k fst [<-|[]]. destruct c as [nm p ks]. cbn [n_kids] in Hc. destruct ks; [|discriminate]. reflexivity.
Qed.

(* ---- the shapes the fragments insist on *)
Lemma vtp_shape : forall A (parse : tbytes -> option A) kids a,
  verify_terminal_parent parse kids = Ok a -> exists c, kids = [c] /\ n_kids c = 0%nat.
Proof.
  intros A parse kids a H. unfold verify_terminal_parent in H. destruct kids as [|c [|? ?]]; try discriminate.
  exists c. split; [reflexivity|]. unfold verify_terminal in H. destruct (n_kids c); [reflexivity|discriminate].
Qed.

Lemma vlock_shape : forall bad kids n, verify_lock bad kids = Ok n -> exists c, kids = [c] /\ n_kids c = 0%nat.
Proof.
  intros bad kids n H. unfold verify_lock in H. destruct kids as [|c [|? ?]]; try discriminate.
  exists c. split; [reflexivity|]. destruct (n_kids c); [reflexivity|discriminate].
Qed.

Lemma vth_shape : forall max kids k rest, verify_threshold max kids = Ok (k, rest) ->
  exists kc, kids = kc :: rest /\ n_kids kc = 0%nat.
Proof.
  intros max kids k rest H. unfold verify_threshold in H. destruct kids as [|kc r]; [discriminate|].
  destruct (n_kids kc) eqn:E; [|discriminate]. destruct (parse_num (t_name kc)); try discriminate.
  destruct (validate_k_n max a (length r)); [|discriminate]. inversion H; subst. exists kc. auto.
Qed.

Lemma map_o_vt_leaves : forall A (parse : tbytes -> option A) rest ks,
  map_o (verify_terminal parse) rest = Ok ks -> forall k, In k rest -> n_kids k = 0%nat.
Proof.
  intros A parse. induction rest as [|c r IH]; intros ks H k Hk; [contradiction|].
  cbn [map_o] in H. destruct (verify_terminal parse c) eqn:E; cbn [obind] in H; try discriminate.
  destruct (map_o (verify_terminal parse) r) eqn:E2; cbn [obind] in H; try discriminate.
  destruct Hk as [<-|Hk]; [|eapply IH; eauto].
  unfold verify_terminal in E. destruct (n_kids c); [reflexivity|discriminate].
Qed.

Lemma one_le_kd : forall c cs, 1 <= kd (c :: cs).
Proof. intros. rewrite kd_cons. lia. Qed.

(* ---- one fragment: it pops exactly what its children pushed, and its printed form is not deeper *)
Lemma binary_depth : forall (mk : ms -> ms -> ms) name fw fname kids pushed st new st1,
  bound2 mk -> name_separated name = Ok (fw, fname) ->
  is_multi_name fname = false -> tb_eqb fname n_thresh = false ->
  krel name (length kids) true kids pushed ->
  binary_frag chk mk kids (pushed ++ st) = Ok (new, st1) -> st1 = st /\ dm new <= kd kids.
Proof.
  intros mk name fw fname kids pushed st new st1 Hb Hn Hm Ht Hk H. unfold binary_frag in H.
  destruct kids as [|a [|b [|? ?]]]; try discriminate.
  assert (F : Forall2 (fun k m => dm m <= depth k) [a; b] pushed).
  { eapply krel_noskip; [exact Hk|]. intros k fst _ E. rewrite (skip_item_eq _ _ _ _ _ _ Hn) in E.
    unfold skipk in E. rewrite Hm, Ht in E. cbn in E. destruct (n_kids k); discriminate. }
  inversion F as [|? x ? l1 Hx F1]; subst. inversion F1 as [|? y ? l2 Hy F2]; subst. inversion F2; subst.
  cbn [app pop obind] in H. destruct (from_ast (mk x y)) eqn:E; cbn [obind] in H; try discriminate.
  apply from_ast_ok in E. destruct E as [-> _]. inversion H; subst. split; [reflexivity|].
  pose proof (Hb x y). rewrite kd_cons, dmaxl_cons. change (dmaxl []) with 0. lia.
Qed.

Lemma multi_depth : forall max (mk : N -> list key -> ms) mname name fw fname kids pushed st new st1,
  (forall k ks, tw (mk k ks) = ([], (mname, leaf (dec k) :: map (fun k => leaf (print_key k)) ks))) ->
  name_separated name = Ok (fw, fname) -> is_multi_name fname = true ->
  krel name (length kids) true kids pushed ->
  multi_frag parse_key chk max mk kids (pushed ++ st) = Ok (new, st1) -> st1 = st /\ dm new <= kd kids.
Proof.
  intros max mk mname name fw fname kids pushed st new st1 Htw Hn Hm Hk H. unfold multi_frag in H.
  destruct (verify_threshold max kids) as [[k rest]| |] eqn:E; cbn [obind] in H; try discriminate.
  destruct (map_o (verify_terminal parse_key) rest) as [ks| |] eqn:E2; cbn [obind] in H; try discriminate.
  destruct (from_ast (mk k ks)) eqn:E3; cbn [obind] in H; try discriminate.
  apply from_ast_ok in E3. destruct E3 as [-> _]. inversion H; subst.
  destruct (vth_shape _ _ _ _ E) as [kc [-> Hkc]].
  assert (pushed = []) as ->.
  { eapply krel_allskip; [exact Hk|]. intros c fst Hc. rewrite (skip_item_eq _ _ _ _ _ _ Hn).
    unfold skipk. rewrite Hm.
    assert (n_kids c = 0%nat) as -> by (destruct Hc as [<-|Hc]; [exact Hkc|eapply map_o_vt_leaves; eauto]).
    rewrite orb_true_r. reflexivity. }
  split; [reflexivity|]. rewrite dm_kd. unfold kids_of. rewrite Htw. cbn [snd]. rewrite !kd_cons, dmaxl_leaves.
  change (depth (leaf (dec k))) with 0. lia.
Qed.

Lemma dmaxl_forall2 : forall rest subs, Forall2 (fun k m => dm m <= depth k) rest subs ->
  dmaxl (map (fun x => mk_node (tw x)) subs) <= dmaxl rest.
Proof.
  intros rest subs F. induction F as [|k m r l H F IH]; [cbn; lia|].
  cbn [map]. rewrite !dmaxl_cons. fold (to_tree m). fold (dm m). lia.
Qed.

Lemma Forall2_len : forall A B (R : A -> B -> Prop) l1 l2, Forall2 R l1 l2 -> length l2 = length l1.
Proof. intros A B R l1 l2 F. induction F; [reflexivity|]. cbn. f_equal. exact IHF. Qed.

Lemma app_inv_len : forall A (a b c d : list A), a ++ b = c ++ d -> length a = length c -> a = c /\ b = d.
Proof.
  intros A. induction a as [|x a IH]; intros b [|y c] d H L; try discriminate; [auto|].
  cbn in H. inversion H; subst. cbn in L. injection L as L. destruct (IH _ _ _ H2 L) as [-> ->]. auto.
Qed.

Lemma parse_frag_depth : forall f name fw fname kids pushed st new st1,
  name_separated name = Ok (fw, fname) -> frag_of_name fname = Some f ->
  krel name (length kids) true kids pushed ->
  parse_frag f kids (pushed ++ st) = Ok (new, st1) -> st1 = st /\ dm new <= kd kids.
Proof.
  intros f name fw fname kids pushed st new st1 Hn Hf Hk H.
  assert (Hname : fname = fst (nth (match f with
            | FRawPkh => 0 | FPk => 1 | FPkh => 2 | FPkK => 3 | FPkH => 4 | FAfter => 5 | FOlder => 6
            | FHash HSha256 => 7 | FHash HHash256 => 8 | FHash HRipemd160 => 9 | FHash HHash160 => 10
            | FHash HRawPkh => 26
            | FTrue => 11 | FFalse => 12 | FAndV => 13 | FAndB => 14 | FAndN => 15 | FAndOr => 16
            | FOrB => 17 | FOrD => 18 | FOrC => 19 | FOrI => 20 | FThresh => 21 | FMulti => 22
            | FSortedMulti => 23 | FMultiA => 24 | FSortedMultiA => 25 end)%nat name_table ([], FTrue))).
  { unfold frag_of_name, name_table in Hf. cbn [lookup_name] in Hf.
    repeat match type of Hf with
           | (if tb_eqb ?s ?n then _ else _) = _ =>
             let E := fresh "E" in destruct (tb_eqb s n) eqn:E;
             [apply tb_eqb_true in E; inversion Hf; subst; reflexivity|clear E]
           end. discriminate. }
  (* leaves with one terminal child *)
  assert (T1 : forall A (parse : tbytes -> option A) (mk : A -> ms) mname (pr : A -> tbytes),
             (forall a, tw (mk a) = ([], (mname, [leaf (pr a)]))) ->
             obind (verify_terminal_parent parse kids) (fun a => Ok (mk a, pushed ++ st)) = Ok (new, st1) ->
             st1 = st /\ dm new <= kd kids).
  { intros A parse mk mname pr Htw H1. destruct (verify_terminal_parent parse kids) eqn:E; cbn [obind] in H1; try discriminate.
    destruct (vtp_shape _ _ _ _ E) as [c [-> Hc]]. cbn [length] in Hk.
    rewrite (krel_one_leaf _ _ _ _ Hk Hc) in H1. inversion H1; subst. split; [reflexivity|].
    rewrite dm_kd. unfold kids_of. rewrite Htw. cbn [snd]. rewrite !kd_cons. change (depth (leaf (pr a))) with 0. lia. }
  assert (TL : forall bad (mk : N -> ms) mname,
             (forall a, tw (mk a) = ([], (mname, [leaf (dec a)]))) ->
             obind (verify_lock bad kids) (fun a => Ok (mk a, pushed ++ st)) = Ok (new, st1) ->
             st1 = st /\ dm new <= kd kids).
  { intros bad mk mname Htw H1. destruct (verify_lock bad kids) eqn:E; cbn [obind] in H1; try discriminate.
    destruct (vlock_shape _ _ _ E) as [c [-> Hc]]. cbn [length] in Hk.
    rewrite (krel_one_leaf _ _ _ _ Hk Hc) in H1. inversion H1; subst. split; [reflexivity|].
    rewrite dm_kd. unfold kids_of. rewrite Htw. cbn [snd]. rewrite !kd_cons. change (depth (leaf (dec a))) with 0. lia. }
  destruct f as [| | | | | | |h| | | | | | | | | | | | | | |]; cbn [MsTextModel.parse_frag] in H;
    try (destruct h); unfold hash_frag, key_frag in H; cbn [nth name_table fst] in Hname; subst fname.
  - eapply (T1 _ _ MRawPkH n_expr_raw_pkh (print_hash HRawPkh)); [reflexivity|exact H].
  - eapply (T1 _ _ (fun k => MCheck (MPkK k)) n_pk print_key); [reflexivity|exact H].
  - eapply (T1 _ _ (fun k => MCheck (MPkH k)) n_pkh print_key); [reflexivity|exact H].
  - eapply (T1 _ _ MPkK n_pk_k print_key); [reflexivity|exact H].
  - eapply (T1 _ _ MPkH n_pk_h print_key); [reflexivity|exact H].
  - eapply (TL _ MAfter n_after); [reflexivity|exact H].
  - eapply (TL _ MOlder n_older); [reflexivity|exact H].
  - eapply (T1 _ _ MSha256 n_sha256 (print_hash HSha256)); [reflexivity|exact H].
  - eapply (T1 _ _ MHash256 n_hash256 (print_hash HHash256)); [reflexivity|exact H].
  - eapply (T1 _ _ MRipemd160 n_ripemd160 (print_hash HRipemd160)); [reflexivity|exact H].
  - eapply (T1 _ _ MHash160 n_hash160 (print_hash HHash160)); [reflexivity|exact H].
  - discriminate.
  - destruct kids; [|discriminate]. inversion Hk; subst. inversion H; subst. split; [reflexivity|]. cbn. lia.
  - destruct kids; [|discriminate]. inversion Hk; subst. inversion H; subst. split; [reflexivity|]. cbn. lia.
  - eapply binary_depth; [apply b2_andv|exact Hn|reflexivity|reflexivity|exact Hk|exact H].
  - eapply binary_depth; [apply (b2_plain MAndB n_and_b); intros; reflexivity|exact Hn|reflexivity|reflexivity|exact Hk|exact H].
  - eapply binary_depth; [apply b2_andn|exact Hn|reflexivity|reflexivity|exact Hk|exact H].
  - (* andor *)
    destruct kids as [|ka [|kb [|kc [|? ?]]]]; try discriminate.
    assert (F : Forall2 (fun k m => dm m <= depth k) [ka; kb; kc] pushed).
    { eapply krel_noskip; [exact Hk|]. intros k fst _ E. rewrite (skip_item_eq _ _ _ _ _ _ Hn) in E.
      unfold skipk in E. cbn in E. destruct (n_kids k); discriminate. }
    inversion F as [|? a ? l1 Ha F1]; subst. inversion F1 as [|? b ? l2 Hb F2]; subst.
    inversion F2 as [|? c ? l3 Hc F3]; subst. inversion F3; subst.
    cbn [app pop obind] in H. destruct (from_ast (MAndOr a b c)) eqn:E; cbn [obind] in H; try discriminate.
    apply from_ast_ok in E. destruct E as [-> _]. inversion H; subst. split; [reflexivity|].
    pose proof (dm_andor a b c). rewrite kd_cons, !dmaxl_cons. change (dmaxl []) with 0. lia.
  - eapply binary_depth; [apply (b2_plain MOrB n_or_b); intros; reflexivity|exact Hn|reflexivity|reflexivity|exact Hk|exact H].
  - eapply binary_depth; [apply (b2_plain MOrD n_or_d); intros; reflexivity|exact Hn|reflexivity|reflexivity|exact Hk|exact H].
  - eapply binary_depth; [apply (b2_plain MOrC n_or_c); intros; reflexivity|exact Hn|reflexivity|reflexivity|exact Hk|exact H].
  - eapply binary_depth; [apply b2_ori|exact Hn|reflexivity|reflexivity|exact Hk|exact H].
  - (* thresh *)
    destruct (verify_threshold 0 kids) as [[k rest]| |] eqn:E; cbn [obind] in H; try discriminate.
    destruct (pop_n (length rest) (pushed ++ st)) as [[subs st2]| |] eqn:E2; cbn [obind] in H; try discriminate.
    destruct (from_ast (MThresh k subs)) eqn:E3; cbn [obind] in H; try discriminate.
    apply from_ast_ok in E3. destruct E3 as [-> _]. inversion H; subst.
    destruct (vth_shape _ _ _ _ E) as [kc [-> Hkc]].
    assert (F : Forall2 (fun k m => dm m <= depth k) rest pushed).
    { inversion Hk as [|first k0 r l Hs Hr|first k0 r l m Hs Hd Hr]; subst.
      - eapply krel_noskip_tail; [exact Hr|]. intros c Hc Es.
        rewrite (skip_item_eq _ _ _ _ _ _ Hn) in Es. unfold skipk in Es.
        destruct rest as [|r0 rr]; [contradiction|]. cbn in Es. destruct (n_kids c); discriminate.
      - rewrite (skip_item_eq _ _ _ _ _ _ Hn) in Hs. unfold skipk in Hs. rewrite Hkc in Hs.
        cbn in Hs. rewrite orb_true_r in Hs. discriminate. }
    apply pop_n_spec in E2. destruct E2 as [E2 L].
    destruct (app_inv_len _ _ _ _ _ E2) as [-> ->]; [rewrite L; apply (Forall2_len _ _ _ _ _ F)|].
    split; [reflexivity|]. rewrite dm_kd. unfold kids_of. cbn [MsTextModel.tw snd]. rewrite !kd_cons.
    pose proof (dmaxl_forall2 _ _ F). change (depth (leaf (dec k))) with 0. lia.
  - eapply (multi_depth _ MMulti n_multi); [reflexivity|exact Hn|reflexivity|exact Hk|exact H].
  - eapply (multi_depth _ MSortedMulti n_sortedmulti); [reflexivity|exact Hn|reflexivity|exact Hk|exact H].
  - eapply (multi_depth _ MMultiA n_multi_a); [reflexivity|exact Hn|reflexivity|exact Hk|exact H].
  - eapply (multi_depth _ MSortedMultiA n_sortedmulti_a); [reflexivity|exact Hn|reflexivity|exact Hk|exact H].
Qed.

(* ---- the loop over one subtree *)
Definition Rt (t : etree) : Prop := forall parent st st',
  run st (rpo parent t) = Ok st' ->
  exists b, skip_item (root_item t parent) = Ok b /\
            (if b then st' = st else exists m, st' = m :: st /\ dm m <= depth t).

Lemma run_kids : forall ks, Forall Rt ks -> forall pn n first st st',
  run st (rpo_list pn n ks first) = Ok st' -> exists pushed, st' = pushed ++ st /\ krel pn n first ks pushed.
Proof.
  induction ks as [|k r IH]; intros HF pn n first st st' H.
  - cbn in H. inversion H; subst. exists []. split; [reflexivity|constructor].
  - inversion HF as [|? ? Hk Hr]; subst. cbn [rpo_list] in H. rewrite run_app in H.
    destruct (run st (rpo_list pn n r false)) as [s1| |] eqn:E; cbn [obind] in H; try discriminate.
    destruct (IH Hr _ _ _ _ _ E) as [l [-> Kr]].
    destruct (Hk _ _ _ H) as [b [Hs Hb]]. destruct b.
    + subst. exists l. split; [reflexivity|]. apply krel_skip; assumption.
    + destruct Hb as [m [-> Hd]]. exists (m :: l). split; [reflexivity|]. apply krel_push; assumption.
Qed.

Theorem run_rpo_depth : forall t, Rt t.
Proof.
  intro t. induction t as [name p kids IH] using etree_ind'. intros parent st st' H.
  rewrite rpo_eq, run_app in H.
  destruct (run st (rpo_list name (length kids) kids true)) as [s1| |] eqn:E; cbn [obind] in H; try discriminate.
  destruct (run_kids _ IH _ _ _ _ _ E) as [pushed [-> Hk]].
  cbn [MsTextModel.run] in H.
  destruct (step (pushed ++ st) (mkItem name p kids parent)) as [s2| |] eqn:Es; cbn [obind] in H; try discriminate.
  inversion H; subst s2. clear H. unfold MsTextModel.step in Es. cbn [root_item].
  destruct (skip_item (mkItem name p kids parent)) as [b| |] eqn:Sk; cbn [obind] in Es; try discriminate.
  exists b. split; [reflexivity|]. destruct b.
  - inversion Es; subst. pose proof (skip_true_leaf (ENode name p kids) parent Sk) as Hl. cbn [n_kids] in Hl.
    destruct kids; [|discriminate]. inversion Hk; subst. reflexivity.
  - cbn [it_name it_kids] in Es.
    destruct (name_separated name) as [[fw fname]| |] eqn:Hn; cbn [obind] in Es; try discriminate.
    destruct (frag_of_name fname) as [f|] eqn:Hf; [|discriminate].
    destruct (parse_frag f kids (pushed ++ st)) as [[new st1]| |] eqn:Ep; cbn [obind] in Es; try discriminate.
    destruct (parse_frag_depth _ _ _ _ _ _ _ _ _ Hn Hf Hk Ep) as [-> Hd].
    rewrite depth_node.
    destruct fw as [w|]; [|inversion Es; subst; exists new; auto].
    destruct w as [|c w]; [discriminate|].
    destruct (apply_wrappers (rev (c :: w)) new) eqn:Ew; cbn [obind] in Es; try discriminate.
    inversion Es; subst. exists a. split; [reflexivity|]. rewrite (dm_apply_wrappers _ _ _ Ew). exact Hd.
Qed.

Theorem from_tree_depth : forall t m, from_tree t = Ok m -> depth (to_tree m) <= depth t.
Proof.
  intros t m H. unfold MsTextModel.from_tree in H. destruct (has_curly t); [discriminate|].
  destruct (run [] (rpo None t)) as [st| |] eqn:E; try discriminate.
  destruct st as [|m' [|? ?]]; try discriminate. inversion H; subst.
  destruct (run_rpo_depth t _ _ _ E) as [b [Hs Hb]].
  destruct t as [name p kids]. cbn in Hs. inversion Hs; subst b.
  destruct Hb as [m' [Em Hd]]. inversion Em; subst. exact Hd.
Qed.

(* ---- text level *)
Hypothesis key_rt : forall k, parse_key (print_key k) = Some k.
Hypothesis hash_rt : forall h b, parse_hash h (print_hash h b) = Some b.
Hypothesis key_chars : forall k, forallb name_char (print_key k) = true.
Hypothesis hash_chars : forall h b, forallb name_char (print_hash h b) = true.

Notation from_str_model := (from_str_model parse_key parse_hash chk).
Notation ms_to_text := (ms_to_text print_key print_hash).

Theorem accepted_depth : forall s m, from_str_model s = Ok m -> depth (to_tree m) <= MAX_RECURSION_DEPTH.
Proof.
  intros s m H. unfold MsTextModel.from_str_model in H.
  destruct (from_str_inner s) as [nodes| |] eqn:E; try discriminate.
  destruct (tree_parse_print_lemma _ _ E) as (s1 & t & _ & _ & Hd & _ & En). subst nodes.
  rewrite tree_of_nodes_flatten in H.
  destruct (from_tree t) eqn:Ef; try discriminate. inversion H; subst.
  pose proof (from_tree_depth _ _ Ef). lia.
Qed.

Theorem text_fixpoint_unconditional : forall s m, from_str_model s = Ok m ->
  from_str_model (ms_to_text m) = Ok m /\
  (forall m', from_str_model (ms_to_text m) = Ok m' -> ms_to_text m' = ms_to_text m).
Proof.
  intros s m H.
  exact (text_fixpoint print_key parse_key print_hash parse_hash chk key_rt hash_rt key_chars hash_chars
           s m H (accepted_depth s m H)).
Qed.

End Depth.
