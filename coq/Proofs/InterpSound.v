(* C13, soundness of the interpreter's evaluator with respect to the Script semantics:
   if the (recursive form of the) abstract evaluator returns normally on a stack, then the
   ENCODED fragment, executed on the concretised stack, does what the fragment's base type
   promises, for every stack below the consumed prefix and every alt stack; the abstract
   result (Satisfied / Dissatisfied) describes the concrete value left.
   No side condition on the transaction environment: since the fixes 1fe09c47 / 9d1ff3e4 the
   evaluator itself refuses `after` under a final nSequence (BIP65) and `older` under a
   transaction version below 2 (BIP112).
   Covered: every fragment except sortedmulti / sortedmulti_a, which the decoder never produces
   and which the interpreter would evaluate with the keys unsorted (see [icover]). *)
From Verif Require Import Exec Ser Ast Types TypeCheck ExecLemmas ExecTraceLemmas TheoremA InterpModel InterpRefine.
From Coq Require Import Lia.
Local Open Scope N_scope.

Section InterpSound.
  Variable e : env.
  Variable ke : keyenv.
  Variable kp : bytes -> bool.

  Hypothesis Hnum4 : forall z, (0 <= z < 2147483648)%Z -> num_operand 4 (num_encode z) = Some z.
  Hypothesis Hnum5 : forall z, (0 <= z < 2147483648)%Z -> num_operand 5 (num_encode z) = Some z.
  Hypothesis Htruthy : forall z, (0 < z < 2147483648)%Z -> truthy (num_encode z) = true.
  Hypothesis Htruthy_num : forall v z, num_operand 4 v = Some z -> truthy v = negb (z =? 0)%Z.

  (* keys: the script's keys are acceptable encodings; a pushed key the interpreter can parse is *)
  Hypothesis Hkey : forall k, e_keyok e (kb ke k) = true.
  Hypothesis Hkp : forall b, kp b = true -> e_keyok e b = true.
  (* an empty signature never verifies *)
  Hypothesis Hsig_empty : forall k, e_sigok e k [] = false.

  (* stack elements as the interpreter builds them from bytes, of a size a script number can hold *)
  Definition okelem (x : elem) : Prop :=
    match x with EPush b => b <> [] /\ blen b < 2147483648 | _ => True end.
  Definition C (st : astack) : stack := map conc st.

  Lemma C_app a b : C (a ++ b) = C a ++ C b. Proof. apply map_app. Qed.

  (* interpreter-side well-formedness (what the constructors AbsLockTime / RelLockTime guarantee) *)
  Fixpoint iwf (m : ms) : Prop :=
    match m with
    | MAfter t | MOlder t => 0 < t < 2147483648
    | MAlt x | MSwap x | MCheck x | MDupIf x | MVerify x | MNonZero x | MZeroNotEqual x => iwf x
    | MAndV x y | MAndB x y | MOrB x y | MOrD x y | MOrC x y | MOrI x y => iwf x /\ iwf y
    | MAndOr a b c => iwf a /\ iwf b /\ iwf c
    | MThresh k xs =>
      1 <= k <= N.of_nat (length xs) /\ (length xs < 1000)%nat /\
      (fix go (l : list ms) : Prop := match l with [] => True | x :: r => iwf x /\ go r end) xs
    | MMultiA k ks => e_sv e = SvTapscript /\ 1 <= k <= N.of_nat (length ks) /\ (length ks < 1000)%nat
    | MMulti k ks => e_sv e <> SvTapscript /\ 1 <= k <= N.of_nat (length ks) /\ (length ks <= 20)%nat
    | _ => True
    end.

  (* fragments covered by this file *)
  Fixpoint icover (m : ms) : Prop :=
    match m with
    | MSortedMulti _ _ | MSortedMultiA _ _ => False
    | MThresh _ xs => (fix go (l : list ms) : Prop := match l with [] => True | x :: r => icover x /\ go r end) xs
    | MAlt x | MSwap x | MCheck x | MDupIf x | MVerify x | MNonZero x | MZeroNotEqual x => icover x
    | MAndV x y | MAndB x y | MOrB x y | MOrD x y | MOrC x y | MOrI x y => icover x /\ icover y
    | MAndOr a b c => icover a /\ icover b /\ icover c
    | _ => True
    end.

  Notation run m st := (exec e (enc ke m) st).
  Notation ev m st := (ieval e ke kp m st).

  (* abstract result vs concrete value *)
  Definition outrel (u : bool) (x : elem) (v : bytes) : Prop :=
    (x = ESat /\ goodval u v) \/ (x = EDis /\ v = []).

  Definition check_of (c : constr) : check :=
    match c with
    | CsPk k s => KSig k s
    | CsPkh _ k s => KSig k s
    | CsHash kd h p => KPre kd h p
    | CsOlder n => KRel n
    | CsAfter n => KAbs n
    end.

  (* what the input class promises about the consumed prefix *)
  Definition shapeI (i : input) (w : astack) : Prop :=
    match i with
    | IZero => w = []
    | IOne | IOneNonZero => length w = 1%nat
    | IAnyNonZero => w <> []
    | IAny => True
    end.

  Definition postB (m : ms) (u : bool) (w r st' : astack) : Prop :=
    exists x, st' = x :: r /\
      forall rest al, exists v, run m (mkSt (C w ++ rest) al) = Ok (mkSt (v :: rest) al) /\ outrel u x v.
  Definition postV (m : ms) (w r st' : astack) : Prop :=
    st' = r /\ forall rest al, run m (mkSt (C w ++ rest) al) = Ok (mkSt rest al).
  Definition postK (m : ms) (w r st' : astack) : Prop :=
    exists x, st' = x :: r /\
      forall rest al, exists kbs s, run m (mkSt (C w ++ rest) al) = Ok (mkSt (kbs :: s :: rest) al)
        /\ e_keyok e kbs = true
        /\ ((x = ESat /\ e_sigok e kbs s = true /\ s <> []) \/ (x = EDis /\ s = [])).
  Definition postW (m : ms) (u : bool) (w r st' : astack) : Prop :=
    exists x, st' = x :: r /\
      forall c rest al, exists v, wres v c rest al (run m (mkSt (c :: C w ++ rest) al)) /\ outrel u x v.

  Definition post (b : base) (m : ms) (u : bool) (w r st' : astack) : Prop :=
    match b with
    | BB => postB m u w r st'
    | BV => postV m w r st'
    | BK => postK m w r st'
    | BW => postW m u w r st'
    end.

  Definition sound (m : ms) (b : base) (u : bool) (i : input) : Prop :=
    forall st st' cs, Forall okelem st -> ev m st = XOk st' cs ->
      exists w r, st = w ++ r /\ shapeI i w /\ post b m u w r st'.

  Lemma Forall_app_r {A} (P : A -> Prop) a b : Forall P (a ++ b) -> Forall P b.
  Proof. intros H. apply Forall_app in H. tauto. Qed.

  Lemma goodval_one' u : goodval u [1]. Proof. repeat split. exists 1%Z. reflexivity. Qed.
  Lemma outrel_sat1 u : outrel u ESat [1]. Proof. left. split; [reflexivity | apply goodval_one']. Qed.
  Lemma outrel_dis u : outrel u EDis []. Proof. right. split; reflexivity. Qed.
  Lemma outrel_weaken u u' x v : (u' = true -> u = true) -> outrel u x v -> outrel u' x v.
  Proof.
    intros Hi [[-> [H1 [H2 H3]]]|[-> ->]]; [left | right]; repeat split; auto.
  Qed.

  Lemma bytes_eqb_sym a b : bytes_eqb a b = bytes_eqb b a.
  Proof.
    revert b. induction a as [|x r IH]; intros [|y s]; cbn; try reflexivity.
    rewrite N.eqb_sym, IH. reflexivity.
  Qed.

  (* ---------------------------------------------------------------- leaves *)
  Lemma s_true : sound MTrue BB true IZero.
  Proof.
    intros st st' cs _ H. cbn in H. inversion H; subst. exists [], st. repeat split.
    exists ESat. split; [reflexivity|]. intros rest al. exists [1]. split; [reflexivity | apply outrel_sat1].
  Qed.
  Lemma s_false : sound MFalse BB true IZero.
  Proof.
    intros st st' cs _ H. cbn in H. inversion H; subst. exists [], st. repeat split.
    exists EDis. split; [reflexivity|]. intros rest al. exists []. split; [reflexivity | apply outrel_dis].
  Qed.

  Lemma s_pk_k k : sound (MPkK k) BK true IOneNonZero.
  Proof.
    intros st st' cs Hok H. cbn [ieval] in H. unfold evaluate_pk in H.
    destruct st as [|[| |s] r]; cbn in H; try discriminate.
    - inversion H; subst. exists [EDis], r. repeat split. exists EDis. split; [reflexivity|].
      intros rest al. exists (kb ke k), []. repeat split; [apply Hkey | right; split; reflexivity].
    - destruct (e_sigok e (kb ke k) s) eqn:Es; cbn in H; [|discriminate]. inversion H; subst.
      inversion Hok as [|? ? Hx _]; subst. cbn in Hx. destruct Hx as [Hne _].
      exists [EPush s], r. repeat split. exists ESat. split; [reflexivity|].
      intros rest al. exists (kb ke k), s. repeat split; [apply Hkey | left; repeat split; assumption].
  Qed.

  Lemma s_pkh_gen (m : ms) (h : bytes) :
    enc ke m = [IOp OP_DUP; IOp OP_HASH160; IPush h; IOp OP_EQUALVERIFY] ->
    (forall st, ev m st = x_of_ev (evaluate_pkh e kp h st)) ->
    sound m BK true IAnyNonZero.
  Proof.
    intros Henc Hev st st' cs Hok H. rewrite Hev in H. unfold evaluate_pkh in H.
    destruct st as [|[| |pk] r]; cbn in H; try discriminate.
    destruct (bytes_eqb (e_hash160 e pk) h) eqn:Eh; cbn in H; [|discriminate].
    destruct (kp pk) eqn:Ekp; cbn in H; [|discriminate].
    assert (Hrun : forall sg rest al,
              exec e (enc ke m) (mkSt (pk :: sg :: rest) al) = Ok (mkSt (pk :: sg :: rest) al)).
    { intros sg rest al. rewrite Henc. cbn. rewrite bytes_eqb_sym, Eh. reflexivity. }
    destruct r as [|[| |s] r']; cbn in H; try discriminate.
    - inversion H; subst. exists [EPush pk; EDis], r'. repeat split; [discriminate|].
      exists EDis. split; [reflexivity|]. intros rest al. exists pk, []. cbn [C map conc app].
      rewrite Hrun. repeat split; [apply Hkp, Ekp | right; split; reflexivity].
    - destruct (e_sigok e pk s) eqn:Es; cbn in H; [|discriminate]. inversion H; subst.
      inversion Hok as [|? ? _ Hok']; subst. inversion Hok' as [|? ? Hx _]; subst. cbn in Hx. destruct Hx as [Hne _].
      exists [EPush pk; EPush s], r'. repeat split; [discriminate|].
      exists ESat. split; [reflexivity|]. intros rest al. exists pk, s. cbn [C map conc app].
      rewrite Hrun. repeat split; [apply Hkp, Ekp | left; repeat split; assumption].
  Qed.
  Lemma s_pk_h k : sound (MPkH k) BK true IAnyNonZero.
  Proof. apply (s_pkh_gen (MPkH k) (kh ke k)); reflexivity. Qed.
  Lemma s_raw_pk_h h : sound (MRawPkH h) BK true IAnyNonZero.
  Proof. apply (s_pkh_gen (MRawPkH h) h); reflexivity. Qed.

  Lemma exec_push_int' z st :
    exec_instr e (push_int z) st = Ok (mkSt (num_encode z :: stk st) (alt st)).
  Proof.
    unfold push_int. destruct (z =? 0)%Z eqn:E0.
    - apply Z.eqb_eq in E0. subst. reflexivity.
    - destruct ((z =? -1)%Z || ((1 <=? z)%Z && (z <=? 16)%Z)); reflexivity.
  Qed.

  Lemma goodval_num_enc t : 0 < t < 2147483648 -> goodval false (num_encode (Z.of_N t)).
  Proof.
    intros Ht. split; [apply Htruthy; lia|]. split; [exists (Z.of_N t); apply Hnum4; lia | discriminate].
  Qed.

  Lemma s_after t : iwf (MAfter t) -> sound (MAfter t) BB false IZero.
  Proof.
    intros Hwf st st' cs _ H. cbn in Hwf. cbn [ieval] in H. unfold evaluate_after in H.
    destruct (N.eqb_spec (e_sequence e) SEQ_FINAL) as [Hfin|Hseq]; cbn in H; [discriminate|].
    destruct (Bool.eqb (t <? LOCKTIME_THRESHOLD) (e_locktime e <? LOCKTIME_THRESHOLD)) eqn:Eu; cbn in H; [|discriminate].
    destruct (t <=? e_locktime e) eqn:El; cbn in H; [|discriminate]. inversion H; subst.
    exists [], st. repeat split. exists ESat. split; [reflexivity|]. intros rest al.
    exists (num_encode (Z.of_N t)). split; [| left; split; [reflexivity | apply goodval_num_enc, Hwf]].
    cbn [enc C map app]. rewrite exec_cons, exec_push_int'. cbn [bind stk alt exec exec_instr exec_op].
    rewrite Hnum5 by lia.
    assert (Hc : check_locktime e (Z.of_N t) = true).
    { unfold check_locktime. rewrite N2Z.id, Eu, El.
      destruct (N.eqb_spec (e_sequence e) SEQ_FINAL) as [E|E]; [contradiction|].
      destruct (Z.leb_spec 0 (Z.of_N t)); [reflexivity | lia]. }
    rewrite Hc. reflexivity.
  Qed.

  Lemma s_older t : iwf (MOlder t) -> sound (MOlder t) BB false IZero.
  Proof.
    intros Hwf st st' cs _ H. cbn in Hwf. cbn [ieval] in H.
    destruct (negb (N.land t SEQ_DISABLE =? 0)) eqn:Ed; [discriminate|].
    unfold evaluate_older in H.
    destruct (N.ltb_spec (e_txversion e) 2) as [Hlt|Hver]; cbn in H; [discriminate|].
    destruct (negb (N.land (e_sequence e) SEQ_DISABLE =? 0)) eqn:Es; cbn in H; [discriminate|].
    destruct ((N.land t SEQ_TYPE =? N.land (e_sequence e) SEQ_TYPE) &&
              (N.land t SEQ_MASK <=? N.land (e_sequence e) SEQ_MASK)) eqn:Ec; cbn in H; [|discriminate].
    inversion H; subst.
    exists [], st. repeat split. exists ESat. split; [reflexivity|]. intros rest al.
    exists (num_encode (Z.of_N t)). split; [| left; split; [reflexivity | apply goodval_num_enc, Hwf]].
    cbn [enc C map app]. rewrite exec_cons, exec_push_int'. cbn [bind stk alt exec exec_instr exec_op].
    rewrite Hnum5 by lia.
    assert (Hc : check_sequence e (Z.of_N t) = true).
    { unfold check_sequence. rewrite N2Z.id. apply negb_false_iff in Ed. apply negb_false_iff in Es.
      rewrite Ed. cbn [negb]. apply andb_prop in Ec. destruct Ec as [E1 E2].
      rewrite Es, E1, E2. destruct (N.leb_spec 2 (e_txversion e)); [|lia].
      destruct (Z.leb_spec 0 (Z.of_N t)); [reflexivity | lia]. }
    rewrite Hc. reflexivity.
  Qed.

  Lemma s_hash_gen (m : ms) (kd : ihk) (o : opcode) (h : bytes) :
    enc ke m = hash_frag o h ->
    (forall v r al, exec_op e o (mkSt (v :: r) al) = Ok (mkSt (hash_of e kd v :: r) al)) ->
    (forall st, ev m st = x_of_ev (evaluate_hash e kd h st)) ->
    sound m BB true IOneNonZero.
  Proof.
    intros Henc Hop Hev st st' cs Hok H. rewrite Hev in H. unfold evaluate_hash in H.
    destruct st as [|[| |p] r]; cbn in H; try discriminate.
    destruct (blen p =? 32) eqn:El; cbn in H; [|discriminate]. apply N.eqb_eq in El.
    assert (Hrun : forall rest al, exec e (enc ke m) (mkSt (p :: rest) al)
                   = Ok (mkSt (bool_bytes (bytes_eqb (hash_of e kd p) h) :: rest) al)).
    { intros rest al. rewrite Henc. unfold hash_frag.
      rewrite exec_op_cons. cbn [exec_op stk alt bind]. rewrite El.
      rewrite exec_cons, exec_push_int'. cbn [bind stk alt].
      rewrite exec_op_cons. cbn [exec_op stk alt]. rewrite bytes_eqb_refl. cbn [bind].
      rewrite exec_op_cons, Hop. cbn [bind]. rewrite exec_push, exec_op_cons. cbn [exec_op stk alt bind exec].
      rewrite bytes_eqb_sym. reflexivity. }
    destruct (bytes_eqb (hash_of e kd p) h) eqn:Eh; cbn in H; inversion H; subst.
    - exists [EPush p], r. repeat split. exists ESat. split; [reflexivity|]. intros rest al.
      exists [1]. cbn [C map conc app]. rewrite Hrun. split; [reflexivity | apply outrel_sat1].
    - exists [EPush p], r. repeat split. exists EDis. split; [reflexivity|]. intros rest al.
      exists []. cbn [C map conc app]. rewrite Hrun. split; [reflexivity | apply outrel_dis].
  Qed.
  Lemma s_sha256 h : sound (MSha256 h) BB true IOneNonZero.
  Proof. apply (s_hash_gen _ KSha256 OP_SHA256 h); reflexivity. Qed.
  Lemma s_hash256 h : sound (MHash256 h) BB true IOneNonZero.
  Proof. apply (s_hash_gen _ KHash256 OP_HASH256 h); reflexivity. Qed.
  Lemma s_ripemd160 h : sound (MRipemd160 h) BB true IOneNonZero.
  Proof. apply (s_hash_gen _ KRipemd160 OP_RIPEMD160 h); reflexivity. Qed.
  Lemma s_hash160 h : sound (MHash160 h) BB true IOneNonZero.
  Proof. apply (s_hash_gen _ KHash160 OP_HASH160 h); reflexivity. Qed.


  (* ---------------------------------------------------------------- plumbing *)
  Lemma xbind_ok r f st' cs : xbind r f = XOk st' cs ->
    exists s1 c1 c2, r = XOk s1 c1 /\ f s1 = XOk st' c2 /\ cs = c1 ++ c2.
  Proof.
    destruct r as [s1 c1|er c1|n]; cbn; try discriminate.
    destruct (f s1) as [s2 c2|er c2|n] eqn:Ef; try discriminate.
    intros H. inversion H; subst. exists s1, c1, c2. auto.
  Qed.

  Lemma xpop_ok st fs fd st' cs : xpop_bool st fs fd = XOk st' cs ->
    (exists r, st = ESat :: r /\ fs r = XOk st' cs) \/ (exists r, st = EDis :: r /\ fd r = XOk st' cs).
  Proof.
    destruct st as [|[| |b] r]; cbn; try discriminate; intros H; [left | right]; exists r; auto.
  Qed.

  Lemma if_cond_one' : if_cond e [1] = Some true.
  Proof. unfold if_cond. destruct (minimalif (e_sv e)); reflexivity. Qed.
  Lemma if_cond_empty' : if_cond e [] = Some false.
  Proof. unfold if_cond. destruct (minimalif (e_sv e)); reflexivity. Qed.

  (* the abstract result of a B / K fragment is a boolean *)
  Lemma outrel_cases u x v : outrel u x v -> x = ESat \/ x = EDis.
  Proof. intros [[-> _]|[-> _]]; auto. Qed.

  Lemma goodval_num' u v : goodval u v -> exists z, num_operand 4 v = Some z /\ (z =? 0)%Z = false.
  Proof.
    intros [Ht [[z Hz] _]]. exists z. split; [exact Hz|]. rewrite (Htruthy_num v z Hz) in Ht.
    destruct (z =? 0)%Z; [discriminate | reflexivity].
  Qed.

  (* same run, weaker unit claim: B / K / V posts move along *)
  Lemma post_transport b m m' u u' w w' r st' : b <> BW ->
    (forall rest al, run m' (mkSt (C w' ++ rest) al) = run m (mkSt (C w ++ rest) al)) ->
    (u' = true -> u = true) ->
    post b m u w r st' -> post b m' u' w' r st'.
  Proof.
    intros Hb Hrun Hu. destruct b; cbn [post]; [| | |contradiction].
    - intros [x [-> H]]. exists x. split; [reflexivity|]. intros rest al.
      destruct (H rest al) as [v [Hr Ho]]. exists v. rewrite Hrun. split; [exact Hr | exact (outrel_weaken u u' x v Hu Ho)].
    - intros [x [-> H]]. exists x. split; [reflexivity|]. intros rest al.
      destruct (H rest al) as [kbs [s Hr]]. exists kbs, s. rewrite Hrun. exact Hr.
    - intros [-> H]. split; [reflexivity|]. intros rest al. rewrite Hrun. apply H.
  Qed.

  (* ---------------------------------------------------------------- wrappers *)
  Lemma s_alt x u i : sound x BB u i -> sound (MAlt x) BW u IAny.
  Proof.
    intros IH st st' cs Hok H. cbn [ieval] in H. destruct (IH st st' cs Hok H) as [w [r [-> [_ [x0 [-> Hp]]]]]].
    exists w, r. repeat split. exists x0. split; [reflexivity|]. intros c rest al.
    destruct (Hp rest (c :: al)) as [v [Hr Ho]]. exists v. split; [|exact Ho]. right.
    cbn [enc]. rewrite exec_app. cbn [exec exec_instr exec_op stk alt bind]. rewrite exec_app, Hr. reflexivity.
  Qed.

  Lemma s_swap x u i : (i = IOne \/ i = IOneNonZero) -> sound x BB u i -> sound (MSwap x) BW u IAny.
  Proof.
    intros Hi IH st st' cs Hok H. cbn [ieval] in H. destruct (IH st st' cs Hok H) as [w [r [-> [Hs [x0 [-> Hp]]]]]].
    assert (Hl : length w = 1%nat) by (destruct Hi as [-> | ->]; exact Hs).
    destruct w as [|a [|b w']]; try discriminate.
    exists [a], r. repeat split. exists x0. split; [reflexivity|]. intros c rest al.
    destruct (Hp (c :: rest) al) as [v [Hr Ho]]. exists v. split; [|exact Ho]. left.
    cbn [enc app C map] in *. rewrite exec_op_cons. cbn [exec_op stk alt bind]. exact Hr.
  Qed.

  Lemma s_check x u i : sound x BK u i -> sound (MCheck x) BB true i.
  Proof.
    intros IH st st' cs Hok H. cbn [ieval] in H. destruct (IH st st' cs Hok H) as [w [r [-> [Hs [x0 [-> Hp]]]]]].
    exists w, r. repeat split; [exact Hs|]. exists x0. split; [reflexivity|]. intros rest al.
    destruct (Hp rest al) as [kbs [s [Hr [Hk Hc]]]].
    cbn [enc]. rewrite exec_app, Hr. cbn [bind exec exec_instr exec_op stk alt]. rewrite Hk. cbn [negb].
    destruct Hc as [[-> [Hsig Hne]]|[-> ->]].
    - exists [1]. destruct s as [|b0 s']; [congruence|]. rewrite Hsig. split; [reflexivity | apply outrel_sat1].
    - exists []. split; [reflexivity | apply outrel_dis].
  Qed.

  Lemma s_dupif x u : sound x BV u IZero -> sound (MDupIf x) BB false IOneNonZero.
  Proof.
    intros IH st st' cs Hok H. cbn [ieval] in H. apply xpop_ok in H. destruct H as [[r0 [-> H]]|[r0 [-> H]]].
    - apply xbind_ok in H. destruct H as [s1 [c1 [c2 [Hx [Hf _]]]]]. inversion Hf; subst.
      inversion Hok as [|? ? _ Hok0]; subst.
      destruct (IH r0 s1 c1 Hok0 Hx) as [w [r [-> [Hs [-> Hp]]]]]. cbn in Hs. subst w. cbn [app] in *.
      exists [ESat], r. repeat split. exists ESat. split; [reflexivity|]. intros rest al.
      exists [1]. split; [|apply outrel_sat1].
      cbn [enc app C map conc]. rewrite exec_op_cons. cbn [exec_op stk alt bind].
      rewrite exec_cons, exec_if. cbn [stk alt]. rewrite if_cond_one'. cbn [xorb].
      pose proof (Hp ([1] :: rest) al) as Hr. cbn [C map app] in Hr. erewrite bind_ok by exact Hr. reflexivity.
    - inversion H; subst. exists [EDis], r0. repeat split. exists EDis. split; [reflexivity|]. intros rest al.
      exists []. split; [|apply outrel_dis].
      cbn [enc app C map conc]. rewrite exec_op_cons. cbn [exec_op stk alt bind].
      rewrite exec_cons, exec_if. cbn [stk alt]. rewrite if_cond_empty'. reflexivity.
  Qed.

  Lemma s_verify x u i : sound x BB u i -> sound (MVerify x) BV false i.
  Proof.
    intros IH st st' cs Hok H. cbn [ieval] in H. apply xbind_ok in H. destruct H as [s1 [c1 [c2 [Hx [Hf _]]]]].
    destruct (IH st s1 c1 Hok Hx) as [w [r [-> [Hs [x0 [-> Hp]]]]]].
    destruct x0; try discriminate. inversion Hf; subst.
    exists w, st'. repeat split; [exact Hs|]. intros rest al.
    destruct (Hp rest al) as [v [Hr Ho]]. destruct Ho as [[_ [Ht _]]|[Hd _]]; [|discriminate].
    cbn [enc]. rewrite push_verify_exec, Hr. cbn [bind exec_op stk alt]. rewrite Ht. reflexivity.
  Qed.

  Lemma s_zne x u i : sound x BB u i -> sound (MZeroNotEqual x) BB true i.
  Proof.
    intros IH st st' cs Hok H. cbn [ieval] in H. apply xbind_ok in H. destruct H as [s1 [c1 [c2 [Hx [Hf _]]]]].
    destruct (IH st s1 c1 Hok Hx) as [w [r [-> [Hs [x0 [-> Hp]]]]]].
    destruct (Hp [] []) as [v0 [_ Ho0]]. apply outrel_cases in Ho0.
    destruct Ho0 as [-> | ->]; inversion Hf; subst; exists w, r; (repeat split; [exact Hs|]).
    - exists ESat. split; [reflexivity|]. intros rest al. destruct (Hp rest al) as [v [Hr Ho]].
      destruct Ho as [[_ Hg]|[Hd _]]; [|discriminate]. destruct (goodval_num' _ _ Hg) as [z [Hz Hnz]].
      exists [1]. split; [|apply outrel_sat1].
      cbn [enc]. rewrite exec_app, Hr. cbn [bind exec exec_instr exec_op stk alt]. rewrite Hz, Hnz. reflexivity.
    - exists EDis. split; [reflexivity|]. intros rest al. destruct (Hp rest al) as [v [Hr Ho]].
      destruct Ho as [[Hd _]|[_ ->]]; [discriminate|].
      exists []. split; [|apply outrel_dis]. cbn [enc]. rewrite exec_app, Hr. reflexivity.
  Qed.

  Lemma okelem_top_nz a : okelem a -> a <> EDis ->
    (0 < Z.of_N (blen (conc a)) < 2147483648)%Z.
  Proof.
    destruct a as [| |b]; cbn; intros H Hn; [lia | congruence |].
    destruct H as [Hne Hlt]. destruct b; [congruence|]. cbn in *. lia.
  Qed.

  Lemma s_nonzero x u i : (i = IOneNonZero \/ i = IAnyNonZero) -> sound x BB u i -> sound (MNonZero x) BB u i.
  Proof.
    intros Hi IH st st' cs Hok H. cbn [ieval] in H.
    destruct st as [|a r0]; [discriminate|].
    assert (Hdis : a = EDis \/ a <> EDis) by (destruct a; [right|left|right]; congruence || reflexivity).
    destruct Hdis as [-> | Hn].
    - inversion H; subst. exists [EDis], r0. split; [reflexivity|]. split.
      { destruct Hi as [-> | ->]; cbn; [reflexivity | discriminate]. }
      exists EDis. split; [reflexivity|]. intros rest al. exists []. split; [|apply outrel_dis].
      cbn [enc app C map conc]. rewrite exec_op_cons. cbn [exec_op stk alt bind blen length].
      rewrite exec_op_cons. cbn [exec_op stk alt]. cbn. rewrite if_cond_empty'. reflexivity.
    - assert (H' : ev x (a :: r0) = XOk st' cs) by (destruct a; [exact H | congruence | exact H]).
      destruct (IH (a :: r0) st' cs Hok H') as [w [r [Hst [Hs [x0 [-> Hp]]]]]].
      assert (Hw : w <> []) by (destruct Hi as [-> | ->]; cbn in Hs; [destruct w; [discriminate | congruence] | exact Hs]).
      destruct w as [|a' w']; [congruence|]. cbn [app] in Hst. inversion Hst; subst a' r0.
      exists (a :: w'), r. repeat split; [exact Hs|]. exists x0. split; [reflexivity|]. intros rest al.
      destruct (Hp rest al) as [v [Hr Ho]]. exists v. split; [|exact Ho].
      inversion Hok as [|? ? Ha _]; subst. pose proof (okelem_top_nz a Ha Hn) as Hlen.
      cbn [enc app C map]. rewrite exec_op_cons. cbn [exec_op stk alt bind].
      rewrite exec_op_cons. cbn [exec_op stk alt]. rewrite Hnum4 by lia. cbn [bind].
      replace (Z.of_N (blen (conc a)) =? 0)%Z with false by (symmetry; apply Z.eqb_neq; lia). cbn [negb bool_bytes].
      rewrite exec_cons, exec_if. cbn [stk alt]. rewrite if_cond_one'. cbn [xorb].
      cbn [C map app] in Hr. rewrite Hr. reflexivity.
  Qed.


  (* ---------------------------------------------------------------- shapes *)
  Lemma shape_and ix iy wx wy : shapeI ix wx -> shapeI iy wy -> shapeI (and_input ix iy) (wx ++ wy).
  Proof.
    destruct ix, iy; cbn [and_input shapeI]; intros Hx Hy; subst; cbn [app];
      rewrite ?app_nil_r, ?app_length; try (reflexivity || assumption || lia || exact I);
      try (destruct wx; cbn in *; [discriminate || congruence | discriminate]);
      try (intros E; apply app_eq_nil in E; destruct E; subst; cbn in *; congruence || discriminate).
  Qed.

  Lemma shape_or_b ix iz wx wz : shapeI ix wx -> shapeI iz wz ->
    shapeI (match ix, iz with
            | IZero, IZero => IZero
            | IZero, IOne | IOne, IZero | IZero, IOneNonZero | IOneNonZero, IZero => IOne
            | _, _ => IAny end) (wx ++ wz).
  Proof.
    destruct ix, iz; cbn [shapeI]; intros Hx Hy; subst; cbn [app];
      rewrite ?app_nil_r, ?app_length; try (reflexivity || assumption || lia || exact I).
  Qed.

  Lemma shape_or_dc_sat ix iz wx : shapeI ix wx -> shapeI (or_dc_input ix iz) wx.
  Proof. destruct ix, iz; cbn [or_dc_input shapeI]; intros Hx; subst; try (reflexivity || assumption || exact I). Qed.
  Lemma shape_or_dc_dis ix iz wx wz : shapeI ix wx -> shapeI iz wz -> shapeI (or_dc_input ix iz) (wx ++ wz).
  Proof.
    destruct ix, iz; cbn [or_dc_input shapeI]; intros Hx Hy; subst; cbn [app];
      rewrite ?app_nil_r, ?app_length; try (reflexivity || assumption || lia || exact I).
  Qed.

  Definition or_i_input (ix iz : input) : input := match ix, iz with IZero, IZero => IOne | _, _ => IAny end.
  Lemma shape_or_i_l ix iz a wx : shapeI ix wx -> shapeI (or_i_input ix iz) (a :: wx).
  Proof. destruct ix, iz; cbn [or_i_input shapeI]; intros Hx; subst; try (reflexivity || exact I). Qed.
  Lemma shape_or_i_r ix iz a wz : shapeI iz wz -> shapeI (or_i_input ix iz) (a :: wz).
  Proof. destruct ix, iz; cbn [or_i_input shapeI]; intros Hx; subst; try (reflexivity || exact I). Qed.

  Definition andor_input (ia ib ic : input) : input :=
    match ia, ib, ic with
    | IZero, IZero, IZero => IZero
    | IZero, IOne, IOne | IZero, IOne, IOneNonZero | IZero, IOneNonZero, IOne
    | IZero, IOneNonZero, IOneNonZero | IOne, IZero, IZero | IOneNonZero, IZero, IZero => IOne
    | _, _, _ => IAny end.
  Lemma shape_andor_sat ia ib ic wa wb : shapeI ia wa -> shapeI ib wb -> shapeI (andor_input ia ib ic) (wa ++ wb).
  Proof.
    destruct ia, ib, ic; cbn [andor_input shapeI]; intros Hx Hy; subst; cbn [app];
      rewrite ?app_nil_r, ?app_length; try (reflexivity || assumption || lia || exact I).
  Qed.
  Lemma shape_andor_dis ia ib ic wa wc : shapeI ia wa -> shapeI ic wc -> shapeI (andor_input ia ib ic) (wa ++ wc).
  Proof.
    destruct ia, ib, ic; cbn [andor_input shapeI]; intros Hx Hy; subst; cbn [app];
      rewrite ?app_nil_r, ?app_length; try (reflexivity || assumption || lia || exact I).
  Qed.

  (* ---------------------------------------------------------------- conjunctions *)
  Lemma s_and_v x y b ux uy ix iy : b <> BW ->
    sound x BV ux ix -> sound y b uy iy -> sound (MAndV x y) b uy (and_input ix iy).
  Proof.
    intros Hb IHx IHy st st' cs Hok H. cbn [ieval] in H. apply xbind_ok in H.
    destruct H as [s1 [c1 [c2 [Hx [Hy _]]]]].
    destruct (IHx st s1 c1 Hok Hx) as [wx [r1 [-> [Hsx [-> Hpx]]]]].
    destruct (IHy r1 st' c2 (Forall_app_r _ _ _ Hok) Hy) as [wy [r [-> [Hsy Hpy]]]].
    exists (wx ++ wy), r. split; [apply app_assoc|]. split; [apply shape_and; assumption|].
    apply (post_transport b y (MAndV x y) uy uy wy (wx ++ wy) r st' Hb); [|auto|exact Hpy].
    intros rest al. cbn [enc]. rewrite exec_app, C_app, <- app_assoc, Hpx. reflexivity.
  Qed.

  Lemma boolop_vals u x v : outrel u x v ->
    exists z, num_operand 4 v = Some z /\ negb (z =? 0)%Z = is_sat x /\ (x = ESat \/ x = EDis).
  Proof.
    intros [[-> Hg]|[-> ->]].
    - destruct (goodval_num' _ _ Hg) as [z [Hz Hnz]]. exists z. rewrite Hnz. auto.
    - exists 0%Z. rewrite num_operand_empty. auto.
  Qed.

  Lemma s_and_b x y ux uy ix iy :
    sound x BB ux ix -> sound y BW uy iy -> sound (MAndB x y) BB true (and_input ix iy).
  Proof.
    intros IHx IHy st st' cs Hok H. cbn [ieval] in H. apply xbind_ok in H.
    destruct H as [s1 [c1 [c2 [Hx [Hf _]]]]].
    destruct (IHx st s1 c1 Hok Hx) as [wx [r1 [-> [Hsx [x0 [-> Hpx]]]]]].
    assert (Hok1 : Forall okelem r1) by exact (Forall_app_r _ _ _ Hok).
    assert (Hy : exists s2 cy, ev y r1 = XOk s2 cy /\
              exists y0 r2, s2 = y0 :: r2 /\ st' = (if is_sat x0 && is_sat y0 then ESat else EDis) :: r2).
    { apply xpop_ok in Hf. destruct Hf as [[r [E Hf]]|[r [E Hf]]]; inversion E; subst; clear E;
        apply xbind_ok in Hf; destruct Hf as [s2 [cy [c3 [Hy [Hf _]]]]]; exists s2, cy; (split; [exact Hy|]);
        destruct s2 as [|y0 r2]; try discriminate; inversion Hf; subst; exists y0, r2; split; reflexivity. }
    destruct Hy as [s2 [cy [Hy [y0 [r2 [-> ->]]]]]].
    destruct (IHy r1 (y0 :: r2) cy Hok1 Hy) as [wy [r [-> [Hsy [y1 [E Hpy]]]]]]. inversion E; subst y1 r2; clear E.
    exists (wx ++ wy), r. split; [apply app_assoc|]. split; [apply shape_and; assumption|].
    eexists. split; [reflexivity|]. intros rest al.
    destruct (Hpx (C wy ++ rest) al) as [vx [Hrx Hox]].
    destruct (Hpy vx rest al) as [vy [Hry Hoy]].
    destruct (boolop_vals _ _ _ Hox) as [zx [Hzx [Hnx Hcx]]]. destruct (boolop_vals _ _ _ Hoy) as [zy [Hzy [Hny Hcy]]].
    exists (bool_bytes (is_sat x0 && is_sat y0)). split.
    - cbn [enc]. rewrite exec_app, C_app, <- app_assoc, Hrx. cbn [bind]. rewrite exec_app.
      destruct Hry as [Hry|Hry]; erewrite bind_ok by exact Hry; cbn [bind exec exec_instr exec_op stk alt];
        rewrite Hzx, Hzy, Hnx, Hny; rewrite ?(andb_comm (is_sat y0)); reflexivity.
    - destruct Hcx as [-> | ->], Hcy as [-> | ->]; cbn; (apply outrel_sat1 || apply outrel_dis).
  Qed.

  Lemma s_or_b x y ux uy ix iy :
    sound x BB ux ix -> sound y BW uy iy ->
    sound (MOrB x y) BB true (match ix, iy with
            | IZero, IZero => IZero
            | IZero, IOne | IOne, IZero | IZero, IOneNonZero | IOneNonZero, IZero => IOne
            | _, _ => IAny end).
  Proof.
    intros IHx IHy st st' cs Hok H. cbn [ieval] in H. apply xbind_ok in H.
    destruct H as [s1 [c1 [c2 [Hx [Hf _]]]]].
    destruct (IHx st s1 c1 Hok Hx) as [wx [r1 [-> [Hsx [x0 [-> Hpx]]]]]].
    assert (Hok1 : Forall okelem r1) by exact (Forall_app_r _ _ _ Hok).
    assert (Hy : exists s2 cy, ev y r1 = XOk s2 cy /\
              exists y0 r2, s2 = y0 :: r2 /\
                st' = (if is_sat x0 then ESat else if is_dis y0 then EDis else ESat) :: r2).
    { apply xpop_ok in Hf. destruct Hf as [[r [E Hf]]|[r [E Hf]]]; inversion E; subst; clear E;
        apply xbind_ok in Hf; destruct Hf as [s2 [cy [c3 [Hy [Hf _]]]]]; exists s2, cy; (split; [exact Hy|]);
        destruct s2 as [|y0 r2]; try discriminate; inversion Hf; subst; exists y0, r2; split; reflexivity. }
    destruct Hy as [s2 [cy [Hy [y0 [r2 [-> ->]]]]]].
    destruct (IHy r1 (y0 :: r2) cy Hok1 Hy) as [wy [r [-> [Hsy [y1 [E Hpy]]]]]]. inversion E; subst y1 r2; clear E.
    exists (wx ++ wy), r. split; [apply app_assoc|]. split; [apply shape_or_b; assumption|].
    eexists. split; [reflexivity|]. intros rest al.
    destruct (Hpx (C wy ++ rest) al) as [vx [Hrx Hox]].
    destruct (Hpy vx rest al) as [vy [Hry Hoy]].
    destruct (boolop_vals _ _ _ Hox) as [zx [Hzx [Hnx Hcx]]]. destruct (boolop_vals _ _ _ Hoy) as [zy [Hzy [Hny Hcy]]].
    exists (bool_bytes (is_sat x0 || is_sat y0)). split.
    - cbn [enc]. rewrite exec_app, C_app, <- app_assoc, Hrx. cbn [bind]. rewrite exec_app.
      destruct Hry as [Hry|Hry]; erewrite bind_ok by exact Hry; cbn [bind exec exec_instr exec_op stk alt];
        rewrite Hzx, Hzy, Hnx, Hny; rewrite ?(orb_comm (is_sat y0)); reflexivity.
    - destruct Hcx as [-> | ->], Hcy as [-> | ->]; cbn; (apply outrel_sat1 || apply outrel_dis).
  Qed.

  (* ---------------------------------------------------------------- disjunctions *)
  (* X satisfied with a unit value / dissatisfied, followed by [IF..] *)
  Lemma s_or_c x z uz ix iz :
    sound x BB true ix -> sound z BV uz iz -> sound (MOrC x z) BV false (or_dc_input ix iz).
  Proof.
    intros IHx IHz st st' cs Hok H. cbn [ieval] in H. apply xbind_ok in H.
    destruct H as [s1 [c1 [c2 [Hx [Hf _]]]]].
    destruct (IHx st s1 c1 Hok Hx) as [wx [r1 [-> [Hsx [x0 [-> Hpx]]]]]].
    assert (Hok1 : Forall okelem r1) by exact (Forall_app_r _ _ _ Hok).
    apply xpop_ok in Hf. destruct Hf as [[r [E Hf]]|[r [E Hf]]]; inversion E; subst; clear E.
    - inversion Hf; subst. exists wx, st'. split; [reflexivity|]. split; [apply shape_or_dc_sat, Hsx|].
      split; [reflexivity|]. intros rest al. destruct (Hpx rest al) as [v [Hr Ho]].
      destruct Ho as [[_ [_ [_ Hu]]]|[Hd _]]; [|discriminate]. rewrite (Hu eq_refl) in Hr.
      cbn [enc]. rewrite exec_app, Hr. cbn [bind]. rewrite exec_cons, exec_if. cbn [stk alt].
      rewrite if_cond_one'. reflexivity.
    - destruct (IHz r st' c2 Hok1 Hf) as [wz [r' [-> [Hsz [-> Hpz]]]]].
      exists (wx ++ wz), r'. split; [apply app_assoc|]. split; [apply shape_or_dc_dis; assumption|].
      split; [reflexivity|]. intros rest al. destruct (Hpx (C wz ++ rest) al) as [v [Hr Ho]].
      destruct Ho as [[Hd _]|[_ ->]]; [discriminate|].
      cbn [enc]. rewrite exec_app, C_app, <- app_assoc, Hr. cbn [bind]. rewrite exec_cons, exec_if. cbn [stk alt].
      rewrite if_cond_empty'. cbn [xorb]. rewrite Hpz. reflexivity.
  Qed.

  Lemma s_or_d x z uz ix iz :
    sound x BB true ix -> sound z BB uz iz -> sound (MOrD x z) BB uz (or_dc_input ix iz).
  Proof.
    intros IHx IHz st st' cs Hok H. cbn [ieval] in H. apply xbind_ok in H.
    destruct H as [s1 [c1 [c2 [Hx [Hf _]]]]].
    destruct (IHx st s1 c1 Hok Hx) as [wx [r1 [-> [Hsx [x0 [-> Hpx]]]]]].
    assert (Hok1 : Forall okelem r1) by exact (Forall_app_r _ _ _ Hok).
    apply xpop_ok in Hf. destruct Hf as [[r [E Hf]]|[r [E Hf]]]; inversion E; subst; clear E.
    - inversion Hf; subst. exists wx, r. split; [reflexivity|]. split; [apply shape_or_dc_sat, Hsx|].
      exists ESat. split; [reflexivity|]. intros rest al. destruct (Hpx rest al) as [v [Hr Ho]].
      destruct Ho as [[_ [_ [_ Hu]]]|[Hd _]]; [|discriminate]. rewrite (Hu eq_refl) in Hr.
      exists [1]. split; [|apply outrel_sat1].
      cbn [enc]. rewrite exec_app, Hr. cbn [bind]. rewrite exec_op_cons. cbn [exec_op stk alt]. rewrite truthy_one. cbn [bind].
      rewrite exec_cons, exec_if. cbn [stk alt]. rewrite if_cond_one'. reflexivity.
    - destruct (IHz r st' c2 Hok1 Hf) as [wz [r' [-> [Hsz [z0 [-> Hpz]]]]]].
      exists (wx ++ wz), r'. split; [apply app_assoc|]. split; [apply shape_or_dc_dis; assumption|].
      exists z0. split; [reflexivity|]. intros rest al. destruct (Hpx (C wz ++ rest) al) as [v [Hr Ho]].
      destruct Ho as [[Hd _]|[_ ->]]; [discriminate|].
      destruct (Hpz rest al) as [vz [Hrz Hoz]]. exists vz. split; [|exact Hoz].
      cbn [enc]. rewrite exec_app, C_app, <- app_assoc, Hr. cbn [bind].
      rewrite exec_op_cons. cbn [exec_op stk alt truthy bind].
      rewrite exec_cons, exec_if. cbn [stk alt]. rewrite if_cond_empty'. cbn [xorb]. rewrite Hrz. reflexivity.
  Qed.

  Lemma run_or_i_l' x z w rest al :
    run (MOrI x z) (mkSt (C (ESat :: w) ++ rest) al) = run x (mkSt (C w ++ rest) al).
  Proof. cbn [enc app C map conc]. rewrite exec_cons, exec_if. cbn [stk alt]. rewrite if_cond_one'. cbn [xorb]. apply bind_ret. Qed.
  Lemma run_or_i_r' x z w rest al :
    run (MOrI x z) (mkSt (C (EDis :: w) ++ rest) al) = run z (mkSt (C w ++ rest) al).
  Proof. cbn [enc app C map conc]. rewrite exec_cons, exec_if. cbn [stk alt]. rewrite if_cond_empty'. cbn [xorb]. apply bind_ret. Qed.

  Lemma s_or_i x z b ux uz ix iz : b <> BW ->
    sound x b ux ix -> sound z b uz iz -> sound (MOrI x z) b (ux && uz) (or_i_input ix iz).
  Proof.
    intros Hb IHx IHz st st' cs Hok H. cbn [ieval] in H. apply xpop_ok in H.
    destruct H as [[r0 [-> H]]|[r0 [-> H]]]; inversion Hok as [|? ? _ Hok0]; subst.
    - destruct (IHx r0 st' cs Hok0 H) as [w [r [-> [Hs Hp]]]].
      exists (ESat :: w), r. split; [reflexivity|]. split; [apply shape_or_i_l, Hs|].
      apply (post_transport b x (MOrI x z) ux (ux && uz) w (ESat :: w) r st' Hb); [| |exact Hp].
      + intros rest al. apply run_or_i_l'.
      + intros E. apply andb_prop in E. tauto.
    - destruct (IHz r0 st' cs Hok0 H) as [w [r [-> [Hs Hp]]]].
      exists (EDis :: w), r. split; [reflexivity|]. split; [apply shape_or_i_r, Hs|].
      apply (post_transport b z (MOrI x z) uz (ux && uz) w (EDis :: w) r st' Hb); [| |exact Hp].
      + intros rest al. apply run_or_i_r'.
      + intros E. apply andb_prop in E. tauto.
  Qed.

  Lemma s_andor a b c bb ub uc ia ib ic : bb <> BW ->
    sound a BB true ia -> sound b bb ub ib -> sound c bb uc ic ->
    sound (MAndOr a b c) bb (ub && uc) (andor_input ia ib ic).
  Proof.
    intros Hb IHa IHb IHc st st' cs Hok H. cbn [ieval] in H. apply xbind_ok in H.
    destruct H as [s1 [c1 [c2 [Ha [Hf _]]]]].
    destruct (IHa st s1 c1 Hok Ha) as [wa [r1 [-> [Hsa [x0 [-> Hpa]]]]]].
    assert (Hok1 : Forall okelem r1) by exact (Forall_app_r _ _ _ Hok).
    apply xpop_ok in Hf. destruct Hf as [[r [E Hf]]|[r [E Hf]]]; inversion E; subst; clear E.
    - destruct (IHb r st' c2 Hok1 Hf) as [wb [r' [-> [Hsb Hpb]]]].
      exists (wa ++ wb), r'. split; [apply app_assoc|]. split; [apply shape_andor_sat; assumption|].
      apply (post_transport bb b (MAndOr a b c) ub (ub && uc) wb (wa ++ wb) r' st' Hb); [| |exact Hpb].
      + intros rest al. destruct (Hpa (C wb ++ rest) al) as [v [Hr Ho]].
        destruct Ho as [[_ [_ [_ Hu]]]|[Hd _]]; [|discriminate]. rewrite (Hu eq_refl) in Hr.
        cbn [enc]. rewrite exec_app, C_app, <- app_assoc, Hr. cbn [bind]. rewrite exec_cons, exec_if. cbn [stk alt].
        rewrite if_cond_one'. cbn [xorb]. apply bind_ret.
      + intros E. apply andb_prop in E. tauto.
    - destruct (IHc r st' c2 Hok1 Hf) as [wc [r' [-> [Hsc Hpc]]]].
      exists (wa ++ wc), r'. split; [apply app_assoc|]. split; [apply shape_andor_dis; assumption|].
      apply (post_transport bb c (MAndOr a b c) uc (ub && uc) wc (wa ++ wc) r' st' Hb); [| |exact Hpc].
      + intros rest al. destruct (Hpa (C wc ++ rest) al) as [v [Hr Ho]].
        destruct Ho as [[Hd _]|[_ ->]]; [discriminate|].
        cbn [enc]. rewrite exec_app, C_app, <- app_assoc, Hr. cbn [bind]. rewrite exec_cons, exec_if. cbn [stk alt].
        rewrite if_cond_empty'. cbn [xorb]. apply bind_ret.
      + intros E. apply andb_prop in E. tauto.
  Qed.


  (* ---------------------------------------------------------------- thresh *)
  Lemma num_enc_eqb a b : (0 <= a < 2147483648)%Z -> (0 <= b < 2147483648)%Z ->
    bytes_eqb (num_encode a) (num_encode b) = (a =? b)%Z.
  Proof.
    intros Ha Hb. destruct (Z.eqb_spec a b) as [->|Hne]; [apply bytes_eqb_refl|].
    apply bytes_eqb_neq. intros E. pose proof (Hnum4 a Ha) as H1. rewrite E, (Hnum4 b Hb) in H1.
    inversion H1. lia.
  Qed.

  Definition isb (x : elem) : Prop := x = ESat \/ x = EDis.
  Definition bit (x : elem) : N := match x with ESat => 1 | _ => 0 end.

  Lemma outrel_unit_val x v : outrel true x v -> isb x /\ v = num_encode (Z.of_N (bit x)).
  Proof.
    intros [[-> [_ [_ Hu]]]|[-> ->]]; (split; [left + right; reflexivity|]); [rewrite (Hu eq_refl)|]; reflexivity.
  Qed.

  Lemma s_tloop k l : Forall (fun x => sound x BW true IAny) l ->
    forall ns xp r st' cs, Forall okelem r -> isb xp ->
      tloop e ke kp k l ns (xp :: r) = XOk st' cs ->
      (Z.of_N ns + 1 + Z.of_nat (length l) < 2147483648)%Z -> (0 < Z.of_N k < 2147483648)%Z ->
      exists w r' x, r = w ++ r' /\ st' = x :: r' /\ (l = [] -> w = []) /\
        forall rest al, exists v,
          exec e (enc_tail ke l ++ [push_int (Z.of_N k); IOp OP_EQUAL])
               (mkSt (num_encode (Z.of_N (ns + bit xp)) :: C w ++ rest) al) = Ok (mkSt (v :: rest) al)
          /\ outrel true x v.
  Proof.
    induction 1 as [|x l' Hx Hl IH]; intros ns xp r st' cs Hok Hxp H Hbound Hk.
    - cbn [tloop] in H. exists [], r.
      assert (Hrun : forall rest al,
                exec e (enc_tail ke [] ++ [push_int (Z.of_N k); IOp OP_EQUAL])
                     (mkSt (num_encode (Z.of_N (ns + bit xp)) :: C [] ++ rest) al)
                = Ok (mkSt (bool_bytes (Z.of_N k =? Z.of_N (ns + bit xp))%Z :: rest) al)).
      { intros rest al. cbn [enc_tail app C map length] in *. rewrite exec_cons, exec_push_int'. cbn [bind stk alt].
        rewrite exec_op_cons. cbn [exec_op stk alt bind exec].
        rewrite num_enc_eqb by (destruct Hxp as [-> | ->]; cbn [bit]; lia). reflexivity. }
      destruct Hxp as [-> | ->]; cbn [bit] in *.
      + destruct (N.eqb_spec k 0) as [E|E]; [discriminate|]. inversion H; subst.
        eexists. split; [reflexivity|]. split; [reflexivity|]. split; [reflexivity|]. intros rest al. eexists. split; [apply Hrun|].
        destruct (N.eqb_spec ns (k - 1)) as [E1|E1].
        * replace (Z.of_N k =? Z.of_N (ns + 1))%Z with true by (symmetry; apply Z.eqb_eq; lia). apply outrel_sat1.
        * replace (Z.of_N k =? Z.of_N (ns + 1))%Z with false by (symmetry; apply Z.eqb_neq; lia). apply outrel_dis.
      + inversion H; subst.
        eexists. split; [reflexivity|]. split; [reflexivity|]. split; [reflexivity|]. intros rest al. eexists. split; [apply Hrun|].
        rewrite N.add_0_r. destruct (N.eqb_spec ns k) as [E1|E1].
        * replace (Z.of_N k =? Z.of_N ns)%Z with true by (symmetry; apply Z.eqb_eq; lia). apply outrel_sat1.
        * replace (Z.of_N k =? Z.of_N ns)%Z with false by (symmetry; apply Z.eqb_neq; lia). apply outrel_dis.
    - cbn [tloop] in H.
      assert (Hcont : exists s1 c1 c2, ev x r = XOk s1 c1 /\ tloop e ke kp k l' (ns + bit xp) s1 = XOk st' c2).
      { apply xpop_ok in H. destruct H as [[r0 [E H]]|[r0 [E H]]]; inversion E; subst; clear E;
          apply xbind_ok in H; destruct H as [s1 [c1 [c2 [H1 [H2 _]]]]]; exists s1, c1, c2; cbn [bit];
          rewrite ?N.add_0_r; auto. }
      destruct Hcont as [s1 [c1 [c2 [Hx1 Hf]]]].
      destruct (Hx r s1 c1 Hok Hx1) as [wx [r1 [-> [_ [x1 [-> Hpx]]]]]].
      assert (Hb1 : isb x1 /\ True).
      { destruct (Hpx [] [] []) as [v [_ Ho]]. split; [apply (outrel_unit_val _ _ Ho) | exact I]. }
      destruct Hb1 as [Hb1 _].
      cbn [length] in Hbound.
      assert (Hbit : (Z.of_N (bit xp) <= 1)%Z) by (destruct xp; cbn; lia).
      destruct (IH (ns + bit xp) x1 r1 st' c2 (Forall_app_r _ _ _ Hok) Hb1 Hf ltac:(lia) Hk) as [w' [r' [x2 [-> [-> [_ Hp2]]]]]].
      exists (wx ++ w'), r', x2. split; [apply app_assoc|]. split; [reflexivity|]. split; [discriminate|]. intros rest al.
      destruct (Hp2 rest al) as [v2 [Hr2 Ho2]]. exists v2. split; [|exact Ho2].
      destruct (Hpx (num_encode (Z.of_N (ns + bit xp))) (C w' ++ rest) al) as [v1 [Hr1 Ho1]].
      destruct (outrel_unit_val _ _ Ho1) as [_ ->].
      cbn [enc_tail]. rewrite <- !app_assoc, exec_app, C_app, <- app_assoc.
      assert (Hadd : forall a b rest' al', (0 <= a < 2147483647)%Z -> (0 <= b <= 1)%Z ->
                (exec_op e OP_ADD (mkSt (num_encode b :: num_encode a :: rest') al') = Ok (mkSt (num_encode (a + b) :: rest') al')) /\
                (exec_op e OP_ADD (mkSt (num_encode a :: num_encode b :: rest') al') = Ok (mkSt (num_encode (a + b) :: rest') al'))).
      { intros a b rest' al' Ha Hb. cbn [exec_op stk alt]. rewrite (Hnum4 a), (Hnum4 b) by lia.
        split; [reflexivity | rewrite Z.add_comm; reflexivity]. }
      assert (Hb01 : (0 <= Z.of_N (bit x1) <= 1)%Z) by (destruct x1; cbn; lia).
      destruct (Hadd (Z.of_N (ns + bit xp)) (Z.of_N (bit x1)) (C w' ++ rest) al ltac:(lia) Hb01) as [Ha1 Ha2].
      replace (Z.of_N (ns + bit xp) + Z.of_N (bit x1))%Z with (Z.of_N (ns + bit xp + bit x1)) in Ha1, Ha2 by lia.
      destruct Hr1 as [Hr1|Hr1]; erewrite bind_ok by exact Hr1; cbn [app]; rewrite exec_op_cons;
        [rewrite Ha1 | rewrite Ha2]; cbn [bind]; exact Hr2.
  Qed.

  Definition weight_class (i : input) : input :=
    match i with IZero => IZero | IOne | IOneNonZero => IOne | _ => IAny end.
  Definition thresh_input (i0 : input) (rest : list ms) : input :=
    match rest with [] => weight_class i0 | _ => IAny end.

  Lemma s_thresh k x0 rest i0 :
    sound x0 BB true i0 -> Forall (fun x => sound x BW true IAny) rest ->
    1 <= k <= N.of_nat (S (length rest)) -> (S (length rest) < 1000)%nat ->
    sound (MThresh k (x0 :: rest)) BB true (thresh_input i0 rest).
  Proof.
    intros H0 Hr Hk Hn st st' cs Hok H. rewrite ev_thresh in H. apply xbind_ok in H.
    destruct H as [s1 [c1 [c2 [Hx0 [Hf _]]]]].
    destruct (H0 st s1 c1 Hok Hx0) as [w0 [r1 [-> [Hs0 [x1 [-> Hp0]]]]]].
    assert (Hb1 : isb x1) by (destruct (Hp0 [] []) as [v [_ Ho]]; apply (outrel_unit_val _ _ Ho)).
    destruct (s_tloop k rest Hr 0 x1 r1 st' c2 (Forall_app_r _ _ _ Hok) Hb1 Hf ltac:(lia) ltac:(lia))
      as [w' [r' [x2 [-> [-> [Hnil Hp2]]]]]].
    exists (w0 ++ w'), r'. split; [apply app_assoc|]. split.
    { unfold thresh_input. destruct rest as [|y rest']; [|exact I].
      rewrite (Hnil eq_refl), app_nil_r. destruct i0; cbn [weight_class shapeI] in *; auto. }
    exists x2. split; [reflexivity|]. intros rest0 al.
    destruct (Hp2 rest0 al) as [v2 [Hr2 Ho2]]. exists v2. split; [|exact Ho2].
    destruct (Hp0 (C w' ++ rest0) al) as [v1 [Hr1 Ho1]]. destruct (outrel_unit_val _ _ Ho1) as [_ ->].
    rewrite enc_thresh, exec_app, C_app, <- app_assoc, Hr1. cbn [bind]. rewrite N.add_0_l in Hr2. exact Hr2.
  Qed.

  (* ---------------------------------------------------------------- multi_a *)
  Definition ma_tail (l : list key) : script :=
    flat_map (fun key => [IPush (kb ke key); IOp OP_CHECKSIGADD]) l.

  Lemma s_multi_a_loop k l : e_sv e = SvTapscript ->
    forall ns st st' cs, Forall okelem st -> multi_a_loop e ke k l ns st = XOk st' cs ->
      (Z.of_N ns + Z.of_nat (length l) < 2147483648)%Z -> (0 <= Z.of_N k < 2147483648)%Z ->
      exists w r x, st = w ++ r /\ st' = x :: r /\
        forall rest al, exists v,
          exec e (ma_tail l ++ [push_int (Z.of_N k); IOp OP_NUMEQUAL])
               (mkSt (num_encode (Z.of_N ns) :: C w ++ rest) al) = Ok (mkSt (v :: rest) al)
          /\ outrel true x v.
  Proof.
    intros Htap. induction l as [|key l' IH]; intros ns st st' cs Hok H Hbound Hk.
    - cbn [multi_a_loop] in H. inversion H; subst. exists [], st. eexists. split; [reflexivity|]. split; [reflexivity|].
      intros rest al. exists (bool_bytes (Z.of_N k =? Z.of_N ns)%Z). split.
      + cbn [ma_tail flat_map app C map]. rewrite exec_cons, exec_push_int'. cbn [bind stk alt].
        rewrite exec_op_cons. cbn [exec_op stk alt]. rewrite !Hnum4 by (cbn [length] in Hbound; lia). reflexivity.
      + destruct (N.eqb_spec ns k) as [E|E].
        * replace (Z.of_N k =? Z.of_N ns)%Z with true by (symmetry; apply Z.eqb_eq; lia). apply outrel_sat1.
        * replace (Z.of_N k =? Z.of_N ns)%Z with false by (symmetry; apply Z.eqb_neq; lia). apply outrel_dis.
    - cbn [multi_a_loop] in H. cbn [length] in Hbound. unfold evaluate_pk in H.
      destruct st as [|[| |s] r0]; try discriminate.
      + (* empty signature: not counted *)
        inversion Hok as [|? ? _ Hok0]; subst.
        destruct (IH ns r0 st' cs Hok0 H ltac:(lia) Hk) as [w [r [x [-> [-> Hp]]]]].
        exists (EDis :: w), r, x. split; [reflexivity|]. split; [reflexivity|]. intros rest al.
        destruct (Hp rest al) as [v [Hr Ho]]. exists v. split; [|exact Ho].
        cbn [ma_tail flat_map app C map conc]. rewrite exec_push, exec_op_cons. cbn [exec_op stk alt].
        rewrite Htap, Hkey. cbn [negb]. rewrite Hnum4 by lia. cbn [bind]. exact Hr.
      + destruct (e_sigok e (kb ke key) s) eqn:Es; [|discriminate].
        apply xbind_ok in H. destruct H as [s1 [c1 [c2 [H1 [Hf _]]]]]. inversion H1; subst.
        inversion Hok as [|? ? Hs Hok0]; subst. cbn in Hs. destruct Hs as [Hne _].
        destruct (IH (ns + 1) s1 st' c2 Hok0 Hf ltac:(lia) Hk) as [w [r [x [-> [-> Hp]]]]].
        exists (EPush s :: w), r, x. split; [reflexivity|]. split; [reflexivity|]. intros rest al.
        destruct (Hp rest al) as [v [Hr Ho]]. exists v. split; [|exact Ho].
        cbn [ma_tail flat_map app C map conc]. rewrite exec_push, exec_op_cons. cbn [exec_op stk alt].
        rewrite Htap, Hkey. cbn [negb]. rewrite Hnum4 by lia.
        destruct s as [|b0 s']; [congruence|]. rewrite Es. cbn [bind].
        replace (Z.of_N ns + 1)%Z with (Z.of_N (ns + 1)) by lia. exact Hr.
  Qed.

  Lemma s_multi_a_gen (m : ms) k ks :
    enc ke m = (match ks with
                | [] => []
                | k0 :: rest => [IPush (kb ke k0); IOp OP_CHECKSIG] ++ ma_tail rest
                end) ++ [push_int (Z.of_N k); IOp OP_NUMEQUAL] ->
    (forall st, ev m st = multi_a_loop e ke k ks 0 st) ->
    e_sv e = SvTapscript -> ks <> [] -> (length ks < 1000)%nat -> k < 2147483648 ->
    sound m BB true IAny.
  Proof.
    intros Henc Hev Htap Hne Hlen Hk st st' cs Hok H. rewrite Hev in H.
    destruct ks as [|k0 rest]; [congruence|]. cbn [multi_a_loop] in H. cbn [length] in Hlen. unfold evaluate_pk in H.
    destruct st as [|[| |s] r0]; try discriminate.
    - inversion Hok as [|? ? _ Hok0]; subst.
      destruct (s_multi_a_loop k rest Htap 0 r0 st' cs Hok0 H ltac:(lia) ltac:(lia)) as [w [r [x [-> [-> Hp]]]]].
      exists (EDis :: w), r. split; [reflexivity|]. split; [exact I|]. exists x. split; [reflexivity|]. intros rest0 al.
      destruct (Hp rest0 al) as [v [Hr Ho]]. exists v. split; [|exact Ho].
      rewrite Henc. rewrite <- app_assoc. cbn [app C map conc]. rewrite exec_push, exec_op_cons. cbn [exec_op stk alt].
      rewrite Hkey. cbn [negb bool_bytes bind]. exact Hr.
    - destruct (e_sigok e (kb ke k0) s) eqn:Es; [|discriminate].
      apply xbind_ok in H. destruct H as [s1 [c1 [c2 [H1 [Hf _]]]]]. inversion H1; subst.
      inversion Hok as [|? ? Hs Hok0]; subst. cbn in Hs. destruct Hs as [Hnes _].
      destruct (s_multi_a_loop k rest Htap 1 s1 st' c2 Hok0 Hf ltac:(lia) ltac:(lia)) as [w [r [x [-> [-> Hp]]]]].
      exists (EPush s :: w), r. split; [reflexivity|]. split; [exact I|]. exists x. split; [reflexivity|]. intros rest0 al.
      destruct (Hp rest0 al) as [v [Hr Ho]]. exists v. split; [|exact Ho].
      rewrite Henc. rewrite <- app_assoc. cbn [app C map conc]. rewrite exec_push, exec_op_cons. cbn [exec_op stk alt].
      rewrite Hkey. cbn [negb]. destruct s as [|b0 s']; [congruence|]. rewrite Es. cbn [bool_bytes bind]. exact Hr.
  Qed.

  (* ---------------------------------------------------------------- multi (CHECKMULTISIG) *)
  Lemma multisig_match_cons kx krest s srest :
    multisig_match e (kx :: krest) (s :: srest) =
    if Nat.ltb (length (kx :: krest)) (length (s :: srest)) then false
    else if e_sigok e kx s then multisig_match e krest srest else multisig_match e krest (s :: srest).
  Proof. destruct krest as [|k2 kr2]; reflexivity. Qed.
  Lemma multisig_match_nil_keys s srest : multisig_match e [] (s :: srest) = false.
  Proof. reflexivity. Qed.

  Lemma multisig_pairs_cons kx krest s srest :
    multisig_pairs e (kx :: krest) (s :: srest) =
    if e_sigok e kx s then (kx, s) :: multisig_pairs e krest srest else multisig_pairs e krest (s :: srest).
  Proof. destruct krest as [|k2 kr2]; reflexivity. Qed.

  Lemma multisig_empty_first keys srest : multisig_match e keys ([] :: srest) = false.
  Proof.
    induction keys as [|kx krest IH]; [reflexivity|]. rewrite multisig_match_cons.
    destruct (Nat.ltb _ _); [reflexivity|]. rewrite Hsig_empty. exact IH.
  Qed.

  (* the abstract loop finds the in-order matching CHECKMULTISIG looks for *)
  Lemma s_multi_loop k l : forall ns st st' cs, multi_loop e ke k l ns st = XOk st' cs -> ns <= k ->
    exists sigs r, st = map EPush sigs ++ EDis :: r /\ st' = ESat :: r /\
      N.of_nat (length sigs) = k - ns /\ (length sigs <= length l)%nat /\
      multisig_match e (map (kb ke) l) sigs = true /\
      map check_of cs = map (fun p => KSig (fst p) (snd p)) (multisig_pairs e (map (kb ke) l) sigs).
  Proof.
    induction l as [|key l' IH]; intros ns st st' cs H Hns; cbn [multi_loop] in H.
    - destruct (N.eqb_spec ns k) as [E|E]; [|discriminate]. destruct st as [|[| |b] r]; try discriminate.
      inversion H; subst. exists [], r. repeat split; cbn; lia.
    - destruct (N.eqb_spec ns k) as [E|E].
      + destruct st as [|[| |b] r]; try discriminate. inversion H; subst. exists [], r. repeat split; cbn; lia.
      + unfold evaluate_multi in H. destruct st as [|[| |s] r0]; try discriminate.
        destruct (e_sigok e (kb ke key) s) eqn:Es.
        * apply xbind_ok in H. destruct H as [s1 [c1 [c2 [H1 [Hf Ecs]]]]]. inversion H1; subst.
          destruct (IH (ns + 1) s1 st' c2 Hf ltac:(lia)) as [sigs [r [-> [-> [Hlen [Hle [Hm Hpairs]]]]]]].
          exists (s :: sigs), r. split; [reflexivity|]. split; [reflexivity|]. cbn [length map].
          split; [lia|]. split; [lia|]. split.
          -- rewrite multisig_match_cons, Es.
             destruct (Nat.ltb_spec (length (kb ke key :: map (kb ke) l')) (length (s :: sigs))) as [Hlt|_]; [|exact Hm].
             cbn [length] in Hlt. rewrite map_length in Hlt. lia.
          -- rewrite multisig_pairs_cons, Es. cbn [map app check_of fst snd]. rewrite Hpairs. reflexivity.
        * destruct (IH ns (EPush s :: r0) st' cs H Hns) as [sigs [r [Hst [-> [Hlen [Hle [Hm Hpairs]]]]]]].
          destruct sigs as [|s0 sigs']; [cbn in Hlen; lia|]. cbn [map app] in Hst. inversion Hst; subst s0 r0.
          exists (s :: sigs'), r. split; [reflexivity|]. split; [reflexivity|]. split; [exact Hlen|]. cbn [length] in *.
          split; [lia|]. cbn [map]. split.
          -- rewrite multisig_match_cons, Es.
             destruct (Nat.ltb_spec (length (kb ke key :: map (kb ke) l')) (length (s :: sigs'))) as [Hlt|_]; [|exact Hm].
             cbn [length] in Hlt. rewrite map_length in Hlt. lia.
          -- rewrite multisig_pairs_cons, Es. exact Hpairs.
  Qed.

  Lemma take_n_app {A} (a b : list A) : take_n (length a) (a ++ b) = Some (a, b).
  Proof. induction a as [|x r IH]; cbn; [reflexivity|]. rewrite IH. reflexivity. Qed.

  Lemma exec_pushes (f : key -> bytes) l s st :
    exec e (map (fun key => IPush (f key)) l ++ s) st = exec e s (mkSt (rev (map f l) ++ stk st) (alt st)).
  Proof.
    revert st. induction l as [|x r IH]; intros st; cbn [map app rev].
    - destruct st; reflexivity.
    - rewrite exec_push, IH. cbn [stk alt]. rewrite <- app_assoc. reflexivity.
  Qed.

  (* CHECKMULTISIG on n pushed keys, k, and the stack [sigs ++ [] :: rest] *)
  Lemma run_multi k ks sigs rest al (okm : bool) : e_sv e <> SvTapscript ->
    1 <= k <= N.of_nat (length ks) -> (length ks <= 20)%nat -> N.of_nat (length sigs) = k ->
    multisig_match e (rev (map (kb ke) ks)) sigs = okm ->
    (okm = false -> forallb (fun sg => match sg with [] => true | _ => false end) sigs = true) ->
    exec e ([push_int (Z.of_N k)] ++ map (fun key => IPush (kb ke key)) ks
              ++ [push_int (Z.of_nat (length ks)); IOp OP_CHECKMULTISIG])
         (mkSt (sigs ++ [] :: rest) al) = Ok (mkSt (bool_bytes okm :: rest) al).
  Proof.
    intros Htap Hk Hn Hlen Hm Hempty. cbn [app]. rewrite exec_cons, exec_push_int'. cbn [bind stk alt].
    rewrite exec_pushes. cbn [stk alt]. rewrite exec_cons, exec_push_int'. cbn [bind stk alt].
    rewrite exec_op_cons. cbn [exec_op stk alt].
    assert (Hsv : match e_sv e with SvTapscript => true | _ => false end = false) by (destruct (e_sv e); congruence).
    destruct (e_sv e); try congruence;
      (rewrite Hnum4 by lia;
       replace ((Z.of_nat (length ks) <? 0)%Z || (20 <? Z.of_nat (length ks))%Z) with false
         by (symmetry; apply orb_false_iff; split; [apply Z.ltb_ge | apply Z.ltb_ge]; lia);
       rewrite Nat2Z.id;
       replace (length ks) with (length (rev (map (kb ke) ks))) at 1 by (rewrite rev_length, map_length; reflexivity);
       rewrite take_n_app; rewrite Hnum4 by lia;
       replace ((Z.of_N k <? 0)%Z || (Z.of_nat (length ks) <? Z.of_N k)%Z) with false
         by (symmetry; apply orb_false_iff; split; apply Z.ltb_ge; lia);
       replace (Z.to_nat (Z.of_N k)) with (length sigs) by lia;
       rewrite take_n_app;
       replace (forallb (e_keyok e) (rev (map (kb ke) ks))) with true
         by (symmetry; apply forallb_forall; intros x Hx; apply in_rev, in_map_iff in Hx; destruct Hx as [kk [<- _]]; apply Hkey);
       cbn [negb]; rewrite Hm; destruct okm; [reflexivity | rewrite (Hempty eq_refl); reflexivity]).
  Qed.

  Lemma C_pushes sigs : C (map EPush sigs) = sigs.
  Proof. unfold C. rewrite map_map. cbn [conc]. apply map_id. Qed.

  Lemma s_multi_gen (m : ms) k ks :
    enc ke m = [push_int (Z.of_N k)] ++ map (fun key => IPush (kb ke key)) ks
                 ++ [push_int (Z.of_nat (length ks)); IOp OP_CHECKMULTISIG] ->
    (forall st, ev m st = multi_eval e ke k ks st) ->
    e_sv e <> SvTapscript -> 1 <= k <= N.of_nat (length ks) -> (length ks <= 20)%nat ->
    sound m BB true IAnyNonZero.
  Proof.
    intros Henc Hev Htap Hk Hn st st' cs Hok H. rewrite Hev in H. unfold multi_eval in H.
    destruct (N.ltb_spec (N.of_nat (length st)) (k + 1)) as [Hlt|Hge]; [discriminate|].
    destruct st as [|a st0]; [cbn in Hge; lia|].
    assert (Hcase : a = EDis \/ a <> EDis) by (destruct a; [right|left|right]; congruence || reflexivity).
    destruct Hcase as [-> | Hna].
    - (* all-empty dissatisfaction *)
      destruct (forallb is_dis (firstn (N.to_nat (k + 1)) (EDis :: st0))) eqn:Ef; [|discriminate].
      inversion H; subst.
      set (w := firstn (N.to_nat (k + 1)) (EDis :: st0)) in *.
      set (r := skipn (N.to_nat (k + 1)) (EDis :: st0)).
      exists w, r. split; [symmetry; apply firstn_skipn|]. split.
      { cbn [shapeI]. unfold w. replace (N.to_nat (k + 1)) with (S (N.to_nat k)) by lia. discriminate. }
      exists EDis. split; [reflexivity|]. intros rest al. exists []. split; [|apply outrel_dis].
      assert (Hw : C w = repeat [] (N.to_nat k) ++ [[]]).
      { assert (Hl : length w = S (N.to_nat k)).
        { unfold w. rewrite firstn_length. cbn [length] in *. lia. }
        assert (Hall : forall x, In x w -> x = EDis).
        { intros x Hx. rewrite forallb_forall in Ef. specialize (Ef x Hx). destruct x; try discriminate. reflexivity. }
        clearbody w. clear -Hl Hall. revert Hl. generalize (N.to_nat k) as j. induction w as [|x w' IH]; intros j Hl; [discriminate|].
        cbn [length] in Hl. rewrite (Hall x (or_introl eq_refl)). cbn [C map conc].
        destruct j as [|j'].
        - destruct w'; [reflexivity | discriminate].
        - cbn [repeat app]. f_equal. apply IH; [intros y Hy; apply Hall; right; exact Hy | lia]. }
      rewrite Hw, <- app_assoc. cbn [app]. rewrite Henc.
      apply (run_multi k ks (repeat [] (N.to_nat k)) rest al false Htap Hk Hn).
      + rewrite repeat_length. lia.
      + destruct (N.to_nat k) eqn:Ek; [lia|]. cbn [repeat]. apply multisig_empty_first.
      + intros _. apply forallb_forall. intros x Hx. apply repeat_spec in Hx. subst. reflexivity.
    - assert (Hloop : multi_loop e ke k (rev ks) 0 (a :: st0) = XOk st' cs).
      { destruct (rev ks) as [|key l'] eqn:Er.
        - destruct a; try congruence; discriminate.
        - cbn [multi_loop]. destruct (N.eqb_spec 0 k) as [E|_]; [lia|].
          destruct a; try congruence; exact H. }
      destruct (s_multi_loop k (rev ks) 0 (a :: st0) st' cs Hloop ltac:(lia)) as [sigs [r [Hst [-> [Hlen [_ [Hm _]]]]]]].
      exists (map EPush sigs ++ [EDis]), r. split; [rewrite <- app_assoc; exact Hst|]. split.
      { cbn [shapeI]. destruct sigs; discriminate. }
      exists ESat. split; [reflexivity|]. intros rest al. exists [1]. split; [|apply outrel_sat1].
      rewrite C_app, C_pushes, <- app_assoc. cbn [C map conc app]. rewrite Henc.
      apply (run_multi k ks sigs rest al true Htap Hk Hn); [lia | | discriminate].
      rewrite <- map_rev. exact Hm.
  Qed.

  (* ---------------------------------------------------------------- typing dispatch *)
  Definition isound (m : ms) (t : ty) : Prop :=
    sound m (c_base (t_corr t)) (c_unit (t_corr t)) (c_input (t_corr t)).
  Definition istmt (m : ms) : Prop := forall t, type_of m = ROk t -> iwf m -> icover m -> isound m t.

  Ltac unf H := unfold t_cast_alt, t_cast_swap, t_cast_check, t_cast_dupif, t_cast_verify, t_cast_nonzero,
    t_cast_zeronotequal, t_and_v, t_and_b, t_or_b, t_or_c, t_or_d, t_or_i, t_and_or, lift1, lift2,
    c_cast_alt, c_cast_swap, c_cast_check, c_cast_dupif, c_cast_verify, c_cast_nonzero, c_cast_zeronotequal,
    c_and_v, c_and_b, c_or_b, c_or_c, c_or_d, c_or_i, c_and_or in H; cbn [t_corr t_mall c_base c_input c_dissat c_unit] in H.

  Ltac one_child IH Ht Hwf Hc tx Hs :=
    cbn [type_of] in Ht; apply rbind_ok in Ht; destruct Ht as [tx [?Hx Ht]];
    cbn [iwf icover] in Hwf, Hc; pose proof (IH tx Hx Hwf Hc) as Hs;
    destruct tx as [[?bx ?ix ?dx ?ux] ?mx]; unf Ht; unfold isound in *; cbn [t_corr c_base c_unit c_input] in *.

  Ltac two_children IHx IHy Ht Hwf Hc Hsx Hsy :=
    cbn [type_of] in Ht; apply rbind_ok in Ht; destruct Ht as [?tx [?Hx Ht]];
    apply rbind_ok in Ht; destruct Ht as [?ty [?Hy Ht]];
    cbn [iwf icover] in Hwf, Hc; destruct Hwf as [?Hwx ?Hwy]; destruct Hc as [?Hcx ?Hcy];
    pose proof (IHx _ Hx Hwx Hcx) as Hsx; pose proof (IHy _ Hy Hwy Hcy) as Hsy;
    destruct tx as [[?bx ?ix ?dx ?ux] ?mx]; destruct ty as [[?b2 ?i2 ?d2 ?u2] ?m2]; unf Ht;
    unfold isound in *; cbn [t_corr c_base c_unit c_input] in *.

  Lemma i_alt x : istmt x -> istmt (MAlt x).
  Proof.
    intros IH t Ht Hwf Hc. one_child IH Ht Hwf Hc tx Hs.
    destruct bx; try discriminate. inversion Ht; subst. cbn. eapply s_alt; exact Hs.
  Qed.
  Lemma i_swap x : istmt x -> istmt (MSwap x).
  Proof.
    intros IH t Ht Hwf Hc. one_child IH Ht Hwf Hc tx Hs.
    destruct bx; try discriminate; destruct ix; try discriminate; inversion Ht; subst; cbn;
      (eapply s_swap; [|exact Hs]); auto.
  Qed.
  Lemma i_check x : istmt x -> istmt (MCheck x).
  Proof.
    intros IH t Ht Hwf Hc. one_child IH Ht Hwf Hc tx Hs.
    destruct bx; try discriminate. inversion Ht; subst. cbn. eapply s_check; exact Hs.
  Qed.
  Lemma i_dupif x : istmt x -> istmt (MDupIf x).
  Proof.
    intros IH t Ht Hwf Hc. one_child IH Ht Hwf Hc tx Hs.
    destruct bx; try discriminate; destruct ix; try discriminate. inversion Ht; subst. cbn. eapply s_dupif; exact Hs.
  Qed.
  Lemma i_verify x : istmt x -> istmt (MVerify x).
  Proof.
    intros IH t Ht Hwf Hc. one_child IH Ht Hwf Hc tx Hs.
    destruct bx; try discriminate. inversion Ht; subst. cbn. eapply s_verify; exact Hs.
  Qed.
  Lemma i_nonzero x : istmt x -> istmt (MNonZero x).
  Proof.
    intros IH t Ht Hwf Hc. one_child IH Ht Hwf Hc tx Hs.
    destruct ix; cbn in Ht; try discriminate; destruct bx; try discriminate; inversion Ht; subst; cbn;
      (eapply s_nonzero; [|exact Hs]); auto.
  Qed.
  Lemma i_zne x : istmt x -> istmt (MZeroNotEqual x).
  Proof.
    intros IH t Ht Hwf Hc. one_child IH Ht Hwf Hc tx Hs.
    destruct bx; try discriminate. inversion Ht; subst. cbn. eapply s_zne; exact Hs.
  Qed.

  Lemma i_and_v x y : istmt x -> istmt y -> istmt (MAndV x y).
  Proof.
    intros IHx IHy t Ht Hwf Hc. two_children IHx IHy Ht Hwf Hc Hsx Hsy.
    destruct bx, b2; try discriminate; inversion Ht; subst; cbn; (eapply s_and_v; [discriminate | exact Hsx | exact Hsy]).
  Qed.
  Lemma i_and_b x y : istmt x -> istmt y -> istmt (MAndB x y).
  Proof.
    intros IHx IHy t Ht Hwf Hc. two_children IHx IHy Ht Hwf Hc Hsx Hsy.
    destruct bx, b2; try discriminate; inversion Ht; subst; cbn. eapply s_and_b; [exact Hsx | exact Hsy].
  Qed.
  Lemma i_or_b x y : istmt x -> istmt y -> istmt (MOrB x y).
  Proof.
    intros IHx IHy t Ht Hwf Hc. two_children IHx IHy Ht Hwf Hc Hsx Hsy.
    destruct dx; cbn [negb] in Ht; try discriminate. destruct d2; cbn [negb] in Ht; try discriminate.
    destruct bx, b2; try discriminate; inversion Ht; subst; cbn. eapply s_or_b; [exact Hsx | exact Hsy].
  Qed.
  Lemma i_or_c x y : istmt x -> istmt y -> istmt (MOrC x y).
  Proof.
    intros IHx IHy t Ht Hwf Hc. two_children IHx IHy Ht Hwf Hc Hsx Hsy.
    destruct dx; cbn [negb] in Ht; try discriminate. destruct ux; cbn [negb] in Ht; try discriminate.
    destruct bx, b2; try discriminate; inversion Ht; subst; cbn. eapply s_or_c; [exact Hsx | exact Hsy].
  Qed.
  Lemma i_or_d x y : istmt x -> istmt y -> istmt (MOrD x y).
  Proof.
    intros IHx IHy t Ht Hwf Hc. two_children IHx IHy Ht Hwf Hc Hsx Hsy.
    destruct dx; cbn [negb] in Ht; try discriminate. destruct ux; cbn [negb] in Ht; try discriminate.
    destruct bx, b2; try discriminate; inversion Ht; subst; cbn. eapply s_or_d; [exact Hsx | exact Hsy].
  Qed.
  Lemma i_or_i x y : istmt x -> istmt y -> istmt (MOrI x y).
  Proof.
    intros IHx IHy t Ht Hwf Hc. two_children IHx IHy Ht Hwf Hc Hsx Hsy.
    destruct bx, b2; try discriminate; inversion Ht; subst; cbn;
      (apply (s_or_i x y _ ux u2 ix i2); [discriminate | exact Hsx | exact Hsy]).
  Qed.
  Lemma i_andor a b c : istmt a -> istmt b -> istmt c -> istmt (MAndOr a b c).
  Proof.
    intros IHa IHb IHc t Ht Hwf Hc.
    cbn [type_of] in Ht. apply rbind_ok in Ht. destruct Ht as [ta [Ha Ht]].
    apply rbind_ok in Ht. destruct Ht as [tb [Hb Ht]]. apply rbind_ok in Ht. destruct Ht as [tc [Hcc Ht]].
    cbn [iwf icover] in Hwf, Hc. destruct Hwf as [Hwa [Hwb Hwc]]. destruct Hc as [Hca [Hcb Hc3]].
    pose proof (IHa ta Ha Hwa Hca) as Hsa. pose proof (IHb tb Hb Hwb Hcb) as Hsb. pose proof (IHc tc Hcc Hwc Hc3) as Hsc.
    destruct ta as [[ba ia da ua] ma], tb as [[bb ib db ub] mb], tc as [[bc ic dc uc] mc]. unf Ht.
    unfold isound in *. cbn [t_corr c_base c_unit c_input] in *.
    destruct da; cbn [negb] in Ht; try discriminate. destruct ua; cbn [negb] in Ht; try discriminate.
    destruct ba, bb, bc; try discriminate; inversion Ht; subst; cbn;
      (apply (s_andor a b c _ ub uc ia ib ic); [discriminate | exact Hsa | exact Hsb | exact Hsc]).
  Qed.

  (* a W-typed fragment is a:X or s:X, whose input class is "any" *)
  Lemma w_input_any x t : type_of x = ROk t -> c_base (t_corr t) = BW -> c_input (t_corr t) = IAny.
  Proof.
    intros Ht Hb. destruct x; cbn [type_of] in Ht;
      try (inversion Ht; subst; discriminate);
      try (apply rbind_ok in Ht; destruct Ht as [[[b1 i1 d1 u1] m1] [_ Ht]];
           try (apply rbind_ok in Ht; destruct Ht as [[[b2 i2 d2 u2] m2] [_ Ht]]);
           try (apply rbind_ok in Ht; destruct Ht as [[[b3 i3 d3 u3] m3] [_ Ht]]);
           unf Ht;
           repeat match type of Ht with
                  | context [if ?c then _ else _] => destruct c
                  | context [match ?b with BB => _ | BK => _ | BV => _ | BW => _ end] => destruct b
                  | context [match ?i with IZero => _ | IOne => _ | IAny => _ | IOneNonZero => _ | IAnyNonZero => _ end] => destruct i
                  end;
           try discriminate; inversion Ht; subst; cbn in Hb |- *; try discriminate; reflexivity).
    (* thresh *)
    apply rbind_ok in Ht. destruct Ht as [ts [_ Ht]]. unfold t_threshold in Ht.
    destruct (c_threshold _ (map t_corr ts)) as [c|] eqn:Ec; [|discriminate]. inversion Ht; subst.
    unfold c_threshold in Ec. destruct (c_thresh_loop 0 0 (map t_corr ts)); [|discriminate]. inversion Ec; subst.
    discriminate.
  Qed.

  Definition wgt (i : input) : N := match i with IZero => 0 | IOne | IOneNonZero => 1 | _ => 2 end.

  Lemma thresh_loop_rest cs : forall i na n, c_thresh_loop i na cs = ROk n -> i <> 0 ->
    Forall (fun c => c_base c = BW /\ c_unit c = true) cs /\ na <= n /\
    (cs <> [] -> (forall c, In c cs -> c_input c = IAny) -> na + 2 <= n).
  Proof.
    induction cs as [|s r IH]; intros i na n H Hi.
    - inversion H; subst. split; [constructor|]. split; [lia|]. intros E; congruence.
    - cbn [c_thresh_loop] in H. destruct (N.eqb_spec i 0) as [E|_]; [contradiction|]. cbn [andb negb] in H.
      destruct (base_eqb (c_base s) BW) eqn:Eb; cbn [negb] in H; [|discriminate].
      destruct (c_unit s) eqn:Eu; cbn [negb] in H; [|discriminate].
      destruct (c_dissat s); cbn [negb] in H; [|discriminate].
      destruct (IH (i + 1) _ n H ltac:(lia)) as [Hf [Hle Hge]].
      split; [constructor; [split; [destruct (c_base s); cbn in Eb; try discriminate Eb; reflexivity | exact Eu] | exact Hf]|].
      split; [destruct (c_input s); lia|]. intros _ Hall.
      rewrite (Hall s (or_introl eq_refl)) in Hle. lia.
  Qed.

  Lemma i_thresh k xs : Forall istmt xs -> istmt (MThresh k xs).
  Proof.
    intros IH t Ht Hwf Hc. cbn [type_of] in Ht. fold (tys_of xs) in Ht.
    apply rbind_ok in Ht. destruct Ht as [ts [Hts Ht]]. apply tys_of_ok in Hts.
    cbn [iwf icover] in Hwf, Hc. destruct Hwf as [Hk [Hn Hwf]].
    unfold t_threshold in Ht. destruct (c_threshold k (map t_corr ts)) as [c|] eqn:Ec; [|discriminate].
    inversion Ht; subst; clear Ht.
    unfold c_threshold in Ec. destruct (c_thresh_loop 0 0 (map t_corr ts)) as [n|] eqn:El; [|discriminate].
    inversion Ec; subst; clear Ec. unfold isound. cbn [t_corr c_base c_unit c_input].
    destruct xs as [|x0 rest]; [cbn in Hk; lia|].
    inversion Hts as [|? t0 ? ts0 Hx0 Hrest]; subst. inversion IH as [|? ? IH0 IHr]; subst.
    destruct Hwf as [Hw0 Hwr]. destruct Hc as [Hc0 Hcr].
    cbn [map c_thresh_loop] in El. cbn [N.eqb andb negb] in El.
    destruct (base_eqb (c_base (t_corr t0)) BB) eqn:Eb; cbn [negb] in El; [|discriminate].
    destruct (c_unit (t_corr t0)) eqn:Eu; cbn [negb] in El; [|discriminate].
    destruct (c_dissat (t_corr t0)); cbn [negb] in El; [|discriminate].
    assert (Hb0 : c_base (t_corr t0) = BB) by (destruct (c_base (t_corr t0)); try discriminate; reflexivity).
    destruct (thresh_loop_rest _ _ _ _ El ltac:(lia)) as [Hall [Hle Hge]].
    pose proof (IH0 t0 Hx0 Hw0 Hc0) as Hs0. unfold isound in Hs0. rewrite Hb0, Eu in Hs0.
    assert (Hsr : Forall (fun x => sound x BW true IAny) rest /\ (forall c, In c (map t_corr ts0) -> c_input c = IAny)).
    { clear El Hle Hge Hk Hn Hts IH. revert ts0 Hrest Hall Hwr Hcr. induction IHr as [|x r Hx Hr IHr']; intros ts0 Hrest Hall Hwr Hcr.
      - inversion Hrest; subst. split; [constructor | intros c []].
      - inversion Hrest as [|? t1 ? ts1 Hxt Hrt]; subst. cbn [map] in Hall. inversion Hall as [|? ? [Hb1 Hu1] Hall']; subst.
        destruct Hwr as [Hw1 Hwr']. destruct Hcr as [Hc1 Hcr'].
        destruct (IHr' ts1 Hrt Hall' Hwr' Hcr') as [Hf Hin].
        pose proof (w_input_any x t1 Hxt Hb1) as Hi1.
        split.
        + constructor; [|exact Hf]. pose proof (Hx t1 Hxt Hw1 Hc1) as Hs. unfold isound in Hs. rewrite Hb1, Hu1, Hi1 in Hs. exact Hs.
        + intros c [<- | Hc']; [exact Hi1 | apply Hin, Hc']. }
    destruct Hsr as [Hsr Hany].
    pose proof (s_thresh k x0 rest (c_input (t_corr t0)) Hs0 Hsr ltac:(cbn [length] in Hk; lia) ltac:(cbn [length] in Hn; lia)) as Hs.
    assert (Ein : thresh_input (c_input (t_corr t0)) rest = match n with 0 => IZero | 1 => IOne | _ => IAny end).
    { unfold thresh_input. destruct rest as [|y rest'].
      - inversion Hrest; subst. cbn in El. inversion El; subst. destruct (c_input (t_corr t0)); reflexivity.
      - inversion Hrest as [|? t1 ? ts1 _ _]; subst.
        assert (Hge' : 0 + wgt (c_input (t_corr t0)) + 2 <= n).
        { unfold wgt. apply Hge; [discriminate | exact Hany]. }
        destruct n as [|[p|p|]]; try reflexivity; lia. }
    rewrite <- Ein. exact Hs.
  Qed.

  Theorem ieval_sound : forall m, istmt m.
  Proof.
    induction m using ms_ind'; try (intros t Ht Hwf Hc; cbn in Hc; contradiction).
    - intros t Ht _ _. inversion Ht; subst. apply s_true.
    - intros t Ht _ _. inversion Ht; subst. apply s_false.
    - intros t Ht _ _. inversion Ht; subst. apply s_pk_k.
    - intros t Ht _ _. inversion Ht; subst. apply s_pk_h.
    - intros t Ht _ _. inversion Ht; subst. apply s_raw_pk_h.
    - intros ty0 Ht Hwf _. inversion Ht; subst. apply s_after, Hwf.
    - intros ty0 Ht Hwf _. inversion Ht; subst. apply s_older, Hwf.
    - intros t Ht _ _. inversion Ht; subst. apply s_sha256.
    - intros t Ht _ _. inversion Ht; subst. apply s_hash256.
    - intros t Ht _ _. inversion Ht; subst. apply s_ripemd160.
    - intros t Ht _ _. inversion Ht; subst. apply s_hash160.
    - apply i_alt; assumption.
    - apply i_swap; assumption.
    - apply i_check; assumption.
    - apply i_dupif; assumption.
    - apply i_verify; assumption.
    - apply i_nonzero; assumption.
    - apply i_zne; assumption.
    - apply i_and_v; assumption.
    - apply i_and_b; assumption.
    - apply i_andor; assumption.
    - apply i_or_b; assumption.
    - apply i_or_d; assumption.
    - apply i_or_c; assumption.
    - apply i_or_i; assumption.
    - apply i_thresh; assumption.
    - intros t Ht Hwf _. inversion Ht; subst. cbn [iwf] in Hwf. destruct Hwf as [Htap [Hk Hn]].
      unfold isound. cbn [t_multi t_corr c_multi c_base c_unit c_input].
      apply (s_multi_gen (MMulti k ks) k ks); try reflexivity; assumption.
    - intros t Ht Hwf _. inversion Ht; subst. cbn [iwf] in Hwf. destruct Hwf as [Htap [Hk Hn]].
      unfold isound. cbn [t_multi_a t_corr c_multi_a c_base c_unit c_input].
      apply (s_multi_a_gen (MMultiA k ks) k ks); try reflexivity; try assumption.
      + destruct ks; [cbn in Hk; lia | discriminate].
      + lia.
  Qed.

  (* the witness-script form: the recursive evaluator accepting implies the script accepts *)
  Theorem interp_rec_sound m t items cs :
    type_of m = ROk t -> c_base (t_corr t) = BB -> iwf m -> icover m ->
    Forall (fun b => blen b < 2147483648) items ->
    interp_rec e ke kp m (astack_of_items items) = IAccept cs ->
    accepts e (enc ke m) (rev items) = true.
  Proof.
    intros Ht Hb Hwf Hc Hsz H. unfold interp_rec in H.
    destruct (ev m (astack_of_items items)) as [st' cs'|er cs'|n] eqn:Ev; try discriminate.
    assert (Hok : Forall okelem (astack_of_items items)).
    { unfold astack_of_items. apply Forall_rev. apply Forall_forall. intros x Hx.
      apply in_map_iff in Hx. destruct Hx as [b [<- Hin]]. rewrite Forall_forall in Hsz. specialize (Hsz b Hin).
      unfold elem_of. destruct b as [|a [|a' b']]; cbn; auto.
      - destruct (a =? 1); cbn; [exact I | split; [discriminate | exact Hsz]].
      - split; [discriminate | exact Hsz]. }
    pose proof (ieval_sound m t Ht Hwf Hc) as Hs. unfold isound in Hs. rewrite Hb in Hs.
    destruct (Hs _ _ _ Hok Ev) as [w [r [Hst [_ [x0 [-> Hp]]]]]].
    unfold final_rule in H. destruct x0; try discriminate. destruct r; [|discriminate].
    destruct (Hp [] []) as [v [Hr Ho]]. destruct Ho as [[_ [Htr _]]|[Hd _]]; [|discriminate].
    assert (Hconc : C (astack_of_items items) = rev items).
    { unfold C, astack_of_items. rewrite map_rev, map_map. f_equal.
      rewrite <- (map_id items) at 2. apply map_ext. intros b. unfold elem_of.
      destruct b as [|a [|a' b']]; cbn; try reflexivity. destruct (N.eqb_spec a 1); subst; reflexivity. }
    rewrite Hst, app_nil_r in Hconc. rewrite app_nil_r, Hconc in Hr.
    unfold accepts. rewrite Hr. cbn. exact Htr.
  Qed.


  (* ================================================================ traces *)
  (* the checks of the executed path are exactly the reported constraints, in order *)
  Definition trok (t : list event) (cs : list constr) : Prop :=
    hstart t = false /\ hend t = false /\ checks t = map check_of cs.

  Notation trc m st := (tr_script e (enc ke m) st).

  Lemma trok_nil : trok [] []. Proof. repeat split. Qed.
  Lemma hstart_app t1 t2 : hstart t1 = false -> hstart t2 = false -> hstart (t1 ++ t2) = false.
  Proof. destruct t1 as [|x r]; cbn; auto. Qed.
  Lemma hend_app' t1 t2 : hend t1 = false -> hend t2 = false -> hend (t1 ++ t2) = false.
  Proof. intros H1 H2. destruct t2 as [|y z]; [rewrite app_nil_r; exact H1 | rewrite hend_app by discriminate; exact H2]. Qed.
  Lemma trok_app t1 t2 c1 c2 : trok t1 c1 -> trok t2 c2 -> trok (t1 ++ t2) (c1 ++ c2).
  Proof.
    intros [S1 [E1 K1]] [S2 [E2 K2]]. split; [apply hstart_app; assumption|]. split; [apply hend_app'; assumption|].
    rewrite checks_app, map_app, K1, K2 by assumption. reflexivity.
  Qed.
  Lemma trok_quiet t : (forall ev, In ev t -> match ev with TEq _ | TNeq | TDup => True | _ => False end) ->
    hend t = false -> (forall kd p d r, t <> TDup :: THash kd p d :: r) -> trok t [].
  Proof.
    intros Hq He _. split; [destruct t as [|x r]; [reflexivity|]; specialize (Hq x (or_introl eq_refl)); destruct x; try contradiction; reflexivity|].
    split; [exact He|]. clear He. induction t as [|x r IH]; [reflexivity|].
    assert (Hr : forall ev, In ev r -> match ev with TEq _ | TNeq | TDup => True | _ => False end) by (intros ev Hin; apply Hq; right; exact Hin).
    specialize (Hq x (or_introl eq_refl)). destruct x; try contradiction; cbn [checks]; try (apply IH, Hr).
    destruct r as [|y z]; [reflexivity|]. pose proof (Hr y (or_introl eq_refl)) as Hy. destruct y; try contradiction; apply IH, Hr.
  Qed.

  Definition sigev (kbs s : bytes) : list event := if nonempty s then [TSig kbs s] else [].

  (* trace side of the posts; every clause is for the split [st = w ++ r] that the state-level post holds for *)
  Definition tpost (b : base) (m : ms) (w : astack) (cs : list constr) : Prop :=
    match b with
    | BB | BV => forall rest al, trok (trc m (mkSt (C w ++ rest) al)) cs
    | BW => forall c rest al, trok (trc m (mkSt (c :: C w ++ rest) al)) cs
    | BK => forall rest al kbs s, run m (mkSt (C w ++ rest) al) = Ok (mkSt (kbs :: s :: rest) al) ->
                                  trok (trc m (mkSt (C w ++ rest) al) ++ sigev kbs s) cs
    end.

  Definition tsound (m : ms) (b : base) (u : bool) : Prop :=
    forall st st' cs, Forall okelem st -> ev m st = XOk st' cs ->
      forall w r, st = w ++ r -> post b m u w r st' -> tpost b m w cs.

  Lemma app_same_tail {A} (a b r : list A) : a ++ r = b ++ r -> a = b.
  Proof. apply app_inv_tail. Qed.

  (* ---------------------------------------------------------------- leaves *)
  Lemma t_true : tsound MTrue BB true.
  Proof. intros st st' cs _ H w r _ _ rest al. cbn in H. inversion H; subst. apply trok_nil. Qed.
  Lemma t_false : tsound MFalse BB true.
  Proof. intros st st' cs _ H w r _ _ rest al. cbn in H. inversion H; subst. apply trok_nil. Qed.

  Lemma trok_sig k s : s <> [] -> trok [TSig k s] [CsPk k s].
  Proof. intros Hs. repeat split. Qed.

  Lemma t_pk_k k : tsound (MPkK k) BK true.
  Proof.
    intros st st' cs Hok H w r Hst [x0 [-> _]] rest al kbs s Hrun. cbn [ieval] in H. unfold evaluate_pk in H.
    cbn [enc tr_script tr_instr exec_instr app] in *.
    destruct st as [|[| |sg] r0]; cbn in H; try discriminate.
    - inversion H; subst. apply (app_same_tail [EDis] w) in Hst. subst w.
      cbn in Hrun. inversion Hrun; subst. apply trok_nil.
    - destruct (e_sigok e (kb ke k) sg) eqn:Es; cbn in H; [|discriminate]. inversion H; subst.
      apply (app_same_tail [EPush sg] w) in Hst. subst w. cbn in Hrun. inversion Hrun; subst.
      inversion Hok as [|? ? Hx _]; subst. cbn in Hx. destruct Hx as [Hne _].
      unfold sigev. destruct s as [|b0 s']; [congruence|]. cbn [nonempty app]. repeat split.
  Qed.


  Lemma tr_push_int z st : tr_instr e (push_int z) st = [].
  Proof. unfold push_int. destruct (z =? 0)%Z; [reflexivity|]. destruct (_ || _); reflexivity. Qed.

  Lemma bytes_eqb_true a b : bytes_eqb a b = true -> a = b.
  Proof. apply bytes_eqb_eq. Qed.

  Lemma t_pkh_gen (m : ms) (h : bytes) :
    enc ke m = [IOp OP_DUP; IOp OP_HASH160; IPush h; IOp OP_EQUALVERIFY] ->
    (forall st, ev m st = x_of_ev (evaluate_pkh e kp h st)) ->
    tsound m BK true.
  Proof.
    intros Henc Hev st st' cs Hok H w r Hst [x0 [-> _]] rest al kbs s Hrun. rewrite Hev in H. unfold evaluate_pkh in H.
    destruct st as [|[| |pk] r0]; cbn in H; try discriminate.
    destruct (bytes_eqb (e_hash160 e pk) h) eqn:Eh; cbn in H; [|discriminate].
    destruct (kp pk) eqn:Ekp; cbn in H; [|discriminate].
    assert (Htr : forall sg, tr_script e (enc ke m) (mkSt (pk :: sg :: rest) al)
                  = [TDup; THash KHash160 pk (e_hash160 e pk); TEq h]).
    { intros sg. rewrite Henc. cbn. rewrite bytes_eqb_sym, Eh. reflexivity. }
    assert (Hex : forall sg, exec e (enc ke m) (mkSt (pk :: sg :: rest) al) = Ok (mkSt (pk :: sg :: rest) al)).
    { intros sg. rewrite Henc. cbn. rewrite bytes_eqb_sym, Eh. reflexivity. }
    destruct r0 as [|[| |sg] r']; cbn in H; try discriminate.
    - inversion H; subst. apply (app_same_tail [EPush pk; EDis] w) in Hst. subst w.
      cbn [C map conc app] in *. rewrite Hex in Hrun. inversion Hrun; subst. rewrite Htr. unfold sigev. cbn [nonempty app].
      split; [reflexivity|]. split; [reflexivity|]. cbn [checks is_h160 andb]. rewrite Eh. reflexivity.
    - destruct (e_sigok e pk sg) eqn:Es; cbn in H; [|discriminate]. inversion H; subst.
      apply (app_same_tail [EPush pk; EPush sg] w) in Hst. subst w.
      cbn [C map conc app] in *. rewrite Hex in Hrun. inversion Hrun; subst. rewrite Htr.
      inversion Hok as [|? ? _ Hok']; subst. inversion Hok' as [|? ? Hx _]; subst. cbn in Hx. destruct Hx as [Hne _].
      unfold sigev. destruct s as [|b0 s']; [congruence|]. cbn [nonempty app].
      split; [reflexivity|]. split; [reflexivity|]. cbn [checks is_h160 andb]. rewrite Eh. reflexivity.
  Qed.

  Lemma t_after t : iwf (MAfter t) -> tsound (MAfter t) BB false.
  Proof.
    intros Hwf st st' cs _ H w r Hst [x0 [-> _]] rest al. cbn in Hwf. cbn [ieval] in H. unfold evaluate_after in H.
    destruct (e_sequence e =? SEQ_FINAL); cbn in H; [discriminate|].
    destruct (Bool.eqb _ _); cbn in H; [|discriminate]. destruct (t <=? e_locktime e); cbn in H; [|discriminate].
    assert (Er : st = r) by congruence. assert (Ec : cs = [CsAfter t]) by congruence. subst cs.
    rewrite Er in Hst. apply (app_same_tail [] w) in Hst. subst w.
    cbn [enc C map app]. rewrite tr_script_cons, tr_push_int, exec_push_int'. cbn [app stk alt tr_script tr_instr op_events].
    rewrite Hnum5 by lia. rewrite N2Z.id. cbn [app]. destruct (exec_instr e (IOp OP_CLTV) _); repeat split.
  Qed.

  Lemma t_older t : iwf (MOlder t) -> tsound (MOlder t) BB false.
  Proof.
    intros Hwf st st' cs _ H w r Hst [x0 [-> _]] rest al. cbn in Hwf. cbn [ieval] in H.
    destruct (negb (N.land t SEQ_DISABLE =? 0)) eqn:Ed; [discriminate|]. apply negb_false_iff in Ed.
    unfold evaluate_older in H. destruct (e_txversion e <? 2); cbn in H; [discriminate|].
    destruct (negb _); cbn in H; [discriminate|]. destruct (_ && _); cbn in H; [|discriminate].
    assert (Er : st = r) by congruence. assert (Ec : cs = [CsOlder t]) by congruence. subst cs.
    rewrite Er in Hst. apply (app_same_tail [] w) in Hst. subst w.
    cbn [enc C map app]. rewrite tr_script_cons, tr_push_int, exec_push_int'. cbn [app stk alt tr_script tr_instr op_events].
    rewrite Hnum5 by lia. rewrite N2Z.id, Ed. cbn [app]. destruct (exec_instr e (IOp OP_CSV) _); repeat split.
  Qed.

  Lemma t_hash_gen (m : ms) (kd : ihk) (o : opcode) (h : bytes) :
    enc ke m = hash_frag o h ->
    (forall v r al, exec_op e o (mkSt (v :: r) al) = Ok (mkSt (hash_of e kd v :: r) al)) ->
    (forall v r al, op_events e o (mkSt (v :: r) al) = [THash kd v (hash_of e kd v)]) ->
    (forall st, ev m st = x_of_ev (evaluate_hash e kd h st)) ->
    tsound m BB true.
  Proof.
    intros Henc Hop Hevt Hev st st' cs Hok H w r Hst [x0 [-> _]] rest al. rewrite Hev in H. unfold evaluate_hash in H.
    destruct st as [|[| |p] r0]; cbn in H; try discriminate.
    destruct (blen p =? 32) eqn:El; cbn in H; [|discriminate]. apply N.eqb_eq in El.
    assert (Htr : tr_script e (enc ke m) (mkSt (p :: rest) al)
                  = [TEq (num_encode 32); THash kd p (hash_of e kd p)]
                    ++ (if bytes_eqb (hash_of e kd p) h then [TEq h] else [TNeq])).
    { rewrite Henc. unfold hash_frag. rewrite tr_script_cons. cbn [tr_instr op_events exec_instr exec_op stk alt app].
      rewrite El. rewrite tr_script_cons, tr_push_int, exec_push_int'. cbn [app stk alt].
      rewrite tr_script_cons. cbn [tr_instr op_events exec_instr exec_op stk alt]. rewrite bytes_eqb_refl. cbn [app].
      rewrite tr_script_cons. cbn [tr_instr exec_instr]. rewrite Hevt, Hop. cbn [app].
      cbn [tr_script tr_instr op_events exec_instr exec_op stk alt app]. rewrite (bytes_eqb_sym h).
      destruct (bytes_eqb (hash_of e kd p) h); reflexivity. }
    destruct (bytes_eqb (hash_of e kd p) h) eqn:Eh; cbn in H; inversion H; subst.
    - apply (app_same_tail [EPush p] w) in Hst. subst w. cbn [C map conc app]. rewrite Htr.
      split; [reflexivity|]. split; [reflexivity|]. cbn [app checks map check_of]. rewrite Eh.
      apply bytes_eqb_true in Eh. rewrite Eh. reflexivity.
    - apply (app_same_tail [EPush p] w) in Hst. subst w. cbn [C map conc app]. rewrite Htr.
      split; [reflexivity|]. split; reflexivity.
  Qed.

  (* ---------------------------------------------------------------- trace algebra *)
  Lemma tr_quiet_tail s o st : (forall st', op_events e o st' = []) ->
    tr_script e (s ++ [IOp o]) st = tr_script e s st.
  Proof.
    intros Hq. rewrite tr_script_app. destruct (exec e s st) as [st1|]; [|apply app_nil_r].
    cbn [tr_script tr_instr]. rewrite Hq. destruct (exec_instr e (IOp o) st1); cbn; rewrite app_nil_r; reflexivity.
  Qed.

  Lemma trok_dup t cs : trok t cs -> trok (TDup :: t) cs.
  Proof.
    intros [S1 [E1 K1]]. split; [reflexivity|]. split.
    - destruct t as [|y z]; [reflexivity | exact E1].
    - cbn [checks]. destruct t as [|y z]; [exact K1|]. destruct y; try exact K1. discriminate.
  Qed.
  Lemma trok_snoc_eq t cs v : trok t cs -> trok (t ++ [TEq v]) cs.
  Proof. intros H. rewrite <- (app_nil_r cs). apply trok_app; [exact H | repeat split]. Qed.
  Lemma trok_snoc_neq t cs : trok t cs -> trok (t ++ [TNeq]) cs.
  Proof. intros H. rewrite <- (app_nil_r cs). apply trok_app; [exact H | repeat split]. Qed.

  (* the fused *VERIFY opcodes leave the same events as opcode + VERIFY when the verify passes *)
  Lemma tr_push_verify s : forall st st', exec e (push_verify s) st = Ok st' ->
    tr_script e (push_verify s) st = tr_script e s st.
  Proof.
    induction s as [|i r IH]; intros st st' H.
    - cbn [push_verify tr_script tr_instr op_events app]. destruct (exec_instr e (IOp OP_VERIFY) st); reflexivity.
    - destruct r as [|j r'].
      + destruct i as [b|n|o|neg t el]; cbn [push_verify] in *;
          try (cbn [tr_script tr_instr app]; destruct (exec_instr e _ st) as [s1|]; [|reflexivity];
               cbn [tr_script tr_instr op_events app]; destruct (exec_instr e (IOp OP_VERIFY) s1); reflexivity).
        destruct (verify_form o) as [o'|] eqn:Ev.
        * cbn [tr_script tr_instr]. cbn [exec exec_instr] in H.
          assert (Hevs : op_events e o' st = op_events e o st).
          { destruct o; cbn [verify_form] in Ev; inversion Ev; subst; try reflexivity.
            destruct st as [s a]. cbn [exec_op op_events stk alt bind] in *.
            destruct s as [|x [|y z]]; try discriminate H; try reflexivity.
            destruct (bytes_eqb x y); [reflexivity | discriminate H]. }
          rewrite Hevs. destruct (exec_instr e (IOp o') st); destruct (exec_instr e (IOp o) st); reflexivity.
        * cbn [tr_script tr_instr app]. destruct (exec_instr e (IOp o) st) as [s1|]; [|reflexivity].
          cbn [tr_script tr_instr op_events app]. destruct (exec_instr e (IOp OP_VERIFY) s1); reflexivity.
      + assert (Hpv : push_verify (i :: j :: r') = i :: push_verify (j :: r')) by (destruct i; reflexivity).
        rewrite Hpv in *. rewrite !tr_script_cons. rewrite exec_cons in H.
        destruct (exec_instr e i st) as [s1|]; [|reflexivity]. cbn [bind] in H. rewrite (IH s1 st' H). reflexivity.
  Qed.


  (* ---------------------------------------------------------------- wrappers *)
  Lemma same_split (st w r w' r' : astack) : st = w ++ r -> st = w' ++ r' -> r' = r -> w' = w.
  Proof. intros -> H ->. symmetry. exact (app_same_tail _ _ _ H). Qed.

  Lemma t_alt x u i : sound x BB u i -> tsound x BB u -> tsound (MAlt x) BW u.
  Proof.
    intros Hs Ht st st' cs Hok H w r Hst [x0 [-> _]] c rest al. cbn [ieval] in H.
    destruct (Hs st _ cs Hok H) as [w' [r' [Hst' [_ Hp']]]]. pose proof Hp' as [x1 [E _]]. inversion E; subst x1 r'.
    rewrite (same_split _ _ _ _ _ Hst Hst' eq_refl) in *.
    cbn [enc]. rewrite tr_script_app. cbn [tr_script tr_instr op_events exec exec_instr exec_op stk alt bind app].
    rewrite tr_quiet_tail by reflexivity. apply (Ht st _ cs Hok H w r Hst Hp').
  Qed.

  Lemma t_swap x u i : (i = IOne \/ i = IOneNonZero) -> sound x BB u i -> tsound x BB u -> tsound (MSwap x) BW u.
  Proof.
    intros Hi Hs Ht st st' cs Hok H w r Hst [x0 [-> _]] c rest al. cbn [ieval] in H.
    destruct (Hs st _ cs Hok H) as [w' [r' [Hst' [Hsh Hp']]]]. pose proof Hp' as [x1 [E _]]. inversion E; subst x1 r'.
    rewrite (same_split _ _ _ _ _ Hst Hst' eq_refl) in *.
    assert (Hl : length w = 1%nat) by (destruct Hi as [-> | ->]; exact Hsh).
    destruct w as [|a [|b w'']]; try discriminate.
    cbn [enc app C map]. rewrite tr_script_cons. cbn [tr_instr op_events exec_instr exec_op stk alt app].
    apply (Ht _ _ cs Hok H [a] r Hst Hp' (c :: rest) al).
  Qed.

  Lemma t_check x u i : sound x BK u i -> tsound x BK u -> tsound (MCheck x) BB true.
  Proof.
    intros Hs Ht st st' cs Hok H w r Hst [x0 [-> _]] rest al. cbn [ieval] in H.
    destruct (Hs st _ cs Hok H) as [w' [r' [Hst' [_ Hp']]]]. pose proof Hp' as [x1 [E Hpk]]. inversion E; subst x1 r'.
    rewrite (same_split _ _ _ _ _ Hst Hst' eq_refl) in *.
    destruct (Hpk rest al) as [kbs [s [Hr _]]].
    cbn [enc]. rewrite tr_script_app, Hr. cbn [tr_script tr_instr op_events stk].
    pose proof (Ht st _ cs Hok H w r Hst Hp' rest al kbs s Hr) as Hk. unfold sigev in Hk.
    destruct (exec_instr e (IOp OP_CHECKSIG) _); rewrite app_nil_r; exact Hk.
  Qed.

  Lemma t_dupif x u : sound x BV u IZero -> tsound x BV u -> tsound (MDupIf x) BB false.
  Proof.
    intros Hs Ht st st' cs Hok H w r Hst [x0 [-> _]] rest al. cbn [ieval] in H. apply xpop_ok in H.
    destruct H as [[r0 [-> H]]|[r0 [-> H]]].
    - apply xbind_ok in H. destruct H as [s1 [c1 [c2 [Hx [Hf ->]]]]].
      assert (Es : s1 = r /\ c2 = [] /\ x0 = ESat) by (inversion Hf; auto). destruct Es as [-> [-> ->]]. rewrite app_nil_r.
      inversion Hok as [|? ? _ Hok0]; subst.
      destruct (Hs r0 r c1 Hok0 Hx) as [w' [r' [Hr0 [Hsh Hp']]]]. cbn in Hsh. subst w'. cbn [app] in Hr0. subst r0.
      pose proof Hp' as [E _]. subst r'. apply (app_same_tail [ESat] w) in Hst. subst w.
      cbn [enc app C map conc]. rewrite tr_script_cons. cbn [tr_instr op_events exec_instr exec_op stk alt].
      rewrite tr_script_cons, tr_if. cbn [stk alt]. rewrite if_cond_one'. cbn [xorb app].
      match goal with |- trok (TDup :: ?t ++ ?u) _ => replace u with (@nil event) by (destruct (exec_instr e _ _); reflexivity) end.
      rewrite app_nil_r. apply trok_dup. exact (Ht r r c1 Hok0 Hx [] r eq_refl Hp' ([1] :: rest) al).
    - inversion H; subst. apply (app_same_tail [EDis] w) in Hst. subst w.
      cbn [enc app C map conc]. rewrite tr_script_cons. cbn [tr_instr op_events exec_instr exec_op stk alt].
      rewrite tr_script_cons, tr_if. cbn [stk alt]. rewrite if_cond_empty'. cbn [xorb app].
      match goal with |- trok (TDup :: ?u) _ => replace u with (@nil event) by (destruct (exec_instr e _ _); reflexivity) end.
      repeat split.
  Qed.

  Lemma t_verify x u i : sound x BB u i -> tsound x BB u -> tsound (MVerify x) BV false.
  Proof.
    intros Hs Ht st st' cs Hok H w r Hst [-> Hpv] rest al. cbn [ieval] in H. apply xbind_ok in H.
    destruct H as [s1 [c1 [c2 [Hx [Hf ->]]]]].
    destruct (Hs st s1 c1 Hok Hx) as [w' [r' [Hst' [_ Hp']]]]. pose proof Hp' as [x1 [-> _]].
    destruct x1; try discriminate.
    assert (Es : r' = r /\ c2 = []) by (inversion Hf; auto). destruct Es as [-> ->]. rewrite app_nil_r.
    rewrite (same_split _ _ _ _ _ Hst Hst' eq_refl) in *.
    pose proof (Hpv rest al) as Hr. cbn [enc] in Hr |- *. rewrite (tr_push_verify (enc ke x) _ _ Hr).
    apply (Ht _ _ c1 Hok Hx w r Hst Hp').
  Qed.

  Lemma t_zne x u i : sound x BB u i -> tsound x BB u -> tsound (MZeroNotEqual x) BB true.
  Proof.
    intros Hs Ht st st' cs Hok H w r Hst [x0 [-> _]] rest al. cbn [ieval] in H. apply xbind_ok in H.
    destruct H as [s1 [c1 [c2 [Hx [Hf ->]]]]].
    destruct (Hs st s1 c1 Hok Hx) as [w' [r' [Hst' [_ Hp']]]]. pose proof Hp' as [x1 [-> _]].
    assert (Hr : r' = r /\ c2 = []) by (destruct x1; inversion Hf; subst; auto). destruct Hr as [-> ->]. rewrite app_nil_r.
    rewrite (same_split _ _ _ _ _ Hst Hst' eq_refl) in *.
    cbn [enc]. rewrite tr_quiet_tail by reflexivity. apply (Ht _ _ c1 Hok Hx w r Hst Hp').
  Qed.

  Lemma t_nonzero x u i : (i = IOneNonZero \/ i = IAnyNonZero) -> sound x BB u i -> tsound x BB u -> tsound (MNonZero x) BB u.
  Proof.
    intros Hi Hs Ht st st' cs Hok H w r Hst [x0 [-> _]] rest al. cbn [ieval] in H.
    destruct st as [|a r0]; [discriminate|].
    assert (Hdis : a = EDis \/ a <> EDis) by (destruct a; [right|left|right]; congruence || reflexivity).
    destruct Hdis as [-> | Hn].
    - inversion H; subst. apply (app_same_tail [EDis] w) in Hst. subst w.
      cbn [enc app C map conc]. rewrite tr_script_cons. cbn [tr_instr op_events exec_instr exec_op stk alt app blen length].
      rewrite tr_script_cons. cbn [tr_instr op_events exec_instr exec_op stk alt app]. cbn.
      rewrite if_cond_empty'. cbn. repeat split.
    - assert (H' : ev x (a :: r0) = XOk (x0 :: r) cs) by (destruct a; [exact H | congruence | exact H]).
      destruct (Hs (a :: r0) _ cs Hok H') as [w' [r' [Hst' [Hsh Hp']]]]. pose proof Hp' as [x1 [E _]]. inversion E; subst x1 r'.
      rewrite (same_split _ _ _ _ _ Hst Hst' eq_refl) in *.
      assert (Hw : w <> []) by (destruct Hi as [-> | ->]; cbn in Hsh; [destruct w; [discriminate | congruence] | exact Hsh]).
      destruct w as [|a' w'']; [congruence|]. cbn [app] in Hst. inversion Hst; subst a' r0.
      pose proof (Forall_inv Hok) as Ha. pose proof (okelem_top_nz a Ha Hn) as Hlen.
      cbn [enc app C map]. rewrite tr_script_cons. cbn [tr_instr op_events exec_instr exec_op stk alt app].
      rewrite tr_script_cons. cbn [tr_instr op_events exec_instr exec_op stk alt app]. rewrite Hnum4 by lia.
      replace (Z.of_N (blen (conc a)) =? 0)%Z with false by (symmetry; apply Z.eqb_neq; lia). cbn [negb bool_bytes].
      rewrite tr_script_cons, tr_if. cbn [stk alt]. rewrite if_cond_one'. cbn [xorb].
      match goal with |- trok (?t ++ ?u) _ => replace u with (@nil event) by (destruct (exec_instr e _ _); reflexivity) end.
      rewrite app_nil_r. exact (Ht _ _ cs Hok H' (a :: w'') r eq_refl Hp' rest al).
  Qed.


  (* ---------------------------------------------------------------- binary / ternary *)
  Definition tail_of (b : base) (st' r : astack) : Prop :=
    match b with BV => st' = r | _ => exists x, st' = x :: r end.
  Lemma post_tail b m u w r st' : post b m u w r st' -> tail_of b st' r.
  Proof. destruct b; cbn [post tail_of]; [intros [x [E _]] | intros [x [E _]] | intros [E _] | intros [x [E _]]]; eauto. Qed.
  Lemma tail_unique b st' r r' : tail_of b st' r -> tail_of b st' r' -> r' = r.
  Proof. destruct b; cbn; [intros [x ->] [y E] | intros [x ->] [y E] | intros -> E | intros [x ->] [y E]]; congruence. Qed.

  (* a V prefix followed by Y: traces concatenate (B, V: tpost on the same rest; K: with the final sigev) *)
  Lemma t_and_v x y b ux uy ix iy : b <> BW ->
    sound x BV ux ix -> tsound x BV ux -> sound y b uy iy -> tsound y b uy -> tsound (MAndV x y) b uy.
  Proof.
    intros Hb Hsx Htx Hsy Hty st st' cs Hok H w r Hst Hp. cbn [ieval] in H. apply xbind_ok in H.
    destruct H as [s1 [c1 [c2 [Hx [Hy ->]]]]].
    destruct (Hsx st s1 c1 Hok Hx) as [wx [r1 [Hst1 [_ Hpx]]]]. pose proof Hpx as [E Hrx]. subst s1.
    assert (Hok1 : Forall okelem r1) by (rewrite Hst1 in Hok; exact (Forall_app_r _ _ _ Hok)).
    destruct (Hsy r1 st' c2 Hok1 Hy) as [wy [r2 [Hst2 [_ Hpy]]]].
    assert (Er : r2 = r) by (apply (tail_unique b st'); [apply (post_tail _ _ _ _ _ _ Hp) | apply (post_tail _ _ _ _ _ _ Hpy)]).
    subst r2. assert (Ew : w = wx ++ wy).
    { apply (app_same_tail _ _ r). rewrite <- app_assoc, <- Hst2, <- Hst1. symmetry. exact Hst. }
    subst w. pose proof (Htx st r1 c1 Hok Hx wx r1 Hst1 Hpx) as Tx. pose proof (Hty r1 st' c2 Hok1 Hy wy r Hst2 Hpy) as Ty.
    assert (Htr : forall rest al, trc (MAndV x y) (mkSt (C (wx ++ wy) ++ rest) al)
                   = trc x (mkSt (C wx ++ (C wy ++ rest)) al) ++ trc y (mkSt (C wy ++ rest) al)).
    { intros rest al. cbn [enc]. rewrite tr_script_app, C_app, <- app_assoc, Hrx. reflexivity. }
    destruct b; cbn [tpost] in *; try contradiction.
    - intros rest al. rewrite Htr. apply trok_app; [apply Tx | apply Ty].
    - intros rest al kbs s Hrun. rewrite Htr, <- app_assoc. apply trok_app; [apply Tx|]. apply Ty.
      cbn [enc] in Hrun. rewrite exec_app, C_app, <- app_assoc, Hrx in Hrun. exact Hrun.
    - intros rest al. rewrite Htr. apply trok_app; [apply Tx | apply Ty].
  Qed.

  Lemma t_and_b x y ux uy ix iy :
    sound x BB ux ix -> tsound x BB ux -> sound y BW uy iy -> tsound y BW uy -> tsound (MAndB x y) BB true.
  Proof.
    intros Hsx Htx Hsy Hty st st' cs Hok H w r Hst Hp rest al. cbn [ieval] in H. apply xbind_ok in H.
    destruct H as [s1 [c1 [c2 [Hx [Hf ->]]]]].
    destruct (Hsx st s1 c1 Hok Hx) as [wx [r1 [Hst1 [_ Hpx]]]]. pose proof Hpx as [x0 [E Hrx]]. subst s1.
    assert (Hok1 : Forall okelem r1) by (rewrite Hst1 in Hok; exact (Forall_app_r _ _ _ Hok)).
    assert (Hy : exists s2 cy, ev y r1 = XOk s2 cy /\ c2 = cy /\ exists y0 r2 z0, s2 = y0 :: r2 /\ st' = z0 :: r2).
    { apply xpop_ok in Hf. destruct Hf as [[r0 [E Hf]]|[r0 [E Hf]]]; inversion E; subst; clear E;
        apply xbind_ok in Hf; destruct Hf as [s2 [cy [c3 [Hy [Hf ->]]]]]; exists s2, cy; (split; [exact Hy|]);
        destruct s2 as [|y0 r2]; try discriminate; inversion Hf; subst; (split; [apply app_nil_r|]); eauto. }
    destruct Hy as [s2 [cy [Hy [-> [y0 [r2 [z0 [-> Est']]]]]]]].
    destruct (Hsy r1 _ cy Hok1 Hy) as [wy [r2' [Hst2 [_ Hpy]]]]. pose proof Hpy as [y1 [E Hry]]. inversion E; subst y1 r2'.
    destruct Hp as [z1 [E' _]]. rewrite Est' in E'. inversion E'; subst z1 r2.
    assert (Ew : w = wx ++ wy).
    { apply (app_same_tail _ _ r). rewrite <- app_assoc, <- Hst2, <- Hst1. symmetry. exact Hst. }
    subst w. destruct (Hrx (C wy ++ rest) al) as [vx [Hex _]].
    cbn [enc]. rewrite tr_script_app, C_app, <- app_assoc, Hex. rewrite tr_quiet_tail by reflexivity.
    apply trok_app; [apply (Htx st _ c1 Hok Hx wx r1 Hst1 Hpx) | apply (Hty r1 _ cy Hok1 Hy wy r Hst2 Hpy)].
  Qed.

  Lemma t_or_b x y ux uy ix iy :
    sound x BB ux ix -> tsound x BB ux -> sound y BW uy iy -> tsound y BW uy -> tsound (MOrB x y) BB true.
  Proof.
    intros Hsx Htx Hsy Hty st st' cs Hok H w r Hst Hp rest al. cbn [ieval] in H. apply xbind_ok in H.
    destruct H as [s1 [c1 [c2 [Hx [Hf ->]]]]].
    destruct (Hsx st s1 c1 Hok Hx) as [wx [r1 [Hst1 [_ Hpx]]]]. pose proof Hpx as [x0 [E Hrx]]. subst s1.
    assert (Hok1 : Forall okelem r1) by (rewrite Hst1 in Hok; exact (Forall_app_r _ _ _ Hok)).
    assert (Hy : exists s2 cy, ev y r1 = XOk s2 cy /\ c2 = cy /\ exists y0 r2 z0, s2 = y0 :: r2 /\ st' = z0 :: r2).
    { apply xpop_ok in Hf. destruct Hf as [[r0 [E Hf]]|[r0 [E Hf]]]; inversion E; subst; clear E;
        apply xbind_ok in Hf; destruct Hf as [s2 [cy [c3 [Hy [Hf ->]]]]]; exists s2, cy; (split; [exact Hy|]);
        destruct s2 as [|y0 r2]; try discriminate; inversion Hf; subst; (split; [apply app_nil_r|]); eauto. }
    destruct Hy as [s2 [cy [Hy [-> [y0 [r2 [z0 [-> Est']]]]]]]].
    destruct (Hsy r1 _ cy Hok1 Hy) as [wy [r2' [Hst2 [_ Hpy]]]]. pose proof Hpy as [y1 [E Hry]]. inversion E; subst y1 r2'.
    destruct Hp as [z1 [E' _]]. rewrite Est' in E'. inversion E'; subst z1 r2.
    assert (Ew : w = wx ++ wy).
    { apply (app_same_tail _ _ r). rewrite <- app_assoc, <- Hst2, <- Hst1. symmetry. exact Hst. }
    subst w. destruct (Hrx (C wy ++ rest) al) as [vx [Hex _]].
    cbn [enc]. rewrite tr_script_app, C_app, <- app_assoc, Hex. rewrite tr_quiet_tail by reflexivity.
    apply trok_app; [apply (Htx st _ c1 Hok Hx wx r1 Hst1 Hpx) | apply (Hty r1 _ cy Hok1 Hy wy r Hst2 Hpy)].
  Qed.


  (* X then [pre] NOTIF Z ENDIF; [pre] is IFDUP (or_d, dup = true) or nothing (or_c) *)
  Lemma t_or_cd (m x z : ms) (pre : script) (dup : bool) (b : base) uz ix iz :
    enc ke m = enc ke x ++ pre ++ [IIf true (enc ke z) None] ->
    (forall st, ev m st = xbind (ev x st) (fun s1 => xpop_bool s1 (fun r1 => match b with BV => XOk r1 [] | _ => XOk (ESat :: r1) [] end) (ieval e ke kp z))) ->
    (forall v rest al, exec e pre (mkSt (v :: rest) al)
                       = Ok (mkSt ((if dup && truthy v then [v] else []) ++ v :: rest) al) /\ tr_script e pre (mkSt (v :: rest) al) = []) ->
    (b = BV \/ b = BB) ->
    sound x BB true ix -> tsound x BB true -> sound z b uz iz -> tsound z b uz -> tsound m b uz.
  Proof.
    intros Henc Hev Hpre Hb Hsx Htx Hsz Htz st st' cs Hok H w r Hst Hp. rewrite Hev in H. apply xbind_ok in H.
    destruct H as [s1 [c1 [c2 [Hx [Hf ->]]]]].
    destruct (Hsx st s1 c1 Hok Hx) as [wx [r1 [Hst1 [_ Hpx]]]]. pose proof Hpx as [x0 [E Hrx]]. subst s1.
    assert (Hok1 : Forall okelem r1) by (rewrite Hst1 in Hok; exact (Forall_app_r _ _ _ Hok)).
    pose proof (Htx st _ c1 Hok Hx wx r1 Hst1 Hpx) as Tx. cbn [tpost] in Tx.
    apply xpop_ok in Hf. destruct Hf as [[r0 [E Hf]]|[r0 [E Hf]]]; inversion E; subst x0 r0; clear E.
    - (* X satisfied with [1]: the branch is skipped *)
      assert (Est : tail_of b st' r1 /\ c2 = []) by (destruct Hb as [-> | ->]; inversion Hf; subst; cbn; eauto).
      destruct Est as [Et ->]. rewrite app_nil_r.
      assert (Er : r1 = r) by (apply (tail_unique b st'); [apply (post_tail _ _ _ _ _ _ Hp) | exact Et]). subst r1.
      rewrite (same_split _ _ _ _ _ Hst Hst1 eq_refl) in *.
      assert (Htr : forall rest al, tr_script e (enc ke m) (mkSt (C w ++ rest) al) = trc x (mkSt (C w ++ rest) al)).
      { intros rest al. destruct (Hrx rest al) as [v [Hex Ho]].
        destruct Ho as [[_ [_ [_ Hu]]]|[Hd _]]; [|discriminate]. rewrite (Hu eq_refl) in Hex.
        rewrite Henc, tr_script_app, Hex, tr_script_app. destruct (Hpre [1] rest al) as [Hpe Hpt]. rewrite Hpt, Hpe.
        rewrite truthy_one, andb_true_r.
        destruct dup; cbn [app]; rewrite tr_script_cons, tr_if; cbn [stk alt]; rewrite if_cond_one'; cbn [xorb app];
          (destruct (exec_instr e _ _); rewrite !app_nil_r; reflexivity). }
      destruct Hb as [-> | ->]; cbn [tpost]; intros rest al; rewrite Htr; apply Tx.
    - (* X dissatisfied: Z runs *)
      destruct (Hsz r1 st' c2 Hok1 Hf) as [wz [r2 [Hst2 [_ Hpz]]]].
      assert (Er : r2 = r) by (apply (tail_unique b st'); [apply (post_tail _ _ _ _ _ _ Hp) | apply (post_tail _ _ _ _ _ _ Hpz)]).
      subst r2. assert (Ew : w = wx ++ wz).
      { apply (app_same_tail _ _ r). rewrite <- app_assoc, <- Hst2, <- Hst1. symmetry. exact Hst. }
      subst w. pose proof (Htz r1 st' c2 Hok1 Hf wz r Hst2 Hpz) as Tz.
      assert (Htr : forall rest al, tr_script e (enc ke m) (mkSt (C (wx ++ wz) ++ rest) al)
                     = trc x (mkSt (C wx ++ (C wz ++ rest)) al) ++ trc z (mkSt (C wz ++ rest) al)).
      { intros rest al. destruct (Hrx (C wz ++ rest) al) as [v [Hex Ho]].
        destruct Ho as [[Hd _]|[_ ->]]; [discriminate|].
        rewrite Henc, tr_script_app, C_app, <- app_assoc, Hex, tr_script_app.
        destruct (Hpre [] (C wz ++ rest) al) as [Hpe Hpt]. rewrite Hpt, Hpe. rewrite andb_false_r. cbn [app].
        rewrite tr_script_cons, tr_if. cbn [stk alt]. rewrite if_cond_empty'. cbn [xorb app].
        destruct (exec_instr e _ _); rewrite !app_nil_r; reflexivity. }
      destruct Hb as [-> | ->]; cbn [tpost] in *; intros rest al; rewrite Htr; apply trok_app; [apply Tx | apply Tz | apply Tx | apply Tz].
  Qed.

  Lemma t_or_c x z uz ix iz :
    sound x BB true ix -> tsound x BB true -> sound z BV uz iz -> tsound z BV uz -> tsound (MOrC x z) BV uz.
  Proof.
    intros. apply (t_or_cd (MOrC x z) x z [] false BV uz ix iz); auto; try (intros v rest al; split; reflexivity).
  Qed.
  Lemma t_or_d x z uz ix iz :
    sound x BB true ix -> tsound x BB true -> sound z BB uz iz -> tsound z BB uz -> tsound (MOrD x z) BB uz.
  Proof.
    intros. apply (t_or_cd (MOrD x z) x z [IOp OP_IFDUP] true BB uz ix iz); auto.
    intros v rest al. split; [|reflexivity]. cbn. destruct (truthy v); reflexivity.
  Qed.

  (* or_i: the selector picks the branch *)
  Lemma t_or_i x z b ux uz ix iz : b <> BW ->
    sound x b ux ix -> tsound x b ux -> sound z b uz iz -> tsound z b uz -> tsound (MOrI x z) b (ux && uz).
  Proof.
    intros Hb Hsx Htx Hsz Htz st st' cs Hok H w r Hst Hp. cbn [ieval] in H. apply xpop_ok in H.
    assert (Htrl : forall w0 rest al, trc (MOrI x z) (mkSt (C (ESat :: w0) ++ rest) al) = trc x (mkSt (C w0 ++ rest) al)).
    { intros w0 rest al. cbn [enc app C map conc]. rewrite tr_script_cons, tr_if. cbn [stk alt]. rewrite if_cond_one'. cbn [xorb].
      destruct (exec_instr e _ _); rewrite app_nil_r; reflexivity. }
    assert (Htrr : forall w0 rest al, trc (MOrI x z) (mkSt (C (EDis :: w0) ++ rest) al) = trc z (mkSt (C w0 ++ rest) al)).
    { intros w0 rest al. cbn [enc app C map conc]. rewrite tr_script_cons, tr_if. cbn [stk alt]. rewrite if_cond_empty'. cbn [xorb].
      destruct (exec_instr e _ _); rewrite app_nil_r; reflexivity. }
    destruct H as [[r0 [E H]]|[r0 [E H]]]; subst st; pose proof (Forall_inv_tail Hok) as Hok0.
    - destruct (Hsx r0 st' cs Hok0 H) as [w0 [r' [Hst0 [_ Hpx]]]].
      assert (Er : r' = r) by (apply (tail_unique b st'); [apply (post_tail _ _ _ _ _ _ Hp) | apply (post_tail _ _ _ _ _ _ Hpx)]).
      subst r'. assert (Ew : w = ESat :: w0).
      { apply (app_same_tail _ _ r). cbn [app]. rewrite <- Hst0. symmetry. exact Hst. }
      subst w. pose proof (Htx r0 st' cs Hok0 H w0 r Hst0 Hpx) as Tx.
      destruct b; cbn [tpost] in *; try contradiction.
      + intros rest al. rewrite Htrl. apply Tx.
      + intros rest al kbs s Hrun. rewrite Htrl. apply Tx. rewrite run_or_i_l' in Hrun. exact Hrun.
      + intros rest al. rewrite Htrl. apply Tx.
    - destruct (Hsz r0 st' cs Hok0 H) as [w0 [r' [Hst0 [_ Hpz]]]].
      assert (Er : r' = r) by (apply (tail_unique b st'); [apply (post_tail _ _ _ _ _ _ Hp) | apply (post_tail _ _ _ _ _ _ Hpz)]).
      subst r'. assert (Ew : w = EDis :: w0).
      { apply (app_same_tail _ _ r). cbn [app]. rewrite <- Hst0. symmetry. exact Hst. }
      subst w. pose proof (Htz r0 st' cs Hok0 H w0 r Hst0 Hpz) as Tz.
      destruct b; cbn [tpost] in *; try contradiction.
      + intros rest al. rewrite Htrr. apply Tz.
      + intros rest al kbs s Hrun. rewrite Htrr. apply Tz. rewrite run_or_i_r' in Hrun. exact Hrun.
      + intros rest al. rewrite Htrr. apply Tz.
  Qed.

  (* andor: X NOTIF Z ELSE Y ENDIF *)
  Lemma t_andor a b c bb ub uc ia ib ic : bb <> BW ->
    sound a BB true ia -> tsound a BB true -> sound b bb ub ib -> tsound b bb ub -> sound c bb uc ic -> tsound c bb uc ->
    tsound (MAndOr a b c) bb (ub && uc).
  Proof.
    intros Hb Hsa Hta Hsb Htb Hsc Htc st st' cs Hok H w r Hst Hp. cbn [ieval] in H. apply xbind_ok in H.
    destruct H as [s1 [c1 [c2 [Ha [Hf ->]]]]].
    destruct (Hsa st s1 c1 Hok Ha) as [wa [r1 [Hst1 [_ Hpa]]]]. pose proof Hpa as [x0 [E Hra]]. subst s1.
    assert (Hok1 : Forall okelem r1) by (rewrite Hst1 in Hok; exact (Forall_app_r _ _ _ Hok)).
    pose proof (Hta st _ c1 Hok Ha wa r1 Hst1 Hpa) as Ta. cbn [tpost] in Ta.
    apply xpop_ok in Hf. destruct Hf as [[r0 [E Hf]]|[r0 [E Hf]]]; inversion E; subst x0 r0; clear E.
    - destruct (Hsb r1 st' c2 Hok1 Hf) as [wb [r2 [Hst2 [_ Hpb]]]].
      assert (Er : r2 = r) by (apply (tail_unique bb st'); [apply (post_tail _ _ _ _ _ _ Hp) | apply (post_tail _ _ _ _ _ _ Hpb)]).
      subst r2. assert (Ew : w = wa ++ wb).
      { apply (app_same_tail _ _ r). rewrite <- app_assoc, <- Hst2, <- Hst1. symmetry. exact Hst. }
      subst w. pose proof (Htb r1 st' c2 Hok1 Hf wb r Hst2 Hpb) as Tb.
      assert (Hone : forall rest al, exec e (enc ke a) (mkSt (C wa ++ (C wb ++ rest)) al) = Ok (mkSt ([1] :: C wb ++ rest) al)).
      { intros rest al. destruct (Hra (C wb ++ rest) al) as [v [Hex Ho]].
        destruct Ho as [[_ [_ [_ Hu]]]|[Hd _]]; [|discriminate]. rewrite (Hu eq_refl) in Hex. exact Hex. }
      assert (Htr : forall rest al, trc (MAndOr a b c) (mkSt (C (wa ++ wb) ++ rest) al)
                     = trc a (mkSt (C wa ++ (C wb ++ rest)) al) ++ trc b (mkSt (C wb ++ rest) al)).
      { intros rest al. cbn [enc]. rewrite tr_script_app, C_app, <- app_assoc, Hone.
        rewrite tr_script_cons, tr_if. cbn [stk alt]. rewrite if_cond_one'. cbn [xorb app].
        destruct (exec_instr e _ _); rewrite !app_nil_r; reflexivity. }
      destruct bb; cbn [tpost] in *; try contradiction.
      + intros rest al. rewrite Htr. apply trok_app; [apply Ta | apply Tb].
      + intros rest al kbs s Hrun. rewrite Htr, <- app_assoc. apply trok_app; [apply Ta|]. apply Tb.
        cbn [enc] in Hrun. rewrite exec_app, C_app, <- app_assoc, Hone in Hrun. cbn [bind] in Hrun.
        rewrite exec_cons, exec_if in Hrun. cbn [stk alt] in Hrun. rewrite if_cond_one' in Hrun. cbn [xorb] in Hrun.
        destruct (exec e (enc ke b) _); exact Hrun.
      + intros rest al. rewrite Htr. apply trok_app; [apply Ta | apply Tb].
    - destruct (Hsc r1 st' c2 Hok1 Hf) as [wc [r2 [Hst2 [_ Hpc]]]].
      assert (Er : r2 = r) by (apply (tail_unique bb st'); [apply (post_tail _ _ _ _ _ _ Hp) | apply (post_tail _ _ _ _ _ _ Hpc)]).
      subst r2. assert (Ew : w = wa ++ wc).
      { apply (app_same_tail _ _ r). rewrite <- app_assoc, <- Hst2, <- Hst1. symmetry. exact Hst. }
      subst w. pose proof (Htc r1 st' c2 Hok1 Hf wc r Hst2 Hpc) as Tc.
      assert (Hzero : forall rest al, exec e (enc ke a) (mkSt (C wa ++ (C wc ++ rest)) al) = Ok (mkSt ([] :: C wc ++ rest) al)).
      { intros rest al. destruct (Hra (C wc ++ rest) al) as [v [Hex Ho]].
        destruct Ho as [[Hd _]|[_ ->]]; [discriminate|]. exact Hex. }
      assert (Htr : forall rest al, trc (MAndOr a b c) (mkSt (C (wa ++ wc) ++ rest) al)
                     = trc a (mkSt (C wa ++ (C wc ++ rest)) al) ++ trc c (mkSt (C wc ++ rest) al)).
      { intros rest al. cbn [enc]. rewrite tr_script_app, C_app, <- app_assoc, Hzero.
        rewrite tr_script_cons, tr_if. cbn [stk alt]. rewrite if_cond_empty'. cbn [xorb app].
        destruct (exec_instr e _ _); rewrite !app_nil_r; reflexivity. }
      destruct bb; cbn [tpost] in *; try contradiction.
      + intros rest al. rewrite Htr. apply trok_app; [apply Ta | apply Tc].
      + intros rest al kbs s Hrun. rewrite Htr, <- app_assoc. apply trok_app; [apply Ta|]. apply Tc.
        cbn [enc] in Hrun. rewrite exec_app, C_app, <- app_assoc, Hzero in Hrun. cbn [bind] in Hrun.
        rewrite exec_cons, exec_if in Hrun. cbn [stk alt] in Hrun. rewrite if_cond_empty' in Hrun. cbn [xorb] in Hrun.
        destruct (exec e (enc ke c) _); exact Hrun.
      + intros rest al. rewrite Htr. apply trok_app; [apply Ta | apply Tc].
  Qed.


  (* ---------------------------------------------------------------- thresh *)
  Lemma add_step a b rest' al' : (0 <= a < 2147483647)%Z -> (0 <= b <= 1)%Z ->
    (exec_op e OP_ADD (mkSt (num_encode b :: num_encode a :: rest') al') = Ok (mkSt (num_encode (a + b) :: rest') al')) /\
    (exec_op e OP_ADD (mkSt (num_encode a :: num_encode b :: rest') al') = Ok (mkSt (num_encode (a + b) :: rest') al')).
  Proof.
    intros Ha Hb. cbn [exec_op stk alt]. rewrite (Hnum4 a), (Hnum4 b) by lia.
    split; [reflexivity | rewrite Z.add_comm; reflexivity].
  Qed.

  Lemma t_tloop k l : Forall (fun x => sound x BW true IAny /\ tsound x BW true) l ->
    forall ns xp r st' cs, Forall okelem r -> isb xp ->
      tloop e ke kp k l ns (xp :: r) = XOk st' cs ->
      (Z.of_N ns + 1 + Z.of_nat (length l) < 2147483648)%Z -> (0 < Z.of_N k < 2147483648)%Z ->
      forall w r' x, r = w ++ r' -> st' = x :: r' ->
        forall rest al,
          trok (tr_script e (enc_tail ke l ++ [push_int (Z.of_N k); IOp OP_EQUAL])
                         (mkSt (num_encode (Z.of_N (ns + bit xp)) :: C w ++ rest) al)) cs.
  Proof.
    induction 1 as [|x l' [Hsx Htx] Hl IH]; intros ns xp r st' cs Hok Hxp H Hbound Hk w r' x2 Hr Hst' rest al.
    - cbn [tloop] in H. assert (Ecs : cs = []) by (destruct Hxp as [-> | ->]; [destruct (k =? 0); [discriminate|]|]; inversion H; reflexivity).
      subst cs. cbn [enc_tail app]. rewrite tr_script_cons, tr_push_int, exec_push_int'. cbn [app stk alt tr_script tr_instr op_events].
      destruct (bytes_eqb _ _); destruct (exec_instr e (IOp OP_EQUAL) _); repeat split.
    - cbn [tloop] in H.
      assert (Hcont : exists s1 c1 c2, ev x r = XOk s1 c1 /\ tloop e ke kp k l' (ns + bit xp) s1 = XOk st' c2 /\ cs = c1 ++ c2).
      { apply xpop_ok in H. destruct H as [[r0 [E H]]|[r0 [E H]]]; inversion E; subst; clear E;
          apply xbind_ok in H; destruct H as [s1 [c1 [c2 [H1 [H2 H3]]]]]; exists s1, c1, c2; cbn [bit];
          rewrite ?N.add_0_r; auto. }
      destruct Hcont as [s1 [c1 [c2 [Hx1 [Hf ->]]]]].
      destruct (Hsx r s1 c1 Hok Hx1) as [wx [r1 [Hr1 [_ Hpw]]]]. pose proof Hpw as [x1 [E Hpx]]. subst s1.
      assert (Hok1 : Forall okelem r1) by (rewrite Hr1 in Hok; exact (Forall_app_r _ _ _ Hok)).
      assert (Hb1 : isb x1) by (destruct (Hpx [] [] []) as [v [_ Ho]]; apply (outrel_unit_val _ _ Ho)).
      cbn [length] in Hbound.
      assert (Hbit : (Z.of_N (bit xp) <= 1)%Z) by (destruct xp; cbn; lia).
      assert (Hsl : Forall (fun x => sound x BW true IAny) l') by (eapply Forall_impl; [|exact Hl]; intros a [Ha _]; exact Ha).
      destruct (s_tloop k l' Hsl (ns + bit xp) x1 r1 st' c2 Hok1 Hb1 Hf ltac:(lia) Hk) as [w' [r'' [x3 [Hr1' [Est [_ _]]]]]].
      rewrite Hst' in Est, Hf. inversion Est; subst x3 r''.
      assert (Ew : w = wx ++ w').
      { apply (app_same_tail _ _ r'). rewrite <- app_assoc, <- Hr1', <- Hr1. symmetry. exact Hr. }
      subst w.
      pose proof (IH (ns + bit xp) x1 r1 (x2 :: r') c2 Hok1 Hb1 Hf ltac:(lia) Hk w' r' x2 Hr1' eq_refl rest al) as Trest.
      pose proof (Htx r _ c1 Hok Hx1 wx r1 Hr1 Hpw (num_encode (Z.of_N (ns + bit xp))) (C w' ++ rest) al) as Tx.
      destruct (Hpx (num_encode (Z.of_N (ns + bit xp))) (C w' ++ rest) al) as [v1 [Hr1x Ho1]].
      destruct (outrel_unit_val _ _ Ho1) as [_ ->].
      assert (Hb01 : (0 <= Z.of_N (bit x1) <= 1)%Z) by (destruct x1; cbn; lia).
      destruct (add_step (Z.of_N (ns + bit xp)) (Z.of_N (bit x1)) (C w' ++ rest) al ltac:(lia) Hb01) as [Ha1 Ha2].
      replace (Z.of_N (ns + bit xp) + Z.of_N (bit x1))%Z with (Z.of_N (ns + bit xp + bit x1)) in Ha1, Ha2 by lia.
      cbn [enc_tail]. rewrite <- !app_assoc, tr_script_app, C_app, <- app_assoc.
      destruct Hr1x as [Hr1x|Hr1x]; rewrite Hr1x; cbn [app]; rewrite tr_script_cons; cbn [tr_instr op_events exec_instr];
        [rewrite Ha1 | rewrite Ha2]; cbn [app]; apply trok_app; assumption.
  Qed.

  Lemma t_thresh k x0 rest i0 :
    sound x0 BB true i0 -> tsound x0 BB true ->
    Forall (fun x => sound x BW true IAny /\ tsound x BW true) rest ->
    1 <= k <= N.of_nat (S (length rest)) -> (S (length rest) < 1000)%nat ->
    tsound (MThresh k (x0 :: rest)) BB true.
  Proof.
    intros H0 T0 Hr Hk Hn st st' cs Hok H w r Hst [x2 [-> _]] rest0 al. rewrite ev_thresh in H. apply xbind_ok in H.
    destruct H as [s1 [c1 [c2 [Hx0 [Hf ->]]]]].
    destruct (H0 st s1 c1 Hok Hx0) as [w0 [r1 [Hst1 [_ Hp0]]]]. pose proof Hp0 as [x1 [E Hrx]]. subst s1.
    assert (Hok1 : Forall okelem r1) by (rewrite Hst1 in Hok; exact (Forall_app_r _ _ _ Hok)).
    assert (Hb1 : isb x1) by (destruct (Hrx [] []) as [v [_ Ho]]; apply (outrel_unit_val _ _ Ho)).
    assert (Hsl : Forall (fun x => sound x BW true IAny) rest) by (eapply Forall_impl; [|exact Hr]; intros a [Ha _]; exact Ha).
    destruct (s_tloop k rest Hsl 0 x1 r1 _ c2 Hok1 Hb1 Hf ltac:(lia) ltac:(lia)) as [w' [r'' [x3 [Hr1' [Est [_ _]]]]]].
    inversion Est; subst x3 r''.
    assert (Ew : w = w0 ++ w').
    { apply (app_same_tail _ _ r). rewrite <- app_assoc, <- Hr1', <- Hst1. symmetry. exact Hst. }
    subst w.
    pose proof (t_tloop k rest Hr 0 x1 r1 _ c2 Hok1 Hb1 Hf ltac:(lia) ltac:(lia) w' r x2 Hr1' eq_refl rest0 al) as Trest.
    pose proof (T0 st _ c1 Hok Hx0 w0 r1 Hst1 Hp0 (C w' ++ rest0) al) as Tx.
    destruct (Hrx (C w' ++ rest0) al) as [v1 [Hex Ho1]]. destruct (outrel_unit_val _ _ Ho1) as [_ ->].
    rewrite enc_thresh, tr_script_app, C_app, <- app_assoc, Hex. rewrite N.add_0_l in Trest.
    apply trok_app; assumption.
  Qed.


  (* ---------------------------------------------------------------- multi_a *)
  Lemma t_multi_a_loop k l : e_sv e = SvTapscript ->
    forall ns st st' cs, Forall okelem st -> multi_a_loop e ke k l ns st = XOk st' cs ->
      (Z.of_N ns + Z.of_nat (length l) < 2147483648)%Z -> (0 <= Z.of_N k < 2147483648)%Z ->
      forall w r x, st = w ++ r -> st' = x :: r ->
        forall rest al,
          trok (tr_script e (ma_tail l ++ [push_int (Z.of_N k); IOp OP_NUMEQUAL])
                         (mkSt (num_encode (Z.of_N ns) :: C w ++ rest) al)) cs.
  Proof.
    intros Htap. induction l as [|key l' IH]; intros ns st st' cs Hok H Hbound Hk w r x Hst Hst' rest al.
    - cbn [multi_a_loop] in H. assert (Ecs : cs = []) by (inversion H; reflexivity). subst cs.
      cbn [ma_tail flat_map app]. rewrite tr_script_cons, tr_push_int, exec_push_int'. cbn [app stk alt tr_script tr_instr op_events].
      destruct (exec_instr e (IOp OP_NUMEQUAL) _); repeat split.
    - cbn [multi_a_loop] in H. cbn [length] in Hbound. unfold evaluate_pk in H.
      destruct st as [|[| |s] r0]; try discriminate.
      + pose proof (Forall_inv_tail Hok) as Hok0.
        destruct (s_multi_a_loop k l' Htap ns r0 st' cs Hok0 H ltac:(lia) Hk) as [w' [r'' [x' [Hr0 [Est _]]]]].
        rewrite Hst' in Est. inversion Est; subst x' r''.
        assert (Ew : w = EDis :: w') by (apply (app_same_tail _ _ r); cbn [app]; rewrite <- Hr0; symmetry; exact Hst).
        subst w. cbn [ma_tail flat_map app C map conc]. rewrite tr_script_cons. cbn [tr_instr exec_instr app].
        rewrite tr_script_cons. cbn [tr_instr op_events exec_instr exec_op stk alt nonempty app].
        rewrite Htap, Hkey. cbn [negb]. rewrite Hnum4 by lia. exact (IH ns r0 st' cs Hok0 H ltac:(lia) Hk w' r x Hr0 Hst' rest al).
      + destruct (e_sigok e (kb ke key) s) eqn:Es; [|discriminate].
        apply xbind_ok in H. destruct H as [s1 [c1 [c2 [H1 [Hf ->]]]]]. inversion H1; subst s1 c1.
        pose proof (Forall_inv_tail Hok) as Hok0. pose proof (Forall_inv Hok) as Hs. cbn in Hs. destruct Hs as [Hne _].
        destruct (s_multi_a_loop k l' Htap (ns + 1) r0 st' c2 Hok0 Hf ltac:(lia) Hk) as [w' [r'' [x' [Hr0 [Est _]]]]].
        rewrite Hst' in Est. inversion Est; subst x' r''.
        assert (Ew : w = EPush s :: w') by (apply (app_same_tail _ _ r); cbn [app]; rewrite <- Hr0; symmetry; exact Hst).
        subst w. cbn [ma_tail flat_map app C map conc]. rewrite tr_script_cons. cbn [tr_instr exec_instr app].
        rewrite tr_script_cons. cbn [tr_instr op_events exec_instr exec_op stk alt app].
        rewrite Htap, Hkey. cbn [negb]. rewrite Hnum4 by lia.
        destruct s as [|b0 s']; [congruence|]. rewrite Es. cbn [nonempty].
        replace (Z.of_N ns + 1)%Z with (Z.of_N (ns + 1)) by lia.
        change (TSig (kb ke key) (b0 :: s') :: ?t) with ([TSig (kb ke key) (b0 :: s')] ++ t).
        apply (trok_app [TSig (kb ke key) (b0 :: s')] _ [CsPk (kb ke key) (b0 :: s')] c2); [repeat split|].
        exact (IH (ns + 1) r0 st' c2 Hok0 Hf ltac:(lia) Hk w' r x Hr0 Hst' rest al).
  Qed.

  Lemma t_multi_a_gen (m : ms) k ks :
    enc ke m = (match ks with
                | [] => []
                | k0 :: rest => [IPush (kb ke k0); IOp OP_CHECKSIG] ++ ma_tail rest
                end) ++ [push_int (Z.of_N k); IOp OP_NUMEQUAL] ->
    (forall st, ev m st = multi_a_loop e ke k ks 0 st) ->
    e_sv e = SvTapscript -> ks <> [] -> (length ks < 1000)%nat -> k < 2147483648 ->
    tsound m BB true.
  Proof.
    intros Henc Hev Htap Hne Hlen Hk st st' cs Hok H w r Hst [x [-> _]] rest0 al. rewrite Hev in H.
    destruct ks as [|k0 rest]; [congruence|]. cbn [multi_a_loop] in H. cbn [length] in Hlen. unfold evaluate_pk in H.
    destruct st as [|[| |s] r0]; try discriminate.
    - pose proof (Forall_inv_tail Hok) as Hok0.
      destruct (s_multi_a_loop k rest Htap 0 r0 _ cs Hok0 H ltac:(lia) ltac:(lia)) as [w' [r'' [x' [Hr0 [Est _]]]]].
      inversion Est; subst x' r''.
      assert (Ew : w = EDis :: w') by (apply (app_same_tail _ _ r); cbn [app]; rewrite <- Hr0; symmetry; exact Hst).
      subst w. rewrite Henc, <- app_assoc. cbn [app C map conc]. rewrite tr_script_cons. cbn [tr_instr exec_instr app].
      rewrite tr_script_cons. cbn [tr_instr op_events exec_instr exec_op stk alt nonempty app].
      rewrite Hkey. cbn [negb bool_bytes].
      exact (t_multi_a_loop k rest Htap 0 r0 _ cs Hok0 H ltac:(lia) ltac:(lia) w' r x Hr0 eq_refl rest0 al).
    - destruct (e_sigok e (kb ke k0) s) eqn:Es; [|discriminate].
      apply xbind_ok in H. destruct H as [s1 [c1 [c2 [H1 [Hf ->]]]]]. inversion H1; subst s1 c1.
      pose proof (Forall_inv_tail Hok) as Hok0. pose proof (Forall_inv Hok) as Hs. cbn in Hs. destruct Hs as [Hnes _].
      destruct (s_multi_a_loop k rest Htap 1 r0 _ c2 Hok0 Hf ltac:(lia) ltac:(lia)) as [w' [r'' [x' [Hr0 [Est _]]]]].
      inversion Est; subst x' r''.
      assert (Ew : w = EPush s :: w') by (apply (app_same_tail _ _ r); cbn [app]; rewrite <- Hr0; symmetry; exact Hst).
      subst w. rewrite Henc, <- app_assoc. cbn [app C map conc]. rewrite tr_script_cons. cbn [tr_instr exec_instr app].
      rewrite tr_script_cons. cbn [tr_instr op_events exec_instr exec_op stk alt app].
      rewrite Hkey. cbn [negb]. destruct s as [|b0 s']; [congruence|]. rewrite Es. cbn [nonempty bool_bytes].
      change (TSig (kb ke k0) (b0 :: s') :: ?t) with ([TSig (kb ke k0) (b0 :: s')] ++ t).
      apply (trok_app [TSig (kb ke k0) (b0 :: s')] _ [CsPk (kb ke k0) (b0 :: s')] c2); [repeat split|].
      exact (t_multi_a_loop k rest Htap 1 r0 _ c2 Hok0 Hf ltac:(lia) ltac:(lia) w' r x Hr0 eq_refl rest0 al).
  Qed.


  (* ---------------------------------------------------------------- multi *)
  Lemma tr_pushes (f : key -> bytes) l s st :
    tr_script e (map (fun key => IPush (f key)) l ++ s) st = tr_script e s (mkSt (rev (map f l) ++ stk st) (alt st)).
  Proof.
    revert st. induction l as [|x r IH]; intros st; cbn [map app rev].
    - destruct st; reflexivity.
    - rewrite tr_script_cons. cbn [tr_instr exec_instr app]. rewrite IH. cbn [stk alt]. rewrite <- app_assoc. reflexivity.
  Qed.

  Lemma tr_multi k ks sigs rest al (okm : bool) : e_sv e <> SvTapscript ->
    1 <= k <= N.of_nat (length ks) -> (length ks <= 20)%nat -> N.of_nat (length sigs) = k ->
    multisig_match e (rev (map (kb ke) ks)) sigs = okm ->
    tr_script e ([push_int (Z.of_N k)] ++ map (fun key => IPush (kb ke key)) ks
                   ++ [push_int (Z.of_nat (length ks)); IOp OP_CHECKMULTISIG])
              (mkSt (sigs ++ [] :: rest) al)
    = if okm then map (fun p => TSig (fst p) (snd p)) (multisig_pairs e (rev (map (kb ke) ks)) sigs) else [].
  Proof.
    intros Htap Hk Hn Hlen Hm. cbn [app]. rewrite tr_script_cons, tr_push_int, exec_push_int'. cbn [app stk alt].
    rewrite tr_pushes. cbn [stk alt]. rewrite tr_script_cons, tr_push_int, exec_push_int'. cbn [app stk alt].
    cbn [tr_script tr_instr op_events stk].
    rewrite Hnum4 by lia. rewrite Nat2Z.id.
    replace (length ks) with (length (rev (map (kb ke) ks))) at 1 by (rewrite rev_length, map_length; reflexivity).
    rewrite take_n_app. rewrite Hnum4 by lia.
    replace (Z.to_nat (Z.of_N k)) with (length sigs) by lia. rewrite take_n_app. rewrite Hm.
    destruct (exec_instr e (IOp OP_CHECKMULTISIG) _); rewrite app_nil_r; reflexivity.
  Qed.

  Lemma trok_sigs (ps : list (bytes * bytes)) cs :
    map check_of cs = map (fun p => KSig (fst p) (snd p)) ps ->
    trok (map (fun p => TSig (fst p) (snd p)) ps) cs.
  Proof.
    intros H. split; [destruct ps; reflexivity|]. split.
    - clear H. induction ps as [|p r IH]; [reflexivity|]. cbn [map hend]. destruct r; [reflexivity | exact IH].
    - rewrite H. clear H. induction ps as [|p r IH]; [reflexivity|]. cbn [map checks]. rewrite IH. reflexivity.
  Qed.

  Lemma t_multi_gen (m : ms) k ks :
    enc ke m = [push_int (Z.of_N k)] ++ map (fun key => IPush (kb ke key)) ks
                 ++ [push_int (Z.of_nat (length ks)); IOp OP_CHECKMULTISIG] ->
    (forall st, ev m st = multi_eval e ke k ks st) ->
    e_sv e <> SvTapscript -> 1 <= k <= N.of_nat (length ks) -> (length ks <= 20)%nat ->
    tsound m BB true.
  Proof.
    intros Henc Hev Htap Hk Hn st st' cs Hok H w r Hst [x [-> _]] rest al. rewrite Hev in H. unfold multi_eval in H.
    destruct (N.ltb_spec (N.of_nat (length st)) (k + 1)) as [Hlt|Hge]; [discriminate|].
    destruct st as [|a st0]; [cbn in Hge; lia|].
    assert (Hcase : a = EDis \/ a <> EDis) by (destruct a; [right|left|right]; congruence || reflexivity).
    destruct Hcase as [-> | Hna].
    - destruct (forallb is_dis (firstn (N.to_nat (k + 1)) (EDis :: st0))) eqn:Ef; [|discriminate].
      assert (Ex : x = EDis /\ r = skipn (N.to_nat (k + 1)) (EDis :: st0) /\ cs = []) by (inversion H; auto).
      destruct Ex as [-> [Er ->]].
      assert (Ew : w = firstn (N.to_nat (k + 1)) (EDis :: st0)).
      { apply (app_same_tail _ _ r). rewrite <- Hst, Er, firstn_skipn. reflexivity. }
      assert (Hw : C w = repeat [] (N.to_nat k) ++ [[]]).
      { assert (Hl : length w = S (N.to_nat k)).
        { rewrite Ew, firstn_length. cbn [length] in *. lia. }
        assert (Hall : forall y, In y w -> y = EDis).
        { intros y Hy. rewrite Ew in Hy. rewrite forallb_forall in Ef. specialize (Ef y Hy). destruct y; try discriminate. reflexivity. }
        clear -Hl Hall. revert Hl. generalize (N.to_nat k) as j. induction w as [|y w' IH]; intros j Hl; [discriminate|].
        cbn [length] in Hl. rewrite (Hall y (or_introl eq_refl)). cbn [C map conc].
        destruct j as [|j'].
        - destruct w'; [reflexivity | discriminate].
        - cbn [repeat app]. f_equal. apply IH; [intros z Hz; apply Hall; right; exact Hz | lia]. }
      rewrite Hw, <- app_assoc. cbn [app]. rewrite Henc.
      assert (Htm : tr_script e ([push_int (Z.of_N k)] ++ map (fun key => IPush (kb ke key)) ks
                                   ++ [push_int (Z.of_nat (length ks)); IOp OP_CHECKMULTISIG])
                              (mkSt (repeat [] (N.to_nat k) ++ [] :: rest) al) = []).
      { apply (tr_multi k ks (repeat [] (N.to_nat k)) rest al false Htap Hk Hn); [rewrite repeat_length; lia|].
        destruct (N.to_nat k) eqn:Ek; [lia|]. cbn [repeat]. apply multisig_empty_first. }
      match goal with |- trok ?t _ => replace t with (@nil event) by (symmetry; exact Htm) end. apply trok_nil.
    - assert (Hloop : multi_loop e ke k (rev ks) 0 (a :: st0) = XOk (x :: r) cs).
      { destruct (rev ks) as [|key l'] eqn:Er.
        - destruct a; try congruence; discriminate.
        - cbn [multi_loop]. destruct (N.eqb_spec 0 k) as [E|_]; [lia|].
          destruct a; try congruence; exact H. }
      destruct (s_multi_loop k (rev ks) 0 (a :: st0) _ cs Hloop ltac:(lia)) as [sigs [r' [Hst0 [Est [Hlen [_ [Hm Hpairs]]]]]]].
      inversion Est; subst x r'.
      assert (Ew : w = map EPush sigs ++ [EDis]).
      { apply (app_same_tail _ _ r). rewrite <- app_assoc. cbn [app]. rewrite <- Hst0. symmetry. exact Hst. }
      subst w. rewrite C_app, C_pushes, <- app_assoc. cbn [C map conc app]. rewrite Henc.
      rewrite map_rev in Hm, Hpairs.
      pose proof (tr_multi k ks sigs rest al true Htap Hk Hn ltac:(lia) Hm) as Htm.
      match goal with |- trok ?t _ =>
        replace t with (map (fun p => TSig (fst p) (snd p)) (multisig_pairs e (rev (map (kb ke) ks)) sigs))
          by (symmetry; exact Htm) end.
      apply trok_sigs. exact Hpairs.
  Qed.


  (* ---------------------------------------------------------------- typing dispatch for traces *)
  Definition tsnd (m : ms) (t : ty) : Prop := tsound m (c_base (t_corr t)) (c_unit (t_corr t)).
  Definition tstmt (m : ms) : Prop := forall t, type_of m = ROk t -> iwf m -> icover m -> tsnd m t.

  Ltac one_child_t x IH Ht Hwf Hc tx Hs Htr :=
    cbn [type_of] in Ht; apply rbind_ok in Ht; destruct Ht as [tx [?Hx Ht]];
    cbn [iwf icover] in Hwf, Hc; pose proof (IH tx Hx Hwf Hc) as Htr; pose proof (ieval_sound x tx Hx Hwf Hc) as Hs;
    destruct tx as [[?bx ?ix ?dx ?ux] ?mx]; unf Ht; unfold tsnd, isound in *; cbn [t_corr c_base c_unit c_input] in *.

  Ltac two_children_t x y IHx IHy Ht Hwf Hc Hsx Htx Hsy Hty :=
    cbn [type_of] in Ht; apply rbind_ok in Ht; destruct Ht as [?tx [?Hx Ht]];
    apply rbind_ok in Ht; destruct Ht as [?ty [?Hy Ht]];
    cbn [iwf icover] in Hwf, Hc; destruct Hwf as [?Hwx ?Hwy]; destruct Hc as [?Hcx ?Hcy];
    pose proof (IHx _ Hx Hwx Hcx) as Htx; pose proof (IHy _ Hy Hwy Hcy) as Hty;
    pose proof (ieval_sound x _ Hx Hwx Hcx) as Hsx; pose proof (ieval_sound y _ Hy Hwy Hcy) as Hsy;
    destruct tx as [[?bx ?ix ?dx ?ux] ?mx]; destruct ty as [[?b2 ?i2 ?d2 ?u2] ?m2]; unf Ht;
    unfold tsnd, isound in *; cbn [t_corr c_base c_unit c_input] in *.

  Lemma j_thresh k xs : Forall tstmt xs -> tstmt (MThresh k xs).
  Proof.
    intros IH t Ht Hwf Hc. cbn [type_of] in Ht. fold (tys_of xs) in Ht.
    apply rbind_ok in Ht. destruct Ht as [ts [Hts Ht]]. apply tys_of_ok in Hts.
    cbn [iwf icover] in Hwf, Hc. destruct Hwf as [Hk [Hn Hwf]].
    unfold t_threshold in Ht. destruct (c_threshold k (map t_corr ts)) as [c|] eqn:Ec; [|discriminate].
    inversion Ht; subst; clear Ht.
    unfold c_threshold in Ec. destruct (c_thresh_loop 0 0 (map t_corr ts)) as [n|] eqn:El; [|discriminate].
    inversion Ec; subst; clear Ec. unfold tsnd. cbn [t_corr c_base c_unit c_input].
    destruct xs as [|x0 rest]; [cbn in Hk; lia|].
    inversion Hts as [|? t0 ? ts0 Hx0 Hrest]; subst. inversion IH as [|? ? IH0 IHr]; subst.
    destruct Hwf as [Hw0 Hwr]. destruct Hc as [Hc0 Hcr].
    cbn [map c_thresh_loop] in El. cbn [N.eqb andb negb] in El.
    destruct (base_eqb (c_base (t_corr t0)) BB) eqn:Eb; cbn [negb] in El; [|discriminate].
    destruct (c_unit (t_corr t0)) eqn:Eu; cbn [negb] in El; [|discriminate].
    destruct (c_dissat (t_corr t0)); cbn [negb] in El; [|discriminate].
    assert (Hb0 : c_base (t_corr t0) = BB) by (destruct (c_base (t_corr t0)); try discriminate; reflexivity).
    destruct (thresh_loop_rest _ _ _ _ El ltac:(lia)) as [Hall _].
    pose proof (ieval_sound x0 t0 Hx0 Hw0 Hc0) as Hs0. unfold isound in Hs0. rewrite Hb0, Eu in Hs0.
    pose proof (IH0 t0 Hx0 Hw0 Hc0) as Ht0. unfold tsnd in Ht0. rewrite Hb0, Eu in Ht0.
    assert (Hsr : Forall (fun x => sound x BW true IAny /\ tsound x BW true) rest).
    { clear El Hk Hn Hts IH. revert ts0 Hrest Hall Hwr Hcr. induction IHr as [|x r Hx Hr IHr']; intros ts0 Hrest Hall Hwr Hcr.
      - constructor.
      - inversion Hrest as [|? t1 ? ts1 Hxt Hrt]; subst. cbn [map] in Hall. inversion Hall as [|? ? [Hb1 Hu1] Hall']; subst.
        destruct Hwr as [Hw1 Hwr']. destruct Hcr as [Hc1 Hcr'].
        pose proof (w_input_any x t1 Hxt Hb1) as Hi1.
        constructor; [|exact (IHr' ts1 Hrt Hall' Hwr' Hcr')]. split.
        + pose proof (ieval_sound x t1 Hxt Hw1 Hc1) as Hs. unfold isound in Hs. rewrite Hb1, Hu1, Hi1 in Hs. exact Hs.
        + pose proof (Hx t1 Hxt Hw1 Hc1) as Ht. unfold tsnd in Ht. rewrite Hb1, Hu1 in Ht. exact Ht. }
    apply (t_thresh k x0 rest (c_input (t_corr t0)) Hs0 Ht0 Hsr); cbn [length] in *; lia.
  Qed.

  Theorem ieval_traced : forall m, tstmt m.
  Proof.
    induction m using ms_ind'; try (intros t Ht Hwf Hc; cbn in Hc; contradiction).
    - intros t Ht _ _. inversion Ht; subst. apply t_true.
    - intros t Ht _ _. inversion Ht; subst. apply t_false.
    - intros t Ht _ _. inversion Ht; subst. apply t_pk_k.
    - intros t Ht _ _. inversion Ht; subst. apply (t_pkh_gen (MPkH k) (kh ke k)); reflexivity.
    - intros t Ht _ _. inversion Ht; subst. apply (t_pkh_gen (MRawPkH h) h); reflexivity.
    - intros ty0 Ht Hwf _. inversion Ht; subst. apply t_after, Hwf.
    - intros ty0 Ht Hwf _. inversion Ht; subst. apply t_older, Hwf.
    - intros t Ht _ _. inversion Ht; subst. apply (t_hash_gen _ KSha256 OP_SHA256 h); reflexivity.
    - intros t Ht _ _. inversion Ht; subst. apply (t_hash_gen _ KHash256 OP_HASH256 h); reflexivity.
    - intros t Ht _ _. inversion Ht; subst. apply (t_hash_gen _ KRipemd160 OP_RIPEMD160 h); reflexivity.
    - intros t Ht _ _. inversion Ht; subst. apply (t_hash_gen _ KHash160 OP_HASH160 h); reflexivity.
    - (* alt *) intros t Ht Hwf Hc. one_child_t m IHm Ht Hwf Hc tx Hs Htr.
      destruct bx; try discriminate. inversion Ht; subst. cbn. eapply t_alt; eassumption.
    - (* swap *) intros t Ht Hwf Hc. one_child_t m IHm Ht Hwf Hc tx Hs Htr.
      destruct bx; try discriminate; destruct ix; try discriminate; inversion Ht; subst; cbn;
        (eapply t_swap; [|eassumption|eassumption]); auto.
    - (* check *) intros t Ht Hwf Hc. one_child_t m IHm Ht Hwf Hc tx Hs Htr.
      destruct bx; try discriminate. inversion Ht; subst. cbn. eapply t_check; eassumption.
    - (* dupif *) intros t Ht Hwf Hc. one_child_t m IHm Ht Hwf Hc tx Hs Htr.
      destruct bx; try discriminate; destruct ix; try discriminate. inversion Ht; subst. cbn. eapply t_dupif; eassumption.
    - (* verify *) intros t Ht Hwf Hc. one_child_t m IHm Ht Hwf Hc tx Hs Htr.
      destruct bx; try discriminate. inversion Ht; subst. cbn. eapply t_verify; eassumption.
    - (* nonzero *) intros t Ht Hwf Hc. one_child_t m IHm Ht Hwf Hc tx Hs Htr.
      destruct ix; cbn in Ht; try discriminate; destruct bx; try discriminate; inversion Ht; subst; cbn;
        (eapply t_nonzero; [|eassumption|eassumption]); auto.
    - (* zne *) intros t Ht Hwf Hc. one_child_t m IHm Ht Hwf Hc tx Hs Htr.
      destruct bx; try discriminate. inversion Ht; subst. cbn. eapply t_zne; eassumption.
    - (* and_v *) intros t Ht Hwf Hc. two_children_t m1 m2 IHm1 IHm2 Ht Hwf Hc Hsx Htx Hsy Hty.
      destruct bx, b2; try discriminate; inversion Ht; subst; cbn; (eapply t_and_v; [discriminate | eassumption ..]).
    - (* and_b *) intros t Ht Hwf Hc. two_children_t m1 m2 IHm1 IHm2 Ht Hwf Hc Hsx Htx Hsy Hty.
      destruct bx, b2; try discriminate; inversion Ht; subst; cbn. eapply t_and_b; eassumption.
    - (* andor *) intros t Ht Hwf Hc.
      cbn [type_of] in Ht. apply rbind_ok in Ht. destruct Ht as [ta [Ha Ht]].
      apply rbind_ok in Ht. destruct Ht as [tb [Hb Ht]]. apply rbind_ok in Ht. destruct Ht as [tc [Hcc Ht]].
      cbn [iwf icover] in Hwf, Hc. destruct Hwf as [Hwa [Hwb Hwc]]. destruct Hc as [Hca [Hcb Hc3]].
      pose proof (IHm1 ta Ha Hwa Hca) as Hta. pose proof (IHm2 tb Hb Hwb Hcb) as Htb. pose proof (IHm3 tc Hcc Hwc Hc3) as Htc.
      pose proof (ieval_sound m1 ta Ha Hwa Hca) as Hsa. pose proof (ieval_sound m2 tb Hb Hwb Hcb) as Hsb.
      pose proof (ieval_sound m3 tc Hcc Hwc Hc3) as Hsc.
      destruct ta as [[ba ia da ua] ma], tb as [[bb ib db ub] mb], tc as [[bc ic dc uc] mc]. unf Ht.
      unfold tsnd, isound in *. cbn [t_corr c_base c_unit c_input] in *.
      destruct da; cbn [negb] in Ht; try discriminate. destruct ua; cbn [negb] in Ht; try discriminate.
      destruct ba, bb, bc; try discriminate; inversion Ht; subst; cbn;
        (eapply t_andor; [discriminate | eassumption ..]).
    - (* or_b *) intros t Ht Hwf Hc. two_children_t m1 m2 IHm1 IHm2 Ht Hwf Hc Hsx Htx Hsy Hty.
      destruct dx; cbn [negb] in Ht; try discriminate. destruct d2; cbn [negb] in Ht; try discriminate.
      destruct bx, b2; try discriminate; inversion Ht; subst; cbn. eapply t_or_b; eassumption.
    - (* or_d *) intros t Ht Hwf Hc. two_children_t m1 m2 IHm1 IHm2 Ht Hwf Hc Hsx Htx Hsy Hty.
      destruct dx; cbn [negb] in Ht; try discriminate. destruct ux; cbn [negb] in Ht; try discriminate.
      destruct bx, b2; try discriminate; inversion Ht; subst; cbn. eapply t_or_d; eassumption.
    - (* or_c *) intros t Ht Hwf Hc. two_children_t m1 m2 IHm1 IHm2 Ht Hwf Hc Hsx Htx Hsy Hty.
      destruct dx; cbn [negb] in Ht; try discriminate. destruct ux; cbn [negb] in Ht; try discriminate.
      destruct bx, b2; try discriminate; inversion Ht; subst; cbn.
      exact (t_or_c m1 m2 u2 ix i2 Hsx Htx Hsy Hty).
    - (* or_i *) intros t Ht Hwf Hc. two_children_t m1 m2 IHm1 IHm2 Ht Hwf Hc Hsx Htx Hsy Hty.
      destruct bx, b2; try discriminate; inversion Ht; subst; cbn;
        (eapply t_or_i; [discriminate | eassumption ..]).
    - apply j_thresh; assumption.
    - intros t Ht Hwf _. inversion Ht; subst. cbn [iwf] in Hwf. destruct Hwf as [Htap [Hk Hn]].
      unfold tsnd. cbn [t_multi t_corr c_multi c_base c_unit].
      apply (t_multi_gen (MMulti k ks) k ks); try reflexivity; assumption.
    - intros t Ht Hwf _. inversion Ht; subst. cbn [iwf] in Hwf. destruct Hwf as [Htap [Hk Hn]].
      unfold tsnd. cbn [t_multi_a t_corr c_multi_a c_base c_unit].
      apply (t_multi_a_gen (MMultiA k ks) k ks); try reflexivity; try assumption.
      + destruct ks; [cbn in Hk; lia | discriminate].
      + lia.
  Qed.

  (* constraints_exact on the witness-script form *)
  Theorem interp_rec_exact m t items cs :
    type_of m = ROk t -> c_base (t_corr t) = BB -> iwf m -> icover m ->
    Forall (fun b => blen b < 2147483648) items ->
    interp_rec e ke kp m (astack_of_items items) = IAccept cs ->
    accepts_tr e (enc ke m) (rev items) = Some (map check_of cs).
  Proof.
    intros Ht Hb Hwf Hc Hsz H. unfold interp_rec in H.
    destruct (ev m (astack_of_items items)) as [st' cs'|er cs'|n] eqn:Ev; try discriminate.
    assert (Hok : Forall okelem (astack_of_items items)).
    { unfold astack_of_items. apply Forall_rev. apply Forall_forall. intros x Hx.
      apply in_map_iff in Hx. destruct Hx as [b [<- Hin]]. rewrite Forall_forall in Hsz. specialize (Hsz b Hin).
      unfold elem_of. destruct b as [|a [|a' b']]; cbn; auto.
      - destruct (a =? 1); cbn; [exact I | split; [discriminate | exact Hsz]].
      - split; [discriminate | exact Hsz]. }
    pose proof (ieval_sound m t Ht Hwf Hc) as Hs. unfold isound in Hs. rewrite Hb in Hs.
    destruct (Hs _ _ _ Hok Ev) as [w [r [Hst [_ Hp]]]]. pose proof Hp as [x0 [-> Hpr]].
    unfold final_rule in H. destruct x0; try discriminate. destruct r; [|discriminate]. inversion H; subst cs'.
    pose proof (ieval_traced m t Ht Hwf Hc) as Htr. unfold tsnd in Htr. rewrite Hb in Htr.
    pose proof (Htr _ _ _ Hok Ev w [] Hst Hp [] []) as [_ [_ Hchecks]].
    destruct (Hpr [] []) as [v [Hr Ho]]. destruct Ho as [[_ [Htru _]]|[Hd _]]; [|discriminate].
    assert (Hconc : C (astack_of_items items) = rev items).
    { unfold C, astack_of_items. rewrite map_rev, map_map. f_equal.
      rewrite <- (map_id items) at 2. apply map_ext. intros b. unfold elem_of.
      destruct b as [|a [|a' b']]; cbn; try reflexivity. destruct (N.eqb_spec a 1); subst; reflexivity. }
    rewrite Hst, app_nil_r in Hconc. rewrite app_nil_r, Hconc in Hr, Hchecks.
    unfold accepts_tr. rewrite exec_tr_eq, Hr. cbn [with_tr stk]. rewrite Htru, Hchecks. reflexivity.
  Qed.

End InterpSound.
