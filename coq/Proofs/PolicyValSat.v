(* C08 / C07 link: for well-typed fragments the lifted policy is true in a world exactly when the
   specification's satisfaction table (coq/Ms/SatSpec.v) lists a satisfaction from that world's
   assets.  Together with Theorem A (table entries execute correctly) this connects the truth-table
   semantics used by the validator with script execution in the direction
   "policy true in W  ==>  a witness built from W's assets is accepted". *)
From Coq Require Import List Bool NArith ZArith Lia Permutation PeanoNat.
From Verif Require Import PolicyVal PolicyValProofs TheoremA.
Import ListNotations.

(* fragments the table speaks about: no raw public-key hashes (key unknown) *)
Fixpoint vliftable (m : ms) : Prop :=
  match m with
  | MRawPkH _ => False
  | MAlt x | MSwap x | MCheck x | MDupIf x | MVerify x | MNonZero x | MZeroNotEqual x => vliftable x
  | MAndV x y | MAndB x y | MOrB x y | MOrD x y | MOrC x y | MOrI x y => vliftable x /\ vliftable y
  | MAndOr a b c => vliftable a /\ vliftable b /\ vliftable c
  | MThresh _ xs => (fix go (l : list ms) : Prop := match l with [] => True | x :: r => vliftable x /\ go r end) xs
  | _ => True
  end.

Definition ne {X} (l : list X) : bool := match l with [] => false | _ => true end.

Lemma ne_iff {X} (l : list X) : ne l = true <-> l <> [].
Proof. destruct l; cbn; split; congruence. Qed.
Lemma ne_app {X} (a b : list X) : ne (a ++ b) = ne a || ne b.
Proof. destruct a; reflexivity. Qed.
Lemma ne_map {X Y} (f : X -> Y) l : ne (map f l) = ne l.
Proof. destruct l; reflexivity. Qed.
Lemma ne_cross a b : ne (cross a b) = ne a && ne b.
Proof.
  unfold cross. induction a as [|x r IH]; cbn [flat_map]; [reflexivity|].
  rewrite ne_app, ne_map, IH. destruct b; cbn; [destruct (ne r); reflexivity | reflexivity].
Qed.

Lemma ev_and W a b : evals W (SThresh 2 [a; b]) = evals W a && evals W b.
Proof. cbn. destruct (evals W a), (evals W b); reflexivity. Qed.
Lemma ev_or W a b : evals W (SThresh 1 [a; b]) = evals W a || evals W b.
Proof. cbn. destruct (evals W a), (evals W b); reflexivity. Qed.

Lemma countb_filter {X} (f : X -> bool) l : countb (map f l) = N.of_nat (length (filter f l)).
Proof.
  induction l as [|x r IH]; cbn [map countb filter]; [reflexivity|]. rewrite IH.
  destruct (f x); cbn [length]; lia.
Qed.

Lemma leb_N_nat k n : N.leb k (N.of_nat n) = Nat.leb (N.to_nat k) n.
Proof.
  destruct (N.leb_spec k (N.of_nat n)); symmetry; [apply Nat.leb_le | apply Nat.leb_gt]; lia.
Qed.

(* exactly-k choice among children that can all be dissatisfied: possible iff k <= #satisfiable *)
Lemma thresh_comb_ne cs : (forall c, In c cs -> ne (snd c) = true) ->
  forall k, ne (thresh_comb k cs) = Nat.leb k (length (filter (fun c => ne (fst c)) cs)).
Proof.
  induction cs as [|[s d] r IH]; intros Hd k.
  - destruct k; reflexivity.
  - cbn [thresh_comb filter fst].
    pose proof (Hd (s, d) (or_introl eq_refl)) as Hd0. cbn [snd] in Hd0.
    assert (Hr : forall c, In c r -> ne (snd c) = true) by (intros; apply Hd; right; assumption).
    rewrite ne_app, (ne_cross d), Hd0, (IH Hr k). cbn [andb].
    destruct k as [|k'].
    + cbn. reflexivity.
    + rewrite ne_cross, (IH Hr k'). destruct (ne s); cbn [andb orb length].
      * destruct (Nat.leb_spec k' (length (filter (fun c => ne (fst c)) r)));
          destruct (Nat.leb_spec (S k') (length (filter (fun c => ne (fst c)) r)));
          destruct (Nat.leb_spec (S k') (S (length (filter (fun c => ne (fst c)) r)))); try reflexivity; lia.
      * reflexivity.
Qed.

Lemma perm_filter {X} (f : X -> bool) l l' : Permutation l l' -> Permutation (filter f l) (filter f l').
Proof.
  induction 1; cbn.
  - constructor.
  - destruct (f x); [constructor|]; assumption.
  - destruct (f x), (f y); try apply Permutation_refl; apply perm_swap.
  - eapply perm_trans; eassumption.
Qed.

Section LiftTable.
  Variable ke : keyenv.
  Variable A : assets.
  Variable W : world.
  Hypothesis Hsort : forall ks, Permutation (ksort ke ks) ks.
  Hypothesis HAW : assets_match A W.

  Let has_sig (k : key) : bool := match a_sig A k with Some _ => true | None => false end.

  Lemma key_sig k : w_key W k = has_sig k.
  Proof.
    destruct HAW as (HK & _). unfold has_sig. specialize (HK k).
    destruct (a_sig A k); destruct (w_key W k); try reflexivity.
    - destruct HK as [_ HK]. assert (Some b <> None) by discriminate. specialize (HK H). discriminate.
    - destruct HK as [HK _]. specialize (HK eq_refl). congruence.
  Qed.

  Lemma pick_sigs_ne ks : forall k, ne (pick_sigs A k ks) = Nat.leb k (length (filter has_sig ks)).
  Proof.
    induction ks as [|key r IH]; intro k; [destruct k; reflexivity|].
    cbn [pick_sigs filter]. rewrite ne_app, IH.
    assert (Hs : has_sig key = match a_sig A key with Some _ => true | None => false end) by reflexivity.
    rewrite Hs. clear Hs.
    destruct k as [|k'].
    - destruct (a_sig A key); reflexivity.
    - destruct (a_sig A key); cbn [orb length].
      + rewrite ne_map, IH.
        destruct (Nat.leb_spec k' (length (filter has_sig r)));
          destruct (Nat.leb_spec (S k') (length (filter has_sig r)));
          destruct (Nat.leb_spec (S k') (S (length (filter has_sig r)))); try reflexivity; lia.
      + reflexivity.
  Qed.

  Lemma pick_sigs_a_ne ks : forall k, ne (pick_sigs_a A k ks) = Nat.leb k (length (filter has_sig ks)).
  Proof.
    induction ks as [|key r IH]; intro k; [destruct k; reflexivity|].
    cbn [pick_sigs_a filter]. rewrite ne_app, ne_map, IH.
    assert (Hs : has_sig key = match a_sig A key with Some _ => true | None => false end) by reflexivity.
    rewrite Hs. clear Hs.
    destruct k as [|k'].
    - destruct (a_sig A key); reflexivity.
    - destruct (a_sig A key); cbn [orb length].
      + rewrite ne_map, IH.
        destruct (Nat.leb_spec k' (length (filter has_sig r)));
          destruct (Nat.leb_spec (S k') (length (filter has_sig r)));
          destruct (Nat.leb_spec (S k') (S (length (filter has_sig r)))); try reflexivity; lia.
      + reflexivity.
  Qed.

  Lemma ev_multi k ks : evals W (SThresh k (map SKey ks)) = Nat.leb (N.to_nat k) (length (filter has_sig ks)).
  Proof.
    cbn [evals]. rewrite map_map. cbn [evals]. rewrite (map_ext _ has_sig) by apply key_sig.
    rewrite countb_filter. apply leb_N_nat.
  Qed.

  Lemma sorted_count ks : length (filter has_sig (ksort ke ks)) = length (filter has_sig ks).
  Proof. apply Permutation_length. apply perm_filter. apply Hsort. Qed.

  (* ---- unfolding of the table ---- *)
  Notation S m := (fst (sd ke A m)).
  Notation D m := (snd (sd ke A m)).

  Lemma sd_andv x y : sd ke A (MAndV x y) = (cross (S x) (S y), cross (S x) (D y)).
  Proof. cbn [sd]. destruct (sd ke A x), (sd ke A y); reflexivity. Qed.
  Lemma sd_andb x y : sd ke A (MAndB x y) = (cross (S x) (S y), cross (D x) (D y)).
  Proof. cbn [sd]. destruct (sd ke A x), (sd ke A y); reflexivity. Qed.
  Lemma sd_andor a b c : sd ke A (MAndOr a b c) = (cross (S a) (S b) ++ cross (D a) (S c), cross (D a) (D c)).
  Proof. cbn [sd]. destruct (sd ke A a), (sd ke A b), (sd ke A c); reflexivity. Qed.
  Lemma sd_orb x z : sd ke A (MOrB x z) = (cross (D x) (S z) ++ cross (S x) (D z), cross (D x) (D z)).
  Proof. cbn [sd]. destruct (sd ke A x), (sd ke A z); reflexivity. Qed.
  Lemma sd_orc x z : sd ke A (MOrC x z) = (S x ++ cross (D x) (S z), []).
  Proof. cbn [sd]. destruct (sd ke A x), (sd ke A z); reflexivity. Qed.
  Lemma sd_ord x z : sd ke A (MOrD x z) = (S x ++ cross (D x) (S z), cross (D x) (D z)).
  Proof. cbn [sd]. destruct (sd ke A x), (sd ke A z); reflexivity. Qed.
  Lemma sd_ori x z : sd ke A (MOrI x z) =
    (map (cons [1%N]) (S x) ++ map (cons []) (S z), map (cons [1%N]) (D x) ++ map (cons []) (D z)).
  Proof. cbn [sd]. destruct (sd ke A x), (sd ke A z); reflexivity. Qed.
  Lemma sd_thresh k xs : sd ke A (MThresh k xs) =
    (thresh_comb (N.to_nat k) (map (sd ke A) xs), thresh_comb 0 (map (sd ke A) xs)).
  Proof.
    cbn [sd].
    assert (E : (fix go (l : list ms) : list (list wit * list wit) :=
                   match l with [] => [] | x :: r => sd ke A x :: go r end) xs = map (sd ke A) xs)
      by (induction xs as [|x r IH]; cbn; congruence).
    rewrite E. reflexivity.
  Qed.

  Definition stmt (m : ms) : Prop :=
    forall t, type_of m = ROk t -> vliftable m ->
              evals W (lift_ms m) = ne (S m) /\ (c_dissat (t_corr t) = true -> ne (D m) = true).

  Ltac inv_rbind H :=
    repeat match type of H with
           | rbind ?r _ = ROk _ =>
             let a := fresh "tx" in let E := fresh "Ety" in
             destruct r as [a|] eqn:E; cbn [rbind] in H; [|discriminate]
           end.

  (* split a type into fields and normalise a rule application *)
  Ltac fields t := destruct t as [[? ? ? ?] [? ? ?]].
  Ltac rule H :=
    unfold t_cast_alt, t_cast_swap, t_cast_check, t_cast_dupif, t_cast_verify, t_cast_nonzero, t_cast_zeronotequal,
      t_and_v, t_and_b, t_or_b, t_or_c, t_or_d, t_or_i, t_and_or, lift1, lift2,
      c_cast_alt, c_cast_swap, c_cast_check, c_cast_dupif, c_cast_verify, c_cast_nonzero, c_cast_zeronotequal,
      c_and_v, c_and_b, c_or_b, c_or_c, c_or_d, c_or_i, c_and_or in H; cbn in H.

  Lemma hash_case look h (Hl : forall x, look x <> None -> True) :
    ne (fst (hash_sd look h)) = match look h with Some _ => true | None => false end
    /\ ne (snd (hash_sd look h)) = true.
  Proof. unfold hash_sd. cbn. destruct (look h); split; reflexivity. Qed.

  Lemma pre_look (hk : vhash) (look : bytes -> option bytes) h :
    (forall x, w_pre W hk x = true <-> look x <> None) ->
    w_pre W hk h = match look h with Some _ => true | None => false end.
  Proof.
    intro H. specialize (H h). destruct (look h); destruct (w_pre W hk h); try reflexivity.
    - destruct H as [_ H]. assert (Some b <> None) by discriminate. specialize (H H0). discriminate.
    - destruct H as [H _]. specialize (H eq_refl). congruence.
  Qed.

  Lemma tys_spec xs : forall ts,
    (fix go (l : list ms) : res (list ty) :=
       match l with
       | [] => ROk []
       | x :: r => rbind (type_of x) (fun t => rbind (go r) (fun ts => ROk (t :: ts)))
       end) xs = ROk ts -> Forall2 (fun x t => type_of x = ROk t) xs ts.
  Proof.
    induction xs as [|x r IH]; intros ts H.
    - inversion H. constructor.
    - destruct (type_of x) as [t|] eqn:E; cbn [rbind] in H; [|discriminate].
      match type of H with rbind ?g _ = _ => destruct g as [ts'|] eqn:E2; cbn [rbind] in H; [|discriminate] end.
      inversion H; subst. constructor; [exact E | apply IH; reflexivity].
  Qed.

  Lemma thresh_loop_dissat subs : forall i n r,
    c_thresh_loop i n subs = ROk r -> Forall (fun s => c_dissat s = true) subs.
  Proof.
    induction subs as [|s rest IH]; intros i n r H; [constructor|].
    cbn [c_thresh_loop] in H.
    destruct (N.eqb i 0 && negb (base_eqb (c_base s) BB)); [discriminate|].
    destruct (negb (N.eqb i 0) && negb (base_eqb (c_base s) BW)); [discriminate|].
    destruct (negb (c_unit s)); [discriminate|].
    destruct (c_dissat s) eqn:E; cbn [negb] in H; [|discriminate].
    constructor; [exact E | eapply IH; exact H].
  Qed.

  Lemma vliftable_thresh k xs : vliftable (MThresh k xs) -> Forall vliftable xs.
  Proof. cbn [vliftable]. induction xs as [|x r IH]; intro H; constructor; [apply H | apply IH; apply H]. Qed.

  Theorem lift_table_stmt : forall m, stmt m.
  Proof.
    destruct HAW as (HK & HS & HH & HR & HH1 & HAf & HOl).
    induction m using ms_ind'; unfold stmt; intros ty0 Ht Hl; cbn [type_of] in Ht; cbn [lift_ms].
    - (* True *) inversion Ht; subst. split; [reflexivity | discriminate].
    - (* False *) inversion Ht; subst. split; reflexivity.
    - (* PkK *) inversion Ht; subst. cbn [evals sd fst snd]. rewrite ne_map, key_sig. unfold has_sig.
      destruct (a_sig A k); split; reflexivity.
    - (* PkH *) inversion Ht; subst. cbn [evals sd fst snd]. rewrite ne_map, key_sig. unfold has_sig.
      destruct (a_sig A k); split; reflexivity.
    - (* RawPkH *) destruct Hl.
    - (* After *) inversion Ht; subst. cbn [evals sd fst snd]. rewrite HAf. destruct (a_after A t); split; (reflexivity || discriminate).
    - (* Older *) inversion Ht; subst. cbn [evals sd fst snd]. rewrite HOl. destruct (a_older A t); split; (reflexivity || discriminate).
    - (* Sha256 *) inversion Ht; subst. cbn [evals sd]. rewrite (pre_look VSha256 (a_sha256 A) h HS).
      unfold hash_sd. cbn. destruct (a_sha256 A h); split; reflexivity.
    - inversion Ht; subst. cbn [evals sd]. rewrite (pre_look VHash256 (a_hash256 A) h HH).
      unfold hash_sd. cbn. destruct (a_hash256 A h); split; reflexivity.
    - inversion Ht; subst. cbn [evals sd]. rewrite (pre_look VRipemd160 (a_ripemd160 A) h HR).
      unfold hash_sd. cbn. destruct (a_ripemd160 A h); split; reflexivity.
    - inversion Ht; subst. cbn [evals sd]. rewrite (pre_look VHash160 (a_hash160 A) h HH1).
      unfold hash_sd. cbn. destruct (a_hash160 A h); split; reflexivity.
    - (* Alt *) inv_rbind Ht. destruct (IHm tx Ety Hl) as [I1 I2]. cbn [sd]. split; [exact I1|].
      fields tx. rule Ht. destruct c_base; try discriminate. inversion Ht; subst. exact I2.
    - (* Swap *) inv_rbind Ht. destruct (IHm tx Ety Hl) as [I1 I2]. cbn [sd]. split; [exact I1|].
      fields tx. rule Ht. destruct c_base; try discriminate; destruct c_input; try discriminate; inversion Ht; subst; exact I2.
    - (* Check *) inv_rbind Ht. destruct (IHm tx Ety Hl) as [I1 I2]. cbn [sd]. split; [exact I1|].
      fields tx. rule Ht. destruct c_base; try discriminate. inversion Ht; subst. exact I2.
    - (* DupIf *) inv_rbind Ht. destruct (IHm tx Ety Hl) as [I1 I2]. cbn [sd fst snd]. rewrite ne_map. split; [exact I1 | reflexivity].
    - (* Verify *) inv_rbind Ht. destruct (IHm tx Ety Hl) as [I1 I2]. cbn [sd fst snd]. split; [exact I1|].
      fields tx. rule Ht. destruct c_base; try discriminate. inversion Ht; subst. discriminate.
    - (* NonZero *) inv_rbind Ht. destruct (IHm tx Ety Hl) as [I1 I2]. cbn [sd fst snd]. split; [exact I1 | reflexivity].
    - (* ZeroNotEqual *) inv_rbind Ht. destruct (IHm tx Ety Hl) as [I1 I2]. cbn [sd]. split; [exact I1|].
      fields tx. rule Ht. destruct c_base; try discriminate. inversion Ht; subst. exact I2.
    - (* AndV *) inv_rbind Ht. destruct Hl as [Hl1 Hl2].
      destruct (IHm1 tx Ety Hl1) as [I1 _]. destruct (IHm2 tx0 Ety0 Hl2) as [J1 _].
      rewrite ev_and, sd_andv. cbn [fst snd]. rewrite ne_cross, I1, J1. split; [reflexivity|].
      fields tx; fields tx0. rule Ht. destruct c_base, c_base0; try discriminate; inversion Ht; subst; discriminate.
    - (* AndB *) inv_rbind Ht. destruct Hl as [Hl1 Hl2].
      destruct (IHm1 tx Ety Hl1) as [I1 I2]. destruct (IHm2 tx0 Ety0 Hl2) as [J1 J2].
      rewrite ev_and, sd_andb. cbn [fst snd]. rewrite !ne_cross, I1, J1. split; [reflexivity|].
      fields tx; fields tx0. rule Ht. destruct c_base, c_base0; try discriminate. inversion Ht; subst. cbn.
      intro Hd. apply andb_true_iff in Hd as [Hd1 Hd2]. rewrite (I2 Hd1), (J2 Hd2). reflexivity.
    - (* AndOr *) inv_rbind Ht. destruct Hl as (Hl1 & Hl2 & Hl3).
      destruct (IHm1 tx Ety Hl1) as [I1 I2]. destruct (IHm2 tx0 Ety0 Hl2) as [J1 J2]. destruct (IHm3 tx1 Ety1 Hl3) as [K1 K2].
      rewrite ev_or, ev_and, sd_andor. cbn [fst snd]. rewrite ne_app, !ne_cross, I1, J1, K1.
      fields tx; fields tx0; fields tx1. rule Ht.
      destruct c_dissat; cbn in Ht; [|discriminate]. destruct c_unit; cbn in Ht; [|discriminate].
      rewrite (I2 eq_refl). cbn [andb].
      destruct c_base, c_base0, c_base1; try discriminate; inversion Ht; subst; (split; [reflexivity | exact K2]).
    - (* OrB *) inv_rbind Ht. destruct Hl as [Hl1 Hl2].
      destruct (IHm1 tx Ety Hl1) as [I1 I2]. destruct (IHm2 tx0 Ety0 Hl2) as [J1 J2].
      rewrite ev_or, sd_orb. cbn [fst snd]. rewrite ne_app, !ne_cross, I1, J1.
      fields tx; fields tx0. rule Ht.
      destruct c_dissat; cbn in Ht; [|discriminate]. destruct c_dissat0; cbn in Ht; [|discriminate].
      rewrite (I2 eq_refl), (J2 eq_refl). cbn [andb]. rewrite andb_true_r.
      split; [apply orb_comm | reflexivity].
    - (* OrD *) inv_rbind Ht. destruct Hl as [Hl1 Hl2].
      destruct (IHm1 tx Ety Hl1) as [I1 I2]. destruct (IHm2 tx0 Ety0 Hl2) as [J1 J2].
      rewrite ev_or, sd_ord. cbn [fst snd]. rewrite ne_app, !ne_cross, I1, J1.
      fields tx; fields tx0. rule Ht.
      destruct c_dissat; cbn in Ht; [|discriminate]. destruct c_unit; cbn in Ht; [|discriminate].
      rewrite (I2 eq_refl). cbn [andb].
      destruct c_base, c_base0; try discriminate. inversion Ht; subst. split; [reflexivity | exact J2].
    - (* OrC *) inv_rbind Ht. destruct Hl as [Hl1 Hl2].
      destruct (IHm1 tx Ety Hl1) as [I1 I2]. destruct (IHm2 tx0 Ety0 Hl2) as [J1 J2].
      rewrite ev_or, sd_orc. cbn [fst snd]. rewrite ne_app, !ne_cross, I1, J1.
      fields tx; fields tx0. rule Ht.
      destruct c_dissat; cbn in Ht; [|discriminate]. destruct c_unit; cbn in Ht; [|discriminate].
      rewrite (I2 eq_refl). cbn [andb].
      destruct c_base, c_base0; try discriminate. inversion Ht; subst. split; [reflexivity | discriminate].
    - (* OrI *) inv_rbind Ht. destruct Hl as [Hl1 Hl2].
      destruct (IHm1 tx Ety Hl1) as [I1 I2]. destruct (IHm2 tx0 Ety0 Hl2) as [J1 J2].
      rewrite ev_or, sd_ori. cbn [fst snd]. rewrite !ne_app, !ne_map, I1, J1. split; [reflexivity|].
      fields tx; fields tx0. rule Ht.
      destruct c_base, c_base0; try discriminate; inversion Ht; subst; cbn [t_corr Types.c_dissat];
        (intro Hd; apply orb_true_iff in Hd as [Hd|Hd]; apply orb_true_iff; [left; apply I2; exact Hd | right; apply J2; exact Hd]).
    - (* Thresh *)
      match type of Ht with rbind ?g _ = _ => destruct g as [ts|] eqn:Ets; cbn [rbind] in Ht; [|discriminate] end.
      apply tys_spec in Ets. apply vliftable_thresh in Hl.
      unfold t_threshold in Ht. destruct (c_threshold k (map t_corr ts)) as [c|] eqn:Ec; [|discriminate].
      inversion Ht; subst. unfold c_threshold in Ec.
      destruct (c_thresh_loop 0 0 (map t_corr ts)) as [n|] eqn:El; [|discriminate].
      apply thresh_loop_dissat in El. inversion Ec; subst. cbn [t_corr c_dissat].
      rewrite sd_thresh. cbn [fst snd evals]. rewrite map_map.
      assert (Hall : Forall (fun x => evals W (lift_ms x) = ne (S x) /\ ne (D x) = true) xs).
      { clear Ht Ec. revert ts Ets El Hl. induction H as [|x r Hx Hr IH]; intros ts Ets El Hl; [constructor|].
        inversion Ets as [|? t' ? ts' Hxt Hrest]; subst. inversion El; subst. inversion Hl; subst.
        constructor; [|eapply IH; eassumption].
        destruct (Hx t' Hxt) as [I1 I2]; [assumption|]. split; [exact I1 | apply I2; assumption]. }
      assert (Hd : forall c, In c (map (sd ke A) xs) -> ne (snd c) = true).
      { intros c Hc. apply in_map_iff in Hc as (x & <- & Hx). rewrite Forall_forall in Hall. apply (Hall x Hx). }
      rewrite !(thresh_comb_ne _ Hd). split; [|reflexivity].
      rewrite (map_ext_in _ (fun x => ne (S x))).
      2:{ intros x Hx. rewrite Forall_forall in Hall. apply (Hall x Hx). }
      rewrite countb_filter, leb_N_nat. f_equal.
      clear. induction xs as [|x r IH]; cbn [map filter fst]; [reflexivity|]. destruct (ne (S x)); cbn [length]; congruence.
    - (* Multi *) inversion Ht; subst. rewrite ev_multi. cbn [sd fst snd]. rewrite ne_map, pick_sigs_ne. split; reflexivity.
    - (* SortedMulti *) inversion Ht; subst. rewrite ev_multi. cbn [sd fst snd]. rewrite ne_map, pick_sigs_ne, sorted_count. split; reflexivity.
    - (* MultiA *) inversion Ht; subst. rewrite ev_multi. cbn [sd fst snd]. rewrite pick_sigs_a_ne. split; reflexivity.
    - (* SortedMultiA *) inversion Ht; subst. rewrite ev_multi. cbn [sd fst snd]. rewrite pick_sigs_a_ne, sorted_count. split; reflexivity.
  Qed.
End LiftTable.

Theorem lift_table_partial ke A W m t :
  (forall ks, Permutation (ksort ke ks) ks) ->
  assets_match A W -> type_of m = ROk t -> vliftable m ->
  (evals W (lift_ms m) = true <-> all_sat ke A m <> []).
Proof.
  intros Hs HAW Ht Hl. destruct (lift_table_stmt ke A W Hs HAW m t Ht Hl) as [E _].
  unfold all_sat. rewrite E. apply ne_iff.
Qed.

(* dissatisfiable by type => the table lists a dissatisfaction (whatever the assets) *)
Theorem dissat_table ke A W m t :
  (forall ks, Permutation (ksort ke ks) ks) ->
  assets_match A W -> type_of m = ROk t -> vliftable m -> c_dissat (t_corr t) = true ->
  all_dsat ke A m <> [].
Proof.
  intros Hs HAW Ht Hl Hd. destruct (lift_table_stmt ke A W Hs HAW m t Ht Hl) as [_ E].
  unfold all_dsat. apply ne_iff. apply E. exact Hd.
Qed.
