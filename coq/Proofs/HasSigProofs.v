(* C03 bookkeeping: in non-malleable mode a (dis)satisfaction marked has_sig = false contains
   no signature placeholder — a third party can build it without any signature. *)
From Verif Require Import Exec Ser Ast Types TypeCheck SatSpec Sat ExecLemmas TheoremA SatProofs.
From Coq Require Import Lia.

Section HasSig.
  Variable ke : keyenv.
  Variable se : senv.

  Definition nosig (p : ph) : Prop := match p with PhSig _ => False | _ => True end.
  Definition P (s : satn) : Prop := s_has_sig s = false -> forall l, s_stack s = WStack l -> Forall nosig l.

  Lemma P_imp : P IMPOSSIBLE. Proof. intros _ l H. discriminate. Qed.
  Lemma P_unavail : P UNAVAILABLE. Proof. intros _ l H. discriminate. Qed.
  Lemma P_trivial : P TRIVIAL. Proof. intros _ l H. inversion H. constructor. Qed.
  Lemma P_push0 : P push_0. Proof. intros _ l H. inversion H. repeat constructor. Qed.

  Lemma P_concat a b : P a -> P b -> P (concatenate_rev a b).
  Proof.
    intros Ha Hb Hs l Hl. unfold concatenate_rev in *.
    destruct (is_imp (s_stack a) || is_imp (s_stack b)); [discriminate|].
    destruct (merge_lock rel_max (s_rel a) (s_rel b)); [|discriminate].
    destruct (merge_lock abs_max (s_abs a) (s_abs b)); [|discriminate].
    cbn [s_has_sig s_stack] in *. apply Bool.orb_false_iff in Hs. destruct Hs as [H1 H2].
    destruct (s_stack a) as [la| |] eqn:Ea, (s_stack b) as [lb| |] eqn:Eb; cbn in Hl; try discriminate.
    inversion Hl; subst. apply Forall_app. split; [apply Hb | apply Ha]; auto.
  Qed.
  Lemma P_minimum a b : P a -> P b -> P (minimum se a b).
  Proof.
    intros Ha Hb. unfold minimum. destruct (is_imp (s_stack a)); [exact Hb|]. destruct (is_imp (s_stack b)); [exact Ha|].
    destruct (s_has_sig a) eqn:Sa, (s_has_sig b) eqn:Sb.
    - destruct (wit_lt se (s_stack a) (s_stack b)); intros H; discriminate.
    - intros _ l Hl. cbn in Hl. apply Hb; auto.
    - intros _ l Hl. cbn in Hl. apply Ha; auto.
    - apply P_unavail.
  Qed.
  Lemma P_with_stack a p : nosig p -> P a -> P (with_stack a (wcombine (s_stack a) (WStack [p]))).
  Proof.
    intros Hp Ha Hs l Hl. cbn [with_stack s_has_sig s_stack] in *.
    destruct (s_stack a) as [la| |] eqn:Ea; cbn in Hl; try discriminate. inversion Hl; subst.
    apply Forall_app. split; [apply Ha; auto | repeat constructor; exact Hp].
  Qed.
  Lemma P_flatten l : Forall P l -> forall acc, P acc -> P (fold_left concatenate_rev l acc).
  Proof. induction 1 as [|x r Hx Hr IH]; intros acc Hacc; cbn [fold_left]; [exact Hacc|]. apply IH. apply P_concat; assumption. Qed.

  Lemma P_swap chosen (dissats sats : list satn) : Forall P dissats -> Forall P sats -> Forall P (swap_in chosen dissats sats).
  Proof.
    intros Hd Hs. unfold swap_in. apply Forall_forall. intros x Hx. apply in_map_iff in Hx. destruct Hx as [[i d] [<- Hin]].
    cbn [fst snd]. destruct (existsb (Nat.eqb i) chosen).
    - unfold nth_sat. destruct (nth_in_or_default i sats IMPOSSIBLE) as [H|H]; [rewrite Forall_forall in Hs; apply Hs, H | rewrite H; apply P_imp].
    - apply in_combine_r in Hin. rewrite Forall_forall in Hd. apply Hd, Hin.
  Qed.

  Lemma nosig_repeat n : Forall nosig (repeat PhPushZero n).
  Proof. induction n; cbn; constructor; [exact I | assumption]. Qed.

  Theorem hassig_bookkeeping rhs : forall m,
    P (fst (sat_dissat ke se false rhs m)) /\ P (snd (sat_dissat ke se false rhs m)).
  Proof.
    induction m using ms_ind'; cbn [sat_dissat].
    - split; [apply P_imp | apply P_trivial].
    - split; [apply P_trivial | apply P_imp].
    - split; [apply P_push0 | intros H; discriminate].
    - split; [|intros H; discriminate]. intros _ l H. cbn in H. inversion H. repeat constructor.
    - split; apply P_imp.
    - unfold sd_time. split; [apply P_imp|]. intros _ l H. cbn in H. destruct (se_after se t); [|destruct rhs; discriminate]. inversion H. constructor.
    - unfold sd_time. split; [apply P_imp|]. intros _ l H. cbn in H. destruct (se_older se t); [|destruct rhs; discriminate]. inversion H. constructor.
    - unfold sd_hash, w_preimage. split; intros _ l H; cbn in H; [inversion H; repeat constructor|]. destruct (se_pre se HSha256 h); inversion H. repeat constructor.
    - unfold sd_hash, w_preimage. split; intros _ l H; cbn in H; [inversion H; repeat constructor|]. destruct (se_pre se HHash256 h); inversion H. repeat constructor.
    - unfold sd_hash, w_preimage. split; intros _ l H; cbn in H; [inversion H; repeat constructor|]. destruct (se_pre se HRipemd160 h); inversion H. repeat constructor.
    - unfold sd_hash, w_preimage. split; intros _ l H; cbn in H; [inversion H; repeat constructor|]. destruct (se_pre se HHash160 h); inversion H. repeat constructor.
    - exact IHm. - exact IHm. - exact IHm.
    - destruct (sat_dissat ke se false rhs m) as [d0 sub]. destruct IHm as [_ Hs]. cbn [fst snd] in *.
      split; [apply P_push0 | apply P_with_stack; [exact I | exact Hs]].
    - destruct (sat_dissat ke se false rhs m) as [d0 sub]. destruct IHm as [_ Hs]. split; [apply P_imp | exact Hs].
    - destruct (sat_dissat ke se false rhs m) as [d0 sub]. destruct IHm as [_ Hs]. split; [apply P_push0 | exact Hs].
    - exact IHm.
    - destruct (sat_dissat ke se false rhs m1) as [ld ls], (sat_dissat ke se false rhs m2) as [rd rs].
      destruct IHm1 as [H1 H2], IHm2 as [H3 H4]. cbn [fst snd] in *. split; apply P_concat; assumption.
    - destruct (sat_dissat ke se false rhs m1) as [ld ls], (sat_dissat ke se false rhs m2) as [rd rs].
      destruct IHm1 as [H1 H2], IHm2 as [H3 H4]. cbn [fst snd] in *. split; apply P_concat; assumption.
    - destruct (sat_dissat ke se false rhs m1) as [ad asat], (sat_dissat ke se false rhs m2) as [bd bs], (sat_dissat ke se false rhs m3) as [cd cs].
      destruct IHm1 as [H1 H2], IHm2 as [H3 H4], IHm3 as [H5 H6]. cbn [fst snd] in *.
      split; [apply P_concat; assumption | apply P_minimum; apply P_concat; assumption].
    - destruct (sat_dissat ke se false rhs m1) as [ld ls], (sat_dissat ke se false rhs m2) as [rd rs].
      destruct IHm1 as [H1 H2], IHm2 as [H3 H4]. cbn [fst snd] in *.
      split; [apply P_concat; assumption | apply P_minimum; apply P_concat; assumption].
    - destruct (sat_dissat ke se false rhs m1) as [ld ls], (sat_dissat ke se false rhs m2) as [rd rs].
      destruct IHm1 as [H1 H2], IHm2 as [H3 H4]. cbn [fst snd] in *.
      split; [apply P_concat; assumption | apply P_minimum; [assumption | apply P_concat; assumption]].
    - destruct (sat_dissat ke se false rhs m1) as [ld ls], (sat_dissat ke se false rhs m2) as [rd rs].
      destruct IHm1 as [H1 H2], IHm2 as [H3 H4]. cbn [fst snd] in *.
      split; [apply P_imp | apply P_minimum; [assumption | apply P_concat; assumption]].
    - destruct (sat_dissat ke se false rhs m1) as [ld ls], (sat_dissat ke se false rhs m2) as [rd rs].
      destruct IHm1 as [H1 H2], IHm2 as [H3 H4]. cbn [fst snd] in *.
      split; apply P_minimum; apply P_with_stack; try exact I; assumption.
    - rewrite (ds_thresh ke se false rhs xs). set (ds := map (sat_dissat ke se false rhs) xs).
      assert (Hd : Forall P (map fst ds) /\ Forall P (map snd ds)).
      { unfold ds. clear -H. induction H as [|x r [Hx1 Hx2] Hr [IH1 IH2]]; cbn [map]; split; constructor; assumption. }
      destruct Hd as [Hd Hs]. cbn [fst snd]. split.
      + apply P_flatten; [exact Hd | apply P_trivial].
      + destruct (N.eqb k (N.of_nat (length xs))).
        * apply P_flatten; [exact Hs | apply P_trivial].
        * unfold thresh_nonmall. cbv zeta. destruct (is_imp _); [apply P_imp|]. destruct (negb _ && negb _); [apply P_unavail|].
          apply P_flatten; [apply P_swap; assumption | apply P_trivial].
    - unfold sd_multi. cbv zeta. destruct (Nat.ltb _ _); cbn [fst snd];
      (split; [intros _ l Hl; cbn in Hl; inversion Hl; apply (nosig_repeat (S (N.to_nat k))) | try apply P_imp; intros Hq; discriminate]).
    - unfold sd_multi. cbv zeta. destruct (Nat.ltb _ _); cbn [fst snd];
      (split; [intros _ l Hl; cbn in Hl; inversion Hl; apply (nosig_repeat (S (N.to_nat k))) | try apply P_imp; intros Hq; discriminate]).
    - unfold sd_multi_a. cbv zeta. destruct (Nat.ltb _ _); cbn [fst snd];
      (split; [intros _ l Hl; cbn in Hl; inversion Hl; apply nosig_repeat | try apply P_imp; intros Hq; discriminate]).
    - unfold sd_multi_a. cbv zeta. destruct (Nat.ltb _ _); cbn [fst snd];
      (split; [intros _ l Hl; cbn in Hl; inversion Hl; apply nosig_repeat | try apply P_imp; intros Hq; discriminate]).
  Qed.
End HasSig.
