(* tree_rt, second half: every string pass 1 accepts is the text of a tree.  A frame machine
   rebuilds the tree while pass 1 scans; its partial text is always the consumed prefix. *)
From Coq Require Import List Bool Arith NArith Lia.
From Verif Require Import ChecksumModel ChecksumSpec ChecksumVerify ChecksumTheorems
  ExprTreeModel ExprTreeTotal ExprTreePass2 ExprTreePass1 ExprTreeRt.
Import ListNotations.
Local Open Scope N_scope.

Inductive fcur := FPending (rn : bytes) | FClosed (t : etree).
Record frame := mkFrame { f_name : bytes; f_par : parens; f_done : list etree }.
Definition fstate := (list frame * fcur)%type.

Definition cur_tree (c : fcur) : etree :=
  match c with FPending rn => ENode (rev rn) PNone [] | FClosed t => t end.

Definition fstep (ch : N) (st : fstate) : option fstate :=
  let (fs, c) := st in
  if is_open ch then
    match c with
    | FPending rn => Some (mkFrame (rev rn) (paren_of ch) [] :: fs, FPending [])
    | FClosed _ => None
    end
  else if is_close ch then
    match fs with
    | f :: fs' => Some (fs', FClosed (ENode (f_name f) (f_par f) (f_done f ++ [cur_tree c])))
    | [] => None
    end
  else if ch =? COMMA then
    match fs with
    | f :: fs' => Some (mkFrame (f_name f) (f_par f) (f_done f ++ [cur_tree c]) :: fs', FPending [])
    | [] => None
    end
  else
    match c with
    | FPending rn => Some (fs, FPending (ch :: rn))
    | FClosed _ => None
    end.

Definition done_text (ds : list etree) : bytes := flat_map (fun d => print d ++ [COMMA]) ds.
Definition frame_text (f : frame) : bytes := f_name f ++ open_of (f_par f) ++ done_text (f_done f).
Definition cur_text (c : fcur) : bytes := match c with FPending rn => rev rn | FClosed t => print t end.
Definition ftext (st : fstate) : bytes := flat_map frame_text (rev (fst st)) ++ cur_text (snd st).

Lemma commas_snoc : forall ds x, commas (ds ++ [x]) = done_text ds ++ print x.
Proof.
  induction ds as [|d ds IH]; intro x; [reflexivity|].
  cbn [app]. unfold done_text. cbn [flat_map]. fold (done_text ds).
  destruct ds as [|d2 ds'].
  - cbn [app done_text flat_map]. change (commas [d; x]) with (print d ++ COMMA :: print x).
    rewrite app_nil_r. rewrite <- (app_assoc (print d) [COMMA] (print x)). reflexivity.
  - change (commas (d :: (d2 :: ds') ++ [x])) with (print d ++ COMMA :: commas ((d2 :: ds') ++ [x])).
    rewrite IH. rewrite <- !app_assoc. reflexivity.
Qed.

Lemma cur_text_tree : forall c, print (cur_tree c) = cur_text c.
Proof. intros [rn|t]; [|reflexivity]. cbn [cur_tree cur_text]. rewrite print_eq. cbn. apply app_nil_r. Qed.

Lemma forallb_rev : forall (A : Type) (f : A -> bool) l, forallb f (rev l) = forallb f l.
Proof.
  intros A f l. induction l as [|x l IH]; [reflexivity|]. cbn [rev forallb].
  rewrite forallb_app, IH. cbn [forallb]. rewrite andb_true_r. apply andb_comm.
Qed.

Lemma swf_node : forall name p cs, p <> PNone -> cs <> [] -> forallb nonstruct name = true ->
  Forall (fun t => swf t = true) cs -> swf (ENode name p cs) = true.
Proof.
  intros name p cs Hp Hc Hn HF. cbn [swf]. rewrite Hn. cbn [andb].
  destruct p; [contradiction| |]; (destruct cs as [|c r]; [contradiction|]; apply forallb_forall; rewrite Forall_forall in HF; exact HF).
Qed.

(* ---------------------------------------------------------------- the invariant *)
Definition frame_ok (f : frame) : Prop :=
  forallb nonstruct (f_name f) = true /\ f_par f <> PNone /\ Forall (fun t => swf t = true) (f_done f).
Definition cur_ok (c : fcur) : Prop :=
  match c with FPending rn => forallb nonstruct rn = true | FClosed t => swf t = true end.

Record INVF (len pos : N) (rem : bytes) (st1 : pre_state) (st : fstate) : Prop := mkINVF {
  if_len : pos + blen rem = len;
  if_par : Forall2 (fun f e => open_of (f_par f) = [fst e]) (fst st) (ps_stack st1);
  if_closed : forall t, snd st = FClosed t ->
              match rem with [] => True | x :: _ => is_close x || (x =? COMMA) = true end;
  if_frames : Forall frame_ok (fst st);
  if_cur : cur_ok (snd st) }.

Lemma cur_tree_swf : forall c, cur_ok c -> swf (cur_tree c) = true.
Proof.
  intros [rn|t] H; [|exact H]. cbn [cur_tree swf]. cbn in H. rewrite forallb_rev, H. reflexivity.
Qed.

Lemma paren_of_open : forall ch, is_open ch = true -> open_of (paren_of ch) = [ch] /\ paren_of ch <> PNone.
Proof.
  intros ch H. unfold is_open in H. unfold paren_of. apply orb_true_iff in H. destruct H as [H|H].
  - rewrite H. apply N.eqb_eq in H. subst. split; [reflexivity|discriminate].
  - apply N.eqb_eq in H. subst. split; [reflexivity|discriminate].
Qed.

Lemma close_matches : forall p oc ch, open_of p = [oc] -> is_close ch = true ->
  ((oc =? LPAREN) && (ch =? RBRACE)) || ((oc =? LBRACE) && (ch =? RPAREN)) = false ->
  close_of p = [ch].
Proof.
  intros p oc ch Ho Hc Hm. unfold is_close in Hc. apply orb_true_iff in Hc.
  destruct p; cbn in Ho; try discriminate; injection Ho as <-; cbn [close_of];
    destruct Hc as [Hc|Hc]; apply N.eqb_eq in Hc; subst; try reflexivity; cbn in Hm; discriminate.
Qed.

Lemma fstep_lockstep : forall len pos ch rest st1 st,
  INVF len pos (ch :: rest) st1 st ->
  match pre_step len st1 pos ch rest with
  | Ok st1' => exists st', fstep ch st = Some st' /\ ftext st' = ftext st ++ [ch] /\ INVF len (pos + 1) rest st1' st'
  | _ => True
  end.
Proof.
  intros len pos ch rest st1 [fs c] I. destruct I as [Il Ip Ic If Icu]. cbn [fst snd] in *.
  assert (Hlen : pos + 1 + blen rest = len) by (rewrite <- Il; unfold blen; cbn [length]; lia).
  unfold pre_step, fstep.
  destruct (is_open ch) eqn:Eo.
  { destruct c as [rn|t].
    2:{ specialize (Ic t eq_refl). cbn in Ic. rewrite (open_not_close ch Eo) in Ic. discriminate. }
    destruct (paren_of_open ch Eo) as [Hop Hnp].
    eexists. split; [reflexivity|]. split.
    - unfold ftext. cbn [fst snd rev cur_text]. rewrite flat_map_app. cbn [flat_map].
      unfold frame_text at 2. cbn [f_name f_par f_done done_text flat_map]. rewrite Hop.
      rewrite !app_nil_r. rewrite <- app_assoc. reflexivity.
    - constructor; cbn [fst snd ps_stack].
      + exact Hlen.
      + constructor; [cbn; exact Hop|exact Ip].
      + discriminate.
      + constructor; [|exact If]. split; [cbn [f_name]; rewrite forallb_rev; exact Icu|]. split; [exact Hnp|constructor].
      + reflexivity. }
  destruct (is_close ch) eqn:Ecl.
  { destruct (ps_stack st1) as [|[oc op] stack1] eqn:E1; [exact I|].
    destruct (((oc =? LPAREN) && (ch =? RBRACE)) || ((oc =? LBRACE) && (ch =? RPAREN))) eqn:Em; [exact I|].
    revert Hlen Il. inversion Ip as [|f e fs' stk' Hf Hrest]; subst. intros Hlen Il. cbn [fst] in Hf.
    pose proof (close_matches (f_par f) oc ch Hf Ecl Em) as Hcl.
    revert Hlen Il. inversion If as [|? ? Hfo Hfs]; subst. intros Hlen Il. destruct Hfo as (Hn & Hp & Hd).
    assert (Hswf : swf (ENode (f_name f) (f_par f) (f_done f ++ [cur_tree c])) = true).
    { apply swf_node; try assumption.
      - destruct (f_done f); discriminate.
      - apply Forall_app. split; [exact Hd|]. constructor; [apply cur_tree_swf; exact Icu|constructor]. }
    assert (Htxt : ftext (fs', FClosed (ENode (f_name f) (f_par f) (f_done f ++ [cur_tree c]))) = ftext (f :: fs', c) ++ [ch]).
    { unfold ftext. cbn [fst snd rev cur_text]. rewrite flat_map_app. cbn [flat_map]. rewrite app_nil_r.
      rewrite print_eq, commas_snoc, cur_text_tree, Hcl. unfold frame_text. rewrite <- !app_assoc. reflexivity. }
    assert (Hl0 : len =? 0 = false) by (apply N.eqb_neq; lia).
    destruct stack1 as [|[pc pp] stack1'].
    - rewrite Hl0. destruct (pos <? len - 1) eqn:Elt; [destruct rest; exact I|].
      eexists. split; [reflexivity|]. split; [exact Htxt|].
      assert (rest = []) as -> by (apply N.ltb_ge in Elt; destruct rest; [reflexivity|unfold blen in Hlen; cbn [length] in Hlen; lia]).
      constructor; cbn [fst snd ps_stack]; try assumption.
      + intros _ _. exact I.
    - rewrite Hl0. destruct (pos =? len - 1); [exact I|].
      destruct rest as [|next rest']; [exact I|].
      destruct (negb (next =? RPAREN) && negb (next =? RBRACE) && negb (next =? COMMA)) eqn:En; [exact I|].
      eexists. split; [reflexivity|]. split; [exact Htxt|].
      constructor; cbn [fst snd ps_stack]; try assumption.
      + intros _ _. unfold is_close.
        destruct (next =? RPAREN), (next =? RBRACE), (next =? COMMA); cbn in En; try discriminate; reflexivity. }
  destruct (ch =? COMMA) eqn:Eco.
  { destruct (ps_stack st1) as [|e stack1] eqn:E1; [exact I|].
    revert Hlen Il. inversion Ip as [|f e' fs' stk' Hf Hrest]; subst.
    inversion If as [|? ? Hfo Hfs]; subst. intros Hlen Il. destruct Hfo as (Hn & Hp & Hd).
    eexists. split; [reflexivity|]. split.
    - unfold ftext. cbn [fst snd rev cur_text]. rewrite !flat_map_app. cbn [flat_map]. rewrite !app_nil_r.
      unfold frame_text. cbn [f_name f_par f_done]. unfold done_text. rewrite flat_map_app. cbn [flat_map].
      rewrite cur_text_tree. apply N.eqb_eq in Eco. subst ch. rewrite <- !app_assoc. reflexivity.
    - constructor; cbn [fst snd ps_stack]; try assumption.
      + constructor; [exact Hf|exact Hrest].
      + discriminate.
      + constructor; [|exact Hfs]. split; [exact Hn|]. split; [exact Hp|]. cbn [f_done].
        apply Forall_app. split; [exact Hd|]. constructor; [apply cur_tree_swf; exact Icu|constructor].
      + reflexivity. }
  (* a name character *)
  destruct c as [rn|t].
  2:{ specialize (Ic t eq_refl). cbn in Ic. try rewrite Ecl in Ic. try rewrite Eco in Ic. discriminate. }
  eexists. split; [reflexivity|]. split.
  - unfold ftext. cbn [fst snd cur_text rev]. rewrite app_assoc. reflexivity.
  - destruct st1 as [n1 d1 s1]. constructor; cbn [fst snd ps_stack] in *; try assumption.
    + discriminate.
    + cbn [cur_ok forallb]. unfold nonstruct at 1. rewrite Eo, Ecl, Eco. exact Icu.
Qed.

Fixpoint frun (rem : bytes) (st : fstate) : option fstate :=
  match rem with
  | [] => Some st
  | ch :: rest => match fstep ch st with Some st' => frun rest st' | None => None end
  end.

Lemma frun_lockstep : forall len rem pos st1 st,
  INVF len pos rem st1 st ->
  match pre_loop len st1 pos rem with
  | Ok st1f => exists stf, frun rem st = Some stf /\ ftext stf = ftext st ++ rem /\ INVF len len [] st1f stf
  | _ => True
  end.
Proof.
  intros len rem. induction rem as [|ch rest IH]; intros pos st1 st I.
  - cbn [pre_loop frun]. exists st. split; [reflexivity|]. split; [rewrite app_nil_r; reflexivity|].
    assert (pos = len) as <- by (destruct I as [Il]; unfold blen in Il; cbn in Il; lia). exact I.
  - cbn [pre_loop frun]. pose proof (fstep_lockstep len pos ch rest st1 st I) as S.
    destruct (pre_step len st1 pos ch rest) as [st1'|e|n]; try exact Logic.I.
    destruct S as (st' & E & T & I'). rewrite E. specialize (IH _ _ _ I').
    destruct (pre_loop len st1' (pos + 1) rest) as [st1f|e|n]; try exact Logic.I.
    destruct IH as (stf & E2 & T2 & I2). exists stf. split; [exact E2|]. split; [|exact I2].
    rewrite T2, T. rewrite <- app_assoc. reflexivity.
Qed.

(* every string that pass 1 accepts is the text of a structurally well-formed tree *)
Lemma grammar_complete : forall s st1,
  pre_loop (blen s) (mkPre 1 0 []) 0 s = Ok st1 -> ps_stack st1 = [] ->
  exists t, swf t = true /\ print t = s.
Proof.
  intros s st1 E Es.
  assert (I0 : INVF (blen s) 0 s (mkPre 1 0 []) ([], FPending [])).
  { constructor; cbn [fst snd ps_stack]; try constructor. discriminate. }
  pose proof (frun_lockstep (blen s) s 0 _ _ I0) as L. rewrite E in L.
  destruct L as ([fs c] & _ & T & If). destruct If as [_ Ip _ _ Icu]. cbn [fst snd] in *.
  rewrite Es in Ip. inversion Ip; subst.
  exists (cur_tree c). split; [apply cur_tree_swf; exact Icu|].
  rewrite cur_text_tree. unfold ftext in T. cbn in T. exact T.
Qed.

(* tree_rt, second half: whatever from_str_inner returns is the node vector of a tree whose text is
   the input (without its checksum) *)
Lemma tree_parse_print_lemma : forall s0 nodes, from_str_inner s0 = Ok nodes ->
  exists s t, verify_checksum s0 = Ok s /\ swf t = true /\ depth t <= MAX_RECURSION_DEPTH /\
              print t = s /\ nodes = tree_nodes t.
Proof.
  intros s0 nodes H. pose proof H as H0. unfold from_str_inner, parse_pre_check in H.
  destruct (verify_checksum s0) as [s|e|n] eqn:Ev; try discriminate.
  destruct (pre_loop (blen s) (mkPre 1 0 []) 0 s) as [st1|e|n] eqn:E1; try discriminate.
  destruct (ps_stack st1) as [|[c p] r] eqn:Es; try discriminate.
  destruct (MAX_RECURSION_DEPTH <? ps_depth st1) eqn:Ed; try discriminate.
  destruct (grammar_complete s st1 E1 Es) as (t & St & Pt). subst s.
  rewrite (pre_loop_print t St) in E1. injection E1 as <-. cbn [ps_depth] in Ed.
  destruct (p2_loop_print t St) as (st2 & E2 & Ef).
  pose proof (from_str_inner_finish s0 (print t) (mkPre (size t) (depth t) []) st2 (tree_nodes t)
               Ev (pre_loop_print t St) eq_refl Ed E2 Ef) as F.
  rewrite F in H0. injection H0 as <-.
  exists (print t), t. split; [reflexivity|]. split; [exact St|]. split; [apply N.ltb_ge; exact Ed|].
  split; reflexivity.
Qed.

(* replacing the separator of a checksummed expression whose root has children, together with at
   most one more substitution, can never produce an accepted expression: the text would have to
   continue after the parenthesis that closes the root *)
Lemma print_last_close : forall t, swf t = true -> (match t with ENode _ _ [] => False | _ => True end) ->
  exists body c, print t = body ++ [c] /\ is_close c = true.
Proof.
  intros [name p cs] H Hc. destruct cs as [|c0 r]; [contradiction|]. cbn [swf] in H.
  apply andb_true_iff in H. destruct H as [_ H]. rewrite print_eq.
  destruct p; [discriminate| |].
  - exists (name ++ open_of PRound ++ commas (c0 :: r)), RPAREN. split; [rewrite <- !app_assoc; reflexivity|reflexivity].
  - exists (name ++ open_of PCurly ++ commas (c0 :: r)), RBRACE. split; [rewrite <- !app_assoc; reflexivity|reflexivity].
Qed.

(* ---------------------------------------------------------------- text after the root's closing parenthesis *)
Definition is_err {A} (o : outcome tree_err A) : Prop := match o with Err _ => True | _ => False end.

Lemma kids_pre_trailing : forall (openc closec opos : N),
  is_close closec = true ->
  ((openc =? LPAREN) && (closec =? RBRACE)) || ((openc =? LBRACE) && (closec =? RPAREN)) = false ->
  forall rs, rs <> [] -> Forall P1 rs ->
  forall len nodes dep pos x rest,
    pos + blen (commas rs) + 1 + blen (x :: rest) = len ->
    1 <= dep ->
    is_err (pre_loop len (mkPre nodes dep [(openc, opos)]) pos (commas rs ++ closec :: x :: rest)).
Proof.
  intros openc closec opos Hc Hm rs.
  induction rs as [|c r IH]; intros Hne HF len nodes dep pos x rest Hlen Hdep; [contradiction|].
  pose proof (Forall_inv HF) as Pc. pose proof (Forall_inv_tail HF) as Pr. pose proof (size_pos c) as Sc.
  assert (EX : blen (x :: rest) = 1 + blen rest) by (unfold blen; cbn [length]; lia).
  destruct r as [|c2 r'].
  - change (commas [c]) with (print c) in *.
    assert (ER : blen (closec :: x :: rest) = 2 + blen rest) by (unfold blen; cbn [length]; lia).
    rewrite (Pc len _ pos (closec :: x :: rest)); cbn [ps_nodes ps_depth ps_stack length].
    + cbn [pre_loop]. unfold pre_step at 1. rewrite (is_close_not_open closec Hc), Hc.
      cbn [ps_stack]. rewrite Hm.
      replace (len =? 0) with false by (symmetry; apply N.eqb_neq; lia).
      replace (pos + blen (print c) <? len - 1) with true by (symmetry; apply N.ltb_lt; lia).
      exact I.
    + lia.
    + cbn [N.of_nat]. lia.
    + destruct c as [n0 p0 [|]]; [exact I|]. cbn [follow_ok]. exists closec, (x :: rest). split; [reflexivity|]. rewrite Hc. reflexivity.
  - assert (EB : blen (commas (c :: c2 :: r')) = blen (print c) + 1 + blen (commas (c2 :: r'))).
    { change (commas (c :: c2 :: r')) with (print c ++ COMMA :: commas (c2 :: r')).
      rewrite blen_app2. unfold blen. cbn [length]. lia. }
    rewrite EB in *.
    change (commas (c :: c2 :: r')) with (print c ++ COMMA :: commas (c2 :: r')).
    rewrite <- app_assoc. cbn [app].
    assert (ER : blen (COMMA :: commas (c2 :: r') ++ closec :: x :: rest) = 1 + blen (commas (c2 :: r')) + 2 + blen rest).
    { unfold blen. cbn [length]. rewrite app_length. cbn [length]. lia. }
    rewrite (Pc len _ pos (COMMA :: commas (c2 :: r') ++ closec :: x :: rest)); cbn [ps_nodes ps_depth ps_stack length].
    + cbn [pre_loop]. unfold pre_step at 1. change (is_open COMMA) with false. change (is_close COMMA) with false.
      change (COMMA =? COMMA) with true. cbv iota. cbn [ps_stack ps_nodes ps_depth].
      apply IH; try assumption; try discriminate; lia.
    + rewrite ER. lia.
    + cbn [N.of_nat]. lia.
    + destruct c as [n0 p0 [|]]; [exact I|]. cbn [follow_ok]. exists COMMA, (commas (c2 :: r') ++ closec :: x :: rest). split; reflexivity.
Qed.

Lemma pre_loop_trailing : forall t x rest, swf t = true ->
  (match t with ENode _ _ [] => False | _ => True end) ->
  is_err (pre_loop (blen (print t ++ x :: rest)) (mkPre 1 0 []) 0 (print t ++ x :: rest)).
Proof.
  intros [name p cs] x rest H Hint. destruct cs as [|c0 r0]; [contradiction|].
  cbn [swf] in H. apply andb_true_iff in H. destruct H as [Hn Hk].
  assert (HF : Forall P1 (c0 :: r0)).
  { destruct p; [discriminate| |]; (rewrite forallb_forall in Hk; apply Forall_forall; intros y Hy;
      apply pass1_print; apply Hk; assumption). }
  assert (G : forall openc closec, open_of p = [openc] -> close_of p = [closec] ->
              is_open openc = true -> is_close closec = true ->
              ((openc =? LPAREN) && (closec =? RBRACE)) || ((openc =? LBRACE) && (closec =? RPAREN)) = false ->
              is_err (pre_loop (blen (print (ENode name p (c0 :: r0)) ++ x :: rest)) (mkPre 1 0 []) 0
                               (print (ENode name p (c0 :: r0)) ++ x :: rest))).
  { intros openc closec Ho Hc Io Ic Hm. rewrite print_eq, Ho, Hc.
    set (cs := c0 :: r0) in *.
    replace ((name ++ [openc] ++ commas cs ++ [closec]) ++ x :: rest) with (name ++ openc :: commas cs ++ closec :: x :: rest)
      by (rewrite <- !app_assoc; reflexivity).
    assert (EL : blen (name ++ openc :: commas cs ++ closec :: x :: rest) = blen name + 1 + blen (commas cs) + 1 + blen (x :: rest)).
    { rewrite blen_app2. unfold blen. cbn [length]. rewrite app_length. cbn [length]. lia. }
    rewrite pre_loop_name by assumption. cbn [pre_loop]. unfold pre_step at 1. rewrite Io.
    cbn [ps_stack ps_nodes ps_depth length].
    apply kids_pre_trailing; try assumption; try discriminate.
    all: try (rewrite EL; lia).
    all: try (change (0 <? N.of_nat 1) with true; cbv iota; cbn; lia). }
  destruct p; [discriminate| |].
  - apply (G LPAREN RPAREN); reflexivity.
  - apply (G LBRACE RBRACE); reflexivity.
Qed.

(* The single substitution the checksum cannot see — the separator '#' replaced by another
   character — is rejected by the expression parser whenever the root of the expression has children. *)
Lemma sep_replaced_rejected_lemma : forall p cs x nodes,
  from_str_inner (p ++ HASH :: cs) = Ok nodes -> verify_checksum (p ++ HASH :: cs) = Ok p ->
  (exists nd, nth_error nodes 0 = Some nd /\ nd_parens nd <> PNone) ->
  verify_checksum (p ++ x :: cs) = Ok (p ++ x :: cs) ->
  rejected_t (from_str_inner (p ++ x :: cs)).
Proof.
  intros p cs x nodes H Hv (nd & Hnd & Hpar) Hv'.
  destruct (tree_parse_print_lemma _ _ H) as (s & t & Ev & St & _ & Pt & En).
  rewrite Hv in Ev. injection Ev as <-.
  assert (Hint : match t with ENode _ _ [] => False | _ => True end).
  { destruct t as [name q [|c r]]; [|exact I]. subst nodes. unfold tree_nodes in Hnd. rewrite flatten_eq in Hnd.
    cbn in Hnd. injection Hnd as <-. cbn in Hpar. cbn [swf] in St. apply andb_true_iff in St. destruct St as [_ St].
    destruct q; [contradiction|discriminate|discriminate]. }
  pose proof (pre_loop_trailing t x cs St Hint) as E. rewrite Pt in E.
  unfold from_str_inner, parse_pre_check. rewrite Hv'.
  destruct (pre_loop (blen (p ++ x :: cs)) (mkPre 1 0 []) 0 (p ++ x :: cs)); try contradiction. exact I.
Qed.
