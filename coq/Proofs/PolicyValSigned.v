(* C08: the type-level label `s` (signed) is sound for the truth-table semantics of the lifted
   policy: a well-typed fragment whose type carries `s` cannot be satisfied, as a policy, by a world
   in which none of its keys signs.  (The validator checks the semantic statement directly as
   well, [sem_signedb]; this theorem gives the attached/recomputed `s` flag its meaning.) *)
From Coq Require Import List Bool NArith ZArith Lia.
From Verif Require Import PolicyVal PolicyValProofs TheoremA PolicyValSat.
Import ListNotations.
Local Open Scope N_scope.

(* multisig thresholds are positive (Threshold::new invariant, enforced by [frag_ok]) *)
Fixpoint kpos (m : ms) : Prop :=
  match m with
  | MMulti k _ | MSortedMulti k _ | MMultiA k _ | MSortedMultiA k _ => 1 <= k
  | MAlt x | MSwap x | MCheck x | MDupIf x | MVerify x | MNonZero x | MZeroNotEqual x => kpos x
  | MAndV x y | MAndB x y | MOrB x y | MOrD x y | MOrC x y | MOrI x y => kpos x /\ kpos y
  | MAndOr a b c => kpos a /\ kpos b /\ kpos c
  | MThresh _ xs => (fix go (l : list ms) : Prop := match l with [] => True | x :: r => kpos x /\ go r end) xs
  | _ => True
  end.

Lemma kpos_thresh k xs : kpos (MThresh k xs) -> Forall kpos xs.
Proof. cbn [kpos]. induction xs as [|x r IH]; intro H; constructor; [apply H | apply IH; apply H]. Qed.

Lemma thresh_loop_signed subs : forall acc du nm,
  fst (fst (m_thresh_loop subs acc du nm)) = acc + countb (map m_signed subs).
Proof.
  induction subs as [|s r IH]; intros acc du nm; cbn [m_thresh_loop map countb fst]; [lia|].
  rewrite IH. destruct (m_signed s); lia.
Qed.

Lemma forall2_length {X Y} (R : X -> Y -> Prop) l1 l2 : Forall2 R l1 l2 -> length l1 = length l2.
Proof. induction 1; cbn; congruence. Qed.

Section Signed.
  Variable W : world.

  Definition sstmt (m : ms) : Prop :=
    forall t, type_of m = ROk t -> kpos m -> m_signed (t_mall t) = true ->
              evals W (lift_ms m) = true -> exists k, In k (keys_s (lift_ms m)) /\ w_key W k = true.

  Ltac inv_rbind H :=
    repeat match type of H with
           | rbind ?r _ = ROk _ =>
             let a := fresh "tx" in let E := fresh "Ety" in
             destruct r as [a|] eqn:E; cbn [rbind] in H; [|discriminate]
           end.
  Ltac fields t := destruct t as [[? ? ? ?] [? ? ?]].
  Ltac rule H :=
    unfold t_cast_alt, t_cast_swap, t_cast_check, t_cast_dupif, t_cast_verify, t_cast_nonzero, t_cast_zeronotequal,
      t_and_v, t_and_b, t_or_b, t_or_c, t_or_d, t_or_i, t_and_or, lift1, lift2 in H; cbn [t_corr t_mall] in H.
  (* a rule application that succeeded: expose the resulting malleability record *)
  Ltac okrule H := match type of H with
                   | match ?c with ROk _ => _ | RErr _ => _ end = ROk _ => destruct c; [|discriminate]; inversion H; subst; clear H
                   end.

  Lemma keys2 a b k : In k (keys_s a) \/ In k (keys_s b) -> In k (keys_s (SThresh 2 [a; b])).
  Proof. cbn [keys_s flat_map]. rewrite app_nil_r. intros [H|H]; apply in_or_app; auto. Qed.
  Lemma keys1 a b k : In k (keys_s a) \/ In k (keys_s b) -> In k (keys_s (SThresh 1 [a; b])).
  Proof. cbn [keys_s flat_map]. rewrite app_nil_r. intros [H|H]; apply in_or_app; auto. Qed.

  Lemma overlap xs : forall ts,
    Forall2 (fun x t => type_of x = ROk t) xs ts ->
    N.of_nat (length xs) < countb (map (fun x => evals W (lift_ms x)) xs) + countb (map (fun t => m_signed (t_mall t)) ts) ->
    exists x t, In x xs /\ type_of x = ROk t /\ evals W (lift_ms x) = true /\ m_signed (t_mall t) = true.
  Proof.
    induction xs as [|x r IH]; intros ts HF Hc.
    - inversion HF; subst. cbn [length map countb] in Hc. lia.
    - inversion HF as [|? t ? ts' Hx Hr]; subst. cbn [map countb length] in Hc. rewrite Nat2N.inj_succ in Hc.
      destruct (evals W (lift_ms x)) eqn:E, (m_signed (t_mall t)) eqn:S0.
      + exists x, t. repeat split; auto. left; reflexivity.
      + destruct (IH ts' Hr) as (x' & t' & Hin & H1 & H2 & H3); [lia|]. exists x', t'. repeat split; auto. right; exact Hin.
      + destruct (IH ts' Hr) as (x' & t' & Hin & H1 & H2 & H3); [lia|]. exists x', t'. repeat split; auto. right; exact Hin.
      + destruct (IH ts' Hr) as (x' & t' & Hin & H1 & H2 & H3); [lia|]. exists x', t'. repeat split; auto. right; exact Hin.
  Qed.

  Lemma multi_key k ks : 1 <= k -> evals W (SThresh k (map SKey ks)) = true ->
    exists key, In key (keys_s (SThresh k (map SKey ks))) /\ w_key W key = true.
  Proof.
    intros Hk He. cbn [evals] in He. rewrite map_map in He. cbn [evals] in He. apply N.leb_le in He.
    pose proof (N.le_trans _ _ _ Hk He) as H1.
    apply countb_pos in H1. rewrite existsb_map in H1. apply existsb_exists in H1 as (key & Hin & Hw).
    exists key. split; [|exact Hw]. cbn [keys_s]. apply in_flat_map. exists (SKey key). split; [apply in_map; exact Hin | left; reflexivity].
  Qed.

  Theorem signed_stmt : forall m, sstmt m.
  Proof.
    induction m using ms_ind'; unfold sstmt; intros ty0 Ht Hk Hs He; cbn [type_of] in Ht; cbn [lift_ms] in *.
    - inversion Ht; subst. discriminate.
    - discriminate.
    - exists k. split; [left; reflexivity | exact He].
    - exists k. split; [left; reflexivity | exact He].
    - discriminate.
    - inversion Ht; subst. discriminate.
    - inversion Ht; subst. discriminate.
    - inversion Ht; subst. discriminate.
    - inversion Ht; subst. discriminate.
    - inversion Ht; subst. discriminate.
    - inversion Ht; subst. discriminate.
    - (* Alt *) inv_rbind Ht. apply (IHm tx Ety Hk); [|exact He]. fields tx. rule Ht. okrule Ht. exact Hs.
    - inv_rbind Ht. apply (IHm tx Ety Hk); [|exact He]. fields tx. rule Ht. okrule Ht. exact Hs.
    - inv_rbind Ht. apply (IHm tx Ety Hk); [|exact He]. fields tx. rule Ht. okrule Ht. exact Hs.
    - inv_rbind Ht. apply (IHm tx Ety Hk); [|exact He]. fields tx. rule Ht. okrule Ht. exact Hs.
    - inv_rbind Ht. apply (IHm tx Ety Hk); [|exact He]. fields tx. rule Ht. okrule Ht. exact Hs.
    - inv_rbind Ht. apply (IHm tx Ety Hk); [|exact He]. fields tx. rule Ht. okrule Ht. exact Hs.
    - inv_rbind Ht. apply (IHm tx Ety Hk); [|exact He]. fields tx. rule Ht. okrule Ht. exact Hs.
    - (* AndV *) inv_rbind Ht. destruct Hk as [Hk1 Hk2]. rewrite ev_and in He. apply andb_true_iff in He as [E1 E2].
      fields tx; fields tx0. rule Ht. okrule Ht. cbn in Hs. apply orb_true_iff in Hs as [Hs|Hs].
      + destruct (IHm1 _ Ety Hk1 Hs E1) as (k & Hin & Hw). exists k. split; [apply keys2; auto | exact Hw].
      + destruct (IHm2 _ Ety0 Hk2 Hs E2) as (k & Hin & Hw). exists k. split; [apply keys2; auto | exact Hw].
    - (* AndB *) inv_rbind Ht. destruct Hk as [Hk1 Hk2]. rewrite ev_and in He. apply andb_true_iff in He as [E1 E2].
      fields tx; fields tx0. rule Ht. okrule Ht. cbn in Hs. apply orb_true_iff in Hs as [Hs|Hs].
      + destruct (IHm1 _ Ety Hk1 Hs E1) as (k & Hin & Hw). exists k. split; [apply keys2; auto | exact Hw].
      + destruct (IHm2 _ Ety0 Hk2 Hs E2) as (k & Hin & Hw). exists k. split; [apply keys2; auto | exact Hw].
    - (* AndOr *) inv_rbind Ht. destruct Hk as (Hk1 & Hk2 & Hk3). rewrite ev_or, ev_and in He.
      fields tx; fields tx0; fields tx1. unfold t_and_or in Ht. cbn [t_corr t_mall] in Ht. okrule Ht.
      cbn in Hs. apply andb_true_iff in Hs as [Hab Hc].
      apply orb_true_iff in He as [He|He].
      + apply andb_true_iff in He as [E1 E2]. apply orb_true_iff in Hab as [Hs|Hs].
        * destruct (IHm1 _ Ety Hk1 Hs E1) as (k & Hin & Hw). exists k. split; [apply keys1; left; apply keys2; auto | exact Hw].
        * destruct (IHm2 _ Ety0 Hk2 Hs E2) as (k & Hin & Hw). exists k. split; [apply keys1; left; apply keys2; auto | exact Hw].
      + destruct (IHm3 _ Ety1 Hk3 Hc He) as (k & Hin & Hw). exists k. split; [apply keys1; auto | exact Hw].
    - (* OrB *) inv_rbind Ht. destruct Hk as [Hk1 Hk2]. rewrite ev_or in He.
      fields tx; fields tx0. rule Ht. okrule Ht. cbn in Hs. apply andb_true_iff in Hs as [Hs1 Hs2].
      apply orb_true_iff in He as [He|He].
      + destruct (IHm1 _ Ety Hk1 Hs1 He) as (k & Hin & Hw). exists k. split; [apply keys1; auto | exact Hw].
      + destruct (IHm2 _ Ety0 Hk2 Hs2 He) as (k & Hin & Hw). exists k. split; [apply keys1; auto | exact Hw].
    - (* OrD *) inv_rbind Ht. destruct Hk as [Hk1 Hk2]. rewrite ev_or in He.
      fields tx; fields tx0. rule Ht. okrule Ht. cbn in Hs. apply andb_true_iff in Hs as [Hs1 Hs2].
      apply orb_true_iff in He as [He|He].
      + destruct (IHm1 _ Ety Hk1 Hs1 He) as (k & Hin & Hw). exists k. split; [apply keys1; auto | exact Hw].
      + destruct (IHm2 _ Ety0 Hk2 Hs2 He) as (k & Hin & Hw). exists k. split; [apply keys1; auto | exact Hw].
    - (* OrC *) inv_rbind Ht. destruct Hk as [Hk1 Hk2]. rewrite ev_or in He.
      fields tx; fields tx0. rule Ht. okrule Ht. cbn in Hs. apply andb_true_iff in Hs as [Hs1 Hs2].
      apply orb_true_iff in He as [He|He].
      + destruct (IHm1 _ Ety Hk1 Hs1 He) as (k & Hin & Hw). exists k. split; [apply keys1; auto | exact Hw].
      + destruct (IHm2 _ Ety0 Hk2 Hs2 He) as (k & Hin & Hw). exists k. split; [apply keys1; auto | exact Hw].
    - (* OrI *) inv_rbind Ht. destruct Hk as [Hk1 Hk2]. rewrite ev_or in He.
      fields tx; fields tx0. rule Ht. okrule Ht. cbn in Hs. apply andb_true_iff in Hs as [Hs1 Hs2].
      apply orb_true_iff in He as [He|He].
      + destruct (IHm1 _ Ety Hk1 Hs1 He) as (k & Hin & Hw). exists k. split; [apply keys1; auto | exact Hw].
      + destruct (IHm2 _ Ety0 Hk2 Hs2 He) as (k & Hin & Hw). exists k. split; [apply keys1; auto | exact Hw].
    - (* Thresh *)
      match type of Ht with rbind ?g _ = _ => destruct g as [ts|] eqn:Ets; cbn [rbind] in Ht; [|discriminate] end.
      apply tys_spec in Ets. apply kpos_thresh in Hk.
      unfold t_threshold in Ht. destruct (c_threshold k (map t_corr ts)) as [c|]; [|discriminate].
      inversion Ht; subst. cbn [t_mall] in Hs. unfold m_threshold in Hs.
      pose proof (thresh_loop_signed (map t_mall ts) 0 true true) as Hsc.
      destruct (m_thresh_loop (map t_mall ts) 0 true true) as [[sc du] nm]. cbn [fst] in Hsc. cbn [m_signed] in Hs.
      apply N.ltb_lt in Hs. rewrite map_length in Hs. rewrite map_map in Hsc.
      cbn [evals] in He. rewrite map_map in He. apply N.leb_le in He.
      assert (Hlen : length xs = length ts) by (eapply forall2_length; exact Ets).
      destruct (overlap xs ts Ets) as (x & t & Hin & Hty & Hev & Hsg); [rewrite Hlen; lia|].
      rewrite Forall_forall in H, Hk. destruct (H x Hin t Hty (Hk x Hin) Hsg Hev) as (key & Hkin & Hw).
      exists key. split; [|exact Hw]. cbn [keys_s]. apply in_flat_map. exists (lift_ms x). split; [apply in_map; exact Hin | exact Hkin].
    - apply multi_key; assumption.
    - apply multi_key; assumption.
    - apply multi_key; assumption.
    - apply multi_key; assumption.
  Qed.
End Signed.

Theorem signed_sound W m t :
  type_of m = ROk t -> kpos m -> m_signed (t_mall t) = true ->
  evals W (lift_ms m) = true -> exists k, In k (keys_s (lift_ms m)) /\ w_key W k = true.
Proof. exact (signed_stmt W m t). Qed.
