(* C16 proofs, part 2: every script_pubkey is the standard template applied to the hash of
   the explicit script / key; the script functions agree with each other. *)
From Coq Require Import List Bool NArith Lia Arith.
Import ListNotations.
From Verif Require Import DescWrapModel DescWrapProofs.
Local Open Scope N_scope.

Arguments N.add : simpl never. Arguments N.mul : simpl never. Arguments N.div : simpl never.
Arguments N.modulo : simpl never. Arguments N.ltb : simpl never. Arguments N.leb : simpl never.
Arguments N.eqb : simpl never. Arguments N.of_nat : simpl never. Arguments N.to_nat : simpl never.

Lemma push_len20 : forall h, length h = 20%nat -> push_slice h = 20 :: h.
Proof. intros h H. rewrite push_slice_direct; unfold blen; rewrite H; [reflexivity | cbv; discriminate]. Qed.
Lemma push_len32 : forall h, length h = 32%nat -> push_slice h = 32 :: h.
Proof. intros h H. rewrite push_slice_direct; unfold blen; rewrite H; [reflexivity | cbv; discriminate]. Qed.

Lemma new_p2pkh_std : forall h, length h = 20%nat -> new_p2pkh h = std_p2pkh h.
Proof. intros. unfold new_p2pkh, std_p2pkh. rewrite push_len20 by assumption. cbn [app]. reflexivity. Qed.
Lemma new_p2sh_std : forall h, length h = 20%nat -> new_p2sh h = std_p2sh h.
Proof. intros. unfold new_p2sh, std_p2sh. rewrite push_len20 by assumption. reflexivity. Qed.
Lemma new_wp0_20_std : forall h, length h = 20%nat -> new_witness_program OP_0 h = std_p2wpkh h.
Proof. intros. unfold new_witness_program, std_p2wpkh. rewrite push_len20 by assumption. reflexivity. Qed.
Lemma new_wp0_32_std : forall h, length h = 32%nat -> new_witness_program OP_0 h = std_p2wsh h.
Proof. intros. unfold new_witness_program, std_p2wsh. rewrite push_len32 by assumption. reflexivity. Qed.

Section Std.
  Variable hash160 sha256 : bytes -> bytes.
  Variable tap_root : list (N * bytes) -> option bytes.
  Variable tap_output_key : bytes -> option bytes -> bytes.
  Hypothesis hash160_len : forall b, length (hash160 b) = 20%nat.
  Hypothesis sha256_len : forall b, length (sha256 b) = 32%nat.
  Hypothesis output_key_len : forall x r, length (tap_output_key x r) = 32%nat.

  Notation spk := (script_pubkey hash160 sha256 tap_root tap_output_key).
  Notation expl := (explicit_script hash160).
  Notation code := (script_code hash160).
  Notation ssig := (unsigned_script_sig hash160 sha256).
  Notation enc := (encode_ms hash160).

  (* the standard output script of each descriptor type as a function of its explicit
     script (for tr: of the output key) *)
  Definition std_of_explicit (d : desc pubkey) (s : bytes) : bytes :=
    match d with
    | DBare _ | DPkh _ | DWpkh _ => s
    | DSh _ | DShWpkh _ => std_p2sh (hash160 s)
    | DWsh _ => std_p2wsh (sha256 s)
    | DShWsh _ => std_p2sh (hash160 (std_p2wsh (sha256 s)))
    | DTr _ _ => s
    end.

  Lemma to_p2wsh_std : forall s, to_p2wsh sha256 s = std_p2wsh (sha256 s).
  Proof. intros. unfold to_p2wsh. apply new_wp0_32_std, sha256_len. Qed.
  Lemma to_p2sh_std : forall s, to_p2sh hash160 s = std_p2sh (hash160 s).
  Proof. intros. unfold to_p2sh. apply new_p2sh_std, hash160_len. Qed.

  (* ---- spk_std ---- *)
  Theorem spk_pkh : forall k, spk (DPkh k) = Some (std_p2pkh (hash160 (pk_ser k))).
  Proof. intros. cbn [script_pubkey]. unfold pkh_spk. rewrite new_p2pkh_std by apply hash160_len. reflexivity. Qed.

  Theorem spk_wpkh : forall k, pk_compressed k = true ->
    spk (DWpkh k) = Some (std_p2wpkh (hash160 (pk_ser k))).
  Proof. intros k H. cbn [script_pubkey]. unfold wpkh_spk. rewrite H, new_wp0_20_std by apply hash160_len. reflexivity. Qed.

  Theorem spk_sh_wpkh : forall k, pk_compressed k = true ->
    spk (DShWpkh k) = Some (std_p2sh (hash160 (std_p2wpkh (hash160 (pk_ser k))))).
  Proof.
    intros k H. cbn [script_pubkey]. unfold wpkh_spk. rewrite H, new_wp0_20_std by apply hash160_len.
    cbn [omap]. rewrite to_p2sh_std. reflexivity.
  Qed.

  Theorem spk_bare_pk : forall k, blen (pk_ser k) <= 75 ->
    spk (DBare (MsPk k)) = Some (std_p2pk (pk_ser k)).
  Proof.
    intros k H. cbn [script_pubkey encode_ms push_ms_key]. rewrite push_slice_direct by assumption.
    unfold std_p2pk, OP_CHECKSIG. cbn [app]. reflexivity.
  Qed.

  Theorem spk_tr : forall leaves ik ls, tr_leaf_scripts hash160 leaves = Some ls ->
    spk (DTr leaves ik) = Some (std_p2tr (tap_output_key (pk_x ik) (tap_root ls))).
  Proof.
    intros leaves ik ls H. cbn [script_pubkey]. rewrite H. unfold std_p2tr, OP_1.
    rewrite push_len32 by apply output_key_len. reflexivity.
  Qed.

  (* all non-taproot types at once: the scriptPubKey is the standard wrapping of the
     explicit script *)
  Theorem spk_std : forall d s, expl d = Some (Some s) -> spk d = Some (std_of_explicit d s).
  Proof.
    intros d s H. destruct d as [m|k|k|m|m|k|m|leaves ik]; cbn [explicit_script script_pubkey std_of_explicit] in *.
    - destruct (enc Ecdsa m); cbn [omap] in *; congruence.
    - congruence.
    - destruct (wpkh_spk hash160 k); cbn [omap] in *; congruence.
    - destruct (enc Ecdsa m); cbn [omap] in *; [|discriminate].
      inversion H; subst. rewrite to_p2sh_std. reflexivity.
    - unfold wsh_spk, wsh_inner in *. destruct (enc Ecdsa m); cbn [omap] in *; [|discriminate].
      inversion H; subst. rewrite to_p2sh_std, to_p2wsh_std. reflexivity.
    - destruct (wpkh_spk hash160 k); cbn [omap] in *; [|discriminate].
      inversion H; subst. rewrite to_p2sh_std. reflexivity.
    - unfold wsh_spk, wsh_inner in *. destruct (enc Ecdsa m); cbn [omap] in *; [|discriminate].
      inversion H; subst. rewrite to_p2wsh_std. reflexivity.
    - discriminate.
  Qed.

  (* and the explicit script of the key-only types is itself the standard template *)
  Theorem explicit_pkh : forall k, expl (DPkh k) = Some (Some (std_p2pkh (hash160 (pk_ser k)))).
  Proof. intros. cbn [explicit_script]. unfold pkh_spk. rewrite new_p2pkh_std by apply hash160_len. reflexivity. Qed.
  Theorem explicit_wpkh : forall k, pk_compressed k = true ->
    expl (DWpkh k) = Some (Some (std_p2wpkh (hash160 (pk_ser k)))) /\
    expl (DShWpkh k) = Some (Some (std_p2wpkh (hash160 (pk_ser k)))).
  Proof.
    intros k H. cbn [explicit_script]. unfold wpkh_spk. rewrite H, new_wp0_20_std by apply hash160_len.
    split; reflexivity.
  Qed.
  Theorem explicit_tr : forall l ik, expl (DTr l ik) = Some None /\ code (DTr l ik) = Some None.
  Proof. split; reflexivity. Qed.

  (* ---- mutual ---- *)
  (* The unsigned scriptSig of a nested segwit output is one push of exactly the redeem
     script; the redeem script's hash160 is what the scriptPubKey commits to; for sh(wsh)
     the redeem script is the witness program of the witness script's sha256. *)
  Theorem mutual_sh_wsh : forall m w, expl (DShWsh m) = Some (Some w) ->
    let redeem := std_p2wsh (sha256 w) in
    ssig (DShWsh m) = Some (push_slice redeem) /\
    parse_push (push_slice redeem) = Some (redeem, []) /\
    spk (DShWsh m) = Some (std_p2sh (hash160 redeem)) /\
    code (DShWsh m) = Some (Some w).
  Proof.
    intros m w H redeem. cbn [explicit_script unsigned_script_sig script_pubkey script_code] in *.
    unfold wsh_spk, wsh_inner in *. destruct (enc Ecdsa m); cbn [omap] in *; [|discriminate].
    inversion H; subst. rewrite to_p2wsh_std, to_p2sh_std.
    repeat split.
    pose proof (push_roundtrip redeem [] ) as P. rewrite app_nil_r in P. apply P.
    unfold redeem, std_p2wsh, blen. cbn [app length]. rewrite sha256_len. cbv. reflexivity.
  Qed.

  Theorem mutual_sh_wpkh : forall k, pk_compressed k = true ->
    let redeem := std_p2wpkh (hash160 (pk_ser k)) in
    ssig (DShWpkh k) = Some (push_slice redeem) /\
    parse_push (push_slice redeem) = Some (redeem, []) /\
    expl (DShWpkh k) = Some (Some redeem) /\
    spk (DShWpkh k) = Some (std_p2sh (hash160 redeem)) /\
    code (DShWpkh k) = Some (Some (std_p2pkh (hash160 (pk_ser k)))).
  Proof.
    intros k H redeem. cbn [explicit_script unsigned_script_sig script_pubkey script_code].
    unfold wpkh_spk, wpkh_script_code. rewrite H, new_wp0_20_std, new_p2pkh_std by apply hash160_len.
    cbn [omap]. rewrite to_p2sh_std. repeat split.
    pose proof (push_roundtrip redeem []) as P. rewrite app_nil_r in P. apply P.
    unfold redeem, std_p2wpkh, blen. cbn [app length]. rewrite hash160_len. cbv. reflexivity.
  Qed.

  Theorem mutual_no_script_sig : forall d,
    match d with DShWsh _ | DShWpkh _ => True | _ => ssig d = Some [] end.
  Proof. destruct d; try exact I; reflexivity. Qed.

  (* script code: the p2pkh form for (nested) wpkh, the witness script for (nested) wsh, the
     redeem script for sh, the scriptPubKey for bare and pkh *)
  Theorem script_code_spec : forall d,
    match d with
    | DWpkh k | DShWpkh k => code d = Some (Some (std_p2pkh (hash160 (pk_ser k))))
    | DWsh _ | DShWsh _ | DSh _ => code d = expl d
    | DBare _ | DPkh _ => code d = omap Some (spk d)
    | DTr _ _ => code d = Some None
    end.
  Proof.
    destruct d as [m|k|k|m|m|k|m|leaves ik]; cbn [script_code explicit_script script_pubkey omap]; try reflexivity.
    - unfold wpkh_script_code. rewrite new_p2pkh_std by apply hash160_len. reflexivity.
    - unfold wpkh_script_code. rewrite new_p2pkh_std by apply hash160_len. reflexivity.
  Qed.

  (* the witness / inner script hashes into the scriptPubKey or into the redeem script *)
  Theorem inner_script_commitment : forall d s, expl d = Some (Some s) ->
    match d with
    | DWsh _ => spk d = Some (std_p2wsh (sha256 s))
    | DSh _ | DShWpkh _ => spk d = Some (std_p2sh (hash160 s))
    | DShWsh _ => exists redeem, redeem = std_p2wsh (sha256 s) /\ spk d = Some (std_p2sh (hash160 redeem))
    | _ => spk d = Some s
    end.
  Proof.
    intros d s H. pose proof (spk_std d s H) as P.
    destruct d; cbn [std_of_explicit] in P; try exact P.
    eexists; split; [reflexivity | exact P].
  Qed.

  (* ---- no panic on well-formed input ---- *)
  Definition ms_wf (c : sigctx) (m : ms pubkey) : Prop :=
    match m, c with
    | MsMulti _ _, Ecdsa | MsSortedMulti _ _, Ecdsa => True
    | MsMultiA _ ks, Schnorr | MsSortedMultiA _ ks, Schnorr => ks <> []
    | MsMulti _ _, _ | MsSortedMulti _ _, _ | MsMultiA _ _, _ | MsSortedMultiA _ _, _ => False
    | _, _ => True
    end.
  Lemma insert_by_nonnil : forall (key : pubkey -> bytes) x l, insert_by key x l <> [].
  Proof. intros key x l. destruct l; cbn [insert_by]; [discriminate|]. destruct (bytes_leb _ _); discriminate. Qed.
  Lemma sort_by_nonnil : forall (key : pubkey -> bytes) l, l <> [] -> sort_by key l <> [].
  Proof. intros key l H. destruct l; [congruence|]. cbn [sort_by]. apply insert_by_nonnil. Qed.
  Theorem encode_no_panic : forall c m, ms_wf c m -> exists s, enc c m = Some s.
  Proof.
    intros c m H. destruct m; destruct c; cbn [ms_wf encode_ms encode_multi encode_multi_a] in *;
      try contradiction; try (eexists; reflexivity).
    - destruct ks; [congruence|]. eexists; reflexivity.
    - pose proof (sort_by_nonnil pk_x ks H) as Q. unfold into_sorted_bip67_xonly.
      destruct (sort_by pk_x ks); [congruence|]. eexists; reflexivity.
  Qed.
End Std.
