(* C11 — iter/tree.rs PostOrderIter: full functional correctness of the model against the
   recursive specification post_spec (labels in post-order, index = output position,
   child_indices = output positions of the children), for every finite tree of any arity. *)
From Coq Require Import List NArith Bool Lia Arith.
From Verif Require Import Bytes RobustModel RobustProofs RobustTreeProofs RobustPostProofs RobustIterSpec.
Import ListNotations.

Arguments N.of_nat : simpl never. Arguments N.to_nat : simpl never.
Arguments N.add : simpl never. Arguments N.sub : simpl never.

Lemma rtree_ind2 (P : rtree -> Prop) :
  (forall x cs, Forall P cs -> P (RNode x cs)) -> forall t, P t.
Proof. intros H. fix F 1. intros [x cs]. apply H. induction cs as [|c r IH]; constructor; [apply F|exact IH]. Qed.

Lemma post_spec_node : forall x cs b,
  post_spec (RNode x cs) b = post_spec_forest cs b ++ [mkYield x (b + N.of_nat (rsize_forest cs)) (child_roots cs b)].
Proof. intros. reflexivity. Qed.

Lemma rbind_assoc : forall A B C (a : routcome A) (g : A -> routcome B) (h : B -> routcome C),
  rbind (rbind a g) h = rbind a (fun x => rbind (g x) h).
Proof. intros. destruct a; reflexivity. Qed.
Lemma rbind_ext : forall A B (a : routcome A) (g h : A -> routcome B), (forall x, g x = h x) -> rbind a g = rbind a h.
Proof. intros. destruct a; cbn; auto. Qed.

(* ---- the children are pushed exactly, whatever the stack ---- *)
Lemma map_some_inj : forall A (a b : list A), map Some a = map Some b -> a = b.
Proof. induction a as [|x r IH]; intros [|y s] H; cbn in H; try discriminate; [reflexivity|]. inversion H; subst. f_equal. now apply IH. Qed.

Lemma push_children_exact : forall st cur pe,
  push_children_rev st cur pe (rev (nseq 0 (length (rchildren pe)))) = ROk (st ++ map (fresh cur) (rev (rchildren pe))).
Proof.
  intros st cur pe.
  destruct (push_children_rev_ok (rev (nseq 0 (length (rchildren pe)))) st cur pe) as (cs & Hp & Hcs).
  { intros i Hi. apply in_rev in Hi. apply nseq_spec in Hi. lia. }
  rewrite Hp. pose proof (nth_children_nseq (rchildren pe) 0 pe eq_refl (length (rchildren pe)) (Nat.le_refl _)) as Hn.
  rewrite Nat.sub_diag in Hn. cbn [skipn] in Hn. change (N.of_nat 0) with 0%N in Hn.
  rewrite map_rev, Hn, <- map_rev in Hcs. apply map_some_inj in Hcs. now subst cs.
Qed.

Definition mark (cur : pitem) : pitem := mkPItem (pi_elem cur) true (pi_children cur) (pi_parent cur).

(* first visit of the top item: unconditional *)
Lemma post_next_first : forall f index rest cur, pi_processed cur = false ->
  post_next (S f) index (rest ++ [cur]) =
  post_next f index ((rest ++ [mark cur]) ++ map (fresh (nlen rest)) (rev (rchildren (pi_elem cur)))).
Proof.
  intros f index rest cur Hp. cbn [post_next]. rewrite rev_app_distr. cbn [rev app]. rewrite rev_involutive, Hp. cbn [negb].
  assert (Hidx : index_partial (rest ++ [mark cur]) (nlen rest) = ROk (mark cur)).
  { unfold index_partial, nlen. rewrite Nat2N.id, nth_error_app2 by lia. now rewrite Nat.sub_diag. }
  unfold mark in *. rewrite Hidx. cbn [rbind pi_elem]. rewrite push_children_exact. reflexivity.
Qed.

Definition parent_upd (below : list pitem) (par : option N) (v : N) : option (list pitem) :=
  match par with None => Some below | Some q => push_child_index below (N.to_nat q) v end.

(* second visit of the top item: yield *)
Lemma post_next_second : forall f index rest cur rest', pi_processed cur = true ->
  parent_upd rest (pi_parent cur) index = Some rest' ->
  post_next (S f) index (rest ++ [cur]) =
  ROk (Some (mkYield (rlabel (pi_elem cur)) index (pi_children cur), (index + 1)%N, rest')).
Proof.
  intros f index rest cur rest' Hp Hu. cbn [post_next]. rewrite rev_app_distr. cbn [rev app]. rewrite rev_involutive, Hp. cbn [negb].
  unfold parent_upd in Hu. destruct (pi_parent cur) as [q|]; [rewrite Hu|inversion Hu; subst]; reflexivity.
Qed.

Lemma post_next_nil : forall f index, post_next (S f) index [] = ROk None.
Proof. reflexivity. Qed.

(* fuel above mu is irrelevant *)
Lemma post_next_stable : forall f index st, mu st < f -> forall f', mu st < f' ->
  post_next f index st = post_next f' index st.
Proof.
  induction f as [|f IH]; intros index st Hf f' Hf'; [lia|]. destruct f' as [|f']; [lia|].
  destruct st as [|cur rest _] using rev_ind; [reflexivity|].
  destruct (pi_processed cur) eqn:Ep.
  - cbn [post_next]. rewrite rev_app_distr. cbn [rev app]. rewrite rev_involutive, Ep. reflexivity.
  - rewrite !post_next_first by exact Ep.
    assert (Hm : S (mu ((rest ++ [mark cur]) ++ map (fresh (nlen rest)) (rev (rchildren (pi_elem cur))))) = mu (rest ++ [cur])).
    { rewrite !mu_app, mu_fresh, rsize_forest_rev. cbn [mu mark pi_processed pi_elem]. rewrite Ep.
      destruct (pi_elem cur) as [x cs]. rewrite rsize_node. cbn [rchildren]. lia. }
    apply IH; lia.
Qed.

Definition pf (st : list pitem) : nat := S (S (length st) + 2 * rsize_forest (map pi_elem st)).
Lemma pf_mu : forall st, mu st < pf st.
Proof. intros. unfold pf. pose proof (mu_bound st). lia. Qed.

Lemma post_run_unfold : forall f index st,
  post_run (S f) index st =
  rbind (post_next (pf st) index st) (fun r =>
    match r with None => ROk [] | Some (y, index', st') => rbind (post_run f index' st') (fun ys => ROk (y :: ys)) end).
Proof. reflexivity. Qed.

(* the first visit is silent for the caller's loop *)
Lemma post_run_first : forall f index rest cur, pi_processed cur = false ->
  post_run (S f) index (rest ++ [cur]) =
  post_run (S f) index ((rest ++ [mark cur]) ++ map (fresh (nlen rest)) (rev (rchildren (pi_elem cur)))).
Proof.
  intros f index rest cur Ep. rewrite !post_run_unfold. f_equal.
  unfold pf at 1. rewrite post_next_first by exact Ep.
  set (st2 := (rest ++ [mark cur]) ++ map (fresh (nlen rest)) (rev (rchildren (pi_elem cur)))).
  assert (Hm : S (mu st2) = mu (rest ++ [cur])).
  { unfold st2. rewrite !mu_app, mu_fresh, rsize_forest_rev. cbn [mu mark pi_processed pi_elem]. rewrite Ep.
    destruct (pi_elem cur) as [x cs]. rewrite rsize_node. cbn [rchildren]. lia. }
  apply post_next_stable; [|apply pf_mu]. pose proof (mu_bound (rest ++ [cur])). lia.
Qed.

Lemma post_run_second : forall f index rest cur rest', pi_processed cur = true ->
  parent_upd rest (pi_parent cur) index = Some rest' ->
  post_run (S f) index (rest ++ [cur]) =
  rbind (post_run f (index + 1)%N rest') (fun ys => ROk (mkYield (rlabel (pi_elem cur)) index (pi_children cur) :: ys)).
Proof.
  intros f index rest cur rest' Ep Hu. rewrite post_run_unfold. unfold pf.
  rewrite (post_next_second _ index rest cur rest' Ep Hu). reflexivity.
Qed.

Lemma post_run_nil : forall f index, post_run (S f) index [] = ROk [].
Proof. reflexivity. Qed.

(* self.stack[p].child_indices.push(v) for the item at position p = len base *)
Lemma push_child_index_at : forall base P rest v,
  push_child_index (base ++ P :: rest) (length base) v =
  Some (base ++ mkPItem (pi_elem P) (pi_processed P) (pi_children P ++ [v]) (pi_parent P) :: rest).
Proof. induction base as [|b r IH]; intros; cbn [app length push_child_index]; [reflexivity|]. now rewrite IH. Qed.

(* ---- the big-step statement for one subtree ---- *)
Definition sub_ok (t : rtree) : Prop := forall below par f i below',
  parent_upd below par (i + nsize t - 1)%N = Some below' ->
  post_run (rsize t + f) i (below ++ [mkPItem t false [] par]) =
  rbind (post_run f (i + nsize t)%N below') (fun ys => ROk (post_spec t i ++ ys)).

Lemma nsize_pos : forall t, (1 <= nsize t)%N.
Proof. intros t. unfold nsize. pose proof (rsize_pos t). lia. Qed.

(* all children of a marked parent at position len base *)
Lemma forest_ok : forall cs, Forall sub_ok cs -> forall base e ci par f i,
  post_run (rsize_forest cs + S f) i ((base ++ [mkPItem e true ci par]) ++ map (fresh (nlen base)) (rev cs)) =
  rbind (post_run (S f) (i + N.of_nat (rsize_forest cs))%N (base ++ [mkPItem e true (ci ++ child_roots cs i) par]))
        (fun ys => ROk (post_spec_forest cs i ++ ys)).
Proof.
  induction cs as [|c r IH]; intros HF base e ci par f i.
  - cbn [rsize_forest rev map child_roots post_spec_forest Nat.add]. rewrite !app_nil_r.
    replace (i + N.of_nat 0)%N with i by lia.
    destruct (post_run (S f) i (base ++ [mkPItem e true ci par])); reflexivity.
  - inversion HF as [|? ? Hc Hr]; subst.
    cbn [rev]. rewrite map_app. cbn [map]. rewrite app_assoc. unfold fresh at 2.
    cbn [rsize_forest]. rewrite <- Nat.add_assoc.
    rewrite (Hc _ (Some (nlen base)) (rsize_forest r + S f) i
               ((base ++ [mkPItem e true (ci ++ [(i + nsize c - 1)%N]) par]) ++ map (fresh (nlen base)) (rev r))).
    + rewrite (IH Hr base e (ci ++ [(i + nsize c - 1)%N]) par f (i + nsize c)%N).
      rewrite rbind_assoc. cbn [child_roots post_spec_forest].
      replace (i + nsize c + N.of_nat (rsize_forest r))%N with (i + N.of_nat (rsize c + rsize_forest r))%N by (unfold nsize; lia).
      rewrite <- app_assoc. cbn [app].
      apply rbind_ext. intros ys. cbn [rbind]. now rewrite app_assoc.
    + unfold parent_upd, nlen. rewrite Nat2N.id. rewrite <- !app_assoc. cbn [app].
      rewrite push_child_index_at. reflexivity.
Qed.

Lemma sub_ok_all : forall t, sub_ok t.
Proof.
  induction t as [x cs IH] using rtree_ind2. intros below par f i below' Hu.
  rewrite rsize_node. cbn [Nat.add].
  rewrite post_run_first by reflexivity. unfold mark. cbn [pi_elem pi_children pi_parent rchildren].
  replace (S (rsize_forest cs + f)) with (rsize_forest cs + S f) by lia.
  rewrite (forest_ok cs IH below (RNode x cs) [] par f i). cbn [app].
  assert (Hi : (i + nsize (RNode x cs) - 1 = i + N.of_nat (rsize_forest cs))%N) by (unfold nsize; rewrite rsize_node; lia).
  rewrite Hi in Hu.
  rewrite (post_run_second f _ below (mkPItem (RNode x cs) true (child_roots cs i) par) below' eq_refl Hu). cbn [pi_elem pi_children rlabel].
  rewrite rbind_assoc.
  replace (i + N.of_nat (rsize_forest cs) + 1)%N with (i + nsize (RNode x cs))%N by (unfold nsize; rewrite rsize_node; lia).
  apply rbind_ext. intros ys. cbn [rbind]. rewrite post_spec_node, <- app_assoc. reflexivity.
Qed.

(* ================================================================== the theorem *)
Theorem post_order_exact : forall t, post_order t = ROk (post_spec t 0).
Proof.
  intros t. unfold post_order.
  replace (S (rsize t)) with (rsize t + 1) by lia.
  change [mkPItem t false [] None] with ([] ++ [mkPItem t false [] None]).
  rewrite (sub_ok_all t [] None 1 0%N [] eq_refl). rewrite post_run_nil. cbn [rbind]. now rewrite app_nil_r.
Qed.

(* ================================================================== properties of the specification *)
Lemma post_spec_forest_app : forall a b i,
  post_spec_forest (a ++ b) i = post_spec_forest a i ++ post_spec_forest b (i + N.of_nat (rsize_forest a))%N.
Proof.
  induction a as [|c r IH]; intros b i; cbn [app post_spec_forest rsize_forest].
  - f_equal. lia.
  - rewrite IH, <- app_assoc. do 3 f_equal. unfold nsize. lia.
Qed.

Lemma postorder_node : forall x cs, postorder (RNode x cs) = postorder_forest cs ++ [x].
Proof. reflexivity. Qed.
Lemma subtrees_post_node : forall x cs, subtrees_post (RNode x cs) = subtrees_post_forest cs ++ [RNode x cs].
Proof. reflexivity. Qed.

(* (b) the labels are the recursive post-order *)
Lemma post_spec_labels : forall t b, map y_label (post_spec t b) = postorder t.
Proof.
  induction t as [x cs IH] using rtree_ind2. intros b. rewrite post_spec_node, postorder_node, map_app. cbn [map y_label]. f_equal.
  revert b. induction IH as [|c r Hc _ IHr]; intros b; cbn [post_spec_forest postorder_forest]; [reflexivity|].
  now rewrite map_app, Hc, IHr.
Qed.

Lemma post_spec_length : forall t b, length (post_spec t b) = rsize t.
Proof. intros. rewrite <- (map_length y_label), post_spec_labels. clear b.
  induction t as [x cs IH] using rtree_ind2. rewrite postorder_node, rsize_node, app_length. cbn [length].
  assert (length (postorder_forest cs) = rsize_forest cs).
  { induction IH as [|c r Hc _ IHr]; cbn [postorder_forest rsize_forest]; [reflexivity|]. rewrite app_length. lia. }
  lia.
Qed.
Lemma post_spec_forest_length : forall cs b, length (post_spec_forest cs b) = rsize_forest cs.
Proof. induction cs as [|c r IH]; intros b; cbn [post_spec_forest rsize_forest]; [reflexivity|]. now rewrite app_length, post_spec_length, IH. Qed.

(* (d) index = position in the output *)
Lemma post_spec_index : forall t b i y, nth_error (post_spec t b) i = Some y -> y_index y = (b + N.of_nat i)%N.
Proof.
  induction t as [x cs IH] using rtree_ind2. intros b i y. rewrite post_spec_node.
  assert (HF : forall b i y, nth_error (post_spec_forest cs b) i = Some y -> y_index y = (b + N.of_nat i)%N).
  { clear b i y. induction IH as [|c r Hc _ IHr]; intros b i y H; cbn [post_spec_forest] in H.
    - destruct i; discriminate.
    - destruct (Nat.lt_ge_cases i (length (post_spec c b))) as [Hl|Hg].
      + rewrite nth_error_app1 in H by exact Hl. now apply Hc.
      + rewrite nth_error_app2 in H by exact Hg. apply IHr in H. rewrite H. rewrite post_spec_length in *. unfold nsize. lia. }
  intros H. destruct (Nat.lt_ge_cases i (length (post_spec_forest cs b))) as [Hl|Hg].
  - rewrite nth_error_app1 in H by exact Hl. now apply HF.
  - rewrite nth_error_app2 in H by exact Hg. rewrite post_spec_forest_length in *.
    destruct (i - rsize_forest cs) as [|k] eqn:E; cbn in H; [|destruct k; discriminate].
    inversion H; subst y. cbn [y_index]. lia.
Qed.

(* (c) the child indices are the output positions of the children: a bottom-up builder that
   looks its children up at child_indices rebuilds every subtree, the last one being the tree *)
Lemma subtrees_post_length : forall t, length (subtrees_post t) = rsize t.
Proof.
  induction t as [x cs IH] using rtree_ind2. rewrite subtrees_post_node, rsize_node, app_length. cbn [length].
  assert (length (subtrees_post_forest cs) = rsize_forest cs).
  { induction IH as [|c r Hc _ IHr]; cbn [subtrees_post_forest rsize_forest]; [reflexivity|]. rewrite app_length. lia. }
  lia.
Qed.
Lemma subtrees_post_forest_length : forall cs, length (subtrees_post_forest cs) = rsize_forest cs.
Proof. induction cs as [|c r IH]; cbn [subtrees_post_forest rsize_forest]; [reflexivity|]. now rewrite app_length, subtrees_post_length, IH. Qed.

Lemma subtrees_post_last : forall t, exists l, subtrees_post t = l ++ [t] /\ length l = rsize t - 1.
Proof. intros [x cs]. rewrite subtrees_post_node. eexists; split; [reflexivity|]. rewrite subtrees_post_forest_length, rsize_node. lia. Qed.

Lemma rebuild_from_app : forall a b built, rebuild_from built (a ++ b) = rebuild_from (rebuild_from built a) b.
Proof. intros. unfold rebuild_from. apply fold_left_app. Qed.

(* looking up the roots of a forest laid out after `built` *)
Lemma lookup_child_roots : forall cs built tail,
  map (fun i => nth (N.to_nat i) (built ++ subtrees_post_forest cs ++ tail) rdummy) (child_roots cs (N.of_nat (length built))) = cs.
Proof.
  induction cs as [|c r IH]; intros built tail; cbn [child_roots map subtrees_post_forest]; [reflexivity|]. f_equal.
  - destruct (subtrees_post_last c) as (l & Hl & Hlen). rewrite Hl.
    replace (N.to_nat (N.of_nat (length built) + nsize c - 1)) with (length (built ++ l)).
    + rewrite <- !app_assoc. rewrite (app_assoc built l). rewrite app_nth2 by lia. rewrite Nat.sub_diag. reflexivity.
    + rewrite app_length, Hlen. unfold nsize. pose proof (rsize_pos c). lia.
  - specialize (IH (built ++ subtrees_post c) tail).
    rewrite app_length, subtrees_post_length in IH. rewrite <- !app_assoc in IH.
    replace (N.of_nat (length built) + nsize c)%N with (N.of_nat (length built + rsize c)) by (unfold nsize; lia).
    rewrite <- app_assoc. exact IH.
Qed.

Lemma rebuild_from_spec : forall t built,
  rebuild_from built (post_spec t (N.of_nat (length built))) = built ++ subtrees_post t.
Proof.
  induction t as [x cs IH] using rtree_ind2. intros built.
  assert (HF : forall built, rebuild_from built (post_spec_forest cs (N.of_nat (length built))) = built ++ subtrees_post_forest cs).
  { clear built. induction IH as [|c r Hc _ IHr]; intros built; cbn [post_spec_forest subtrees_post_forest].
    - now rewrite app_nil_r.
    - rewrite rebuild_from_app, Hc.
      replace (N.of_nat (length built) + nsize c)%N with (N.of_nat (length (built ++ subtrees_post c)))
        by (rewrite app_length, subtrees_post_length; unfold nsize; lia).
      rewrite IHr. now rewrite app_assoc. }
  rewrite post_spec_node, rebuild_from_app, HF, subtrees_post_node. unfold rebuild_from at 1. cbn [fold_left].
  unfold rebuild_step. cbn [y_label y_children].
  pose proof (lookup_child_roots cs built []) as L. rewrite app_nil_r in L. rewrite L.
  now rewrite app_assoc.
Qed.

Theorem rebuild_post_spec : forall t, rebuild (post_spec t 0) = subtrees_post t.
Proof. intros t. unfold rebuild. change 0%N with (N.of_nat (length (@nil rtree))). now rewrite rebuild_from_spec. Qed.

(* ================================================================== everything together *)
Theorem post_order_iter_correct : forall t : rtree,
  exists ys, post_order t = ROk ys /\
    length ys = rsize t /\
    map y_label ys = postorder t /\
    (forall i y, nth_error ys i = Some y -> y_index y = N.of_nat i) /\
    rebuild ys = subtrees_post t /\
    last (rebuild ys) rdummy = t /\
    ys = post_spec t 0.
Proof.
  intros t. exists (post_spec t 0). split; [apply post_order_exact|].
  split; [apply post_spec_length|]. split; [apply post_spec_labels|].
  split; [intros i y H; apply post_spec_index in H; rewrite H; lia|].
  split; [apply rebuild_post_spec|]. split; [|reflexivity].
  rewrite rebuild_post_spec. destruct (subtrees_post_last t) as (l & -> & _). apply last_last.
Qed.

(* ================================================================== RtlPostOrderIter *)
Lemma postorder_forest_app : forall a b, postorder_forest (a ++ b) = postorder_forest a ++ postorder_forest b.
Proof. induction a as [|c r IH]; intros; cbn [app postorder_forest]; [reflexivity|]. now rewrite IH, app_assoc. Qed.

Lemma mirror_node : forall x cs, mirror (RNode x cs) = RNode x (rev (mirror_forest cs)).
Proof. reflexivity. Qed.
Lemma rtl_postorder_node : forall x cs, rtl_postorder (RNode x cs) = rtl_postorder_forest cs ++ [x].
Proof. reflexivity. Qed.

Lemma postorder_mirror : forall t, postorder (mirror t) = rtl_postorder t.
Proof.
  induction t as [x cs IH] using rtree_ind2. rewrite mirror_node, postorder_node, rtl_postorder_node. f_equal.
  induction IH as [|c r Hc _ IHr]; cbn [mirror_forest rev rtl_postorder_forest]; [reflexivity|].
  rewrite postorder_forest_app. cbn [postorder_forest]. now rewrite app_nil_r, Hc, IHr.
Qed.

Lemma rsize_mirror : forall t, rsize (mirror t) = rsize t.
Proof.
  induction t as [x cs IH] using rtree_ind2. rewrite mirror_node, !rsize_node, rsize_forest_rev. f_equal.
  induction IH as [|c r Hc _ IHr]; cbn [mirror_forest rsize_forest]; [reflexivity|]. now rewrite Hc, IHr.
Qed.

(* Rtl::nary_index's two subtractions and the index are guarded by nth_child's `n < nary_len` *)
Lemma rtl_nth_child_never_panics : forall t n s, rtl_nth_child t n <> RPanic s.
Proof.
  intros t n s. unfold rtl_nth_child. destruct (N.ltb_spec n (nlen (rchildren t))) as [Hlt|Hge]; [|discriminate].
  unfold rtl_nary_index, sub_partial.
  destruct (N.ltb_spec (nlen (rchildren t)) n) as [H1|H1]; [lia|]. cbn [rbind].
  destruct (N.ltb_spec (nlen (rchildren t) - n) 1) as [H2|H2]; [lia|]. cbn [rbind].
  unfold index_partial. destruct (nth_error (rchildren t) (N.to_nat (nlen (rchildren t) - n - 1))) eqn:E; [discriminate|].
  apply nth_error_None in E. unfold nlen in *. lia.
Qed.

Theorem rtl_post_order_correct : forall t : rtree,
  rtl_post_order t = ROk (rtl_spec t) /\
  length (rtl_spec t) = rsize t /\
  map y_label (rtl_spec t) = rtl_postorder t /\
  (forall i y, nth_error (rtl_spec t) i = Some y -> y_index y = N.of_nat i) /\
  (forall n s, rtl_nth_child t n <> RPanic s).
Proof.
  intros t. unfold rtl_post_order, rtl_spec. rewrite post_order_exact. cbn [rbind]. split; [reflexivity|].
  split; [now rewrite map_length, post_spec_length, rsize_mirror|].
  split; [rewrite map_map; cbn [y_label]; now rewrite post_spec_labels, postorder_mirror|].
  split; [|apply rtl_nth_child_never_panics].
  intros i y H. rewrite nth_error_map in H. destruct (nth_error (post_spec (mirror t) 0) i) as [y0|] eqn:E; [|discriminate].
  cbn in H. inversion H; subst y. cbn [y_index]. apply post_spec_index in E. rewrite E. lia.
Qed.
