(* Theorem A' : the denotational relation is SOUND for the script semantics -- whenever
   [R m s w v] holds for a well-typed fragment, the encoded script run on [w ++ rest] succeeds in
   every frame and leaves what the relation says (the satisfied shape for s = true, the
   dissatisfied shape for s = false).  The converse is Theorem B (DenotSound.v). *)
From Verif Require Import Exec Ser Ast Types TypeCheck SatSpec ExecLemmas Spec TypesSpec ScriptNumProofs TheoremA.
From Verif Require Import FrameBase FrameLeaves FrameWrap FrameComb FrameSound SignedLemmas DenotSpec DenotLemmas.
From Coq Require Import Lia.

Section Complete.
  Variable e : env.
  Variable ke : keyenv.
  Notation RR := (Rg e ke false).
  Notation sc m := (enc ke m).

  Definition cB (m : ms) : Prop := forall s w v, RR m s w v -> truthy v = s /\ fr e (sc m) w [v].
  Definition cV (m : ms) : Prop := forall s w v, RR m s w v -> s = true /\ v = [] /\ fr e (sc m) w [].
  Definition cK (m : ms) : Prop :=
    forall s w v, RR m s w v -> exists c sg, w = c ++ [sg] /\ ksig e s v sg /\ fr e (sc m) c [v].
  Definition cW (m : ms) : Prop :=
    exists sw, forall s w v, RR m s w v -> truthy v = s /\ forall c0, fr e (sc m) (c0 :: w) (wout sw v c0).
  Definition dn_comp (m : ms) (t : ty) : Prop :=
    match c_base (t_corr t) with BB => cB m | BV => cV m | BK => cK m | BW => cW m end.
  Definition cstmt (m : ms) : Prop := forall t, type_of m = ROk t -> wf e ke m -> dn_comp m t.

  Ltac stepG := cbn [app exec exec_instr exec_op bind stk alt].

  (* the consumed prefix of the frame invariant is the witness of the relation *)
  Lemma cB_cnt m i u s w v : cB m -> invB e (sc m) i u -> RR m s w v -> cnt i (length w).
  Proof.
    intros Hc Hi HR. destruct (Hc _ _ _ HR) as [_ Hfr]. specialize (Hfr [] []).
    destruct (Hi _ _ _ Hfr) as [c [rest [v' [Hs [Hr [_ [Hcn _]]]]]]].
    inversion Hr; subst. rewrite app_nil_r in Hs. subst w. rewrite app_nil_r. exact Hcn.
  Qed.

  (* ---------- leaves ---------- *)
  Lemma ac_true : cB MTrue.
  Proof. intros s w v [-> [-> ->]]. split; [reflexivity|]. intros rest al. reflexivity. Qed.
  Lemma ac_false : cB MFalse.
  Proof. intros s w v [-> [-> ->]]. split; [reflexivity|]. intros rest al. reflexivity. Qed.
  Lemma ac_pk_k k : cK (MPkK k).
  Proof.
    intros s w v [sg [-> [-> Hk]]]. exists [], sg. split; [reflexivity|]. split; [exact Hk|].
    intros rest al. reflexivity.
  Qed.
  Lemma ac_pkh_gen h s v sg : e_hash160 e v = h -> ksig e s v sg ->
    exists c sg', [v; sg] = c ++ [sg'] /\ ksig e s v sg' /\
      fr e [IOp OP_DUP; IOp OP_HASH160; IPush h; IOp OP_EQUALVERIFY] c [v].
  Proof.
    intros Hh Hk. exists [v], sg. split; [reflexivity|]. split; [exact Hk|].
    intros rest al. stepG. rewrite Hh, bytes_eqb_refl. reflexivity.
  Qed.
  Lemma ac_pk_h k : cK (MPkH k).
  Proof. intros s w v [sg [-> [Hh [Hk _]]]]. apply ac_pkh_gen; assumption. Qed.
  Lemma ac_raw h : cK (MRawPkH h).
  Proof. intros s w v [_ [sg [-> [Hh Hk]]]]. apply ac_pkh_gen; assumption. Qed.

  Lemma ac_after t : (0 < t < 2147483648)%N -> cB (MAfter t).
  Proof.
    intros Ht s w v [-> [-> [-> Hc]]]. split; [apply num_truthy; lia|].
    intros rest al. cbn [enc app]. rewrite exec_cons, exec_push_int. cbn [bind stk alt].
    rewrite exec_single. cbn [exec_instr exec_op stk alt]. rewrite num_roundtrip by lia. rewrite Hc. reflexivity.
  Qed.
  Lemma ac_older t : (0 < t < 2147483648)%N -> cB (MOlder t).
  Proof.
    intros Ht s w v [-> [-> [-> Hc]]]. split; [apply num_truthy; lia|].
    intros rest al. cbn [enc app]. rewrite exec_cons, exec_push_int. cbn [bind stk alt].
    rewrite exec_single. cbn [exec_instr exec_op stk alt]. rewrite num_roundtrip by lia. rewrite Hc. reflexivity.
  Qed.

  Lemma ac_hash_gen (o : opcode) (hf : bytes -> bytes) h s w v :
    (forall x r al, exec_op e o (mkSt (x :: r) al) = Ok (mkSt (hf x :: r) al)) ->
    Rhash false hf h s w v -> truthy v = s /\ fr e (hash_frag o h) w [v].
  Proof.
    intros Hop [x [-> [Hl [-> [Hh _]]]]]. split; [apply truthy_bool|].
    intros rest al. unfold hash_frag. cbn [app]. rewrite exec_op_cons. cbn [exec_op stk alt bind]. rewrite Hl.
    rewrite exec_cons, exec_push_int. cbn [bind stk alt].
    rewrite exec_op_cons. cbn [exec_op stk alt]. rewrite bytes_eqb_refl. cbn [bind].
    rewrite exec_op_cons, Hop. cbn [bind]. rewrite exec_push, exec_op_cons. cbn [exec_op stk alt bind exec].
    destruct s.
    - rewrite Hh, bytes_eqb_refl. reflexivity.
    - rewrite (bytes_eqb_neq h (hf x)) by (intros E; apply Hh; symmetry; exact E). reflexivity.
  Qed.

  (* ---------- wrappers ---------- *)
  Lemma ac_alt x : cB x -> cW (MAlt x).
  Proof.
    intros IH. exists false. intros s w v HR. cbn [Rg] in HR. destruct (IH _ _ _ HR) as [Ht Hfr].
    split; [exact Ht|]. intros c0 rest al. cbn [enc app]. rewrite exec_op_cons. cbn [exec_op stk alt bind].
    rewrite exec_app, Hfr. cbn [bind]. rewrite exec_single. reflexivity.
  Qed.

  Lemma ac_swap x i u : cB x -> invB e (sc x) i u -> i = IOne \/ i = IOneNonZero -> cW (MSwap x).
  Proof.
    intros IH Hinv Hi. exists true. intros s w v HR. cbn [Rg] in HR. destruct (IH _ _ _ HR) as [Ht Hfr].
    split; [exact Ht|]. pose proof (cB_cnt x i u s w v IH Hinv HR) as Hc.
    assert (Hl : length w = 1%nat) by (destruct Hi; subst i; exact Hc).
    destruct w as [|a [|b w']]; try discriminate.
    intros c0 rest al. cbn [enc app]. rewrite exec_op_cons. cbn [exec_op stk alt bind].
    apply (Hfr (c0 :: rest) al).
  Qed.

  Lemma ac_check x : cK x -> cB (MCheck x).
  Proof.
    intros IH s w v HR. cbn [Rg] in HR. destruct HR as [-> [key HR]].
    destruct (IH _ _ _ HR) as [c [sg [-> [[Hk Hs] Hfr]]]]. split; [apply truthy_bool|].
    intros rest al. cbn [enc]. rewrite exec_app, <- app_assoc, Hfr. cbn [bind app]. rewrite exec_single.
    cbn [exec_instr exec_op stk alt]. rewrite Hk. cbn [negb]. destruct s.
    - destruct Hs as [Hne Hok]. destruct sg as [|b0 sg']; [congruence|]. rewrite Hok. reflexivity.
    - subst sg. reflexivity.
  Qed.

  Lemma ac_dupif x : cV x -> cB (MDupIf x).
  Proof.
    intros IH s w v HR. cbn [Rg] in HR. destruct HR as [-> [Hc [Hx _]]].
    split; [apply (if_cond_truthy e v s Hc)|].
    intros rest al. cbn [enc app]. rewrite exec_op_cons. cbn [exec_op stk alt bind].
    rewrite exec_single, exec_if. cbn [stk alt]. rewrite Hc. destruct s; cbn [xorb]; [|reflexivity].
    destruct (IH _ _ _ (Hx eq_refl)) as [_ [_ Hfr]]. apply (Hfr (v :: rest) al).
  Qed.

  Lemma ac_verify x : cB x -> cV (MVerify x).
  Proof.
    intros IH s w v HR. cbn [Rg] in HR. destruct HR as [-> [-> [v' HR]]]. destruct (IH _ _ _ HR) as [Ht Hfr].
    split; [reflexivity|]. split; [reflexivity|]. intros rest al. cbn [enc]. rewrite push_verify_exec, Hfr.
    cbn [bind exec_op stk alt app]. rewrite Ht. reflexivity.
  Qed.

  Lemma ac_nonzero x : cB x -> cB (MNonZero x).
  Proof.
    intros IH s w v HR. cbn [Rg] in HR. destruct HR as [[-> [-> ->]]|[a [r [-> [Hne [Hsz [HR _]]]]]]].
    - split; [reflexivity|]. intros rest al. cbn [enc app]. rewrite exec_op_cons. cbn [exec_op stk alt bind].
      rewrite exec_op_cons. cbn [exec_op stk alt]. change (num_encode (Z.of_N (blen []))) with (@nil byte).
      rewrite num_operand_empty. cbn [bind]. rewrite exec_single, exec_if. cbn [stk alt Z.eqb negb bool_bytes].
      rewrite if_cond_empty. reflexivity.
    - destruct (IH _ _ _ HR) as [Ht Hfr]. split; [exact Ht|].
      intros rest al. cbn [enc app]. rewrite exec_op_cons. cbn [exec_op stk alt bind].
      rewrite exec_op_cons. cbn [exec_op stk alt]. unfold size_ok in Hsz. pose proof (blen_nonempty a Hne) as Hp.
      rewrite num_roundtrip by lia. cbn [bind].
      replace (Z.of_N (blen a) =? 0)%Z with false by (symmetry; apply Z.eqb_neq; lia). cbn [negb bool_bytes].
      rewrite exec_single, exec_if. cbn [stk alt]. rewrite if_cond_one. cbn [xorb]. apply (Hfr rest al).
  Qed.

  Lemma ac_zne x : cB x -> cB (MZeroNotEqual x).
  Proof.
    intros IH s w v HR. cbn [Rg] in HR. destruct HR as [-> [v' [HR [z Hz]]]]. destruct (IH _ _ _ HR) as [Ht Hfr].
    split; [apply truthy_bool|]. intros rest al. cbn [enc]. rewrite exec_app, Hfr. cbn [bind app].
    rewrite exec_single. cbn [exec_instr exec_op stk alt]. rewrite Hz.
    rewrite (num_truthy_iff 4 v' z Hz) in Ht. rewrite Ht. reflexivity.
  Qed.

  (* ---------- and_v ---------- *)
  Lemma ac_andv_B x y : cV x -> cB y -> cB (MAndV x y).
  Proof.
    intros IHx IHy s w v HR. cbn [Rg] in HR. destruct HR as [wx [wy [-> [Hx Hy]]]].
    destruct (IHx _ _ _ Hx) as [_ [_ Hfx]]. destruct (IHy _ _ _ Hy) as [Ht Hfy]. split; [exact Ht|].
    cbn [enc]. eapply fr_app; [exact Hfx | exact Hfy].
  Qed.
  Lemma ac_andv_V x y : cV x -> cV y -> cV (MAndV x y).
  Proof.
    intros IHx IHy s w v HR. cbn [Rg] in HR. destruct HR as [wx [wy [-> [Hx Hy]]]].
    destruct (IHx _ _ _ Hx) as [_ [_ Hfx]]. destruct (IHy _ _ _ Hy) as [Hs [Hv Hfy]].
    split; [exact Hs|]. split; [exact Hv|]. cbn [enc]. eapply fr_app; [exact Hfx | exact Hfy].
  Qed.
  Lemma ac_andv_K x y : cV x -> cK y -> cK (MAndV x y).
  Proof.
    intros IHx IHy s w v HR. cbn [Rg] in HR. destruct HR as [wx [wy [-> [Hx Hy]]]].
    destruct (IHx _ _ _ Hx) as [_ [_ Hfx]]. destruct (IHy _ _ _ Hy) as [c [sg [-> [Hk Hfy]]]].
    exists (wx ++ c), sg. split; [apply app_assoc|]. split; [exact Hk|].
    cbn [enc]. eapply fr_app; [exact Hfx | exact Hfy].
  Qed.

  (* ---------- and_b / or_b ---------- *)
  Lemma bool_op_run (o : opcode) (f : bool -> bool -> bool) sw vx vy (sx sy : bool) :
    (forall a b, f a b = f b a) ->
    (forall x y r al n1 n2, num_operand 4 x = Some n1 -> num_operand 4 y = Some n2 ->
       exec_op e o (mkSt (x :: y :: r) al) = Ok (mkSt (bool_bytes (f (negb (n1 =? 0)%Z) (negb (n2 =? 0)%Z)) :: r) al)) ->
    truthy vx = sx -> truthy vy = sy -> num4 vx -> num4 vy ->
    forall X al, exec_op e o (mkSt (wout sw vy vx ++ X) al) = Ok (mkSt (bool_bytes (f sx sy) :: X) al).
  Proof.
    intros Hcomm Hop Hx Hy [nx Hnx] [ny Hny] X al.
    rewrite (num_truthy_iff 4 vx nx Hnx) in Hx. rewrite (num_truthy_iff 4 vy ny Hny) in Hy. subst sx sy.
    destruct sw; cbn [wout app].
    - rewrite (Hop vy vx X al ny nx Hny Hnx). rewrite Hcomm. reflexivity.
    - rewrite (Hop vx vy X al nx ny Hnx Hny). reflexivity.
  Qed.
  Lemma booland_op x y r al n1 n2 : num_operand 4 x = Some n1 -> num_operand 4 y = Some n2 ->
    exec_op e OP_BOOLAND (mkSt (x :: y :: r) al) = Ok (mkSt (bool_bytes (negb (n1 =? 0)%Z && negb (n2 =? 0)%Z) :: r) al).
  Proof. intros H1 H2. cbn [exec_op stk alt]. rewrite H1, H2. reflexivity. Qed.
  Lemma boolor_op x y r al n1 n2 : num_operand 4 x = Some n1 -> num_operand 4 y = Some n2 ->
    exec_op e OP_BOOLOR (mkSt (x :: y :: r) al) = Ok (mkSt (bool_bytes (negb (n1 =? 0)%Z || negb (n2 =? 0)%Z) :: r) al).
  Proof. intros H1 H2. cbn [exec_op stk alt]. rewrite H1, H2. reflexivity. Qed.

  Lemma ac_andb x y : cB x -> cW y -> cB (MAndB x y).
  Proof.
    intros IHx [sw IHy] s w v HR. cbn [Rg] in HR.
    destruct HR as [wx [wy [vx [vy [sx [sy [-> [Hx [Hy [Nx [Ny [-> [-> _]]]]]]]]]]]]].
    destruct (IHx _ _ _ Hx) as [Htx Hfx]. destruct (IHy _ _ _ Hy) as [Hty Hfy]. split; [apply truthy_bool|].
    intros rest al. cbn [enc]. rewrite exec_app, <- app_assoc, Hfx. cbn [bind app]. rewrite exec_app.
    pose proof (Hfy vx rest al) as H; cbn [app] in H; rewrite H; clear H. cbn [bind]. rewrite exec_single. cbn [exec_instr].
    apply (bool_op_run OP_BOOLAND andb sw vx vy sx sy andb_comm booland_op Htx Hty Nx Ny).
  Qed.
  Lemma ac_orb x y : cB x -> cW y -> cB (MOrB x y).
  Proof.
    intros IHx [sw IHy] s w v HR. cbn [Rg] in HR.
    destruct HR as [wx [wy [vx [vy [sx [sy [-> [Hx [Hy [Nx [Ny [-> [-> _]]]]]]]]]]]]].
    destruct (IHx _ _ _ Hx) as [Htx Hfx]. destruct (IHy _ _ _ Hy) as [Hty Hfy]. split; [apply truthy_bool|].
    intros rest al. cbn [enc]. rewrite exec_app, <- app_assoc, Hfx. cbn [bind app]. rewrite exec_app.
    pose proof (Hfy vx rest al) as H; cbn [app] in H; rewrite H; clear H. cbn [bind]. rewrite exec_single. cbn [exec_instr].
    apply (bool_op_run OP_BOOLOR orb sw vx vy sx sy orb_comm boolor_op Htx Hty Nx Ny).
  Qed.

  (* ---------- or_c / or_d ---------- *)
  Lemma ac_orc x z : cB x -> cV z -> cV (MOrC x z).
  Proof.
    intros IHx IHz s w v HR. cbn [Rg] in HR. destruct HR as [-> [-> HR]]. split; [reflexivity|]. split; [reflexivity|].
    destruct HR as [[vx [Hx Hc]]|[wx [wy [vx [-> [Hx [Hc Hz]]]]]]].
    - destruct (IHx _ _ _ Hx) as [_ Hfx]. intros rest al. cbn [enc]. rewrite exec_app, Hfx. cbn [bind app].
      rewrite exec_single, exec_if. cbn [stk alt]. rewrite Hc. reflexivity.
    - destruct (IHx _ _ _ Hx) as [_ Hfx]. destruct (IHz _ _ _ Hz) as [_ [_ Hfz]].
      intros rest al. cbn [enc]. rewrite exec_app, <- app_assoc, Hfx. cbn [bind app].
      rewrite exec_single, exec_if. cbn [stk alt]. rewrite Hc. cbn [xorb]. apply Hfz.
  Qed.
  Lemma ac_ord x z : cB x -> cB z -> cB (MOrD x z).
  Proof.
    intros IHx IHz s w v HR. cbn [Rg] in HR. destruct HR as [[-> [Hx Hc]]|[wx [wy [vx [-> [Hx [Hc Hz]]]]]]].
    - destruct (IHx _ _ _ Hx) as [Ht Hfx]. split; [exact Ht|]. intros rest al. cbn [enc].
      rewrite exec_app, Hfx. cbn [bind app]. rewrite exec_op_cons. cbn [exec_op stk alt]. rewrite Ht. cbn [bind].
      rewrite exec_single, exec_if. cbn [stk alt]. rewrite Hc. reflexivity.
    - destruct (IHx _ _ _ Hx) as [Ht Hfx]. destruct (IHz _ _ _ Hz) as [Htz Hfz]. split; [exact Htz|].
      intros rest al. cbn [enc]. rewrite exec_app, <- app_assoc, Hfx. cbn [bind app].
      rewrite exec_op_cons. cbn [exec_op stk alt]. rewrite Ht. cbn [bind].
      rewrite exec_single, exec_if. cbn [stk alt]. rewrite Hc. cbn [xorb]. apply Hfz.
  Qed.

  (* ---------- or_i ---------- *)
  Lemma ori_fr x z sel (b : bool) c out : if_cond e sel = Some b ->
    fr e (if b then sc x else sc z) c out -> fr e (sc (MOrI x z)) (sel :: c) out.
  Proof.
    intros Hc Hf rest al. cbn [enc app]. rewrite exec_single, exec_if. cbn [stk alt]. rewrite Hc.
    destruct b; cbn [xorb]; apply Hf.
  Qed.
  Lemma ac_ori_B x z : cB x -> cB z -> cB (MOrI x z).
  Proof.
    intros IHx IHz s w v HR. cbn [Rg] in HR. destruct HR as [sel [w' [b [-> [Hc [HR _]]]]]]. destruct b.
    - destruct (IHx _ _ _ HR) as [Ht Hf]. split; [exact Ht|]. apply (ori_fr x z sel true _ _ Hc Hf).
    - destruct (IHz _ _ _ HR) as [Ht Hf]. split; [exact Ht|]. apply (ori_fr x z sel false _ _ Hc Hf).
  Qed.
  Lemma ac_ori_V x z : cV x -> cV z -> cV (MOrI x z).
  Proof.
    intros IHx IHz s w v HR. cbn [Rg] in HR. destruct HR as [sel [w' [b [-> [Hc [HR _]]]]]]. destruct b.
    - destruct (IHx _ _ _ HR) as [Hs [Hv Hf]]. split; [exact Hs|]. split; [exact Hv|]. apply (ori_fr x z sel true _ _ Hc Hf).
    - destruct (IHz _ _ _ HR) as [Hs [Hv Hf]]. split; [exact Hs|]. split; [exact Hv|]. apply (ori_fr x z sel false _ _ Hc Hf).
  Qed.
  Lemma ac_ori_K x z : cK x -> cK z -> cK (MOrI x z).
  Proof.
    intros IHx IHz s w v HR. cbn [Rg] in HR. destruct HR as [sel [w' [b [-> [Hc [HR _]]]]]]. destruct b.
    - destruct (IHx _ _ _ HR) as [c [sg [-> [Hk Hf]]]]. exists (sel :: c), sg. split; [reflexivity|]. split; [exact Hk|].
      apply (ori_fr x z sel true _ _ Hc Hf).
    - destruct (IHz _ _ _ HR) as [c [sg [-> [Hk Hf]]]]. exists (sel :: c), sg. split; [reflexivity|]. split; [exact Hk|].
      apply (ori_fr x z sel false _ _ Hc Hf).
  Qed.

  (* ---------- andor ---------- *)
  Lemma andor_fr a b c wa va (cnd : bool) c' out : fr e (sc a) wa [va] -> if_cond e va = Some cnd ->
    fr e (if cnd then sc b else sc c) c' out -> fr e (sc (MAndOr a b c)) (wa ++ c') out.
  Proof.
    intros Hfa Hc Hf rest al. cbn [enc]. rewrite exec_app, <- app_assoc, Hfa. cbn [bind app].
    rewrite exec_single, exec_if. cbn [stk alt]. rewrite Hc. destruct cnd; cbn [xorb]; apply Hf.
  Qed.
  Lemma ac_andor_B a b c : cB a -> cB b -> cB c -> cB (MAndOr a b c).
  Proof.
    intros IHa IHb IHc s w v HR. cbn [Rg] in HR.
    destruct HR as [wa [w' [va [-> [[Ha [Hc [HR _]]]|[Ha [Hc HR]]]]]]]; destruct (IHa _ _ _ Ha) as [_ Hfa].
    - destruct (IHb _ _ _ HR) as [Ht Hf]. split; [exact Ht|]. apply (andor_fr a b c wa va true _ _ Hfa Hc Hf).
    - destruct (IHc _ _ _ HR) as [Ht Hf]. split; [exact Ht|]. apply (andor_fr a b c wa va false _ _ Hfa Hc Hf).
  Qed.
  Lemma ac_andor_V a b c : cB a -> cV b -> cV c -> cV (MAndOr a b c).
  Proof.
    intros IHa IHb IHc s w v HR. cbn [Rg] in HR.
    destruct HR as [wa [w' [va [-> [[Ha [Hc [HR _]]]|[Ha [Hc HR]]]]]]]; destruct (IHa _ _ _ Ha) as [_ Hfa].
    - destruct (IHb _ _ _ HR) as [Hs [Hv Hf]]. split; [exact Hs|]. split; [exact Hv|].
      apply (andor_fr a b c wa va true _ _ Hfa Hc Hf).
    - destruct (IHc _ _ _ HR) as [Hs [Hv Hf]]. split; [exact Hs|]. split; [exact Hv|].
      apply (andor_fr a b c wa va false _ _ Hfa Hc Hf).
  Qed.
  Lemma ac_andor_K a b c : cB a -> cK b -> cK c -> cK (MAndOr a b c).
  Proof.
    intros IHa IHb IHc s w v HR. cbn [Rg] in HR.
    destruct HR as [wa [w' [va [-> [[Ha [Hc [HR _]]]|[Ha [Hc HR]]]]]]]; destruct (IHa _ _ _ Ha) as [_ Hfa].
    - destruct (IHb _ _ _ HR) as [c0 [sg [-> [Hk Hf]]]]. exists (wa ++ c0), sg. split; [apply app_assoc|]. split; [exact Hk|].
      apply (andor_fr a b c wa va true _ _ Hfa Hc Hf).
    - destruct (IHc _ _ _ HR) as [c0 [sg [-> [Hk Hf]]]]. exists (wa ++ c0), sg. split; [apply app_assoc|]. split; [exact Hk|].
      apply (andor_fr a b c wa va false _ _ Hfa Hc Hf).
  Qed.

  (* ---------- thresh ---------- *)
  Lemma add_run sw (v : bytes) (zv acc : Z) X al : num_operand 4 v = Some zv -> (0 <= acc < 2147483648)%Z ->
    exec_op e OP_ADD (mkSt (wout sw v (num_encode acc) ++ X) al) = Ok (mkSt (num_encode (acc + zv) :: X) al).
  Proof.
    intros Hv Ha. destruct sw; cbn [wout app exec_op stk alt]; rewrite Hv, (num_roundtrip 4 acc) by lia.
    - reflexivity.
    - rewrite Z.add_comm. reflexivity.
  Qed.

  Lemma thr_tail r : Forall cW r ->
    forall j w acc rest al s', Rthr (fun x => RR x) r w j ->
      (0 <= acc)%Z -> (acc + Z.of_nat (length r) < 2147483648)%Z ->
      exec e (enc_tail ke r ++ s') (mkSt (num_encode acc :: w ++ rest) al)
      = exec e s' (mkSt (num_encode (acc + Z.of_nat j) :: rest) al).
  Proof.
    induction 1 as [|x r [sw Hx] _ IH]; intros j w acc rest al s' HR Ha Hb.
    - destruct HR as [-> ->]. cbn [enc_tail app]. rewrite Z.add_0_r. reflexivity.
    - apply Rthr_cons in HR. destruct HR as [wx [wr [-> HR]]]. cbn [length] in Hb.
      cbn [enc_tail]. rewrite <- !app_assoc. rewrite exec_app.
      destruct HR as [[j' [-> [H1 H2]]]|[H1 H2]]; destruct (Hx _ _ _ H1) as [_ Hf];
        pose proof (Hf (num_encode acc) (wr ++ rest) al) as Hy; cbn [app] in Hy; rewrite Hy; clear Hy;
        cbn [bind app]; rewrite exec_op_cons.
      + rewrite (add_run sw [1%N] 1 acc) by (try apply num_operand_one; lia). cbn [bind].
        rewrite (IH j' wr (acc + 1)%Z rest al s' H2) by lia. do 4 f_equal. lia.
      + rewrite (add_run sw [] 0 acc) by (try apply num_operand_empty; lia). cbn [bind]. rewrite Z.add_0_r.
        apply (IH j wr acc rest al s' H2); lia.
  Qed.

  Lemma ac_thresh k x0 r : cB x0 -> Forall cW r ->
    (1 <= k <= N.of_nat (S (length r)))%N -> (S (length r) < 1000)%nat -> cB (MThresh k (x0 :: r)).
  Proof.
    intros IH0 IHr Hk Hn s w v HR. cbn [Rg] in HR. destruct HR as [-> [j [HR [-> _]]]]. split; [apply truthy_bool|].
    pose proof (Rthr_le _ _ _ _ HR) as Hj. cbn [length] in Hj.
    apply Rthr_cons in HR. destruct HR as [wx [wr [-> HR]]].
    intros rest al. rewrite enc_thresh, exec_app, <- app_assoc.
    assert (Hfin : forall tot, (0 <= tot < 2147483648)%Z ->
       exec e [push_int (Z.of_N k); IOp OP_EQUAL] (mkSt (num_encode tot :: rest) al)
       = Ok (mkSt (bool_bytes (Z.of_N k =? tot)%Z :: rest) al)).
    { intros tot Ht. rewrite exec_cons, exec_push_int. cbn [bind stk alt]. rewrite exec_single.
      cbn [exec_instr exec_op stk alt]. rewrite num_eqb_encode by lia. reflexivity. }
    destruct HR as [[j' [-> [H1 H2]]]|[H1 H2]]; destruct (IH0 _ _ _ H1) as [_ Hf]; rewrite Hf; cbn [bind app].
    - change [1%N] with (num_encode 1). rewrite (thr_tail r IHr j' wr 1%Z rest al _ H2) by lia.
      rewrite Hfin by lia. cbn [app]. do 3 f_equal.
      destruct (N.eqb_spec (N.of_nat (S j')) k), (Z.eqb_spec (Z.of_N k) (1 + Z.of_nat j')); try reflexivity; lia.
    - change (@nil byte) with (num_encode 0) at 1. rewrite (thr_tail r IHr j wr 0%Z rest al _ H2) by lia.
      rewrite Hfin by lia. cbn [app]. do 3 f_equal.
      destruct (N.eqb_spec (N.of_nat j) k), (Z.eqb_spec (Z.of_N k) (0 + Z.of_nat j)); try reflexivity; lia.
  Qed.

  (* ---------- multi ---------- *)
  Lemma ac_cms k keys : (1 <= k <= N.of_nat (length keys))%N -> (length keys <= 20)%nat -> tap e = false ->
    forall s w v, Rcms e k keys s w v ->
      truthy v = s /\
      fr e ([push_int (Z.of_N k)] ++ map IPush keys ++ [push_int (Z.of_nat (length keys)); IOp OP_CHECKMULTISIG]) w [v].
  Proof.
    intros Hk Hn Htap s w v [-> [sigs [-> [Hl [Hkeys Hm]]]]]. split; [apply truthy_bool|].
    intros rest al. cbn [app]. rewrite exec_cons, exec_push_int. cbn [bind stk alt]. rewrite exec_pushes. cbn [stk alt].
    rewrite exec_cons, exec_push_int. cbn [bind stk alt]. rewrite exec_single. cbn [exec_instr].
    rewrite cms_step by assumption.
    assert (Hsv : match e_sv e with SvTapscript => False | _ => True end).
    { unfold tap in Htap. destruct (e_sv e); try exact I. discriminate. }
    assert (Hkk : forallb (e_keyok e) (rev keys) = true).
    { apply forallb_forall. intros x Hx. apply in_rev in Hx. apply Hkeys, Hx. }
    assert (Hres : cms_result e (rev keys) k ((sigs ++ [[]]) ++ rest) al = Ok (mkSt ([bool_bytes s] ++ rest) al)).
    { unfold cms_result. rewrite <- Hl, <- app_assoc, take_n_app. cbn [app]. rewrite Hkk. cbn [negb]. destruct s.
      - rewrite Hm. reflexivity.
      - destruct Hm as [Hm Hrep]. rewrite Hm.
        match goal with |- context [forallb ?f sigs] => replace (forallb f sigs) with true end; [reflexivity|].
        symmetry. rewrite Hrep. clear. induction (N.to_nat k) as [|n IHn]; [reflexivity | cbn [repeat forallb andb]; exact IHn]. }
    destruct (e_sv e); try contradiction; exact Hres.
  Qed.

  (* ---------- multi_a ---------- *)
  Lemma csa_run ks : e_sv e = SvTapscript ->
    forall j w acc rest al s', Rcsa e ke ks w j ->
      (0 <= acc)%Z -> (acc + Z.of_nat (length ks) < 2147483648)%Z ->
      exec e (csa_tail ke ks ++ s') (mkSt (num_encode acc :: w ++ rest) al)
      = exec e s' (mkSt (num_encode (acc + Z.of_nat j) :: rest) al).
  Proof.
    intros Hsv. induction ks as [|key r IH]; intros j w acc rest al s' HR Ha Hb; cbn [Rcsa] in HR.
    - destruct HR as [-> ->]. cbn [csa_tail flat_map app]. rewrite Z.add_0_r. reflexivity.
    - destruct HR as [sg [w' [-> [Hk HR]]]]. cbn [length] in Hb.
      cbn [csa_tail flat_map app]. fold (csa_tail ke r).
      rewrite exec_push, exec_op_cons. cbn [stk alt exec_op]. rewrite Hsv, Hk. cbn [negb].
      rewrite num_roundtrip by lia.
      destruct HR as [[-> HR]|[Hne [Hok [j' [-> HR]]]]].
      + cbn [bind]. apply (IH j w' acc rest al s' HR); lia.
      + destruct sg as [|b0 sg']; [congruence|]. rewrite Hok. cbn [bind].
        rewrite (IH j' w' (acc + 1)%Z rest al s' HR) by lia. do 4 f_equal. lia.
  Qed.

  Lemma ac_multi_a_gen k ks' : (1 <= k <= N.of_nat (length ks'))%N -> (length ks' < 1000)%nat -> tap e = true ->
    forall (s : bool) w v,
      (v = bool_bytes s /\ exists j, Rcsa e ke ks' w j /\ s = N.eqb (N.of_nat j) k /\ (false = true -> s = false -> j = 0%nat)) ->
      truthy v = s /\
      fr e ((match ks' with
             | [] => []
             | k0 :: rest => [IPush (kb ke k0); IOp OP_CHECKSIG] ++ csa_tail ke rest
             end) ++ [push_int (Z.of_N k); IOp OP_NUMEQUAL]) w [v].
  Proof.
    intros Hk Hn Htap s w v [-> [j [HR [-> _]]]]. split; [apply truthy_bool|].
    assert (Hsv : e_sv e = SvTapscript) by (unfold tap in Htap; destruct (e_sv e); congruence).
    destruct ks' as [|k0 r]; [cbn in Hk; lia|]. cbn [length] in *.
    pose proof (Rcsa_le _ _ _ _ _ HR) as [Hj _]. cbn [length] in Hj.
    cbn [Rcsa] in HR. destruct HR as [sg [w' [-> [Hk0 HR]]]].
    assert (Hfin : forall tot rest al, (0 <= tot < 2147483648)%Z ->
       exec e [push_int (Z.of_N k); IOp OP_NUMEQUAL] (mkSt (num_encode tot :: rest) al)
       = Ok (mkSt (bool_bytes (Z.of_N k =? tot)%Z :: rest) al)).
    { intros tot rest al Ht. rewrite exec_cons, exec_push_int. cbn [bind stk alt]. rewrite exec_single.
      cbn [exec_instr exec_op stk alt]. rewrite !num_roundtrip by lia. reflexivity. }
    intros rest al. rewrite <- app_assoc. cbn [app]. rewrite exec_push, exec_op_cons. cbn [stk alt exec_op].
    rewrite Hk0. cbn [negb].
    destruct HR as [[-> HR]|[Hne [Hok [j' [-> HR]]]]].
    - cbn [bind bool_bytes]. change (@nil byte) with (num_encode 0) at 1.
      rewrite (csa_run r Hsv j w' 0%Z rest al _ HR) by lia. rewrite Hfin by lia. do 3 f_equal.
      destruct (N.eqb_spec (N.of_nat j) k), (Z.eqb_spec (Z.of_N k) (0 + Z.of_nat j)); try reflexivity; lia.
    - destruct sg as [|b0 sg']; [congruence|]. rewrite Hok. cbn [bind bool_bytes]. change [1%N] with (num_encode 1).
      rewrite (csa_run r Hsv j' w' 1%Z rest al _ HR) by lia. rewrite Hfin by lia. do 3 f_equal.
      destruct (N.eqb_spec (N.of_nat (S j')) k), (Z.eqb_spec (Z.of_N k) (1 + Z.of_nat j')); try reflexivity; lia.
  Qed.

  (* ---------- assembly along the typing rules ---------- *)
  Ltac unf H := unfold t_cast_alt, t_cast_swap, t_cast_check, t_cast_dupif, t_cast_verify, t_cast_nonzero,
    t_cast_zeronotequal, t_and_v, t_and_b, t_or_b, t_or_c, t_or_d, t_or_i, t_and_or, lift1, lift2,
    c_cast_alt, c_cast_swap, c_cast_check, c_cast_dupif, c_cast_verify, c_cast_nonzero, c_cast_zeronotequal,
    c_and_v, c_and_b, c_or_b, c_or_c, c_or_d, c_or_i, c_and_or in H; cbn [t_corr t_mall c_base c_input c_dissat c_unit] in H.
  Ltac red_c := unfold dn_comp in *; cbn [t_corr c_base c_input c_unit c_dissat] in *.

  Ltac one_child IH Ht Hwf tx Hg bx ix dx ux mx :=
    cbn [type_of] in Ht; apply rbind_ok in Ht; destruct Ht as [tx [Hx Ht]];
    cbn [wf] in Hwf; pose proof (IH tx Hx Hwf) as Hg; destruct tx as [[bx ix dx ux] mx]; unf Ht.

  Lemma s_alt x : cstmt x -> cstmt (MAlt x).
  Proof.
    intros IH t Ht Hwf. one_child IH Ht Hwf tx Hg bx ix dx ux mx.
    destruct bx; try discriminate. inversion Ht; subst; clear Ht. red_c. exact (ac_alt x Hg).
  Qed.
  Lemma s_swap x : cstmt x -> cstmt (MSwap x).
  Proof.
    intros IH t Ht Hwf. cbn [type_of] in Ht. apply rbind_ok in Ht. destruct Ht as [tx [Hx Ht]]. cbn [wf] in Hwf.
    pose proof (IH tx Hx Hwf) as Hg. pose proof (frame_inv e ke x tx Hx Hwf) as Hi.
    destruct tx as [[bx ix dx ux] mx]. unf Ht. unfold inv in Hi. cbn [t_corr c_base c_input c_unit] in Hi.
    destruct bx; try discriminate; destruct ix; try discriminate; inversion Ht; subst; clear Ht; red_c.
    - exact (ac_swap x _ _ Hg Hi (or_introl eq_refl)).
    - exact (ac_swap x _ _ Hg Hi (or_intror eq_refl)).
  Qed.
  Lemma s_check x : cstmt x -> cstmt (MCheck x).
  Proof.
    intros IH t Ht Hwf. one_child IH Ht Hwf tx Hg bx ix dx ux mx.
    destruct bx; try discriminate. inversion Ht; subst; clear Ht. red_c. exact (ac_check x Hg).
  Qed.
  Lemma s_dupif x : cstmt x -> cstmt (MDupIf x).
  Proof.
    intros IH t Ht Hwf. one_child IH Ht Hwf tx Hg bx ix dx ux mx.
    destruct bx; try discriminate; destruct ix; try discriminate. inversion Ht; subst; clear Ht. red_c.
    exact (ac_dupif x Hg).
  Qed.
  Lemma s_verify x : cstmt x -> cstmt (MVerify x).
  Proof.
    intros IH t Ht Hwf. one_child IH Ht Hwf tx Hg bx ix dx ux mx.
    destruct bx; try discriminate. inversion Ht; subst; clear Ht. red_c. exact (ac_verify x Hg).
  Qed.
  Lemma s_nonzero x : cstmt x -> cstmt (MNonZero x).
  Proof.
    intros IH t Ht Hwf. one_child IH Ht Hwf tx Hg bx ix dx ux mx.
    destruct ix; cbn in Ht; try discriminate; destruct bx; try discriminate; inversion Ht; subst; clear Ht; red_c;
      exact (ac_nonzero x Hg).
  Qed.
  Lemma s_zne x : cstmt x -> cstmt (MZeroNotEqual x).
  Proof.
    intros IH t Ht Hwf. one_child IH Ht Hwf tx Hg bx ix dx ux mx.
    destruct bx; try discriminate. inversion Ht; subst; clear Ht. red_c. exact (ac_zne x Hg).
  Qed.

  Ltac two_children IHx IHy Ht Hwf tx ty Hgx Hgy :=
    cbn [type_of] in Ht; apply rbind_ok in Ht; destruct Ht as [tx [Hx Ht]];
    apply rbind_ok in Ht; destruct Ht as [ty [Hy Ht]];
    cbn [wf] in Hwf; destruct Hwf as [Hwx Hwy];
    pose proof (IHx tx Hx Hwx) as Hgx; pose proof (IHy ty Hy Hwy) as Hgy;
    destruct tx as [[bx ix dx ux] mx]; destruct ty as [[b2 i2 d2 u2] m2]; unf Ht.

  Lemma s_and_v x y : cstmt x -> cstmt y -> cstmt (MAndV x y).
  Proof.
    intros IHx IHy t Ht Hwf. two_children IHx IHy Ht Hwf t1 t2 Hgx Hgy.
    destruct bx, b2; try discriminate; inversion Ht; subst; clear Ht; red_c.
    - exact (ac_andv_B x y Hgx Hgy).
    - exact (ac_andv_K x y Hgx Hgy).
    - exact (ac_andv_V x y Hgx Hgy).
  Qed.
  Lemma s_and_b x y : cstmt x -> cstmt y -> cstmt (MAndB x y).
  Proof.
    intros IHx IHy t Ht Hwf. two_children IHx IHy Ht Hwf t1 t2 Hgx Hgy.
    destruct bx, b2; try discriminate; inversion Ht; subst; clear Ht; red_c. exact (ac_andb x y Hgx Hgy).
  Qed.
  Lemma s_or_b x y : cstmt x -> cstmt y -> cstmt (MOrB x y).
  Proof.
    intros IHx IHy t Ht Hwf. two_children IHx IHy Ht Hwf t1 t2 Hgx Hgy.
    destruct dx; cbn [negb] in Ht; try discriminate. destruct d2; cbn [negb] in Ht; try discriminate.
    destruct bx, b2; try discriminate; inversion Ht; subst; clear Ht; red_c. exact (ac_orb x y Hgx Hgy).
  Qed.
  Lemma s_or_c x y : cstmt x -> cstmt y -> cstmt (MOrC x y).
  Proof.
    intros IHx IHy t Ht Hwf. two_children IHx IHy Ht Hwf t1 t2 Hgx Hgy.
    destruct dx; cbn [negb] in Ht; try discriminate. destruct ux; cbn [negb] in Ht; try discriminate.
    destruct bx, b2; try discriminate; inversion Ht; subst; clear Ht; red_c. exact (ac_orc x y Hgx Hgy).
  Qed.
  Lemma s_or_d x y : cstmt x -> cstmt y -> cstmt (MOrD x y).
  Proof.
    intros IHx IHy t Ht Hwf. two_children IHx IHy Ht Hwf t1 t2 Hgx Hgy.
    destruct dx; cbn [negb] in Ht; try discriminate. destruct ux; cbn [negb] in Ht; try discriminate.
    destruct bx, b2; try discriminate; inversion Ht; subst; clear Ht; red_c. exact (ac_ord x y Hgx Hgy).
  Qed.
  Lemma s_or_i x y : cstmt x -> cstmt y -> cstmt (MOrI x y).
  Proof.
    intros IHx IHy t Ht Hwf. two_children IHx IHy Ht Hwf t1 t2 Hgx Hgy.
    destruct bx, b2; try discriminate; inversion Ht; subst; clear Ht; red_c.
    - exact (ac_ori_B x y Hgx Hgy).
    - exact (ac_ori_K x y Hgx Hgy).
    - exact (ac_ori_V x y Hgx Hgy).
  Qed.
  Lemma s_andor a b c : cstmt a -> cstmt b -> cstmt c -> cstmt (MAndOr a b c).
  Proof.
    intros IHa IHb IHc t Ht Hwf.
    cbn [type_of] in Ht. apply rbind_ok in Ht. destruct Ht as [ta [Ha Ht]].
    apply rbind_ok in Ht. destruct Ht as [dn_tb [Hb Ht]]. apply rbind_ok in Ht. destruct Ht as [tc [Hc Ht]].
    cbn [wf] in Hwf. destruct Hwf as [Hwa [Hwb Hwc]].
    pose proof (IHa ta Ha Hwa) as Hga. pose proof (IHb dn_tb Hb Hwb) as Hgb. pose proof (IHc tc Hc Hwc) as Hgc.
    destruct ta as [[ba ia da ua] ma], dn_tb as [[bb ib db ub] mb], tc as [[bc ic dc uc] mc]. unf Ht.
    destruct da; cbn [negb] in Ht; try discriminate. destruct ua; cbn [negb] in Ht; try discriminate.
    destruct ba, bb, bc; try discriminate; inversion Ht; subst; clear Ht; red_c.
    - exact (ac_andor_B a b c Hga Hgb Hgc).
    - exact (ac_andor_K a b c Hga Hgb Hgc).
    - exact (ac_andor_V a b c Hga Hgb Hgc).
  Qed.

  Lemma s_thresh k xs : Forall cstmt xs -> cstmt (MThresh k xs).
  Proof.
    intros IH t Ht Hwf. cbn [type_of] in Ht. fold (tys_of xs) in Ht.
    apply rbind_ok in Ht. destruct Ht as [ts [Hts Ht]]. apply tys_of_ok in Hts.
    cbn [wf] in Hwf. destruct Hwf as [Hk [Hn Hwf]].
    assert (Hall : Forall2 (fun x t => dn_comp x t) xs ts).
    { clear Ht Hk Hn. revert ts Hts Hwf. induction IH as [|x r Hx Hr IHr]; intros ts Hts Hwf.
      - inversion Hts. constructor.
      - inversion Hts as [|x' t' r' ts' Hxt Hrt]; subst. destruct Hwf as [Hw1 Hw2].
        constructor; [apply Hx; assumption | apply IHr; assumption]. }
    unfold t_threshold in Ht. destruct (c_threshold k (map t_corr ts)) as [c|] eqn:Ec; [|discriminate].
    inversion Ht; subst; clear Ht.
    destruct xs as [|x0 r]; [cbn in Hk; lia|]. inversion Hall as [|x0' t0 r' ts0 Hg0 Hrest]; subst.
    unfold c_threshold in Ec. cbn [map] in Ec. destruct (loop_first (t_corr t0) (map t_corr ts0)) as [Lt Lf].
    destruct (child_ok true (t_corr t0) && forallb (child_ok false) (map t_corr ts0)) eqn:Eok.
    2:{ destruct (Lf eq_refl) as [err He]. rewrite He in Ec. discriminate. }
    rewrite (Lt eq_refl) in Ec. inversion Ec; subst; clear Ec.
    apply andb_prop in Eok. destruct Eok as [Ok0 Okr].
    unfold child_ok in Ok0. destruct t0 as [[b0 i0 d0 u0] m0]. cbn [t_corr c_base c_unit c_dissat] in Ok0.
    destruct b0, u0, d0; try discriminate. unfold dn_comp in Hg0. cbn [t_corr c_base] in Hg0.
    assert (HW : Forall cW r).
    { clear -Hrest Okr. induction Hrest as [|x t r ts Hg Hr IHr]; [constructor|].
      cbn [map forallb] in Okr. apply andb_prop in Okr. destruct Okr as [O1 O2].
      constructor; [|apply IHr, O2]. unfold child_ok in O1. destruct t as [[b i d u] m].
      cbn [t_corr c_base c_unit c_dissat] in O1. destruct b, u, d; try discriminate. exact Hg. }
    unfold dn_comp. cbn [t_corr c_base]. apply ac_thresh; auto; cbn [length] in *; lia.
  Qed.

  Theorem denot_complete_inv : forall m, cstmt m.
  Proof.
    induction m using ms_ind'.
    - intros t Ht _. inversion Ht; subst. exact ac_true.
    - intros t Ht _. inversion Ht; subst. exact ac_false.
    - intros t Ht _. inversion Ht; subst. exact (ac_pk_k k).
    - intros t Ht _. inversion Ht; subst. exact (ac_pk_h k).
    - intros t Ht _. inversion Ht; subst. exact (ac_raw h).
    - intros t0 Ht Hwf. inversion Ht; subst. exact (ac_after t Hwf).
    - intros t0 Ht Hwf. inversion Ht; subst. exact (ac_older t Hwf).
    - intros t Ht _. inversion Ht; subst. intros s w v HR. exact (ac_hash_gen OP_SHA256 (e_sha256 e) h s w v (fun x r al => eq_refl) HR).
    - intros t Ht _. inversion Ht; subst. intros s w v HR. exact (ac_hash_gen OP_HASH256 (e_hash256 e) h s w v (fun x r al => eq_refl) HR).
    - intros t Ht _. inversion Ht; subst. intros s w v HR. exact (ac_hash_gen OP_RIPEMD160 (e_ripemd160 e) h s w v (fun x r al => eq_refl) HR).
    - intros t Ht _. inversion Ht; subst. intros s w v HR. exact (ac_hash_gen OP_HASH160 (e_hash160 e) h s w v (fun x r al => eq_refl) HR).
    - apply s_alt; assumption.
    - apply s_swap; assumption.
    - apply s_check; assumption.
    - apply s_dupif; assumption.
    - apply s_verify; assumption.
    - apply s_nonzero; assumption.
    - apply s_zne; assumption.
    - apply s_and_v; assumption.
    - apply s_and_b; assumption.
    - apply s_andor; assumption.
    - apply s_or_b; assumption.
    - apply s_or_d; assumption.
    - apply s_or_c; assumption.
    - apply s_or_i; assumption.
    - apply s_thresh; assumption.
    - (* multi *) intros t Ht Hwf. inversion Ht; subst. cbn [wf] in Hwf. destruct Hwf as [Hk [Hn [Htap _]]].
      intros s w v HR. cbn [Rg] in HR. cbn [enc].
      rewrite <- (map_map (kb ke) IPush ks), <- (map_length (kb ke) ks).
      apply ac_cms; try rewrite map_length; assumption.
    - (* sortedmulti *) intros t Ht Hwf. inversion Ht; subst. cbn [wf] in Hwf. destruct Hwf as [Hk [Hn [Htap Hlen]]].
      intros s w v HR. cbn [Rg] in HR. cbn [enc].
      rewrite <- (map_map (kb ke) IPush (ksort ke ks)), <- Hlen, <- (map_length (kb ke) (ksort ke ks)).
      apply ac_cms; try rewrite map_length, Hlen; assumption.
    - (* multi_a *) intros t Ht Hwf. inversion Ht; subst. cbn [wf] in Hwf. destruct Hwf as [Hk [Hn [Htap _]]].
      intros s w v HR. cbn [Rg] in HR. cbn [enc]. apply (ac_multi_a_gen k ks Hk Hn Htap s w v HR).
    - (* sortedmulti_a *) intros t Ht Hwf. inversion Ht; subst. cbn [wf] in Hwf. destruct Hwf as [Hk [Hn [Htap Hlen]]].
      intros s w v HR. cbn [Rg] in HR. cbn [enc].
      apply (ac_multi_a_gen k (ksort ke ks) ltac:(rewrite Hlen; exact Hk) ltac:(rewrite Hlen; exact Hn) Htap s w v HR).
  Qed.
End Complete.
