(* C19 — proofs about the Hasher feeds of descriptors and policies (Ms/EqOrdHashModel.v): equal values feed the
   same calls, the feed is a prefix code (hence injective: hashing is structural), clone is the identity. *)
From Coq Require Import Lia.
From Verif Require Import EqOrdModel EqOrdRun EqOrdDescModel EqOrdPolModel EqOrdHashModel TheoremA
     EqOrdProofs EqOrdDescProofs EqOrdPolProofs.
Local Open Scope N_scope.

(* ------------------------------------------------------------------ miniscripts: the raw feed is a prefix code *)
Definition raw_node (x : node) : list rawword := flat_map raw_of_hword (hash_node x).

Lemma flat_map_flat_map {A B C} (f : B -> list C) (g : A -> list B) l :
  flat_map f (flat_map g l) = flat_map (fun x => flat_map f (g x)) l.
Proof. induction l as [|x r IH]; cbn; [reflexivity | rewrite flat_map_app, IH; reflexivity]. Qed.

Lemma hash_raw_children m : hash_raw m = raw_node (node_of m) ++ flat_map hash_raw (children m).
Proof.
  unfold hash_raw, hash_iter. rewrite (preorder_children m). cbn [flat_map]. rewrite flat_map_app.
  f_equal. induction (children m) as [|x r IH]; cbn; [reflexivity | rewrite !flat_map_app, IH; reflexivity].
Qed.

Lemma map_RK_app_inj : forall ks ks0 r1 r2, length ks = length ks0 ->
  map RK ks ++ r1 = map RK ks0 ++ r2 -> ks = ks0 /\ r1 = r2.
Proof.
  induction ks as [|x r IH]; intros [|y s] r1 r2 Hn HH; cbn in *; try discriminate.
  - split; [reflexivity | exact HH].
  - injection HH as -> HH. injection Hn as Hn. destruct (IH s r1 r2 Hn HH) as [-> ->]. split; reflexivity.
Qed.

Lemma map_HKey_raw ks : flat_map raw_of_hword (map HKey ks) = map RK ks.
Proof. induction ks as [|x r IH]; cbn; [reflexivity | rewrite IH; reflexivity]. Qed.

Lemma hash_raw_app_inj : forall a b r1 r2, hash_raw a ++ r1 = hash_raw b ++ r2 -> a = b /\ r1 = r2.
Proof.
  induction a using ms_ind'; intros b r1 r2 HH; destruct b;
    rewrite !hash_raw_children in HH;
    cbn [node_of children raw_node hash_node n_tag n_pl n_arity flat_map raw_of_hword tag_idx app] in HH;
    rewrite ?app_nil_r in HH; rewrite ?map_HKey_raw in HH; cbn [app] in HH; try discriminate HH.
  all: try (injection HH; intros; subst; split; reflexivity).
  1-7: injection HH as HH; apply IHa in HH; destruct HH; subst; split; reflexivity.
  1-2, 4-7: injection HH as HH; rewrite <- ?app_assoc in HH; apply IHa1 in HH; destruct HH as [-> HH];
    apply IHa2 in HH; destruct HH; subst; split; reflexivity.
  - injection HH as HH. rewrite <- ?app_assoc in HH. apply IHa1 in HH. destruct HH as [-> HH].
    apply IHa2 in HH. destruct HH as [-> HH]. apply IHa3 in HH. destruct HH; subst; split; reflexivity.
  - injection HH as Hk Hn HH. subst k0. apply nlen_inj in Hn.
    assert (G : xs = xs0 /\ r1 = r2).
    { revert xs0 Hn HH. induction H as [|x r Hx Hr IHr]; intros [|y s] Hn HH; cbn in Hn; try discriminate.
      - cbn in HH. split; [reflexivity | exact HH].
      - cbn in HH. rewrite <- !app_assoc in HH. apply Hx in HH. destruct HH as [-> HH].
        injection Hn as Hn. destruct (IHr s Hn HH) as [-> ->]. split; reflexivity. }
    destruct G as [-> ->]. split; reflexivity.
  - injection HH as Hk Hn HH; subst; apply nlen_inj in Hn;
    destruct (map_RK_app_inj _ _ _ _ Hn HH) as [-> ->]; split; reflexivity.
  - injection HH as Hk Hn HH; subst; apply nlen_inj in Hn;
    destruct (map_RK_app_inj _ _ _ _ Hn HH) as [-> ->]; split; reflexivity.
  - injection HH as Hk Hn HH; subst; apply nlen_inj in Hn;
    destruct (map_RK_app_inj _ _ _ _ Hn HH) as [-> ->]; split; reflexivity.
  - injection HH as Hk Hn HH; subst; apply nlen_inj in Hn;
    destruct (map_RK_app_inj _ _ _ _ Hn HH) as [-> ->]; split; reflexivity.
Qed.

Theorem hash_raw_inj a b : hash_raw a = hash_raw b -> a = b.
Proof. intro H. apply (hash_raw_app_inj a b [] []). rewrite !app_nil_r. exact H. Qed.

(* ------------------------------------------------------------------ descriptors *)
Lemma leaves_feed_app_inj : forall l l' r1 r2, length l = length l' ->
  flat_map leaf_feed l ++ r1 = flat_map leaf_feed l' ++ r2 -> l = l' /\ r1 = r2.
Proof.
  induction l as [|[d m] r IH]; intros [|[d' m'] s] r1 r2 Hn HH; cbn in Hn; try discriminate.
  - cbn in HH. split; [reflexivity | exact HH].
  - cbn [flat_map leaf_feed fst snd app] in HH. rewrite <- !app_assoc in HH. injection HH as -> HH.
    apply hash_raw_app_inj in HH. destruct HH as [-> HH]. injection Hn as Hn.
    destruct (IH s r1 r2 Hn HH) as [-> ->]. split; reflexivity.
Qed.

Lemma desc_feed_app_inj : forall a b r1 r2, desc_feed a ++ r1 = desc_feed b ++ r2 -> a = b /\ r1 = r2.
Proof.
  intros a b r1 r2 HH.
  destruct a as [m|k|k|m|k|m|m|k [|l ls]], b as [m'|k'|k'|m'|k'|m'|m'|k' [|l' ls']];
    cbn [desc_feed app] in HH; try discriminate HH;
    try (injection HH; intros; subst; split; reflexivity);
    try (injection HH as HH; apply hash_raw_app_inj in HH; destruct HH as [-> ->]; split; reflexivity).
  remember (l :: ls) as L eqn:EL. remember (l' :: ls') as L' eqn:EL'. clear EL EL'.
  cbn [app] in HH. injection HH as -> Hn HH. apply nlen_inj in Hn.
  destruct (leaves_feed_app_inj L L' r1 r2 Hn HH) as [-> ->]. split; reflexivity.
Qed.

(* (b) the feed determines the descriptor: hashing is structural *)
Theorem desc_feed_inj a b : desc_feed a = desc_feed b -> a = b.
Proof. intro H. apply (desc_feed_app_inj a b [] []). rewrite !app_nil_r. exact H. Qed.

(* (a) equal descriptors feed the same calls *)
Theorem desc_hash_eq_contract a b : desc_eq eq_iter a b = true -> desc_feed a = desc_feed b.
Proof. intro H. apply desc_eq_iter_structural in H. subst. reflexivity. Qed.

Theorem desc_feed_eq_iff a b : desc_feed a = desc_feed b <-> desc_eq eq_iter a b = true.
Proof.
  split; [intro H; apply desc_eq_iter_structural, desc_feed_inj, H | apply desc_hash_eq_contract].
Qed.

(* the same for values with a cache history: `==` implies equal feeds whatever the caches hold, and the feed is
   independent of the cache *)
Theorem cdesc_hash_eq_contract x y : cdesc_eq eq_iter x y = true -> cdesc_feed x = cdesc_feed y.
Proof. unfold cdesc_eq, cdesc_feed. apply desc_hash_eq_contract. Qed.

Theorem cdesc_feed_history_independent a c c' : cdesc_feed (mkCD a c) = cdesc_feed (mkCD a c').
Proof. reflexivity. Qed.

Theorem cdesc_feed_inj x y : cdesc_feed x = cdesc_feed y -> cd_desc x = cd_desc y.
Proof. apply desc_feed_inj. Qed.

(* (c) clone *)
Theorem desc_clone_id d : desc_clone d = d.
Proof.
  destruct d; cbn; rewrite ?clone_id; try reflexivity.
  f_equal. induction leaves as [|[d m] r IH]; cbn; [reflexivity | rewrite IH; reflexivity].
Qed.

(* ------------------------------------------------------------------ concrete policies *)
Lemma cpol_feed_app_inj : forall a b r1 r2, cpol_feed a ++ r1 = cpol_feed b ++ r2 -> a = b /\ r1 = r2.
Proof.
  induction a using cpol_ind'; intros b r1 r2 HH.
  - destruct a; try contradiction; destruct b; cbn [cpol_feed bytes_feed raw_of_hword app] in HH; try discriminate HH;
      injection HH; intros; subst; split; reflexivity.
  - destruct b as [| | | | | | | | |l0|l0|k0 l0]; cbn [cpol_feed app] in HH; try discriminate HH.
    injection HH as Hn HH. apply nlen_inj in Hn.
    assert (G : l = l0 /\ r1 = r2).
    { revert l0 Hn HH. induction H as [|x r Hx Hr IH]; intros [|y s] Hn HH; cbn in Hn; try discriminate.
      - cbn in HH. split; [reflexivity | exact HH].
      - rewrite <- !app_assoc in HH. apply Hx in HH. destruct HH as [-> HH]. injection Hn as Hn.
        destruct (IH s Hn HH) as [-> ->]. split; reflexivity. }
    destruct G as [-> ->]. split; reflexivity.
  - destruct b as [| | | | | | | | |l0|l0|k0 l0]; cbn [cpol_feed app] in HH; try discriminate HH.
    injection HH as Hn HH. apply nlen_inj in Hn.
    assert (G : l = l0 /\ r1 = r2).
    { revert l0 Hn HH. induction H as [|[w x] r Hx Hr IH]; intros [|[w' y] s] Hn HH; cbn in Hn; try discriminate.
      - cbn in HH. split; [reflexivity | exact HH].
      - cbn [app] in HH. injection HH as -> HH. rewrite <- !app_assoc in HH. cbn [snd] in Hx. apply Hx in HH.
        destruct HH as [-> HH]. injection Hn as Hn. destruct (IH s Hn HH) as [-> ->]. split; reflexivity. }
    destruct G as [-> ->]. split; reflexivity.
  - destruct b as [| | | | | | | | |l0|l0|k0 l0]; cbn [cpol_feed app] in HH; try discriminate HH.
    injection HH as -> Hn HH. apply nlen_inj in Hn.
    assert (G : l = l0 /\ r1 = r2).
    { revert l0 Hn HH. induction H as [|x r Hx Hr IH]; intros [|y s] Hn HH; cbn in Hn; try discriminate.
      - cbn in HH. split; [reflexivity | exact HH].
      - rewrite <- !app_assoc in HH. apply Hx in HH. destruct HH as [-> HH]. injection Hn as Hn.
        destruct (IH s Hn HH) as [-> ->]. split; reflexivity. }
    destruct G as [-> ->]. split; reflexivity.
Qed.

Theorem cpol_feed_inj a b : cpol_feed a = cpol_feed b -> a = b.
Proof. intro H. apply (cpol_feed_app_inj a b [] []). rewrite !app_nil_r. exact H. Qed.

Theorem cpol_hash_eq_contract a b : cpol_eqb a b = true -> cpol_feed a = cpol_feed b.
Proof. intro H. apply cpol_eqb_eq in H. subst. reflexivity. Qed.

Theorem cpol_feed_eq_iff a b : cpol_feed a = cpol_feed b <-> cpol_eqb a b = true.
Proof. split; [intro H; apply cpol_eqb_eq, cpol_feed_inj, H | apply cpol_hash_eq_contract]. Qed.

(* clone of a policy (concrete or semantic: the same type in the model) *)
Theorem cpol_clone_id p : cpol_clone p = p.
Proof.
  destruct p; cbn; try reflexivity; f_equal.
  - apply map_id.
  - induction l as [|[w x] r IH]; cbn; [reflexivity | rewrite IH; reflexivity].
  - apply map_id.
Qed.

Theorem cpol_clone_semantic p : is_semantic p = true -> is_semantic (cpol_clone p) = true.
Proof. rewrite cpol_clone_id. auto. Qed.

(* ------------------------------------------------------------------ examples (non-vacuity; the directed pairs) *)
Definition e_pk (k : key) : ms := MCheck (MPkK k).
Example desc_feed_examples :
  (* same leaves, different tree shape *)
  desc_feed (DTr 0 [(1, e_pk 1); (2, e_pk 2); (2, e_pk 3)]) <> desc_feed (DTr 0 [(2, e_pk 1); (2, e_pk 2); (1, e_pk 3)]) /\
  (* with and without a tree; tree = one leaf *)
  desc_feed (DTr 0 []) = [RI 5; RK 0; RI 0] /\
  desc_feed (DTr 0 [(0, e_pk 1)]) = [RI 5; RK 0; RI 1; RU 1; RC 0; RI 13; RI 2; RK 1] /\
  (* sortedmulti vs multi; k differs; arity differs *)
  desc_feed (DWsh (MMulti 1 [0; 1])) = [RI 4; RI 26; RU 1; RU 2; RK 0; RK 1] /\
  desc_feed (DWsh (MSortedMulti 1 [0; 1])) = [RI 4; RI 27; RU 1; RU 2; RK 0; RK 1] /\
  desc_feed (DWsh (MMulti 2 [0; 1])) <> desc_feed (DWsh (MMulti 1 [0; 1])) /\
  desc_feed (DWsh (MMulti 1 [0; 1; 2])) <> desc_feed (DWsh (MMulti 1 [0; 1])) /\
  (* the three kinds of sh, wsh *)
  desc_feed (DShWsh (e_pk 0)) = [RI 3; RI 0; RI 13; RI 2; RK 0] /\
  desc_feed (DSh (e_pk 0)) = [RI 3; RI 2; RI 13; RI 2; RK 0] /\
  desc_feed (DShWpkh 0) = [RI 3; RI 1; RK 0] /\
  desc_eq eq_iter (DTr 0 [(0, e_pk 1)]) (DTr 0 [(0, e_pk 1)]) = true.
Proof. vm_compute. repeat split; discriminate. Qed.

Example cpol_feed_examples :
  cpol_feed (QOr [(9, QKey 0); (1, QKey 1)]) = [RI 10; RU 2; RU 9; RI 2; RK 0; RU 1; RI 2; RK 1] /\
  cpol_feed (QOr [(1, QKey 0); (9, QKey 1)]) <> cpol_feed (QOr [(9, QKey 0); (1, QKey 1)]) /\
  cpol_feed (QThresh 1 [QKey 0; QKey 1]) = [RI 11; RU 1; RU 2; RI 2; RK 0; RI 2; RK 1] /\
  cpol_feed (QThresh 2 [QKey 0; QKey 1]) <> cpol_feed (QThresh 1 [QKey 0; QKey 1]) /\
  cpol_feed (QThresh 1 [QKey 0; QKey 1; QKey 2]) <> cpol_feed (QThresh 1 [QKey 0; QKey 1]) /\
  cpol_feed (QAnd [QKey 0; QKey 1]) = [RI 9; RU 2; RI 2; RK 0; RI 2; RK 1] /\
  cpol_feed (QAfter 500000000) = [RI 3; RI 1; RW 500000000] /\
  cpol_feed (QOlder 65537) = [RI 4; RW 65537] /\
  cpol_feed (QAnd [QAnd [QKey 0]; QKey 1]) <> cpol_feed (QAnd [QAnd [QKey 0; QKey 1]]) /\
  cpol_eqb (QOr [(9, QKey 0); (1, QKey 1)]) (QOr [(9, QKey 0); (1, QKey 1)]) = true.
Proof. vm_compute. repeat split; discriminate. Qed.
