(* C03, table level: multi / sortedmulti (CHECKMULTISIG) and multi_a / sortedmulti_a (CHECKSIGADD).
   The honest witness shows exactly k signatures (the first k available keys for multi, the last k
   available keys for multi_a).  A third party that only holds signatures shown in the witness has
   at most these k; a table entry needs exactly k signatures of distinct keys (no repeated keys):
   it must use all of them, in key order, i.e. it is the honest entry. *)
From Verif Require Import Exec Ser Ast Types TypeCheck SatSpec Sat ExecLemmas TheoremA SatProofs
  CompleteProofs CompleteThresh CompleteNonMall HasSigProofs NonMallUnique.
From Coq Require Import Lia Permutation.

Definition avb (B : assets) (key : key) : bool := match a_sig B key with Some _ => true | None => false end.
Definition is_sigb (p : ph) : bool := match p with PhSig _ => true | _ => false end.
Definition nsig (l : list ph) : nat := length (filter is_sigb l).

Lemma pick_count B K : forall j sigs, In sigs (pick_sigs B j K) -> (j <= cnt (avb B) K)%nat.
Proof.
  induction K as [|key r IH]; intros j sigs H; cbn [pick_sigs] in H.
  - destruct j; [cbn; lia | destruct H].
  - unfold cnt in *. cbn [filter]. unfold avb at 1. apply in_app_or in H. destruct H as [H|H].
    + destruct j as [|j']; [destruct H|]. destruct (a_sig B key) as [sg|]; [|destruct H].
      apply in_map_iff in H. destruct H as [s0 [_ H]]. apply IH in H. cbn [length]. lia.
    + apply IH in H. destruct (a_sig B key); cbn [length]; lia.
Qed.
Lemma pick_a_count B K : forall j w, In w (pick_sigs_a B j K) -> (j <= cnt (avb B) K)%nat.
Proof.
  induction K as [|key r IH]; intros j w H; cbn [pick_sigs_a] in H.
  - destruct j; [cbn; lia | destruct H].
  - unfold cnt in *. cbn [filter]. unfold avb at 1. apply in_app_or in H. destruct H as [H|H].
    + destruct j as [|j']; [destruct H|]. destruct (a_sig B key) as [sg|]; [|destruct H].
      apply in_map_iff in H. destruct H as [s0 [_ H]]. apply IH in H. cbn [length]. lia.
    + apply in_map_iff in H. destruct H as [s0 [_ H]]. apply IH in H. destruct (a_sig B key); cbn [length]; lia.
Qed.
Lemma nil_of_notin {X} (l : list X) : (forall x, In x l -> False) -> l = [].
Proof. destruct l as [|x r]; [reflexivity|]. intros H. exfalso. apply (H x). left. reflexivity. Qed.

Lemma cnt_nosigs B K : nosigs B K -> cnt (avb B) K = 0%nat.
Proof.
  unfold cnt. induction K as [|key r IH]; intros H; [reflexivity|]. cbn [filter]. unfold avb at 1.
  rewrite (H key (or_introl eq_refl)). apply IH. intros k Hk. apply H. right. exact Hk.
Qed.

Lemma pick_a_app_inv B K1 : forall K2 j w, In w (pick_sigs_a B j (K1 ++ K2)) ->
  exists j1 j2 a b, j = (j1 + j2)%nat /\ In a (pick_sigs_a B j1 K1) /\ In b (pick_sigs_a B j2 K2) /\ w = a ++ b.
Proof.
  induction K1 as [|key r IH]; intros K2 j w H; cbn [app] in H.
  - exists 0%nat, j, [], w. repeat split; [left; reflexivity | exact H].
  - cbn [pick_sigs_a] in H. apply in_app_or in H. destruct H as [H|H].
    + destruct j as [|j']; [destruct H|]. destruct (a_sig B key) as [sg|] eqn:E; [|destruct H].
      apply in_map_iff in H. destruct H as [w0 [<- H]]. destruct (IH K2 j' w0 H) as [j1 [j2 [a [b [-> [Ha [Hb ->]]]]]]].
      exists (S j1), j2, (sg :: a), b. repeat split; [|exact Hb]. cbn [pick_sigs_a]. rewrite E. apply in_or_app. left. apply in_map. exact Ha.
    + apply in_map_iff in H. destruct H as [w0 [<- H]]. destruct (IH K2 j w0 H) as [j1 [j2 [a [b [-> [Ha [Hb ->]]]]]]].
      exists j1, j2, ([] :: a), b. repeat split; [|exact Hb]. cbn [pick_sigs_a]. apply in_or_app. right. apply in_map. exact Ha.
Qed.
Lemma pick_a_single B key j b : In b (pick_sigs_a B j [key]) ->
  (j = 1%nat /\ exists sg, a_sig B key = Some sg /\ b = [sg]) \/ (j = 0%nat /\ b = [[]]).
Proof.
  cbn [pick_sigs_a]. intros H. apply in_app_or in H. destruct H as [H|H].
  - destruct j as [|j']; [destruct H|]. destruct (a_sig B key) as [sg|]; [|destruct H].
    apply in_map_iff in H. destruct H as [w0 [<- H]]. destruct j'; [|destruct H]. destruct H as [<-|[]].
    left. split; [reflexivity|]. exists sg. split; reflexivity.
  - apply in_map_iff in H. destruct H as [w0 [<- H]]. destruct j; [|destruct H]. destruct H as [<-|[]]. right. split; reflexivity.
Qed.

Section UniqMulti.
  Variable ke : keyenv.
  Variable A : assets.
  Variable se : senv.
  Variable f : fill.
  Hypothesis L : linked ke A se f.
  Notation J := (J A se f).
  Notation uinv := (uinv A se f).

  Definition avs (key : key) : bool := match se_sig se key with Some _ => true | None => false end.
  Lemma count_avail_cnt ks : count_avail se ks = cnt avs ks.
  Proof. reflexivity. Qed.
  Lemma avb_avs B key : below A B -> avb B key = true -> avs key = true.
  Proof.
    intros HB H. unfold avb, avs in *. destruct (se_sig se key) eqn:E; [reflexivity|].
    rewrite (below_nosig ke A se f L B key HB E) in H. discriminate.
  Qed.
  Lemma cnt_avb_le B K : below A B -> (cnt (avb B) K <= count_avail se K)%nat.
  Proof. intros HB. rewrite count_avail_cnt. apply cnt_le. intros x _. apply avb_avs, HB. Qed.

  (* counting visible keys: the available keys of B among a duplicate-free K all have their
     placeholder in l, so there are at most nsig l of them *)
  Lemma vis_count B K l : NoDup K -> (forall key, In key K -> a_sig B key <> None -> In (PhSig key) l) ->
    (cnt (avb B) K <= nsig l)%nat.
  Proof.
    intros Hnd Hv. unfold cnt, nsig.
    rewrite <- (map_length PhSig (filter (avb B) K)). apply NoDup_incl_length.
    - apply FinFun.Injective_map_NoDup; [intros x y E; inversion E; reflexivity|]. apply NoDup_filter, Hnd.
    - intros p Hp. apply in_map_iff in Hp. destruct Hp as [key [<- Hk]]. apply filter_In in Hk. destruct Hk as [Hk Ha].
      apply filter_In. split; [|reflexivity]. apply Hv; [exact Hk|]. unfold avb in Ha. destruct (a_sig B key); [discriminate | discriminate].
  Qed.

  (* ---------- multi ---------- *)
  Lemma take_avail_in ks : forall k key, In (PhSig key) (take_avail se k ks) -> In key ks.
  Proof.
    induction ks as [|x r IH]; intros k key H; cbn [take_avail] in H; [destruct H|].
    destruct (se_sig se x); [destruct k as [|k']|].
    - right. exact (IH _ _ H).
    - destruct H as [H|H]; [inversion H; left; reflexivity | right; exact (IH _ _ H)].
    - right. exact (IH _ _ H).
  Qed.
  Lemma take_avail_nsig ks : forall k, (nsig (take_avail se k ks) <= k)%nat.
  Proof.
    intros k. unfold nsig. pose proof (take_avail_len se ks k) as H.
    assert (G : (length (filter is_sigb (take_avail se k ks)) <= length (take_avail se k ks))%nat).
    { generalize (take_avail se k ks). intros l. induction l as [|p r IH]; [cbn; lia|]. cbn [filter]. destruct (is_sigb p); cbn [length]; lia. }
    lia.
  Qed.

  Lemma pick_unique B ks : below A B -> NoDup ks -> forall k sb sigs,
    fill_all f (take_avail se k ks) = Some sb ->
    (forall key, In key ks -> a_sig B key <> None -> In (PhSig key) (take_avail se k ks)) ->
    In sigs (pick_sigs B k ks) -> sigs = sb.
  Proof.
    intros HB. induction ks as [|key r IH]; intros Hnd k sb sigs Hf Hv Hin.
    - cbn in Hf. inversion Hf; subst. cbn [pick_sigs] in Hin. destruct k; [destruct Hin as [<-|[]]; reflexivity | destruct Hin].
    - inversion Hnd as [|? ? Hk Hr]; subst. cbn [take_avail] in Hf, Hv. cbn [pick_sigs] in Hin.
      destruct (se_sig se key) as [sz|] eqn:E.
      + destruct k as [|k'].
        * cbn [app] in Hin. apply (IH Hr 0%nat sb sigs Hf); [|exact Hin]. intros key' Hk' Ha. apply Hv; [right; exact Hk' | exact Ha].
        * cbn [fill_all fill_ph] in Hf. destruct (f_sig f key) as [sg0|] eqn:Eg; [|discriminate].
          destruct (fill_all f (take_avail se k' r)) as [sb'|] eqn:Ef; [|discriminate]. inversion Hf; subst sb.
          assert (Hv' : forall key', In key' r -> a_sig B key' <> None -> In (PhSig key') (take_avail se k' r)).
          { intros key' Hk' Ha. destruct (Hv key' (or_intror Hk') Ha) as [H|H]; [|exact H]. inversion H; subst. contradiction. }
          apply in_app_or in Hin. destruct Hin as [Hin|Hin].
          -- destruct (a_sig B key) as [sg|] eqn:Eb; [|destruct Hin]. apply in_map_iff in Hin. destruct Hin as [s' [<- Hs']].
             rewrite (below_sig ke A se f L B key sz sg HB E Eb) in Eg. inversion Eg; subst. f_equal. exact (IH Hr k' sb' s' Ef Hv' Hs').
          -- exfalso. apply pick_count in Hin. pose proof (vis_count B r _ Hr Hv') as G. pose proof (take_avail_nsig r k'). lia.
      + assert (Eb : a_sig B key = None) by exact (below_nosig ke A se f L B key HB E).
        rewrite Eb in Hin. assert (Hin' : In sigs (pick_sigs B k r)) by (destruct k; exact Hin).
        apply (IH Hr k sb sigs Hf); [|exact Hin']. intros key' Hk' Ha. apply Hv; [right; exact Hk' | exact Ha].
  Qed.

  Lemma ut_multi_gen (kN : N) ks : (1 <= kN)%N -> NoDup ks ->
    uinv ks (sd_multi se kN ks) (fun _ => [repeat [] (S (N.to_nat kN))])
         (fun B => map (fun sigs => rev sigs ++ [[]]) (pick_sigs B (N.to_nat kN) ks)) m_multi.
  Proof.
    intros Hk1 Hnd. set (k := N.to_nat kN). assert (Hk : (1 <= k)%nat) by (unfold k; lia).
    assert (Jd : J ks (mkSat (WStack (repeat PhPushZero (S k))) false None None) (fun _ => [repeat [] (S k)])).
    { apply (J_const A se f ks _ (repeat [] (S k))); [apply (nosig_repeat (S k)) | apply fill_repeat_zero|].
      intros B _ w' [<-|[]]. rewrite rev_repeat. reflexivity. }
    unfold sd_multi. cbv zeta. fold k. destruct (Nat.ltb (count_avail se ks) k) eqn:Ec.
    - apply Nat.ltb_lt in Ec. apply U_leaf; cbn [m_multi m_signed m_dissat]; try discriminate; try apply held_const.
      + intros _. apply ios_imp.
      + intros _. repeat split.
      + exact Jd.
      + apply J_impossible. intros B HB. apply nil_of_notin. intros w Hw. apply in_map_iff in Hw. destruct Hw as [sigs [_ Hs]].
        apply pick_count in Hs. pose proof (cnt_avb_le B ks HB). lia.
    - apply Nat.ltb_ge in Ec. apply U_leaf; cbn [m_multi m_signed m_dissat]; try discriminate; try apply held_const.
      + intros _. right. reflexivity.
      + intros _. repeat split.
      + exact Jd.
      + constructor; cbn [s_stack s_has_sig is_imp].
        * apply held_const.
        * intros E. discriminate.
        * intros l key Hl Hin. inversion Hl; subst. destruct Hin as [Hin|Hin]; [discriminate|]. exact (take_avail_in ks k key Hin).
        * discriminate.
        * intros _ B HB Hn. apply nil_of_notin. intros w Hw. apply in_map_iff in Hw. destruct Hw as [sigs [_ Hs]].
          apply pick_count in Hs. rewrite (cnt_nosigs B ks Hn) in Hs. lia.
        * intros l bs Hl Hf B HB Hv w' Hw. inversion Hl; subst l. cbn [fill_all fill_ph] in Hf.
          destruct (fill_all f (take_avail se k ks)) as [sb|] eqn:Ef; [|discriminate]. inversion Hf; subst bs.
          apply in_map_iff in Hw. destruct Hw as [sigs [<- Hs]]. cbn [rev]. f_equal. f_equal.
          apply (pick_unique B ks HB Hnd k sb sigs Ef); [|exact Hs].
          intros key Hk0 Ha. destruct (Hv key Hk0 Ha) as [H|H]; [discriminate | exact H].
  Qed.

  (* ---------- multi_a ---------- *)
  Lemma multi_a_fill_in Lk : forall k key, In (PhSig key) (multi_a_fill se k Lk) -> In key Lk.
  Proof.
    induction Lk as [|x r IH]; intros k key H; cbn [multi_a_fill] in H; [destruct H|].
    destruct (se_sig se x); [destruct k as [|k']|]; (destruct H as [H|H]; [try discriminate; inversion H; left; reflexivity | right; exact (IH _ _ H)]).
  Qed.
  Lemma nsig_fill Lk : forall k, nsig (multi_a_fill se k Lk) = Nat.min k (count_avail se Lk).
  Proof.
    induction Lk as [|x r IH]; intros k; cbn [multi_a_fill]; [cbn; lia|]. rewrite count_avail_cons. unfold nsig in *.
    destruct (se_sig se x); [destruct k as [|k']|]; cbn [filter is_sigb length]; rewrite IH; lia.
  Qed.

  (* stated on the reversed key list the satisfier iterates over *)
  Lemma pick_a_unique B Lk : below A B -> NoDup Lk -> forall k bs w,
    fill_all f (multi_a_fill se k Lk) = Some bs ->
    (forall key, In key Lk -> a_sig B key <> None -> In (PhSig key) (multi_a_fill se k Lk)) ->
    In w (pick_sigs_a B (nsig (multi_a_fill se k Lk)) (rev Lk)) -> w = rev bs.
  Proof.
    intros HB. induction Lk as [|key r IH]; intros Hnd k bs w Hf Hv Hin.
    - cbn in Hf. inversion Hf; subst. cbn in Hin. destruct Hin as [<-|[]]. reflexivity.
    - inversion Hnd as [|? ? Hk Hr]; subst. cbn [rev] in Hin.
      apply pick_a_app_inv in Hin. destruct Hin as [j1 [j2 [a [b [Ej [Ha [Hb ->]]]]]]].
      cbn [multi_a_fill] in Hf, Hv, Ej.
      assert (Hcount : forall k', (forall key', In key' r -> a_sig B key' <> None -> In (PhSig key') (multi_a_fill se k' r)) ->
                                  (j1 <= nsig (multi_a_fill se k' r))%nat).
      { intros k' Hv'. apply pick_a_count in Ha. pose proof (vis_count B r _ Hr Hv') as G.
        unfold cnt in *. rewrite <- (Permutation_length (Permutation_sym (Permutation_rev (filter (avb B) r)))) in G.
        assert (E : filter (avb B) (rev r) = rev (filter (avb B) r)).
        { clear. induction r as [|x r IH]; [reflexivity|]. cbn [rev filter]. rewrite filter_app, IH. cbn [filter]. destruct (avb B x); cbn [rev]; [reflexivity | rewrite app_nil_r; reflexivity]. }
        rewrite E in Ha. lia. }
      destruct (se_sig se key) as [sz|] eqn:E; [destruct k as [|k']|].
      + (* available, but no signature wanted any more: a zero is pushed *)
        cbn [fill_all fill_ph] in Hf. destruct (fill_all f (multi_a_fill se 0 r)) as [bs'|] eqn:Ef; [|discriminate]. inversion Hf; subst bs.
        assert (Hv' : forall key', In key' r -> a_sig B key' <> None -> In (PhSig key') (multi_a_fill se 0 r)).
        { intros key' Hk' Ha'. destruct (Hv key' (or_intror Hk') Ha') as [H|H]; [discriminate | exact H]. }
        assert (Eb : a_sig B key = None).
        { destruct (a_sig B key) eqn:Eb; [exfalso | reflexivity]. destruct (Hv key (or_introl eq_refl) ltac:(congruence)) as [H|H]; [discriminate|].
          apply multi_a_fill_in in H. contradiction. }
        unfold nsig in Ej. cbn [filter is_sigb] in Ej. fold (nsig (multi_a_fill se 0 r)) in Ej.
        destruct (pick_a_single B key j2 b Hb) as [[_ [sg [Es _]]]|[-> ->]]; [congruence|].
        rewrite Nat.add_0_r in Ej. subst j1. cbn [rev]. f_equal. exact (IH Hr 0%nat bs' a Ef Hv' Ha).
      + (* a signature is pushed *)
        cbn [fill_all fill_ph] in Hf. destruct (f_sig f key) as [sg0|] eqn:Eg; [|discriminate].
        destruct (fill_all f (multi_a_fill se k' r)) as [bs'|] eqn:Ef; [|discriminate]. inversion Hf; subst bs.
        assert (Hv' : forall key', In key' r -> a_sig B key' <> None -> In (PhSig key') (multi_a_fill se k' r)).
        { intros key' Hk' Ha'. destruct (Hv key' (or_intror Hk') Ha') as [H|H]; [|exact H]. inversion H; subst. contradiction. }
        unfold nsig in Ej. cbn [filter is_sigb length] in Ej. fold (nsig (multi_a_fill se k' r)) in Ej.
        destruct (pick_a_single B key j2 b Hb) as [[-> [sg [Es ->]]]|[-> ->]].
        * assert (j1 = nsig (multi_a_fill se k' r)) by lia. subst j1.
          rewrite (below_sig ke A se f L B key sz sg HB E Es) in Eg. inversion Eg; subst. cbn [rev]. f_equal.
          exact (IH Hr k' bs' a Ef Hv' Ha).
        * exfalso. pose proof (Hcount k' Hv'). lia.
      + (* not available *)
        cbn [fill_all fill_ph] in Hf. destruct (fill_all f (multi_a_fill se k r)) as [bs'|] eqn:Ef; [|discriminate]. inversion Hf; subst bs.
        assert (Hv' : forall key', In key' r -> a_sig B key' <> None -> In (PhSig key') (multi_a_fill se k r)).
        { intros key' Hk' Ha'. destruct (Hv key' (or_intror Hk') Ha') as [H|H]; [discriminate | exact H]. }
        assert (Eb : a_sig B key = None) by exact (below_nosig ke A se f L B key HB E).
        unfold nsig in Ej. cbn [filter is_sigb] in Ej. fold (nsig (multi_a_fill se k r)) in Ej.
        destruct (pick_a_single B key j2 b Hb) as [[_ [sg [Es _]]]|[-> ->]]; [congruence|].
        rewrite Nat.add_0_r in Ej. subst j1. cbn [rev]. f_equal. exact (IH Hr k bs' a Ef Hv' Ha).
  Qed.

  Lemma ut_multi_a_gen (kN : N) ks : (1 <= kN)%N -> NoDup ks ->
    uinv ks (sd_multi_a se kN ks) (fun _ => [repeat [] (length ks)])
         (fun B => pick_sigs_a B (N.to_nat kN) ks) m_multi_a.
  Proof.
    intros Hk1 Hnd. set (k := N.to_nat kN). assert (Hk : (1 <= k)%nat) by (unfold k; lia).
    assert (Jd : J ks (mkSat (WStack (repeat PhPushZero (length ks))) false None None) (fun _ => [repeat [] (length ks)])).
    { apply (J_const A se f ks _ (repeat [] (length ks))); [apply nosig_repeat | apply fill_repeat_zero|].
      intros B _ w' [<-|[]]. rewrite rev_repeat. reflexivity. }
    unfold sd_multi_a. cbv zeta. fold k. destruct (Nat.ltb (count_avail se ks) k) eqn:Ec.
    - apply Nat.ltb_lt in Ec. apply U_leaf; cbn [m_multi_a m_signed m_dissat]; try discriminate; try apply held_const.
      + intros _. apply ios_imp.
      + intros _. repeat split.
      + exact Jd.
      + apply J_impossible. intros B HB. apply nil_of_notin. intros w Hw.
        apply pick_a_count in Hw. pose proof (cnt_avb_le B ks HB). lia.
    - apply Nat.ltb_ge in Ec. apply U_leaf; cbn [m_multi_a m_signed m_dissat]; try discriminate; try apply held_const.
      + intros _. right. reflexivity.
      + intros _. repeat split.
      + exact Jd.
      + constructor; cbn [s_stack s_has_sig is_imp].
        * apply held_const.
        * intros E. discriminate.
        * intros l key Hl Hin. inversion Hl; subst. apply multi_a_fill_in in Hin. apply in_rev. exact Hin.
        * discriminate.
        * intros _ B HB Hn. apply nil_of_notin. intros w Hw.
          apply pick_a_count in Hw. rewrite (cnt_nosigs B ks Hn) in Hw. lia.
        * intros l bs Hl Hf B HB Hv w' Hw. inversion Hl; subst l.
          apply (pick_a_unique B (rev ks) HB (NoDup_rev Hnd) k bs w' Hf).
          -- intros key Hk0 Ha. apply Hv; [apply in_rev; exact Hk0 | exact Ha].
          -- rewrite nsig_fill, rev_involutive, count_avail_cnt, <- (cnt_perm avs _ _ (Permutation_rev ks)), <- count_avail_cnt. rewrite Nat.min_l by exact Ec. exact Hw.
  Qed.
End UniqMulti.
