(* C07 — assembling: the iterative lift refines the recursive fold; lift_table for `lift`
   (fold + normalized); script direction from Theorem A; descriptor wrappers and taproot. *)
From Verif Require Import Exec Ser Ast Types TypeCheck SatSpec Sat LiftModel TheoremA SatProofs CompleteProofs LiftProofs LiftNormProofs.
From Coq Require Import Lia Permutation.

(* ---------- the stack machine over the rtl post-order equals the recursive fold ---------- *)
Definition rtl_posts (xs : list ms) : list ms :=
  (fix go (l : list ms) : list ms := match l with [] => [] | x :: r => go r ++ rtl_post x end) xs.
Lemma rtl_post_thresh k xs : rtl_post (MThresh k xs) = rtl_posts xs ++ [MThresh k xs].
Proof. reflexivity. Qed.
Lemma rtl_posts_cons x r : rtl_posts (x :: r) = rtl_posts r ++ rtl_post x.
Proof. reflexivity. Qed.

Definition run_spec (m : ms) : Prop :=
  forall s rest, lift_run (rtl_post m ++ rest) s =
                 match lift_raw m with Some p => lift_run rest (p :: s) | None => IErrRaw end.

Lemma F2_len {X Y} (R : X -> Y -> Prop) l l' : Forall2 R l l' -> length l = length l'.
Proof. induction 1; cbn; congruence. Qed.

Lemma pop_n_app ps s : pop_n (length ps) (ps ++ s) = Some (ps, s).
Proof. induction ps as [|p r IH]; [reflexivity|]. cbn [length app pop_n]. rewrite IH. reflexivity. Qed.

Lemma run_posts xs : Forall run_spec xs -> forall s rest,
  lift_run (rtl_posts xs ++ rest) s =
  match lifts xs with Some ps => lift_run rest (ps ++ s) | None => IErrRaw end.
Proof.
  induction 1 as [|x r Hx Hr IH]; intros s rest; [reflexivity|].
  rewrite rtl_posts_cons, <- app_assoc, IH, lifts_cons. destruct (lifts r) as [ps|].
  - rewrite Hx. destruct (lift_raw x); reflexivity.
  - destruct (lift_raw x); reflexivity.
Qed.

Lemma lift_run_post : forall m, run_spec m.
Proof.
  induction m using ms_ind'; intros s rest; try reflexivity;
    try (cbn [rtl_post lift_raw]; rewrite <- app_assoc, IHm; destruct (lift_raw m); reflexivity);
    try (cbn [rtl_post lift_raw]; rewrite <- !app_assoc, IHm2; destruct (lift_raw m2);
         [rewrite IHm1; destruct (lift_raw m1); reflexivity | destruct (lift_raw m1); reflexivity]).
  - (* andor *) cbn [rtl_post lift_raw]. rewrite <- !app_assoc, IHm3. destruct (lift_raw m3).
    + rewrite IHm2. destruct (lift_raw m2).
      * rewrite IHm1. destruct (lift_raw m1); reflexivity.
      * destruct (lift_raw m1); reflexivity.
    + destruct (lift_raw m1), (lift_raw m2); reflexivity.
  - (* thresh *) rewrite rtl_post_thresh, <- app_assoc, (run_posts xs H), lift_raw_thresh.
    destruct (lifts xs) as [ps|] eqn:E; [|reflexivity].
    apply lifts_ok in E. apply F2_len in E.
    cbn [obind app lift_run lift_step]. rewrite E, pop_n_app. reflexivity.
Qed.

Theorem lift_iter_refines rl m : lift_iter rl m = lift_full rl m.
Proof.
  unfold lift_iter, lift_full. destruct (negb rl); [reflexivity|].
  destruct (has_mixed_timelocks m); [reflexivity|].
  pose proof (lift_run_post m [] []) as H. rewrite app_nil_r in H. rewrite H.
  destruct (lift_raw m); reflexivity.
Qed.

Theorem lift_iter_never_panics rl m : lift_iter rl m <> LPanic.
Proof.
  rewrite lift_iter_refines. unfold lift_full. destruct (negb rl); [discriminate|].
  destruct (has_mixed_timelocks m); [discriminate|]. destruct (lift_raw m); discriminate.
Qed.

(* ---------- the fold produces policies obeying the Threshold invariant ---------- *)
Lemma thresh_ok_thresh k xs :
  ms_thresh_ok (MThresh k xs) <-> (1 <= N.to_nat k <= length xs)%nat /\ Forall ms_thresh_ok xs.
Proof.
  assert (G : forall l, (fix go (l : list ms) : Prop := match l with [] => True | x :: r => ms_thresh_ok x /\ go r end) l
                       <-> Forall ms_thresh_ok l).
  { induction l as [|x r IH]; [split; constructor|]. split.
    - intros [H1 H2]. constructor; [exact H1 | apply IH, H2].
    - intros H. inversion H; subst. split; [assumption | apply IH; assumption]. }
  change (ms_thresh_ok (MThresh k xs)) with
    ((1 <= N.to_nat k <= length xs)%nat /\
     (fix go (l : list ms) : Prop := match l with [] => True | x :: r => ms_thresh_ok x /\ go r end) xs).
  rewrite G. reflexivity.
Qed.

Lemma lwf_keys k ks : (1 <= N.to_nat k <= length ks)%nat -> lwf (LThresh k (map LKey ks)).
Proof.
  intros H. apply lwf_thresh. rewrite map_length. split; [exact H|].
  clear H. induction ks; constructor; [exact I | assumption].
Qed.

Lemma lift_raw_lwf : forall m p, ms_thresh_ok m -> lift_raw m = Some p -> lwf p.
Proof.
  induction m using ms_ind'; intros p Hok Hl; cbn [lift_raw] in Hl;
    try (inversion Hl; subst; exact I); try discriminate Hl;
    try (apply IHm; assumption);
    try (cbn [ms_thresh_ok] in Hok; destruct Hok as [Ho1 Ho2];
         apply obind_some in Hl; destruct Hl as [a [Ha Hl]]; apply obind_some in Hl; destruct Hl as [b [Hb Hl]];
         inversion Hl; subst; apply lwf_thresh; split; [cbn; lia | repeat constructor; eauto]);
    try (inversion Hl; subst; apply lwf_keys; exact Hok).
  - (* andor *) cbn [ms_thresh_ok] in Hok. destruct Hok as [Ho1 [Ho2 Ho3]].
    apply obind_some in Hl. destruct Hl as [a [Ha Hl]]. apply obind_some in Hl. destruct Hl as [b [Hb Hl]].
    apply obind_some in Hl. destruct Hl as [c [Hc Hl]]. inversion Hl; subst.
    apply lwf_thresh. split; [cbn; lia|]. constructor; [|repeat constructor; eauto].
    apply lwf_thresh. split; [cbn; lia | repeat constructor; eauto].
  - (* thresh *) fold (lifts xs) in Hl. apply obind_some in Hl. destruct Hl as [ps [Hps Hl]].
    inversion Hl; subst. apply lifts_ok in Hps. apply thresh_ok_thresh in Hok. destruct Hok as [Hb Hc].
    apply lwf_thresh. rewrite <- (F2_len _ _ _ Hps). split; [exact Hb|].
    clear Hb Hl. induction Hps as [|x p' r ps' Hxp Hr IH]; [constructor|].
    inversion H; subst. inversion Hc; subst. constructor; [eauto | apply IH; assumption].
Qed.

Lemma wf_thresh_ok e ke : forall m, wf e ke m -> ms_thresh_ok m.
Proof.
  induction m using ms_ind'; intros Hwf; cbn [wf] in Hwf; cbn [ms_thresh_ok]; try exact I; try tauto;
    try (destruct Hwf as [Hk _]; lia).
  apply thresh_ok_thresh. destruct Hwf as [Hk [_ Hc]]. split; [lia|].
  clear Hk. induction H as [|x r Hx Hr IH]; [constructor|]. destruct Hc as [H1 H2]. constructor; auto.
Qed.

(* ---------- lift_table: the policy `lift` returns has the table's truth value ---------- *)
Section LiftTable.
  Variable ke : keyenv.
  Hypothesis Hsort : forall ks, Permutation (ksort ke ks) ks.

  Theorem lift_table (A : assets) rl m t p :
    type_of m = ROk t -> ms_thresh_ok m -> lift rl m = Some p ->
    leval A p = nonempty (all_sat ke A m).
  Proof.
    intros Ht Hok Hl. unfold lift, lift_full in Hl. destruct (negb rl); [discriminate|].
    destruct (has_mixed_timelocks m); [discriminate|].
    destruct (lift_raw m) as [q|] eqn:Eq; [|discriminate]. inversion Hl; subst.
    rewrite normalized_leval by (eapply lift_raw_lwf; eassumption).
    exact (proj1 (lift_raw_table ke A Hsort m t q Ht Eq)).
  Qed.

  (* every `d` fragment that lifts has a dissatisfaction in the table, whatever the assets *)
  Theorem lift_dissat_table (A : assets) rl m t p :
    type_of m = ROk t -> lift rl m = Some p -> c_dissat (t_corr t) = true ->
    nonempty (all_dsat ke A m) = true.
  Proof.
    intros Ht Hl. unfold lift, lift_full in Hl. destruct (negb rl); [discriminate|].
    destruct (has_mixed_timelocks m); [discriminate|].
    destruct (lift_raw m) as [q|] eqn:Eq; [|discriminate].
    exact (proj2 (lift_raw_table ke A Hsort m t q Ht Eq)).
  Qed.

  Lemma lift_lwf rl m p : ms_thresh_ok m -> lift rl m = Some p -> lwf p.
  Proof.
    intros Hok Hl. unfold lift, lift_full in Hl. destruct (negb rl); [discriminate|].
    destruct (has_mixed_timelocks m); [discriminate|].
    destruct (lift_raw m) as [q|] eqn:Eq; [|discriminate]. inversion Hl; subst.
    apply normalized_lwf. eapply lift_raw_lwf; eassumption.
  Qed.

  (* iff form of the statement in DESIGN 5/C07 *)
  Corollary lift_table_iff (A : assets) rl m t p :
    type_of m = ROk t -> ms_thresh_ok m -> lift rl m = Some p ->
    (leval A p = true <-> all_sat ke A m <> []).
  Proof.
    intros Ht Hok Hl. rewrite (lift_table A rl m t p Ht Hok Hl).
    destruct (all_sat ke A m); cbn; split; congruence.
  Qed.

  (* ---------- the policy invents no spending path (Theorem A) ---------- *)
  (* a fragment that lifts contains no raw_pk_h: Theorem A's only remaining exclusion *)
  Lemma lift_raw_no_raw : forall m p, lift_raw m = Some p -> no_multi m.
  Proof.
    induction m using ms_ind'; intros p Hl; cbn [lift_raw no_multi] in *; try exact I; try discriminate Hl;
      try (eapply IHm; eassumption);
      try (apply obind_some in Hl; destruct Hl as [a [Ha Hl]]; apply obind_some in Hl; destruct Hl as [b [Hb Hl]]).
    - split; eauto.
    - split; eauto.
    - apply obind_some in Hl. destruct Hl as [c [Hc Hl]]. repeat split; eauto.
    - split; eauto.
    - split; eauto.
    - split; eauto.
    - split; eauto.
    - fold (lifts xs) in Hl. apply obind_some in Hl. destruct Hl as [ps [Hps _]]. apply lifts_ok in Hps.
      induction Hps as [|x q r ps' Hxq Hr IH]; [exact I|]. inversion H; subst. split; [eauto | apply IH; assumption].
  Qed.
  Lemma lift_no_raw rl m p : lift rl m = Some p -> no_multi m.
  Proof.
    intros Hl. unfold lift, lift_full in Hl. destruct (negb rl); [discriminate|].
    destruct (has_mixed_timelocks m); [discriminate|].
    destruct (lift_raw m) as [q|] eqn:Eq; [|discriminate]. exact (lift_raw_no_raw m q Eq).
  Qed.

  Theorem lift_script_direction (e : env) (A : assets) :
    assets_ok e ke A -> (forall kbs, e_sigok e kbs [] = false) ->
    forall rl m t p, type_of m = ROk t -> c_base (t_corr t) = BB -> wf e ke m ->
    lift rl m = Some p -> leval A p = true ->
    exists w, In w (all_sat ke A m) /\ accepts e (enc ke m) w = true.
  Proof.
    intros HA Hse rl m t p Ht Hb Hwf Hl Hev.
    rewrite (lift_table A rl m t p Ht (wf_thresh_ok e ke m Hwf) Hl) in Hev.
    destruct (all_sat ke A m) as [|w r] eqn:Es; [discriminate|].
    exists w. split; [left; reflexivity|].
    apply (witness_script_accepts e ke A HA Hse m t Ht Hb Hwf (lift_no_raw rl m p Hl)). rewrite Es. left. reflexivity.
  Qed.

  (* ---------- policy and the MODEL of the library's satisfier (Ms/Sat.v) ---------- *)
  Lemma thresh_ok_kwf : forall m, ms_thresh_ok m -> kwf m.
  Proof.
    induction m using ms_ind'; intros Hok; cbn [ms_thresh_ok kwf] in *; try exact I; try tauto.
    apply thresh_ok_thresh in Hok. destruct Hok as [Hb Hc]. split; [lia|].
    clear Hb. induction H as [|x r Hx Hr IH]; [exact I|]. inversion Hc; subst. split; [auto | exact (IH H2)].
  Qed.

  (* the satisfier model returns a satisfaction only if the lifted policy is true (hides no
     path the satisfier can take), both modes *)
  Theorem lift_satisfier_implies_policy (A : assets) (se : senv) (f : fill) :
    linked ke A se f ->
    forall (mall rhs rl : bool) m t p bs, type_of m = ROk t -> ms_thresh_ok m -> lift rl m = Some p ->
    satisfy ke se f mall rhs m = Some bs -> leval A p = true.
  Proof.
    intros HL mall rhs rl m t p bs Ht Hok Hl Hsat.
    rewrite (lift_table A rl m t p Ht Hok Hl).
    unfold satisfy in Hsat. destruct (s_stack (snd (sat_dissat ke se mall rhs m))) as [l| |] eqn:Es; try discriminate.
    assert (Hks : forall ks, length (ksort ke ks) = length ks) by (intros ks; apply Permutation_length, Hsort).
    destruct (sat_in_table ke A se f HL Hks mall rhs m (thresh_ok_kwf m Hok)) as [_ Hs].
    pose proof (Hs l bs Es Hsat) as Hin. destruct (all_sat ke A m); [destruct Hin | reflexivity].
  Qed.

  (* conversely, a true policy makes the malleable satisfier model produce a witness template
     (thresholds with k = n only: CompleteProofs.mall_complete) *)
  Theorem lift_policy_implies_satisfier (A : assets) (se : senv) (f : fill) :
    linked ke A se f ->
    (forall t1 t2, se_after se t1 = true -> se_after se t2 = true ->
                   Bool.eqb (N.ltb t1 500000000) (N.ltb t2 500000000) = true) ->
    (forall t1 t2, se_older se t1 = true -> se_older se t2 = true ->
                   Bool.eqb (rel_is_time t1) (rel_is_time t2) = true) ->
    forall (rhs rl : bool) m t p, type_of m = ROk t -> ms_thresh_ok m -> no_partial_thresh m ->
    lift rl m = Some p -> leval A p = true ->
    is_stack (s_stack (snd (sat_dissat ke se true rhs m))) = true.
  Proof.
    intros HL Ha Hr rhs rl m t p Ht Hok Hnp Hl Hev.
    rewrite (lift_table A rl m t p Ht Hok Hl) in Hev.
    pose proof (mall_complete ke A se f HL Ha Hr rhs m Hnp) as G. unfold goal in G.
    destruct G as [_ [_ [_ G]]]. apply G. destruct (all_sat ke A m); discriminate.
  Qed.

  (* ---------- descriptors ---------- *)
  Lemma leval_same_avail A B : same_avail A B -> forall p, leval A p = leval B p.
  Proof.
    intros [H1 [H2 [H3 [H4 [H5 [H6 H7]]]]]].
    induction p using lpolicy_ind'; cbn [leval]; auto.
    f_equal. f_equal. induction H as [|x r Hx Hr IH]; [reflexivity|]. cbn [map]. f_equal; auto.
  Qed.

  Definition ms_ok (m : ms) : Prop := (exists t, type_of m = ROk t) /\ ms_thresh_ok m.
  Definition desc_ok (d : ldesc) : Prop :=
    match d with
    | DBare _ m | DSh _ m | DWsh _ m | DShWsh _ m => ms_ok m
    | DTr _ leaves => Forall (fun lm => ms_ok (snd lm)) leaves
    | _ => True
    end.

  Definition leaves_spendable (Aleaf : nat -> assets) :=
    fix go (i : nat) (l : list (bool * ms)) : bool :=
      match l with [] => false | (_, m) :: r => nonempty (all_sat ke (Aleaf i) m) || go (S i) r end.

  Lemma lift_iter_table (A : assets) rl m p : ms_ok m -> lift_iter rl m = LOk p ->
    leval A p = nonempty (all_sat ke A m) /\ lwf p.
  Proof.
    intros [[t Ht] Hok] Hl. rewrite lift_iter_refines in Hl.
    assert (Hl' : lift rl m = Some p) by (unfold lift; rewrite Hl; reflexivity).
    split; [exact (lift_table A rl m t p Ht Hok Hl') | exact (lift_lwf rl m p Hok Hl')].
  Qed.

  Lemma lift_leaves_table (A : assets) (Aleaf : nat -> assets) :
    (forall i, same_avail A (Aleaf i)) ->
    forall l ps i, Forall (fun lm => ms_ok (snd lm)) l -> lift_leaves l = inr ps ->
    existsb (leval A) ps = leaves_spendable Aleaf i l /\ Forall lwf ps /\ length ps = length l.
  Proof.
    intros Hav. induction l as [|[rl m] r IH]; intros ps i Hok Hl.
    - inversion Hl; subst. repeat split; constructor.
    - cbn [lift_leaves] in Hl. destruct (lift_iter rl m) as [p| |] eqn:Ep; try discriminate.
      destruct (lift_leaves r) as [err|ps'] eqn:Er; [discriminate|]. inversion Hl; subst.
      inversion Hok; subst. destruct (IH ps' (S i) H2 eq_refl) as [I1 [I2 I3]].
      destruct (lift_iter_table (Aleaf i) rl m p H1 Ep) as [J1 J2].
      cbn [existsb leaves_spendable length]. rewrite I1, (leval_same_avail A (Aleaf i) (Hav i)), J1.
      repeat split; [constructor; assumption | congruence].
  Qed.

  Lemma lift_leaves_err l : forall e, lift_leaves l = inl e -> forall p, e <> LOk p.
  Proof.
    induction l as [|[rl m] r IH]; intros e H p; [discriminate|].
    cbn [lift_leaves] in H. destruct (lift_iter rl m) as [q| |] eqn:Eq.
    - destruct (lift_leaves r) as [e'|ps]; [|discriminate]. inversion H; subst. apply IH. reflexivity.
    - inversion H; subst. discriminate.
    - inversion H; subst. discriminate.
  Qed.

  Theorem lift_desc_table (A : assets) (Aleaf : nat -> assets) :
    (forall i, same_avail A (Aleaf i)) ->
    forall d p, desc_ok d -> lift_desc d = LOk p -> leval A p = desc_spendable ke A Aleaf d.
  Proof.
    intros Hav d p Hok Hl. destruct d as [rl m|rl m|rl m|rl m|k|k|k|ik leaves]; cbn [lift_desc desc_spendable] in *;
      try (exact (proj1 (lift_iter_table A rl m p Hok Hl)));
      try (inversion Hl; subst; reflexivity).
    destruct leaves as [|lf r]; [inversion Hl; subst; cbn; rewrite orb_false_r; reflexivity|].
    destruct (lift_leaves (lf :: r)) as [err|ps] eqn:El; [exfalso; exact (lift_leaves_err _ _ El p Hl)|].
    inversion Hl; subst; clear Hl.
    destruct (lift_leaves_table A Aleaf Hav (lf :: r) ps O Hok El) as [I1 [I2 I3]].
    rewrite leval_or2. f_equal.
    change (norm_node 1 (map normalized ps)) with (normalized (LThresh 1 ps)).
    rewrite normalized_leval.
    - rewrite ev_thresh. change (N.to_nat 1) with 1%nat. rewrite leb_one_existsb. exact I1.
    - apply lwf_thresh. split; [|exact I2]. change (N.to_nat 1) with 1%nat. rewrite I3. cbn [length]. lia.
  Qed.
End LiftTable.

(* ---------- non-vacuity of the script-direction hypotheses (all but the arithmetic facts about
   script numbers, which are universally quantified statements) ---------- *)
Definition ex_e : env :=
  mkEnv SvWitnessV0 0 5 2 (fun _ s => match s with [] => false | _ => true end) (fun _ => true) (fun b => b) (fun b => b) (fun b => b) (fun _ => [7%N]).
Definition ex_ke : keyenv := mkKeyEnv (fun _ => [2%N]) (fun _ => [7%N]) (fun ks => ks).
Definition ex_A : assets :=
  mkAssets (fun k => if N.eqb k 0 then Some [1%N] else None) (fun _ => None) (fun _ => None) (fun _ => None)
           (fun _ => None) (fun _ => false) (fun t => N.eqb t 5).
Definition ex_m : ms := MAndV (MVerify (MCheck (MPkK 0%N))) (MOlder 5%N).

Lemma lift_nonvacuous :
  assets_ok ex_e ex_ke ex_A /\ (forall kbs, e_sigok ex_e kbs [] = false) /\ (forall ks, Permutation (ksort ex_ke ks) ks) /\
  exists t p, type_of ex_m = ROk t /\ c_base (t_corr t) = BB /\ wf ex_e ex_ke ex_m /\
              lift true ex_m = Some p /\ leval ex_A p = true.
Proof.
  split; [|split; [intros kbs; reflexivity|split]].
  - constructor; try (intros; discriminate); try (intros; reflexivity).
    + intros k s H. cbn in H. destruct (N.eqb k 0); inversion H; subst. split; [reflexivity | cbn; lia].
    + intros k. cbn. lia.
    + intros t H. cbn in H. apply N.eqb_eq in H. subst. reflexivity.
  - intros ks. apply Permutation_refl.
  - eexists. eexists. repeat split; try reflexivity.
Qed.
