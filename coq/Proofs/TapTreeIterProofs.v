(* C15 proofs, part 3: the leaves iterator (merkle stack + BitStack128) run on the node vector
   [layout (root t) t] yields every leaf of t, in order, with its depth and with the BIP341
   Merkle path; BitStack128 never overflows for height <= 128; control blocks verify. *)
From Coq Require Import List Bool NArith Arith Lia.
Import ListNotations.
From Verif Require Import TapTreeModel TapTreeProofs TapTreeShapeProofs TapTreeMerkleProofs.

Section IterProofs.
Variables leaf hash : Type.
Variable leafH : leaf -> hash.
Variable branchH : hash -> hash -> hash.

Notation tree := (tree leaf).
Notation node := (node leaf hash).
Notation item := (item leaf hash).
Notation root := (root leaf hash leafH branchH).
Notation paths := (paths leaf hash leafH branchH).
Notation layout := (layout leaf hash leafH branchH).
Notation height := (height leaf).

(* ---- BitStack128 refines a list of booleans (top first) while height <= 128 ---- *)
Definition bs_rel (bs : bitstack) (B : list bool) : Prop :=
  bs_height bs = length B /\
  forall i, i < length B -> N.testbit (bs_inner bs) (N.of_nat i) = nth i (rev B) false.

Lemma bs_rel_empty : bs_rel bs_empty [].
Proof. split; [reflexivity | intros i H; cbn in H; lia]. Qed.

Lemma bs_push_rel : forall bs B b, bs_rel bs B -> length B < 128 ->
  exists bs', bs_push bs b = TOk bs' /\ bs_rel bs' (b :: B).
Proof.
  intros [inner h] B b [Hh Hb] Hlen. cbn [bs_height bs_inner] in *. subst h.
  unfold bs_push. cbn [bs_height bs_inner].
  replace (128 <=? length B) with false by (symmetry; apply Nat.leb_gt; exact Hlen).
  eexists. split; [reflexivity|].
  split; [reflexivity|]. cbn [bs_inner length rev]. intros i Hi.
  destruct (Nat.eq_dec i (length B)) as [-> | Hne].
  - rewrite app_nth2 by (rewrite rev_length; lia). rewrite rev_length, Nat.sub_diag. cbn [nth].
    destruct b.
    + rewrite N.setbit_eqb, N.eqb_refl. reflexivity.
    + rewrite N.clearbit_eqb, N.eqb_refl. cbn. apply andb_false_r.
  - rewrite app_nth1 by (rewrite rev_length; lia).
    assert (Hn : (N.of_nat (length B) =? N.of_nat i)%N = false) by (apply N.eqb_neq; lia).
    destruct b.
    + rewrite N.setbit_eqb, Hn. cbn. apply Hb. lia.
    + rewrite N.clearbit_eqb, Hn. cbn. rewrite andb_true_r. apply Hb. lia.
Qed.

Lemma bs_pop_rel : forall bs B b, bs_rel bs (b :: B) ->
  exists bs', bs_pop bs = Some (b, bs') /\ bs_rel bs' B.
Proof.
  intros [inner h] B b [Hh Hb]. cbn [bs_height bs_inner length] in *. subst h.
  unfold bs_pop. cbn [bs_height bs_inner].
  exists (mkBS inner (length B)). split.
  - f_equal. f_equal. rewrite (Hb (length B)) by lia. cbn [rev].
    rewrite app_nth2 by (rewrite rev_length; lia). rewrite rev_length, Nat.sub_diag. reflexivity.
  - split; [reflexivity|]. cbn [bs_inner]. intros i Hi.
    rewrite (Hb i) by lia. cbn [rev]. rewrite app_nth1 by (rewrite rev_length; lia). reflexivity.
Qed.

Lemma bs_pop_empty : forall bs, bs_rel bs [] -> bs_pop bs = None.
Proof. intros [inner h] [Hh _]. cbn in *. subst h. reflexivity. Qed.

(* ---- the same iterator over list-of-bool stacks ---- *)
Fixpoint unwindA (B : list bool) (M : list hash) : list bool * list hash :=
  match B with
  | [] => ([], M)
  | false :: B' => (true :: B', M)
  | true :: B' => unwindA B' (tl M)
  end.

Lemma unwindA_length : forall B M, length (fst (unwindA B M)) <= length B.
Proof.
  induction B as [| [|] B IH]; intros M; cbn; [lia | | lia].
  specialize (IH (tl M)). lia.
Qed.

Lemma unwind_rel : forall B bs M fuel, bs_rel bs B -> length B <= 128 -> length B < fuel ->
  exists bs', unwind hash fuel bs M = TOk (bs', snd (unwindA B M)) /\ bs_rel bs' (fst (unwindA B M)).
Proof.
  induction B as [| b B IH]; intros bs M fuel Hrel Hlen Hf; (destruct fuel as [| f]; [cbn in Hf; lia|]); cbn [unwind].
  - rewrite (bs_pop_empty bs Hrel). exists bs. split; [reflexivity | exact Hrel].
  - destruct (bs_pop_rel bs B b Hrel) as [bs1 [Hp Hr1]]. rewrite Hp. cbn [length] in *.
    destruct b; cbn [unwindA fst snd].
    + apply IH; [exact Hr1 | lia | lia].
    + destruct (bs_push_rel bs1 B true Hr1) as [bs2 [Hpush Hr2]]; [lia|].
      rewrite Hpush. cbn [tbind]. exists bs2. split; [reflexivity | exact Hr2].
Qed.

Definition iter_stepA (idx : nat) (st : list hash * list bool) (n : node)
  : tres ((list hash * list bool) * option item) :=
  let (M, B) := st in
  let ms1 := if 0 <? idx then n_sib n :: M else M in
  match n_leaf n with
  | Some l =>
      if 128 <? length ms1 then TPanic 21 else
      TOk ((snd (unwindA B (tl ms1)), fst (unwindA B (tl ms1))), Some (l, length ms1, ms1))
  | None => if 128 <=? length B then TPanic 20 else TOk ((ms1, false :: B), None)
  end.

Fixpoint iterA (idx : nat) (st : list hash * list bool) (ns : list node) : tres (list item) :=
  match ns with
  | [] => TOk []
  | n :: r => x <-- iter_stepA idx st n ;;
              rest <-- iterA (S idx) (fst x) r ;;
              TOk (match snd x with Some it => it :: rest | None => rest end)
  end.

Lemma iter_sim : forall ns idx M bs B, bs_rel bs B -> length B <= 128 ->
  iter_from leaf hash idx (M, bs) ns = iterA idx (M, B) ns.
Proof.
  induction ns as [| n ns IH]; intros idx M bs B Hrel Hlen; cbn [iter_from iterA].
  - reflexivity.
  - unfold iter_step, iter_stepA.
    set (ms1 := if 0 <? idx then n_sib n :: M else M).
    destruct (n_leaf n) as [l |].
    + destruct (unwind_rel B bs (tl ms1) (S (bs_height bs)) Hrel Hlen) as [bs' [Hu Hr']].
      { destruct Hrel as [Hh _]. lia. }
      rewrite Hu. cbn [tbind fst snd].
      destruct (128 <? length ms1); [reflexivity|]. cbn [tbind fst snd].
      rewrite (IH _ _ bs' (fst (unwindA B (tl ms1)))); [reflexivity | exact Hr' |].
      pose proof (unwindA_length B (tl ms1)). lia.
    + destruct (128 <=? length B) eqn:E.
      * unfold bs_push. destruct Hrel as [Hh _]. rewrite Hh, E. reflexivity.
      * apply Nat.leb_gt in E.
        destruct (bs_push_rel bs B false Hrel E) as [bs' [Hp Hr']]. rewrite Hp. cbn [tbind fst snd].
        rewrite (IH _ _ bs' (false :: B)); [reflexivity | exact Hr' | cbn; lia].
Qed.

(* ---- what the iterator must yield ---- *)
Definition items_with (suffix : list hash) (t : tree) : list item :=
  map (fun lp : leaf * list hash => (fst lp, length (snd lp ++ suffix), snd lp ++ suffix)) (paths t).

Lemma items_with_node : forall a b suffix,
  items_with suffix (Node a b) = items_with (root b :: suffix) a ++ items_with (root a :: suffix) b.
Proof.
  intros. unfold items_with. cbn [TapTreeModel.paths]. rewrite map_app, !map_map.
  f_equal; apply map_ext; intros [l p]; cbn [fst snd]; rewrite <- app_assoc; reflexivity.
Qed.

Lemma iterA_subtree : forall t s idx M B rest,
  0 < idx -> S (length M) = length B -> length B + height t <= 128 ->
  iterA idx (M, B) (layout s t ++ rest) =
  (r <-- iterA (idx + length (layout s t)) (snd (unwindA B M), fst (unwindA B M)) rest ;;
   TOk (items_with (s :: M) t ++ r)).
Proof.
  induction t as [l | a IHa b IHb]; intros s idx M B rest Hidx HM Hh.
  - cbn [TapTreeModel.layout app iterA iter_stepA n_leaf n_sib length].
    replace (0 <? idx) with true by (symmetry; apply Nat.ltb_lt; exact Hidx).
    cbn [tl length]. replace (128 <? S (length M)) with false by (symmetry; apply Nat.ltb_ge; lia).
    cbn [tbind fst snd]. replace (idx + 1) with (S idx) by lia.
    destruct (iterA (S idx) (snd (unwindA B M), fst (unwindA B M)) rest); reflexivity.
  - cbn [TapTreeModel.layout TapTreeModel.height app iterA iter_stepA n_leaf n_sib] in *.
    replace (0 <? idx) with true by (symmetry; apply Nat.ltb_lt; exact Hidx).
    replace (128 <=? length B) with false by (symmetry; apply Nat.leb_gt; lia).
    cbn [tbind fst snd]. rewrite <- app_assoc.
    rewrite IHa; [| lia | cbn [length]; lia | cbn [length]; lia].
    cbn [unwindA fst snd].
    rewrite IHb; [| lia | cbn [length]; lia | cbn [length]; lia].
    cbn [unwindA fst snd tl].
    rewrite items_with_node.
    replace (S idx + length (layout (root b) a) + length (layout (root a) b))
      with (idx + length (mkNode s None :: layout (root b) a ++ layout (root a) b))
      by (cbn [length]; rewrite app_length; lia).
    destruct (iterA _ (snd (unwindA B M), fst (unwindA B M)) rest); cbn [tbind]; try reflexivity.
    rewrite <- app_assoc. reflexivity.
Qed.

Definition items_of (t : tree) : list item :=
  map (fun lp : leaf * list hash => (fst lp, length (snd lp), snd lp)) (paths t).

Theorem leaves_iter_layout : forall t, height t <= 128 ->
  leaves_iter leaf hash (layout (root t) t) = TOk (items_of t).
Proof.
  intros [l | a b] Hh; unfold leaves_iter.
  - reflexivity.
  - cbn [TapTreeModel.layout iter_from]. unfold iter_step. cbn [n_leaf n_sib Nat.ltb Nat.leb].
    destruct (bs_push_rel bs_empty [] false bs_rel_empty) as [bs1 [Hp Hr]]; [cbn; lia|].
    rewrite Hp. cbn [tbind fst snd].
    rewrite (iter_sim _ _ _ bs1 [false] Hr) by (cbn; lia).
    cbn [TapTreeModel.height] in Hh.
    rewrite <- (app_nil_r (layout (root a) b)).
    rewrite iterA_subtree; [| lia | reflexivity | cbn [length]; lia].
    cbn [unwindA fst snd].
    rewrite iterA_subtree; [| lia | reflexivity | cbn [length]; lia].
    cbn [unwindA fst snd tl iterA tbind].
    f_equal. rewrite app_nil_r. unfold items_of, items_with. cbn [TapTreeModel.paths].
    rewrite map_app, !map_map. reflexivity.
Qed.

(* the (depth, leaf) sequence of the BIP341 paths is the depth list itself *)
Lemma paths_depths : forall t d,
  map (fun lp : leaf * list hash => (d + length (snd lp), fst lp)) (paths t) = depths_at leaf d t.
Proof.
  induction t as [l | a IHa b IHb]; intros d; cbn [TapTreeModel.paths TapTreeModel.depths_at map].
  - cbn. rewrite Nat.add_0_r. reflexivity.
  - rewrite map_app, !map_map. rewrite <- IHa, <- IHb.
    f_equal; apply map_ext; intros [l p]; cbn [fst snd]; rewrite app_length; cbn [length]; f_equal; lia.
Qed.

Lemma items_depths : forall t,
  map (fun it : item => (snd (fst it), fst (fst it))) (items_of t) = depths_of_tree leaf t.
Proof.
  intros t. unfold items_of, depths_of_tree. rewrite map_map. rewrite <- (paths_depths t 0).
  apply map_ext. intros [l p]. reflexivity.
Qed.

Theorem algo_paths : forall dl t, tree_of_depths leaf dl = Some t -> height t <= 128 ->
  exists ns its,
    nodes_from_tap_tree leaf hash leafH branchH dl = TOk ns /\
    leaves_iter leaf hash ns = TOk its /\
    its = map (fun lp : leaf * list hash => (fst lp, length (snd lp), snd lp)) (paths t) /\
    map (fun it : item => (snd (fst it), fst (fst it))) its = dl.
Proof.
  intros dl t H Hh. apply tree_of_depths_sound in H. subst dl.
  exists (layout (root t) t), (items_of t).
  split; [apply nodes_from_depths_of_tree|].
  split; [apply leaves_iter_layout; exact Hh|].
  split; [reflexivity | apply items_depths].
Qed.

(* ---- commitment ---- *)
Variables key okey parity : Type.
Variable tweak : key -> option hash -> okey * parity.
Variable tweak_check : okey -> parity -> key -> hash -> bool.
Hypothesis branchH_comm : forall a b, branchH a b = branchH b a.
Hypothesis tweak_law : forall k r, tweak_check (fst (tweak k (Some r))) (snd (tweak k (Some r))) k r = true.

Theorem commit : forall ik dl t, tree_of_depths leaf dl = Some t -> height t <= 128 ->
  exists si cbs,
    from_tr leaf hash leafH branchH key okey parity tweak ik (Some dl) = TOk si /\
    (si_okey _ _ _ _ _ si, si_parity _ _ _ _ _ si) = tweak ik (Some (root t)) /\
    si_internal _ _ _ _ _ si = ik /\
    control_blocks leaf hash key okey parity si = TOk cbs /\
    map fst cbs = map snd dl /\
    Forall (fun lc => cb_verify leaf hash leafH branchH key okey parity tweak_check (si_okey _ _ _ _ _ si) (fst lc) (snd lc) = true) cbs.
Proof.
  intros ik dl t H Hh. apply tree_of_depths_sound in H. subst dl.
  unfold from_tr. rewrite nodes_from_depths_of_tree. cbn [tbind].
  eexists. eexists. split; [reflexivity|]. cbn [si_okey si_parity si_internal si_nodes].
  rewrite layout_hd. cbn [merkle_root_of hd_error option_map n_sib].
  split; [destruct (tweak ik (Some (root t))); reflexivity|].
  split; [reflexivity|].
  unfold control_blocks. cbn [si_nodes]. rewrite <- layout_hd.
  rewrite (leaves_iter_layout t Hh). cbn [tbind].
  split; [reflexivity|]. cbn [si_parity si_internal].
  split.
  - rewrite map_map. cbn [fst]. rewrite <- (items_depths t). rewrite !map_map. reflexivity.
  - apply Forall_forall. intros [l cb] Hin. apply in_map_iff in Hin.
    destruct Hin as [[[l' d'] br] [Heq Hin]]. cbn [fst snd] in Heq. inversion Heq; subst; clear Heq.
    unfold items_of in Hin. apply in_map_iff in Hin. destruct Hin as [[l2 p] [Heq Hin]].
    cbn [fst snd] in Heq. inversion Heq; subst; clear Heq.
    unfold cb_verify. cbn [fst snd].
    rewrite (spec_path_ok leaf hash leafH branchH branchH_comm t l br Hin).
    apply tweak_law.
Qed.

Theorem commit_keyspend_only : forall ik,
  from_tr leaf hash leafH branchH key okey parity tweak ik None
  = TOk (mkSI leaf hash key okey parity ik (fst (tweak ik None)) (snd (tweak ik None)) []).
Proof. reflexivity. Qed.

(* ---- to_tap_tree gives the described tree back; address / script_pubkey are those of the
        tweaked key ---- *)
Theorem to_tap_tree_ok : forall dl t, tree_of_depths leaf dl = Some t -> height t <= 128 ->
  exists ns, nodes_from_tap_tree leaf hash leafH branchH dl = TOk ns /\
             to_tap_tree leaf hash ns = TOk (Some t).
Proof.
  intros dl t H Hh. apply tree_of_depths_sound in H. subst dl.
  exists (layout (root t) t). split; [apply nodes_from_depths_of_tree|].
  unfold to_tap_tree. rewrite layout_hd. rewrite <- layout_hd.
  rewrite (leaves_iter_layout t Hh). cbn [tbind].
  rewrite items_depths, tree_of_depths_complete. reflexivity.
Qed.

Variables network address spk : Type.
Variable addr_of : network -> okey -> address.
Variable spk_of : okey -> spk.

Theorem address_of_output_key : forall ik dl t n, tree_of_depths leaf dl = Some t ->
  exists si,
    from_tr leaf hash leafH branchH key okey parity tweak ik (Some dl) = TOk si /\
    tr_address leaf hash key okey parity network address addr_of n si
      = addr_of n (fst (tweak ik (Some (root t)))) /\
    tr_script_pubkey leaf hash key okey parity spk spk_of si = spk_of (fst (tweak ik (Some (root t)))).
Proof.
  intros ik dl t n H. apply tree_of_depths_sound in H. subst dl.
  unfold from_tr. rewrite nodes_from_depths_of_tree. cbn [tbind].
  eexists. split; [reflexivity|].
  unfold tr_address, tr_script_pubkey. cbn [si_okey].
  rewrite layout_hd. cbn [merkle_root_of hd_error option_map n_sib]. split; reflexivity.
Qed.

End IterProofs.
