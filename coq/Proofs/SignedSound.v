(* "For every input stack" soundness of the two security-critical type predictions:
     s (signed): a satisfying execution consumed a valid signature;
     f (forced, m_dissat = DNone): a dissatisfying execution consumed a valid signature.
   Mutual induction over the AST with one invariant per base type; the invariants also carry
   the frame (only a prefix of the stack is consumed, the alt stack is restored), the z/o
   consumption counts (needed for s:X) and u (needed for thresh). *)
From Verif Require Import Exec Ser Ast Types TypeCheck ExecLemmas ScriptNumProofs TypesSpec SatSpec TheoremA SignedLemmas.
From Coq Require Import Lia.

Ltac dm H := repeat (cbn [bind] in H; match type of H with
  | context [match ?x with _ => _ end] => destruct x eqn:?; try discriminate H
  end).
Ltac okinv H := inversion H; subst; clear H.
Ltac spec := repeat match goal with
  | H : ?a = ?a -> _ |- _ => specialize (H eq_refl)
  | H : true = false -> _ |- _ => clear H
  | H : false = true -> _ |- _ => clear H
  | H : DUnique = DNone -> _ |- _ => clear H
  | H : DUnknown = DNone -> _ |- _ => clear H
  end.

Section SignedSound.
  Variable e : env.
  Variable ke : keyenv.
  Notation hassig := (hassig e).

  Definition cnt (i : input) (p : list bytes) : Prop :=
    match i with IZero => p = [] | IOne | IOneNonZero => length p = 1%nat | _ => True end.
  (* K: the count includes the signature that the later CHECKSIG takes *)
  Definition cntK (i : input) (p : list bytes) : Prop :=
    match i with IZero => False | IOne | IOneNonZero => p = [] | _ => True end.

  Definition vclaims (t : ty) (v : bytes) (p : list bytes) : Prop :=
    (c_unit (t_corr t) = true -> truthy v = true -> v = [1%N]) /\
    (m_signed (t_mall t) = true -> truthy v = true -> hassig p) /\
    (m_dissat (t_mall t) = DNone -> truthy v = false -> hassig p).

  Definition soundB (m : ms) (t : ty) : Prop :=
    forall s al st', exec e (enc ke m) (mkSt s al) = Ok st' ->
    exists v p s', s = p ++ s' /\ st' = mkSt (v :: s') al /\ cnt (c_input (t_corr t)) p /\ vclaims t v p.
  Definition soundV (m : ms) (t : ty) : Prop :=
    forall s al st', exec e (enc ke m) (mkSt s al) = Ok st' ->
    exists p s', s = p ++ s' /\ st' = mkSt s' al /\ cnt (c_input (t_corr t)) p /\
                 (m_signed (t_mall t) = true -> hassig p).
  (* every K type is signed (a fact about the typing rules, needed for or_i / andor over K) *)
  Definition soundK (m : ms) (t : ty) : Prop :=
    m_signed (t_mall t) = true /\
    forall s al st', exec e (enc ke m) (mkSt s al) = Ok st' ->
    exists kk p s', s = p ++ s' /\ st' = mkSt (kk :: s') al /\ cntK (c_input (t_corr t)) p /\
                    (m_dissat (t_mall t) = DNone -> hassig p).
  Definition soundW (m : ms) (t : ty) : Prop :=
    forall s0 al st', exec e (enc ke m) (mkSt s0 al) = Ok st' ->
    exists c v p s', s0 = c :: p ++ s' /\
      (st' = mkSt (c :: v :: s') al \/ st' = mkSt (v :: c :: s') al) /\
      cnt (c_input (t_corr t)) p /\ vclaims t v p.

  Definition sound (m : ms) (t : ty) : Prop :=
    match c_base (t_corr t) with
    | BB => soundB m t | BV => soundV m t | BK => soundK m t | BW => soundW m t
    end.

  Ltac unf H := unfold t_cast_alt, t_cast_swap, t_cast_check, t_cast_dupif, t_cast_verify, t_cast_nonzero,
    t_cast_zeronotequal, t_and_v, t_and_b, t_or_b, t_or_c, t_or_d, t_or_i, t_and_or, lift1, lift2,
    c_cast_alt, c_cast_swap, c_cast_check, c_cast_dupif, c_cast_verify, c_cast_nonzero, c_cast_zeronotequal,
    c_and_v, c_and_b, c_or_b, c_or_c, c_or_d, c_or_i, c_and_or in H; cbn [t_corr t_mall c_base c_input c_dissat c_unit] in H.
  Ltac tyred := unfold sound, soundB, soundV, soundK, soundW, vclaims in *;
    cbn [t_corr t_mall c_base c_input c_dissat c_unit m_dissat m_signed m_nm
         m_cast_alt m_cast_swap m_cast_check m_cast_dupif m_cast_verify m_cast_nonzero m_cast_zeronotequal
         m_and_b m_and_v m_or_b m_or_c m_or_d m_or_i m_and_or none_to_unique] in *.

  (* ---------- leaves ---------- *)
  Lemma sound_true : sound MTrue t_true.
  Proof.
    tyred. intros s al st' H. cbn in H. okinv H. exists [1%N], [], s.
    repeat split; try reflexivity; cbn; intros; discriminate.
  Qed.
  Lemma sound_false : sound MFalse t_false.
  Proof.
    tyred. intros s al st' H. cbn in H. okinv H. exists [], [], s.
    repeat split; try reflexivity; cbn; intros; discriminate.
  Qed.
  Lemma sound_pk_k k : sound (MPkK k) t_pk_k.
  Proof.
    tyred. split; [reflexivity|]. intros s al st' H. cbn in H. okinv H. exists (kb ke k), [], s.
    repeat split; try reflexivity; cbn; intros; discriminate.
  Qed.
  Lemma sound_pkh_gen h : soundK (MRawPkH h) t_pk_h.
  Proof.
    tyred. split; [reflexivity|]. intros s al st' H. destruct s as [|b l]; [discriminate|].
    cbn [enc exec exec_instr exec_op stk alt bind] in H. dm H. okinv H.
    exists b, [b], l. repeat split; try reflexivity; cbn; intros; discriminate.
  Qed.
  Lemma sound_pk_h k : sound (MPkH k) t_pk_h.
  Proof. exact (sound_pkh_gen (kh ke k)). Qed.
  Lemma sound_raw_pk_h h : sound (MRawPkH h) t_pk_h.
  Proof. exact (sound_pkh_gen h). Qed.

  Lemma sound_after t : (0 < t < 2147483648)%N -> sound (MAfter t) t_time.
  Proof.
    intros Ht. tyred. intros s al st' H. cbn [enc] in H.
    apply exec_cons_ok in H. destruct H as [st1 [H1 H]]. rewrite exec_push_int' in H1. okinv H1.
    cbn [exec exec_instr exec_op stk alt bind] in H. dm H. okinv H.
    exists (num_encode (Z.of_N t)), [], s.
    assert (Htr : truthy (num_encode (Z.of_N t)) = true) by (apply num_truthy; lia).
    repeat split; try reflexivity; cbn; intros; try discriminate; congruence.
  Qed.
  Lemma sound_older t : (0 < t < 2147483648)%N -> sound (MOlder t) t_time.
  Proof.
    intros Ht. tyred. intros s al st' H. cbn [enc] in H.
    apply exec_cons_ok in H. destruct H as [st1 [H1 H]]. rewrite exec_push_int' in H1. okinv H1.
    cbn [exec exec_instr exec_op stk alt bind] in H. dm H. okinv H.
    exists (num_encode (Z.of_N t)), [], s.
    assert (Htr : truthy (num_encode (Z.of_N t)) = true) by (apply num_truthy; lia).
    repeat split; try reflexivity; cbn; intros; try discriminate; congruence.
  Qed.

  Lemma sound_hash_gen (o : opcode) (m : ms) h :
    (o = OP_SHA256 \/ o = OP_HASH256 \/ o = OP_RIPEMD160 \/ o = OP_HASH160) ->
    enc ke m = hash_frag o h -> sound m t_hash.
  Proof.
    intros Ho Henc. tyred. intros s al st' H. rewrite Henc in H. unfold hash_frag in H.
    apply exec_cons_ok in H. destruct H as [st1 [H1 H]]. cbn [exec_instr exec_op stk alt] in H1.
    destruct s as [|x r]; [discriminate|]. okinv H1.
    apply exec_cons_ok in H. destruct H as [st1 [H1 H]]. rewrite exec_push_int' in H1. okinv H1.
    cbn [stk alt] in H.
    apply exec_cons_ok in H. destruct H as [st1 [H1 H]]. cbn [exec_instr exec_op stk alt] in H1.
    dm H1. okinv H1.
    assert (Hfin : exists b, st' = mkSt (bool_bytes b :: r) al).
    { destruct Ho as [->|[->|[->| ->]]]; cbn [exec exec_instr exec_op stk alt bind] in H; okinv H; eauto. }
    destruct Hfin as [b ->]. exists (bool_bytes b), [x], r.
    repeat split; try reflexivity; cbn; intros; try discriminate.
    rewrite truthy_bool in *. subst. reflexivity.
  Qed.

  Ltac rwt := repeat match goal with E : truthy ?v = _ |- context [truthy ?v] => rewrite E end.
  Ltac fin := repeat split; intros; rewrite ?truthy_bool in *; subst; spec; rwt;
    try discriminate; try reflexivity; try contradiction; try congruence;
    eauto using hassig_app_l, hassig_app_r, hassig_cons, hassig_here.

  (* ---------- wrappers ---------- *)
  Lemma sound_alt x tx t : sound x tx -> t_cast_alt tx = ROk t -> sound (MAlt x) t.
  Proof.
    intros IH Ht. destruct tx as [[bx ix dx ux] [ddx sx nx]]. unf Ht.
    destruct bx; try discriminate. okinv Ht. tyred.
    intros s0 al st' H. cbn [enc app] in H.
    apply exec_cons_ok in H. destruct H as [st1 [H1 H]]. cbn [exec_instr exec_op stk alt] in H1.
    destruct s0 as [|c s]; [discriminate|]. okinv H1.
    apply exec_app_ok in H. destruct H as [st1 [H1 H]].
    destruct (IH _ _ _ H1) as (v & p & s' & -> & -> & Hc & Hv).
    cbn in H. okinv H. exists c, v, p, s'. split; [reflexivity|]. split; [left; reflexivity | split; [exact I | exact Hv]].
  Qed.

  Lemma sound_swap x tx t : sound x tx -> t_cast_swap tx = ROk t -> sound (MSwap x) t.
  Proof.
    intros IH Ht. destruct tx as [[bx ix dx ux] [ddx sx nx]]. unf Ht.
    destruct bx; try discriminate.
    assert (Hi : ix = IOne \/ ix = IOneNonZero) by (destruct ix; try discriminate; auto).
    assert (Ht' : t = mkTy (mkCorr BW IAny dx ux) (mkMall ddx sx nx)) by (destruct ix; try discriminate; inversion Ht; reflexivity).
    subst t. clear Ht. tyred.
    intros s0 al st' H. cbn [enc app] in H.
    apply exec_cons_ok in H. destruct H as [st1 [H1 H]]. cbn [exec_instr exec_op stk alt] in H1.
    destruct s0 as [|a [|b r]]; try discriminate. okinv H1.
    destruct (IH _ _ _ H) as (v & p & s' & Es & -> & Hc & Hv).
    assert (Hl : length p = 1%nat) by (destruct Hi; subst ix; exact Hc).
    destruct p as [|b' [|? ?]]; try discriminate. cbn in Es. okinv Es.
    exists a, v, [b'], r. split; [reflexivity|]. split; [right; reflexivity | split; [exact I | exact Hv]].
  Qed.

  Lemma sound_check x tx t : sound x tx -> t_cast_check tx = ROk t -> sound (MCheck x) t.
  Proof.
    intros IH Ht. destruct tx as [[bx ix dx ux] [ddx sx nx]]. unf Ht.
    destruct bx; try discriminate. okinv Ht. tyred. destruct IH as [Hs IH].
    intros s al st' H. cbn [enc] in H.
    apply exec_app_ok in H. destruct H as [st1 [H1 H]].
    destruct (IH _ _ _ H1) as (kk & p & s' & -> & -> & Hc & Hf).
    apply exec_one_ok in H. cbn [exec_instr] in H. apply checksig_ok in H.
    destruct H as (k & sg & r & b & Es & -> & Hb & Hb'). okinv Es.
    exists (bool_bytes b), (p ++ [sg]), r. split; [rewrite <- app_assoc; reflexivity|]. split; [reflexivity|].
    split.
    - destruct ix; cbn in *; subst; try contradiction; auto.
    - fin.
  Qed.

  Lemma sound_dupif x tx t : sound x tx -> t_cast_dupif tx = ROk t -> sound (MDupIf x) t.
  Proof.
    intros IH Ht. destruct tx as [[bx ix dx ux] [ddx sx nx]]. unf Ht.
    destruct bx; try discriminate. destruct ix; try discriminate. okinv Ht. tyred.
    intros s al st' H. cbn [enc] in H.
    apply exec_cons_ok in H. destruct H as [st1 [H1 H]]. cbn [exec_instr exec_op stk alt] in H1.
    destruct s as [|x0 r]; [discriminate|]. okinv H1.
    apply exec_one_ok in H. apply if_ok in H. rewrite xorb_false_r in H. destruct H as [[Hc H]|[Hc H]].
    - destruct (IH _ _ _ H) as (p & s' & Es & -> & Hz & Hv). cbn in Hz. subst p. cbn in Es. subst s'.
      exists x0, [x0], r. split; [reflexivity|]. split; [reflexivity|]. split; [reflexivity|].
      repeat split; intros; try discriminate; [exfalso; apply (hassig_nil e); auto | destruct ddx; discriminate].
    - subst st'. exists x0, [x0], r. split; [reflexivity|]. split; [reflexivity|]. split; [reflexivity|].
      repeat split; intros; try discriminate; try congruence. destruct ddx; discriminate.
  Qed.

  Lemma sound_verify x tx t : sound x tx -> t_cast_verify tx = ROk t -> sound (MVerify x) t.
  Proof.
    intros IH Ht. destruct tx as [[bx ix dx ux] [ddx sx nx]]. unf Ht.
    destruct bx; try discriminate. okinv Ht. tyred.
    intros s al st' H. cbn [enc] in H. rewrite push_verify_exec in H.
    apply bind_ok_inv in H. destruct H as [st1 [H1 H]].
    destruct (IH _ _ _ H1) as (v & p & s' & -> & -> & Hc & Hu & Hs & Hf).
    apply verify_ok in H. cbn [stk alt] in H. destruct H as (v' & r' & Es & Htr & ->). okinv Es.
    exists p, r'. fin.
  Qed.

  Lemma sound_nonzero x tx t : sound x tx -> t_cast_nonzero tx = ROk t -> sound (MNonZero x) t.
  Proof.
    intros IH Ht. destruct tx as [[bx ix dx ux] [ddx sx nx]]. unf Ht.
    destruct (negb (input_eqb ix IOneNonZero) && negb (input_eqb ix IAnyNonZero)) eqn:Ei; [discriminate|].
    destruct bx; try discriminate. okinv Ht. tyred.
    intros s al st' H. cbn [enc] in H.
    apply exec_cons_ok in H. destruct H as [st1 [H1 H]]. cbn [exec_instr exec_op stk alt] in H1.
    destruct s as [|x0 r]; [discriminate|]. okinv H1.
    apply exec_cons_ok in H. destruct H as [st1 [H1 H]]. cbn [exec_instr] in H1. apply zne_ok in H1.
    destruct H1 as (sz & r1 & n & Es & Hn & ->). okinv Es.
    apply exec_one_ok in H. apply if_ok in H. rewrite xorb_false_r, truthy_bool in H. destruct H as [[Hc H]|[Hc H]].
    - destruct (IH _ _ _ H) as (v & p & s' & Es & -> & Hcn & Hu & Hs & Hf). exists v, p, s'.
      repeat split; auto. destruct ddx; discriminate.
    - subst st'. pose proof (num_falsy _ _ Hn Hc) as Hz.
      apply num_operand4_encode in Hn; [|lia]. rewrite Hz in Hn. symmetry in Hn. apply blen_zero in Hn.
      subst x0. exists [], [[]], r. split; [reflexivity|]. split; [reflexivity|].
      split; [destruct ix; try discriminate; reflexivity|].
      repeat split; intros; try discriminate. destruct ddx; discriminate.
  Qed.
  Lemma sound_zne x tx t : sound x tx -> t_cast_zeronotequal tx = ROk t -> sound (MZeroNotEqual x) t.
  Proof.
    intros IH Ht. destruct tx as [[bx ix dx ux] [ddx sx nx]]. unf Ht.
    destruct bx; try discriminate. okinv Ht. tyred.
    intros s al st' H. cbn [enc] in H.
    apply exec_app_ok in H. destruct H as [st1 [H1 H]].
    destruct (IH _ _ _ H1) as (v & p & s' & -> & -> & Hc & Hu & Hs & Hf).
    apply exec_one_ok in H. cbn [exec_instr] in H. apply zne_ok in H.
    destruct H as (v' & r & n & Es & Hn & ->). okinv Es.
    exists (bool_bytes (truthy v')), p, r. fin.
  Qed.

  (* ---------- consumption counts of the combinators ---------- *)
  Lemma cnt_and ix iy p q : cnt ix p -> cnt iy q -> cnt (and_input ix iy) (p ++ q).
  Proof. destruct ix, iy; cbn; intros; subst; cbn; rewrite ?app_nil_r, ?app_length; auto; lia. Qed.
  Lemma cntK_and ix iy p q : cnt ix p -> cntK iy q -> cntK (and_input ix iy) (p ++ q).
  Proof. destruct ix, iy; cbn; intros; subst; cbn; try contradiction; auto. Qed.

  Ltac bsplit := repeat match goal with
    | H : _ && _ = true |- _ => apply andb_prop in H; destruct H
    | H : _ || _ = false |- _ => apply orb_false_elim in H; destruct H
    | H : _ && _ = false |- _ => apply andb_false_elim in H; destruct H
    | H : _ || _ = true |- _ => apply orb_prop in H; destruct H
    end.
  Ltac tc v := let b := fresh "tb" in let E := fresh "Etb" in
    remember (truthy v) as b eqn:E in *; symmetry in E; destruct b.
  Ltac fin2 :=repeat split; intros; rewrite ?truthy_bool in *; bsplit; subst; spec; rwt;
    try discriminate; try reflexivity; try contradiction; try congruence;
    eauto 6 using hassig_app_l, hassig_app_r, hassig_cons, hassig_here.

  (* ---------- and_v ---------- *)
  Lemma sound_and_v x y tx ty t : sound x tx -> sound y ty -> t_and_v tx ty = ROk t -> sound (MAndV x y) t.
  Proof.
    intros IHx IHy Ht. destruct tx as [[bx ix dx ux] [ddx sx nx]], ty as [[b2 iy dy uy] [ddy sy ny]]. unf Ht.
    destruct bx, b2; try discriminate; okinv Ht; tyred;
      [| destruct IHy as [Hsy IHy]; split; [subst sy; apply orb_true_r|] |];
      intros s al st' H; cbn [enc] in H; apply exec_app_ok in H; destruct H as [st1 [H1 H]];
      destruct (IHx _ _ _ H1) as (p1 & s1 & -> & -> & Hc1 & Hs1).
    - destruct (IHy _ _ _ H) as (v & p2 & s2 & -> & -> & Hc2 & Hu & Hs2 & Hf2).
      exists v, (p1 ++ p2), s2. split; [apply app_assoc|]. split; [reflexivity|]. split; [apply cnt_and; assumption|].
      destruct sx, sy, ddy; fin2.
    - destruct (IHy _ _ _ H) as (kk & p2 & s2 & -> & -> & Hc2 & Hf2).
      exists kk, (p1 ++ p2), s2. split; [apply app_assoc|]. split; [reflexivity|]. split; [apply cntK_and; assumption|].
      destruct sx, ddy; fin2.
    - destruct (IHy _ _ _ H) as (p2 & s2 & -> & -> & Hc2 & Hs2).
      exists (p1 ++ p2), s2. split; [apply app_assoc|]. split; [reflexivity|]. split; [apply cnt_and; assumption|].
      destruct sx, sy; fin2.
  Qed.

  (* ---------- and_b / or_b ---------- *)
  Lemma sound_and_b x y tx ty t : sound x tx -> sound y ty -> t_and_b tx ty = ROk t -> sound (MAndB x y) t.
  Proof.
    intros IHx IHy Ht. destruct tx as [[bx ix dx ux] [ddx sx nx]], ty as [[b2 iy dy uy] [ddy sy ny]]. unf Ht.
    destruct bx, b2; try discriminate; okinv Ht; tyred.
    intros s al st' H; cbn [enc] in H; apply exec_app_ok in H; destruct H as [st1 [H1 H]].
    destruct (IHx _ _ _ H1) as (vx & p1 & s1 & -> & -> & Hc1 & Hu1 & Hs1 & Hf1).
    apply exec_app_ok in H; destruct H as [st2 [H2 H]].
    destruct (IHy _ _ _ H2) as (c & vy & p2 & s2 & Es & Hst2 & Hc2 & Hu2 & Hs2 & Hf2). okinv Es.
    apply exec_one_ok in H. cbn [exec_instr] in H.
    assert (Hfin : st' = mkSt (bool_bytes (truthy c && truthy vy) :: s2) al).
    { destruct Hst2 as [-> | ->]; apply booland_ok in H; destruct H as (a & b & r & Es & ->); okinv Es;
        [|rewrite andb_comm]; reflexivity. }
    subst st'. exists (bool_bytes (truthy c && truthy vy)), (p1 ++ p2), s2.
    split; [apply app_assoc|]. split; [reflexivity|]. split; [apply cnt_and; assumption|].
    tc c; tc vy; destruct sx, sy, ddx, ddy; fin2.
  Qed.
  Lemma cnt_or_b ix iy p q : cnt ix p -> cnt iy q ->
    cnt (match ix, iy with
         | IZero, IZero => IZero
         | IZero, IOne | IOne, IZero | IZero, IOneNonZero | IOneNonZero, IZero => IOne
         | _, _ => IAny end) (p ++ q).
  Proof. destruct ix, iy; cbn; intros; subst; cbn; rewrite ?app_nil_r, ?app_length; auto; lia. Qed.

  Lemma sound_or_b x y tx ty t : sound x tx -> sound y ty -> t_or_b tx ty = ROk t -> sound (MOrB x y) t.
  Proof.
    intros IHx IHy Ht. destruct tx as [[bx ix dx ux] [ddx sx nx]], ty as [[b2 iy dy uy] [ddy sy ny]]. unf Ht.
    destruct dx, dy; cbn [negb] in Ht; try discriminate.
    destruct bx, b2; try discriminate; okinv Ht; tyred.
    intros s al st' H; cbn [enc] in H; apply exec_app_ok in H; destruct H as [st1 [H1 H]].
    destruct (IHx _ _ _ H1) as (vx & p1 & s1 & -> & -> & Hc1 & Hu1 & Hs1 & Hf1).
    apply exec_app_ok in H; destruct H as [st2 [H2 H]].
    destruct (IHy _ _ _ H2) as (c & vy & p2 & s2 & Es & Hst2 & Hc2 & Hu2 & Hs2 & Hf2). okinv Es.
    apply exec_one_ok in H. cbn [exec_instr] in H.
    assert (Hfin : st' = mkSt (bool_bytes (truthy c || truthy vy) :: s2) al).
    { destruct Hst2 as [-> | ->]; apply boolor_ok in H; destruct H as (a & b & r & Es & ->); okinv Es;
        [|rewrite orb_comm]; reflexivity. }
    subst st'. exists (bool_bytes (truthy c || truthy vy)), (p1 ++ p2), s2.
    split; [apply app_assoc|]. split; [reflexivity|]. split; [apply cnt_or_b; assumption|].
    tc c; tc vy; destruct sx, sy; fin2.
  Qed.

  (* ---------- or_c / or_d ---------- *)
  Lemma cnt_or_dc_l ix iy p : cnt ix p -> cnt (or_dc_input ix iy) p.
  Proof. destruct ix, iy; cbn; auto. Qed.
  Lemma cnt_or_dc_both ix iy p q : cnt ix p -> cnt iy q -> cnt (or_dc_input ix iy) (p ++ q).
  Proof. destruct ix, iy; cbn; intros; subst; cbn; rewrite ?app_nil_r, ?app_length; auto; lia. Qed.

  Lemma sound_or_c x y tx ty t : sound x tx -> sound y ty -> t_or_c tx ty = ROk t -> sound (MOrC x y) t.
  Proof.
    intros IHx IHy Ht. destruct tx as [[bx ix dx ux] [ddx sx nx]], ty as [[b2 iy dy uy] [ddy sy ny]]. unf Ht.
    destruct dx, ux; cbn [negb] in Ht; try discriminate.
    destruct bx, b2; try discriminate; okinv Ht; tyred.
    intros s al st' H; cbn [enc] in H; apply exec_app_ok in H; destruct H as [st1 [H1 H]].
    destruct (IHx _ _ _ H1) as (vx & p1 & s1 & -> & -> & Hc1 & Hu1 & Hs1 & Hf1).
    apply exec_one_ok in H. apply if_ok in H. tc vx; destruct H as [[Hc H]|[Hc H]]; cbn in Hc; try discriminate Hc.
    - subst st'. exists p1, s1. split; [reflexivity|]. split; [reflexivity|]. split; [apply cnt_or_dc_l; assumption|].
      destruct sx, sy; fin2.
    - destruct (IHy _ _ _ H) as (p2 & s2 & -> & -> & Hc2 & Hs2).
      exists (p1 ++ p2), s2. split; [apply app_assoc|]. split; [reflexivity|]. split; [apply cnt_or_dc_both; assumption|].
      destruct sx, sy; fin2.
  Qed.

  Lemma sound_or_d x y tx ty t : sound x tx -> sound y ty -> t_or_d tx ty = ROk t -> sound (MOrD x y) t.
  Proof.
    intros IHx IHy Ht. destruct tx as [[bx ix dx ux] [ddx sx nx]], ty as [[b2 iy dy uy] [ddy sy ny]]. unf Ht.
    destruct dx, ux; cbn [negb] in Ht; try discriminate.
    destruct bx, b2; try discriminate; okinv Ht; tyred.
    intros s al st' H; cbn [enc] in H; apply exec_app_ok in H; destruct H as [st1 [H1 H]].
    destruct (IHx _ _ _ H1) as (vx & p1 & s1 & -> & -> & Hc1 & Hu1 & Hs1 & Hf1).
    apply exec_cons_ok in H. destruct H as [st2 [H2 H]]. cbn [exec_instr exec_op stk alt] in H2.
    apply exec_one_ok in H. tc vx; okinv H2; apply if_ok in H; rewrite Etb in H;
      destruct H as [[Hc H]|[Hc H]]; cbn in Hc; try discriminate Hc.
    - subst st'. exists vx, p1, s1. split; [reflexivity|]. split; [reflexivity|]. split; [apply cnt_or_dc_l; assumption|].
      destruct sx, sy, ddy; fin2.
    - destruct (IHy _ _ _ H) as (vy & p2 & s2 & -> & -> & Hc2 & Hu2 & Hs2 & Hf2).
      exists vy, (p1 ++ p2), s2. split; [apply app_assoc|]. split; [reflexivity|]. split; [apply cnt_or_dc_both; assumption|].
      tc vy; destruct sx, sy, ddy; fin2.
  Qed.

  (* ---------- or_i ---------- *)
  Definition or_i_input (ix iy : input) : input := match ix, iy with IZero, IZero => IOne | _, _ => IAny end.
  Lemma cnt_or_i_l ix iy c p : cnt ix p -> cnt (or_i_input ix iy) (c :: p).
  Proof. destruct ix, iy; cbn; intros; subst; auto. Qed.
  Lemma cnt_or_i_r ix iy c p : cnt iy p -> cnt (or_i_input ix iy) (c :: p).
  Proof. destruct ix, iy; cbn; intros; subst; auto. Qed.
  Lemma cntK_or_i_l ix iy p q : cntK ix p -> cntK (or_i_input ix iy) q.
  Proof. destruct ix, iy; cbn; intros; try contradiction; auto. Qed.
  Lemma cntK_or_i_r ix iy p q : cntK iy p -> cntK (or_i_input ix iy) q.
  Proof. destruct ix, iy; cbn; intros; try contradiction; auto. Qed.

  Lemma sound_or_i x y tx ty t : sound x tx -> sound y ty -> t_or_i tx ty = ROk t -> sound (MOrI x y) t.
  Proof.
    intros IHx IHy Ht. destruct tx as [[bx ix dx ux] [ddx sx nx]], ty as [[b2 iy dy uy] [ddy sy ny]]. unf Ht.
    fold (or_i_input ix iy) in Ht.
    destruct bx, b2; try discriminate; okinv Ht; tyred;
      [| destruct IHx as [Hsx IHx]; destruct IHy as [Hsy IHy]; split; [subst sx sy; reflexivity|] |];
      intros s al st' H; cbn [enc] in H; apply exec_one_ok in H;
      destruct (if_ok_stack _ _ _ _ _ _ _ H) as (c & r & ->); apply if_ok in H; rewrite xorb_false_r in H;
      destruct H as [[Hc H]|[Hc H]].
    - destruct (IHx _ _ _ H) as (v & p & s' & -> & -> & Hc1 & Hu1 & Hs1 & Hf1).
      exists v, (c :: p), s'. split; [reflexivity|]. split; [reflexivity|]. split; [apply cnt_or_i_l; assumption|].
      tc v; (split; [destruct ux, uy; fin2 | split; [destruct sx, sy; fin2 | destruct ddx, ddy; fin2]]).
    - destruct (IHy _ _ _ H) as (v & p & s' & -> & -> & Hc1 & Hu1 & Hs1 & Hf1).
      exists v, (c :: p), s'. split; [reflexivity|]. split; [reflexivity|]. split; [apply cnt_or_i_r; assumption|].
      tc v; (split; [destruct ux, uy; fin2 | split; [destruct sx, sy; fin2 | destruct ddx, ddy; fin2]]).
    - destruct (IHx _ _ _ H) as (kk & p & s' & -> & -> & Hc1 & Hf1).
      exists kk, (c :: p), s'. split; [reflexivity|]. split; [reflexivity|]. split; [eapply cntK_or_i_l; eassumption|].
      destruct ddx, ddy; fin2.
    - destruct (IHy _ _ _ H) as (kk & p & s' & -> & -> & Hc1 & Hf1).
      exists kk, (c :: p), s'. split; [reflexivity|]. split; [reflexivity|]. split; [eapply cntK_or_i_r; eassumption|].
      destruct ddx, ddy; fin2.
    - destruct (IHx _ _ _ H) as (p & s' & -> & -> & Hc1 & Hs1).
      exists (c :: p), s'. split; [reflexivity|]. split; [reflexivity|]. split; [apply cnt_or_i_l; assumption|].
      destruct sx, sy; fin2.
    - destruct (IHy _ _ _ H) as (p & s' & -> & -> & Hc1 & Hs1).
      exists (c :: p), s'. split; [reflexivity|]. split; [reflexivity|]. split; [apply cnt_or_i_r; assumption|].
      destruct sx, sy; fin2.
  Qed.
  (* ---------- andor ---------- *)
  Definition andor_input (ia ib ic : input) : input :=
    match ia, ib, ic with
    | IZero, IZero, IZero => IZero
    | IZero, IOne, IOne | IZero, IOne, IOneNonZero | IZero, IOneNonZero, IOne
    | IZero, IOneNonZero, IOneNonZero | IOne, IZero, IZero | IOneNonZero, IZero, IZero => IOne
    | _, _, _ => IAny end.
  Lemma cnt_andor_b ia ib ic p q : cnt ia p -> cnt ib q -> cnt (andor_input ia ib ic) (p ++ q).
  Proof. destruct ia, ib, ic; cbn; intros; subst; cbn; rewrite ?app_nil_r, ?app_length; auto; lia. Qed.
  Lemma cnt_andor_c ia ib ic p q : cnt ia p -> cnt ic q -> cnt (andor_input ia ib ic) (p ++ q).
  Proof. destruct ia, ib, ic; cbn; intros; subst; cbn; rewrite ?app_nil_r, ?app_length; auto; lia. Qed.
  Lemma cntK_andor_b ia ib ic p q : cnt ia p -> cntK ib q -> cntK (andor_input ia ib ic) (p ++ q).
  Proof. destruct ia, ib, ic; cbn; intros; subst; cbn; try contradiction; auto. Qed.
  Lemma cntK_andor_c ia ib ic p q : cnt ia p -> cntK ic q -> cntK (andor_input ia ib ic) (p ++ q).
  Proof. destruct ia, ib, ic; cbn; intros; subst; cbn; try contradiction; auto. Qed.

  Lemma sound_andor a b c ta tb tc t : sound a ta -> sound b tb -> sound c tc ->
    t_and_or ta tb tc = ROk t -> sound (MAndOr a b c) t.
  Proof.
    intros IHa IHb IHc Ht.
    destruct ta as [[ba ia da ua] [dda sa na]], tb as [[bb ib db ub] [ddb sb nb]], tc as [[bc ic dc uc] [ddc sc nc]].
    unf Ht. fold (andor_input ia ib ic) in Ht.
    destruct da, ua; cbn [negb] in Ht; try discriminate.
    destruct ba, bb, bc; try discriminate; okinv Ht; tyred;
      [| destruct IHb as [Hsb IHb]; destruct IHc as [Hsc IHc]; split; [subst sb sc; destruct sa; reflexivity|] |];
      intros s al st' H; cbn [enc] in H; apply exec_app_ok in H; destruct H as [st1 [H1 H]];
      destruct (IHa _ _ _ H1) as (va & p1 & s1 & -> & -> & Hc1 & Hu1 & Hs1 & Hf1);
      apply exec_one_ok in H; apply if_ok in H; tc va; destruct H as [[Hc H]|[Hc H]]; cbn in Hc; try discriminate Hc.
    - (* B, a satisfied: b runs *)
      destruct (IHb _ _ _ H) as (v & p2 & s2 & -> & -> & Hc2 & Hu2 & Hs2 & Hf2).
      exists v, (p1 ++ p2), s2. split; [apply app_assoc|]. split; [reflexivity|]. split; [apply cnt_andor_b; assumption|].
      tc v; (split; [destruct ub, uc; fin2 | split; [destruct sa, sb, sc; fin2 | destruct sa, ddb, ddc; fin2]]).
    - destruct (IHc _ _ _ H) as (v & p2 & s2 & -> & -> & Hc2 & Hu2 & Hs2 & Hf2).
      exists v, (p1 ++ p2), s2. split; [apply app_assoc|]. split; [reflexivity|]. split; [apply cnt_andor_c; assumption|].
      tc v; (split; [destruct ub, uc; fin2 | split; [destruct sa, sb, sc; fin2 | destruct sa, ddb, ddc; fin2]]).
    - destruct (IHb _ _ _ H) as (kk & p2 & s2 & -> & -> & Hc2 & Hf2).
      exists kk, (p1 ++ p2), s2. split; [apply app_assoc|]. split; [reflexivity|]. split; [apply cntK_andor_b; assumption|].
      destruct sa, ddb, ddc; fin2.
    - destruct (IHc _ _ _ H) as (kk & p2 & s2 & -> & -> & Hc2 & Hf2).
      exists kk, (p1 ++ p2), s2. split; [apply app_assoc|]. split; [reflexivity|]. split; [apply cntK_andor_c; assumption|].
      destruct sa, ddb, ddc; fin2.
    - destruct (IHb _ _ _ H) as (p2 & s2 & -> & -> & Hc2 & Hs2).
      exists (p1 ++ p2), s2. split; [apply app_assoc|]. split; [reflexivity|]. split; [apply cnt_andor_b; assumption|].
      destruct sa, sb, sc; fin2.
    - destruct (IHc _ _ _ H) as (p2 & s2 & -> & -> & Hc2 & Hs2).
      exists (p1 ++ p2), s2. split; [apply app_assoc|]. split; [reflexivity|]. split; [apply cnt_andor_c; assumption|].
      destruct sa, sb, sc; fin2.
  Qed.
  (* ---------- thresh ---------- *)
  Definition isnum (v : bytes) (a : Z) : Prop := forall z, num_operand 4 v = Some z -> z = a.
  Definition b2z (b : bool) : Z := if b then 1%Z else 0%Z.
  Fixpoint nuns (ts : list ty) : Z :=
    match ts with [] => 0%Z | t :: r => (b2z (negb (m_signed (t_mall t))) + nuns r)%Z end.
  Definition wcnt (n : N) (p : list bytes) : Prop := (n = 0%N -> p = []) /\ (n = 1%N -> length p = 1%nat).

  Lemma wcnt_weight c p : cnt (c_input c) p -> wcnt (weight c) p.
  Proof. unfold weight. destruct (c_input c); cbn; intros H; split; intros E; try discriminate; auto. Qed.
  Lemma wcnt_add n m p q : wcnt n p -> wcnt m q -> wcnt (n + m) (p ++ q).
  Proof.
    intros [H1 H2] [H3 H4]. split; intros E.
    - rewrite H1, H3 by lia. reflexivity.
    - assert (Hc : (n = 0 /\ m = 1)%N \/ (n = 1 /\ m = 0)%N) by lia. destruct Hc as [[En Em]|[En Em]].
      + rewrite (H1 En). cbn. auto.
      + rewrite (H3 Em), app_nil_r. auto.
  Qed.
  Lemma wcnt_cnt n p : wcnt n p -> cnt (match n with 0%N => IZero | 1%N => IOne | _ => IAny end) p.
  Proof. intros [H1 H2]. destruct n as [|[q|q|]]; cbn; auto. Qed.
  Lemma nuns_nonneg ts : (0 <= nuns ts)%Z.
  Proof. induction ts as [|t r IH]; cbn [nuns]; [lia|]. destruct (m_signed (t_mall t)); cbn [negb b2z]; lia. Qed.

  Lemma isnum_encode z : (0 <= z)%Z -> isnum (num_encode z) z.
  Proof. intros Hz z' H. apply num_operand4_encode in H; assumption. Qed.
  Lemma isnum_val v : (truthy v = true -> v = [1%N]) -> isnum v (b2z (truthy v)).
  Proof.
    intros Hu z Hz. destruct (truthy v) eqn:E; cbn.
    - rewrite (Hu eq_refl) in Hz. cbn in Hz. congruence.
    - eapply num_falsy; eassumption.
  Qed.

  Lemma tail_sound r : forall ts, Forall2 (fun x t => soundW x t /\ c_unit (t_corr t) = true) r ts ->
    forall accv a s al st', isnum accv a -> (0 <= a)%Z ->
    exec e (enc_tail ke r) (mkSt (accv :: s) al) = Ok st' ->
    exists accv' a' p s', s = p ++ s' /\ st' = mkSt (accv' :: s') al /\ isnum accv' a' /\ (a <= a')%Z /\
      wcnt (sumw (map t_corr ts)) p /\ (hassig p \/ (a' - a <= nuns ts)%Z).
  Proof.
    induction 1 as [|x t r ts [Hx Hux] Hr IH]; intros accv a s al st' Hn Ha H.
    - cbn in H. okinv H. exists accv, a, [], s. repeat split; auto; try lia; try discriminate. right. cbn. lia.
    - cbn [enc_tail app] in H. apply exec_app_ok in H. destruct H as [st1 [H1 H]].
      destruct (Hx _ _ _ H1) as (c & v & p1 & s1 & Es & Hst & Hcnt & Hu & Hs & Hf). okinv Es.
      apply exec_cons_ok in H. destruct H as [st2 [H2 H]]. cbn [exec_instr] in H2.
      assert (Hv : isnum v (b2z (truthy v))) by (apply isnum_val; auto).
      assert (Hst2 : st2 = mkSt (num_encode (a + b2z (truthy v)) :: s1) al).
      { destruct Hst as [-> | ->]; apply add_ok in H2; destruct H2 as (x1 & y1 & r1 & n1 & n2 & Es & E1 & E2 & ->); okinv Es.
        - rewrite (Hn _ E1), (Hv _ E2). rewrite Z.add_comm. reflexivity.
        - rewrite (Hn _ E2), (Hv _ E1). reflexivity. }
      subst st2.
      assert (Hb : (0 <= b2z (truthy v) <= 1)%Z) by (destruct (truthy v); cbn; lia).
      assert (Ha2 : (0 <= a + b2z (truthy v))%Z) by lia.
      destruct (IH _ (a + b2z (truthy v))%Z _ _ _ (isnum_encode _ Ha2) Ha2 H)
        as (accv' & a' & p2 & s2 & -> & -> & Hn' & Hle & Hw & Hsig).
      exists accv', a', (p1 ++ p2), s2. split; [apply app_assoc|]. split; [reflexivity|]. split; [exact Hn'|].
      split; [lia|]. split; [cbn [map sumw]; apply wcnt_add; [apply wcnt_weight; exact Hcnt | exact Hw]|].
      cbn [nuns]. pose proof (nuns_nonneg ts) as Hnn.
      destruct Hsig as [Hsig|Hsig]; [left; apply hassig_app_r; exact Hsig|].
      destruct (truthy v) eqn:Etv; cbn [b2z] in *.
      + destruct (m_signed (t_mall t)) eqn:Esg; cbn [negb b2z].
        * left. apply hassig_app_l. auto.
        * right. lia.
      + right. destruct (m_signed (t_mall t)); cbn [negb b2z]; lia.
  Qed.

  Fixpoint csig (ms : list mall) : N :=
    match ms with [] => 0%N | s :: r => ((if m_signed s then 1 else 0) + csig r)%N end.
  Lemma m_thresh_loop_fst subs : forall sc du nm,
    fst (fst (m_thresh_loop subs sc du nm)) = (sc + csig subs)%N.
  Proof.
    induction subs as [|s r IH]; intros sc du nm; cbn [m_thresh_loop csig fst]; [lia|].
    rewrite IH. lia.
  Qed.
  Lemma nuns_csig ts : nuns ts = (Z.of_nat (length ts) - Z.of_N (csig (map t_mall ts)))%Z.
  Proof.
    induction ts as [|t r IH]; cbn [nuns length map csig]; [reflexivity|].
    rewrite IH. destruct (m_signed (t_mall t)); cbn [negb b2z]; lia.
  Qed.
  Lemma m_threshold_signed k ms : m_signed (m_threshold k ms) = true ->
    (Z.of_nat (length ms) - Z.of_N (csig ms) < Z.of_N k)%Z.
  Proof.
    unfold m_threshold. pose proof (m_thresh_loop_fst ms 0 true true) as Hf.
    destruct (m_thresh_loop ms 0 true true) as [[sc du] nm]. cbn [fst] in Hf. cbn [m_signed].
    intros H. apply N.ltb_lt in H. lia.
  Qed.
  Lemma m_threshold_dissat k ms : m_dissat (m_threshold k ms) <> DNone.
  Proof.
    unfold m_threshold. destruct (m_thresh_loop ms 0 true true) as [[sc du] nm]. cbn [m_dissat].
    destruct (du && _); discriminate.
  Qed.

  Lemma sound_thresh k x0 r t0 ts0 t :
    sound x0 t0 -> Forall2 sound r ts0 -> t_threshold k (t0 :: ts0) = ROk t -> (k < 2147483648)%N ->
    sound (MThresh k (x0 :: r)) t.
  Proof.
    intros H0 Hrest Ht Hk. unfold t_threshold in Ht.
    destruct (c_threshold k (map t_corr (t0 :: ts0))) as [c|] eqn:Ec; [|discriminate]. okinv Ht.
    unfold c_threshold in Ec. cbn [map] in Ec. destruct (loop_first (t_corr t0) (map t_corr ts0)) as [Lt Lf].
    destruct (child_ok true (t_corr t0) && forallb (child_ok false) (map t_corr ts0)) eqn:Eok.
    2:{ destruct (Lf eq_refl) as [err He]. rewrite He in Ec. discriminate. }
    rewrite (Lt eq_refl) in Ec. okinv Ec.
    apply andb_prop in Eok. destruct Eok as [Ok0 Okr].
    assert (HW : Forall2 (fun x t => soundW x t /\ c_unit (t_corr t) = true) r ts0).
    { clear -Hrest Okr. induction Hrest as [|x t r ts Hx Hr IHr]; [constructor|].
      cbn [map forallb] in Okr. apply andb_prop in Okr. destruct Okr as [O1 O2].
      constructor; [|apply IHr, O2]. unfold child_ok in O1. unfold sound in Hx. destruct t as [[b i d u] m].
      cbn [t_corr c_base c_unit c_dissat] in *. destruct b, u, d; try discriminate. split; [exact Hx | reflexivity]. }
    unfold child_ok in Ok0. unfold sound in H0. destruct t0 as [[b0 i0 d0 u0] [dd0 s0 n0]].
    cbn [t_corr c_base c_unit c_dissat] in Ok0, H0. destruct b0, u0, d0; try discriminate.
    unfold sound. cbn [t_corr c_base]. unfold soundB, vclaims. cbn [t_corr t_mall c_input c_unit].
    intros s al st' H. rewrite (enc_thresh ke k x0 r) in H.
    apply exec_app_ok in H. destruct H as [st1 [H1 H]].
    destruct (H0 _ _ _ H1) as (v0 & p0 & s1 & -> & -> & Hc0 & Hu0 & Hs0 & Hf0).
    cbn [t_corr t_mall c_input c_unit m_signed m_dissat] in *.
    apply exec_app_ok in H. destruct H as [st2 [H2 H]].
    assert (Hb : (0 <= b2z (truthy v0) <= 1)%Z) by (destruct (truthy v0); cbn; lia).
    destruct (tail_sound r ts0 HW v0 (b2z (truthy v0)) s1 al st2 (isnum_val v0 (Hu0 eq_refl)) ltac:(lia) H2)
      as (accv' & a' & p & s' & -> & -> & Hn' & Hle & Hw & Hsig).
    apply exec_cons_ok in H. destruct H as [st3 [H3 H]]. rewrite exec_push_int' in H3. okinv H3.
    apply exec_one_ok in H. cbn [exec_instr stk alt] in H. apply equal_ok in H.
    destruct H as (xk & y & r' & Es & ->). okinv Es.
    exists (bool_bytes (bytes_eqb (num_encode (Z.of_N k)) y)), (p0 ++ p), r'.
    split; [apply app_assoc|]. split; [reflexivity|].
    split; [apply wcnt_cnt; cbn [sumw]; apply wcnt_add; [apply (wcnt_weight (mkCorr BB i0 true true)); exact Hc0 | exact Hw]|].
    split; [intros _ Htr; rewrite truthy_bool in Htr; rewrite Htr; reflexivity|].
    split.
    - intros Hsg Htr. rewrite truthy_bool in Htr. apply bytes_eqb_eq in Htr. subst y.
      assert (Ha' : Z.of_N k = a') by (apply Hn', num_roundtrip; lia).
      apply m_threshold_signed in Hsg. cbn [map length csig m_signed] in Hsg.
      pose proof (nuns_csig ts0) as Hnu. rewrite map_length in Hsg.
      destruct Hsig as [Hsig|Hsig]; [apply hassig_app_r; exact Hsig|].
      apply hassig_app_l. destruct (truthy v0) eqn:Etv.
      + destruct s0; [auto|]. exfalso. cbn [b2z] in *. lia.
      + exfalso. cbn [b2z] in *. destruct s0; lia.
    - intros Hd. exfalso. exact (m_threshold_dissat _ _ Hd).
  Qed.
  (* ---------- multi / sortedmulti (CHECKMULTISIG) ---------- *)
  Lemma sound_multi_gen (m : ms) k (keys : list key) (n : nat) :
    (1 <= k)%N -> length keys = n ->
    enc ke m = [push_int (Z.of_N k)] ++ map (fun key => IPush (kb ke key)) keys
                 ++ [push_int (Z.of_nat n); IOp OP_CHECKMULTISIG] ->
    sound m t_multi.
  Proof.
    intros Hk Hlen Henc. tyred. intros s al st' H. rewrite Henc in H. cbn [app] in H.
    apply exec_cons_ok in H. destruct H as [st1 [H1 H]]. rewrite exec_push_int' in H1. okinv H1.
    rewrite <- (map_map (kb ke) IPush) in H. rewrite exec_pushes in H. cbn [stk alt] in H.
    apply exec_cons_ok in H. destruct H as [st1 [H1 H]]. rewrite exec_push_int' in H1. okinv H1.
    cbn [stk alt] in H. apply exec_one_ok in H. cbn [exec_instr] in H. apply cms_ok in H.
    destruct H as (nb & r1 & n' & keys_rev & mb & r3 & m' & sigs_rev & r5 & b & Es & En & Ek & Em & Esg & -> & Hb).
    okinv Es. apply num_operand4_encode in En; [|lia]. subst n'.
    rewrite Nat2Z.id in Ek. rewrite <- (map_length (kb ke) keys), <- rev_length in Ek.
    rewrite take_n_app in Ek. okinv Ek.
    apply num_operand4_encode in Em; [|lia]. subst m'.
    apply take_n_some in Esg. destruct Esg as [-> Hl].
    exists (bool_bytes b), (sigs_rev ++ [[]]), r5. split; [rewrite <- app_assoc; reflexivity|]. split; [reflexivity|].
    split; [exact I|]. repeat split; intros; try discriminate.
    - rewrite truthy_bool in *. subst b. reflexivity.
    - rewrite truthy_bool in *. subst b. specialize (Hb eq_refl).
      destruct sigs_rev as [|sg srest]; [cbn in Hl; lia|].
      apply mm_first in Hb. destruct Hb as [kk Hkk]. eapply hassig_here. exact Hkk.
  Qed.

  (* ---------- multi_a / sortedmulti_a (CHECKSIG, CHECKSIGADD..., NUMEQUAL) ---------- *)
  Definition csa_script (ks : list key) : script :=
    flat_map (fun key => [IPush (kb ke key); IOp OP_CHECKSIGADD]) ks.

  Lemma csa_sound ks : forall accv a s al st', isnum accv a -> (0 <= a)%Z ->
    exec e (csa_script ks) (mkSt (accv :: s) al) = Ok st' ->
    exists accv' a' p s', s = p ++ s' /\ st' = mkSt (accv' :: s') al /\ isnum accv' a' /\ (a <= a')%Z /\
      (a' = a \/ hassig p).
  Proof.
    induction ks as [|key r IH]; intros accv a s al st' Hn Ha H.
    - cbn in H. okinv H. exists accv, a, [], s. repeat split; auto; lia.
    - cbn [csa_script flat_map app] in H. fold (csa_script r) in H.
      apply exec_cons_ok in H. destruct H as [st1 [H1 H]]. cbn [exec_instr stk alt] in H1. okinv H1.
      apply exec_cons_ok in H. destruct H as [st1 [H1 H]]. cbn [exec_instr] in H1. apply csa_ok in H1.
      destruct H1 as (k0 & nb & sg & r0 & n & b & Es & En & -> & Hb). okinv Es.
      rewrite (Hn _ En) in *.
      assert (Ha2 : (0 <= a + (if b then 1 else 0))%Z) by (destruct b; lia).
      destruct (IH _ _ _ _ _ (isnum_encode _ Ha2) Ha2 H) as (accv' & a' & p2 & s2 & -> & -> & Hn' & Hle & Hsig).
      exists accv', a', (sg :: p2), s2. split; [reflexivity|]. split; [reflexivity|]. split; [exact Hn'|].
      split; [destruct b; lia|].
      destruct b.
      + right. eapply hassig_here. apply Hb. reflexivity.
      + destruct Hsig as [->|Hsig]; [left; lia | right; apply hassig_cons; exact Hsig].
  Qed.

  Lemma sound_multi_a_gen (m : ms) k key0 (keys : list key) :
    (1 <= k)%N ->
    enc ke m = ([IPush (kb ke key0); IOp OP_CHECKSIG] ++ csa_script keys) ++ [push_int (Z.of_N k); IOp OP_NUMEQUAL] ->
    sound m t_multi_a.
  Proof.
    intros Hk Henc. tyred. intros s al st' H. rewrite Henc in H.
    apply exec_app_ok in H. destruct H as [st2 [H2 H]]. cbn [app] in H2.
    apply exec_cons_ok in H2. destruct H2 as [st1 [H1 H2]]. cbn [exec_instr stk alt] in H1. okinv H1.
    apply exec_cons_ok in H2. destruct H2 as [st1 [H1 H2]]. cbn [exec_instr] in H1. apply checksig_ok in H1.
    destruct H1 as (k0 & sg & r0 & b & Es & -> & Hb & _). okinv Es.
    assert (Hn0 : isnum (bool_bytes b) (if b then 1 else 0)%Z).
    { intros z Hz. rewrite num_operand_bool in Hz. congruence. }
    assert (Ha0 : (0 <= (if b then 1 else 0))%Z) by (destruct b; lia).
    destruct (csa_sound keys _ _ _ _ _ Hn0 Ha0 H2) as (accv' & a' & p2 & s2 & -> & -> & Hn' & Hle & Hsig).
    apply exec_cons_ok in H. destruct H as [st3 [H3 H]]. rewrite exec_push_int' in H3. okinv H3.
    apply exec_one_ok in H. cbn [exec_instr stk alt] in H. apply numequal_ok in H.
    destruct H as (xk & y & r' & n1 & n2 & Es & E1 & E2 & ->). okinv Es.
    apply num_operand4_encode in E1; [|lia]. subst n1. rewrite (Hn' _ E2) in *.
    exists (bool_bytes (Z.of_N k =? a')%Z), (sg :: p2), r'. split; [reflexivity|]. split; [reflexivity|].
    split; [exact I|]. repeat split; intros; try discriminate.
    - rewrite truthy_bool in *. rewrite H0. reflexivity.
    - rewrite truthy_bool in *. apply Z.eqb_eq in H0.
      destruct b; [eapply hassig_here; apply Hb; reflexivity|].
      destruct Hsig as [->|Hsig]; [lia | apply hassig_cons; exact Hsig].
  Qed.
  (* ---------- the induction ---------- *)
  Definition stmtS (m : ms) : Prop := forall t, type_of m = ROk t -> wf e ke m -> sound m t.

  Ltac one_child IH Ht Hwf tx Hx :=
    cbn [type_of] in Ht; apply rbind_ok in Ht; destruct Ht as [tx [Hx Ht]]; cbn [wf] in Hwf;
    specialize (IH tx Hx Hwf).
  Ltac two_children IHx IHy Ht Hwf tx t2 :=
    let Hx := fresh "Hx" in let Hy := fresh "Hy" in let Hwx := fresh "Hwx" in let Hwy := fresh "Hwy" in
    cbn [type_of] in Ht; apply rbind_ok in Ht; destruct Ht as [tx [Hx Ht]];
    apply rbind_ok in Ht; destruct Ht as [t2 [Hy Ht]];
    cbn [wf] in Hwf; destruct Hwf as [Hwx Hwy];
    specialize (IHx tx Hx Hwx); specialize (IHy t2 Hy Hwy).

  Theorem sound_all : forall m, stmtS m.
  Proof.
    induction m using ms_ind'; intros ty0 Ht Hwf.
    - okinv Ht. apply sound_true.
    - okinv Ht. apply sound_false.
    - okinv Ht. apply sound_pk_k.
    - okinv Ht. apply sound_pk_h.
    - okinv Ht. apply sound_raw_pk_h.
    - okinv Ht. apply sound_after. exact Hwf.
    - okinv Ht. apply sound_older. exact Hwf.
    - okinv Ht. apply (sound_hash_gen OP_SHA256 _ h); auto.
    - okinv Ht. apply (sound_hash_gen OP_HASH256 _ h); auto.
    - okinv Ht. apply (sound_hash_gen OP_RIPEMD160 _ h); auto.
    - okinv Ht. apply (sound_hash_gen OP_HASH160 _ h); auto.
    - one_child IHm Ht Hwf tx Hx. eapply sound_alt; eassumption.
    - one_child IHm Ht Hwf tx Hx. eapply sound_swap; eassumption.
    - one_child IHm Ht Hwf tx Hx. eapply sound_check; eassumption.
    - one_child IHm Ht Hwf tx Hx. eapply sound_dupif; eassumption.
    - one_child IHm Ht Hwf tx Hx. eapply sound_verify; eassumption.
    - one_child IHm Ht Hwf tx Hx. eapply sound_nonzero; eassumption.
    - one_child IHm Ht Hwf tx Hx. eapply sound_zne; eassumption.
    - two_children IHm1 IHm2 Ht Hwf tx tz. eapply sound_and_v; eassumption.
    - two_children IHm1 IHm2 Ht Hwf tx tz. eapply sound_and_b; eassumption.
    - cbn [type_of] in Ht. apply rbind_ok in Ht. destruct Ht as [ta [Ha Ht]].
      apply rbind_ok in Ht. destruct Ht as [tb [Hb Ht]]. apply rbind_ok in Ht. destruct Ht as [tc [Hc Ht]].
      cbn [wf] in Hwf. destruct Hwf as [Hwa [Hwb Hwc]].
      eapply sound_andor; [apply IHm1 | apply IHm2 | apply IHm3 | exact Ht]; assumption.
    - two_children IHm1 IHm2 Ht Hwf tx tz. eapply sound_or_b; eassumption.
    - two_children IHm1 IHm2 Ht Hwf tx tz. eapply sound_or_d; eassumption.
    - two_children IHm1 IHm2 Ht Hwf tx tz. eapply sound_or_c; eassumption.
    - two_children IHm1 IHm2 Ht Hwf tx tz. eapply sound_or_i; eassumption.
    - (* thresh *)
      cbn [type_of] in Ht. fold (tys_of xs) in Ht.
      apply rbind_ok in Ht. destruct Ht as [ts [Hts Ht]]. apply tys_of_ok in Hts.
      cbn [wf] in Hwf. destruct Hwf as [Hk [Hn Hwf]].
      assert (Hall : Forall2 sound xs ts).
      { clear Ht Hk Hn. revert ts Hts Hwf. induction H as [|x r Hx Hr IHr]; intros ts Hts Hwf.
        - inversion Hts. constructor.
        - inversion Hts as [|x' t' r' ts' Hxt Hrt]; subst. destruct Hwf as [Hw1 Hw2].
          constructor; [apply Hx; assumption | apply IHr; assumption]. }
      destruct Hall as [|x0 t0 r ts0 H0 Hrest]; [cbn in Hk; lia|].
      eapply sound_thresh; try eassumption. cbn [length] in *. lia.
    - (* multi *)
      okinv Ht. cbn [wf] in Hwf. destruct Hwf as [Hk [Hn [Htap Hl]]].
      apply (sound_multi_gen _ k ks (length ks)); [lia | reflexivity | reflexivity].
    - (* sortedmulti *)
      okinv Ht. cbn [wf] in Hwf. destruct Hwf as [Hk [Hn [Htap Hl]]].
      apply (sound_multi_gen _ k (ksort ke ks) (length ks)); [lia | exact Hl | reflexivity].
    - (* multi_a *)
      okinv Ht. cbn [wf] in Hwf. destruct Hwf as [Hk [Hn [Htap Hl]]].
      destruct ks as [|k0 rest]; [cbn in Hk; lia|].
      apply (sound_multi_a_gen _ k k0 rest); [lia | reflexivity].
    - (* sortedmulti_a *)
      okinv Ht. cbn [wf] in Hwf. destruct Hwf as [Hk [Hn [Htap Hl]]].
      destruct (ksort ke ks) as [|k0 rest] eqn:Eks; [cbn in Hl; lia|].
      apply (sound_multi_a_gen _ k k0 rest); [lia|]. cbn [enc]. rewrite Eks. reflexivity.
  Qed.
End SignedSound.

(* ================= statements (closed; every stack, every alt stack) ================= *)

(* Frame + signature claims, B: the run consumes a prefix [p] of the stack, restores the alt stack,
   leaves one value [v]; if the type says s and v is true, or the type says f and v is false,
   then p contains a valid signature. *)
Theorem signed_forced_frame_B (e : env) (ke : keyenv) (m : ms) (t : ty) :
  type_of m = ROk t -> wf e ke m -> c_base (t_corr t) = BB ->
  forall s al st', exec e (enc ke m) (mkSt s al) = Ok st' ->
  exists v p s', s = p ++ s' /\ st' = mkSt (v :: s') al /\
    (m_signed (t_mall t) = true -> truthy v = true -> hassig e p) /\
    (m_dissat (t_mall t) = DNone -> truthy v = false -> hassig e p).
Proof.
  intros Ht Hwf Hb s al st' H. pose proof (sound_all e ke m t Ht Hwf) as Hs.
  unfold sound in Hs. rewrite Hb in Hs.
  destruct (Hs _ _ _ H) as (v & p & s' & E1 & E2 & _ & _ & H1 & H2). exists v, p, s'. auto.
Qed.

Theorem signed_frame_V (e : env) (ke : keyenv) (m : ms) (t : ty) :
  type_of m = ROk t -> wf e ke m -> c_base (t_corr t) = BV ->
  forall s al st', exec e (enc ke m) (mkSt s al) = Ok st' ->
  exists p s', s = p ++ s' /\ st' = mkSt s' al /\ (m_signed (t_mall t) = true -> hassig e p).
Proof.
  intros Ht Hwf Hb s al st' H. pose proof (sound_all e ke m t Ht Hwf) as Hs.
  unfold sound in Hs. rewrite Hb in Hs.
  destruct (Hs _ _ _ H) as (p & s' & E1 & E2 & _ & H1). exists p, s'. auto.
Qed.

Theorem signed_forced_frame_K (e : env) (ke : keyenv) (m : ms) (t : ty) :
  type_of m = ROk t -> wf e ke m -> c_base (t_corr t) = BK ->
  m_signed (t_mall t) = true /\
  forall s al st', exec e (enc ke m) (mkSt s al) = Ok st' ->
  exists kk p s', s = p ++ s' /\ st' = mkSt (kk :: s') al /\
    (m_dissat (t_mall t) = DNone -> hassig e p).
Proof.
  intros Ht Hwf Hb. pose proof (sound_all e ke m t Ht Hwf) as Hs.
  unfold sound in Hs. rewrite Hb in Hs. destruct Hs as [Hsg Hs]. split; [exact Hsg|].
  intros s al st' H. destruct (Hs _ _ _ H) as (kk & p & s' & E1 & E2 & _ & H1). exists kk, p, s'. auto.
Qed.

Theorem signed_forced_frame_W (e : env) (ke : keyenv) (m : ms) (t : ty) :
  type_of m = ROk t -> wf e ke m -> c_base (t_corr t) = BW ->
  forall s0 al st', exec e (enc ke m) (mkSt s0 al) = Ok st' ->
  exists c v p s', s0 = c :: p ++ s' /\
    (st' = mkSt (c :: v :: s') al \/ st' = mkSt (v :: c :: s') al) /\
    (m_signed (t_mall t) = true -> truthy v = true -> hassig e p) /\
    (m_dissat (t_mall t) = DNone -> truthy v = false -> hassig e p).
Proof.
  intros Ht Hwf Hb s0 al st' H. pose proof (sound_all e ke m t Ht Hwf) as Hs.
  unfold sound in Hs. rewrite Hb in Hs.
  destruct (Hs _ _ _ H) as (c & v & p & s' & E1 & E2 & _ & _ & H1 & H2). exists c, v, p, s'. auto.
Qed.

(* (S) signed, in the "signature-free stack" form *)
Theorem signed_B (e : env) (ke : keyenv) (m : ms) (t : ty) :
  type_of m = ROk t -> wf e ke m -> c_base (t_corr t) = BB -> m_signed (t_mall t) = true ->
  forall s al st', sigfree e s -> exec e (enc ke m) (mkSt s al) = Ok st' ->
  exists v r, stk st' = v :: r /\ truthy v = false.
Proof.
  intros Ht Hwf Hb Hsg s al st' Hf H.
  destruct (signed_forced_frame_B e ke m t Ht Hwf Hb s al st' H) as (v & p & s' & -> & -> & H1 & _).
  exists v, s'. split; [reflexivity|]. destruct (truthy v) eqn:E; [|reflexivity].
  exfalso. apply (sigfree_no_hassig e p); [eapply sigfree_app_l; exact Hf | auto].
Qed.

Theorem signed_V (e : env) (ke : keyenv) (m : ms) (t : ty) :
  type_of m = ROk t -> wf e ke m -> c_base (t_corr t) = BV -> m_signed (t_mall t) = true ->
  forall s al, sigfree e s -> exec e (enc ke m) (mkSt s al) = Fail.
Proof.
  intros Ht Hwf Hb Hsg s al Hf. destruct (exec e (enc ke m) (mkSt s al)) as [st'|] eqn:H; [|reflexivity].
  destruct (signed_frame_V e ke m t Ht Hwf Hb s al st' H) as (p & s' & -> & _ & H1).
  exfalso. apply (sigfree_no_hassig e p); [eapply sigfree_app_l; exact Hf | auto].
Qed.

(* every K type is signed; a K fragment never ends with its key above a signature CHECKSIG accepts *)
Theorem signed_K (e : env) (ke : keyenv) (m : ms) (t : ty) :
  type_of m = ROk t -> wf e ke m -> c_base (t_corr t) = BK ->
  forall s al st', sigfree e s -> exec e (enc ke m) (mkSt s al) = Ok st' ->
  forall kk sg r, stk st' = kk :: sg :: r -> e_sigok e kk sg = false.
Proof.
  intros Ht Hwf Hb s al st' Hf H kk sg r Hst.
  destruct (signed_forced_frame_K e ke m t Ht Hwf Hb) as [_ Hs].
  destruct (Hs s al st' H) as (kk' & p & s' & -> & -> & _). cbn in Hst. inversion Hst; subst.
  apply Hf. apply in_or_app. right. left. reflexivity.
Qed.

Theorem signed_W (e : env) (ke : keyenv) (m : ms) (t : ty) :
  type_of m = ROk t -> wf e ke m -> c_base (t_corr t) = BW -> m_signed (t_mall t) = true ->
  forall c s al st', sigfree e s -> exec e (enc ke m) (mkSt (c :: s) al) = Ok st' ->
  exists v s', (stk st' = c :: v :: s' \/ stk st' = v :: c :: s') /\ truthy v = false.
Proof.
  intros Ht Hwf Hb Hsg c s al st' Hf H.
  destruct (signed_forced_frame_W e ke m t Ht Hwf Hb _ al st' H) as (c' & v & p & s' & Es & Hst & H1 & _).
  inversion Es; subst. exists v, s'. split; [destruct Hst as [-> | ->]; auto|].
  destruct (truthy v) eqn:E; [|reflexivity].
  exfalso. apply (sigfree_no_hassig e p); [eapply sigfree_app_l; exact Hf | auto].
Qed.

(* script level: a witness accepted for a signed B script contains a valid signature *)
Theorem signed_accepts (e : env) (ke : keyenv) (m : ms) (t : ty) :
  type_of m = ROk t -> wf e ke m -> c_base (t_corr t) = BB -> m_signed (t_mall t) = true ->
  forall w, accepts e (enc ke m) w = true -> hassig e w.
Proof.
  intros Ht Hwf Hb Hsg w H. unfold accepts in H.
  destruct (exec e (enc ke m) (mkSt w [])) as [st'|] eqn:Hr; [|discriminate].
  destruct (signed_forced_frame_B e ke m t Ht Hwf Hb w [] st' Hr) as (v & p & s' & -> & -> & H1 & _).
  cbn [stk] in H. destruct s'; [|discriminate]. apply hassig_app_l. auto.
Qed.

(* (F) forced: with a signature-free stack a fragment typed f never ends dissatisfied *)
Theorem forced_B (e : env) (ke : keyenv) (m : ms) (t : ty) :
  type_of m = ROk t -> wf e ke m -> c_base (t_corr t) = BB -> m_dissat (t_mall t) = DNone ->
  forall s al st', sigfree e s -> exec e (enc ke m) (mkSt s al) = Ok st' ->
  exists v r, stk st' = v :: r /\ truthy v = true.
Proof.
  intros Ht Hwf Hb Hd s al st' Hf H.
  destruct (signed_forced_frame_B e ke m t Ht Hwf Hb s al st' H) as (v & p & s' & -> & -> & _ & H2).
  exists v, s'. split; [reflexivity|]. destruct (truthy v) eqn:E; [reflexivity|].
  exfalso. apply (sigfree_no_hassig e p); [eapply sigfree_app_l; exact Hf | auto].
Qed.

Corollary forced_B_not_zero (e : env) (ke : keyenv) (m : ms) (t : ty) :
  type_of m = ROk t -> wf e ke m -> c_base (t_corr t) = BB -> m_dissat (t_mall t) = DNone ->
  forall s al r al', sigfree e s -> exec e (enc ke m) (mkSt s al) <> Ok (mkSt ([] :: r) al').
Proof.
  intros Ht Hwf Hb Hd s al r al' Hf H.
  destruct (forced_B e ke m t Ht Hwf Hb Hd s al _ Hf H) as (v & r' & Es & Htr).
  cbn in Es. inversion Es; subst. discriminate.
Qed.

Theorem forced_K (e : env) (ke : keyenv) (m : ms) (t : ty) :
  type_of m = ROk t -> wf e ke m -> c_base (t_corr t) = BK -> m_dissat (t_mall t) = DNone ->
  forall s al, sigfree e s -> exec e (enc ke m) (mkSt s al) = Fail.
Proof.
  intros Ht Hwf Hb Hd s al Hf. destruct (exec e (enc ke m) (mkSt s al)) as [st'|] eqn:H; [|reflexivity].
  destruct (signed_forced_frame_K e ke m t Ht Hwf Hb) as [_ Hs].
  destruct (Hs s al st' H) as (kk & p & s' & -> & _ & H1).
  exfalso. apply (sigfree_no_hassig e p); [eapply sigfree_app_l; exact Hf | auto].
Qed.

Theorem forced_W (e : env) (ke : keyenv) (m : ms) (t : ty) :
  type_of m = ROk t -> wf e ke m -> c_base (t_corr t) = BW -> m_dissat (t_mall t) = DNone ->
  forall c s al st', sigfree e s -> exec e (enc ke m) (mkSt (c :: s) al) = Ok st' ->
  exists v s', (stk st' = c :: v :: s' \/ stk st' = v :: c :: s') /\ truthy v = true.
Proof.
  intros Ht Hwf Hb Hd c s al st' Hf H.
  destruct (signed_forced_frame_W e ke m t Ht Hwf Hb _ al st' H) as (c' & v & p & s' & Es & Hst & _ & H2).
  inversion Es; subst. exists v, s'. split; [destruct Hst as [-> | ->]; auto|].
  destruct (truthy v) eqn:E; [reflexivity|].
  exfalso. apply (sigfree_no_hassig e p); [eapply sigfree_app_l; exact Hf | auto].
Qed.

(* ---------- non-vacuity ---------- *)
Definition sg_env : env :=
  mkEnv SvWitnessV0 0%N 0%N 2%N (fun _ sg => bytes_eqb sg [7%N]) (fun _ => true)
        (fun b => b) (fun b => b) (fun b => b) (fun b => b).
Definition sg_ke : keyenv := mkKeyEnv (fun k => [2%N; k]) (fun k => [3%N; k]) (fun l => l).
Definition sg_pk : ms := MCheck (MPkK 0%N).                                        (* pk(0): Bdu, s *)
Definition sg_forced : ms := MAndV (MVerify (MCheck (MPkK 0%N))) (MCheck (MPkK 1%N)). (* and_v(v:pk(0),pk(1)): B, s, f *)

Example sg_pk_type : exists t, type_of sg_pk = ROk t /\ c_base (t_corr t) = BB /\ m_signed (t_mall t) = true
                               /\ wf sg_env sg_ke sg_pk.
Proof. eexists. split; [reflexivity|]. repeat split. Qed.
Example sg_pk_sigfree : sigfree sg_env [[1%N]; [5%N]] /\ sigfree sg_env [[]; [5%N]].
Proof. split; intros x Hx k; cbn in Hx; intuition (subst; reflexivity). Qed.
Example sg_pk_rejects :
  exec sg_env (enc sg_ke sg_pk) (mkSt [[1%N]; [5%N]] []) = Fail /\                       (* NULLFAIL *)
  exec sg_env (enc sg_ke sg_pk) (mkSt [[]; [5%N]] []) = Ok (mkSt [[]; [5%N]] []) /\      (* dissatisfied *)
  exec sg_env (enc sg_ke sg_pk) (mkSt [[7%N]; [5%N]] []) = Ok (mkSt [[1%N]; [5%N]] []). (* satisfied with a signature *)
Proof. repeat split; vm_compute; reflexivity. Qed.
Example sg_forced_type : exists t, type_of sg_forced = ROk t /\ c_base (t_corr t) = BB /\ m_signed (t_mall t) = true
                                   /\ m_dissat (t_mall t) = DNone /\ wf sg_env sg_ke sg_forced.
Proof. eexists. split; [reflexivity|]. repeat split. Qed.
Example sg_forced_runs :
  exec sg_env (enc sg_ke sg_forced) (mkSt [[]; []] []) = Fail /\                         (* no signature: no outcome *)
  exec sg_env (enc sg_ke sg_forced) (mkSt [[7%N]; []] []) = Ok (mkSt [[]] []) /\         (* dissatisfied, consumed a signature *)
  exec sg_env (enc sg_ke sg_forced) (mkSt [[7%N]; [7%N]] []) = Ok (mkSt [[1%N]] []).
Proof. repeat split; vm_compute; reflexivity. Qed.

(* the well-formedness side conditions are needed: fragments the constructors reject break s / f *)
Example wf_needed_after0 :    (* after(0) is typed f, yet leaves 0 without any signature *)
  (exists t, type_of (MAfter 0) = ROk t /\ m_dissat (t_mall t) = DNone) /\
  exec sg_env (enc sg_ke (MAfter 0)) (mkSt [] []) = Ok (mkSt [[]] []).
Proof. split; [eexists; split; reflexivity | vm_compute; reflexivity]. Qed.
Example wf_needed_multi0 :    (* multi(0,K) is typed s, yet is satisfied by the dummy alone *)
  (exists t, type_of (MMulti 0 [0%N]) = ROk t /\ m_signed (t_mall t) = true) /\
  sigfree sg_env [[]] /\
  exec sg_env (enc sg_ke (MMulti 0 [0%N])) (mkSt [[]] []) = Ok (mkSt [[1%N]] []).
Proof.
  split; [eexists; split; reflexivity|]. split; [|vm_compute; reflexivity].
  intros x Hx k; cbn in Hx; intuition (subst; reflexivity).
Qed.
(* END *)
