(* "For every input stack" soundness of the two security-critical type predictions:
     s (signed): a satisfying execution consumed a valid signature;
     f (forced, m_dissat = DNone): a dissatisfying execution consumed a valid signature.
   Mutual induction over the AST with one invariant per base type; the invariants also carry
   the frame (only a prefix of the stack is consumed, the alt stack is restored), the z/o
   consumption counts (needed for s:X) and u (needed for thresh). *)
From Verif Require Import Exec Ser Ast Types TypeCheck ExecLemmas ScriptNumProofs TypesSpec SatSpec TheoremA SignedLemmas.
From Coq Require Import Lia.

Ltac dm H := repeat (cbn [bind] in H; match type of H with
  | context [match ?x with _ => _ end] => destruct x eqn:?; try discriminate H
  end).
Ltac okinv H := inversion H; subst; clear H.
Ltac spec := repeat match goal with
  | H : ?a = ?a -> _ |- _ => specialize (H eq_refl)
  | H : true = false -> _ |- _ => clear H
  | H : false = true -> _ |- _ => clear H
  | H : DUnique = DNone -> _ |- _ => clear H
  | H : DUnknown = DNone -> _ |- _ => clear H
  end.

Section SignedSound.
  Variable e : env.
  Variable ke : keyenv.
  Notation hassig := (hassig e).

  Definition cnt (i : input) (p : list bytes) : Prop :=
    match i with IZero => p = [] | IOne | IOneNonZero => length p = 1%nat | _ => True end.
  (* K: the count includes the signature that the later CHECKSIG takes *)
  Definition cntK (i : input) (p : list bytes) : Prop :=
    match i with IZero => False | IOne | IOneNonZero => p = [] | _ => True end.

  Definition vclaims (t : ty) (v : bytes) (p : list bytes) : Prop :=
    (c_unit (t_corr t) = true -> truthy v = true -> v = [1%N]) /\
    (m_signed (t_mall t) = true -> truthy v = true -> hassig p) /\
    (m_dissat (t_mall t) = DNone -> truthy v = false -> hassig p).

  Definition soundB (m : ms) (t : ty) : Prop :=
    forall s al st', exec e (enc ke m) (mkSt s al) = Ok st' ->
    exists v p s', s = p ++ s' /\ st' = mkSt (v :: s') al /\ cnt (c_input (t_corr t)) p /\ vclaims t v p.
  Definition soundV (m : ms) (t : ty) : Prop :=
    forall s al st', exec e (enc ke m) (mkSt s al) = Ok st' ->
    exists p s', s = p ++ s' /\ st' = mkSt s' al /\ cnt (c_input (t_corr t)) p /\
                 (m_signed (t_mall t) = true -> hassig p).
  (* every K type is signed (a fact about the typing rules, needed for or_i / andor over K) *)
  Definition soundK (m : ms) (t : ty) : Prop :=
    m_signed (t_mall t) = true /\
    forall s al st', exec e (enc ke m) (mkSt s al) = Ok st' ->
    exists kk p s', s = p ++ s' /\ st' = mkSt (kk :: s') al /\ cntK (c_input (t_corr t)) p /\
                    (m_dissat (t_mall t) = DNone -> hassig p).
  Definition soundW (m : ms) (t : ty) : Prop :=
    forall s0 al st', exec e (enc ke m) (mkSt s0 al) = Ok st' ->
    exists c v p s', s0 = c :: p ++ s' /\
      (st' = mkSt (c :: v :: s') al \/ st' = mkSt (v :: c :: s') al) /\
      cnt (c_input (t_corr t)) p /\ vclaims t v p.

  Definition sound (m : ms) (t : ty) : Prop :=
    match c_base (t_corr t) with
    | BB => soundB m t | BV => soundV m t | BK => soundK m t | BW => soundW m t
    end.

  Ltac unf H := unfold t_cast_alt, t_cast_swap, t_cast_check, t_cast_dupif, t_cast_verify, t_cast_nonzero,
    t_cast_zeronotequal, t_and_v, t_and_b, t_or_b, t_or_c, t_or_d, t_or_i, t_and_or, lift1, lift2,
    c_cast_alt, c_cast_swap, c_cast_check, c_cast_dupif, c_cast_verify, c_cast_nonzero, c_cast_zeronotequal,
    c_and_v, c_and_b, c_or_b, c_or_c, c_or_d, c_or_i, c_and_or in H; cbn [t_corr t_mall c_base c_input c_dissat c_unit] in H.
  Ltac tyred := unfold sound, soundB, soundV, soundK, soundW, vclaims in *;
    cbn [t_corr t_mall c_base c_input c_dissat c_unit m_dissat m_signed m_nm
         m_cast_alt m_cast_swap m_cast_check m_cast_dupif m_cast_verify m_cast_nonzero m_cast_zeronotequal
         m_and_b m_and_v m_or_b m_or_c m_or_d m_or_i m_and_or none_to_unique] in *.

  (* ---------- leaves ---------- *)
  Lemma sound_true : sound MTrue t_true.
  Proof.
    tyred. intros s al st' H. cbn in H. okinv H. exists [1%N], [], s.
    repeat split; try reflexivity; cbn; intros; discriminate.
  Qed.
  Lemma sound_false : sound MFalse t_false.
  Proof.
    tyred. intros s al st' H. cbn in H. okinv H. exists [], [], s.
    repeat split; try reflexivity; cbn; intros; discriminate.
  Qed.
  Lemma sound_pk_k k : sound (MPkK k) t_pk_k.
  Proof.
    tyred. split; [reflexivity|]. intros s al st' H. cbn in H. okinv H. exists (kb ke k), [], s.
    repeat split; try reflexivity; cbn; intros; discriminate.
  Qed.
  Lemma sound_pkh_gen h : soundK (MRawPkH h) t_pk_h.
  Proof.
    tyred. split; [reflexivity|]. intros s al st' H. destruct s as [|b l]; [discriminate|].
    cbn [enc exec exec_instr exec_op stk alt bind] in H. dm H. okinv H.
    exists b, [b], l. repeat split; try reflexivity; cbn; intros; discriminate.
  Qed.
  Lemma sound_pk_h k : sound (MPkH k) t_pk_h.
  Proof. exact (sound_pkh_gen (kh ke k)). Qed.
  Lemma sound_raw_pk_h h : sound (MRawPkH h) t_pk_h.
  Proof. exact (sound_pkh_gen h). Qed.

  Lemma sound_after t : (0 < t < 2147483648)%N -> sound (MAfter t) t_time.
  Proof.
    intros Ht. tyred. intros s al st' H. cbn [enc] in H.
    apply exec_cons_ok in H. destruct H as [st1 [H1 H]]. rewrite exec_push_int' in H1. okinv H1.
    cbn [exec exec_instr exec_op stk alt bind] in H. dm H. okinv H.
    exists (num_encode (Z.of_N t)), [], s.
    assert (Htr : truthy (num_encode (Z.of_N t)) = true) by (apply num_truthy; lia).
    repeat split; try reflexivity; cbn; intros; try discriminate; congruence.
  Qed.
  Lemma sound_older t : (0 < t < 2147483648)%N -> sound (MOlder t) t_time.
  Proof.
    intros Ht. tyred. intros s al st' H. cbn [enc] in H.
    apply exec_cons_ok in H. destruct H as [st1 [H1 H]]. rewrite exec_push_int' in H1. okinv H1.
    cbn [exec exec_instr exec_op stk alt bind] in H. dm H. okinv H.
    exists (num_encode (Z.of_N t)), [], s.
    assert (Htr : truthy (num_encode (Z.of_N t)) = true) by (apply num_truthy; lia).
    repeat split; try reflexivity; cbn; intros; try discriminate; congruence.
  Qed.

  Lemma sound_hash_gen (o : opcode) (m : ms) h :
    (o = OP_SHA256 \/ o = OP_HASH256 \/ o = OP_RIPEMD160 \/ o = OP_HASH160) ->
    enc ke m = hash_frag o h -> sound m t_hash.
  Proof.
    intros Ho Henc. tyred. intros s al st' H. rewrite Henc in H. unfold hash_frag in H.
    apply exec_cons_ok in H. destruct H as [st1 [H1 H]]. cbn [exec_instr exec_op stk alt] in H1.
    destruct s as [|x r]; [discriminate|]. okinv H1.
    apply exec_cons_ok in H. destruct H as [st1 [H1 H]]. rewrite exec_push_int' in H1. okinv H1.
    cbn [stk alt] in H.
    apply exec_cons_ok in H. destruct H as [st1 [H1 H]]. cbn [exec_instr exec_op stk alt] in H1.
    dm H1. okinv H1.
    assert (Hfin : exists b, st' = mkSt (bool_bytes b :: r) al).
    { destruct Ho as [->|[->|[->| ->]]]; cbn [exec exec_instr exec_op stk alt bind] in H; okinv H; eauto. }
    destruct Hfin as [b ->]. exists (bool_bytes b), [x], r.
    repeat split; try reflexivity; cbn; intros; try discriminate.
    rewrite truthy_bool in *. subst. reflexivity.
  Qed.

  Ltac rwt := repeat match goal with E : truthy ?v = _ |- context [truthy ?v] => rewrite E end.
  Ltac fin := repeat split; intros; rewrite ?truthy_bool in *; subst; spec; rwt;
    try discriminate; try reflexivity; try contradiction; try congruence;
    eauto using hassig_app_l, hassig_app_r, hassig_cons, hassig_here.

  (* ---------- wrappers ---------- *)
  Lemma sound_alt x tx t : sound x tx -> t_cast_alt tx = ROk t -> sound (MAlt x) t.
  Proof.
    intros IH Ht. destruct tx as [[bx ix dx ux] [ddx sx nx]]. unf Ht.
    destruct bx; try discriminate. okinv Ht. tyred.
    intros s0 al st' H. cbn [enc app] in H.
    apply exec_cons_ok in H. destruct H as [st1 [H1 H]]. cbn [exec_instr exec_op stk alt] in H1.
    destruct s0 as [|c s]; [discriminate|]. okinv H1.
    apply exec_app_ok in H. destruct H as [st1 [H1 H]].
    destruct (IH _ _ _ H1) as (v & p & s' & -> & -> & Hc & Hv).
    cbn in H. okinv H. exists c, v, p, s'. split; [reflexivity|]. split; [left; reflexivity | split; [exact I | exact Hv]].
  Qed.

  Lemma sound_swap x tx t : sound x tx -> t_cast_swap tx = ROk t -> sound (MSwap x) t.
  Proof.
    intros IH Ht. destruct tx as [[bx ix dx ux] [ddx sx nx]]. unf Ht.
    destruct bx; try discriminate.
    assert (Hi : ix = IOne \/ ix = IOneNonZero) by (destruct ix; try discriminate; auto).
    assert (Ht' : t = mkTy (mkCorr BW IAny dx ux) (mkMall ddx sx nx)) by (destruct ix; try discriminate; inversion Ht; reflexivity).
    subst t. clear Ht. tyred.
    intros s0 al st' H. cbn [enc app] in H.
    apply exec_cons_ok in H. destruct H as [st1 [H1 H]]. cbn [exec_instr exec_op stk alt] in H1.
    destruct s0 as [|a [|b r]]; try discriminate. okinv H1.
    destruct (IH _ _ _ H) as (v & p & s' & Es & -> & Hc & Hv).
    assert (Hl : length p = 1%nat) by (destruct Hi; subst ix; exact Hc).
    destruct p as [|b' [|? ?]]; try discriminate. cbn in Es. okinv Es.
    exists a, v, [b'], r. split; [reflexivity|]. split; [right; reflexivity | split; [exact I | exact Hv]].
  Qed.

  Lemma sound_check x tx t : sound x tx -> t_cast_check tx = ROk t -> sound (MCheck x) t.
  Proof.
    intros IH Ht. destruct tx as [[bx ix dx ux] [ddx sx nx]]. unf Ht.
    destruct bx; try discriminate. okinv Ht. tyred. destruct IH as [Hs IH].
    intros s al st' H. cbn [enc] in H.
    apply exec_app_ok in H. destruct H as [st1 [H1 H]].
    destruct (IH _ _ _ H1) as (kk & p & s' & -> & -> & Hc & Hf).
    apply exec_one_ok in H. cbn [exec_instr] in H. apply checksig_ok in H.
    destruct H as (k & sg & r & b & Es & -> & Hb & Hb'). okinv Es.
    exists (bool_bytes b), (p ++ [sg]), r. split; [rewrite <- app_assoc; reflexivity|]. split; [reflexivity|].
    split.
    - destruct ix; cbn in *; subst; try contradiction; auto.
    - fin.
  Qed.

  Lemma sound_dupif x tx t : sound x tx -> t_cast_dupif tx = ROk t -> sound (MDupIf x) t.
  Proof.
    intros IH Ht. destruct tx as [[bx ix dx ux] [ddx sx nx]]. unf Ht.
    destruct bx; try discriminate. destruct ix; try discriminate. okinv Ht. tyred.
    intros s al st' H. cbn [enc] in H.
    apply exec_cons_ok in H. destruct H as [st1 [H1 H]]. cbn [exec_instr exec_op stk alt] in H1.
    destruct s as [|x0 r]; [discriminate|]. okinv H1.
    apply exec_one_ok in H. apply if_ok in H. rewrite xorb_false_r in H. destruct H as [[Hc H]|[Hc H]].
    - destruct (IH _ _ _ H) as (p & s' & Es & -> & Hz & Hv). cbn in Hz. subst p. cbn in Es. subst s'.
      exists x0, [x0], r. split; [reflexivity|]. split; [reflexivity|]. split; [reflexivity|].
      repeat split; intros; try discriminate; [exfalso; apply (hassig_nil e); auto | destruct ddx; discriminate].
    - subst st'. exists x0, [x0], r. split; [reflexivity|]. split; [reflexivity|]. split; [reflexivity|].
      repeat split; intros; try discriminate; try congruence. destruct ddx; discriminate.
  Qed.

  Lemma sound_verify x tx t : sound x tx -> t_cast_verify tx = ROk t -> sound (MVerify x) t.
  Proof.
    intros IH Ht. destruct tx as [[bx ix dx ux] [ddx sx nx]]. unf Ht.
    destruct bx; try discriminate. okinv Ht. tyred.
    intros s al st' H. cbn [enc] in H. rewrite push_verify_exec in H.
    apply bind_ok_inv in H. destruct H as [st1 [H1 H]].
    destruct (IH _ _ _ H1) as (v & p & s' & -> & -> & Hc & Hu & Hs & Hf).
    apply verify_ok in H. cbn [stk alt] in H. destruct H as (v' & r' & Es & Htr & ->). okinv Es.
    exists p, r'. fin.
  Qed.

  Lemma sound_nonzero x tx t : sound x tx -> t_cast_nonzero tx = ROk t -> sound (MNonZero x) t.
  Proof.
    intros IH Ht. destruct tx as [[bx ix dx ux] [ddx sx nx]]. unf Ht.
    destruct (negb (input_eqb ix IOneNonZero) && negb (input_eqb ix IAnyNonZero)) eqn:Ei; [discriminate|].
    destruct bx; try discriminate. okinv Ht. tyred.
    intros s al st' H. cbn [enc] in H.
    apply exec_cons_ok in H. destruct H as [st1 [H1 H]]. cbn [exec_instr exec_op stk alt] in H1.
    destruct s as [|x0 r]; [discriminate|]. okinv H1.
    apply exec_cons_ok in H. destruct H as [st1 [H1 H]]. cbn [exec_instr] in H1. apply zne_ok in H1.
    destruct H1 as (sz & r1 & n & Es & Hn & ->). okinv Es.
    apply exec_one_ok in H. apply if_ok in H. rewrite xorb_false_r, truthy_bool in H. destruct H as [[Hc H]|[Hc H]].
    - destruct (IH _ _ _ H) as (v & p & s' & Es & -> & Hcn & Hu & Hs & Hf). exists v, p, s'.
      repeat split; auto. destruct ddx; discriminate.
    - subst st'. pose proof (num_falsy _ _ Hn Hc) as Hz.
      apply num_operand4_encode in Hn; [|lia]. rewrite Hz in Hn. symmetry in Hn. apply blen_zero in Hn.
      subst x0. exists [], [[]], r. split; [reflexivity|]. split; [reflexivity|].
      split; [destruct ix; try discriminate; reflexivity|].
      repeat split; intros; try discriminate. destruct ddx; discriminate.
  Qed.
  Lemma sound_zne x tx t : sound x tx -> t_cast_zeronotequal tx = ROk t -> sound (MZeroNotEqual x) t.
  Proof.
    intros IH Ht. destruct tx as [[bx ix dx ux] [ddx sx nx]]. unf Ht.
    destruct bx; try discriminate. okinv Ht. tyred.
    intros s al st' H. cbn [enc] in H.
    apply exec_app_ok in H. destruct H as [st1 [H1 H]].
    destruct (IH _ _ _ H1) as (v & p & s' & -> & -> & Hc & Hu & Hs & Hf).
    apply exec_one_ok in H. cbn [exec_instr] in H. apply zne_ok in H.
    destruct H as (v' & r & n & Es & Hn & ->). okinv Es.
    exists (bool_bytes (truthy v')), p, r. fin.
  Qed.

  (* ---------- consumption counts of the combinators ---------- *)
  Lemma cnt_and ix iy p q : cnt ix p -> cnt iy q -> cnt (and_input ix iy) (p ++ q).
  Proof. destruct ix, iy; cbn; intros; subst; cbn; rewrite ?app_nil_r, ?app_length; auto; lia. Qed.
  Lemma cntK_and ix iy p q : cnt ix p -> cntK iy q -> cntK (and_input ix iy) (p ++ q).
  Proof. destruct ix, iy; cbn; intros; subst; cbn; try contradiction; auto. Qed.

  Ltac bsplit := repeat match goal with
    | H : _ && _ = true |- _ => apply andb_prop in H; destruct H
    | H : _ || _ = false |- _ => apply orb_false_elim in H; destruct H
    | H : _ && _ = false |- _ => apply andb_false_elim in H; destruct H
    | H : _ || _ = true |- _ => apply orb_prop in H; destruct H
    end.
  Ltac tc v := let b := fresh "tb" in let E := fresh "Etb" in
    remember (truthy v) as b eqn:E in *; symmetry in E; destruct b.
  Ltac fin2 :=repeat split; intros; rewrite ?truthy_bool in *; bsplit; subst; spec; rwt;
    try discriminate; try reflexivity; try contradiction; try congruence;
    eauto 6 using hassig_app_l, hassig_app_r, hassig_cons, hassig_here.

  (* ---------- and_v ---------- *)
  Lemma sound_and_v x y tx ty t : sound x tx -> sound y ty -> t_and_v tx ty = ROk t -> sound (MAndV x y) t.
  Proof.
    intros IHx IHy Ht. destruct tx as [[bx ix dx ux] [ddx sx nx]], ty as [[b2 iy dy uy] [ddy sy ny]]. unf Ht.
    destruct bx, b2; try discriminate; okinv Ht; tyred;
      [| destruct IHy as [Hsy IHy]; split; [subst sy; apply orb_true_r|] |];
      intros s al st' H; cbn [enc] in H; apply exec_app_ok in H; destruct H as [st1 [H1 H]];
      destruct (IHx _ _ _ H1) as (p1 & s1 & -> & -> & Hc1 & Hs1).
    - destruct (IHy _ _ _ H) as (v & p2 & s2 & -> & -> & Hc2 & Hu & Hs2 & Hf2).
      exists v, (p1 ++ p2), s2. split; [apply app_assoc|]. split; [reflexivity|]. split; [apply cnt_and; assumption|].
      destruct sx, sy, ddy; fin2.
    - destruct (IHy _ _ _ H) as (kk & p2 & s2 & -> & -> & Hc2 & Hf2).
      exists kk, (p1 ++ p2), s2. split; [apply app_assoc|]. split; [reflexivity|]. split; [apply cntK_and; assumption|].
      destruct sx, ddy; fin2.
    - destruct (IHy _ _ _ H) as (p2 & s2 & -> & -> & Hc2 & Hs2).
      exists (p1 ++ p2), s2. split; [apply app_assoc|]. split; [reflexivity|]. split; [apply cnt_and; assumption|].
      destruct sx, sy; fin2.
  Qed.

  (* ---------- and_b / or_b ---------- *)
  Lemma sound_and_b x y tx ty t : sound x tx -> sound y ty -> t_and_b tx ty = ROk t -> sound (MAndB x y) t.
  Proof.
    intros IHx IHy Ht. destruct tx as [[bx ix dx ux] [ddx sx nx]], ty as [[b2 iy dy uy] [ddy sy ny]]. unf Ht.
    destruct bx, b2; try discriminate; okinv Ht; tyred.
    intros s al st' H; cbn [enc] in H; apply exec_app_ok in H; destruct H as [st1 [H1 H]].
    destruct (IHx _ _ _ H1) as (vx & p1 & s1 & -> & -> & Hc1 & Hu1 & Hs1 & Hf1).
    apply exec_app_ok in H; destruct H as [st2 [H2 H]].
    destruct (IHy _ _ _ H2) as (c & vy & p2 & s2 & Es & Hst2 & Hc2 & Hu2 & Hs2 & Hf2). okinv Es.
    apply exec_one_ok in H. cbn [exec_instr] in H.
    assert (Hfin : st' = mkSt (bool_bytes (truthy c && truthy vy) :: s2) al).
    { destruct Hst2 as [-> | ->]; apply booland_ok in H; destruct H as (a & b & r & Es & ->); okinv Es;
        [|rewrite andb_comm]; reflexivity. }
    subst st'. exists (bool_bytes (truthy c && truthy vy)), (p1 ++ p2), s2.
    split; [apply app_assoc|]. split; [reflexivity|]. split; [apply cnt_and; assumption|].
    tc c; tc vy; destruct sx, sy, ddx, ddy; fin2.
  Qed.
  Lemma cnt_or_b ix iy p q : cnt ix p -> cnt iy q ->
    cnt (match ix, iy with
         | IZero, IZero => IZero
         | IZero, IOne | IOne, IZero | IZero, IOneNonZero | IOneNonZero, IZero => IOne
         | _, _ => IAny end) (p ++ q).
  Proof. destruct ix, iy; cbn; intros; subst; cbn; rewrite ?app_nil_r, ?app_length; auto; lia. Qed.

  Lemma sound_or_b x y tx ty t : sound x tx -> sound y ty -> t_or_b tx ty = ROk t -> sound (MOrB x y) t.
  Proof.
    intros IHx IHy Ht. destruct tx as [[bx ix dx ux] [ddx sx nx]], ty as [[b2 iy dy uy] [ddy sy ny]]. unf Ht.
    destruct dx, dy; cbn [negb] in Ht; try discriminate.
    destruct bx, b2; try discriminate; okinv Ht; tyred.
    intros s al st' H; cbn [enc] in H; apply exec_app_ok in H; destruct H as [st1 [H1 H]].
    destruct (IHx _ _ _ H1) as (vx & p1 & s1 & -> & -> & Hc1 & Hu1 & Hs1 & Hf1).
    apply exec_app_ok in H; destruct H as [st2 [H2 H]].
    destruct (IHy _ _ _ H2) as (c & vy & p2 & s2 & Es & Hst2 & Hc2 & Hu2 & Hs2 & Hf2). okinv Es.
    apply exec_one_ok in H. cbn [exec_instr] in H.
    assert (Hfin : st' = mkSt (bool_bytes (truthy c || truthy vy) :: s2) al).
    { destruct Hst2 as [-> | ->]; apply boolor_ok in H; destruct H as (a & b & r & Es & ->); okinv Es;
        [|rewrite orb_comm]; reflexivity. }
    subst st'. exists (bool_bytes (truthy c || truthy vy)), (p1 ++ p2), s2.
    split; [apply app_assoc|]. split; [reflexivity|]. split; [apply cnt_or_b; assumption|].
    tc c; tc vy; destruct sx, sy; fin2.
  Qed.

  (* ---------- or_c / or_d ---------- *)
  Lemma cnt_or_dc_l ix iy p : cnt ix p -> cnt (or_dc_input ix iy) p.
  Proof. destruct ix, iy; cbn; auto. Qed.
  Lemma cnt_or_dc_both ix iy p q : cnt ix p -> cnt iy q -> cnt (or_dc_input ix iy) (p ++ q).
  Proof. destruct ix, iy; cbn; intros; subst; cbn; rewrite ?app_nil_r, ?app_length; auto; lia. Qed.

  Lemma sound_or_c x y tx ty t : sound x tx -> sound y ty -> t_or_c tx ty = ROk t -> sound (MOrC x y) t.
  Proof.
    intros IHx IHy Ht. destruct tx as [[bx ix dx ux] [ddx sx nx]], ty as [[b2 iy dy uy] [ddy sy ny]]. unf Ht.
    destruct dx, ux; cbn [negb] in Ht; try discriminate.
    destruct bx, b2; try discriminate; okinv Ht; tyred.
    intros s al st' H; cbn [enc] in H; apply exec_app_ok in H; destruct H as [st1 [H1 H]].
    destruct (IHx _ _ _ H1) as (vx & p1 & s1 & -> & -> & Hc1 & Hu1 & Hs1 & Hf1).
    apply exec_one_ok in H. apply if_ok in H. tc vx; destruct H as [[Hc H]|[Hc H]]; cbn in Hc; try discriminate Hc.
    - subst st'. exists p1, s1. split; [reflexivity|]. split; [reflexivity|]. split; [apply cnt_or_dc_l; assumption|].
      destruct sx, sy; fin2.
    - destruct (IHy _ _ _ H) as (p2 & s2 & -> & -> & Hc2 & Hs2).
      exists (p1 ++ p2), s2. split; [apply app_assoc|]. split; [reflexivity|]. split; [apply cnt_or_dc_both; assumption|].
      destruct sx, sy; fin2.
  Qed.

  Lemma sound_or_d x y tx ty t : sound x tx -> sound y ty -> t_or_d tx ty = ROk t -> sound (MOrD x y) t.
  Proof.
    intros IHx IHy Ht. destruct tx as [[bx ix dx ux] [ddx sx nx]], ty as [[b2 iy dy uy] [ddy sy ny]]. unf Ht.
    destruct dx, ux; cbn [negb] in Ht; try discriminate.
    destruct bx, b2; try discriminate; okinv Ht; tyred.
    intros s al st' H; cbn [enc] in H; apply exec_app_ok in H; destruct H as [st1 [H1 H]].
    destruct (IHx _ _ _ H1) as (vx & p1 & s1 & -> & -> & Hc1 & Hu1 & Hs1 & Hf1).
    apply exec_cons_ok in H. destruct H as [st2 [H2 H]]. cbn [exec_instr exec_op stk alt] in H2.
    apply exec_one_ok in H. tc vx; okinv H2; apply if_ok in H; rewrite Etb in H;
      destruct H as [[Hc H]|[Hc H]]; cbn in Hc; try discriminate Hc.
    - subst st'. exists vx, p1, s1. split; [reflexivity|]. split; [reflexivity|]. split; [apply cnt_or_dc_l; assumption|].
      destruct sx, sy, ddy; fin2.
    - destruct (IHy _ _ _ H) as (vy & p2 & s2 & -> & -> & Hc2 & Hu2 & Hs2 & Hf2).
      exists vy, (p1 ++ p2), s2. split; [apply app_assoc|]. split; [reflexivity|]. split; [apply cnt_or_dc_both; assumption|].
      tc vy; destruct sx, sy, ddy; fin2.
  Qed.

  (* ---------- or_i ---------- *)
  Definition or_i_input (ix iy : input) : input := match ix, iy with IZero, IZero => IOne | _, _ => IAny end.
  Lemma cnt_or_i_l ix iy c p : cnt ix p -> cnt (or_i_input ix iy) (c :: p).
  Proof. destruct ix, iy; cbn; intros; subst; auto. Qed.
  Lemma cnt_or_i_r ix iy c p : cnt iy p -> cnt (or_i_input ix iy) (c :: p).
  Proof. destruct ix, iy; cbn; intros; subst; auto. Qed.
  Lemma cntK_or_i_l ix iy p q : cntK ix p -> cntK (or_i_input ix iy) q.
  Proof. destruct ix, iy; cbn; intros; try contradiction; auto. Qed.
  Lemma cntK_or_i_r ix iy p q : cntK iy p -> cntK (or_i_input ix iy) q.
  Proof. destruct ix, iy; cbn; intros; try contradiction; auto. Qed.

  Lemma sound_or_i x y tx ty t : sound x tx -> sound y ty -> t_or_i tx ty = ROk t -> sound (MOrI x y) t.
  Proof.
    intros IHx IHy Ht. destruct tx as [[bx ix dx ux] [ddx sx nx]], ty as [[b2 iy dy uy] [ddy sy ny]]. unf Ht.
    fold (or_i_input ix iy) in Ht.
    destruct bx, b2; try discriminate; okinv Ht; tyred;
      [| destruct IHx as [Hsx IHx]; destruct IHy as [Hsy IHy]; split; [subst sx sy; reflexivity|] |];
      intros s al st' H; cbn [enc] in H; apply exec_one_ok in H;
      destruct (if_ok_stack _ _ _ _ _ _ _ H) as (c & r & ->); apply if_ok in H; rewrite xorb_false_r in H;
      destruct H as [[Hc H]|[Hc H]].
    - destruct (IHx _ _ _ H) as (v & p & s' & -> & -> & Hc1 & Hu1 & Hs1 & Hf1).
      exists v, (c :: p), s'. split; [reflexivity|]. split; [reflexivity|]. split; [apply cnt_or_i_l; assumption|].
      tc v; destruct ux, uy, sx, sy, ddx, ddy; fin2.
    - destruct (IHy _ _ _ H) as (v & p & s' & -> & -> & Hc1 & Hu1 & Hs1 & Hf1).
      exists v, (c :: p), s'. split; [reflexivity|]. split; [reflexivity|]. split; [apply cnt_or_i_r; assumption|].
      tc v; destruct ux, uy, sx, sy, ddx, ddy; fin2.
    - destruct (IHx _ _ _ H) as (kk & p & s' & -> & -> & Hc1 & Hf1).
      exists kk, (c :: p), s'. split; [reflexivity|]. split; [reflexivity|]. split; [eapply cntK_or_i_l; eassumption|].
      destruct ddx, ddy; fin2.
    - destruct (IHy _ _ _ H) as (kk & p & s' & -> & -> & Hc1 & Hf1).
      exists kk, (c :: p), s'. split; [reflexivity|]. split; [reflexivity|]. split; [eapply cntK_or_i_r; eassumption|].
      destruct ddx, ddy; fin2.
    - destruct (IHx _ _ _ H) as (p & s' & -> & -> & Hc1 & Hs1).
      exists (c :: p), s'. split; [reflexivity|]. split; [reflexivity|]. split; [apply cnt_or_i_l; assumption|].
      destruct sx, sy; fin2.
    - destruct (IHy _ _ _ H) as (p & s' & -> & -> & Hc1 & Hs1).
      exists (c :: p), s'. split; [reflexivity|]. split; [reflexivity|]. split; [apply cnt_or_i_r; assumption|].
      destruct sx, sy; fin2.
  Qed.
  (* ---------- andor ---------- *)
  Definition andor_input (ia ib ic : input) : input :=
    match ia, ib, ic with
    | IZero, IZero, IZero => IZero
    | IZero, IOne, IOne | IZero, IOne, IOneNonZero | IZero, IOneNonZero, IOne
    | IZero, IOneNonZero, IOneNonZero | IOne, IZero, IZero | IOneNonZero, IZero, IZero => IOne
    | _, _, _ => IAny end.
  Lemma cnt_andor_b ia ib ic p q : cnt ia p -> cnt ib q -> cnt (andor_input ia ib ic) (p ++ q).
  Proof. destruct ia, ib, ic; cbn; intros; subst; cbn; rewrite ?app_nil_r, ?app_length; auto; lia. Qed.
  Lemma cnt_andor_c ia ib ic p q : cnt ia p -> cnt ic q -> cnt (andor_input ia ib ic) (p ++ q).
  Proof. destruct ia, ib, ic; cbn; intros; subst; cbn; rewrite ?app_nil_r, ?app_length; auto; lia. Qed.
  Lemma cntK_andor_b ia ib ic p q : cnt ia p -> cntK ib q -> cntK (andor_input ia ib ic) (p ++ q).
  Proof. destruct ia, ib, ic; cbn; intros; subst; cbn; try contradiction; auto. Qed.
  Lemma cntK_andor_c ia ib ic p q : cnt ia p -> cntK ic q -> cntK (andor_input ia ib ic) (p ++ q).
  Proof. destruct ia, ib, ic; cbn; intros; subst; cbn; try contradiction; auto. Qed.

  Lemma sound_andor a b c ta tb tc t : sound a ta -> sound b tb -> sound c tc ->
    t_and_or ta tb tc = ROk t -> sound (MAndOr a b c) t.
  Proof.
    intros IHa IHb IHc Ht.
    destruct ta as [[ba ia da ua] [dda sa na]], tb as [[bb ib db ub] [ddb sb nb]], tc as [[bc ic dc uc] [ddc sc nc]].
    unf Ht. fold (andor_input ia ib ic) in Ht.
    destruct da, ua; cbn [negb] in Ht; try discriminate.
    destruct ba, bb, bc; try discriminate; okinv Ht; tyred;
      [| destruct IHb as [Hsb IHb]; destruct IHc as [Hsc IHc]; split; [subst sb sc; destruct sa; reflexivity|] |];
      intros s al st' H; cbn [enc] in H; apply exec_app_ok in H; destruct H as [st1 [H1 H]];
      destruct (IHa _ _ _ H1) as (va & p1 & s1 & -> & -> & Hc1 & Hu1 & Hs1 & Hf1);
      apply exec_one_ok in H; apply if_ok in H; tc va; destruct H as [[Hc H]|[Hc H]]; cbn in Hc; try discriminate Hc.
    - (* B, a satisfied: b runs *)
      destruct (IHb _ _ _ H) as (v & p2 & s2 & -> & -> & Hc2 & Hu2 & Hs2 & Hf2).
      exists v, (p1 ++ p2), s2. split; [apply app_assoc|]. split; [reflexivity|]. split; [apply cnt_andor_b; assumption|].
      tc v; destruct ub, uc, sa, sb, sc, ddb, ddc; fin2.
    - destruct (IHc _ _ _ H) as (v & p2 & s2 & -> & -> & Hc2 & Hu2 & Hs2 & Hf2).
      exists v, (p1 ++ p2), s2. split; [apply app_assoc|]. split; [reflexivity|]. split; [apply cnt_andor_c; assumption|].
      tc v; destruct ub, uc, sa, sb, sc, ddb, ddc; fin2.
    - destruct (IHb _ _ _ H) as (kk & p2 & s2 & -> & -> & Hc2 & Hf2).
      exists kk, (p1 ++ p2), s2. split; [apply app_assoc|]. split; [reflexivity|]. split; [apply cntK_andor_b; assumption|].
      destruct sa, ddb, ddc; fin2.
    - destruct (IHc _ _ _ H) as (kk & p2 & s2 & -> & -> & Hc2 & Hf2).
      exists kk, (p1 ++ p2), s2. split; [apply app_assoc|]. split; [reflexivity|]. split; [apply cntK_andor_c; assumption|].
      destruct sa, ddb, ddc; fin2.
    - destruct (IHb _ _ _ H) as (p2 & s2 & -> & -> & Hc2 & Hs2).
      exists (p1 ++ p2), s2. split; [apply app_assoc|]. split; [reflexivity|]. split; [apply cnt_andor_b; assumption|].
      destruct sa, sb, sc; fin2.
    - destruct (IHc _ _ _ H) as (p2 & s2 & -> & -> & Hc2 & Hs2).
      exists (p1 ++ p2), s2. split; [apply app_assoc|]. split; [reflexivity|]. split; [apply cnt_andor_c; assumption|].
      destruct sa, sb, sc; fin2.
  Qed.
  (* END *)
