(* What key_parse returns is well formed (so printing it and parsing again is the identity), and
   key_parse never reaches a Panic site, for every byte string and every choice of body parsers. *)
From Coq Require Import List Bool NArith Lia Arith.
From Verif Require Import MsTextModel MsTextProofs KeyTextModel KeyTextBasics KeyTextSteps KeyTextProofs.
Import ListNotations.
Local Open Scope N_scope.

(* ------------------------------------------------------------------ child numbers *)
Lemma child_from_str_cases : forall s,
  (exists c, child_from_str s = Ok c /\ wfc c) \/ (exists e, child_from_str s = Err e).
Proof.
  intros s. unfold child_from_str.
  assert (H : forall (mk : N -> child) (o : option N), (forall v, wfc (mk v) <-> v < TWO31) ->
    (exists c, match o with None => Err CnFormat | Some v => if v <? TWO31 then Ok (mk v) else Err CnRange end = Ok c /\ wfc c)
    \/ (exists e, match o with None => Err CnFormat | Some v => if v <? TWO31 then Ok (mk v) else Err CnRange end = @Err cn_err child e)).
  { intros mk [v|] Hmk; [|right; eauto]. destruct (v <? TWO31) eqn:E; [|right; eauto].
    left. exists (mk v). split; [reflexivity|]. apply Hmk. apply N.ltb_lt. exact E. }
  destruct s as [|x r]; [apply (H CNormal); intros; reflexivity|].
  destruct ((last (x :: r) 0 =? CH_APOS) || (last (x :: r) 0 =? CH_h)).
  - apply (H CHard). intros; reflexivity.
  - apply (H CNormal). intros; reflexivity.
Qed.

Lemma collect_cases : forall l,
  (exists cs, collect_children l = Ok cs /\ Forall wfc cs /\ length cs = length l) \/ (exists e, collect_children l = Err e).
Proof.
  induction l as [|s r IH]; [left; exists []; repeat split; constructor|].
  cbn [collect_children]. destruct (child_from_str_cases s) as [[c [E Hc]]|[e E]]; rewrite E; [|right; eauto].
  destruct IH as [[cs [E2 [Hcs Hl]]]|[e E2]]; rewrite E2; [|right; eauto].
  left. exists (c :: cs). repeat split; [constructor; assumption|cbn; lia].
Qed.

(* ------------------------------------------------------------------ split length *)
Lemma split_on_two : forall c s, existsb (fun x => x =? c) s = true -> (2 <= length (split_on c s))%nat.
Proof.
  intros c s. induction s as [|x r IH]; intros H; [discriminate|].
  cbn [existsb] in H. cbn [split_on]. pose proof (split_on_ne c r) as Hn.
  destruct (split_on c r) as [|p ps] eqn:E; [contradiction|].
  destruct (x =? c) eqn:Ex.
  - cbn [length]. lia.
  - cbn [orb] in H. specialize (IH H). cbn [length] in *. lia.
Qed.

(* ------------------------------------------------------------------ invariant of the try_fold *)
Definition inv (multi : bool) (paths : list (list child)) : Prop :=
  if multi then
    exists pre alts post, paths = map (fun a => pre ++ a :: post) alts /\ (2 <= length alts)%nat /\ NoDup alts /\
                          Forall wfc pre /\ Forall wfc alts /\ Forall wfc post
  else paths = [] \/ exists q, paths = [q] /\ Forall wfc q.

Lemma inv_step : forall m paths i, inv m paths -> wfc i -> inv m (step1 i paths).
Proof.
  intros [|] paths i H Hi; unfold inv in *.
  - destruct H as [pre [alts [post [-> [Hl [Hn [Hpre [Ha Hpost]]]]]]]].
    exists pre, alts, (post ++ [i]). repeat split; try assumption.
    + destruct alts as [|a0 r]; [cbn in Hl; lia|]. cbn [map step1]. f_equal.
      * rewrite <- app_assoc. reflexivity.
      * rewrite map_map. apply map_ext. intros a. rewrite <- app_assoc. reflexivity.
    + apply Forall_app. split; [assumption|repeat constructor; assumption].
  - destruct H as [->|[q [-> Hq]]]; right.
    + exists [i]. split; [reflexivity|repeat constructor; assumption].
    + exists (q ++ [i]). split; [reflexivity|]. apply Forall_app. split; [assumption|repeat constructor; assumption].
Qed.

Lemma middle_some : forall p, len p <? 5 = false -> exists x r, p = x :: r /\ r <> [] /\ middle p = Some (removelast r).
Proof.
  intros p H. apply N.ltb_ge in H. unfold len in H.
  destruct p as [|x [|y r]]; cbn [length] in H; try lia.
  exists x, (y :: r). repeat split. discriminate.
Qed.

Lemma deriv_loop_inv : forall ps w m paths, inv m paths ->
  match deriv_loop ps w m paths with
  | Ok (paths', _) => exists m', inv m' paths'
  | Err _ => True
  | Panic _ => False
  end.
Proof.
  induction ps as [|p rest IH]; intros w m paths Hinv; [cbn; eauto|].
  cbn [deriv_loop]. destruct w; [|exact I|exact I].
  destruct (tb_eqb p W_STAR); [apply IH; exact Hinv|].
  destruct (tb_eqb p W_STAR_AP || tb_eqb p W_STAR_H); [apply IH; exact Hinv|].
  destruct (starts_with CH_LT p && ends_with CH_GT p) eqn:Ese.
  - destruct m; [exact I|].
    destruct (len p <? 5) eqn:El; [exact I|]. cbn [orb].
    destruct (existsb (fun c => c =? CH_SEMI) p) eqn:Esemi; [|exact I]. cbn [negb].
    destruct (middle_some p El) as [x [r [Ep [Hr Hm]]]]. rewrite Hm.
    (* the ';' is inside the middle part *)
    assert (Hmid : existsb (fun c => c =? CH_SEMI) (removelast r) = true).
    { subst p. apply andb_true_iff in Ese. destruct Ese as [Es Ee]. cbn [starts_with] in Es.
      unfold ends_with in Ee. apply N.eqb_eq in Es, Ee.
      assert (Hlast : last r 0 = CH_GT).
      { destruct r as [|y r']; [contradiction|]. exact Ee. }
      cbn [existsb] in Esemi. subst x. cbn [N.eqb CH_LT CH_SEMI Pos.eqb orb] in Esemi.
      rewrite (app_removelast_last 0 Hr) in Esemi. rewrite existsb_app in Esemi. rewrite Hlast in Esemi.
      cbn in Esemi. rewrite orb_false_r in Esemi. exact Esemi. }
    pose proof (split_on_two _ _ Hmid) as H2.
    destruct (collect_cases (split_on CH_SEMI (removelast r))) as [[idx [E [Hw Hl]]]|[e E]]; rewrite E; [|exact I].
    destruct (has_dup idx) eqn:Ed; [exact I|]. apply has_dup_false in Ed.
    destruct idx as [|a0 [|a1 more]]; try (cbn [length] in Hl; lia).
    unfold inv in Hinv.
    assert (Hq : exists q, (paths = [] /\ q = [] \/ paths = [q]) /\ Forall wfc q).
    { destruct Hinv as [->|[q [-> Hq]]]; [exists []; split; [left; split; reflexivity|constructor]|exists q; split; [right; reflexivity|exact Hq]]. }
    destruct Hq as [q [Hq Hqw]].
    rewrite (fold_step_multi a0 (a1 :: more) paths q Hq).
    apply IH. unfold inv. exists q, (a0 :: a1 :: more), [].
    split; [apply map_ext; intros a; reflexivity|].
    split; [cbn [length]; lia|].
    split; [exact Ed|]. split; [exact Hqw|]. split; [exact Hw|constructor].
  - destruct (child_from_str_cases p) as [[c [E Hc]]|[e E]]; rewrite E; [|exact I].
    rewrite fold_step_single. apply IH. apply inv_step; assumption.
Qed.

(* ------------------------------------------------------------------ origin *)
Lemma hexval_lt : forall c v, hexval c = Some v -> v < 16.
Proof.
  intros c v. unfold hexval.
  destruct ((48 <=? c) && (c <=? 57)) eqn:E1; [intros H; injection H as <-; b2p; lia|].
  destruct ((97 <=? c) && (c <=? 102)) eqn:E2; [intros H; injection H as <-; b2p; lia|].
  destruct ((65 <=? c) && (c <=? 70)) eqn:E3; [intros H; injection H as <-; b2p; lia|discriminate].
Qed.
Lemma hex_decode_wf : forall n s bs, (length s <= n)%nat -> hex_decode s = Some bs ->
  Forall (fun b => b < 256) bs /\ (2 * length bs = length s)%nat.
Proof.
  induction n as [|n IH]; intros s bs Hn H.
  - destruct s; [|cbn in Hn; lia]. injection H as <-. split; [constructor|reflexivity].
  - destruct s as [|a [|b r]]; cbn [hex_decode] in H; try discriminate.
    + injection H as <-. split; [constructor|reflexivity].
    + destruct (hexval a) as [x|] eqn:Ea; [|discriminate]. destruct (hexval b) as [y|] eqn:Eb; [|discriminate].
      destruct (hex_decode r) as [u|] eqn:Er; [|discriminate]. injection H as <-.
      destruct (IH r u ltac:(cbn [length] in Hn; lia) Er) as [Hu Hl].
      apply hexval_lt in Ea, Eb. split; [constructor; [lia|exact Hu]|cbn [length]; lia].
Qed.

Lemma origin_valid : forall s kp o, parse_key_origin s = Ok (kp, o) -> wf_origin o.
Proof.
  intros s kp o. unfold parse_key_origin.
  destruct (existsb _ s); [discriminate|]. destruct s as [|c0 s1]; [discriminate|].
  destruct (c0 =? CH_LBR); [|intros H; injection H as _ <-; exact I].
  destruct (split_on CH_RBR s1) as [|p0 parts1]; [discriminate|].
  destruct (split_on CH_SLASH p0) as [|fp steps]; [discriminate|].
  destruct (len fp =? 8) eqn:El; [|discriminate]. cbn [negb].
  destruct (hex_decode fp) as [fpb|] eqn:Eh; [|discriminate].
  destruct (collect_cases steps) as [[cs [E [Hw _]]]|[e E]]; rewrite E; [|discriminate].
  destruct parts1 as [|key [|? ?]]; try discriminate. intros H. injection H as _ <-.
  destruct (hex_decode_wf _ _ _ (le_n _) Eh) as [Hb Hl]. apply N.eqb_eq in El. unfold len in El.
  cbn [wf_origin]. repeat split; [lia|exact Hb|exact Hw].
Qed.
Lemma origin_no_panic : forall s p, parse_key_origin s <> Panic p.
Proof.
  intros s p. unfold parse_key_origin.
  destruct (existsb _ s); [discriminate|]. destruct s as [|c0 s1]; [discriminate|].
  destruct (c0 =? CH_LBR); [|discriminate].
  destruct (split_on CH_RBR s1) as [|p0 parts1]; [discriminate|].
  destruct (split_on CH_SLASH p0) as [|fp steps]; [discriminate|].
  destruct (negb (len fp =? 8)); [discriminate|].
  destruct (hex_decode fp); [|discriminate].
  destruct (collect_cases steps) as [[cs [E _]]|[e E]]; rewrite E; [|discriminate].
  destruct parts1 as [|key [|? ?]]; discriminate.
Qed.

Section KeyTextValid.
  Variables xatom fatom oatom : Type.
  Variable xpub_parse : tbytes -> option xatom.
  Variable xpub_print : xatom -> tbytes.
  Variable xpub_depth : xatom -> N.
  Variable full_parse : tbytes -> option fatom.
  Variable full_print : fatom -> tbytes.
  Variable xonly_parse : tbytes -> option oatom.
  Variable xonly_print : oatom -> tbytes.

  Notation key_parse := (key_parse xatom fatom oatom xpub_parse xpub_depth full_parse xonly_parse).
  Notation wf_dkey := (wf_dkey xatom fatom oatom xpub_depth).

  Lemma deep_ok : forall x w n, too_deep xatom xpub_depth x w n = false ->
    xpub_depth x + N.of_nat n + wsteps w <= 255.
  Proof. intros x w n H. unfold too_deep in H. apply N.ltb_ge in H. unfold wsteps. destruct w; lia. Qed.

  (* no hypothesis on the bodies is needed here *)
  Theorem key_parse_valid : forall s k, key_parse s = Ok k -> wf_dkey k.
  Proof.
    intros s k. unfold KeyTextModel.key_parse.
    destruct (len s <? 64); [discriminate|].
    destruct (parse_key_origin s) as [[kp o]|e|p] eqn:Eo; try discriminate.
    apply origin_valid in Eo.
    destruct (tb_eqb (firstn 4 kp) X_XPRV || tb_eqb (firstn 4 kp) X_TPRV); [discriminate|].
    destruct (tb_eqb (firstn 4 kp) X_XPUB || tb_eqb (firstn 4 kp) X_TPUB).
    - destruct (split_on CH_SLASH kp) as [|xs steps]; [discriminate|].
      destruct (xpub_parse xs) as [x|]; [|discriminate].
      pose proof (deriv_loop_inv steps WNone false [] (or_introl eq_refl)) as HI.
      destruct (deriv_loop steps WNone false []) as [[paths w]|e|p]; try discriminate.
      destruct HI as [m' HI].
      destruct (existsb _ paths || _) eqn:Edeep; [discriminate|]. apply orb_false_iff in Edeep. destruct Edeep as [Ed1 Ed2].
      destruct paths as [|p1 [|p2 rest]]; intros H; injection H as <-; cbn [KeyTextProofs.wf_dkey].
      + split; [exact Eo|]. split; [constructor|]. apply deep_ok. exact Ed2.
      + cbn [existsb] in Ed1. rewrite orb_false_r in Ed1. split; [exact Eo|]. split; [|apply deep_ok; exact Ed1].
        destruct m'; unfold inv in HI.
        * destruct HI as [pre [alts [post [E [Hl _]]]]]. destruct alts as [|? [|? ?]]; cbn in Hl, E; try lia; discriminate.
        * destruct HI as [HI|[q [E Hq]]]; [discriminate|]. injection E as ->. exact Hq.
      + split; [exact Eo|]. destruct m'; unfold inv in HI.
        * destruct HI as [pre [alts [post [E [Hl [Hn [Hpre [Ha Hpost]]]]]]]].
          exists pre, alts, post. repeat split; try assumption.
          destruct alts as [|a0 r]; [cbn in Hl; lia|]. cbn [map] in E. injection E as E1 _.
          cbn [existsb] in Ed1. apply orb_false_iff in Ed1. destruct Ed1 as [Ed1 _].
          apply deep_ok in Ed1. rewrite E1 in Ed1. rewrite app_length in Ed1. cbn [length] in Ed1.
          replace (length pre + 1 + length post)%nat with (length pre + S (length post))%nat by lia. exact Ed1.
        * destruct HI as [HI|[q [E _]]]; discriminate.
    - destruct (len kp =? 64).
      + destruct (xonly_parse kp); [|discriminate]. intros H; injection H as <-. exact Eo.
      + destruct ((len kp =? 66) || (len kp =? 130)); [|discriminate].
        destruct kp as [|? [|? ?]]; try discriminate.
        destruct (negb _); [discriminate|]. destruct (full_parse _); [|discriminate].
        intros H; injection H as <-. exact Eo.
  Qed.

  Theorem key_parse_never_panics : forall s site, key_parse s <> Panic site.
  Proof.
    intros s site. unfold KeyTextModel.key_parse.
    destruct (len s <? 64); [discriminate|].
    destruct (parse_key_origin s) as [[kp o]|e|p] eqn:Eo; try discriminate.
    { destruct (tb_eqb (firstn 4 kp) X_XPRV || tb_eqb (firstn 4 kp) X_TPRV); [discriminate|].
      destruct (tb_eqb (firstn 4 kp) X_XPUB || tb_eqb (firstn 4 kp) X_TPUB).
      - destruct (split_on CH_SLASH kp) as [|xs steps]; [discriminate|].
        destruct (xpub_parse xs) as [x|]; [|discriminate].
        pose proof (deriv_loop_inv steps WNone false [] (or_introl eq_refl)) as HI.
        destruct (deriv_loop steps WNone false []) as [[paths w]|e|p]; try discriminate; [|contradiction].
        destruct (existsb _ paths || _); [discriminate|].
        destruct paths as [|p1 [|p2 rest]]; discriminate.
      - destruct (len kp =? 64) eqn:E64.
        + destruct (xonly_parse kp); discriminate.
        + destruct ((len kp =? 66) || (len kp =? 130)) eqn:El; [|discriminate].
          destruct kp as [|? [|? ?]].
          * cbn in El. discriminate.
          * cbn in El. discriminate.
          * destruct (negb _); [discriminate|]. destruct (full_parse _); discriminate. }
    exfalso. eapply origin_no_panic. exact Eo.
  Qed.

  (* fixed point: with the hypotheses on the bodies *)
  Hypothesis xpub_rt : forall a, xpub_parse (xpub_print a) = Some a.
  Hypothesis xpub_chars : forall a, forallb alnum (xpub_print a) = true.
  Hypothesis xpub_prefix : forall a,
    tb_eqb (firstn 4 (xpub_print a)) X_XPUB || tb_eqb (firstn 4 (xpub_print a)) X_TPUB = true.
  Hypothesis xpub_len : forall a, 64 <= len (xpub_print a).
  Hypothesis full_rt : forall a, full_parse (full_print a) = Some a.
  Hypothesis full_chars : forall a, forallb alnum (full_print a) = true.
  Hypothesis full_len : forall a, len (full_print a) = 66 \/ len (full_print a) = 130.
  Hypothesis full_prefix : forall a,
    tb_eqb (firstn 2 (full_print a)) P_02 || tb_eqb (firstn 2 (full_print a)) P_03
    || tb_eqb (firstn 2 (full_print a)) P_04 = true.
  Hypothesis xonly_rt : forall a, xonly_parse (xonly_print a) = Some a.
  Hypothesis xonly_chars : forall a, forallb hexany (xonly_print a) = true.
  Hypothesis xonly_len : forall a, len (xonly_print a) = 64.

  Notation key_print := (key_print xatom fatom oatom xpub_print full_print xonly_print).
  Notation key_print_out := (key_print_out xatom fatom oatom xpub_print full_print xonly_print).

  Theorem key_parse_print_fixpoint : forall s k, key_parse s = Ok k ->
    key_parse (key_print k) = Ok k /\
    (forall k', key_parse (key_print k) = Ok k' -> key_print k' = key_print k).
  Proof.
    intros s k H. apply key_parse_valid in H.
    assert (E : key_parse (key_print k) = Ok k).
    { apply (key_print_parse xatom fatom oatom xpub_parse xpub_print xpub_depth full_parse full_print xonly_parse xonly_print); assumption. }
    split; [exact E|]. intros k' H'. rewrite E in H'. injection H' as <-. reflexivity.
  Qed.

  (* the printer does not reach its index panics on a well-formed key *)
  Theorem key_print_total : forall k, wf_dkey k -> key_print_out k = Ok (key_print k).
  Proof.
    intros [o [a|a]|o x p w|o x paths w] Hw; unfold KeyTextModel.key_print; cbn [KeyTextModel.key_print_out]; try reflexivity.
    cbn [KeyTextProofs.wf_dkey] in Hw. destruct Hw as [_ [pre [alts [post [-> [Hl [Hn _]]]]]]].
    destruct alts as [|a0 [|a1 more]]; try (cbn in Hl; lia).
    assert (Hne : a0 <> a1).
    { inversion Hn as [|? ? Hni _]; subst. intros ->. apply Hni. left. reflexivity. }
    cbn [map]. pose proof (fmt_paths_spec pre post a0 a1 more Hne) as HF. cbn [map] in HF. rewrite HF. reflexivity.
  Qed.
End KeyTextValid.
