(* C16 proofs, part 6: the former mismatch witness, and find_derivation_index_for_spk as the
   inverse of derivation. *)
From Coq Require Import List Bool NArith Lia Arith.
Import ListNotations.
From Verif Require Import DescWrapModel DescWrapKeys DescWrapSplit.
Local Open Scope N_scope.

(* The former counterexample to "error otherwise" (before /repo 4fc1acf3 the third
   alternative of the internal key was dropped silently):  tr(X/<0;1;2>/star, pk(Y/<2;3>/star)).
   With the repaired code it is the length-mismatch error. *)
Definition s_ (i : N) := Step false i.
Definition mismatch_leaf_key := KMulti None 1 [[s_ 2]; [s_ 3]] WUnhardened.
Definition mismatch_internal_key := KMulti None 0 [[s_ 0]; [s_ 1]; [s_ 2]] WUnhardened.
Definition mismatch_witness : desc dkey := DTr [(0, MsPk mismatch_leaf_key)] mismatch_internal_key.
Lemma mismatch_witness_rejected : into_single_descriptors mismatch_witness = KErr ELenMismatch.
Proof. vm_compute. reflexivity. Qed.

(* ---- find_derivation_index_for_spk ---- *)
Lemma bytes_eqb_eq : forall a b, bytes_eqb a b = true <-> a = b.
Proof.
  induction a as [|x a IH]; intros [|y b]; cbn [bytes_eqb]; split; intros H; try discriminate; auto.
  - apply andb_true_iff in H. destruct H as [H1 H2]. apply N.eqb_eq in H1. apply IH in H2. congruence.
  - inversion H; subst. rewrite N.eqb_refl. apply IH. reflexivity.
Qed.
Lemma obytes_eqb_some : forall a t, obytes_eqb a (Some t) = true <-> a = Some t.
Proof.
  intros [a|] t; cbn [obytes_eqb]; split; intros H; try discriminate.
  - apply bytes_eqb_eq in H. congruence.
  - inversion H; subst. apply bytes_eqb_eq. reflexivity.
Qed.

Section Find.
  Variable spk_of : desc dkey -> option bytes.

  (* soundness: a reported (i, dd) is the derivation at i, has the target script, and i is
     the FIRST index of the range with that script *)
  Theorem find_loop_sound : forall range d t i dd,
    find_loop spk_of range d t = KOk (Some (i, dd)) ->
    exists pre post, range = pre ++ i :: post /\
      derive_at_index i d = KOk dd /\ spk_of dd = Some t /\
      forall j, In j pre -> exists dj, derive_at_index j d = KOk dj /\ spk_of dj <> Some t.
  Proof.
    induction range as [|j range IH]; intros d t i dd H; cbn [find_loop] in H; [discriminate|].
    destruct (derive_at_index j d) as [dj|e] eqn:E; [|discriminate].
    destruct (obytes_eqb (spk_of dj) (Some t)) eqn:Q.
    - inversion H; subst. apply obytes_eqb_some in Q. exists [], range. repeat split; auto. intros ? [].
    - destruct (IH d t i dd H) as [pre [post [-> [A [B C]]]]].
      exists (j :: pre), post. repeat split; auto. intros j' [<-|Hj]; [|auto].
      exists dj. split; [exact E|]. intros Q'. apply obytes_eqb_some in Q'. congruence.
  Qed.

  (* completeness: if every index of the range derives and one of them has the target
     script, it is found *)
  Theorem find_loop_complete : forall range d t,
    (forall j, In j range -> exists dj, derive_at_index j d = KOk dj) ->
    (exists j dj, In j range /\ derive_at_index j d = KOk dj /\ spk_of dj = Some t) ->
    exists i dd, find_loop spk_of range d t = KOk (Some (i, dd)).
  Proof.
    induction range as [|j range IH]; intros d t Hall [j0 [dj0 [Hin [E0 S0]]]]; [contradiction|].
    cbn [find_loop]. destruct (Hall j (or_introl eq_refl)) as [dj E]. rewrite E.
    destruct (obytes_eqb (spk_of dj) (Some t)) eqn:Q; [eauto|].
    destruct Hin as [->|Hin].
    - rewrite E in E0. inversion E0; subst. apply obytes_eqb_some in S0. congruence.
    - apply IH; [intros; apply Hall; right; assumption | eauto].
  Qed.

  (* no wildcard: the descriptor itself is compared and index 0 is reported *)
  Theorem find_no_wildcard : forall d t range r,
    desc_has_wildcard d = false ->
    find_derivation_index_for_spk spk_of d t range = KOk (Some r) ->
    exists dd, r = (0, dd) /\ into_definite d = KOk dd /\ spk_of dd = Some t.
  Proof.
    intros d t range r W H. unfold find_derivation_index_for_spk in H. rewrite W in H. cbn [negb] in H.
    destruct (into_definite d) as [dd|e]; [|discriminate].
    destruct (obytes_eqb (spk_of dd) (Some t)) eqn:Q; [|discriminate].
    inversion H; subst. apply obytes_eqb_some in Q. eauto.
  Qed.
  Theorem find_with_wildcard : forall d t range,
    desc_has_wildcard d = true ->
    find_derivation_index_for_spk spk_of d t range = find_loop spk_of range d t.
  Proof. intros d t range W. unfold find_derivation_index_for_spk. rewrite W. reflexivity. Qed.
End Find.
