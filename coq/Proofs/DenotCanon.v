(* The specification's table IS the canonical part of the relation:
     every table entry built from genuine assets is a CANONICAL witness ([Rcan]),
   the converse being DenotTable.Rcan_in_table (a canonical witness is an entry of the table of
   the assets it exhibits).  Induction over the typing rules; the side conditions of the relation
   on the values left (u: exactly [1]; dissatisfied: exactly []; numeric operands) are obtained
   semantically: Theorem A says what the entry leaves, Theorem A' says the relation's value is what
   the execution leaves. *)
From Verif Require Import Exec Ser Ast Types TypeCheck SatSpec ExecLemmas Spec TypesSpec ScriptNumProofs TheoremA.
From Verif Require Import FrameBase FrameSound FrameDissat SignedLemmas DenotSpec DenotLemmas DenotComplete DenotSound DenotMain DenotTable.
From Coq Require Import Lia.

Section Canon.
  Variable e : env.
  Variable ke : keyenv.
  Variable A : assets.
  Hypothesis HA : assets_ok e ke A.
  Hypothesis Hse : forall kbs, e_sigok e kbs [] = false.
  Notation RC := (Rg e ke true).
  Notation sat m := (all_sat ke A m).
  Notation dsat m := (all_dsat ke A m).

  Definition dn_tb (m : ms) (s : bool) : list wit := if s then sat m else dsat m.
  Definition cs (m : ms) : Prop := forall s w, In w (dn_tb m s) -> exists v, RC m s w v.
  Definition cst (m : ms) : Prop := forall t, type_of m = ROk t -> wf e ke m -> no_multi m -> cs m.

  (* ---------- the value a canonical witness of a table entry leaves ---------- *)
  Lemma tv_B x t s w v : type_of x = ROk t -> wf e ke x -> no_multi x -> c_base (t_corr t) = BB ->
    In w (dn_tb x s) -> RC x s w v -> if s then goodval (c_unit (t_corr t)) v else v = [].
  Proof.
    intros Ht Hwf Hnm Hb Hin HR. destruct (theoremA_closed e ke A HA Hse x t Ht Hwf Hnm) as [Hg _].
    unfold good in Hg. rewrite Hb in Hg. destruct Hg as [Hs Hd].
    pose proof (theoremA' e ke x t Ht Hwf s w v (Rcan_R e ke x s w v HR)) as Hx. rewrite Hb in Hx. destruct Hx as [_ Hx].
    destruct s; cbn [dn_tb] in Hin.
    - destruct (Hs w [] [] Hin) as [v' [Hr Hv]]. rewrite Hx in Hr. inversion Hr; subst. exact Hv.
    - pose proof (Hd w [] [] Hin) as Hr. rewrite Hx in Hr. inversion Hr. reflexivity.
  Qed.
  Lemma tv_W x t s w v : type_of x = ROk t -> wf e ke x -> no_multi x -> c_base (t_corr t) = BW ->
    In w (dn_tb x s) -> RC x s w v -> if s then goodval (c_unit (t_corr t)) v else v = [].
  Proof.
    intros Ht Hwf Hnm Hb Hin HR. destruct (theoremA_closed e ke A HA Hse x t Ht Hwf Hnm) as [Hg _].
    unfold good in Hg. rewrite Hb in Hg. destruct Hg as [Hs Hd].
    pose proof (theoremA' e ke x t Ht Hwf s w v (Rcan_R e ke x s w v HR)) as Hx. rewrite Hb in Hx.
    destruct Hx as [_ [above Hx]]. specialize (Hx [] [] []).
    destruct s; cbn [dn_tb] in Hin.
    - destruct (Hs w [] [] [] Hin) as [v' [Hr Hv]]. rewrite Hx in Hr.
      assert (v = v') as -> by (destruct above, Hr as [Hr|Hr]; inversion Hr; subst; reflexivity). exact Hv.
    - pose proof (Hd w [] [] [] Hin) as Hr. rewrite Hx in Hr.
      destruct above, Hr as [Hr|Hr]; inversion Hr; subst; reflexivity.
  Qed.
  Lemma tv_V x t w v : type_of x = ROk t -> wf e ke x -> c_base (t_corr t) = BV -> RC x true w v -> v = [].
  Proof.
    intros Ht Hwf Hb HR. pose proof (theoremA' e ke x t Ht Hwf true w v (Rcan_R e ke x true w v HR)) as Hx.
    rewrite Hb in Hx. tauto.
  Qed.
  Lemma tshape x t : type_of x = ROk t -> wf e ke x -> no_multi x -> shape ke A x t.
  Proof. intros Ht Hwf Hnm. apply (theoremA_closed e ke A HA Hse x t Ht Hwf Hnm). Qed.

  Lemma goodval_num4 u v : goodval u v -> num4 v.
  Proof. intros [_ [H _]]. exact H. Qed.
  Lemma goodval_unit v : goodval true v -> v = [1%N].
  Proof. intros [_ [_ H]]. exact (H eq_refl). Qed.
  Lemma num4_nil : num4 [].
  Proof. exists 0%Z. apply num_operand_empty. Qed.

  Ltac unf H := unfold t_cast_alt, t_cast_swap, t_cast_check, t_cast_dupif, t_cast_verify, t_cast_nonzero,
    t_cast_zeronotequal, t_and_v, t_and_b, t_or_b, t_or_c, t_or_d, t_or_i, t_and_or, lift1, lift2,
    c_cast_alt, c_cast_swap, c_cast_check, c_cast_dupif, c_cast_verify, c_cast_nonzero, c_cast_zeronotequal,
    c_and_v, c_and_b, c_or_b, c_or_c, c_or_d, c_or_i, c_and_or in H; cbn [t_corr t_mall c_base c_input c_dissat c_unit] in H.

  Ltac one_child IH Ht Hwf Hnm tx Hx Hg :=
    cbn [type_of] in Ht; apply rbind_ok in Ht; destruct Ht as [tx [Hx Ht]];
    cbn [wf no_multi] in Hwf, Hnm; pose proof (IH tx Hx Hwf Hnm) as Hg.

  (* ---------- leaves ---------- *)
  Lemma k_true : cs MTrue.
  Proof. intros [] w Hin; cbn in Hin; [|contradiction]. destruct Hin as [<-|[]]. exists [1%N]. cbn. auto. Qed.
  Lemma k_false : cs MFalse.
  Proof. intros [] w Hin; cbn in Hin; [contradiction|]. destruct Hin as [<-|[]]. exists []. cbn. auto. Qed.
  Lemma sig_nonempty k sg : a_sig A k = Some sg -> sg <> [] /\ e_sigok e (kb ke k) sg = true.
  Proof. intros H. destruct (ok_sig e ke A HA k sg H) as [H1 H2]. split; [intros ->; cbn in H2; lia | exact H1]. Qed.
  Lemma k_pk_k k : cs (MPkK k).
  Proof.
    intros [] w Hin; cbn [dn_tb all_sat all_dsat sd fst snd] in Hin.
    - unfold opt_list in Hin. destruct (a_sig A k) as [sg|] eqn:Es; cbn in Hin; [|contradiction]. destruct Hin as [<-|[]].
      exists (kb ke k). cbn [Rg]. exists sg. split; [reflexivity|]. split; [reflexivity|]. split; [apply (ok_key e ke A HA)|].
      apply sig_nonempty, Es.
    - destruct Hin as [<-|[]]. exists (kb ke k). cbn [Rg]. exists []. split; [reflexivity|]. split; [reflexivity|].
      split; [apply (ok_key e ke A HA) | reflexivity].
  Qed.
  Lemma k_pk_h k : cs (MPkH k).
  Proof.
    intros [] w Hin; cbn [dn_tb all_sat all_dsat sd fst snd] in Hin.
    - unfold opt_list in Hin. destruct (a_sig A k) as [sg|] eqn:Es; cbn in Hin; [|contradiction]. destruct Hin as [<-|[]].
      exists (kb ke k). cbn [Rg]. exists sg. split; [reflexivity|]. split; [apply (ok_kh e ke A HA)|]. split; [|reflexivity].
      split; [apply (ok_key e ke A HA) | apply sig_nonempty, Es].
    - destruct Hin as [<-|[]]. exists (kb ke k). cbn [Rg]. exists []. split; [reflexivity|]. split; [apply (ok_kh e ke A HA)|].
      split; [|reflexivity]. split; [apply (ok_key e ke A HA) | reflexivity].
  Qed.
  Lemma k_after t : cs (MAfter t).
  Proof.
    intros [] w Hin; cbn [dn_tb all_sat all_dsat sd fst snd] in Hin; [|contradiction].
    destruct (a_after A t) eqn:Ea; [|contradiction]. destruct Hin as [<-|[]].
    exists (num_encode (Z.of_N t)). cbn [Rg]. repeat split. apply (ok_after e ke A HA), Ea.
  Qed.
  Lemma k_older t : cs (MOlder t).
  Proof.
    intros [] w Hin; cbn [dn_tb all_sat all_dsat sd fst snd] in Hin; [|contradiction].
    destruct (a_older A t) eqn:Ea; [|contradiction]. destruct Hin as [<-|[]].
    exists (num_encode (Z.of_N t)). cbn [Rg]. repeat split. apply (ok_older e ke A HA), Ea.
  Qed.
  Lemma k_hash hf look h (s : bool) w :
    (forall p, look h = Some p -> hf p = h /\ blen p = 32%N) -> hf zeros32 <> h ->
    In w (if s then fst (hash_sd look h) else snd (hash_sd look h)) -> exists v, Rhash true hf h s w v.
  Proof.
    intros Hl Hz Hin. unfold hash_sd in Hin. destruct s; cbn [fst snd] in Hin.
    - unfold opt_list in Hin. destruct (look h) as [p|] eqn:El; cbn in Hin; [|contradiction]. destruct Hin as [<-|[]].
      destruct (Hl p eq_refl) as [H1 H2]. exists [1%N], p. repeat split; auto. intros _ Hs. discriminate.
    - destruct Hin as [<-|[]]. exists [], zeros32. repeat split; auto.
  Qed.

  (* ---------- wrappers ---------- *)
  Lemma k_same x y : (forall s, dn_tb y s = dn_tb x s) -> (forall s w v, RC x s w v -> exists v', RC y s w v') -> cs x -> cs y.
  Proof. intros Ht Hr IH s w Hin. rewrite Ht in Hin. destruct (IH s w Hin) as [v Hv]. eauto. Qed.

  Lemma k_alt x : cst x -> cst (MAlt x).
  Proof.
    intros IH t Ht Hwf Hnm. one_child IH Ht Hwf Hnm tx Hx Hg.
    apply (k_same x); [intros []; reflexivity | | exact Hg]. intros s w v H. exists v. exact H.
  Qed.
  Lemma k_swap x : cst x -> cst (MSwap x).
  Proof.
    intros IH t Ht Hwf Hnm. one_child IH Ht Hwf Hnm tx Hx Hg.
    apply (k_same x); [intros []; reflexivity | | exact Hg]. intros s w v H. exists v. exact H.
  Qed.
  Lemma k_check x : cst x -> cst (MCheck x).
  Proof.
    intros IH t Ht Hwf Hnm. one_child IH Ht Hwf Hnm tx Hx Hg.
    apply (k_same x); [intros []; reflexivity | | exact Hg]. intros s w v H. exists (bool_bytes s). cbn [Rg]. eauto.
  Qed.
  Lemma k_zne x : cst x -> cst (MZeroNotEqual x).
  Proof.
    intros IH t Ht Hwf Hnm. one_child IH Ht Hwf Hnm tx Hx Hg.
    destruct tx as [[bx ix dx ux] mx] eqn:Etx. unf Ht. destruct bx; try discriminate. subst tx.
    intros s w Hin. change (dn_tb (MZeroNotEqual x) s) with (dn_tb x s) in Hin. destruct (Hg s w Hin) as [v Hv].
    exists (bool_bytes s). cbn [Rg]. split; [reflexivity|]. exists v. split; [exact Hv|].
    pose proof (tv_B x _ s w v Hx Hwf Hnm eq_refl Hin Hv) as Hval. destruct s; [eapply goodval_num4; exact Hval | subst v; apply num4_nil].
  Qed.
  Lemma k_verify x : cst x -> cst (MVerify x).
  Proof.
    intros IH t Ht Hwf Hnm. one_child IH Ht Hwf Hnm tx Hx Hg.
    intros [] w Hin; cbn [dn_tb all_sat all_dsat sd fst snd] in Hin; [|contradiction].
    destruct (Hg true w Hin) as [v Hv]. exists []. cbn [Rg]. eauto.
  Qed.
  Lemma k_dupif x : cst x -> cst (MDupIf x).
  Proof.
    intros IH t Ht Hwf Hnm. one_child IH Ht Hwf Hnm tx Hx Hg.
    pose proof (tshape x tx Hx Hwf Hnm) as [Hsh _].
    destruct tx as [[bx ix dx ux] mx] eqn:Etx. unf Ht. destruct bx; try discriminate; destruct ix; try discriminate. subst tx.
    cbn [t_corr c_input] in Hsh.
    intros [] w Hin; cbn [dn_tb all_sat all_dsat sd fst snd] in Hin.
    - apply in_map_iff in Hin. destruct Hin as [wx [<- Hwx]]. pose proof (Hsh wx Hwx) as Hz. cbn in Hz. subst wx.
      destruct (Hg true [] Hwx) as [v0 Hv0]. pose proof (tv_V x _ [] v0 Hx Hwf eq_refl Hv0) as ->.
      exists [1%N]. cbn [Rg]. split; [reflexivity|]. split; [apply if_cond_one|]. split; [intros _; exact Hv0 | reflexivity].
    - destruct Hin as [<-|[]]. exists []. cbn [Rg]. split; [reflexivity|]. split; [apply if_cond_empty|].
      split; [discriminate | reflexivity].
  Qed.
  Lemma k_nonzero x : cst x -> cst (MNonZero x).
  Proof.
    intros IH t Ht Hwf Hnm. one_child IH Ht Hwf Hnm tx Hx Hg.
    pose proof (tshape x tx Hx Hwf Hnm) as [Hsh _].
    destruct tx as [[bx ix dx ux] mx] eqn:Etx. unf Ht. subst tx. cbn [t_corr c_input] in Hsh.
    intros [] w Hin; cbn [dn_tb all_sat all_dsat sd fst snd] in Hin.
    - destruct (Hg true w Hin) as [v Hv]. exists v. cbn [Rg]. right.
      assert (Hn : top_nz w).
      { pose proof (Hsh w Hin) as Hw. destruct ix; cbn in Ht; try discriminate; cbn in Hw; [apply Hw | apply Hw]; reflexivity. }
      destruct w as [|a r]; [contradiction|]. cbn in Hn. unfold nz in Hn. exists a, r.
      split; [reflexivity|]. split; [intros ->; cbn in Hn; lia|]. split; [unfold size_ok; lia|]. split; [exact Hv | reflexivity].
    - destruct Hin as [<-|[]]. exists []. cbn [Rg]. left. auto.
  Qed.

  (* ---------- binary ---------- *)
  Ltac two_children IHx IHy Ht Hwf Hnm tx ty Hgx Hgy :=
    cbn [type_of] in Ht; apply rbind_ok in Ht; destruct Ht as [tx [Hx Ht]];
    apply rbind_ok in Ht; destruct Ht as [ty [Hy Ht]];
    cbn [wf no_multi] in Hwf, Hnm; destruct Hwf as [Hwx Hwy]; destruct Hnm as [Hnx Hny];
    pose proof (IHx tx Hx Hwx Hnx) as Hgx; pose proof (IHy ty Hy Hwy Hny) as Hgy.

  Lemma k_and_v x y : cst x -> cst y -> cst (MAndV x y).
  Proof.
    intros IHx IHy t Ht Hwf Hnm. two_children IHx IHy Ht Hwf Hnm t1 t2 Hgx Hgy.
    assert (Hbx : c_base (t_corr t1) = BV).
    { destruct t1 as [[bx ix dx ux] mx], t2 as [[b2 i2 d2 u2] m2]. unf Ht. destruct bx, b2; try discriminate; reflexivity. }
    intros s w Hin. assert (Hin' : In w (cross (sat x) (dn_tb y s))).
    { destruct s; cbn [dn_tb] in Hin |- *; [rewrite sat_and_v in Hin | rewrite dsat_and_v in Hin]; exact Hin. }
    apply in_cross in Hin'. destruct Hin' as [a [b [Ha [Hb ->]]]].
    destruct (Hgx true a Ha) as [vx Hvx]. pose proof (tv_V x _ a vx Hx Hwx Hbx Hvx) as ->.
    destruct (Hgy s b Hb) as [v Hv]. exists v. cbn [Rg]. exists a, b. auto.
  Qed.

  Lemma k_and_b x y : cst x -> cst y -> cst (MAndB x y).
  Proof.
    intros IHx IHy t Ht Hwf Hnm. two_children IHx IHy Ht Hwf Hnm t1 t2 Hgx Hgy.
    assert (Hb : c_base (t_corr t1) = BB /\ c_base (t_corr t2) = BW).
    { destruct t1 as [[bx ix dx ux] mx], t2 as [[b2 i2 d2 u2] m2]. unf Ht. destruct bx, b2; try discriminate; auto. }
    destruct Hb as [Hbx Hby].
    intros s w Hin. assert (Hin' : In w (cross (dn_tb x s) (dn_tb y s))).
    { unfold dn_tb, all_sat, all_dsat in Hin |- *. rewrite sd_and_b in Hin. destruct s; exact Hin. }
    apply in_cross in Hin'. destruct Hin' as [a [b [Ha [Hb ->]]]].
    destruct (Hgx s a Ha) as [vx Hvx]. destruct (Hgy s b Hb) as [vy Hvy].
    pose proof (tv_B x _ s a vx Hx Hwx Hnx Hbx Ha Hvx) as Vx. pose proof (tv_W y _ s b vy Hy Hwy Hny Hby Hb Hvy) as Vy.
    exists (bool_bytes s). cbn [Rg]. exists a, b, vx, vy, s, s. split; [reflexivity|]. split; [exact Hvx|]. split; [exact Hvy|].
    split; [destruct s; [eapply goodval_num4; exact Vx | subst vx; apply num4_nil]|].
    split; [destruct s; [eapply goodval_num4; exact Vy | subst vy; apply num4_nil]|].
    split; [destruct s; reflexivity|]. split; reflexivity.
  Qed.

  Lemma k_or_b x y : cst x -> cst y -> cst (MOrB x y).
  Proof.
    intros IHx IHy t Ht Hwf Hnm. two_children IHx IHy Ht Hwf Hnm t1 t2 Hgx Hgy.
    assert (Hb : c_base (t_corr t1) = BB /\ c_base (t_corr t2) = BW).
    { destruct t1 as [[bx ix dx ux] mx], t2 as [[b2 i2 d2 u2] m2]. unf Ht.
      destruct dx; cbn [negb] in Ht; try discriminate. destruct d2; cbn [negb] in Ht; try discriminate.
      destruct bx, b2; try discriminate; auto. }
    destruct Hb as [Hbx Hby].
    assert (Hgen : forall sx sy a b, In a (dn_tb x sx) -> In b (dn_tb y sy) -> sx && sy = false ->
              exists v, RC (MOrB x y) (sx || sy) (a ++ b) v).
    { intros sx sy a b Ha Hb Hs. destruct (Hgx sx a Ha) as [vx Hvx]. destruct (Hgy sy b Hb) as [vy Hvy].
      pose proof (tv_B x _ sx a vx Hx Hwx Hnx Hbx Ha Hvx) as Vx. pose proof (tv_W y _ sy b vy Hy Hwy Hny Hby Hb Hvy) as Vy.
      exists (bool_bytes (sx || sy)). cbn [Rg]. exists a, b, vx, vy, sx, sy. split; [reflexivity|]. split; [exact Hvx|]. split; [exact Hvy|].
      split; [destruct sx; [eapply goodval_num4; exact Vx | subst vx; apply num4_nil]|].
      split; [destruct sy; [eapply goodval_num4; exact Vy | subst vy; apply num4_nil]|]. auto. }
    intros s w Hin. unfold dn_tb, all_sat, all_dsat in Hin. rewrite sd_or_b in Hin. destruct s; cbn [fst snd] in Hin.
    - apply in_app_or in Hin. destruct Hin as [Hin|Hin]; apply in_cross in Hin; destruct Hin as [a [b [Ha [Hb ->]]]].
      + exact (Hgen false true a b Ha Hb eq_refl).
      + exact (Hgen true false a b Ha Hb eq_refl).
    - apply in_cross in Hin. destruct Hin as [a [b [Ha [Hb ->]]]]. exact (Hgen false false a b Ha Hb eq_refl).
  Qed.

  (* X of or_c / or_d / andor is Bdu: satisfied it leaves [1], dissatisfied [] *)
  Lemma du_sel x t (s : bool) a vx : type_of x = ROk t -> wf e ke x -> no_multi x ->
    c_base (t_corr t) = BB -> c_unit (t_corr t) = true -> In a (dn_tb x s) -> RC x s a vx ->
    if_cond e vx = Some s /\ vx = bool_bytes s.
  Proof.
    intros Ht Hwf Hnm Hb Hu Ha Hv. pose proof (tv_B x t s a vx Ht Hwf Hnm Hb Ha Hv) as V. rewrite Hu in V. destruct s.
    - rewrite (goodval_unit vx V). split; [apply if_cond_one | reflexivity].
    - subst vx. split; [apply if_cond_empty | reflexivity].
  Qed.

  Lemma k_or_c x y : cst x -> cst y -> cst (MOrC x y).
  Proof.
    intros IHx IHy t Ht Hwf Hnm. two_children IHx IHy Ht Hwf Hnm t1 t2 Hgx Hgy.
    assert (Hb : c_base (t_corr t1) = BB /\ c_unit (t_corr t1) = true /\ c_base (t_corr t2) = BV).
    { destruct t1 as [[bx ix dx ux] mx], t2 as [[b2 i2 d2 u2] m2]. unf Ht.
      destruct dx; cbn [negb] in Ht; try discriminate. destruct ux; cbn [negb] in Ht; try discriminate.
      destruct bx, b2; try discriminate; auto. }
    destruct Hb as [Hbx [Hux Hby]].
    intros s w Hin. destruct s; cbn [dn_tb] in Hin.
    2:{ unfold all_dsat in Hin. cbn [sd] in Hin. destruct (sd ke A x), (sd ke A y). contradiction. }
    rewrite sat_or_c in Hin. exists []. cbn [Rg]. split; [reflexivity|]. split; [reflexivity|].
    apply in_app_or in Hin. destruct Hin as [Hin|Hin].
    - left. destruct (Hgx true w Hin) as [vx Hvx]. exists vx. split; [exact Hvx|].
      apply (du_sel x t1 true w vx Hx Hwx Hnx Hbx Hux Hin Hvx).
    - right. apply in_cross in Hin. destruct Hin as [a [b [Ha [Hb ->]]]].
      destruct (Hgx false a Ha) as [vx Hvx]. destruct (Hgy true b Hb) as [vz Hvz].
      pose proof (tv_V y _ b vz Hy Hwy Hby Hvz) as ->. exists a, b, vx. split; [reflexivity|]. split; [exact Hvx|].
      split; [apply (du_sel x t1 false a vx Hx Hwx Hnx Hbx Hux Ha Hvx) | exact Hvz].
  Qed.

  Lemma k_or_d x y : cst x -> cst y -> cst (MOrD x y).
  Proof.
    intros IHx IHy t Ht Hwf Hnm. two_children IHx IHy Ht Hwf Hnm t1 t2 Hgx Hgy.
    assert (Hb : c_base (t_corr t1) = BB /\ c_unit (t_corr t1) = true).
    { destruct t1 as [[bx ix dx ux] mx], t2 as [[b2 i2 d2 u2] m2]. unf Ht.
      destruct dx; cbn [negb] in Ht; try discriminate. destruct ux; cbn [negb] in Ht; try discriminate.
      destruct bx, b2; try discriminate; auto. }
    destruct Hb as [Hbx Hux].
    assert (Hr : forall s a b, In a (dsat x) -> In b (dn_tb y s) -> exists v, RC (MOrD x y) s (a ++ b) v).
    { intros s a b Ha Hb. destruct (Hgx false a Ha) as [vx Hvx]. destruct (Hgy s b Hb) as [v Hv]. exists v. cbn [Rg]. right.
      exists a, b, vx. split; [reflexivity|]. split; [exact Hvx|].
      split; [apply (du_sel x t1 false a vx Hx Hwx Hnx Hbx Hux Ha Hvx) | exact Hv]. }
    intros s w Hin. unfold dn_tb, all_sat, all_dsat in Hin. rewrite sd_or_d in Hin. destruct s; cbn [fst snd] in Hin.
    - apply in_app_or in Hin. destruct Hin as [Hin|Hin].
      + destruct (Hgx true w Hin) as [vx Hvx]. exists vx. cbn [Rg]. left. split; [reflexivity|]. split; [exact Hvx|].
        apply (du_sel x t1 true w vx Hx Hwx Hnx Hbx Hux Hin Hvx).
      + apply in_cross in Hin. destruct Hin as [a [b [Ha [Hb ->]]]]. exact (Hr true a b Ha Hb).
    - apply in_cross in Hin. destruct Hin as [a [b [Ha [Hb ->]]]]. exact (Hr false a b Ha Hb).
  Qed.

  Lemma k_or_i x y : cst x -> cst y -> cst (MOrI x y).
  Proof.
    intros IHx IHy t Ht Hwf Hnm. two_children IHx IHy Ht Hwf Hnm t1 t2 Hgx Hgy.
    intros s w Hin. assert (Hin' : In w (map (cons [1%N]) (dn_tb x s) ++ map (cons []) (dn_tb y s))).
    { unfold dn_tb, all_sat, all_dsat in Hin |- *. rewrite sd_or_i in Hin. destruct s; exact Hin. }
    apply in_app_or in Hin'. destruct Hin' as [H|H]; apply in_map_iff in H; destruct H as [w' [<- Hw']].
    - destruct (Hgx s w' Hw') as [v Hv]. exists v. cbn [Rg]. exists [1%N], w', true.
      split; [reflexivity|]. split; [apply if_cond_one|]. split; [exact Hv | reflexivity].
    - destruct (Hgy s w' Hw') as [v Hv]. exists v. cbn [Rg]. exists [], w', false.
      split; [reflexivity|]. split; [apply if_cond_empty|]. split; [exact Hv | reflexivity].
  Qed.

  Lemma k_andor a b c : cst a -> cst b -> cst c -> cst (MAndOr a b c).
  Proof.
    intros IHa IHb IHc t Ht Hwf Hnm.
    cbn [type_of] in Ht. apply rbind_ok in Ht. destruct Ht as [ta [Ha Ht]].
    apply rbind_ok in Ht. destruct Ht as [tb' [Hb Ht]]. apply rbind_ok in Ht. destruct Ht as [tc [Hc Ht]].
    cbn [wf no_multi] in Hwf, Hnm. destruct Hwf as [Hwa [Hwb Hwc]]. destruct Hnm as [Hna [Hnb Hnc]].
    pose proof (IHa ta Ha Hwa Hna) as Hga. pose proof (IHb tb' Hb Hwb Hnb) as Hgb. pose proof (IHc tc Hc Hwc Hnc) as Hgc.
    assert (Hba : c_base (t_corr ta) = BB /\ c_unit (t_corr ta) = true).
    { destruct ta as [[ba ia da ua] ma], tb' as [[bb ib db ub] mb], tc as [[bc ic dc uc] mc]. unf Ht.
      destruct da; cbn [negb] in Ht; try discriminate. destruct ua; cbn [negb] in Ht; try discriminate.
      destruct ba, bb, bc; try discriminate; auto. }
    destruct Hba as [Hba Hua].
    assert (Hl : forall wa wb, In wa (sat a) -> In wb (sat b) -> exists v, RC (MAndOr a b c) true (wa ++ wb) v).
    { intros wa wb H1 H2. destruct (Hga true wa H1) as [va Hva]. destruct (Hgb true wb H2) as [v Hv]. exists v. cbn [Rg].
      exists wa, wb, va. split; [reflexivity|]. left. split; [exact Hva|].
      split; [apply (du_sel a ta true wa va Ha Hwa Hna Hba Hua H1 Hva)|]. split; [exact Hv | reflexivity]. }
    assert (Hr : forall s wa wc, In wa (dsat a) -> In wc (dn_tb c s) -> exists v, RC (MAndOr a b c) s (wa ++ wc) v).
    { intros s wa wc H1 H2. destruct (Hga false wa H1) as [va Hva]. destruct (Hgc s wc H2) as [v Hv]. exists v. cbn [Rg].
      exists wa, wc, va. split; [reflexivity|]. right. split; [exact Hva|].
      split; [apply (du_sel a ta false wa va Ha Hwa Hna Hba Hua H1 Hva) | exact Hv]. }
    intros s w Hin. unfold dn_tb, all_sat, all_dsat in Hin. rewrite sd_andor in Hin. destruct s; cbn [fst snd] in Hin.
    - apply in_app_or in Hin. destruct Hin as [Hin|Hin]; apply in_cross in Hin; destruct Hin as [wa [wx [H1 [H2 ->]]]].
      + exact (Hl wa wx H1 H2).
      + exact (Hr true wa wx H1 H2).
    - apply in_cross in Hin. destruct Hin as [wa [wx [H1 [H2 ->]]]]. exact (Hr false wa wx H1 H2).
  Qed.

  (* ---------- thresh ---------- *)
  Definition child_can (x : ms) : Prop :=
    (forall w, In w (sat x) -> RC x true w [1%N]) /\ (forall w, In w (dsat x) -> RC x false w []).

  Lemma k_thr xs : Forall child_can xs ->
    forall j w, In w (thresh_comb j (map (sd ke A) xs)) -> Rthr (fun x => RC x) xs w j.
  Proof.
    induction 1 as [|x r [Hs Hd] _ IH]; intros j w Hin.
    - cbn in Hin. destruct j; [|contradiction]. destruct Hin as [<-|[]]. split; reflexivity.
    - cbn [map thresh_comb] in Hin. destruct (sd ke A x) as [sx dx] eqn:Ex.
      unfold all_sat, all_dsat in Hs, Hd. rewrite Ex in Hs, Hd. cbn [fst snd] in Hs, Hd.
      apply Rthr_cons. apply in_app_or in Hin. destruct Hin as [Hin|Hin].
      + destruct j as [|j']; [contradiction|]. apply in_cross in Hin. destruct Hin as [a [b [Ha [Hb ->]]]].
        exists a, b. split; [reflexivity|]. left. exists j'. auto.
      + apply in_cross in Hin. destruct Hin as [a [b [Ha [Hb ->]]]].
        exists a, b. split; [reflexivity|]. right. auto.
  Qed.

  Lemma k_thresh k xs : Forall cst xs -> cst (MThresh k xs).
  Proof.
    intros IH t Ht Hwf Hnm. cbn [type_of] in Ht. fold (tys_of xs) in Ht.
    apply rbind_ok in Ht. destruct Ht as [ts [Hts Ht]]. apply tys_of_ok in Hts.
    cbn [wf no_multi] in Hwf, Hnm. destruct Hwf as [Hk [Hn Hwf]].
    assert (Hall : Forall2 (fun x t => type_of x = ROk t /\ wf e ke x /\ no_multi x /\ cs x) xs ts).
    { clear Ht Hk Hn. revert ts Hts Hwf Hnm. induction IH as [|x r Hx Hr IHr]; intros ts Hts Hwf Hnm.
      - inversion Hts. constructor.
      - inversion Hts as [|x' t' r' ts' Hxt Hrt]; subst. destruct Hwf as [Hw1 Hw2]. destruct Hnm as [Hn1 Hn2].
        constructor; [|apply IHr; assumption].
        split; [exact Hxt|]. split; [exact Hw1|]. split; [exact Hn1 | exact (Hx _ Hxt Hw1 Hn1)]. }
    unfold t_threshold in Ht. destruct (c_threshold k (map t_corr ts)) as [c|] eqn:Ec; [|discriminate].
    inversion Ht; subst; clear Ht.
    assert (Hok : forallb (fun c => match c_base c with BB | BW => true | _ => false end && c_unit c) (map t_corr ts) = true).
    { destruct ts as [|t0 ts0]; [reflexivity|]. unfold c_threshold in Ec. cbn [map] in Ec.
      destruct (loop_first (t_corr t0) (map t_corr ts0)) as [Lt Lf].
      destruct (child_ok true (t_corr t0) && forallb (child_ok false) (map t_corr ts0)) eqn:Eok.
      2:{ destruct (Lf eq_refl) as [err He]. rewrite He in Ec. discriminate. }
      apply andb_prop in Eok. destruct Eok as [Ok0 Okr]. cbn [map forallb]. apply andb_true_intro. split.
      - unfold child_ok in Ok0. destruct (t_corr t0) as [b0 i0 d0 u0]. cbn [c_base c_unit c_dissat] in *.
        destruct b0, u0, d0; try discriminate; reflexivity.
      - clear -Okr. induction (map t_corr ts0) as [|c r IHr]; [reflexivity|]. cbn [forallb] in *.
        apply andb_prop in Okr. destruct Okr as [O1 O2]. rewrite (IHr O2), Bool.andb_true_r.
        unfold child_ok in O1. destruct c as [b i d u]. cbn [c_base c_unit c_dissat] in *.
        destruct b, u, d; try discriminate; reflexivity. }
    assert (HC : Forall child_can xs).
    { clear -Hall Hok HA Hse. induction Hall as [|x t r ts [Hx [Hwx [Hnx Hg]]] Hr IHr]; [constructor|].
      cbn [map forallb] in Hok. apply andb_prop in Hok. destruct Hok as [O1 O2]. constructor; [|apply IHr, O2].
      apply andb_prop in O1. destruct O1 as [Ob Ou].
      split; intros w Hin.
      - destruct (Hg true w Hin) as [v Hv].
        assert (V : goodval (c_unit (t_corr t)) v).
        { destruct (c_base (t_corr t)) eqn:Eb; try discriminate.
          - exact (tv_B x t true w v Hx Hwx Hnx Eb Hin Hv).
          - exact (tv_W x t true w v Hx Hwx Hnx Eb Hin Hv). }
        rewrite Ou in V. rewrite <- (goodval_unit v V). exact Hv.
      - destruct (Hg false w Hin) as [v Hv].
        assert (V : v = []).
        { destruct (c_base (t_corr t)) eqn:Eb; try discriminate.
          - exact (tv_B x t false w v Hx Hwx Hnx Eb Hin Hv).
          - exact (tv_W x t false w v Hx Hwx Hnx Eb Hin Hv). }
        subst v. exact Hv. }
    intros s w Hin. unfold dn_tb, all_sat, all_dsat in Hin. rewrite sd_thresh in Hin. exists (bool_bytes s). cbn [Rg].
    split; [reflexivity|]. destruct s; cbn [fst snd] in Hin.
    - exists (N.to_nat k). split; [apply (k_thr xs HC), Hin|]. rewrite N2Nat.id, N.eqb_refl. split; [reflexivity | discriminate].
    - exists 0%nat. split; [apply (k_thr xs HC), Hin|]. split; [|reflexivity].
      symmetry. apply N.eqb_neq. cbn. lia.
  Qed.

  (* ---------- multi / multi_a ---------- *)
  Lemma mm_nil_sigs K n : (1 <= n)%nat -> multisig_match e K (repeat [] n) = false.
  Proof. intros Hn. destruct n; [lia|]. cbn [repeat]. apply mm_empty_sig. exact Hse. Qed.

  Lemma k_cms k ks' : (1 <= k)%N -> forall (s : bool) w,
    In w (if s then map (fun sigs => rev sigs ++ [[]]) (pick_sigs A (N.to_nat k) ks') else [repeat [] (S (N.to_nat k))]) ->
    exists v, Rcms e k (map (kb ke) ks') s w v.
  Proof.
    intros Hk s w Hin. exists (bool_bytes s). split; [reflexivity|].
    assert (Hkeys : forall key, In key (map (kb ke) ks') -> e_keyok e key = true).
    { intros key Hk'. apply in_map_iff in Hk'. destruct Hk' as [k0 [<- _]]. apply (ok_key e ke A HA). }
    destruct s.
    - apply in_map_iff in Hin. destruct Hin as [sigs [<- Hsg]].
      destruct (pick_sigs_sub e ke A (fun v z => num_truthy_iff 4 v z) HA Hse ks' _ _ Hsg) as [Hsub [Hl _]].
      exists (rev sigs). split; [reflexivity|]. split; [rewrite rev_length; exact Hl|]. split; [exact Hkeys|].
      apply mm_sub; [intros v z; apply num_truthy_iff | exact Hse | apply SubV_rev, Hsub].
    - destruct Hin as [<-|[]]. exists (repeat [] (N.to_nat k)). split; [symmetry; apply repeat_snoc|].
      split; [apply repeat_length|]. split; [exact Hkeys|]. split; [apply mm_nil_sigs; lia | reflexivity].
  Qed.

  Lemma k_csa ks : forall j w, In w (pick_sigs_a A j ks) -> Rcsa e ke ks w j.
  Proof.
    induction ks as [|key r IH]; intros j w Hin; cbn [pick_sigs_a] in Hin.
    - destruct j; [|contradiction]. destruct Hin as [<-|[]]. split; reflexivity.
    - cbn [Rcsa]. apply in_app_or in Hin. destruct Hin as [Hin|Hin].
      + destruct j as [|j']; [contradiction|]. destruct (a_sig A key) as [sg|] eqn:Es; [|contradiction].
        apply in_map_iff in Hin. destruct Hin as [w' [<- Hw']]. exists sg, w'. split; [reflexivity|].
        split; [apply (ok_key e ke A HA)|]. right. destruct (sig_nonempty key sg Es) as [H1 H2]. split; [exact H1|]. split; [exact H2|].
        exists j'. split; [reflexivity | apply IH, Hw'].
      + apply in_map_iff in Hin. destruct Hin as [w' [<- Hw']]. exists [], w'. split; [reflexivity|].
        split; [apply (ok_key e ke A HA)|]. left. split; [reflexivity | apply IH, Hw'].
  Qed.
  Lemma pick0 ks : In (repeat [] (length ks)) (pick_sigs_a A 0 ks).
  Proof.
    induction ks as [|key r IH]; [left; reflexivity|]. cbn [pick_sigs_a length repeat].
    apply in_or_app. right. apply in_map. exact IH.
  Qed.
  Lemma k_multi_a k ks' n : (1 <= k)%N -> n = length ks' -> forall (s : bool) w,
    In w (if s then pick_sigs_a A (N.to_nat k) ks' else [repeat [] n]) ->
    exists v, v = bool_bytes s /\ exists j, Rcsa e ke ks' w j /\ s = N.eqb (N.of_nat j) k /\ (true = true -> s = false -> j = 0%nat).
  Proof.
    intros Hk -> s w Hin. exists (bool_bytes s). split; [reflexivity|]. destruct s.
    - exists (N.to_nat k). split; [apply k_csa, Hin|]. rewrite N2Nat.id, N.eqb_refl. split; [reflexivity | discriminate].
    - destruct Hin as [<-|[]]. exists 0%nat. split; [apply k_csa, pick0|]. split; [|reflexivity].
      symmetry. apply N.eqb_neq. cbn. lia.
  Qed.

  Theorem table_canonical_inv : forall m, cst m.
  Proof.
    induction m using ms_ind'; try (intros t Ht Hwf Hnm; cbn in Hnm; contradiction).
    - intros t _ _ _. exact k_true.
    - intros t _ _ _. exact k_false.
    - intros t _ _ _. exact (k_pk_k k).
    - intros t _ _ _. exact (k_pk_h k).
    - intros t0 _ _ _. exact (k_after t).
    - intros t0 _ _ _. exact (k_older t).
    - intros t _ Hwf _ s w Hin. cbn [Rg]. apply (k_hash (e_sha256 e) (a_sha256 A) h s w (ok_sha256 e ke A HA h) Hwf). destruct s; exact Hin.
    - intros t _ Hwf _ s w Hin. cbn [Rg]. apply (k_hash (e_hash256 e) (a_hash256 A) h s w (ok_hash256 e ke A HA h) Hwf). destruct s; exact Hin.
    - intros t _ Hwf _ s w Hin. cbn [Rg]. apply (k_hash (e_ripemd160 e) (a_ripemd160 A) h s w (ok_ripemd160 e ke A HA h) Hwf). destruct s; exact Hin.
    - intros t _ Hwf _ s w Hin. cbn [Rg]. apply (k_hash (e_hash160 e) (a_hash160 A) h s w (ok_hash160 e ke A HA h) Hwf). destruct s; exact Hin.
    - apply k_alt; assumption.
    - apply k_swap; assumption.
    - apply k_check; assumption.
    - apply k_dupif; assumption.
    - apply k_verify; assumption.
    - apply k_nonzero; assumption.
    - apply k_zne; assumption.
    - apply k_and_v; assumption.
    - apply k_and_b; assumption.
    - apply k_andor; assumption.
    - apply k_or_b; assumption.
    - apply k_or_d; assumption.
    - apply k_or_c; assumption.
    - apply k_or_i; assumption.
    - apply k_thresh; assumption.
    - (* multi *) intros t _ Hwf _ s w Hin. cbn [wf] in Hwf. destruct Hwf as [[Hk _] _]. cbn [Rg].
      apply (k_cms k ks Hk s w). destruct s; exact Hin.
    - intros t _ Hwf _ s w Hin. cbn [wf] in Hwf. destruct Hwf as [[Hk _] _]. cbn [Rg].
      apply (k_cms k (ksort ke ks) Hk s w). destruct s; exact Hin.
    - (* multi_a *) intros t _ Hwf _ s w Hin. cbn [wf] in Hwf. destruct Hwf as [[Hk _] _]. cbn [Rg].
      apply (k_multi_a k ks (length ks) Hk eq_refl s w). destruct s; exact Hin.
    - intros t _ Hwf _ s w Hin. cbn [wf] in Hwf. destruct Hwf as [[Hk _] [_ [_ Hlen]]]. cbn [Rg].
      apply (k_multi_a k (ksort ke ks) (length ks) Hk (eq_sym Hlen) s w). destruct s; exact Hin.
  Qed.
End Canon.

(* every table entry built from genuine assets is a canonical witness *)
Theorem table_is_canonical (e : env) (ke : keyenv) (A : assets) :
  assets_ok e ke A -> (forall kbs, e_sigok e kbs [] = false) ->
  forall (m : ms) (t : ty), type_of m = ROk t -> wf e ke m -> no_multi m ->
    (forall w, In w (all_sat ke A m) -> Rsat_can e ke m w) /\
    (forall w, In w (all_dsat ke A m) -> Rdsat_can e ke m w).
Proof.
  intros HA Hse m t Ht Hwf Hnm. pose proof (table_canonical_inv e ke A HA Hse m t Ht Hwf Hnm) as H.
  split; intros w Hin; [exact (H true w Hin) | exact (H false w Hin)].
Qed.
