(* C12: what the entry points guarantee (accepted_ok, desc_implies_ms) and the range rules
   of the primitive constructors. *)
From Coq Require Import List Bool NArith Lia.
Import ListNotations.
From Verif Require Import ValidateModel ValidateSpec ValidateProofs ValidateAccept ValidateSwitch ValidateExact.
Local Open Scope N_scope.

(* ------------------------------------------------------------------ primitives *)
Theorem threshold_range M k n :
  threshold_new M k n = true <-> 1 <= k /\ k <= n /\ (M = 0 \/ n <= M).
Proof.
  unfold threshold_new. rewrite negb_true_iff.
  destruct (N.eqb_spec k 0), (N.ltb_spec n k), (N.ltb_spec 0 M), (N.ltb_spec M n); simpl;
    split; intros; try discriminate; try lia; auto.
Qed.

Theorem threshold_from_iter_sound M k h n :
  threshold_from_iter M k h n = true -> 1 <= k /\ k <= n /\ (M = 0 \/ n <= M).
Proof.
  unfold threshold_from_iter. destruct ((0 <? M) && (M <? N.max k h)); [discriminate|].
  apply threshold_range.
Qed.

(* with an honest lower bound (hint <= number of items) from_iter decides exactly the range *)
Theorem threshold_from_iter_exact M k h n : h <= n ->
  (threshold_from_iter M k h n = true <-> 1 <= k /\ k <= n /\ (M = 0 \/ n <= M)).
Proof.
  intros Hh. split; [apply threshold_from_iter_sound|]. intros R.
  unfold threshold_from_iter.
  destruct (N.ltb_spec 0 M), (N.ltb_spec M (N.max k h)); simpl; try (apply threshold_range; exact R).
  exfalso. lia.
Qed.

Theorem abs_lock_range n : abs_lock_from_consensus n = true <-> 1 <= n /\ n <= 2147483647.
Proof.
  unfold abs_lock_from_consensus, MIN_ABSOLUTE_LOCKTIME, MAX_ABSOLUTE_LOCKTIME.
  rewrite andb_true_iff, !N.leb_le. tauto.
Qed.

Lemma bit31_iff n : n < 2 ^ 32 -> (N.testbit n 31 = false <-> n < 2 ^ 31).
Proof.
  intros Hn. pose proof (N.testbit_spec' n 31) as S.
  assert (Q : n / 2 ^ 31 < 2).
  { apply N.div_lt_upper_bound; [discriminate|]. change (2 ^ 31 * 2) with (2 ^ 32). exact Hn. }
  rewrite (N.mod_small _ _ Q) in S. split.
  - intros E. rewrite E in S. simpl in S. symmetry in S.
    apply N.div_small_iff in S; [exact S|discriminate].
  - intros L. rewrite (N.div_small _ _ L) in S. destruct (N.testbit n 31); [discriminate|reflexivity].
Qed.

Lemma land_pow2_zero n k : N.land n (2 ^ k) = 0 <-> N.testbit n k = false.
Proof.
  split.
  - intros E. pose proof (N.land_spec n (2 ^ k) k) as S. rewrite E, N.pow2_bits_true in S.
    rewrite N.bits_0 in S. rewrite andb_true_r in S. auto.
  - intros E. apply N.bits_inj. intros m. rewrite N.land_spec, N.bits_0, N.pow2_bits_eqb.
    destruct (N.eqb_spec k m) as [<-|]; [rewrite E|]; auto using andb_false_r.
Qed.

Theorem rel_lock_range n : n < 4294967296 ->
  (rel_lock_from_consensus n = true <-> 1 <= n /\ n < 2147483648).
Proof.
  intros Hn. unfold rel_lock_from_consensus.
  change 2147483648 with (2 ^ 31). change 4294967296 with (2 ^ 32) in Hn.
  rewrite andb_true_iff, negb_true_iff, N.eqb_eq, N.eqb_neq, land_pow2_zero, (bit31_iff n Hn). lia.
Qed.

(* ------------------------------------------------------------------ the tree stage *)
Lemma check_pk_legal c k : check_pk c k = COk <-> key_legal c k.
Proof.
  unfold check_pk, key_legal. destruct c, (k_uncompressed k), (k_xonly k); simpl;
    intuition (try discriminate; try congruence).
Qed.

Lemma check_pks_legal c ks : check_pks c ks = COk -> forall k, In k ks -> key_legal c k.
Proof.
  induction ks as [|k0 r IH]; simpl; [tauto|].
  destruct (check_pk c k0) eqn:E; [|discriminate]. intros H k [<-|I]; auto.
  apply check_pk_legal; exact E.
Qed.

Definition cost_limit (c : ctx) : N :=
  match c with CLegacy => 520 | CSegwitv0 => 3600 | CBare => 10000 | CTap => 4000000 end.

Lemma check_global_validity_ok c n : check_global_validity c n = COk ->
  flavour_legal c (n_kind n) /\
  (key_checked_kind (n_kind n) = true -> forall k, In k (n_keys n) -> key_legal c k) /\
  n_pk_cost n <= cost_limit c.
Proof.
  unfold check_global_validity, check_global_consensus, check_global_policy, global_size_limit,
    cost_limit, MAX_SCRIPT_ELEMENT_SIZE, MAX_SCRIPT_SIZE, MAX_BLOCK_WEIGHT, MAX_STANDARD_P2WSH_SCRIPT_SIZE.
  destruct c, (n_kind n); simpl; intros H;
    repeat match type of H with
    | context [check_pks ?c ?ks] => let E := fresh "E" in destruct (check_pks c ks) eqn:E
    | context [?a <? n_pk_cost n] => destruct (N.ltb_spec a (n_pk_cost n))
    end; try discriminate H;
    (split; [exact I|split; [|lia]]);
    first [ intros D; discriminate D | intros _; match goal with E : check_pks _ _ = COk |- _ => exact (check_pks_legal _ _ E) end ].
Qed.

Lemma check_global_all_ok c ns : check_global_all c ns = COk ->
  forall n, In n ns -> check_global_validity c n = COk.
Proof.
  induction ns as [|n0 r IH]; simpl; [tauto|].
  destruct (check_global_validity c n0) eqn:E; [|discriminate]. intros H n [<-|I]; auto.
Qed.

Theorem from_tree_ok c x : from_tree c x = EOk -> obeys_parse c x.
Proof.
  unfold from_tree.
  destruct (x_syntax_ok x); [|discriminate]. simpl.
  destruct (thresholds_ok x) eqn:T; [|discriminate]. simpl.
  destruct (locks_ok x) eqn:L; [|discriminate]. simpl.
  destruct (x_typed x) eqn:Ty; [|discriminate]. simpl.
  unfold MAX_RECURSION_DEPTH.
  destruct (N.ltb_spec 402 (s_tree_height (x_sum x))); [discriminate|].
  destruct (check_global_all c (s_nodes (x_sum x))) eqn:G; [|discriminate]. intros _.
  pose proof (check_global_all_ok _ _ G) as GA.
  unfold thresholds_ok in T. rewrite forallb_forall in T.
  unfold locks_ok in L. apply andb_true_iff in L. destruct L as [La Lo]. rewrite forallb_forall in La, Lo.
  constructor; auto.
  - intros n I. apply (check_global_validity_ok c n (GA n I)).
  - intros n I. apply (check_global_validity_ok c n (GA n I)).
  - intros [[M k] n] I. apply threshold_range. apply (T _ I).
  - intros n I. apply La, abs_lock_range in I. lia.
  - intros n I Hn. apply Lo in I. apply (rel_lock_range n Hn) in I. exact I.
  - intros n I. apply (check_global_validity_ok c n (GA n I)).
Qed.

(* ------------------------------------------------------------------ CONSENSUS = context rules *)
Lemma kind_allowed_consensus c k : kind_allowed (ctx_consensus c) k = true <-> kind_legal c k.
Proof. destruct c, k; simpl; intuition discriminate. Qed.

Lemma validate_pk_consensus c k : validate_pk (ctx_consensus c) k = VOk <-> key_legal c k.
Proof.
  rewrite validate_pk_ok. destruct c; simpl; destruct (k_uncompressed k), (k_xonly k);
    intuition (try discriminate; try congruence).
Qed.

Lemma check_nodes_ok_nomp p : allow_inconsistent_multipath_keys p = true ->
  forall ns st,
  (forall n, In n ns -> kind_allowed p (n_kind n) = true) ->
  (forall k, In k (all_keys ns) -> validate_pk p k = VOk) ->
  check_nodes p st ns = VOk.
Proof.
  intros Hm. induction ns as [|n r IH]; intros st Hk Hv; simpl; auto.
  rewrite check_node_eq, (Hk n (or_introl eq_refl)).
  assert (C : check_keys p st (vkeys n) = (st, VOk)).
  { assert (V : forall k, In k (vkeys n) -> validate_pk p k = VOk).
    { intros k I. apply Hv. unfold all_keys; simpl. apply in_or_app; auto. }
    clear -Hm V. revert V. generalize (vkeys n) as ks. induction ks as [|k r IH]; intros V; simpl; auto.
    rewrite (V k (or_introl eq_refl)), (multipath_check_off _ _ _ Hm). apply IH.
    intros k' I; apply V; right; exact I. }
  rewrite C. apply IH.
  - intros m I; apply Hk; right; exact I.
  - intros k I. apply Hv. unfold all_keys; simpl. apply in_or_app; auto.
Qed.

Theorem consensus_sound c s : validate (ctx_consensus c) s = VOk -> obeys c s.
Proof.
  rewrite validate_ok_iff. intros [A1 A2 A3 A4 A5 A6 A7 A8 A9 A10].
  destruct (check_nodes_ok_all _ _ _ A4) as [K V].
  constructor.
  - destruct A8 as [E|E]; [destruct c; discriminate|exact E].
  - intros n I. apply kind_allowed_consensus, K, I.
  - intros k I. apply validate_pk_consensus, V, I.
  - destruct c; exact A1.
  - destruct c; simpl; auto; apply A5; vm_compute; reflexivity.
  - unfold lim_fig. destruct (s_sat s) as [d|] eqn:E.
    + destruct (A6 d eq_refl) as [_ [O _]]. destruct c; simpl; auto; exact O.
    + destruct c; simpl; auto; lia.
  - unfold lim_fig. destruct (s_sat s) as [d|] eqn:E.
    + destruct (A6 d eq_refl) as [_ [_ O]]. destruct c; simpl; auto; exact O.
    + destruct c; simpl; auto; lia.
Qed.

(* the figures are usize values *)
Definition figs_bounded (s : summary) : Prop :=
  forall d, s_sat s = Some d ->
    sf_wit_count d + 1 <= USIZE_MAX /\ sf_op_count d <= USIZE_MAX /\
    sf_wit_count d + sf_exec_stack d <= USIZE_MAX.

Theorem consensus_complete c s : figs_bounded s -> obeys c s -> validate (ctx_consensus c) s = VOk.
Proof.
  intros FB [O1 O2 O3 O4 O5 O6 O7]. rewrite validate_ok_iff.
  constructor.
  - destruct c; exact O4.
  - left; destruct c; reflexivity.
  - left; destruct c; reflexivity.
  - apply check_nodes_ok_nomp; [destruct c; reflexivity| |].
    + intros n I. apply kind_allowed_consensus, O2, I.
    + intros k I. apply validate_pk_consensus, O3, I.
  - destruct c; simpl in *; intros H; auto; try (vm_compute in H; discriminate).
  - intros d E. specialize (FB d E). destruct FB as [F1 [F2 F3]].
    unfold lim_fig in O6, O7. rewrite E in O6, O7.
    destruct c; simpl in *; repeat split; auto.
  - left; destruct c; reflexivity.
  - right; exact O1.
  - left; destruct c; reflexivity.
  - left; destruct c; reflexivity.
Qed.

(* accepted_ok for everything that ends in validate with parameters at least as strict as
   the context's CONSENSUS *)
Theorem accepted_ok_validate c p s :
  vp_le p (ctx_consensus c) -> validate p s = VOk -> obeys c s.
Proof. intros L V. apply consensus_sound. eapply validate_monotone; eauto. Qed.

Lemma andthen_ok a b : andthen a b = EOk <-> a = EOk /\ b = EOk.
Proof. destruct a; simpl; intuition discriminate. Qed.
Lemma lift_v_ok r : lift_v r = EOk <-> r = VOk.
Proof. destruct r; simpl; intuition discriminate. Qed.
Lemma lift_t_ok r : lift_t r = EOk <-> r = TOk.
Proof. destruct r; simpl; intuition discriminate. Qed.

Theorem accepted_ok_ms_from_str_with c p x :
  vp_le p (ctx_consensus c) -> ms_from_str_with c p x = EOk ->
  obeys c (x_sum x) /\ obeys_parse c x.
Proof.
  intros L. unfold ms_from_str_with. rewrite andthen_ok, lift_v_ok. intros [T V]. split.
  - eapply accepted_ok_validate; eauto.
  - apply from_tree_ok; exact T.
Qed.

Lemma sane_le_consensus c : vp_le (ctx_sane c) (ctx_consensus c).
Proof. apply entails_iff_le. destruct c; vm_compute; reflexivity. Qed.
Lemma insane_le_consensus c : vp_le (no_raw_pkh (ctx_consensus c)) (ctx_consensus c).
Proof. apply entails_iff_le. destruct c; vm_compute; reflexivity. Qed.

Theorem accepted_ok_ms_from_str c x :
  ms_from_str c x = EOk -> obeys c (x_sum x) /\ obeys_parse c x.
Proof. apply accepted_ok_ms_from_str_with, sane_le_consensus. Qed.

Theorem accepted_ok_ms_from_str_insane c x :
  ms_from_str_insane c x = EOk -> obeys c (x_sum x) /\ obeys_parse c x.
Proof. apply accepted_ok_ms_from_str_with, insane_le_consensus. Qed.

Theorem accepted_ok_ms_decode_with c p d x :
  vp_le p (ctx_consensus c) -> ms_decode_with c p d x = EOk -> obeys c (x_sum x).
Proof.
  intros L. unfold ms_decode_with. destruct d; [|discriminate]. simpl.
  destruct (s_nodes (x_sum x)) as [|n0 r] eqn:E; [discriminate|].
  destruct (check_global_validity c n0); [|discriminate].
  destruct (x_typed x); [|discriminate]. simpl.
  rewrite lift_v_ok. apply accepted_ok_validate; exact L.
Qed.

Theorem accepted_ok_tr_leaf x :
  tr_leaf_from_tree x = EOk -> obeys CTap (x_sum x) /\ obeys_parse CTap x.
Proof.
  unfold tr_leaf_from_tree. rewrite !andthen_ok, lift_v_ok. intros [[T V] _]. split.
  - apply consensus_sound; exact V.
  - apply from_tree_ok; exact T.
Qed.

(* ------------------------------------------------------------------ descriptor wrappers *)
Definition key_c1 : keyinfo := mkKey 1 false false 0.
Definition key_c2 : keyinfo := mkKey 2 false false 0.
(* pk_k(K): a fragment of base type K (used as a Tr::new leaf) *)
Definition x_pk_k : expr :=
  mkExpr true [] [] [] true
    (mkSum BK true true 0 false [mkNode KPkK [key_c1] 34] 34 (Some (mkSat 1 0 0))).
(* sh(or_i(pk(A),pk(B))) *)
Definition x_or_i : expr :=
  mkExpr true [] [] [] true
    (mkSum BB true true 2 false
       [mkNode KOrI [] 73; mkNode KCheck [] 35; mkNode KPkK [key_c1] 34;
        mkNode KCheck [] 35; mkNode KPkK [key_c2] 34] 73 (Some (mkSat 2 4 1))).
(* sh(and_b(pk(A),adv:older(10))) *)
Definition x_dupif : expr :=
  mkExpr true [] [] [10] true
    (mkSum BB true true 4 false
       [mkNode KOther [] 44; mkNode KCheck [] 35; mkNode KPkK [key_c1] 34; mkNode KOther [] 8;
        mkNode KDupIf [] 6; mkNode KOther [] 3; mkNode KOther [] 2] 44 (Some (mkSat 2 9 2))).
(* a wsh script whose worst satisfaction executes 202 opcodes *)
Definition x_ops_202 : expr :=
  mkExpr true [] [] [] true
    (mkSum BB true true 1 false [mkNode KCheck [] 35; mkNode KPkK [key_c1] 34] 35
       (Some (mkSat 1 202 1))).

(* the classes that remain on /repo 6b65f152: or_i and d: inside sh(), more than 201 executed
   opcodes in wsh()/sh() *)
Theorem accepted_ok_wrappers_refuted :
  (wrapper_from_tree CLegacy x_or_i = EOk /\ wrapper_new CLegacy (x_sum x_or_i) = EOk /\
   ~ obeys CLegacy (x_sum x_or_i)) /\
  (wrapper_from_tree CLegacy x_dupif = EOk /\ ~ obeys CLegacy (x_sum x_dupif)) /\
  (wrapper_from_tree CSegwitv0 x_ops_202 = EOk /\ wrapper_new CSegwitv0 (x_sum x_ops_202) = EOk /\
   ~ obeys CSegwitv0 (x_sum x_ops_202)).
Proof.
  repeat split; try (vm_compute; reflexivity).
  - intros [_ K _ _ _ _ _]. apply (K (mkNode KOrI [] 73)). simpl; auto.
  - intros [_ K _ _ _ _ _]. apply (K (mkNode KDupIf [] 6)). simpl; auto 10.
  - intros [_ _ _ _ _ O _]. vm_compute in O. apply O; reflexivity.
Qed.

Theorem desc_implies_ms_refuted :
  (descriptor_from_str_inner CLegacy x_or_i = EOk /\
   ms_from_str_with CLegacy (ctx_consensus CLegacy) x_or_i = EErr (EpValidation EIllegalOrI)) /\
  (descriptor_from_str_inner CLegacy x_dupif = EOk /\
   ms_from_str_with CLegacy (ctx_consensus CLegacy) x_dupif = EErr (EpValidation EIllegalDupIf)) /\
  (descriptor_from_str_inner CSegwitv0 x_ops_202 = EOk /\
   ms_from_str_with CSegwitv0 (ctx_consensus CSegwitv0) x_ops_202 = EErr (EpValidation EMaxOpCount)).
Proof. repeat split; vm_compute; reflexivity. Qed.

(* strongest true variant: what a wrapper does guarantee, and exactly what is missing *)
Definition bare_shape (s : summary) : Prop :=
  match s_nodes s with
  | n0 :: rest =>
      match n_kind n0 with
      | KCheck => match rest with
                  | n1 :: _ => match n_kind n1 with KRawPkH | KPkK | KPkH => True | _ => False end
                  | [] => False
                  end
      | KMulti | KSortedMulti => N.of_nat (length (n_keys n0)) <= 3
      | _ => False
      end
  | [] => False
  end.

Lemma top_level_multipath_check_ok s :
  top_level_multipath_check s = TOk <-> ~ multipath_mismatch (all_keys (s_nodes s)).
Proof.
  rewrite <- top_level_multipath_check_iff. unfold top_level_multipath_check.
  destruct (fold_left mp_step (all_keys (s_nodes s)) MpSingle); split; congruence.
Qed.

Theorem top_level_type_check_ok s :
  top_level_type_check s = TOk <-> s_base s = BB /\ ~ multipath_mismatch (all_keys (s_nodes s)).
Proof.
  unfold top_level_type_check. rewrite <- top_level_multipath_check_ok, <- is_B_true.
  destruct (is_B (s_base s)); simpl; split; try tauto; try discriminate.
  intros [H _]; discriminate.
Qed.

(* Wsh::new / Sh::new / Bare::new *)
Theorem wrapper_new_ok c s : wrapper_new c s = EOk ->
  s_base s = BB /\ ~ multipath_mismatch (all_keys (s_nodes s)).
Proof.
  unfold wrapper_new, top_level_checks. rewrite lift_t_ok.
  destruct (top_level_type_check s) eqn:TT; [|discriminate]. intros _.
  apply top_level_type_check_ok; exact TT.
Qed.

(* a leaf handed to Tr::new: base type B and consistent multipath lengths; non-B leaves are refused *)
Theorem tr_new_leaf_ok s : tr_new_leaf s = EOk ->
  s_base s = BB /\ ~ multipath_mismatch (all_keys (s_nodes s)).
Proof. exact (wrapper_new_ok CTap s). Qed.
Lemma tr_new_leaf_rejects_nonB : tr_new_leaf (x_sum x_pk_k) = EErr (EpTop (TeNonBase BK)).
Proof. vm_compute. reflexivity. Qed.

Lemma vkeys_checked n k : In k (vkeys n) -> key_checked_kind (n_kind n) = true /\ In k (n_keys n).
Proof. unfold vkeys, key_checked_kind. destruct (n_kind n); simpl; tauto. Qed.

Theorem accepted_ok_wrappers_partial c x : wrapper_from_tree c x = EOk ->
  obeys_parse c x /\ s_base (x_sum x) = BB /\
  (forall k, In k (all_keys (s_nodes (x_sum x))) -> key_legal c k) /\
  ~ multipath_mismatch (all_keys (s_nodes (x_sum x))) /\
  (c = CBare -> bare_shape (x_sum x)).
Proof.
  unfold wrapper_from_tree. rewrite andthen_ok. intros [T W].
  pose proof (from_tree_ok _ _ T) as P. destruct (wrapper_new_ok _ _ W) as [B M].
  split; [exact P|]. split; [exact B|]. split.
  { intros k I. unfold all_keys in I. apply in_flat_map in I. destruct I as [n [In_n Ik]].
    destruct (vkeys_checked _ _ Ik) as [Ck Ikk]. exact (op_keys _ _ P n In_n Ck k Ikk). }
  split; [exact M|].
  intros ->. unfold wrapper_new, top_level_checks in W. rewrite lift_t_ok in W.
  destruct (top_level_type_check (x_sum x)); [|discriminate].
  unfold other_top_level_checks in W. unfold bare_shape.
  destruct (s_nodes (x_sum x)) as [|n0 rest]; [discriminate|].
  destruct (n_kind n0); try discriminate.
  - destruct (N.leb_spec (N.of_nat (length (n_keys n0))) 3); [assumption|discriminate].
  - destruct (N.leb_spec (N.of_nat (length (n_keys n0))) 3); [assumption|discriminate].
  - destruct rest as [|n1 r]; [discriminate|]. destruct (n_kind n1); try discriminate; exact I.
Qed.

(* what the descriptor parser accepts is accepted by the miniscript parser with consensus
   parameters EXACTLY when the context rules hold ... *)
Theorem desc_implies_ms_partial c x : c <> CTap -> figs_bounded (x_sum x) ->
  descriptor_from_str_inner c x = EOk ->
  (ms_from_str_with c (ctx_consensus c) x = EOk <-> obeys c (x_sum x)).
Proof.
  intros Hc FB D. assert (T : from_tree c x = EOk).
  { destruct c; try congruence; unfold descriptor_from_str_inner, wrapper_from_tree in D;
      apply andthen_ok in D; tauto. }
  unfold ms_from_str_with. rewrite andthen_ok, lift_v_ok. split.
  - intros [_ V]. apply consensus_sound; exact V.
  - intros O. split; [exact T|]. apply consensus_complete; assumption.
Qed.

(* ... and of those rules the wrapper has already established base type, key kinds and depth:
   what can still fail is a fragment the context forbids (or_i / d: before segwit), the script
   size limit on script_size(), the op-count limit and the stack limit *)
Record residual (c : ctx) (s : summary) : Prop := mkResidual {
  rs_kinds : forall n, In n (s_nodes s) -> kind_legal c (n_kind n);
  rs_size : opt_le (s_script_size s) (ctx_script_size_limit c);
  rs_ops : opt_le (lim_fig LOps s) (ctx_op_limit c);
  rs_stack : opt_le (lim_fig LStack s) (ctx_stack_limit c) }.

Theorem desc_implies_ms_residual c x : c <> CTap -> figs_bounded (x_sum x) ->
  descriptor_from_str_inner c x = EOk ->
  (ms_from_str_with c (ctx_consensus c) x = EOk <-> residual c (x_sum x)).
Proof.
  intros Hc FB D. rewrite (desc_implies_ms_partial c x Hc FB D).
  assert (W : wrapper_from_tree c x = EOk) by (destruct c; try congruence; exact D).
  destruct (accepted_ok_wrappers_partial c x W) as [P [B [K _]]].
  split.
  - intros [_ O2 _ _ O5 O6 O7]. constructor; assumption.
  - intros [R1 R2 R3 R4]. constructor; auto. exact (op_depth _ _ P).
Qed.

Theorem desc_implies_ms_tr x :
  descriptor_from_str_inner CTap x = EOk -> ms_from_str_with CTap (ctx_consensus CTap) x = EOk.
Proof.
  unfold descriptor_from_str_inner, tr_leaf_from_tree, ms_from_str_with.
  rewrite !andthen_ok. tauto.
Qed.

(* non-vacuity: a script every entry point accepts *)
Definition x_pk : expr :=
  mkExpr true [] [] [] true
    (mkSum BB true true 1 false [mkNode KCheck [] 35; mkNode KPkK [key_c1] 34] 35
       (Some (mkSat 1 1 1))).
Lemma entry_points_nonvacuous :
  ms_from_str CSegwitv0 x_pk = EOk /\ ms_from_str_insane CLegacy x_pk = EOk /\
  wrapper_from_tree CBare x_pk = EOk /\ tr_leaf_from_tree x_pk = EOk /\
  ms_decode CSegwitv0 true x_pk = EOk /\ descriptor_from_str_inner CTap x_pk = EOk.
Proof. repeat split; vm_compute; reflexivity. Qed.

Lemma switch_nonvacuous :
  all_on VP_MAX /\ (forall l, within l VP_MAX (x_sum x_pk)) /\
  entails (ctx_sane CSegwitv0) (ctx_consensus CSegwitv0) = true /\
  validate (sw_set SwNonB false VP_MAX) (x_sum x_pk_k) = VErr (ENonBase BK) /\
  validate (sw_set SwNonB false VP_MAX) (x_sum x_pk) = VOk.
Proof.
  split; [intros b; destruct b; reflexivity|].
  split; [intros l; destruct l; vm_compute; discriminate|].
  split; [vm_compute; reflexivity|]. split; vm_compute; reflexivity.
Qed.
