(* C20 (extension round 2) -- proofs about Ms/TranslateMpModel.v: translate_pk with multipath target keys. *)
From Coq Require Import Lia Permutation.
From Verif Require Import TranslateMpModel TranslateProofs TranslateHashProofs TheoremA EqOrdProofs
  TranslateHashDescProofs TranslateHashFailProofs TranslateDescNamed.
Local Open Scope N_scope.

(* ---- the multipath-length checker *)
Lemma mp_fold_single np ks st : (forall k, In k ks -> np k <= 1) -> fold_left (mp_step np) ks st = st.
Proof.
  revert st. induction ks as [|k r IH]; intros st H; [reflexivity|].
  cbn [fold_left]. unfold mp_step at 2. replace (np k <=? 1) with true by (symmetry; apply N.leb_le; apply H; left; reflexivity).
  apply IH. intros k' Hk. apply H. right. exact Hk.
Qed.

Lemma mp_no_multipath np m : (forall k, np k <= 1) -> mp_mismatch np m = false.
Proof. intro H. unfold mp_mismatch. rewrite mp_fold_single; [reflexivity|]. intros k _. apply H. Qed.

Definition mp_inv (np : key -> N) (seen : list key) (st : mpstate) : Prop :=
  match st with
  | MpSingle => True
  | MpLen n => 1 < n /\ exists k, In k seen /\ np k = n
  | MpMismatch => exists k1 k2, In k1 seen /\ In k2 seen /\ 1 < np k1 /\ 1 < np k2 /\ np k1 <> np k2
  end.

Lemma mp_fold_inv np : forall ks seen st, mp_inv np seen st -> mp_inv np (seen ++ ks) (fold_left (mp_step np) ks st).
Proof.
  induction ks as [|k r IH]; intros seen st H; [rewrite app_nil_r; exact H|].
  cbn [fold_left]. replace (seen ++ k :: r) with ((seen ++ [k]) ++ r) by (rewrite <- app_assoc; reflexivity).
  apply IH. unfold mp_step. destruct (np k <=? 1) eqn:E.
  - destruct st as [|n|]; cbn [mp_inv] in *; [exact I| |].
    + destruct H as [Hn [k0 [Hi Hk]]]. split; [exact Hn|]. exists k0. split; [apply in_or_app; left; exact Hi|exact Hk].
    + destruct H as [k1 [k2 [H1 [H2 R]]]]. exists k1, k2. split; [apply in_or_app; auto|]. split; [apply in_or_app; auto|exact R].
  - apply N.leb_gt in E. destruct st as [|n|]; cbn [mp_inv] in *.
    + split; [exact E|]. exists k. split; [apply in_or_app; right; left; reflexivity|reflexivity].
    + destruct H as [Hn [k0 [Hi Hk]]]. destruct (n =? np k) eqn:En.
      * cbn [mp_inv]. split; [exact Hn|]. exists k0. split; [apply in_or_app; left; exact Hi|exact Hk].
      * apply N.eqb_neq in En. cbn [mp_inv]. exists k0, k. split; [apply in_or_app; left; exact Hi|].
        split; [apply in_or_app; right; left; reflexivity|]. rewrite Hk. repeat split; try assumption.
    + destruct H as [k1 [k2 [H1 [H2 R]]]]. exists k1, k2. split; [apply in_or_app; auto|]. split; [apply in_or_app; auto|exact R].
Qed.

(* a mismatch names two keys of the script with different numbers (> 1) of derivation paths *)
Theorem mp_mismatch_two_keys np m : mp_mismatch np m = true ->
  exists k1 k2, In k1 (keys_pre m) /\ In k2 (keys_pre m) /\ 1 < np k1 /\ 1 < np k2 /\ np k1 <> np k2.
Proof.
  unfold mp_mismatch. intro H. pose proof (mp_fold_inv np (keys_pre m) [] MpSingle I) as K. cbn [app] in K.
  destruct (fold_left (mp_step np) (keys_pre m) MpSingle); try discriminate. exact K.
Qed.

Lemma base_is_b_map_atoms g gh m : base_is_b (map_atoms g gh m) = base_is_b m.
Proof. unfold base_is_b. rewrite type_of_map_atoms. reflexivity. Qed.

Lemma leaves_top_some np : forall ls e, leaves_top np ls = Some e ->
  exists j dep m, nth_error ls j = Some (dep, m) /\ leaf_top np m = Some e.
Proof.
  induction ls as [|[d m] r IH]; intros e H; [discriminate|].
  cbn [leaves_top] in H. destruct (leaf_top np m) as [e0|] eqn:E.
  - injection H as <-. exists 0%nat, d, m. split; [reflexivity|exact E].
  - destruct (IH _ H) as [j [dep [m0 [Hn Hl]]]]. exists (S j), dep, m0. split; [exact Hn|exact Hl].
Qed.

Lemma nth_error_map_inv {A B} (f : A -> B) : forall l j b, nth_error (map f l) j = Some b ->
  exists a, nth_error l j = Some a /\ b = f a.
Proof.
  induction l as [|x l IH]; intros [|j] b H; try discriminate.
  - injection H as <-. exists x. split; reflexivity.
  - apply IH. exact H.
Qed.

Section Mp.
  Variable fp : key -> option key.
  Variable fhp : hkind -> bytes -> option bytes.
  Variable chk : ctx -> ms -> option cerr.
  Variable kk : key -> kkind.
  Variable np : key -> N.

  Notation f := (fun _ : N => fp).
  Notation fh := (fun _ : N => fhp).
  Notation sub := (map_atoms (total fp) (total_h fhp)).
  Notation aok := (atom_ok fp fhp).

  (* without multipath target keys (and with leaves of base type B, which translation preserves) nothing is added *)
  Theorem desc_mp_agrees d d' : (forall k, np k <= 1) ->
    (forall ik ls, d = DTr ik ls -> forallb (fun l => base_is_b (snd l)) ls = true) ->
    translate_desc_h f fh chk kk d = TOk d' -> translate_desc_mp f fh chk kk np d = MpOk d'.
  Proof.
    intros Hnp Hb E. unfold translate_desc_mp. rewrite E.
    destruct (desc_h_structure _ _ _ _ _ _ E) as [-> _].
    destruct d as [m|k|k|m|k|m|m|ik ls]; cbn [dmap]; try reflexivity.
    specialize (Hb ik ls eq_refl).
    assert (L : leaves_top np (map (fun l => (fst l, sub (snd l))) ls) = None).
    { clear E. induction ls as [|[dep m] r IH]; [reflexivity|]. cbn [forallb snd] in Hb. apply andb_prop in Hb. destruct Hb as [H1 H2].
      cbn [map leaves_top fst snd]. unfold leaf_top. rewrite base_is_b_map_atoms, H1, (mp_no_multipath _ _ Hnp). cbn [negb].
      apply IH. exact H2. }
    rewrite L. reflexivity.
  Qed.

  (* every failure named: what translate_desc_h reports (C20_desc_h_fail_names_node), or a tap leaf - with its index - whose
     substitution mixes multipath lengths (Tr only), every key and hash of the descriptor being mapped *)
  Theorem desc_mp_fail_names d e :
    translate_desc_mp f fh chk kk np d = MpErr e ->
    (exists e0, e = MpT e0 /\ names_node fp fhp chk kk d e0) \/
    (exists ik ls j dep m, d = DTr ik ls /\ nth_error ls j = Some (dep, m) /\
        (forall a, In a (datoms d) -> aok a = true) /\
        ((e = MpLenMismatch /\ mp_mismatch np (sub m) = true) \/ (e = MpNonBase /\ base_is_b m = false))).
  Proof.
    unfold translate_desc_mp. destruct (translate_desc_h f fh chk kk d) as [d'| e0 |s] eqn:E; try discriminate.
    - destruct (desc_h_structure _ _ _ _ _ _ E) as [-> [Ha _]].
      destruct d as [m|k|k|m|k|m|m|ik ls]; cbn [dmap]; try discriminate.
      destruct (leaves_top np (map (fun l => (fst l, sub (snd l))) ls)) as [e1|] eqn:L; [|discriminate].
      intro H; injection H as <-. right.
      destruct (leaves_top_some _ _ _ L) as [j [dep [m' [Hn Hl]]]].
      destruct (nth_error_map_inv _ _ _ _ Hn) as [[dep0 m] [Hn0 Eq]]. cbn [fst snd] in Eq. injection Eq as -> ->.
      exists ik, ls, j, dep0, m. split; [reflexivity|]. split; [exact Hn0|]. split; [exact Ha|].
      unfold leaf_top in Hl. rewrite base_is_b_map_atoms in Hl. destruct (base_is_b m) eqn:B; cbn [negb] in Hl.
      + destruct (mp_mismatch np (sub m)) eqn:M; [|discriminate]. injection Hl as <-. left. auto.
      + injection Hl as <-. right. auto.
    - intro H; injection H as <-. left. exists e0. split; [reflexivity|]. apply desc_h_fail_names_node. exact E.
  Qed.
End Mp.

(* the wrappers disagree: with target keys of 2 and 3 derivation paths in ONE script, wsh / sh / sh(wsh) / bare translate
   to a descriptor their own constructor check rejects, tr refuses *)
Lemma translate_mp_examples :
  let np := fun k : key => if N.eqb k 10 then 2 else if N.eqb k 11 then 3 else 1 in
  let kk := fun _ : key => KCompressed in
  let kkx := fun _ : key => KXOnly in
  let chk := fun kk c => from_ast_chk c kk (fun _ => None) (fun _ => None) in
  let body := MAndV (MVerify (MCheck (MPkK 0))) (MCheck (MPkK 1)) in
  let body' := MAndV (MVerify (MCheck (MPkK 10))) (MCheck (MPkK 11)) in
  let fpm := fun (_ : N) (k : key) => Some (k + 10) in
  let fhm := fun (_ : N) (_ : hkind) (h : bytes) => Some h in
  translate_desc_mp fpm fhm (chk kk) kk np (DWsh body) = MpOk (DWsh body') /\
  ctor_top np (DWsh body') = Some MpLenMismatch /\
  translate_desc_mp fpm fhm (chk kk) kk np (DSh body) = MpOk (DSh body') /\
  translate_desc_mp fpm fhm (chk kkx) kkx np (DTr 5 [(0, body)]) = MpErr MpLenMismatch /\
  (* lengths differing ACROSS leaves / internal key are accepted by tr (and by the parser) *)
  translate_desc_mp fpm fhm (chk kkx) kkx np (DTr 0 [(0, MCheck (MPkK 1))]) = MpOk (DTr 10 [(0, MCheck (MPkK 11))]).
Proof. vm_compute. repeat split; reflexivity. Qed.
