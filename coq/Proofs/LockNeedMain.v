(* C17 (L2, L3): the locks a satisfaction of the model reports are NECESSARY at Script level,
   a lock that is not reported is not executed, and hence the reported locks are exact:
   the completed witness is accepted iff the transaction meets exactly the reported locks.
   All fragments (thresh, multi, multi_a included; raw_pk_h excluded as in Theorem A), both
   satisfier modes.  The proof combines
     * LockNeedSuffice.reported_locks_run (the witness runs in a reference environment whose
       nLockTime / nSequence are the reported values themselves),
     * LockNeedTrace.trace_all (the reported lock is among the CLTV / CSV checks executed there),
     * LockNeedExec.exec_lock_factor (changing only the lock fields either keeps the run or makes it
       fail at an executed lock check). *)
From Verif Require Import Exec ExecTrace Ser Ast Types TypeCheck SatSpec Sat ExecLemmas ExecTraceLemmas TheoremA SatProofs PlanProofs.
From Verif Require Import LockNeedExec LockNeedTable LockNeedSuffice LockNeedTrace.
From Coq Require Import Lia.

(* well-formedness does not look at the lock fields *)
Lemma wf_same e e' ke : same_oracles e e' -> forall m, wf e ke m -> wf e' ke m.
Proof.
  intros [S1 S2 S3 S4 S5 S6 S7]. induction m using ms_ind'; cbn [wf]; unfold tap; rewrite ?S1, ?S4, ?S5, ?S6, ?S7; try tauto.
  intros [Hk [Hn Hw]]. split; [exact Hk|]. split; [exact Hn|]. clear Hk Hn.
  induction H as [|x r Hx Hr IH]; [exact I|]. destruct Hw as [H1 H2]. split; [apply Hx, H1 | apply IH, H2].
Qed.

(* the reference environment: nLockTime / nSequence ARE the reported values, version 2 *)
Definition oval (o : option N) : N := match o with Some t => t | None => 0%N end.
Definition ref_env (e : env) (oa orl : option N) : env := with_locks e (oval oa) (oval orl) 2.

Lemma ref_env_met e oa orl : (forall R, orl = Some R -> lock_small R) -> lock_met (ref_env e oa orl) oa orl.
Proof.
  intros Hr. split.
  - intros T ->. rewrite check_locktime_N. cbn [ref_env with_locks e_locktime e_sequence oval].
    rewrite Bool.eqb_reflx, N.leb_refl. cbn [andb]. apply Bool.negb_true_iff, N.eqb_neq.
    destruct orl as [R|]; cbn [oval]; [|discriminate]. destruct (Hr R eq_refl) as [_ H]. unfold SEQ_FINAL. lia.
  - intros R ->. destruct (Hr R eq_refl) as [H0 H1]. rewrite check_sequence_N. cbn [ref_env with_locks e_txversion e_sequence oval].
    rewrite (land_disable_small R H1), !N.eqb_refl, !N.leb_refl. reflexivity.
Qed.

(* the checks read off a trace (Script/ExecTrace.v: checks) contain exactly its lock events *)
Lemma checks_abs_len k : forall tr, (length tr <= k)%nat -> forall n, In (KAbs n) (checks tr) <-> In n (abs_evs tr).
Proof.
  induction k as [|k IH]; intros tr Hl n.
  - destruct tr; [cbn; tauto | cbn in Hl; lia].
  - destruct tr as [|ev rest]; [cbn; tauto|]. cbn [length] in Hl.
    assert (Hrest : In (KAbs n) (checks rest) <-> In n (abs_evs rest)) by (apply IH; lia).
    destruct ev as [k0 s|kd p d|v| | |a|a]; cbn [checks abs_evs].
    + split; [intros [H|H]; [discriminate | apply Hrest, H] | intros H; right; apply Hrest, H].
    + destruct rest as [|y z]; [exact Hrest|]. destruct y as [k0 s|kd2 p2 d2|v| | |a|a]; try exact Hrest.
      destruct (bytes_eqb d v); [|exact Hrest]. cbn [abs_evs] in *. cbn [length] in Hl.
      split; [intros [H|H]; [discriminate | apply (IH z ltac:(lia)), H] | intros H; right; apply (IH z ltac:(lia)), H].
    + exact Hrest.
    + exact Hrest.
    + destruct rest as [|y z]; [exact Hrest|]. destruct y as [k0 s|kd p d|v| | |a|a]; try exact Hrest.
      destruct z as [|y' z']; [exact Hrest|]. destruct y' as [k0 s|kd2 p2 d2|v| | |a|a]; try exact Hrest.
      destruct (is_h160 kd && bytes_eqb d v); [|exact Hrest]. cbn [abs_evs length] in *. apply IH. lia.
    + split; [intros [H|H]; [inversion H; left; reflexivity | right; apply Hrest, H]
             | intros [H|H]; [left; subst; reflexivity | right; apply Hrest, H]].
    + split; [intros [H|H]; [discriminate | apply Hrest, H] | intros H; right; apply Hrest, H].
Qed.
Lemma checks_abs tr n : In (KAbs n) (checks tr) <-> In n (abs_evs tr).
Proof. apply (checks_abs_len (length tr)). lia. Qed.

Lemma checks_rel_len k : forall tr, (length tr <= k)%nat -> forall n, In (KRel n) (checks tr) <-> In n (rel_evs tr).
Proof.
  induction k as [|k IH]; intros tr Hl n.
  - destruct tr; [cbn; tauto | cbn in Hl; lia].
  - destruct tr as [|ev rest]; [cbn; tauto|]. cbn [length] in Hl.
    assert (Hrest : In (KRel n) (checks rest) <-> In n (rel_evs rest)) by (apply IH; lia).
    destruct ev as [k0 s|kd p d|v| | |a|a]; cbn [checks rel_evs].
    + split; [intros [H|H]; [discriminate | apply Hrest, H] | intros H; right; apply Hrest, H].
    + destruct rest as [|y z]; [exact Hrest|]. destruct y as [k0 s|kd2 p2 d2|v| | |a|a]; try exact Hrest.
      destruct (bytes_eqb d v); [|exact Hrest]. cbn [rel_evs] in *. cbn [length] in Hl.
      split; [intros [H|H]; [discriminate | apply (IH z ltac:(lia)), H] | intros H; right; apply (IH z ltac:(lia)), H].
    + exact Hrest.
    + exact Hrest.
    + destruct rest as [|y z]; [exact Hrest|]. destruct y as [k0 s|kd p d|v| | |a|a]; try exact Hrest.
      destruct z as [|y' z']; [exact Hrest|]. destruct y' as [k0 s|kd2 p2 d2|v| | |a|a]; try exact Hrest.
      destruct (is_h160 kd && bytes_eqb d v); [|exact Hrest]. cbn [rel_evs length] in *. apply IH. lia.
    + split; [intros [H|H]; [discriminate | apply Hrest, H] | intros H; right; apply Hrest, H].
    + split; [intros [H|H]; [inversion H; left; reflexivity | right; apply Hrest, H]
             | intros [H|H]; [left; subst; reflexivity | right; apply Hrest, H]].
Qed.
Lemma checks_rel tr n : In (KRel n) (checks tr) <-> In n (rel_evs tr).
Proof. apply (checks_rel_len (length tr)). lia. Qed.

Section Main.
  Variable e : env.
  Variable ke : keyenv.
  Variable A : assets.
  Variable se : senv.
  Variable f : fill.
  Hypothesis HL : linked ke A se f.
  Hypothesis Hks : forall ks, length (ksort ke ks) = length ks.
  Hypothesis HC : crypto_ok e ke A.
  Hypothesis Hse : forall kbs, e_sigok e kbs [] = false.
  Variable mall rhs : bool.
  Variable m : ms.
  Variable t : ty.
  Hypothesis Ht : type_of m = ROk t.
  Hypothesis Hb : c_base (t_corr t) = BB.
  Hypothesis Hwf : wf e ke m.
  Hypothesis Hnm : no_multi m.

  Notation r := (snd (sat_dissat ke se mall rhs m)).
  Variable l : list ph.
  Variable bs : list bytes.
  Hypothesis Hs : s_stack r = WStack l.
  Hypothesis Hf : fill_all f l = Some bs.

  (* the executed path, in any environment that meets the reported locks *)
  Theorem executed_locks below al : lock_met e (s_abs r) (s_rel r) ->
    tr_ok r (tr_script e (enc ke m) (mkSt (rev bs ++ below) al)).
  Proof.
    intros Hm. destruct (trace_all e ke A se f HL Hks HC Hse mall rhs m t Ht Hwf Hnm) as [_ H].
    pose proof (H l bs Hs Hf Hm [] below al) as Hr. rewrite Hb in Hr. exact Hr.
  Qed.

  (* L3: a lock that is not reported is not executed at all *)
  Theorem unreported_abs_not_executed below al : lock_met e (s_abs r) (s_rel r) -> s_abs r = None ->
    abs_evs (tr_script e (enc ke m) (mkSt (rev bs ++ below) al)) = [].
  Proof. intros Hm E. destruct (executed_locks below al Hm) as [H _]. rewrite E in H. exact H. Qed.
  Theorem unreported_rel_not_executed below al : lock_met e (s_abs r) (s_rel r) -> s_rel r = None ->
    rel_evs (tr_script e (enc ke m) (mkSt (rev bs ++ below) al)) = [].
  Proof. intros Hm E. destruct (executed_locks below al Hm) as [_ H]. rewrite E in H. exact H. Qed.

  (* the reference environment *)
  Let e0 := ref_env e (s_abs r) (s_rel r).
  Lemma e0_same : same_oracles e e0. Proof. apply same_oracles_with_locks. Qed.
  Lemma e0_crypto : crypto_ok e0 ke A. Proof. exact (crypto_ok_same e e0 ke A e0_same HC). Qed.
  Lemma e0_wf : wf e0 ke m. Proof. exact (wf_same e e0 ke e0_same m Hwf). Qed.
  Lemma e0_sig : forall kbs, e_sigok e0 kbs [] = false. Proof. exact Hse. Qed.
  Lemma e0_met : lock_met e0 (s_abs r) (s_rel r).
  Proof.
    apply ref_env_met. destruct (locks_bounded e ke se mall rhs lock_small (fun _ H => H) m Hwf) as [_ [_ H]]. exact H.
  Qed.

  Lemma e0_runs below al : exists v, exec e0 (enc ke m) (mkSt (rev bs ++ below) al) = Ok (mkSt (v :: below) al) /\ truthy v = true.
  Proof. exact (reported_locks_run e0 ke A se f HL Hks e0_crypto e0_sig mall rhs m t Ht Hb e0_wf Hnm l bs Hs Hf e0_met below al). Qed.

  Lemma e0_trace below al : tr_ok r (tr_script e0 (enc ke m) (mkSt (rev bs ++ below) al)).
  Proof.
    destruct (trace_all e0 ke A se f HL Hks e0_crypto e0_sig mall rhs m t Ht e0_wf Hnm) as [_ H].
    pose proof (H l bs Hs Hf e0_met [] below al) as Hr. rewrite Hb in Hr. exact Hr.
  Qed.

  (* L2: necessity.  [e] is ANY environment with genuine signatures / preimages for the assets *)
  Theorem reported_abs_lock_necessary T : s_abs r = Some T -> check_locktime e (Z.of_N T) = false ->
    forall below al, exec e (enc ke m) (mkSt (rev bs ++ below) al) = Fail.
  Proof.
    intros ET Hc below al. destruct (e0_runs below al) as [v [Hr _]]. destruct (e0_trace below al) as [Ha _].
    rewrite ET in Ha. destruct Ha as [Hin _].
    exact (exec_lock_fail_abs e0 e (same_oracles_sym _ _ e0_same) _ _ _ T Hr Hin Hc).
  Qed.
  Theorem reported_rel_lock_necessary R : s_rel r = Some R -> check_sequence e (Z.of_N R) = false ->
    forall below al, exec e (enc ke m) (mkSt (rev bs ++ below) al) = Fail.
  Proof.
    intros ER Hc below al. destruct (e0_runs below al) as [v [Hr _]]. destruct (e0_trace below al) as [_ Ha].
    rewrite ER in Ha. destruct Ha as [Hin _].
    exact (exec_lock_fail_rel e0 e (same_oracles_sym _ _ e0_same) _ _ _ R Hr Hin Hc).
  Qed.

  (* the reported lock is among the checks of the executed path (instrumented execution, accepts_tr) *)
  Theorem reported_locks_on_path : exists cs, accepts_tr e0 (enc ke m) (rev bs) = Some cs /\
    (forall T, s_abs r = Some T -> In (KAbs T) cs) /\ (forall R, s_rel r = Some R -> In (KRel R) cs) /\
    (s_abs r = None -> forall n, ~ In (KAbs n) cs) /\ (s_rel r = None -> forall n, ~ In (KRel n) cs).
  Proof.
    destruct (e0_runs [] []) as [v [Hr Hv]]. destruct (e0_trace [] []) as [Ha Hrel]. rewrite app_nil_r in *.
    exists (checks (tr_script e0 (enc ke m) (mkSt (rev bs) []))). unfold accepts_tr. rewrite exec_tr_eq, Hr. cbn [with_tr stk]. rewrite Hv.
    split; [reflexivity|]. repeat split.
    - intros T ET. rewrite ET in Ha. apply checks_abs. exact (proj1 Ha).
    - intros R ER. rewrite ER in Hrel. apply checks_rel. exact (proj1 Hrel).
    - intros EN n Hin. rewrite EN in Ha. apply checks_abs in Hin. cbn [lk_ok] in Ha. rewrite Ha in Hin. exact Hin.
    - intros EN n Hin. rewrite EN in Hrel. apply checks_rel in Hin. cbn [lk_ok] in Hrel. rewrite Hrel in Hin. exact Hin.
  Qed.

  (* necessary and sufficient *)
  Theorem reported_locks_exact : accepts e (enc ke m) (rev bs) = true <-> lock_met e (s_abs r) (s_rel r).
  Proof.
    split.
    - intros Hacc. split.
      + intros T ET. destruct (check_locktime e (Z.of_N T)) eqn:Ec; [reflexivity|].
        pose proof (reported_abs_lock_necessary T ET Ec [] []) as Hfail. rewrite app_nil_r in Hfail.
        unfold accepts in Hacc. rewrite Hfail in Hacc. discriminate.
      + intros R ER. destruct (check_sequence e (Z.of_N R)) eqn:Ec; [reflexivity|].
        pose proof (reported_rel_lock_necessary R ER Ec [] []) as Hfail. rewrite app_nil_r in Hfail.
        unfold accepts in Hacc. rewrite Hfail in Hacc. discriminate.
    - intros Hm. exact (reported_locks_suffice e ke A se f HL Hks HC Hse mall rhs m t Ht Hb Hwf Hnm l bs Hs Hf Hm).
  Qed.

  (* L3, acceptance form: with no lock reported the witness is accepted whatever nLockTime, nSequence
     (final and disable-bit values included) and the transaction version are *)
  Theorem no_lock_any_tx : s_abs r = None -> s_rel r = None ->
    forall lt sq ver, accepts (with_locks e lt sq ver) (enc ke m) (rev bs) = true.
  Proof.
    intros EA ER lt sq ver. set (e' := with_locks e lt sq ver).
    assert (S : same_oracles e e') by apply same_oracles_with_locks.
    apply (reported_locks_suffice e' ke A se f HL Hks (crypto_ok_same e e' ke A S HC) Hse mall rhs m t Ht Hb (wf_same e e' ke S m Hwf) Hnm l bs Hs Hf).
    rewrite EA, ER. split; intros ? H; discriminate.
  Qed.
  (* no absolute lock reported: every nLockTime is accepted (the relative lock, if any, being met) *)
  Theorem no_abs_any_locktime : s_abs r = None -> lock_met e None (s_rel r) ->
    forall lt, accepts (with_locks e lt (e_sequence e) (e_txversion e)) (enc ke m) (rev bs) = true.
  Proof.
    intros EA [_ Hr] lt. set (e' := with_locks e lt (e_sequence e) (e_txversion e)).
    assert (S : same_oracles e e') by apply same_oracles_with_locks.
    apply (reported_locks_suffice e' ke A se f HL Hks (crypto_ok_same e e' ke A S HC) Hse mall rhs m t Ht Hb (wf_same e e' ke S m Hwf) Hnm l bs Hs Hf).
    rewrite EA. split; [intros ? H; discriminate|]. intros R ER. rewrite check_sequence_N. cbn [e' with_locks e_txversion e_sequence].
    rewrite <- check_sequence_N. exact (Hr R ER).
  Qed.
  (* no relative lock reported: every nSequence other than the final one, and every version, is accepted *)
  Theorem no_rel_any_sequence : s_rel r = None -> lock_met e (s_abs r) None ->
    forall sq ver, (s_abs r = None \/ sq <> SEQ_FINAL) ->
    accepts (with_locks e (e_locktime e) sq ver) (enc ke m) (rev bs) = true.
  Proof.
    intros ER [Ha _] sq ver Hsq. set (e' := with_locks e (e_locktime e) sq ver).
    assert (S : same_oracles e e') by apply same_oracles_with_locks.
    apply (reported_locks_suffice e' ke A se f HL Hks (crypto_ok_same e e' ke A S HC) Hse mall rhs m t Ht Hb (wf_same e e' ke S m Hwf) Hnm l bs Hs Hf).
    rewrite ER. split; [|intros ? H; discriminate]. intros T ET. destruct Hsq as [Hn|Hsq]; [congruence|].
    pose proof (Ha T ET) as Hc. rewrite check_locktime_N in Hc |- *. cbn [e' with_locks e_locktime e_sequence].
    apply andb_prop in Hc. destruct Hc as [Hc _]. rewrite Hc. cbn [andb]. apply Bool.negb_true_iff, N.eqb_neq. exact Hsq.
  Qed.
End Main.

(* ================= non-vacuity ================= *)
Definition lx_ke : keyenv := mkKeyEnv (fun k => [2%N; k]) (fun k => [4%N; 2%N; k]) (fun l => l).
Definition lx_env (lt sq ver : N) : env :=
  mkEnv SvWitnessV0 lt sq ver
        (fun k s => bytes_eqb s (7%N :: k)) (fun _ => true)
        (fun b => 1%N :: b) (fun b => 2%N :: b) (fun b => 3%N :: b) (fun b => 4%N :: b).
(* only key 1 can sign; after(t) is considered available up to 1000, older(t) up to 50 *)
Definition lx_assets : assets :=
  mkAssets (fun k => if N.eqb k 1 then Some [7%N; 2%N; 1%N] else None)
           (fun _ => None) (fun _ => None) (fun _ => None) (fun _ => None)
           (fun t => N.leb t 1000) (fun t => N.leb t 50).
Definition lx_senv : senv :=
  mkSenv false (fun _ => 34%N) (fun k => if N.eqb k 1 then Some 73%N else None) (fun _ _ => false)
         (fun t => N.leb t 1000) (fun t => N.leb t 50).
Definition lx_fill : fill :=
  mkFill (fun k => [2%N; k]) (fun k => if N.eqb k 1 then Some [7%N; 2%N; 1%N] else None) (fun _ _ => None).

(* or_d(pk(0), and_v(v:pk(1), after(100))) *)
Definition lx_ms : ms := (MOrD (MCheck (MPkK 0)) (MAndV (MVerify (MCheck (MPkK 1))) (MAfter 100)))%N.
(* thresh(2, pk(0), s:pk(1), sln:older(7)) *)
Definition lx_ms2 : ms :=
  (MThresh 2 [MCheck (MPkK 0); MSwap (MCheck (MPkK 1)); MSwap (MOrI MFalse (MZeroNotEqual (MOlder 7)))])%N.

Lemma lx_linked : linked lx_ke lx_assets lx_senv lx_fill.
Proof.
  constructor; try reflexivity.
  - intros k. cbn. destruct (N.eqb k 1); split; intros H; try discriminate; reflexivity.
  - intros kd h. destruct kd; reflexivity.
  - intros kd h. cbn. split; [discriminate|]. intros H. exfalso. apply H. destruct kd; reflexivity.
Qed.
Lemma lx_ksort : forall ks, length (ksort lx_ke ks) = length ks.
Proof. reflexivity. Qed.
Lemma lx_crypto lt sq ver : crypto_ok (lx_env lt sq ver) lx_ke lx_assets.
Proof.
  constructor; cbn; try discriminate; try reflexivity.
  - intros k s. destruct (N.eqb_spec k 1) as [->|]; [|discriminate]. intros H. inversion H; subst. split; [reflexivity | cbn; lia].
  - intros k. cbn. lia.
Qed.
Lemma lx_sig lt sq ver : forall kbs, e_sigok (lx_env lt sq ver) kbs [] = false.
Proof. reflexivity. Qed.

Example lx_typed : exists t, type_of lx_ms = ROk t /\ c_base (t_corr t) = BB.
Proof. eexists. split; [vm_compute; reflexivity | reflexivity]. Qed.
Example lx_wf lt sq ver : wf (lx_env lt sq ver) lx_ke lx_ms.
Proof. cbn. repeat split; lia. Qed.
Example lx_nm : no_multi lx_ms.
Proof. cbn. tauto. Qed.

(* both modes report the absolute lock 100 and no relative lock *)
Example lx_reports : forall mall : bool,
  let r := snd (sat_dissat lx_ke lx_senv mall true lx_ms) in
  s_stack r = WStack [PhSig 1%N; PhPushZero] /\ s_abs r = Some 100%N /\ s_rel r = None /\
  fill_all lx_fill [PhSig 1%N; PhPushZero] = Some [[7; 2; 1]; []]%N.
Proof. intros [|]; vm_compute; repeat split; reflexivity. Qed.

(* accepted at nLockTime 100, rejected at 99, in the other unit, and with a final sequence *)
Example lx_accept_100 : accepts (lx_env 100 0 2) (enc lx_ke lx_ms) (rev [[7; 2; 1]; []]%N) = true.
Proof. vm_compute. reflexivity. Qed.
Example lx_reject_99 : exec (lx_env 99 0 2) (enc lx_ke lx_ms) (mkSt (rev [[7; 2; 1]; []]%N) []) = Fail.
Proof. vm_compute. reflexivity. Qed.
Example lx_reject_unit : exec (lx_env 500000100 0 2) (enc lx_ke lx_ms) (mkSt (rev [[7; 2; 1]; []]%N) []) = Fail.
Proof. vm_compute. reflexivity. Qed.
Example lx_reject_final : exec (lx_env 100 4294967295 2) (enc lx_ke lx_ms) (mkSt (rev [[7; 2; 1]; []]%N) []) = Fail.
Proof. vm_compute. reflexivity. Qed.

(* the general theorems, instantiated: all hypotheses are satisfiable *)
Example lx_exact : forall (mall : bool) lt sq ver,
  accepts (lx_env lt sq ver) (enc lx_ke lx_ms) (rev [[7; 2; 1]; []]%N) = true <->
  check_locktime (lx_env lt sq ver) 100 = true.
Proof.
  intros mall lt sq ver. destruct lx_typed as [t [Ht Hb]]. destruct (lx_reports mall) as [Hs [Ea [Er Hf]]].
  pose proof (reported_locks_exact (lx_env lt sq ver) lx_ke lx_assets lx_senv lx_fill lx_linked lx_ksort (lx_crypto lt sq ver) (lx_sig lt sq ver)
                mall true lx_ms t Ht Hb (lx_wf lt sq ver) lx_nm _ _ Hs Hf) as H.
  cbv zeta in Ea, Er. rewrite Ea, Er in H. rewrite H. unfold lock_met. split.
  - intros [Ha _]. exact (Ha _ eq_refl).
  - intros Hc. split; [intros T E; inversion E; subst; exact Hc | intros R E; discriminate].
Qed.

(* thresh with a relative lock inside: only key 1 signs, so older(7) is on the chosen path *)
Example lx2_typed : exists t, type_of lx_ms2 = ROk t /\ c_base (t_corr t) = BB.
Proof. eexists. split; [vm_compute; reflexivity | reflexivity]. Qed.
Example lx2_wf lt sq ver : wf (lx_env lt sq ver) lx_ke lx_ms2.
Proof. cbn. repeat split; lia. Qed.
Example lx2_nm : no_multi lx_ms2.
Proof. cbn. tauto. Qed.
Example lx2_reports : forall mall : bool,
  let r := snd (sat_dissat lx_ke lx_senv mall true lx_ms2) in
  let bs := [[]; [7; 2; 1]; []]%N in
  s_stack r = WStack [PhPushZero; PhSig 1%N; PhPushZero] /\
  fill_all lx_fill [PhPushZero; PhSig 1%N; PhPushZero] = Some bs /\ s_abs r = None /\ s_rel r = Some 7%N /\
  accepts (lx_env 0 7 2) (enc lx_ke lx_ms2) (rev bs) = true /\
  exec (lx_env 0 6 2) (enc lx_ke lx_ms2) (mkSt (rev bs) []) = Fail /\
  exec (lx_env 0 7 1) (enc lx_ke lx_ms2) (mkSt (rev bs) []) = Fail /\
  exec (lx_env 0 (7 + 4194304) 2) (enc lx_ke lx_ms2) (mkSt (rev bs) []) = Fail /\
  exec (lx_env 0 (7 + 2147483648) 2) (enc lx_ke lx_ms2) (mkSt (rev bs) []) = Fail.
Proof. intros [|]; vm_compute; repeat split; reflexivity. Qed.

(* ================= plan vocabulary (Properties/C17.v) ================= *)
(* Plan::absolute_timelock / Plan::relative_timelock: the lock fields of the satisfier's result *)
Definition plan_abs (ke : keyenv) (se : senv) (mall rhs : bool) (m : ms) : option N :=
  s_abs (snd (sat_dissat ke se mall rhs m)).
Definition plan_rel (ke : keyenv) (se : senv) (mall rhs : bool) (m : ms) : option N :=
  s_rel (snd (sat_dissat ke se mall rhs m)).

Lemma plan_template_stack ke se mall rhs m tpl :
  plan_template ke se mall rhs m = Some tpl -> s_stack (snd (sat_dissat ke se mall rhs m)) = WStack tpl.
Proof. unfold plan_template. destruct (s_stack _); intros H; inversion H; reflexivity. Qed.

Section PlanLocks.
  Variable e : env.
  Variable ke : keyenv.
  Variable A : assets.
  Variable se : senv.
  Variable f : fill.
  Hypothesis HL : linked ke A se f.
  Hypothesis Hks : forall ks, length (ksort ke ks) = length ks.
  Hypothesis HC : crypto_ok e ke A.
  Hypothesis Hse : forall kbs, e_sigok e kbs [] = false.
  Variable mall rhs : bool.
  Variable m : ms.
  Variable t : ty.
  Hypothesis Ht : type_of m = ROk t.
  Hypothesis Hb : c_base (t_corr t) = BB.
  Hypothesis Hwf : wf e ke m.
  Hypothesis Hnm : no_multi m.
  Variable tpl : list ph.
  Variable bs : list bytes.
  Hypothesis Hp : plan_template ke se mall rhs m = Some tpl.
  Hypothesis Hc : plan_complete f tpl = Some bs.

  Let Hs := plan_template_stack ke se mall rhs m tpl Hp.

  Theorem plan_locks_suffice : lock_met e (plan_abs ke se mall rhs m) (plan_rel ke se mall rhs m) ->
    accepts e (enc ke m) (rev bs) = true.
  Proof. exact (reported_locks_suffice e ke A se f HL Hks HC Hse mall rhs m t Ht Hb Hwf Hnm tpl bs Hs Hc). Qed.

  Theorem plan_locks_exact :
    accepts e (enc ke m) (rev bs) = true <-> lock_met e (plan_abs ke se mall rhs m) (plan_rel ke se mall rhs m).
  Proof. exact (reported_locks_exact e ke A se f HL Hks HC Hse mall rhs m t Ht Hb Hwf Hnm tpl bs Hs Hc). Qed.

  Theorem plan_abs_lock_necessary T : plan_abs ke se mall rhs m = Some T -> check_locktime e (Z.of_N T) = false ->
    forall below al, exec e (enc ke m) (mkSt (rev bs ++ below) al) = Fail.
  Proof. exact (reported_abs_lock_necessary e ke A se f HL Hks HC Hse mall rhs m t Ht Hb Hwf Hnm tpl bs Hs Hc T). Qed.

  Theorem plan_rel_lock_necessary R : plan_rel ke se mall rhs m = Some R -> check_sequence e (Z.of_N R) = false ->
    forall below al, exec e (enc ke m) (mkSt (rev bs ++ below) al) = Fail.
  Proof. exact (reported_rel_lock_necessary e ke A se f HL Hks HC Hse mall rhs m t Ht Hb Hwf Hnm tpl bs Hs Hc R). Qed.

  Theorem plan_no_abs_no_cltv below al : lock_met e (plan_abs ke se mall rhs m) (plan_rel ke se mall rhs m) ->
    plan_abs ke se mall rhs m = None -> abs_evs (tr_script e (enc ke m) (mkSt (rev bs ++ below) al)) = [].
  Proof. exact (unreported_abs_not_executed e ke A se f HL Hks HC Hse mall rhs m t Ht Hb Hwf Hnm tpl bs Hs Hc below al). Qed.

  Theorem plan_no_rel_no_csv below al : lock_met e (plan_abs ke se mall rhs m) (plan_rel ke se mall rhs m) ->
    plan_rel ke se mall rhs m = None -> rel_evs (tr_script e (enc ke m) (mkSt (rev bs ++ below) al)) = [].
  Proof. exact (unreported_rel_not_executed e ke A se f HL Hks HC Hse mall rhs m t Ht Hb Hwf Hnm tpl bs Hs Hc below al). Qed.

  Theorem plan_executed_locks below al : lock_met e (plan_abs ke se mall rhs m) (plan_rel ke se mall rhs m) ->
    tr_ok (snd (sat_dissat ke se mall rhs m)) (tr_script e (enc ke m) (mkSt (rev bs ++ below) al)).
  Proof. exact (executed_locks e ke A se f HL Hks HC Hse mall rhs m t Ht Hb Hwf Hnm tpl bs Hs Hc below al). Qed.

  Theorem plan_locks_on_path : exists cs,
    accepts_tr (ref_env e (plan_abs ke se mall rhs m) (plan_rel ke se mall rhs m)) (enc ke m) (rev bs) = Some cs /\
    (forall T, plan_abs ke se mall rhs m = Some T -> In (KAbs T) cs) /\
    (forall R, plan_rel ke se mall rhs m = Some R -> In (KRel R) cs) /\
    (plan_abs ke se mall rhs m = None -> forall n, ~ In (KAbs n) cs) /\
    (plan_rel ke se mall rhs m = None -> forall n, ~ In (KRel n) cs).
  Proof. exact (reported_locks_on_path e ke A se f HL Hks HC Hse mall rhs m t Ht Hb Hwf Hnm tpl bs Hs Hc). Qed.

  Theorem plan_no_lock_any_tx : plan_abs ke se mall rhs m = None -> plan_rel ke se mall rhs m = None ->
    forall lt sq ver, accepts (with_locks e lt sq ver) (enc ke m) (rev bs) = true.
  Proof. exact (no_lock_any_tx e ke A se f HL Hks HC Hse mall rhs m t Ht Hb Hwf Hnm tpl bs Hs Hc). Qed.

  Theorem plan_no_abs_any_locktime : plan_abs ke se mall rhs m = None -> lock_met e None (plan_rel ke se mall rhs m) ->
    forall lt, accepts (with_locks e lt (e_sequence e) (e_txversion e)) (enc ke m) (rev bs) = true.
  Proof. exact (no_abs_any_locktime e ke A se f HL Hks HC Hse mall rhs m t Ht Hb Hwf Hnm tpl bs Hs Hc). Qed.

  Theorem plan_no_rel_any_sequence : plan_rel ke se mall rhs m = None -> lock_met e (plan_abs ke se mall rhs m) None ->
    forall sq ver, (plan_abs ke se mall rhs m = None \/ sq <> SEQ_FINAL) ->
    accepts (with_locks e (e_locktime e) sq ver) (enc ke m) (rev bs) = true.
  Proof. exact (no_rel_any_sequence e ke A se f HL Hks HC Hse mall rhs m t Ht Hb Hwf Hnm tpl bs Hs Hc). Qed.
End PlanLocks.

(* what "CLTV / CSV with operand n fails" means, spelled out (Script/Exec.v) *)
Lemma check_locktime_false e T : check_locktime e (Z.of_N T) = false <->
  (N.ltb T LOCKTIME_THRESHOLD <> N.ltb (e_locktime e) LOCKTIME_THRESHOLD) \/ (e_locktime e < T)%N \/ e_sequence e = SEQ_FINAL.
Proof.
  rewrite check_locktime_N. split.
  - intros H. destruct (Bool.eqb _ _) eqn:E1; [|left; intros E; rewrite E, Bool.eqb_reflx in E1; discriminate].
    destruct (N.leb_spec T (e_locktime e)) as [Hle|Hlt]; [|right; left; exact Hlt].
    cbn [andb] in H. apply Bool.negb_false_iff, N.eqb_eq in H. right; right; exact H.
  - intros [H|[H|H]].
    + destruct (Bool.eqb _ _) eqn:E1; [apply Bool.eqb_prop in E1; contradiction | reflexivity].
    + replace (N.leb T (e_locktime e)) with false by (symmetry; apply N.leb_gt; exact H). rewrite Bool.andb_false_r. reflexivity.
    + rewrite H, N.eqb_refl. cbn [negb]. apply Bool.andb_false_r.
Qed.
Lemma check_sequence_false e R : (R < 2147483648)%N -> (check_sequence e (Z.of_N R) = false <->
  (e_txversion e < 2)%N \/ N.land (e_sequence e) SEQ_DISABLE <> 0%N \/
  N.land R SEQ_TYPE <> N.land (e_sequence e) SEQ_TYPE \/ (N.land (e_sequence e) SEQ_MASK < N.land R SEQ_MASK)%N).
Proof.
  intros HR. rewrite check_sequence_N, (land_disable_small R HR), N.eqb_refl. cbn [negb]. split.
  - intros H. destruct (N.leb_spec 2 (e_txversion e)) as [H1|H1]; [|left; exact H1]. cbn [andb] in H.
    destruct (N.eqb_spec (N.land (e_sequence e) SEQ_DISABLE) 0) as [H2|H2]; [|right; left; exact H2]. cbn [andb] in H.
    destruct (N.eqb_spec (N.land R SEQ_TYPE) (N.land (e_sequence e) SEQ_TYPE)) as [H3|H3]; [|right; right; left; exact H3]. cbn [andb] in H.
    apply N.leb_gt in H. right; right; right; exact H.
  - intros [H|[H|[H|H]]].
    + replace (N.leb 2 (e_txversion e)) with false by (symmetry; apply N.leb_gt; exact H). reflexivity.
    + apply N.eqb_neq in H. rewrite H, Bool.andb_false_r. reflexivity.
    + apply N.eqb_neq in H. rewrite H, Bool.andb_false_r. reflexivity.
    + replace (N.leb (N.land R SEQ_MASK) (N.land (e_sequence e) SEQ_MASK)) with false by (symmetry; apply N.leb_gt; exact H).
      apply Bool.andb_false_r.
Qed.
