(* C04 x C12: theorems about Ms/DecodeParamsModel.decode_with, the model of
   Miniscript::decode_with_validation_params for every ValidationParams.  Everything is obtained
   by composing the proved facts of the two halves: C04 (decode_canonical, decode_enc,
   decode_total) and C12 (validate_ok_iff, validate_monotone, consensus_sound, constants_chain). *)
From Coq Require Import Lia.
From Verif Require Import DecodeModel CodecSpec SerProofs DecodeSound DecodeProofs DecodeNf DecodeCanon.
From Verif Require Import ExtModel ExtLemmas TranslateModel.
From Verif Require Import ValidateModel ValidateSpec ValidateProofs ValidateAccept ValidateSwitch ValidateEntry.
From Verif Require Import DecodeParamsModel.
Local Open Scope N_scope.

(* ------------------------------------------------------------------ shape of decode_with *)
(* the validation step comes last: decode_with = decode_max, then validate on the computed facts *)
Definition dp_after (e : denv) (p : vparams) (r : DecodeModel.outcome ms) : dpres :=
  match r with
  | OOk m => match validate p (facts_of (d_ctx e) (d_ke e) m) with VOk => DpOk m | VErr v => DpInvalid v end
  | OErr err => DpErr err
  | OPanic n => DpPanic n
  | OFuel => DpFuel
  end.

Lemma decode_with_eq e p b : decode_with e p b = dp_after e p (decode_max e b).
Proof.
  unfold decode_with, decode_max, dp_after.
  destruct (lex b) as [toks|le]; [|reflexivity].
  destruct (parse e toks) as [[m rest]|err|n|]; try reflexivity.
  destruct (gv (d_ctx e) (d_ke e) m); [reflexivity|].
  destruct (type_of m); [|reflexivity].
  destruct rest; reflexivity.
Qed.

Lemma decode_with_ok_iff e p b m :
  decode_with e p b = DpOk m <->
  decode_max e b = OOk m /\ validate p (facts_of (d_ctx e) (d_ke e) m) = VOk.
Proof.
  rewrite decode_with_eq. unfold dp_after.
  destruct (decode_max e b) as [m'|err|n|].
  - destruct (validate p (facts_of (d_ctx e) (d_ke e) m')) eqn:V; split.
    + intros [= <-]. auto.
    + intros [[= <-] _]. reflexivity.
    + discriminate.
    + intros [[= <-] V']. congruence.
  - split; [discriminate|intros [? _]; discriminate].
  - split; [discriminate|intros [? _]; discriminate].
  - split; [discriminate|intros [? _]; discriminate].
Qed.

(* errors of the decoding stages do not depend on the parameters *)
Theorem decode_with_decode_err_indep e p q b err :
  decode_with e p b = DpErr err <-> decode_with e q b = DpErr err.
Proof.
  rewrite !decode_with_eq. unfold dp_after. destruct (decode_max e b) as [m|d|n|].
  - destruct (validate p _), (validate q _); split; discriminate.
  - tauto.
  - tauto.
  - tauto.
Qed.

(* a validation error is the error `validate` returns on the facts of the script that the MAX
   decoder returns: the order of checks of ValidateModel.validate decides which one wins *)
Theorem decode_with_invalid_iff e p b v :
  decode_with e p b = DpInvalid v <->
  exists m, decode_max e b = OOk m /\ validate p (facts_of (d_ctx e) (d_ke e) m) = VErr v.
Proof.
  rewrite decode_with_eq. unfold dp_after. destruct (decode_max e b) as [m|d|n|].
  - destruct (validate p (facts_of (d_ctx e) (d_ke e) m)) eqn:V; split.
    + discriminate.
    + intros [m' [[= <-] V']]. congruence.
    + intros [= <-]. eauto.
    + intros [m' [[= <-] V']]. congruence.
  - split; [discriminate|intros [? [? _]]; discriminate].
  - split; [discriminate|intros [? [? _]]; discriminate].
  - split; [discriminate|intros [? [? _]]; discriminate].
Qed.

(* ------------------------------------------------------------------ the computed facts *)
Lemma vkeys_all_app a b : all_keys (a ++ b) = all_keys a ++ all_keys b.
Proof. unfold all_keys. apply flat_map_app. Qed.

(* the keys validate looks at (for repeated keys, key kinds) are the keys of the AST in PkIter order *)
Lemma all_keys_nodes_of c ke m :
  all_keys (nodes_of c ke m) = map (keyinfo_of c ke) (keys_pre m).
Proof.
  induction m using ms_ind_ext; cbn [nodes_of keys_pre]; try reflexivity;
    try (change (all_keys (?n :: ?r)) with (vkeys n ++ all_keys r); cbn [vkeys n_kind n_keys app];
         rewrite ?vkeys_all_app, ?map_app; congruence).
  - (* thresh *)
    change (all_keys (?n :: ?r)) with (vkeys n ++ all_keys r). cbn [vkeys n_kind n_keys app].
    induction H as [|x r Hx _ IH]; [reflexivity|].
    rewrite vkeys_all_app, map_app, Hx, IH. reflexivity.
  - unfold all_keys. cbn. rewrite app_nil_r. reflexivity.
  - unfold all_keys. cbn. rewrite app_nil_r. reflexivity.
  - unfold all_keys. cbn. rewrite app_nil_r. reflexivity.
  - unfold all_keys. cbn. rewrite app_nil_r. reflexivity.
Qed.

Lemma key_ids_facts_of c ke m :
  map k_id (all_keys (s_nodes (facts_of c ke m))) = keys_pre m.
Proof.
  unfold facts_of. destruct (match type_of m with ROk t => _ | RErr _ => _ end) as [[b nm] sg].
  cbn [s_nodes]. rewrite all_keys_nodes_of, map_map. cbn [keyinfo_of k_id]. apply map_id.
Qed.

(* has_repeated_keys on the computed facts = some key of the AST occurs twice *)
Theorem repeated_keys_facts_of c ke m :
  has_repeated_keys (facts_of c ke m) = false <-> NoDup (keys_pre m).
Proof.
  pose proof (has_repeated_keys_iff (facts_of c ke m)) as H. rewrite key_ids_facts_of in H.
  destruct (has_repeated_keys (facts_of c ke m)).
  - split; [discriminate|]. intros N. exfalso. apply (proj1 H eq_refl N).
  - split; [|reflexivity]. intros _.
    destruct (ListDec.NoDup_dec N.eq_dec (keys_pre m)) as [N|N]; [exact N|].
    exfalso. pose proof (proj2 H N). discriminate.
Qed.

Lemma facts_type c ke m t : type_of m = ROk t ->
  s_base (facts_of c ke m) = c_base (t_corr t) /\
  s_nonmall (facts_of c ke m) = m_nm (t_mall t) /\
  s_signed (facts_of c ke m) = m_signed (t_mall t).
Proof. intros H. unfold facts_of. rewrite H. cbn. auto. Qed.

(* ------------------------------------------------------------------ the four statements *)
(* 1. canonical + validated: every byte string accepted under ANY parameters is the encoding of the
   result, and the result satisfies the declarative reading of `validate p` (ValidateAccept.accept:
   depth, no repeated keys / mixed locks unless allowed, every node and key allowed, size and
   satisfaction figures within the limits, non-malleable / base B / signed / satisfiable unless allowed) *)
Theorem decode_with_canonical e p b m :
  denv_ok e -> ksort_ok (d_ke e) -> is_bytes b ->
  decode_with e p b = DpOk m ->
  encode (d_ke e) m = b /\ accept p (facts_of (d_ctx e) (d_ke e) m).
Proof.
  intros He Hs Hb H. apply decode_with_ok_iff in H. destruct H as [D V]. split.
  - exact (decode_canonical e b m He Hs Hb D).
  - apply validate_ok_iff. exact V.
Qed.

(* the decoder type-checked what it returns *)
Lemma decode_max_typed e b m : decode_max e b = OOk m -> exists t, type_of m = ROk t.
Proof.
  unfold decode_max. destruct (lex b) as [toks|]; [|discriminate].
  destruct (parse e toks) as [[m' rest]|?|?|]; try discriminate.
  destruct (gv _ _ m'); [discriminate|]. destruct (type_of m') as [t|] eqn:T; [|discriminate].
  destruct rest; [|discriminate]. intros [= <-]. eauto.
Qed.

(* ... read for Ctx::SANE (Miniscript::decode): safe (every path needs a signature), non-malleable,
   base B, no mixed time locks, no key twice, no raw pkh, and the context's rules [obeys] *)
Theorem decode_sane_meaning e b m :
  denv_ok e -> ksort_ok (d_ke e) -> is_bytes b ->
  decode_sane e b = DpOk m ->
  encode (d_ke e) m = b /\
  (exists t, type_of m = ROk t /\ c_base (t_corr t) = BB /\ m_nm (t_mall t) = true /\ m_signed (t_mall t) = true) /\
  tl_comb (timelock_info (ext_of (dp_xctx (d_ctx e) (d_ke e)) m)) = false /\
  NoDup (keys_pre m) /\
  has_kind is_rawpkh (facts_of (d_ctx e) (d_ke e) m) = false /\
  obeys (vctx_of (d_ctx e)) (facts_of (d_ctx e) (d_ke e) m).
Proof.
  intros He Hs Hb H. unfold decode_sane in H.
  pose proof (proj1 (decode_with_ok_iff _ _ _ _) H) as [D V].
  destruct (decode_with_canonical e _ b m He Hs Hb H) as [E A].
  destruct (decode_max_typed e b m D) as [t T].
  destruct (facts_type (d_ctx e) (d_ke e) m t T) as [Fb [Fn Fs]].
  set (c := vctx_of (d_ctx e)) in *.
  split; [exact E|]. split; [|split; [|split; [|split]]].
  - exists t. split; [exact T|]. destruct A as [_ _ _ _ _ _ Am Ab As _].
    rewrite Fn in Am. rewrite Fb in Ab. rewrite Fs in As.
    repeat split.
    + destruct Ab as [X|X]; [destruct c; discriminate|exact X].
    + destruct Am as [X|X]; [destruct c; discriminate|exact X].
    + destruct As as [X|X]; [destruct c; discriminate|exact X].
  - destruct A as [_ _ Amix _ _ _ _ _ _ _].
    destruct Amix as [X|X]; [destruct c; discriminate|].
    unfold facts_of in X. destruct (match type_of m with ROk _ => _ | RErr _ => _ end) as [[? ?] ?]. exact X.
  - apply (repeated_keys_facts_of (d_ctx e) (d_ke e)).
    destruct A as [_ Ad _ _ _ _ _ _ _ _]. destruct Ad as [X|X]; [destruct c; discriminate|exact X].
  - destruct A as [_ _ _ An _ _ _ _ _ _].
    destruct (check_nodes_ok_all _ _ _ An) as [K _].
    unfold has_kind. apply Bool.not_true_is_false. intros Hx. apply existsb_exists in Hx.
    destruct Hx as [n [Hin Hk]]. specialize (K n Hin).
    destruct (n_kind n); try discriminate. destruct c; discriminate.
  - eapply accepted_ok_validate; [|exact V]. apply entails_iff_le.
    destruct constants_chain as [_ [_ [_ Hc]]]. apply (Hc c).
Qed.

(* ... and for every parameter set entailing the context's consensus rules *)
Theorem decode_with_obeys e p b m :
  entails p (ctx_consensus (vctx_of (d_ctx e))) = true ->
  decode_with e p b = DpOk m -> obeys (vctx_of (d_ctx e)) (facts_of (d_ctx e) (d_ke e) m).
Proof.
  intros L H. apply decode_with_ok_iff in H. destruct H as [_ V].
  eapply accepted_ok_validate; [|exact V]. apply entails_iff_le, L.
Qed.

(* 2. monotone in the parameters, with the SAME result *)
Theorem decode_with_monotone e p q b m :
  entails p q = true -> decode_with e p b = DpOk m -> decode_with e q b = DpOk m.
Proof.
  intros L. rewrite !decode_with_ok_iff. intros [D V]. split; [exact D|].
  eapply validate_monotone; [|exact V]. apply entails_iff_le, L.
Qed.

(* Miniscript::decode accepts => Miniscript::decode_consensus accepts, same miniscript *)
Theorem decode_sane_implies_consensus e b m :
  decode_sane e b = DpOk m -> decode_consensus e b = DpOk m.
Proof.
  apply decode_with_monotone. destruct constants_chain as [_ [_ [_ Hc]]].
  apply (Hc (vctx_of (d_ctx e))).
Qed.

(* ... and what any parameter set rejects at the decoding stage, every other one rejects alike; what
   a weaker set rejects in validation, the stronger one does not accept *)
Theorem decode_with_antitone_reject e p q b :
  entails p q = true -> (forall m, decode_with e q b <> DpOk m) -> forall m, decode_with e p b <> DpOk m.
Proof. intros L H m Hp. apply (H m). eapply decode_with_monotone; eauto. Qed.

(* 3. completeness w.r.t. encode (PARTIAL).  Full statement wanted:
        ms_wf m -> type_of m = ROk t (base B) -> validate p (facts_of m) = VOk ->
        exists m', decode_with e p (encode m) = DpOk m' /\ enc m' = enc m.
   Proved: the same with the validation hypothesis (and the decoder's own limits, as in C04's
   decode_enc) stated on the decoder's NORMAL FORM nf m, which is the miniscript returned.
   Missing: invariance of the facts under nf.  It is FALSE in general: nf turns pk_h(K) into
   expr_raw_pkh(hash160 K), so `validate SANE` accepts c:pk_h(K) while `decode` refuses its
   encoding with IllegalRawPkh (see decode_with_enc_refuted below), and the depth-402 finding of
   C04 shows tree_height can grow by one.  The type-derived facts ARE invariant (facts_nf_type). *)
Theorem decode_with_enc_partial e p m t :
  ksort_ok (d_ke e) -> ms_wf (d_ctx e) (d_ke e) m ->
  type_of m = ROk t -> c_base (t_corr t) <> BW ->
  lim_ok e (nf (d_ke e) m) -> gv (d_ctx e) (d_ke e) (nf (d_ke e) m) = None ->
  validate p (facts_of (d_ctx e) (d_ke e) (nf (d_ke e) m)) = VOk ->
  decode_with e p (encode (d_ke e) m) = DpOk (nf (d_ke e) m) /\
  enc (d_ke e) (nf (d_ke e) m) = enc (d_ke e) m /\
  encode (d_ke e) (nf (d_ke e) m) = encode (d_ke e) m /\
  type_of (nf (d_ke e) m) = ROk t.
Proof.
  intros Hs Hwf Ht Hb Hl Hg V.
  destruct (decode_enc e m t Hs Hwf Ht Hb Hl Hg) as [D [E1 [E2 T]]].
  split; [|auto]. apply decode_with_ok_iff. auto.
Qed.

Theorem facts_nf_type c ke m t : type_of m = ROk t ->
  s_base (facts_of c ke (nf ke m)) = s_base (facts_of c ke m) /\
  s_nonmall (facts_of c ke (nf ke m)) = s_nonmall (facts_of c ke m) /\
  s_signed (facts_of c ke (nf ke m)) = s_signed (facts_of c ke m).
Proof.
  intros T. pose proof (type_nf ke m t T) as Tn.
  destruct (facts_type c ke m t T) as [A [B C]].
  destruct (facts_type c ke (nf ke m) t Tn) as [A' [B' C']]. repeat split; congruence.
Qed.

(* 4. no panic, no fuel exhaustion, for every parameter set and every byte string *)
Theorem decode_with_never_panics e p b :
  (exists m, decode_with e p b = DpOk m) \/ (exists err, decode_with e p b = DpErr err) \/
  (exists v, decode_with e p b = DpInvalid v).
Proof.
  rewrite decode_with_eq. destruct (decode_total e b) as [[m H]|[err H]]; rewrite H; unfold dp_after.
  - destruct (validate p (facts_of (d_ctx e) (d_ke e) m)); eauto.
  - eauto.
Qed.

(* 5. MAX (PARTIAL).  Full statement wanted: decode_with e VP_MAX b = the MAX decoder of C04 (decode_max) on
   every byte string.  Proved: whenever the figures of the decoded script are within MAX's limits (depth <= 402,
   the rest <= usize::MAX).  Missing: that the decoder's result always has them — depth <= 402 is enforced by
   from_ast at every inner node (in terms of CodecExt.tree_height, not yet related to ExtModel's field here) and
   the other figures are usize values in the code but unbounded N in ExtModel.  The tie compares the MAX row of
   every sampled byte string. *)
Theorem decode_with_max_partial e b m :
  decode_max e b = OOk m -> (forall l, within l VP_MAX (facts_of (d_ctx e) (d_ke e) m)) ->
  decode_with e VP_MAX b = DpOk m.
Proof.
  intros D W. apply decode_with_ok_iff. split; [exact D|].
  rewrite ValidateExact.validate_all_on; [apply ValidateExact.limit_verdict_within; exact W|].
  intros []; reflexivity.
Qed.
