(* C13: witnesses on which the faithful model of the interpreter accepts a spend that the
   Script semantics rejects (findings about /repo; each is re-found per run by the oracle).
   Everything by vm_compute on closed terms. *)
From Verif Require Import Exec Ser Ast Types TypeCheck InterpModel.
Local Open Scope N_scope.

(* a toy environment: every non-empty signature verifies for every key *)
Definition toy_env (locktime sequence version : N) : env :=
  mkEnv SvWitnessV0 locktime sequence version
        (fun _ s => match s with [] => false | _ => true end) (fun _ => true)
        (fun b => 1 :: b) (fun b => 2 :: b) (fun b => 3 :: b) (fun b => 4 :: b).
Definition toy_ke : keyenv := mkKeyEnv (fun k => [2; k]) (fun k => [9; k]) (fun l => l).
Definition toy_kp : bytes -> bool := fun _ => true.

(* wsh(and_v(v:pk(A),after(10))) *)
Definition m_after : ms := MAndV (MVerify (MCheck (MPkK 0))) (MAfter 10).
(* wsh(and_v(v:pk(A),older(5))) *)
Definition m_older : ms := MAndV (MVerify (MCheck (MPkK 0))) (MOlder 5).
Definition a_sig : bytes := [48; 1].        (* stands for a signature *)

(* (h) nLockTime 100 >= 10 but the input is final: BIP65 makes CHECKLOCKTIMEVERIFY fail *)
Lemma after_final_sequence :
  interp (toy_env 100 4294967295 2) toy_ke toy_kp m_after (astack_of_items [a_sig])
    = IAccept [CsPk [2; 0] a_sig; CsAfter 10]
  /\ accepts (toy_env 100 4294967295 2) (enc toy_ke m_after) (rev [a_sig]) = false
  /\ accepts (toy_env 100 4294967294 2) (enc toy_ke m_after) (rev [a_sig]) = true.
Proof. repeat split; vm_compute; reflexivity. Qed.

(* nSequence 5 >= 5 but the transaction has version 1: BIP112 makes CHECKSEQUENCEVERIFY fail *)
Lemma older_tx_version_1 :
  interp (toy_env 0 5 1) toy_ke toy_kp m_older (astack_of_items [a_sig])
    = IAccept [CsPk [2; 0] a_sig; CsOlder 5]
  /\ accepts (toy_env 0 5 1) (enc toy_ke m_older) (rev [a_sig]) = false
  /\ accepts (toy_env 0 5 2) (enc toy_ke m_older) (rev [a_sig]) = true.
Proof. repeat split; vm_compute; reflexivity. Qed.

Lemma m_after_typed : exists t, type_of m_after = ROk t /\ c_base (t_corr t) = BB.
Proof. eexists. split; vm_compute; reflexivity. Qed.
Lemma m_older_typed : exists t, type_of m_older = ROk t /\ c_base (t_corr t) = BB.
Proof. eexists. split; vm_compute; reflexivity. Qed.

Lemma refuted_final :
  exists (e : env) (ke : keyenv) (kp : bytes -> bool) (m : ms) (items : list bytes) (cs : list constr),
    (exists t, type_of m = ROk t /\ c_base (t_corr t) = BB) /\
    interp e ke kp m (astack_of_items items) = IAccept cs /\
    accepts e (enc ke m) (rev items) = false /\
    e_sequence e = SEQ_FINAL.
Proof.
  exists (toy_env 100 4294967295 2), toy_ke, toy_kp, m_after, [a_sig], [CsPk [2; 0] a_sig; CsAfter 10].
  split; [exact m_after_typed|]. split; [exact (proj1 after_final_sequence)|].
  split; [exact (proj1 (proj2 after_final_sequence)) | reflexivity].
Qed.

Lemma refuted_version :
  exists (e : env) (ke : keyenv) (kp : bytes -> bool) (m : ms) (items : list bytes) (cs : list constr),
    (exists t, type_of m = ROk t /\ c_base (t_corr t) = BB) /\
    interp e ke kp m (astack_of_items items) = IAccept cs /\
    accepts e (enc ke m) (rev items) = false /\
    e_sequence e <> SEQ_FINAL /\ e_txversion e = 1.
Proof.
  exists (toy_env 0 5 1), toy_ke, toy_kp, m_older, [a_sig], [CsPk [2; 0] a_sig; CsOlder 5].
  split; [exact m_older_typed|]. split; [exact (proj1 older_tx_version_1)|].
  split; [exact (proj1 (proj2 older_tx_version_1))|]. split; [discriminate | reflexivity].
Qed.
