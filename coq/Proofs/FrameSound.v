(* Frame soundness of the correctness types (C06, the "for every input stack" direction of the
   correctness part): for a well-typed fragment, EVERY successful execution of its script, from
   ANY stack and alt stack,
     (Fr) restores the alt stack, touches only a prefix of the stack (the script behaves the same
          on that prefix in every other frame) and leaves the shape its base type promises;
     (Z/O) consumes no element when typed z, exactly one when typed o (for K: counting the
          signature the following CHECKSIG takes);
     (N)  when typed n and the execution is satisfying, the top consumed element is non-empty
          (under [nhyp]: the empty signature never verifies, the empty key is never acceptable);
     (U)  when typed u and a true value is left, that value is exactly [1].
   The induction mirrors the typing rules of Ms/Types.v rule by rule. *)
From Verif Require Import Exec Ser Ast Types TypeCheck SatSpec ExecLemmas Spec TypesSpec ScriptNumProofs TheoremA.
From Verif Require Import FrameBase FrameLeaves FrameWrap FrameComb.
From Coq Require Import Lia.

Section Sound.
  Variable e : env.
  Variable ke : keyenv.

  Definition fstmt (m : ms) : Prop := forall t, type_of m = ROk t -> wf e ke m -> inv e (enc ke m) t.

  Ltac unf H := unfold t_cast_alt, t_cast_swap, t_cast_check, t_cast_dupif, t_cast_verify, t_cast_nonzero,
    t_cast_zeronotequal, t_and_v, t_and_b, t_or_b, t_or_c, t_or_d, t_or_i, t_and_or, lift1, lift2,
    c_cast_alt, c_cast_swap, c_cast_check, c_cast_dupif, c_cast_verify, c_cast_nonzero, c_cast_zeronotequal,
    c_and_v, c_and_b, c_or_b, c_or_c, c_or_d, c_or_i, c_and_or in H; cbn [t_corr t_mall c_base c_input c_dissat c_unit] in H.
  Ltac red_inv := unfold inv in *; cbn [t_corr c_base c_input c_unit c_dissat enc] in *.

  Ltac one_child IH Ht Hwf tx Hg bx ix dx ux mx :=
    cbn [type_of] in Ht; apply rbind_ok in Ht; destruct Ht as [tx [Hx Ht]];
    cbn [wf] in Hwf; pose proof (IH tx Hx Hwf) as Hg; destruct tx as [[bx ix dx ux] mx]; unf Ht.

  Lemma f_alt x : fstmt x -> fstmt (MAlt x).
  Proof.
    intros IH t Ht Hwf. one_child IH Ht Hwf tx Hg bx ix dx ux mx.
    destruct bx; try discriminate. inversion Ht; subst; clear Ht. red_inv. exact (W_alt e _ _ _ Hg).
  Qed.
  Lemma f_swap x : fstmt x -> fstmt (MSwap x).
  Proof.
    intros IH t Ht Hwf. one_child IH Ht Hwf tx Hg bx ix dx ux mx.
    destruct bx; try discriminate; destruct ix; try discriminate; inversion Ht; subst; clear Ht; red_inv.
    - exact (W_swap e _ _ _ Hg (or_introl eq_refl)).
    - exact (W_swap e _ _ _ Hg (or_intror eq_refl)).
  Qed.
  Lemma f_check x : fstmt x -> fstmt (MCheck x).
  Proof.
    intros IH t Ht Hwf. one_child IH Ht Hwf tx Hg bx ix dx ux mx.
    destruct bx; try discriminate. inversion Ht; subst; clear Ht. red_inv. exact (W_check e _ _ Hg).
  Qed.
  Lemma f_dupif x : fstmt x -> fstmt (MDupIf x).
  Proof.
    intros IH t Ht Hwf. one_child IH Ht Hwf tx Hg bx ix dx ux mx.
    destruct bx; try discriminate; destruct ix; try discriminate. inversion Ht; subst; clear Ht. red_inv.
    exact (W_dupif e _ Hg).
  Qed.
  Lemma f_verify x : fstmt x -> fstmt (MVerify x).
  Proof.
    intros IH t Ht Hwf. one_child IH Ht Hwf tx Hg bx ix dx ux mx.
    destruct bx; try discriminate. inversion Ht; subst; clear Ht. red_inv. exact (W_verify e _ _ _ Hg).
  Qed.
  Lemma f_nonzero x : fstmt x -> fstmt (MNonZero x).
  Proof.
    intros IH t Ht Hwf. one_child IH Ht Hwf tx Hg bx ix dx ux mx.
    destruct ix; cbn in Ht; try discriminate; destruct bx; try discriminate; inversion Ht; subst; clear Ht; red_inv;
      exact (W_nonzero e _ _ _ Hg eq_refl).
  Qed.
  Lemma f_zne x : fstmt x -> fstmt (MZeroNotEqual x).
  Proof.
    intros IH t Ht Hwf. one_child IH Ht Hwf tx Hg bx ix dx ux mx.
    destruct bx; try discriminate. inversion Ht; subst; clear Ht. red_inv. exact (W_zne e _ _ _ Hg).
  Qed.

  Ltac two_children IHx IHy Ht Hwf tx ty Hgx Hgy :=
    cbn [type_of] in Ht; apply rbind_ok in Ht; destruct Ht as [tx [Hx Ht]];
    apply rbind_ok in Ht; destruct Ht as [ty [Hy Ht]];
    cbn [wf] in Hwf; destruct Hwf as [Hwx Hwy];
    pose proof (IHx tx Hx Hwx) as Hgx; pose proof (IHy ty Hy Hwy) as Hgy;
    destruct tx as [[bx ix dx ux] mx]; destruct ty as [[b2 i2 d2 u2] m2]; unf Ht.

  Lemma f_and_v x y : fstmt x -> fstmt y -> fstmt (MAndV x y).
  Proof.
    intros IHx IHy t Ht Hwf. two_children IHx IHy Ht Hwf t1 t2 Hgx Hgy.
    destruct bx, b2; try discriminate; inversion Ht; subst; clear Ht; red_inv.
    - exact (C_andv_B e _ _ _ _ _ Hgx Hgy).
    - exact (C_andv_K e _ _ _ _ Hgx Hgy).
    - exact (C_andv_V e _ _ _ _ Hgx Hgy).
  Qed.
  Lemma f_and_b x y : fstmt x -> fstmt y -> fstmt (MAndB x y).
  Proof.
    intros IHx IHy t Ht Hwf. two_children IHx IHy Ht Hwf t1 t2 Hgx Hgy.
    destruct bx, b2; try discriminate; inversion Ht; subst; clear Ht; red_inv.
    exact (C_andb e _ _ _ _ _ _ Hgx Hgy).
  Qed.
  Lemma f_or_b x y : fstmt x -> fstmt y -> fstmt (MOrB x y).
  Proof.
    intros IHx IHy t Ht Hwf. two_children IHx IHy Ht Hwf t1 t2 Hgx Hgy.
    destruct dx; cbn [negb] in Ht; try discriminate. destruct d2; cbn [negb] in Ht; try discriminate.
    destruct bx, b2; try discriminate; inversion Ht; subst; clear Ht; red_inv.
    destruct Hgy as [Hi2 Hgy']. subst i2.
    replace (match ix with IZero => IAny | IOne => IAny | IAny => IAny | IOneNonZero => IAny | IAnyNonZero => IAny end)
      with IAny by (destruct ix; reflexivity).
    exact (C_orb e _ _ _ _ _ _ Hgx (conj eq_refl Hgy')).
  Qed.
  Lemma f_or_c x y : fstmt x -> fstmt y -> fstmt (MOrC x y).
  Proof.
    intros IHx IHy t Ht Hwf. two_children IHx IHy Ht Hwf t1 t2 Hgx Hgy.
    destruct dx; cbn [negb] in Ht; try discriminate. destruct ux; cbn [negb] in Ht; try discriminate.
    destruct bx, b2; try discriminate; inversion Ht; subst; clear Ht; red_inv.
    exact (C_orc e _ _ _ _ _ Hgx Hgy).
  Qed.
  Lemma f_or_d x y : fstmt x -> fstmt y -> fstmt (MOrD x y).
  Proof.
    intros IHx IHy t Ht Hwf. two_children IHx IHy Ht Hwf t1 t2 Hgx Hgy.
    destruct dx; cbn [negb] in Ht; try discriminate. destruct ux; cbn [negb] in Ht; try discriminate.
    destruct bx, b2; try discriminate; inversion Ht; subst; clear Ht; red_inv.
    exact (C_ord e _ _ _ _ _ Hgx Hgy).
  Qed.
  Lemma f_or_i x y : fstmt x -> fstmt y -> fstmt (MOrI x y).
  Proof.
    intros IHx IHy t Ht Hwf. two_children IHx IHy Ht Hwf t1 t2 Hgx Hgy.
    destruct bx, b2; try discriminate; inversion Ht; subst; clear Ht; red_inv.
    - exact (C_ori_B e _ _ _ _ _ _ Hgx Hgy).
    - exact (C_ori_K e _ _ _ _ Hgx Hgy).
    - exact (C_ori_V e _ _ _ _ Hgx Hgy).
  Qed.
  Lemma f_andor a b c : fstmt a -> fstmt b -> fstmt c -> fstmt (MAndOr a b c).
  Proof.
    intros IHa IHb IHc t Ht Hwf.
    cbn [type_of] in Ht. apply rbind_ok in Ht. destruct Ht as [ta [Ha Ht]].
    apply rbind_ok in Ht. destruct Ht as [tb [Hb Ht]]. apply rbind_ok in Ht. destruct Ht as [tc [Hc Ht]].
    cbn [wf] in Hwf. destruct Hwf as [Hwa [Hwb Hwc]].
    pose proof (IHa ta Ha Hwa) as Hga. pose proof (IHb tb Hb Hwb) as Hgb. pose proof (IHc tc Hc Hwc) as Hgc.
    destruct ta as [[ba ia da ua] ma], tb as [[bb ib db ub] mb], tc as [[bc ic dc uc] mc]. unf Ht.
    destruct da; cbn [negb] in Ht; try discriminate. destruct ua; cbn [negb] in Ht; try discriminate.
    destruct ba, bb, bc; try discriminate; inversion Ht; subst; clear Ht; red_inv.
    - exact (C_andor_B e _ _ _ _ _ _ _ _ _ Hga Hgb Hgc).
    - exact (C_andor_K e _ _ _ _ _ _ _ Hga Hgb Hgc).
    - exact (C_andor_V e _ _ _ _ _ _ _ Hga Hgb Hgc).
  Qed.

  (* ---------- thresh ---------- *)
  Lemma enc_tail_stail r : enc_tail ke r = stail (map (enc ke) r).
  Proof. induction r as [|x r IH]; [reflexivity|]. cbn [enc_tail map stail]. rewrite IH. reflexivity. Qed.

  Lemma f_thresh k xs : Forall fstmt xs -> fstmt (MThresh k xs).
  Proof.
    intros IH t Ht Hwf. cbn [type_of] in Ht. fold (tys_of xs) in Ht.
    apply rbind_ok in Ht. destruct Ht as [ts [Hts Ht]]. apply tys_of_ok in Hts.
    cbn [wf] in Hwf. destruct Hwf as [Hk [Hn Hwf]].
    assert (Hall : Forall2 (fun x t => inv e (enc ke x) t) xs ts).
    { clear Ht Hk Hn. revert ts Hts Hwf. induction IH as [|x r Hx Hr IHr]; intros ts Hts Hwf.
      - inversion Hts. constructor.
      - inversion Hts as [|x' t' r' ts' Hxt Hrt]; subst. destruct Hwf as [Hw1 Hw2].
        constructor; [apply Hx; assumption | apply IHr; assumption]. }
    unfold t_threshold in Ht. destruct (c_threshold k (map t_corr ts)) as [c|] eqn:Ec; [|discriminate].
    inversion Ht; subst; clear Ht.
    destruct xs as [|x0 r]; [cbn in Hk; lia|]. inversion Hall as [|x0' t0 r' ts0 Hg0 Hrest]; subst.
    unfold c_threshold in Ec. cbn [map] in Ec. destruct (loop_first (t_corr t0) (map t_corr ts0)) as [Lt Lf].
    destruct (child_ok true (t_corr t0) && forallb (child_ok false) (map t_corr ts0)) eqn:Eok.
    2:{ destruct (Lf eq_refl) as [err He]. rewrite He in Ec. discriminate. }
    rewrite (Lt eq_refl) in Ec. inversion Ec; subst; clear Ec.
    apply andb_prop in Eok. destruct Eok as [Ok0 Okr].
    unfold child_ok in Ok0. destruct t0 as [[b0 i0 d0 u0] m0]. cbn [t_corr c_base c_unit c_dissat] in Ok0.
    destruct b0, u0, d0; try discriminate. unfold inv in Hg0. cbn [t_corr c_base c_input c_unit] in Hg0.
    (* the other children are W, hence typed IAny *)
    assert (HW : Forall (fun s => exists i u, invW e s i u) (map (enc ke) r) /\
                 Forall (fun t => weight (t_corr t) = 2%N) ts0).
    { clear -Hrest Okr. induction Hrest as [|x t r ts Hg Hr IHr]; [split; constructor|].
      cbn [map forallb] in Okr. apply andb_prop in Okr. destruct Okr as [O1 O2]. destruct (IHr O2) as [I1 I2].
      unfold child_ok in O1. destruct t as [[b i d u] m].
      cbn [t_corr c_base c_unit c_dissat] in O1. destruct b, u, d; try discriminate.
      unfold inv in Hg. cbn [t_corr c_base c_input c_unit] in Hg.
      split; constructor; auto.
      - exists i, true. exact Hg.
      - destruct Hg as [-> _]. reflexivity. }
    destruct HW as [HW Hw2].
    unfold inv. cbn [t_corr c_base c_input c_unit]. rewrite enc_thresh, enc_tail_stail.
    apply (C_thresh e _ _ i0 true _ k Hg0 HW).
    - cbn [sumw map t_corr]. unfold weight at 1. cbn [c_input].
      destruct ts0 as [|t1 ts1].
      + left. inversion Hrest; subst. split; [reflexivity|]. cbn [map sumw].
        intros n Hc. destruct i0; cbn in Hc |- *; auto.
      + right. inversion Hw2 as [|? ? Hw Hw']; subst. cbn [map sumw]. rewrite Hw.
        destruct i0; match goal with |- match ?s with _ => _ end = _ => destruct s as [|[p|p|]] eqn:E end;
          try reflexivity; exfalso; lia.
    - match goal with |- isn (match ?s with _ => _ end) = _ => destruct s as [|[p|p|]] end; reflexivity.
  Qed.

  (* ---------- the induction ---------- *)
  Theorem frame_inv : forall m, fstmt m.
  Proof.
    induction m using ms_ind'.
    - intros t Ht _. inversion Ht; subst. exact (L_true e).
    - intros t Ht _. inversion Ht; subst. exact (L_false e).
    - intros t Ht _. inversion Ht; subst. exact (L_pk_k e (kb ke k)).
    - intros t Ht _. inversion Ht; subst. exact (L_pk_h e (kh ke k)).
    - intros t Ht _. inversion Ht; subst. exact (L_pk_h e h).
    - intros t0 Ht _. inversion Ht; subst. exact (L_time e OP_CLTV (Z.of_N t) (or_introl eq_refl)).
    - intros t0 Ht _. inversion Ht; subst. exact (L_time e OP_CSV (Z.of_N t) (or_intror eq_refl)).
    - intros t Ht _. inversion Ht; subst. exact (L_hash e OP_SHA256 (e_sha256 e) h (fun v r al => eq_refl)).
    - intros t Ht _. inversion Ht; subst. exact (L_hash e OP_HASH256 (e_hash256 e) h (fun v r al => eq_refl)).
    - intros t Ht _. inversion Ht; subst. exact (L_hash e OP_RIPEMD160 (e_ripemd160 e) h (fun v r al => eq_refl)).
    - intros t Ht _. inversion Ht; subst. exact (L_hash e OP_HASH160 (e_hash160 e) h (fun v r al => eq_refl)).
    - apply f_alt; assumption.
    - apply f_swap; assumption.
    - apply f_check; assumption.
    - apply f_dupif; assumption.
    - apply f_verify; assumption.
    - apply f_nonzero; assumption.
    - apply f_zne; assumption.
    - apply f_and_v; assumption.
    - apply f_and_b; assumption.
    - apply f_andor; assumption.
    - apply f_or_b; assumption.
    - apply f_or_d; assumption.
    - apply f_or_c; assumption.
    - apply f_or_i; assumption.
    - apply f_thresh; assumption.
    - (* multi *) intros t Ht Hwf. inversion Ht; subst. cbn [wf] in Hwf. destruct Hwf as [Hk [Hn _]].
      unfold inv. cbn [t_multi t_corr c_multi c_base c_input c_unit enc].
      rewrite <- (map_map (kb ke) IPush ks), <- (map_length (kb ke) ks).
      apply L_multi; rewrite map_length; assumption.
    - (* sortedmulti *) intros t Ht Hwf. inversion Ht; subst. cbn [wf] in Hwf. destruct Hwf as [Hk [Hn [_ Hlen]]].
      unfold inv. cbn [t_sortedmulti t_corr c_sortedmulti c_base c_input c_unit enc].
      rewrite <- (map_map (kb ke) IPush (ksort ke ks)), <- Hlen, <- (map_length (kb ke) (ksort ke ks)).
      apply L_multi; rewrite map_length, Hlen; assumption.
    - (* multi_a *) intros t Ht Hwf. inversion Ht; subst. cbn [wf] in Hwf. destruct Hwf as [Hk _].
      destruct ks as [|k0 rest]; [cbn in Hk; lia|].
      exact (L_multi_a e ke k k0 rest).
    - (* sortedmulti_a *) intros t Ht Hwf. inversion Ht; subst. cbn [wf] in Hwf. destruct Hwf as [Hk [_ [_ Hlen]]].
      unfold inv. cbn [t_sortedmulti_a t_corr c_sortedmulti_a c_base c_input c_unit enc].
      destruct (ksort ke ks) as [|k0 rest]; [cbn in Hlen; rewrite <- Hlen in Hk; cbn in Hk; lia|].
      exact (L_multi_a e ke k k0 rest).
  Qed.
End Sound.

(* ================= the predictions, one readable statement per label ================= *)

(* what a base type leaves in place of the consumed prefix *)
Definition out_shape (b : base) (consumed out : stack) : Prop :=
  match b with
  | BB => exists v, out = [v]
  | BV => out = []
  | BK => exists k, out = [k]
  | BW => exists c0 w v, consumed = c0 :: w /\ (out = [v; c0] \/ out = [c0; v])
  end.

(* (Fr) *)
Theorem frame_sound (e : env) (ke : keyenv) (m : ms) (t : ty) :
  type_of m = ROk t -> wf e ke m ->
  forall st al r, exec e (enc ke m) (mkSt st al) = Ok r ->
  exists consumed rest out,
    st = consumed ++ rest /\ r = mkSt (out ++ rest) al /\
    (forall rest' al', exec e (enc ke m) (mkSt (consumed ++ rest') al') = Ok (mkSt (out ++ rest') al')) /\
    out_shape (c_base (t_corr t)) consumed out.
Proof.
  intros Ht Hwf st al r H. pose proof (frame_inv e ke m t Ht Hwf) as Hi. unfold inv in Hi.
  destruct (c_base (t_corr t)).
  - destruct (Hi _ _ _ H) as [c [rest [v [-> [-> [Hfr _]]]]]]. exists c, rest, [v].
    split; [reflexivity|]. split; [reflexivity|]. split; [exact Hfr|]. exists v. reflexivity.
  - destruct (Hi _ _ _ H) as [c [rest [k [-> [-> [Hfr _]]]]]]. exists c, rest, [k].
    split; [reflexivity|]. split; [reflexivity|]. split; [exact Hfr|]. exists k. reflexivity.
  - destruct (Hi _ _ _ H) as [c [rest [-> [-> [Hfr _]]]]]. exists c, rest, [].
    split; [reflexivity|]. split; [reflexivity|]. split; [exact Hfr|]. reflexivity.
  - destruct Hi as [_ Hi]. destruct (Hi _ _ _ H) as [c0 [w [rest [v [sw [-> [-> [Hfr _]]]]]]]].
    exists (c0 :: w), rest, (wout sw v c0).
    split; [reflexivity|]. split; [reflexivity|]. split; [exact (Hfr c0)|].
    exists c0, w, v. split; [reflexivity|]. destruct sw; [left | right]; reflexivity.
Qed.

(* (Fr, W) a W fragment carries the top element untouched: it behaves the same for every carried element *)
Theorem frame_sound_W (e : env) (ke : keyenv) (m : ms) (t : ty) :
  type_of m = ROk t -> wf e ke m -> c_base (t_corr t) = BW ->
  forall st al r, exec e (enc ke m) (mkSt st al) = Ok r ->
  exists c0 w rest v (above : bool),
    st = c0 :: w ++ rest /\
    r = mkSt ((if above then [v; c0] else [c0; v]) ++ rest) al /\
    forall c0' rest' al', exec e (enc ke m) (mkSt (c0' :: w ++ rest') al')
                          = Ok (mkSt ((if above then [v; c0'] else [c0'; v]) ++ rest') al').
Proof.
  intros Ht Hwf Hb st al r H. pose proof (frame_inv e ke m t Ht Hwf) as Hi. unfold inv in Hi. rewrite Hb in Hi.
  destruct Hi as [_ Hi]. destruct (Hi _ _ _ H) as [c0 [w [rest [v [sw [-> [-> [Hfr _]]]]]]]].
  exists c0, w, rest, v, sw. split; [reflexivity|]. split; [reflexivity|].
  intros c0' rest' al'. exact (Hfr c0' rest' al').
Qed.

(* number of arguments: for K the signature under the key (taken by the CHECKSIG to come) counts *)
Definition nargs (b : base) (consumed : stack) : nat :=
  match b with BK => S (length consumed) | _ => length consumed end.

(* (Z/O/N-count) the consumed prefix of the SAME frame decomposition has the promised size *)
Theorem input_class_sound (e : env) (ke : keyenv) (m : ms) (t : ty) :
  type_of m = ROk t -> wf e ke m ->
  forall st al r, exec e (enc ke m) (mkSt st al) = Ok r ->
  exists consumed rest out,
    st = consumed ++ rest /\ r = mkSt (out ++ rest) al /\
    (forall rest' al', exec e (enc ke m) (mkSt (consumed ++ rest') al') = Ok (mkSt (out ++ rest') al')) /\
    match c_base (t_corr t) with
    | BW => c_input (t_corr t) = IAny
    | b => cnt (c_input (t_corr t)) (nargs b consumed)
    end.
Proof.
  intros Ht Hwf st al r H. pose proof (frame_inv e ke m t Ht Hwf) as Hi. unfold inv in Hi.
  destruct (c_base (t_corr t)).
  - destruct (Hi _ _ _ H) as [c [rest [v [-> [-> [Hfr [Hc _]]]]]]]. exists c, rest, [v]. auto.
  - destruct (Hi _ _ _ H) as [c [rest [k [-> [-> [Hfr [Hc _]]]]]]]. exists c, rest, [k]. auto.
  - destruct (Hi _ _ _ H) as [c [rest [-> [-> [Hfr [Hc _]]]]]]. exists c, rest, []. auto.
  - destruct Hi as [Hia Hi]. destruct (Hi _ _ _ H) as [c0 [w [rest [v [sw [-> [-> [Hfr _]]]]]]]].
    exists (c0 :: w), rest, (wout sw v c0). split; [reflexivity|]. split; [reflexivity|]. split; [exact (Hfr c0)|exact Hia].
Qed.

(* (Z) typed z: nothing is consumed -- the whole input stack is the untouched rest *)
Theorem z_sound (e : env) (ke : keyenv) (m : ms) (t : ty) :
  type_of m = ROk t -> wf e ke m -> c_input (t_corr t) = IZero ->
  forall st al r, exec e (enc ke m) (mkSt st al) = Ok r ->
  exists out, r = mkSt (out ++ st) al /\
    (forall st' al', exec e (enc ke m) (mkSt st' al') = Ok (mkSt (out ++ st') al')) /\
    out_shape (c_base (t_corr t)) [] out.
Proof.
  intros Ht Hwf Hz st al r H. pose proof (frame_inv e ke m t Ht Hwf) as Hi. unfold inv in Hi. rewrite Hz in Hi.
  destruct (c_base (t_corr t)).
  - destruct (Hi _ _ _ H) as [c [rest [v [-> [-> [Hfr [Hc _]]]]]]]. cbn in Hc. destruct c; [|discriminate].
    exists [v]. split; [reflexivity|]. split; [exact Hfr|]. exists v. reflexivity.
  - destruct (Hi _ _ _ H) as [c [rest [k [-> [-> [Hfr [Hc _]]]]]]]. cbn in Hc. discriminate.
  - destruct (Hi _ _ _ H) as [c [rest [-> [-> [Hfr [Hc _]]]]]]. cbn in Hc. destruct c; [|discriminate].
    exists []. split; [reflexivity|]. split; [exact Hfr|]. reflexivity.
  - destruct Hi as [Hia _]. discriminate.
Qed.

(* (O) typed o, base B or V: exactly the top element is consumed *)
Theorem o_sound (e : env) (ke : keyenv) (m : ms) (t : ty) :
  type_of m = ROk t -> wf e ke m ->
  c_input (t_corr t) = IOne \/ c_input (t_corr t) = IOneNonZero ->
  c_base (t_corr t) = BB \/ c_base (t_corr t) = BV ->
  forall st al r, exec e (enc ke m) (mkSt st al) = Ok r ->
  exists x rest out, st = x :: rest /\ r = mkSt (out ++ rest) al /\
    (forall rest' al', exec e (enc ke m) (mkSt (x :: rest') al') = Ok (mkSt (out ++ rest') al')) /\
    out_shape (c_base (t_corr t)) [x] out.
Proof.
  intros Ht Hwf Ho Hb st al r H. pose proof (frame_inv e ke m t Ht Hwf) as Hi. unfold inv in Hi.
  destruct Hb as [Hb|Hb]; rewrite Hb in *.
  - destruct (Hi _ _ _ H) as [c [rest [v [-> [-> [Hfr [Hc _]]]]]]].
    assert (Hl : length c = 1%nat) by (destruct Ho as [Ho|Ho]; rewrite Ho in Hc; exact Hc).
    destruct c as [|x [|y c']]; try discriminate. exists x, rest, [v].
    split; [reflexivity|]. split; [reflexivity|]. split; [exact Hfr|]. exists v. reflexivity.
  - destruct (Hi _ _ _ H) as [c [rest [-> [-> [Hfr [Hc _]]]]]].
    assert (Hl : length c = 1%nat) by (destruct Ho as [Ho|Ho]; rewrite Ho in Hc; exact Hc).
    destruct c as [|x [|y c']]; try discriminate. exists x, rest, [].
    split; [reflexivity|]. split; [reflexivity|]. split; [exact Hfr|]. reflexivity.
Qed.

(* (O, K) typed o, base K: the fragment itself only pushes the key; its one argument is the
   signature right under it, which the CHECKSIG of c: takes *)
Theorem o_sound_K (e : env) (ke : keyenv) (m : ms) (t : ty) :
  type_of m = ROk t -> wf e ke m ->
  c_input (t_corr t) = IOne \/ c_input (t_corr t) = IOneNonZero -> c_base (t_corr t) = BK ->
  forall st al r, exec e (enc ke m) (mkSt st al) = Ok r ->
  exists k, r = mkSt (k :: st) al /\
    forall st' al', exec e (enc ke m) (mkSt st' al') = Ok (mkSt (k :: st') al').
Proof.
  intros Ht Hwf Ho Hb st al r H. pose proof (frame_inv e ke m t Ht Hwf) as Hi. unfold inv in Hi. rewrite Hb in Hi.
  destruct (Hi _ _ _ H) as [c [rest [k [-> [-> [Hfr [Hc _]]]]]]].
  assert (Hl : S (length c) = 1%nat) by (destruct Ho as [Ho|Ho]; rewrite Ho in Hc; exact Hc).
  destruct c; [|discriminate]. exists k. split; [reflexivity | exact Hfr].
Qed.

(* (N) typed n: in every satisfying execution the top element of the input stack is not the empty
   vector (and at least one element is consumed: [input_class_sound]).  Satisfying: B leaves a true
   value; V succeeds; K is followed by a CHECKSIG that leaves true ([ksat]).
   Hypotheses on the signature checker: [nhyp] (needed by multi and pk_h only). *)
Theorem n_sound (e : env) (ke : keyenv) (m : ms) (t : ty) :
  nhyp e -> type_of m = ROk t -> wf e ke m -> isn (c_input (t_corr t)) = true ->
  forall st al r, exec e (enc ke m) (mkSt st al) = Ok r ->
  match c_base (t_corr t) with
  | BB => forall v rest', stk r = v :: rest' -> truthy v = true -> top_ne st
  | BV => top_ne st
  | BK => forall k rest', stk r = k :: rest' -> ksat e k rest' -> top_ne st
  | BW => True
  end.
Proof.
  intros Hnh Ht Hwf Hn st al r H. pose proof (frame_inv e ke m t Ht Hwf) as Hi. unfold inv in Hi.
  destruct (c_base (t_corr t)).
  - destruct (Hi _ _ _ H) as [c [rest [v [-> [-> [_ [_ [_ HN]]]]]]]]. intros v' rest' Hs Htv. cbn [stk] in Hs.
    inversion Hs; subst. apply top_ne_app. apply HN; auto.
  - destruct (Hi _ _ _ H) as [c [rest [k [-> [-> [_ [_ HN]]]]]]]. intros k' rest' Hs Hk. cbn [stk] in Hs.
    inversion Hs; subst. apply HN; auto.
  - destruct (Hi _ _ _ H) as [c [rest [-> [-> [_ [_ HN]]]]]]. apply top_ne_app. apply HN; auto.
  - exact I.
Qed.

(* (U) typed u: a true value left by a B fragment is exactly [1]; likewise the value of a W fragment *)
Theorem u_sound (e : env) (ke : keyenv) (m : ms) (t : ty) :
  type_of m = ROk t -> wf e ke m -> c_unit (t_corr t) = true -> c_base (t_corr t) = BB ->
  forall st al r, exec e (enc ke m) (mkSt st al) = Ok r ->
  exists v rest, stk r = v :: rest /\ (truthy v = true -> v = [1%N]).
Proof.
  intros Ht Hwf Hu Hb st al r H. pose proof (frame_inv e ke m t Ht Hwf) as Hi. unfold inv in Hi. rewrite Hb, Hu in Hi.
  destruct (Hi _ _ _ H) as [c [rest [v [-> [-> [_ [_ [HU _]]]]]]]]. exists v, rest. split; [reflexivity|]. exact (HU eq_refl).
Qed.
Theorem u_sound_W (e : env) (ke : keyenv) (m : ms) (t : ty) :
  type_of m = ROk t -> wf e ke m -> c_unit (t_corr t) = true -> c_base (t_corr t) = BW ->
  forall c0 st al r, exec e (enc ke m) (mkSt (c0 :: st) al) = Ok r ->
  exists v rest, (stk r = v :: c0 :: rest \/ stk r = c0 :: v :: rest) /\ (truthy v = true -> v = [1%N]).
Proof.
  intros Ht Hwf Hu Hb c0 st al r H. pose proof (frame_inv e ke m t Ht Hwf) as Hi. unfold inv in Hi. rewrite Hb, Hu in Hi.
  destruct Hi as [_ Hi]. destruct (Hi _ _ _ H) as [c0' [w [rest [v [sw [Hs [-> [_ HU]]]]]]]]. inversion Hs; subst.
  exists v, rest. split; [destruct sw; [left | right]; reflexivity|]. exact (HU eq_refl).
Qed.

(* ================= non-vacuity ================= *)
Definition ex_env : env :=
  mkEnv SvWitnessV0 100 0 2
        (fun k s => bytes_eqb s (k ++ [1%N]))
        (fun k => match k with [] => false | _ => true end)
        (fun b => 1%N :: b) (fun b => 2%N :: b) (fun b => 3%N :: b) (fun b => 4%N :: b).
Definition ex_ke : keyenv := mkKeyEnv (fun k => [2%N; k]) (fun k => [4%N; 2%N; k]) (fun l => l).
(* or_d(c:pk_k(0), and_v(v:c:pk_h(1), after(10))) *)
Definition ex_ms : ms := (MOrD (MCheck (MPkK 0)) (MAndV (MVerify (MCheck (MPkH 1))) (MAfter 10)))%N.
(* thresh(2, c:pk_k(0), s:c:pk_k(1), a:multi(1,2,3)) *)
Definition ex_ms2 : ms := (MThresh 2 [MCheck (MPkK 0); MSwap (MCheck (MPkK 1)); MAlt (MMulti 1 [2; 3])])%N.

Example ex_nhyp : nhyp ex_env.
Proof. split; [intros kbs; destruct kbs; reflexivity | reflexivity]. Qed.
Example ex_typed : exists t, type_of ex_ms = ROk t /\ c_base (t_corr t) = BB /\ c_unit (t_corr t) = false.
Proof. eexists. split; [vm_compute; reflexivity|]. split; reflexivity. Qed.
Example ex_wf : wf ex_env ex_ke ex_ms.
Proof. cbn. repeat split; lia. Qed.
(* satisfied through the first branch: consumes one element; through the second: three *)
Example ex_run1 : exec ex_env (enc ex_ke ex_ms) (mkSt [[2;0;1]; [9]]%N [[7%N]]) = Ok (mkSt [[1]; [9]]%N [[7%N]]).
Proof. vm_compute. reflexivity. Qed.
Example ex_run2 : exec ex_env (enc ex_ke ex_ms) (mkSt [[]; [2;1]; [2;1;1]; [9]]%N [[7%N]]) = Ok (mkSt [[10]; [9]]%N [[7%N]]).
Proof. vm_compute. reflexivity. Qed.
Example ex2_typed : exists t, type_of ex_ms2 = ROk t /\ c_base (t_corr t) = BB /\ c_unit (t_corr t) = true.
Proof. eexists. split; [vm_compute; reflexivity|]. split; reflexivity. Qed.
Example ex2_wf : wf ex_env ex_ke ex_ms2.
Proof. cbn. repeat split; try lia; reflexivity. Qed.
Example ex2_run : exec ex_env (enc ex_ke ex_ms2) (mkSt [[2;0;1]; []; [2;3;1]; []; [9]]%N []) = Ok (mkSt [[1]; [9]]%N []).
Proof. vm_compute. reflexivity. Qed.

(* remark: what n promises is "not the empty vector" (what j: tests with SIZE 0NOTEQUAL), not "script-true":
   a 32-byte preimage that is a negative zero (0x00..0080) satisfies a hash fragment, which is typed n *)
Lemma n_is_nonempty_not_script_true :
  exists (e : env) (ke : keyenv) (m : ms) (t : ty) (x : bytes),
    nhyp e /\ type_of m = ROk t /\ wf e ke m /\ isn (c_input (t_corr t)) = true /\ c_base (t_corr t) = BB /\
    exec e (enc ke m) (mkSt [x] []) = Ok (mkSt [[1%N]] []) /\ x <> [] /\ truthy x = false.
Proof.
  exists ex_env, ex_ke, (MSha256 (1%N :: repeat 0%N 31 ++ [128%N])). eexists. exists (repeat 0%N 31 ++ [128%N]).
  split; [exact ex_nhyp|]. split; [vm_compute; reflexivity|].
  split; [cbn [wf]; intros H; vm_compute in H; discriminate|].
  split; [reflexivity|]. split; [reflexivity|].
  split; [vm_compute; reflexivity|]. split; [vm_compute; discriminate | vm_compute; reflexivity].
Qed.
