(* Bit-level facts about the checksum engine model: the engine step as a GF(2)-linear map on
   40-bit states, its injectivity, and the agreement with the BIP-380 reference step. *)
From Coq Require Import List Bool NArith Lia Btauto.
From Verif Require Import ChecksumModel.
Import ListNotations.
Local Open Scope N_scope.

Arguments N.shiftl : simpl never.
Arguments N.shiftr : simpl never.
Arguments N.land : simpl never.
Arguments N.lor : simpl never.
Arguments N.lxor : simpl never.
Arguments N.ldiff : simpl never.
Arguments N.testbit : simpl never.
Arguments N.pow : simpl never.
Arguments N.mul : simpl never.
Arguments N.add : simpl never.
Arguments N.sub : simpl never.

(* ---------------------------------------------------------------- generic bit lemmas *)
Lemma testbit_high : forall a n m, a < 2 ^ n -> n <= m -> N.testbit a m = false.
Proof.
  intros a n m H Hm. destruct (N.eq_dec a 0) as [->|Hz]; [apply N.bits_0|].
  apply N.bits_above_log2. apply N.log2_lt_pow2 in H; lia.
Qed.

Lemma lt_pow2_bits : forall a n, (forall m, n <= m -> N.testbit a m = false) -> a < 2 ^ n.
Proof.
  intros a n H. destruct (N.eq_dec a 0) as [->|Hz].
  - apply N.neq_0_lt_0. apply N.pow_nonzero. discriminate.
  - apply N.log2_lt_pow2; [lia|]. destruct (N.lt_ge_cases (N.log2 a) n) as [|Hge]; [assumption|].
    specialize (H _ Hge). rewrite N.bit_log2 in H by assumption. discriminate.
Qed.

Lemma lxor_lt : forall a b n, a < 2 ^ n -> b < 2 ^ n -> N.lxor a b < 2 ^ n.
Proof.
  intros. apply lt_pow2_bits. intros m Hm. rewrite N.lxor_spec.
  rewrite (testbit_high a n m), (testbit_high b n m) by assumption. reflexivity.
Qed.

Lemma land_lxor_l : forall a b m, N.land (N.lxor a b) m = N.lxor (N.land a m) (N.land b m).
Proof. intros. apply N.bits_inj. intro n. rewrite ?N.land_spec, ?N.lxor_spec, ?N.land_spec. btauto. Qed.

Lemma lxor_swap4 : forall a b c d, N.lxor (N.lxor a b) (N.lxor c d) = N.lxor (N.lxor a c) (N.lxor b d).
Proof. intros. apply N.bits_inj. intro n. rewrite ?N.lxor_spec. btauto. Qed.

Lemma shiftl_lt : forall a n k, a < 2 ^ n -> N.shiftl a k < 2 ^ (n + k).
Proof. intros. rewrite N.shiftl_mul_pow2, N.pow_add_r. apply N.mul_lt_mono_pos_r; [|assumption].
  apply N.neq_0_lt_0. apply N.pow_nonzero. discriminate. Qed.

Lemma lor_low_is_lxor : forall a e k, e < 2 ^ k -> N.lor (N.shiftl a k) e = N.lxor (N.shiftl a k) e.
Proof.
  intros. symmetry. apply N.lxor_lor. apply N.bits_inj. intro n. rewrite N.land_spec, N.bits_0.
  destruct (N.lt_ge_cases n k).
  - rewrite N.shiftl_spec_low by assumption. reflexivity.
  - rewrite (testbit_high e k n) by assumption. apply andb_false_r.
Qed.

(* ---------------------------------------------------------------- the step as a linear map *)
Definition M35 : N := N.ones 35.
Definition sel (b : bool) (g : N) : N := if b then g else 0.
Definition Gmap (c : N) : N :=
  N.lxor (sel (N.testbit c 0) 0xf5dee51989) (N.lxor (sel (N.testbit c 1) 0xa9fdca3312)
  (N.lxor (sel (N.testbit c 2) 0x1bab10e32d) (N.lxor (sel (N.testbit c 3) 0x3706b1677a)
          (sel (N.testbit c 4) 0x644d626ffd)))).
Definition step (r e : N) : N := N.lxor (N.lxor (N.shiftl (N.land r M35) 5) e) (Gmap (N.shiftr r 35)).

Lemma sel_xorb : forall a b g, sel (xorb a b) g = N.lxor (sel a g) (sel b g).
Proof. intros [] [] g; cbn [xorb sel]; rewrite ?N.lxor_nilpotent, ?N.lxor_0_r, ?N.lxor_0_l; reflexivity. Qed.

Lemma Gmap_lxor : forall a b, Gmap (N.lxor a b) = N.lxor (Gmap a) (Gmap b).
Proof.
  intros. unfold Gmap. rewrite !N.lxor_spec, !sel_xorb.
  apply N.bits_inj. intro n. rewrite ?N.lxor_spec. btauto.
Qed.

Lemma Gmap_0 : Gmap 0 = 0. Proof. reflexivity. Qed.

Lemma Gmap_lt : forall c, Gmap c < 2 ^ 40.
Proof.
  intro c. unfold Gmap.
  destruct (N.testbit c 0), (N.testbit c 1), (N.testbit c 2), (N.testbit c 3), (N.testbit c 4);
    vm_compute; reflexivity.
Qed.

Lemma step_lxor : forall r1 r2 e1 e2,
  step (N.lxor r1 r2) (N.lxor e1 e2) = N.lxor (step r1 e1) (step r2 e2).
Proof.
  intros. unfold step. rewrite N.shiftr_lxor, Gmap_lxor, land_lxor_l, N.shiftl_lxor.
  apply N.bits_inj. intro n. rewrite ?N.lxor_spec. btauto.
Qed.

Lemma step_0_0 : step 0 0 = 0. Proof. reflexivity. Qed.

Lemma step_lt : forall r e, e < 32 -> step r e < 2 ^ 40.
Proof.
  intros. unfold step. apply lxor_lt; [apply lxor_lt|apply Gmap_lt].
  - change 40 with (35 + 5). apply shiftl_lt. unfold M35. rewrite N.land_ones.
    apply N.mod_lt. discriminate.
  - eapply N.lt_trans; [eassumption|reflexivity].
Qed.

Lemma step_small : forall r e, r < 2 ^ 35 -> step r e = N.lxor (N.shiftl r 5) e.
Proof.
  intros. unfold step. rewrite N.shiftr_div_pow2, N.div_small by assumption.
  rewrite Gmap_0, N.lxor_0_r. unfold M35. rewrite N.land_ones, N.mod_small by assumption. reflexivity.
Qed.

(* model's mul_by_x_then_add / input_fe on a 40-bit state *)
Lemma unpack_top : forall r, r < 2 ^ 40 -> unpack r 7 = N.shiftr r 35.
Proof.
  intros. unfold unpack. change (7 * 5) with 35. change 0xff with (N.ones 8). change 0x1f with (N.ones 5).
  assert (N.shiftr r 35 < 2 ^ 5).
  { rewrite N.shiftr_div_pow2. apply N.div_lt_upper_bound; [discriminate|].
    change (2 ^ 35 * 2 ^ 5) with (2 ^ 40). assumption. }
  rewrite !N.land_ones.
  rewrite (N.mod_small (N.shiftr r 35) (2 ^ 8)) by (eapply N.lt_trans; [eassumption|reflexivity]).
  apply N.mod_small. assumption.
Qed.

Lemma ldiff_top : forall r, r < 2 ^ 40 -> N.ldiff r (u64 (N.shiftl 0x1f 35)) = N.land r M35.
Proof.
  intros. apply N.bits_inj. intro n. rewrite N.ldiff_spec, N.land_spec. unfold M35.
  change (u64 (N.shiftl 0x1f 35)) with (N.shiftl (N.ones 5) 35).
  destruct (N.lt_ge_cases n 35) as [Hlt|Hge].
  - rewrite N.shiftl_spec_low by assumption. rewrite N.ones_spec_low by assumption. reflexivity.
  - rewrite N.shiftl_spec_high' by assumption. rewrite (N.ones_spec_high 35) by assumption.
    rewrite andb_false_r. destruct (N.lt_ge_cases n 40).
    + rewrite N.ones_spec_low by lia. apply andb_false_r.
    + rewrite (testbit_high r 40 n) by assumption. reflexivity.
Qed.

Lemma u64_small : forall x, x < 2 ^ 64 -> u64 x = x.
Proof. intros. unfold u64. change U64MASK with (N.ones 64). rewrite N.land_ones. apply N.mod_small. assumption. Qed.

Lemma bit_test : forall xn i, negb (N.land xn (N.shiftl 1 i) =? 0) = N.testbit xn i.
Proof.
  intros. destruct (N.testbit xn i) eqn:E.
  - apply negb_true_iff. apply N.eqb_neq. intro H.
    assert (N.testbit (N.land xn (N.shiftl 1 i)) i = false) by (rewrite H; apply N.bits_0).
    rewrite N.land_spec, E, N.shiftl_spec_high' in H0 by lia. rewrite N.sub_diag in H0. discriminate.
  - apply negb_false_iff. apply N.eqb_eq. apply N.bits_inj. intro n. rewrite N.land_spec, N.bits_0.
    destruct (N.eq_dec n i) as [->|Hn]; [rewrite E; reflexivity|].
    destruct (N.lt_ge_cases n i).
    + rewrite N.shiftl_spec_low by assumption. apply andb_false_r.
    + rewrite N.shiftl_spec_high' by assumption.
      replace (N.testbit 1 (n - i)) with false; [apply andb_false_r|].
      symmetry. apply (testbit_high 1 1); [reflexivity|lia].
Qed.

Lemma input_fe_step : forall r e, r < 2 ^ 40 -> e < 32 -> input_fe r e = step r e.
Proof.
  intros r e Hr He. unfold input_fe, mul_by_x_then_add, CHECKSUM_LENGTH.
  change (8 - 1) with 7. rewrite unpack_top by assumption.
  change (7 * 5) with 35. rewrite ldiff_top by assumption.
  assert (Hs : N.shiftl (N.land r M35) 5 < 2 ^ 40).
  { change 40 with (35 + 5). apply shiftl_lt. unfold M35. rewrite N.land_ones. apply N.mod_lt. discriminate. }
  rewrite u64_small by (eapply N.lt_trans; [exact Hs|reflexivity]).
  rewrite lor_low_is_lxor by exact He.
  cbn [fold_left]. rewrite !bit_test. unfold step, Gmap.
  set (c := N.shiftr r 35). set (x := N.lxor (N.shiftl (N.land r M35) 5) e).
  change (nth (N.to_nat 0) GEN 0) with 0xf5dee51989. change (nth (N.to_nat 1) GEN 0) with 0xa9fdca3312.
  change (nth (N.to_nat 2) GEN 0) with 0x1bab10e32d. change (nth (N.to_nat 3) GEN 0) with 0x3706b1677a.
  change (nth (N.to_nat 4) GEN 0) with 0x644d626ffd.
  destruct (N.testbit c 0), (N.testbit c 1), (N.testbit c 2), (N.testbit c 3), (N.testbit c 4);
    cbn [sel]; rewrite ?N.lxor_0_r, ?N.lxor_0_l, ?N.lxor_assoc; reflexivity.
Qed.

(* BIP-380's reference step is the same map *)
Lemma bip380_step_step : forall r e, bip380_step r e = step r e.
Proof.
  intros. unfold bip380_step, step. cbn [fold_left]. unfold Gmap.
  set (c := N.shiftr r 35). change 0x7ffffffff with M35. set (x := N.lxor (N.shiftl (N.land r M35) 5) e).
  change (nth (N.to_nat 0) GEN 0) with 0xf5dee51989. change (nth (N.to_nat 1) GEN 0) with 0xa9fdca3312.
  change (nth (N.to_nat 2) GEN 0) with 0x1bab10e32d. change (nth (N.to_nat 3) GEN 0) with 0x3706b1677a.
  change (nth (N.to_nat 4) GEN 0) with 0x644d626ffd.
  destruct (N.testbit c 0), (N.testbit c 1), (N.testbit c 2), (N.testbit c 3), (N.testbit c 4);
    cbn [sel]; rewrite ?N.lxor_0_r, ?N.lxor_0_l, ?N.lxor_assoc; reflexivity.
Qed.

(* ---------------------------------------------------------------- the zero-input step is injective *)
(* low five bits of Gmap c determine c (g(0) <> 0 in GF(32)) *)
Lemma Gmap_low_inj : forall c, c < 32 -> N.land (Gmap c) 31 = 0 -> c = 0.
Proof.
  intros c Hc.
  assert (E : c = N.lxor (sel (N.testbit c 0) 1) (N.lxor (sel (N.testbit c 1) 2) (N.lxor (sel (N.testbit c 2) 4)
              (N.lxor (sel (N.testbit c 3) 8) (sel (N.testbit c 4) 16))))).
  { apply N.bits_inj. intro n. rewrite !N.lxor_spec.
    destruct (N.lt_ge_cases n 5) as [Hn|Hn].
    - assert (Hn' : n = 0 \/ n = 1 \/ n = 2 \/ n = 3 \/ n = 4) by lia.
      destruct Hn' as [->|[->|[->|[->| ->]]]];
      destruct (N.testbit c 0), (N.testbit c 1), (N.testbit c 2), (N.testbit c 3), (N.testbit c 4); reflexivity.
    - rewrite (testbit_high c 5 n) by assumption.
      assert (forall b k, k < 32 -> N.testbit (sel b k) n = false) as S.
      { intros b k Hk. destruct b; cbn [sel]; [|apply N.bits_0]. apply (testbit_high k 5); assumption. }
      rewrite !S by reflexivity. reflexivity. }
  unfold Gmap. intro H. rewrite E.
  destruct (N.testbit c 0), (N.testbit c 1), (N.testbit c 2), (N.testbit c 3), (N.testbit c 4);
    vm_compute in H; try discriminate H; reflexivity.
Qed.

Lemma step0_kernel : forall r, r < 2 ^ 40 -> step r 0 = 0 -> r = 0.
Proof.
  intros r Hr H. unfold step in H. rewrite N.lxor_0_r in H. apply N.lxor_eq in H.
  assert (Hc : N.shiftr r 35 < 32).
  { rewrite N.shiftr_div_pow2. apply N.div_lt_upper_bound; [discriminate|]. exact Hr. }
  assert (Hz : N.shiftr r 35 = 0).
  { apply Gmap_low_inj; [assumption|]. rewrite <- H. change 31 with (N.ones 5). rewrite N.land_ones.
    rewrite N.shiftl_mul_pow2. apply N.mod_mul. discriminate. }
  rewrite Hz, Gmap_0 in H. apply N.shiftl_eq_0_iff in H.
  unfold M35 in H. rewrite N.land_ones in H.
  rewrite N.shiftr_div_pow2 in Hz.
  rewrite (N.div_mod r (2 ^ 35)) by discriminate. rewrite Hz, H. reflexivity.
Qed.
