(* From character substitutions to syndromes, and the rejection theorems. *)
From Coq Require Import List Bool Arith NArith Lia.
From Verif Require Import ChecksumModel ChecksumSpec ChecksumBits ChecksumStream ChecksumVerify ChecksumGroups ChecksumSweep.
Import ListNotations.
Local Open Scope N_scope.

Arguments N.shiftl : simpl never.
Arguments N.shiftr : simpl never.
Arguments N.land : simpl never.
Arguments N.lor : simpl never.
Arguments N.lxor : simpl never.
Arguments N.testbit : simpl never.
Arguments N.pow : simpl never.
Arguments N.mul : simpl never.
Arguments N.add : simpl never.
Arguments N.sub : simpl never.

(* ---------------------------------------------------------------- hamming *)
Lemma hamming_refl : forall a, hamming a a = 0%nat.
Proof. induction a as [|x a IH]; [reflexivity|]. cbn [hamming]. rewrite N.eqb_refl, IH. reflexivity. Qed.

Lemma hamming_0_eq : forall a b, length a = length b -> hamming a b = 0%nat -> a = b.
Proof.
  induction a as [|x a IH]; intros [|y b] L H; try discriminate; [reflexivity|].
  cbn [hamming] in H. destruct (N.eqb_spec x y); [|lia]. subst. f_equal. apply IH; [injection L; auto|lia].
Qed.

Lemma hamming_app : forall a a' b b', length a = length a' ->
  hamming (a ++ b) (a' ++ b') = (hamming a a' + hamming b b')%nat.
Proof.
  induction a as [|x a IH]; intros [|y a'] b b' L; try discriminate; [reflexivity|].
  cbn [app hamming]. rewrite IH by (injection L; auto). lia.
Qed.

Lemma hamming_pos_neq : forall a b, (1 <= hamming a b)%nat -> a <> b.
Proof. intros a b H E. subst. rewrite hamming_refl in H. lia. Qed.

(* ---------------------------------------------------------------- stream lengths *)
Lemma stream_len_bound : forall p, (3 * length (stream p) <= 4 * length p + 2)%nat.
Proof.
  intro p. induction p as [| a | a b | a b c r IH] using list_ind3; cbn [stream length]; lia.
Qed.

Lemma ell_add4 : forall e, ell (e + 4) = ell e.
Proof. intro e. unfold ell. replace (e + 4)%nat with (e + 1 * 4)%nat by lia. rewrite Nat.mod_add by discriminate. reflexivity. Qed.

Lemma Rform_ell : forall e r, Rform (ell e) r -> (2 <= ell e <= 4)%nat.
Proof.
  intros e r (f & _ & _ & Hf & _). split; [lia|]. unfold ell.
  pose proof (Nat.mod_upper_bound e 4 ltac:(discriminate)). destruct (e mod 4)%nat; lia.
Qed.

Lemma Rform_lt : forall l r, (l <= 4)%nat -> Rform l r -> r < 2 ^ 40 /\ r <> 0.
Proof.
  intros l r Hl H. assert (In r (Rlist 4)) as I.
  { apply Rform_In. destruct H as (f & x & y & Hf & R). exists f, x, y. split; [lia|exact R]. }
  pose proof Rlist4_lt as B. rewrite forallb_forall in B. specialize (B r I). apply N.ltb_lt in B.
  split; [assumption|].
  assert (forallb (fun r => negb (r =? 0)) (Rlist 4) = true) as Z by (vm_compute; reflexivity).
  rewrite forallb_forall in Z. specialize (Z r I). apply negb_true_iff in Z. apply N.eqb_neq. assumption.
Qed.

(* ---------------------------------------------------------------- one changed character, any length *)
Lemma group3_ok : forall a b c a' b' c' r r',
  allvalid (a :: b :: c :: r) -> allvalid (a' :: b' :: c' :: r') ->
  group_ok [a; b; c] [a'; b'; c'] /\ allvalid r /\ allvalid r'.
Proof.
  intros. unfold group_ok. valid3. repeat split; try (repeat constructor; assumption); cbn [length]; lia.
Qed.

Lemma E1 : forall p p', allvalid p -> allvalid p' -> length p = length p' -> hamming p p' = 1%nat ->
  exists r e k, Rform (ell e) r /\ (2 <= e)%nat /\ (e + k = length (stream p))%nat /\ F 0 (D p p') = Tn k r.
Proof.
  intro p. induction p as [| a | a b | a b c rest IH] using list_ind3; intros p' V V' L H.
  - destruct p'; discriminate.
  - destruct p' as [|a' [|]]; try discriminate.
    exists (F 0 (D [a] [a'])), 2%nat, 0%nat. split; [|split; [lia|split; [reflexivity|reflexivity]]].
    apply (group_one [a] [a']); [|assumption]. unfold group_ok. cbn [length]. repeat split; try assumption; lia.
  - destruct p' as [|a' [|b' [|]]]; try discriminate.
    exists (F 0 (D [a; b] [a'; b'])), 3%nat, 0%nat. split; [|split; [lia|split; [reflexivity|reflexivity]]].
    apply (group_one [a; b] [a'; b']); [|assumption]. unfold group_ok. cbn [length]. repeat split; try assumption; lia.
  - destruct p' as [|a' [|b' [|c' rest']]]; try discriminate.
    destruct (group3_ok _ _ _ _ _ _ _ _ V V') as (G & Vr & Vr').
    assert (Lr : length rest = length rest') by (cbn [length] in L; lia).
    change (a :: b :: c :: rest) with ([a; b; c] ++ rest) in H.
    change (a' :: b' :: c' :: rest') with ([a'; b'; c'] ++ rest') in H.
    rewrite hamming_app in H by reflexivity.
    rewrite D_group. rewrite (stream_group a b c rest), app_length.
    change (length (stream [a; b; c])) with 4%nat.
    destruct (hamming [a; b; c] [a'; b'; c']) as [|[|h]] eqn:H3; try lia.
    + apply hamming_0_eq in H3; [|reflexivity]. injection H3 as <- <- <-.
      destruct (IH rest' Vr Vr' Lr) as (r & e & k & R & He & Hk & HF); [lia|].
      exists r, (e + 4)%nat, k. rewrite ell_add4. split; [assumption|]. split; [lia|]. split; [lia|].
      rewrite D_same. change (length (stream [a; b; c])) with 4%nat. rewrite F_zeros_prefix. exact HF.
    + assert (rest = rest') as <- by (apply hamming_0_eq; [assumption|lia]).
      exists (F 0 (D [a; b; c] [a'; b'; c'])), 4%nat, (length (stream rest)).
      split; [apply (group_one [a; b; c] [a'; b'; c']); assumption|]. split; [lia|]. split; [lia|].
      rewrite D_same. apply F_zeros_suffix.
Qed.

(* ---------------------------------------------------------------- two changed characters, bounded length *)
Lemma E2 : forall p p', allvalid p -> allvalid p' -> length p = length p' -> hamming p p' = 2%nat ->
  (length (stream p) <= SWEEP)%nat ->
  exists r k, r < 2 ^ 40 /\ r <> 0 /\ F 0 (D p p') = Tn k r.
Proof.
  intro p. induction p as [| a | a b | a b c rest IH] using list_ind3; intros p' V V' L H B.
  - destruct p'; discriminate.
  - destruct p' as [|a' [|]]; try discriminate. cbn [hamming] in H. destruct (a =? a'); lia.
  - destruct p' as [|a' [|b' [|]]]; try discriminate.
    assert (G : group_ok [a; b] [a'; b']) by (unfold group_ok; cbn [length]; repeat split; try assumption; lia).
    exists (F 0 (D [a; b] [a'; b'])), 0%nat. split; [apply group_lt; assumption|]. split; [|reflexivity].
    apply group_nonzero; [assumption|]. apply hamming_pos_neq. lia.
  - destruct p' as [|a' [|b' [|c' rest']]]; try discriminate.
    destruct (group3_ok _ _ _ _ _ _ _ _ V V') as (G & Vr & Vr').
    assert (Lr : length rest = length rest') by (cbn [length] in L; lia).
    change (a :: b :: c :: rest) with ([a; b; c] ++ rest) in H.
    change (a' :: b' :: c' :: rest') with ([a'; b'; c'] ++ rest') in H.
    rewrite hamming_app in H by reflexivity.
    rewrite (stream_group a b c rest), app_length in B. change (length (stream [a; b; c])) with 4%nat in B.
    rewrite D_group.
    destruct (hamming [a; b; c] [a'; b'; c']) as [|[|h]] eqn:H3.
    + apply hamming_0_eq in H3; [|reflexivity]. injection H3 as <- <- <-.
      destruct (IH rest' Vr Vr' Lr) as (r & k & R1 & R2 & HF); [lia|lia|].
      exists r, k. split; [assumption|]. split; [assumption|].
      rewrite D_same. change (length (stream [a; b; c])) with 4%nat. rewrite F_zeros_prefix. exact HF.
    + (* one change here, one later *)
      destruct (E1 rest rest' Vr Vr' Lr) as (r2 & e & k & R2 & He & Hk & HF); [lia|].
      pose proof (group_one _ _ G H3) as R1. cbn [length] in R1.
      set (r1 := F 0 (D [a; b; c] [a'; b'; c'])) in *.
      pose proof (Rform_ell e r2 R2) as El.
      assert (I1 : In r1 (Rlist 4)) by (apply Rform_In; assumption).
      destruct (sweep r1 e I1) as [S1 _]; [unfold SWEEP in *; lia|].
      assert (I2 : inR (ell e) r2 = true) by (apply Rform_inR; assumption).
      destruct (Rform_lt 4 r1 ltac:(lia) R1) as [B1 _]. destruct (Rform_lt (ell e) r2 ltac:(lia) R2) as [B2 _].
      exists (N.lxor (Tn e r1) r2), k. split; [apply (lxor_lt _ _ 40); [apply Tn_lt|]; assumption|]. split.
      * intro Z. apply N.lxor_eq in Z. rewrite Z in S1. congruence.
      * rewrite F_app. fold r1. rewrite F_split. rewrite HF.
        rewrite D_length by assumption. rewrite <- Hk. rewrite Tn_add. rewrite <- Tn_lxor. reflexivity.
    + (* two or three changes in this group *)
      assert (rest = rest') as <- by (apply hamming_0_eq; [assumption|lia]).
      exists (F 0 (D [a; b; c] [a'; b'; c'])), (length (stream rest)).
      split; [apply group_lt; assumption|]. split; [|rewrite D_same; apply F_zeros_suffix].
      apply group_nonzero; [assumption|]. apply hamming_pos_neq. lia.
Qed.

(* ---------------------------------------------------------------- syndromes *)
Definition synd (p p' : bytes) : N := Tn 8 (F 0 (D p p')).

Lemma synd_lt : forall p p', allvalid p -> allvalid p' -> synd p p' < 2 ^ 40.
Proof. intros. unfold synd. apply Tn_lt. apply F_lt; [reflexivity|apply D_sym32; assumption]. Qed.

Lemma synd_one_any : forall p p', allvalid p -> allvalid p' -> length p = length p' -> hamming p p' = 1%nat ->
  (1 <= Wt (synd p p'))%nat.
Proof.
  intros p p' V V' L H. destruct (E1 p p' V V' L H) as (r & e & k & R & He & Hk & HF).
  pose proof (Rform_ell e r R) as El. destruct (Rform_lt (ell e) r ltac:(lia) R) as [B NZ].
  apply Wt_pos; [apply synd_lt; assumption|]. unfold synd. rewrite HF.
  apply Tn_nonzero; [apply Tn_lt; assumption|]. apply Tn_nonzero; assumption.
Qed.

Lemma synd_one_bound : forall p p', allvalid p -> allvalid p' -> length p = length p' -> hamming p p' = 1%nat ->
  (length p <= 501)%nat -> (2 <= Wt (synd p p'))%nat.
Proof.
  intros p p' V V' L H B. destruct (E1 p p' V V' L H) as (r & e & k & R & He & Hk & HF).
  pose proof (Rform_ell e r R) as El. pose proof (stream_len_bound p) as SB.
  assert (I : In r (Rlist 4)) by (apply (Rlist_mono (ell e)); [assumption|apply Rform_In; assumption]).
  unfold synd. rewrite HF, <- Tn_add.
  destruct (sweep r (k + 8) I) as [_ [S|S]]; [unfold SWEEP; lia|lia|exact S].
Qed.

Lemma synd_two : forall p p', allvalid p -> allvalid p' -> length p = length p' -> hamming p p' = 2%nat ->
  (length p <= 501)%nat -> (1 <= Wt (synd p p'))%nat.
Proof.
  intros p p' V V' L H B. pose proof (stream_len_bound p) as SB.
  destruct (E2 p p' V V' L H) as (r & k & R1 & R2 & HF); [unfold SWEEP; lia|].
  apply Wt_pos; [apply synd_lt; assumption|]. unfold synd. rewrite HF.
  apply Tn_nonzero; [apply Tn_lt; assumption|]. apply Tn_nonzero; assumption.
Qed.

(* ---------------------------------------------------------------- comparison of the eight characters *)
Lemma cks_edit : forall p p', length p = length p' ->
  cks p' = chars_of (N.lxor (F 1 (stream p ++ TARGET)) (synd p p')).
Proof. intros. unfold cks, synd. rewrite (resid_diff p p') by assumption. reflexivity. Qed.

Lemma reject_core : forall p p' cs', length p = length p' ->
  (hamming (cks p) cs' < Wt (synd p p'))%nat -> cks p' <> cs'.
Proof.
  intros p p' cs' L H E. subst cs'. rewrite (cks_edit p p' L) in H. unfold cks in H at 1.
  rewrite hamming_chars in H. lia.
Qed.

(* ---------------------------------------------------------------- strings *)
Lemma split_at : forall (s' : bytes) n, (n < length s')%nat ->
  exists p' x c', s' = p' ++ x :: c' /\ length p' = n.
Proof.
  intros s' n H. exists (firstn n s'). destruct (skipn n s') as [|x c'] eqn:E.
  - exfalso. assert (length (skipn n s') = 0%nat) by (rewrite E; reflexivity). rewrite skipn_length in H0. lia.
  - exists x, c'. split; [rewrite <- E; symmetry; apply firstn_skipn|]. rewrite firstn_length. lia.
Qed.

Lemma verify_badlen : forall a b, allvalid (a ++ HASH :: b) -> ~ In HASH b -> length b <> 8%nat ->
  rejected (verify_checksum (a ++ HASH :: b)).
Proof.
  intros a b V Hn Hl. apply allvalid_app in V. destruct V as [Va Vb]. inversion Vb; subst.
  rewrite verify_hash by assumption.
  replace (blen b =? CHECKSUM_LENGTH) with false; [exact I|].
  symmetry. apply N.eqb_neq. unfold blen, CHECKSUM_LENGTH. lia.
Qed.

(* the master statement: [budget] bounds the number of substituted characters; [HW] is what the
   finite/algebraic analysis supplies about payload edits *)
Lemma edits_rejected : forall (budget : nat) s p s',
  verify_checksum s = Ok p -> In HASH s -> length s' = length s ->
  (1 <= hamming s s' <= budget)%nat ->
  (forall p', allvalid p' -> length p' = length p -> (1 <= hamming p p' <= budget)%nat ->
              (budget - hamming p p' < Wt (synd p p'))%nat) ->
  rejected (verify_checksum s') \/ sep_replaced p s'.
Proof.
  intros budget s p s' Hv Hh Hl Hd HW.
  destruct (verify_ok_inv s p Hv Hh) as [Vp Es].
  destruct (chars_of_props (F 1 (stream p ++ TARGET))) as (C8 & CV & CH). fold (cks p) in C8, CV, CH.
  assert (Ls : length s = (length p + 9)%nat) by (rewrite Es, app_length; cbn [length]; rewrite C8; lia).
  destruct (allvalid_dec s') as [V'|NV'].
  2:{ left. destruct (verify_invalid s' NV') as [q ->]. exact I. }
  destruct (split_at s' (length p)) as (p' & x & c' & Es' & Lp'); [lia|].
  assert (Lc' : length c' = 8%nat) by (rewrite Es', app_length in Hl; cbn [length] in Hl; lia).
  rewrite Es' in V'. pose proof V' as V'0. apply allvalid_app in V'. destruct V' as [Vp' Vxc]. inversion Vxc as [|? ? Vx Vc']; subst x0 l.
  rewrite Es in Hd. rewrite Es' in Hd. rewrite hamming_app in Hd by (symmetry; assumption). cbn [hamming] in Hd.
  destruct (N.eq_dec x HASH) as [->|Nx].
  - (* the separator is still there *)
    rewrite N.eqb_refl in Hd. left. rewrite Es'.
    destruct (in_dec N.eq_dec HASH c') as [Ic|Nc].
    + (* a new '#' inside the checksum: it becomes the last one, and what follows is shorter than 8 *)
      destruct (last_hash_split c' Ic) as (a & b & Ec & Hb).
      replace (p' ++ HASH :: c') with ((p' ++ HASH :: a) ++ HASH :: b) by (rewrite Ec, <- app_assoc; reflexivity).
      apply verify_badlen; [rewrite <- app_assoc; cbn [app]; rewrite <- Ec; assumption|assumption|].
      rewrite Ec, app_length in Lc'. cbn [length] in Lc'. lia.
    + rewrite verify_hash by assumption.
      replace (blen c' =? CHECKSUM_LENGTH) with true by (symmetry; apply N.eqb_eq; unfold blen, CHECKSUM_LENGTH; lia).
      cbn [negb]. replace (bytes_eqb (cks p') c') with false; [exact I|].
      symmetry. apply not_true_iff_false. rewrite bytes_eqb_eq.
      destruct (Nat.eq_dec (hamming p p') 0) as [Z|NZ].
      * apply hamming_0_eq in Z; [|symmetry; assumption]. subst p'. rewrite hamming_refl in Hd. apply hamming_pos_neq. lia.
      * apply (reject_core p); [symmetry; assumption|].
        specialize (HW p' Vp' Lp' ltac:(lia)). lia.
  - (* the separator itself was substituted *)
    destruct (in_dec N.eq_dec HASH s') as [Is|Ns].
    + left. destruct (last_hash_split s' Is) as (a & b & Eab & Hb).
      rewrite Eab. apply verify_badlen; [rewrite <- Eab, Es'; assumption|assumption|].
      intro Lb. assert (La : length a = length p') by (rewrite Eab, app_length in Hl; cbn [length] in Hl; lia).
      rewrite Es' in Eab.
      assert (X : nth (length p') (p' ++ x :: c') 0 = nth (length a) (a ++ HASH :: b) 0) by (rewrite La, Eab; reflexivity).
      rewrite !nth_middle in X. contradiction.
    + right. unfold sep_replaced. split; [rewrite Es', <- Lp', nth_middle; assumption|].
      split; [assumption|]. apply verify_nohash; [rewrite Es'; assumption|assumption].
Qed.
