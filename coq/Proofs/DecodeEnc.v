(* C04 [T2] decode_enc, first half: the decoder reconstructs every miniscript in DECODER NORMAL
   FORM exactly (AST identity).  Normal form = what the stack machine can produce:
     chain  ::= atom | and_v(chain, atom)                      (and_v left-nested, hoisted)
     atom   ::= leaf | c:atom | v:atom | n:atom | d:chain | j:chain
              | and_b(atom, W) | or_b(atom, W) | or_d(atom, chain) | or_c(atom, chain)
              | or_i(chain, chain) | andor(atom, chain, chain) | thresh(k, atom, W...)
     W      ::= a:chain | s:chain
   with pk_h written as expr_raw_pkh and sortedmulti(_a) as multi(_a) of the sorted keys. *)
From Coq Require Import Lia.
From Verif Require Import DecodeModel CodecSpec EncProofs DecodeProofs.
Local Open Scope N_scope.

(* ------------------------------------------------------------------ machine runs *)
Inductive steps (e : denv) : dstate -> dstate -> Prop :=
| steps_refl s : steps e s s
| steps_cons s s' s'' : step e s = SCont s' -> steps e s' s'' -> steps e s s''.

Lemma steps_trans e a b c : steps e a b -> steps e b c -> steps e a c.
Proof. induction 1; [auto|]. intros H2. eapply steps_cons; [eassumption|auto]. Qed.

Lemma steps_one e s s' : step e s = SCont s' -> steps e s s'.
Proof. intros H. eapply steps_cons; [exact H|apply steps_refl]. Qed.

Lemma run_mono e : forall f s r, run e f s = r -> r <> OFuel -> forall f', (f <= f')%nat -> run e f' s = r.
Proof.
  induction f as [|f IH]; intros s r H Hr f' Hf; [cbn in H; congruence|].
  destruct f' as [|f']; [lia|]. cbn [run] in *.
  destruct (step e s); try exact H. apply (IH _ _ H Hr). lia.
Qed.

Lemma steps_run e s s' : steps e s s' -> forall f r, run e f s' = r -> r <> OFuel ->
  exists f', run e f' s = r.
Proof.
  induction 1 as [s|s s1 s2 Hs _ IH]; intros f r Hr Hnf; [eauto|].
  destruct (IH f r Hr Hnf) as [f' Hf']. exists (S f'). cbn [run]. rewrite Hs. exact Hf'.
Qed.

(* ------------------------------------------------------------------ decoder normal form *)
Inductive kind := KAtom | KChain | KW.
Definition notw (k : kind) : bool := match k with KW => false | _ => true end.

Fixpoint dnf (k : kind) (m : ms) {struct m} : bool :=
  match m with
  | MAndV c x => match k with KChain => dnf KChain c && dnf KAtom x | _ => false end
  | MAlt x | MSwap x => match k with KW => dnf KChain x | _ => false end
  | MTrue | MFalse | MPkK _ | MRawPkH _ | MAfter _ | MOlder _
  | MSha256 _ | MHash256 _ | MRipemd160 _ | MHash160 _ | MMulti _ _ | MMultiA _ _ => notw k
  | MPkH _ | MSortedMulti _ _ | MSortedMultiA _ _ => false
  | MCheck x | MVerify x | MZeroNotEqual x => notw k && dnf KAtom x
  | MDupIf x | MNonZero x => notw k && dnf KChain x
  | MAndB x y | MOrB x y => notw k && dnf KAtom x && dnf KW y
  | MOrD x y | MOrC x y => notw k && dnf KAtom x && dnf KChain y
  | MOrI x y => notw k && dnf KChain x && dnf KChain y
  | MAndOr a b c => notw k && dnf KAtom a && dnf KChain b && dnf KChain c
  | MThresh _ xs =>
    match xs with
    | [] => false
    | x0 :: ws =>
      notw k && dnf KAtom x0 &&
      (fix go (l : list ms) : bool := match l with [] => true | w :: r => dnf KW w && go r end) ws
    end
  end.

Lemma dnf_atom_chain m : dnf KAtom m = true -> dnf KChain m = true.
Proof. destruct m; cbn; auto; try discriminate; destruct xs; auto. Qed.

(* ------------------------------------------------------------------ last tokens *)
Definition last_tok (ke : keyenv) : ms -> token :=
  fix lt (m : ms) : token :=
  match m with
  | MTrue => TkNum 1 | MFalse => TkNum 0
  | MPkK k => key_token (kb ke k)
  | MPkH _ | MRawPkH _ => TkVerify
  | MAfter _ => TkCheckLockTimeVerify | MOlder _ => TkCheckSequenceVerify
  | MSha256 _ | MHash256 _ | MRipemd160 _ | MHash160 _ => TkEqual
  | MAlt _ => TkFromAltStack
  | MSwap x => lt x
  | MCheck _ => TkCheckSig
  | MDupIf _ | MNonZero _ | MAndOr _ _ _ | MOrD _ _ | MOrC _ _ | MOrI _ _ => TkEndIf
  | MVerify _ => TkVerify
  | MZeroNotEqual _ => TkZeroNotEqual
  | MAndV _ y => lt y
  | MAndB _ _ => TkBoolAnd | MOrB _ _ => TkBoolOr
  | MThresh _ _ => TkEqual
  | MMulti _ _ | MSortedMulti _ _ => TkCheckMultiSig
  | MMultiA _ _ | MSortedMultiA _ _ => TkNumEqual
  end.

Lemma mtoks_last ke : forall m, exists init, mtoks ke m = init ++ [last_tok ke m].
Proof.
  induction m using ms_ind2; cbn [mtoks last_tok hash_tokens];
    try (eexists; rewrite ?app_assoc; reflexivity);
    try (eexists [_]; reflexivity); try (eexists [_; _; _; _]; reflexivity);
    try (eexists [_; _; _; _; _; _]; reflexivity).
  - exists []. reflexivity.
  - exists []. reflexivity.
  - exists []. reflexivity.
  - (* swap *) destruct IHm as [i Hi]. exists ([TkSwap] ++ i). rewrite Hi, app_assoc. reflexivity.
  - (* and_v *) destruct IHm2 as [i Hi]. exists (mtoks ke m1 ++ i). rewrite Hi, app_assoc. reflexivity.
  - (* thresh *) eexists (_ ++ [TkNum k]). rewrite <- app_assoc. reflexivity.
  - exists ([TkNum k] ++ map (fun key => key_token (kb ke key)) ks ++ [TkNum (nlen ks)]).
    rewrite <- !app_assoc. reflexivity.
  - exists ([TkNum k] ++ map (fun key => key_token (kb ke key)) (ksort ke ks) ++ [TkNum (nlen ks)]).
    rewrite <- !app_assoc. reflexivity.
  - eexists (_ ++ [TkNum k]). rewrite <- app_assoc. reflexivity.
  - eexists (_ ++ [TkNum k]). rewrite <- app_assoc. reflexivity.
Qed.

Lemma rev_mtoks ke m pre : exists r, rev (mtoks ke m) ++ pre = last_tok ke m :: r.
Proof.
  destruct (mtoks_last ke m) as [i Hi]. rewrite Hi, rev_app_distr. cbn [rev app]. eauto.
Qed.

(* tokens a push can lex to are never structural *)
Definition plain (t : token) : Prop :=
  match t with
  | TkIf | TkNotIf | TkElse | TkToAltStack | TkSwap | TkFromAltStack | TkAdd | TkIfDup => False
  | _ => True
  end.
Lemma key_token_plain b : plain (key_token b).
Proof. unfold key_token, push_token. repeat match goal with |- context [if ?c then _ else _] => destruct c end; exact I. Qed.

Lemma last_tok_plain ke : forall m k, k <> KW -> dnf k m = true -> plain (last_tok ke m).
Proof.
  induction m using ms_ind2; intros kd Hk Hd; cbn [last_tok]; try exact I; try apply key_token_plain.
  - (* alt *) cbn in Hd. destruct kd; try discriminate. contradiction.
  - (* swap *) cbn in Hd. destruct kd; try discriminate. contradiction.
  - (* and_v *) cbn in Hd. destruct kd; try discriminate. apply andb_prop in Hd. destruct Hd as [_ Hd].
    apply (IHm2 KAtom); [discriminate|exact Hd].
Qed.

Lemma plain_is_and_v t r : plain t -> is_and_v (t :: r) = true.
Proof. destruct t; cbn; intros H; try reflexivity; contradiction. Qed.

(* ------------------------------------------------------------------ the simulation *)
Section Sim.
  Variable e : denv.
  Notation ke := (d_ke e).

  Definition fa_ok (m : ms) : Prop := from_ast e m = inr m.

  (* a key the decoder maps back to its index, lexed as the token class the arm expects *)
  Definition key_any (k : key) : Prop :=
    d_key e (kb ke k) = Some k /\ (blen (kb ke k) = 32 \/ blen (kb ke k) = 33 \/ blen (kb ke k) = 65).
  Definition key_ecdsa (k : key) : Prop :=
    d_key e (kb ke k) = Some k /\ (blen (kb ke k) = 33 \/ blen (kb ke k) = 65).
  Definition key_xonly (k : key) : Prop := d_key e (kb ke k) = Some k /\ blen (kb ke k) = 32.

  (* what the decoder checks while rebuilding a normal-form term: from_ast at every inner
     node, the range checks of the leaves, decodable keys *)
  Fixpoint dec_ok (m : ms) : Prop :=
    match m with
    | MTrue | MFalse | MRawPkH _ | MSha256 _ | MHash256 _ | MRipemd160 _ | MHash160 _ => True
    | MPkK k => key_any k
    | MPkH _ | MSortedMulti _ _ | MSortedMultiA _ _ => False
    | MAfter t => 1 <= t <= 2147483647
    | MOlder t => 1 <= t < 2147483648
    | MAlt x | MSwap x | MCheck x | MDupIf x | MVerify x | MNonZero x | MZeroNotEqual x => fa_ok m /\ dec_ok x
    | MAndV x y | MAndB x y | MOrB x y | MOrD x y | MOrC x y | MOrI x y => fa_ok m /\ dec_ok x /\ dec_ok y
    | MAndOr x y z => fa_ok m /\ dec_ok x /\ dec_ok y /\ dec_ok z
    | MThresh k xs =>
      fa_ok m /\ 1 <= k <= nlen xs /\
      (fix go (l : list ms) : Prop := match l with [] => True | x :: r => dec_ok x /\ go r end) xs
    | MMulti k ks => 1 <= k <= nlen ks /\ nlen ks <= 20 /\ Forall key_ecdsa ks
    | MMultiA k ks => 1 <= k <= nlen ks /\ nlen ks <= 999 /\ Forall key_xonly ks
    end.
  Fixpoint dec_ok_list (l : list ms) : Prop := match l with [] => True | x :: r => dec_ok x /\ dec_ok_list r end.

  Definition st (toks : list token) (nts : list nonterm) (terms : list ms) : dstate := mkDs toks nts terms.

  Definition sim_atom (m : ms) : Prop := forall pre nts terms,
    steps e (st (rev (mtoks ke m) ++ pre) (NtExpression :: nts) terms) (st pre nts (m :: terms)).
  Definition sim_chain (m : ms) : Prop := forall pre nts terms, is_and_v pre = false ->
    steps e (st (rev (mtoks ke m) ++ pre) (NtExpression :: NtMaybeAndV :: nts) terms) (st pre nts (m :: terms)).
  Definition sim_andv (m : ms) : Prop := forall pre nts terms y, is_and_v pre = false -> fa_ok (MAndV m y) ->
    steps e (st (rev (mtoks ke m) ++ pre) (NtExpression :: NtAndV :: nts) (y :: terms)) (st pre nts (MAndV m y :: terms)).
  Definition sim_w (m : ms) : Prop := forall pre nts terms,
    steps e (st (rev (mtoks ke m) ++ pre) (NtWExpression :: nts) terms) (st pre nts (m :: terms)).

  Definition sim (m : ms) : Prop :=
    dec_ok m ->
    (dnf KAtom m = true -> sim_atom m) /\
    (dnf KChain m = true -> sim_chain m /\ sim_andv m) /\
    (dnf KW m = true -> sim_w m).

  (* ---- single machine steps ---- *)
  Lemma step_reduce1 nt f toks nts x terms :
    (forall t n tm, step e (st t (nt :: n) tm) = reduce1 e f t n tm) -> fa_ok (f x) ->
    step e (st toks (nt :: nts) (x :: terms)) = SCont (st toks nts (f x :: terms)).
  Proof. intros Hs Hf. rewrite Hs. unfold reduce1, reduce0. rewrite Hf. reflexivity. Qed.

  Lemma step_reduce2 nt f toks nts x y terms :
    (forall t n tm, step e (st t (nt :: n) tm) = reduce2 e f t n tm) -> fa_ok (f x y) ->
    step e (st toks (nt :: nts) (x :: y :: terms)) = SCont (st toks nts (f x y :: terms)).
  Proof. intros Hs Hf. rewrite Hs. unfold reduce2, reduce0. rewrite Hf. reflexivity. Qed.

  Lemma step_andv_reduce toks nts x y terms : is_and_v toks = false -> fa_ok (MAndV x y) ->
    step e (st toks (NtAndV :: nts) (x :: y :: terms)) = SCont (st toks nts (MAndV x y :: terms)).
  Proof. intros Ha Hf. cbn [step st ds_nts ds_toks ds_terms]. rewrite Ha. unfold reduce2, reduce0. rewrite Hf. reflexivity. Qed.

  Lemma step_threshw_other k n t r nts terms : plain t ->
    step e (st (t :: r) (NtThreshW k n :: nts) terms) = SCont (st (t :: r) (NtExpression :: NtThreshE k (n + 1) :: nts) terms).
  Proof. destruct t; cbn; intros H; try reflexivity; contradiction. Qed.
  Lemma step_wexp_other t r nts terms : plain t ->
    step e (st (t :: r) (NtWExpression :: nts) terms) = SCont (st (t :: r) (NtExpression :: NtMaybeAndV :: NtSwap :: nts) terms).
  Proof. destruct t; cbn; intros H; try reflexivity; contradiction. Qed.
  Lemma step_endifnotif_other t r nts terms : plain t ->
    step e (st (t :: r) (NtEndIfNotIf :: nts) terms) = SCont (st (t :: r) (NtExpression :: NtOrC :: nts) terms).
  Proof. destruct t; cbn; intros H; try reflexivity; contradiction. Qed.
  Lemma step_verify_other t r nts terms : t <> TkEqual ->
    step e (st (TkVerify :: t :: r) (NtExpression :: nts) terms) = SCont (st (t :: r) (NtExpression :: NtVerify :: nts) terms).
  Proof. destruct t; cbn; intros H; try reflexivity; congruence. Qed.
  Lemma step_maybe_yes toks nts terms : is_and_v toks = true ->
    step e (st toks (NtMaybeAndV :: nts) terms) = SCont (st toks (NtExpression :: NtAndV :: nts) terms).
  Proof. intros H. cbn [step st ds_nts ds_toks ds_terms]. rewrite H. reflexivity. Qed.
  Lemma step_maybe_no toks nts terms : is_and_v toks = false ->
    step e (st toks (NtMaybeAndV :: nts) terms) = SCont (st toks nts terms).
  Proof. intros H. cbn [step st ds_nts ds_toks ds_terms]. rewrite H. reflexivity. Qed.
  Lemma step_andv_more toks nts terms : is_and_v toks = true ->
    step e (st toks (NtAndV :: nts) terms) = SCont (st toks (NtMaybeAndV :: NtAndV :: nts) terms).
  Proof. intros H. cbn [step st ds_nts ds_toks ds_terms]. rewrite H. reflexivity. Qed.

  Lemma is_and_v_chain m pre : dnf KChain m = true -> is_and_v (rev (mtoks ke m) ++ pre) = true.
  Proof.
    intros Hd. destruct (rev_mtoks ke m pre) as [r ->]. apply plain_is_and_v.
    apply (last_tok_plain ke m KChain); [discriminate|exact Hd].
  Qed.

  (* ---- an atom is a chain of one ---- *)
  Lemma atom_to_chain m : sim_atom m -> sim_chain m /\ sim_andv m.
  Proof.
    intros Ha. split.
    - intros pre nts terms Hp. eapply steps_trans; [apply Ha|]. apply steps_one, step_maybe_no, Hp.
    - intros pre nts terms y Hp Hf. eapply steps_trans; [apply Ha|]. apply steps_one, step_andv_reduce; assumption.
  Qed.

  Lemma key_token_32 b : blen b = 32 -> key_token b = TkBytes32 b.
  Proof. intros H. unfold key_token, push_token. rewrite H. reflexivity. Qed.
  Lemma key_token_33 b : blen b = 33 -> key_token b = TkBytes33 b.
  Proof. intros H. unfold key_token, push_token. rewrite H. reflexivity. Qed.
  Lemma key_token_65 b : blen b = 65 -> key_token b = TkBytes65 b.
  Proof. intros H. unfold key_token, push_token. rewrite H. reflexivity. Qed.

  Lemma snoc_app {A} (a : list A) x b : (a ++ [x]) ++ b = a ++ x :: b.
  Proof. rewrite <- app_assoc. reflexivity. Qed.

  (* ---- multi: the key loop ---- *)
  Lemma multi_keys_run : forall ks acc rest, Forall key_ecdsa ks ->
    multi_keys e (length ks) (rev (map (fun k => key_token (kb ke k)) ks) ++ rest) acc = inr (ks ++ acc, rest).
  Proof.
    intros ks. induction ks as [|k ks IH] using rev_ind; intros acc rest Hk; [reflexivity|].
    apply Forall_app in Hk. destruct Hk as [Hks Hk]. inversion Hk as [|? ? [Hd Hl] _]; subst.
    rewrite map_app, rev_app_distr, app_length. cbn [map rev app length]. rewrite Nat.add_comm. cbn [Nat.add].
    destruct Hl as [Hl|Hl]; [rewrite (key_token_33 _ Hl)|rewrite (key_token_65 _ Hl)];
      cbn [multi_keys]; rewrite Hd; rewrite IH by exact Hks; rewrite (snoc_app ks k acc); reflexivity.
  Qed.

  Lemma multi_a_keys_run : forall ks acc rest, Forall key_xonly ks ->
    (match rest with TkCheckSigAdd :: _ => False | _ => True end) ->
    multi_a_keys e (rev (multi_a_tokens ke ks) ++ rest) acc = inr (ks ++ acc, rest).
  Proof.
    intros ks. induction ks as [|k ks IH] using rev_ind; intros acc rest Hk Hr.
    - cbn [multi_a_tokens rev app]. destruct rest as [|t r]; [reflexivity|]. destruct t; try reflexivity. contradiction.
    - apply Forall_app in Hk. destruct Hk as [Hks Hk]. inversion Hk as [|? ? [Hd Hl] _]; subst.
      assert (Ht : forall l, multi_a_tokens ke (l ++ [k]) = multi_a_tokens ke l ++ [key_token (kb ke k); TkCheckSigAdd]).
      { induction l as [|a l IHl]; [reflexivity|]. cbn [app multi_a_tokens]. rewrite IHl. reflexivity. }
      rewrite Ht, rev_app_distr. cbn [rev app]. rewrite (key_token_32 _ Hl). cbn [multi_a_keys]. rewrite Hd.
      rewrite IH by assumption. rewrite (snoc_app ks k acc). reflexivity.
  Qed.

  (* ---- thresh: the W loop ---- *)
  Fixpoint tail_toks (ws : list ms) : list token :=
    match ws with [] => [] | w :: r => mtoks ke w ++ [TkAdd] ++ tail_toks r end.
  Lemma tail_toks_snoc ws w : tail_toks (ws ++ [w]) = tail_toks ws ++ mtoks ke w ++ [TkAdd].
  Proof. induction ws as [|a ws IH]; cbn [app tail_toks]; [reflexivity|]. rewrite IH, <- !app_assoc. reflexivity. Qed.

  Lemma thresh_loop k : forall ws, Forall sim_w ws -> forall n rest nts terms,
    steps e (st (rev (tail_toks ws) ++ rest) (NtThreshW k n :: nts) terms)
            (st rest (NtThreshW k (n + nlen ws) :: nts) (ws ++ terms)).
  Proof.
    intros ws. induction ws as [|w ws IH] using rev_ind; intros Hw n rest nts terms.
    - cbn [tail_toks rev app]. unfold nlen. cbn [length]. rewrite N.add_0_r. apply steps_refl.
    - apply Forall_app in Hw. destruct Hw as [Hws Hw]. inversion Hw as [|? ? Hsw _]; subst.
      rewrite tail_toks_snoc, !rev_app_distr. cbn [rev app]. rewrite <- !app_assoc. cbn [app].
      eapply steps_cons; [reflexivity|]. cbn [ds_toks ds_nts ds_terms st].
      eapply steps_trans; [apply Hsw|].
      eapply steps_trans; [apply (IH Hws)|].
      unfold nlen. rewrite app_length. cbn [length].
      replace (n + 1 + N.of_nat (length ws)) with (n + N.of_nat (length ws + 1)) by lia. apply steps_refl.
  Qed.

  Lemma pop_n_app (a b : list ms) : pop_n (length a) (a ++ b) = Some (a, b).
  Proof. induction a as [|x a IH]; [reflexivity|]. cbn [length pop_n app]. rewrite IH. reflexivity. Qed.

  (* normalise reversed token lists *)
  Ltac nrev := rewrite ?rev_app_distr; cbn [rev app]; rewrite <- ?app_assoc; cbn [app].
  Ltac one := eapply steps_cons; [reflexivity|]; cbn [ds_toks ds_nts ds_terms st].
  (* a reduce step whose from_ast succeeds by hypothesis Hf *)
  Ltac redu Hf := apply steps_one; cbn [step st ds_nts ds_toks ds_terms]; unfold reduce1, reduce2, reduce0; rewrite Hf; reflexivity.
  Ltac red_then Hf := eapply steps_cons; [cbn [step st ds_nts ds_toks ds_terms]; unfold reduce1, reduce2, reduce0; rewrite Hf; reflexivity|].

  Lemma steps_inv s s' : steps e s s' -> s = s' \/ exists s1, step e s = SCont s1 /\ steps e s1 s'.
  Proof. destruct 1; [left; reflexivity|right; eauto]. Qed.

  Lemma dec_list_fix l :
    (fix go (l : list ms) : Prop := match l with [] => True | x :: r => dec_ok x /\ go r end) l -> dec_ok_list l.
  Proof. induction l as [|x l IH]; [auto|]. intros [A B]. split; [exact A|apply IH, B]. Qed.

  Lemma sim_of_atom m : dnf KChain m = dnf KAtom m -> dnf KW m = false ->
    (dnf KAtom m = true -> sim_atom m) ->
    (dnf KAtom m = true -> sim_atom m) /\ (dnf KChain m = true -> sim_chain m /\ sim_andv m) /\ (dnf KW m = true -> sim_w m).
  Proof.
    intros Hc Hw Ha. split; [exact Ha|]. split; [rewrite Hc; intros H; apply atom_to_chain, Ha, H|].
    rewrite Hw. discriminate.
  Qed.

  Lemma plain_atom m : dnf KAtom m = true -> plain (last_tok ke m).
  Proof. intros H. apply (last_tok_plain ke m KAtom); [discriminate|exact H]. Qed.
  Lemma plain_chain m : dnf KChain m = true -> plain (last_tok ke m).
  Proof. intros H. apply (last_tok_plain ke m KChain); [discriminate|exact H]. Qed.

  (* an atom whose last token is EQUAL is a hash lock or a thresh *)
  Lemma equal_last m : dnf KAtom m = true -> last_tok ke m = TkEqual ->
    (exists h, m = MSha256 h \/ m = MHash256 h \/ m = MRipemd160 h \/ m = MHash160 h) \/ (exists k xs, m = MThresh k xs).
  Proof.
    destruct m; cbn [last_tok dnf]; intros Hd Hl; try discriminate; eauto 6.
    exfalso. revert Hl. unfold key_token, push_token.
    repeat match goal with |- context [if ?c then _ else _] => destruct c end; discriminate.
  Qed.


  Theorem sim_all : forall m, sim m.
  Proof.
    induction m using ms_ind2; unfold sim; intros Hd; cbn [dec_ok] in Hd.
    - (* 1 *) apply sim_of_atom; try reflexivity. intros _ pre nts terms. cbn [mtoks rev app]. one. apply steps_refl.
    - (* 0 *) apply sim_of_atom; try reflexivity. intros _ pre nts terms. cbn [mtoks rev app]. one. apply steps_refl.
    - (* pk_k *) apply sim_of_atom; try reflexivity. intros _ pre nts terms. cbn [mtoks rev app].
      destruct Hd as [Hk [Hl|[Hl|Hl]]];
        [rewrite (key_token_32 _ Hl)|rewrite (key_token_33 _ Hl)|rewrite (key_token_65 _ Hl)];
        (eapply steps_cons; [cbn [step st ds_nts ds_toks ds_terms expr_step]; unfold key_leaf; rewrite Hk; reflexivity|apply steps_refl]).
    - (* pk_h *) contradiction.
    - (* raw_pk_h *) apply sim_of_atom; try reflexivity. intros _ pre nts terms. cbn [mtoks rev app]. one. apply steps_refl.
    - (* after *) apply sim_of_atom; try reflexivity. intros _ pre nts terms. cbn [mtoks rev app].
      eapply steps_cons; [|apply steps_refl]. cbn [step st ds_nts ds_toks ds_terms expr_step].
      destruct (N.leb_spec 1 t); [|lia]. destruct (N.leb_spec t 2147483647); [|lia]. reflexivity.
    - (* older *) apply sim_of_atom; try reflexivity. intros _ pre nts terms. cbn [mtoks rev app].
      eapply steps_cons; [|apply steps_refl]. cbn [step st ds_nts ds_toks ds_terms expr_step].
      destruct (N.ltb_spec t 2147483648); [|lia]. destruct (N.eqb_spec t 0); [lia|]. reflexivity.
    - (* sha256 *) apply sim_of_atom; try reflexivity. intros _ pre nts terms. cbn [mtoks hash_tokens rev app]. one. apply steps_refl.
    - apply sim_of_atom; try reflexivity. intros _ pre nts terms. cbn [mtoks hash_tokens rev app]. one. apply steps_refl.
    - apply sim_of_atom; try reflexivity. intros _ pre nts terms. cbn [mtoks hash_tokens rev app]. one. apply steps_refl.
    - apply sim_of_atom; try reflexivity. intros _ pre nts terms. cbn [mtoks hash_tokens rev app]. one. apply steps_refl.
    - (* alt *) destruct Hd as [Hf Hx]. destruct (IHm Hx) as [_ [Hc _]].
      split; [discriminate|]. split; [discriminate|]. cbn [dnf]. intros Hdx. destruct (Hc Hdx) as [Hch _].
      intros pre nts terms. cbn [mtoks]. nrev. one.
      eapply steps_trans; [apply Hch; reflexivity|]. redu Hf.
    - (* swap *) destruct Hd as [Hf Hx]. destruct (IHm Hx) as [_ [Hc _]].
      split; [discriminate|]. split; [discriminate|]. cbn [dnf]. intros Hdx. destruct (Hc Hdx) as [Hch _].
      intros pre nts terms. cbn [mtoks]. nrev.
      destruct (rev_mtoks ke m (TkSwap :: pre)) as [r Hr]. rewrite Hr.
      eapply steps_cons; [apply step_wexp_other, plain_chain, Hdx|].
      rewrite <- Hr. eapply steps_trans; [apply Hch; reflexivity|]. redu Hf.
    - (* check *) destruct Hd as [Hf Hx]. destruct (IHm Hx) as [Ha _].
      apply sim_of_atom; try reflexivity. cbn [dnf notw andb]. intros Hdx pre nts terms.
      cbn [mtoks]. nrev. one. eapply steps_trans; [apply (Ha Hdx)|]. redu Hf.
    - (* dupif *) destruct Hd as [Hf Hx]. destruct (IHm Hx) as [_ [Hc _]].
      apply sim_of_atom; try reflexivity. cbn [dnf notw andb]. intros Hdx pre nts terms. destruct (Hc Hdx) as [Hch _].
      cbn [mtoks]. nrev. one. eapply steps_trans; [apply Hch; reflexivity|]. one. redu Hf.
    - (* verify *) destruct Hd as [Hf Hx]. destruct (IHm Hx) as [Ha _].
      apply sim_of_atom; try reflexivity. cbn [dnf notw andb]. intros Hdx pre nts terms.
      cbn [mtoks]. nrev.
      assert (Hdec : last_tok ke m = TkEqual \/ last_tok ke m <> TkEqual)
        by (destruct (last_tok ke m); (left; reflexivity) || (right; discriminate)).
      destruct Hdec as [El|Nl].
      + (* v:hash / v:thresh take the EQUALVERIFY arms of the code *)
        destruct (equal_last m Hdx El) as [[h [E1|[E1|[E1|E1]]]]|[k [xs E1]]]; subst m;
          try (cbn [mtoks hash_tokens rev app]; one; redu Hf).
        (* thresh: Verify :: Equal :: Num k :: ... pushes ThreshW k 0 under Verify; the thresh arm
           (IH) passes through the same state after its first step *)
        specialize (Ha Hdx pre (NtVerify :: nts) terms). cbn [mtoks] in Ha |- *. revert Ha. nrev. intros Ha. one.
        destruct (steps_inv _ _ Ha) as [Heq|[s1 [Hs0 Hrest]]].
        * exfalso. apply (f_equal ds_nts) in Heq. discriminate.
        * cbn [step st ds_nts ds_toks ds_terms expr_step equal_step] in Hs0. injection Hs0 as <-.
          eapply steps_trans; [exact Hrest|]. redu Hf.
      + destruct (rev_mtoks ke m pre) as [r Hr]. rewrite Hr.
        eapply steps_cons; [apply step_verify_other, Nl|]. rewrite <- Hr.
        eapply steps_trans; [apply (Ha Hdx)|]. redu Hf.
    - (* nonzero *) destruct Hd as [Hf Hx]. destruct (IHm Hx) as [_ [Hc _]].
      apply sim_of_atom; try reflexivity. cbn [dnf notw andb]. intros Hdx pre nts terms. destruct (Hc Hdx) as [Hch _].
      cbn [mtoks]. nrev. one. eapply steps_trans; [apply Hch; reflexivity|]. one. redu Hf.
    - (* zne *) destruct Hd as [Hf Hx]. destruct (IHm Hx) as [Ha _].
      apply sim_of_atom; try reflexivity. cbn [dnf notw andb]. intros Hdx pre nts terms.
      cbn [mtoks]. nrev. one. eapply steps_trans; [apply (Ha Hdx)|]. redu Hf.
    - (* and_v *) destruct Hd as [Hf [Hx Hy]]. destruct (IHm1 Hx) as [_ [Hc1 _]]. destruct (IHm2 Hy) as [Ha2 _].
      split; [discriminate|]. split; [|discriminate]. cbn [dnf]. intros Hdd. apply andb_prop in Hdd. destruct Hdd as [D1 D2].
      destruct (Hc1 D1) as [_ Hav1]. specialize (Ha2 D2). split.
      + intros pre nts terms Hp. cbn [mtoks]. nrev.
        eapply steps_trans; [apply Ha2|].
        eapply steps_cons; [apply step_maybe_yes, is_and_v_chain, D1|].
        apply Hav1; assumption.
      + intros pre nts terms y Hp Hfy. cbn [mtoks]. nrev.
        eapply steps_trans; [apply Ha2|].
        eapply steps_cons; [apply step_andv_more, is_and_v_chain, D1|].
        eapply steps_cons; [apply step_maybe_yes, is_and_v_chain, D1|].
        eapply steps_trans; [apply Hav1; [exact Hp|exact Hf]|].
        apply steps_one, step_andv_reduce; assumption.
    - (* and_b *) destruct Hd as [Hf [Hx Hy]]. destruct (IHm1 Hx) as [Ha1 _]. destruct (IHm2 Hy) as [_ [_ Hw2]].
      apply sim_of_atom; try reflexivity. cbn [dnf notw andb]. intros Hdd pre nts terms.
      apply andb_prop in Hdd. destruct Hdd as [D1 D2].
      cbn [mtoks]. nrev. one. eapply steps_trans; [apply (Hw2 D2)|]. eapply steps_trans; [apply (Ha1 D1)|]. redu Hf.
    - (* andor *) destruct Hd as [Hf [Hx [Hy Hz]]]. destruct (IHm1 Hx) as [Ha1 _].
      destruct (IHm2 Hy) as [_ [Hc2 _]]. destruct (IHm3 Hz) as [_ [Hc3 _]].
      apply sim_of_atom; try reflexivity. cbn [dnf notw andb]. intros Hdd pre nts terms.
      apply andb_prop in Hdd. destruct Hdd as [Hdd D3]. apply andb_prop in Hdd. destruct Hdd as [D1 D2].
      destruct (Hc2 D2) as [Hch2 _]. destruct (Hc3 D3) as [Hch3 _].
      cbn [mtoks]. nrev. one. eapply steps_trans; [apply Hch2; reflexivity|]. one.
      eapply steps_trans; [apply Hch3; reflexivity|]. one.
      eapply steps_trans; [apply (Ha1 D1)|].
      apply steps_one. cbn [step st ds_nts ds_toks ds_terms]. unfold reduce0. rewrite Hf. reflexivity.
    - (* or_b *) destruct Hd as [Hf [Hx Hy]]. destruct (IHm1 Hx) as [Ha1 _]. destruct (IHm2 Hy) as [_ [_ Hw2]].
      apply sim_of_atom; try reflexivity. cbn [dnf notw andb]. intros Hdd pre nts terms.
      apply andb_prop in Hdd. destruct Hdd as [D1 D2].
      cbn [mtoks]. nrev. one. eapply steps_trans; [apply (Hw2 D2)|]. eapply steps_trans; [apply (Ha1 D1)|]. redu Hf.
    - (* or_d *) destruct Hd as [Hf [Hx Hy]]. destruct (IHm1 Hx) as [Ha1 _]. destruct (IHm2 Hy) as [_ [Hc2 _]].
      apply sim_of_atom; try reflexivity. cbn [dnf notw andb]. intros Hdd pre nts terms.
      apply andb_prop in Hdd. destruct Hdd as [D1 D2]. destruct (Hc2 D2) as [Hch2 _].
      cbn [mtoks]. nrev. one. eapply steps_trans; [apply Hch2; reflexivity|]. one. one.
      eapply steps_trans; [apply (Ha1 D1)|]. redu Hf.
    - (* or_c *) destruct Hd as [Hf [Hx Hy]]. destruct (IHm1 Hx) as [Ha1 _]. destruct (IHm2 Hy) as [_ [Hc2 _]].
      apply sim_of_atom; try reflexivity. cbn [dnf notw andb]. intros Hdd pre nts terms.
      apply andb_prop in Hdd. destruct Hdd as [D1 D2]. destruct (Hc2 D2) as [Hch2 _].
      cbn [mtoks]. nrev. one. eapply steps_trans; [apply Hch2; reflexivity|]. one.
      destruct (rev_mtoks ke m1 pre) as [r Hr]. rewrite Hr.
      eapply steps_cons; [apply step_endifnotif_other, plain_atom, D1|]. rewrite <- Hr.
      eapply steps_trans; [apply (Ha1 D1)|]. redu Hf.
    - (* or_i *) destruct Hd as [Hf [Hx Hy]]. destruct (IHm1 Hx) as [_ [Hc1 _]]. destruct (IHm2 Hy) as [_ [Hc2 _]].
      apply sim_of_atom; try reflexivity. cbn [dnf notw andb]. intros Hdd pre nts terms.
      apply andb_prop in Hdd. destruct Hdd as [D1 D2]. destruct (Hc1 D1) as [Hch1 _]. destruct (Hc2 D2) as [Hch2 _].
      cbn [mtoks]. nrev. one. eapply steps_trans; [apply Hch2; reflexivity|]. one.
      eapply steps_trans; [apply Hch1; reflexivity|]. redu Hf.
    - (* thresh *) destruct Hd as [Hf [Hk Hxs]]. apply dec_list_fix in Hxs.
      destruct xs as [|x0 ws]; [split; [discriminate|]; split; discriminate|].
      inversion H as [|? ? Hx0 Hws]; subst. destruct Hxs as [Dx0 Dws].
      apply sim_of_atom; try reflexivity. cbn [dnf notw andb]. intros Hdd pre nts terms.
      apply andb_prop in Hdd. destruct Hdd as [D0 DW].
      assert (Hsw : Forall sim_w ws).
      { clear - Hws Dws DW. induction Hws as [|w r Hw _ IH]; [constructor|]. destruct Dws as [A B].
        apply andb_prop in DW. destruct DW as [W1 W2]. constructor; [apply (Hw A), W1|apply IH; assumption]. }
      destruct (Hx0 Dx0) as [Ha0 _].
      cbn [mtoks]. change ((fix go (l : list ms) : list token := match l with [] => [] | x :: r => mtoks ke x ++ [TkAdd] ++ go r end) ws)
        with (tail_toks ws).
      nrev. one.
      eapply steps_trans; [apply (thresh_loop k ws Hsw)|].
      destruct (rev_mtoks ke x0 pre) as [r Hr]. rewrite Hr.
      eapply steps_cons; [apply step_threshw_other, plain_atom, D0|]. rewrite <- Hr.
      eapply steps_trans; [apply (Ha0 D0)|].
      apply steps_one. cbn [step st ds_nts ds_toks ds_terms].
      replace (N.to_nat (0 + nlen ws + 1)) with (length (x0 :: ws)) by (unfold nlen; cbn [length]; lia).
      change (x0 :: ws ++ terms) with ((x0 :: ws) ++ terms). rewrite pop_n_app.
      destruct (N.eqb_spec k 0); [lia|]. destruct (N.ltb_spec (nlen (x0 :: ws)) k); [lia|]. cbn [orb].
      unfold reduce0. rewrite Hf. reflexivity.
    - (* multi *) destruct Hd as [Hk [Hn Hks]].
      apply sim_of_atom; try reflexivity. intros _ pre nts terms. cbn [mtoks]. nrev.
      eapply steps_cons; [|apply steps_refl]. cbn [step st ds_nts ds_toks ds_terms expr_step].
      destruct (N.eqb_spec (nlen ks) 0); [lia|]. destruct (N.ltb_spec 20 (nlen ks)); [lia|]. cbn [orb].
      replace (N.to_nat (nlen ks)) with (length ks) by (unfold nlen; lia).
      rewrite multi_keys_run by exact Hks. rewrite app_nil_r. cbv beta iota.
      destruct (N.eqb_spec k 0); [lia|]. destruct (N.ltb_spec (nlen ks) k); [lia|].
      destruct (N.ltb_spec 20 (nlen ks)); [lia|]. reflexivity.
    - (* sortedmulti *) contradiction.
    - (* multi_a *) destruct Hd as [Hk [Hn Hks]].
      apply sim_of_atom; try reflexivity. intros _ pre nts terms. cbn [mtoks].
      destruct ks as [|k0 rest]; [unfold nlen in Hk; cbn in Hk; lia|]. inversion Hks as [|? ? [Hd0 Hl0] Hrest]; subst.
      nrev. rewrite (key_token_32 _ Hl0).
      eapply steps_cons; [|apply steps_refl]. cbn [step st ds_nts ds_toks ds_terms expr_step].
      destruct (N.eqb_spec k 0); [lia|]. destruct (N.ltb_spec 999 k); [unfold nlen in *; lia|]. cbn [orb].
      rewrite multi_a_keys_run by (try exact Hrest; exact I). rewrite app_nil_r. cbv beta iota. rewrite Hd0.
      destruct (N.ltb_spec (nlen (k0 :: rest)) k); [lia|]. destruct (N.ltb_spec 999 (nlen (k0 :: rest))); [lia|]. reflexivity.
    - (* sortedmulti_a *) contradiction.
  Qed.
End Sim.

(* ------------------------------------------------------------------ decode (encode m) = m in normal form *)
Lemma run_det e s f1 f2 r1 r2 : run e f1 s = r1 -> r1 <> OFuel -> run e f2 s = r2 -> r2 <> OFuel -> r1 = r2.
Proof.
  intros H1 N1 H2 N2.
  rewrite <- (run_mono e f1 s r1 H1 N1 (Nat.max f1 f2) (Nat.le_max_l _ _)).
  rewrite <- (run_mono e f2 s r2 H2 N2 (Nat.max f1 f2) (Nat.le_max_r _ _)). reflexivity.
Qed.

Theorem parse_dnf e m : dnf KChain m = true -> dec_ok e m ->
  parse e (mtoks (d_ke e) m) = OOk (m, []).
Proof.
  intros Hd Hok. destruct (sim_all e m Hok) as [_ [Hc _]]. destruct (Hc Hd) as [Hch _].
  specialize (Hch [] [] [] eq_refl). rewrite app_nil_r in Hch.
  assert (Hfin : run e 1 (st [] [] [m]) = OOk (m, [])) by reflexivity.
  destruct (steps_run e _ _ Hch 1%nat _ Hfin ltac:(discriminate)) as [f Hf].
  apply (run_det e _ (parse_fuel (mtoks (d_ke e) m)) f _ _ eq_refl (parse_no_fuel e _) Hf). discriminate.
Qed.

(* the full decoder on the encoding of a well-formed miniscript in decoder normal form *)
Theorem decode_dnf e m :
  ksort_ok (d_ke e) -> ms_wf (d_ctx e) (d_ke e) m ->
  dnf KChain m = true -> dec_ok e m ->
  gv (d_ctx e) (d_ke e) m = None -> (exists t, type_of m = ROk t) ->
  decode_max e (encode (d_ke e) m) = OOk m.
Proof.
  intros Hs Hwf Hd Hok Hgv [t Ht]. unfold decode_max.
  rewrite (lex_enc (d_ctx e) (d_ke e) Hs m Hwf). rewrite (parse_dnf e m Hd Hok). rewrite Hgv, Ht. reflexivity.
Qed.
