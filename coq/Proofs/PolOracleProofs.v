(* C18: the executable truth-table oracle of Ms/PolTruth.v (used on the implementation's
   outputs in Tables/PolicyCasesCheck.v) decides the propositions it stands for: a policy's
   truth table only depends on its own leaves, and [assignments] enumerates every assignment
   to them. *)
From Coq Require Import List NArith Bool Arith Lia.
Import ListNotations.
From Verif Require Import PolSemantic PolConcrete PolTruth PolSemanticProofs PolConcreteProofs.

Lemma evalA_local rho rho' : forall p,
  (forall l, In l (leaves_of p) -> rho l = rho' l) -> evalA rho p = evalA rho' p.
Proof.
  induction p using spol_ind'; intro E; cbn [evalA]; try reflexivity;
    try (apply E; left; reflexivity).
  f_equal. f_equal. apply map_ext_Forall. apply Forall_forall. intros c Hc.
  rewrite Forall_forall in H. apply H; [exact Hc|]. intros l Hl. apply E.
  cbn [leaves_of]. apply in_flat_map. exists c. split; assumption.
Qed.

Lemma evalC_local rho rho' : forall p,
  (forall l, In l (cleaves_of p) -> rho l = rho' l) -> evalC rho p = evalC rho' p.
Proof.
  assert (Hsub : forall subs, Forall (fun c => (forall l, In l (cleaves_of c) -> rho l = rho' l) ->
                                              evalC rho c = evalC rho' c) subs ->
                 (forall l, In l (flat_map cleaves_of subs) -> rho l = rho' l) ->
                 map (evalC rho) subs = map (evalC rho') subs).
  { intros subs H E. apply map_ext_Forall. apply Forall_forall. intros c Hc.
    rewrite Forall_forall in H. apply H; [exact Hc|]. intros l Hl. apply E.
    apply in_flat_map. exists c. split; assumption. }
  induction p using cpol_ind'; intro E; cbn [evalC]; try reflexivity;
    try (apply E; left; reflexivity).
  - rewrite !forallb_count, (Hsub subs H E). reflexivity.
  - rewrite !existsb_count, (Hsub subs H E). reflexivity.
  - rewrite (Hsub subs H E). reflexivity.
Qed.

Lemma sublists_filter {A} (f : A -> bool) l : In (filter f l) (sublists l).
Proof.
  induction l as [|x r IH]; [left; reflexivity|].
  cbn [sublists filter]. apply in_or_app. destruct (f x); [left; apply in_map; exact IH|right; exact IH].
Qed.

Lemma dedupS_in x l : In x (dedupS l) <-> In x l.
Proof.
  induction l as [|y r IH]; [reflexivity|]. simpl.
  destruct (existsb (spol_eqb y) r) eqn:E.
  - rewrite IH. split; [auto|]. intros [->|H]; [|exact H].
    apply existsb_exists in E. destruct E as (z & Hz & Ez). apply spol_eqb_eq in Ez. subst. exact Hz.
  - simpl. rewrite IH. reflexivity.
Qed.

(* the assignment of [assignments atoms] that agrees with rho on the atoms *)
Definition pick (rho : spol -> bool) (atoms : list spol) : list spol := filter rho (dedupS atoms).

Lemma pick_in rho atoms : In (pick rho atoms) (assignments atoms).
Proof. apply sublists_filter. Qed.
Lemma pick_agrees rho atoms l : In l atoms -> rho_of (pick rho atoms) l = rho l.
Proof.
  intro Hl. unfold rho_of, pick. destruct (rho l) eqn:R.
  - apply existsb_exists. exists l. split; [|apply spol_eqb_refl].
    apply filter_In. split; [apply dedupS_in; exact Hl|exact R].
  - destruct (existsb (spol_eqb l) (filter rho (dedupS atoms))) eqn:E; [|reflexivity].
    apply existsb_exists in E. destruct E as (z & Hz & Ez). apply spol_eqb_eq in Ez. subst z.
    apply filter_In in Hz. destruct Hz as [_ Hz]. congruence.
Qed.

Lemma find_none {A} (f : A -> bool) l : find f l = None <-> forall x, In x l -> f x = false.
Proof.
  split; [apply find_none|].
  induction l as [|x r IH]; [reflexivity|]. intro H. simpl.
  rewrite (H x (or_introl eq_refl)). apply IH. intros y Hy. apply H. right. exact Hy.
Qed.

(* [equiv_on] decides equality of two tables that only look at the listed atoms *)
Lemma equiv_on_spec atoms (f g : (spol -> bool) -> bool) :
  (forall rho rho', (forall l, In l atoms -> rho l = rho' l) -> f rho = f rho') ->
  (forall rho rho', (forall l, In l atoms -> rho l = rho' l) -> g rho = g rho') ->
  (equiv_on atoms f g = None <-> forall rho, f rho = g rho).
Proof.
  intros Lf Lg. unfold equiv_on. rewrite find_none. split.
  - intros H rho. specialize (H (pick rho atoms) (pick_in rho atoms)).
    apply negb_false_iff, eqb_prop in H.
    rewrite (Lf rho (rho_of (pick rho atoms))), (Lg rho (rho_of (pick rho atoms))); [exact H| |];
      intros l Hl; symmetry; apply pick_agrees; exact Hl.
  - intros H on _. rewrite H. apply negb_false_iff, eqb_reflx.
Qed.

Theorem cex_equiv_spec p o : cex_equiv p o = None <-> forall rho, evalA rho p = evalA rho o.
Proof.
  unfold cex_equiv. apply equiv_on_spec; intros rho rho' E; apply evalA_local; intros l Hl; apply E;
    apply in_or_app; auto.
Qed.
Theorem cex_age_spec a p o :
  cex_age a p o = None <-> forall rho, evalA (restrict_age a rho) p = evalA rho o.
Proof.
  unfold cex_age. apply equiv_on_spec; intros rho rho' E; apply evalA_local; intros l Hl.
  - unfold restrict_age. rewrite (E l) by (apply in_or_app; auto). reflexivity.
  - apply E. apply in_or_app; auto.
Qed.
Theorem cex_lock_spec n p o :
  cex_lock n p o = None <-> forall rho, evalA (restrict_lock n rho) p = evalA rho o.
Proof.
  unfold cex_lock. apply equiv_on_spec; intros rho rho' E; apply evalA_local; intros l Hl.
  - unfold restrict_lock. rewrite (E l) by (apply in_or_app; auto). reflexivity.
  - apply E. apply in_or_app; auto.
Qed.
Theorem cex_lift_spec c o : cex_lift c o = None <-> forall rho, evalC rho c = evalA rho o.
Proof.
  unfold cex_lift. apply equiv_on_spec; intros rho rho' E.
  - apply evalC_local. intros l Hl. apply E. apply in_or_app; auto.
  - apply evalA_local. intros l Hl. apply E. apply in_or_app; auto.
Qed.

Theorem implies_b_spec p q : implies_b p q = true <-> implies p q.
Proof.
  unfold implies_b, implies. rewrite forallb_forall. split.
  - intros H rho Hp. set (atoms := leaves_of p ++ leaves_of q).
    specialize (H (pick rho atoms) (pick_in rho atoms)).
    assert (Ep : evalA (rho_of (pick rho atoms)) p = evalA rho p)
      by (apply evalA_local; intros l Hl; apply pick_agrees; apply in_or_app; auto).
    assert (Eq : evalA (rho_of (pick rho atoms)) q = evalA rho q)
      by (apply evalA_local; intros l Hl; apply pick_agrees; apply in_or_app; auto).
    rewrite Ep, Eq, Hp in H. exact H.
  - intros H on _. destruct (evalA (rho_of on) p) eqn:Ep; [|reflexivity].
    rewrite (H _ Ep). reflexivity.
Qed.

(* brute-force minimum of signatures *)
Definition ms_step (p : spol) (best : option nat) (on : list spol) : option nat :=
  if evalA (rho_of on) p then
    let c := sigcount (rho_of on) p in
    match best with None => Some c | Some b => Some (Nat.min b c) end
  else best.

Lemma ms_fold p : forall L init,
  match fold_left (ms_step p) L init with
  | None => init = None /\ forall on, In on L -> evalA (rho_of on) p = false
  | Some m =>
      (init = Some m \/ exists on, In on L /\ evalA (rho_of on) p = true /\ sigcount (rho_of on) p = m) /\
      (forall on, In on L -> evalA (rho_of on) p = true -> m <= sigcount (rho_of on) p) /\
      (forall b, init = Some b -> m <= b)
  end.
Proof.
  induction L as [|on L IH]; intro init; cbn [fold_left].
  - destruct init as [b|].
    + split; [left; reflexivity|]. split; [intros ? []|]. intros b' E. inversion E. lia.
    + split; [reflexivity|intros ? []].
  - specialize (IH (ms_step p init on)).
    remember (ms_step p init on) as init' eqn:Ei.
    revert IH. destruct (fold_left (ms_step p) L init') as [m|]; intro IH.
    + destruct IH as (IH1 & IH2 & IH3).
      unfold ms_step in Ei. destruct (evalA (rho_of on) p) eqn:Eon.
      * set (c := sigcount (rho_of on) p) in *.
        destruct init as [b|]; subst init'; specialize (IH3 _ eq_refl).
        -- split; [|split].
           ++ destruct IH1 as [E|(on' & H1 & H2 & H3)].
              ** inversion E. destruct (Nat.min_dec b c) as [Hm|Hm]; rewrite Hm.
                 --- left. reflexivity.
                 --- right. exists on. split; [left; reflexivity|split; [exact Eon|reflexivity]].
              ** right. exists on'. split; [right; exact H1|split; assumption].
           ++ intros on' [<-|Hin] Hs; [fold c; lia|apply IH2; assumption].
           ++ intros b' E. inversion E. subst. lia.
        -- split; [|split].
           ++ right. destruct IH1 as [E|(on' & H1 & H2 & H3)].
              ** inversion E. exists on. split; [left; reflexivity|split; [exact Eon|reflexivity]].
              ** exists on'. split; [right; exact H1|split; assumption].
           ++ intros on' [<-|Hin] Hs; [fold c; lia|apply IH2; assumption].
           ++ intros b' E. discriminate.
      * subst init'. split; [|split].
        -- destruct IH1 as [E|(on' & H1 & H2 & H3)]; [left; exact E|].
           right. exists on'. split; [right; exact H1|split; assumption].
        -- intros on' [<-|Hin] Hs; [congruence|apply IH2; assumption].
        -- exact IH3.
    + destruct IH as [IH1 IH2].
      unfold ms_step in Ei. destruct (evalA (rho_of on) p) eqn:Eon.
      * destruct init; subst init'; discriminate.
      * subst init'. split; [exact IH1|]. intros on' [<-|Hin]; [exact Eon|apply IH2; exact Hin].
Qed.

Lemma keys_are_leaves : forall p k, In k (keys_of p) -> In (SKey k) (leaves_of p).
Proof.
  induction p using spol_ind'; intros k0 Hk; try contradiction.
  - destruct Hk as [<-|[]]. left. reflexivity.
  - cbn [keys_of leaves_of] in *. apply in_flat_map in Hk. destruct Hk as (c & Hc & Hk).
    apply in_flat_map. exists c. split; [exact Hc|]. rewrite Forall_forall in H. apply H; assumption.
Qed.

Lemma sigcount_local rho rho' p :
  (forall l, In l (leaves_of p) -> rho l = rho' l) -> sigcount rho p = sigcount rho' p.
Proof.
  intro E. unfold sigcount. f_equal. apply filter_ext_in. intros k Hk.
  apply E. apply keys_are_leaves.
  clear - Hk. induction (keys_of p) as [|y r IH]; [contradiction|].
  simpl in Hk. destruct (existsb (N.eqb y) r); [right; apply IH; exact Hk|].
  destruct Hk as [<-|Hk]; [left; reflexivity|right; apply IH; exact Hk].
Qed.

Theorem min_sigs_b_spec p : is_min_sigs p (min_sigs_b p).
Proof.
  unfold min_sigs_b. fold (ms_step p).
  pose proof (ms_fold p (assignments (leaves_of p)) None) as H.
  assert (Hpick : forall rho, In (pick rho (leaves_of p)) (assignments (leaves_of p)) /\
                              evalA (rho_of (pick rho (leaves_of p))) p = evalA rho p /\
                              sigcount (rho_of (pick rho (leaves_of p))) p = sigcount rho p).
  { intro rho. split; [apply pick_in|]. split; [apply evalA_local|apply sigcount_local];
      intros l Hl; apply pick_agrees; exact Hl. }
  unfold is_min_sigs.
  destruct (fold_left (ms_step p) (assignments (leaves_of p)) None) as [m|].
  - destruct H as (H1 & H2 & _). split.
    + destruct H1 as [E|(on & _ & Hs & Hc)]; [discriminate|]. exists (rho_of on). split; assumption.
    + intros rho Hr. destruct (Hpick rho) as (Hin & He & Hc). rewrite <- Hc. apply H2; [exact Hin|].
      rewrite He. exact Hr.
  - destruct H as [_ H2]. intro rho. destruct (Hpick rho) as (Hin & He & _). rewrite <- He. apply H2. exact Hin.
Qed.
