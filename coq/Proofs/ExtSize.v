(* C09: the static figures that describe the SCRIPT (not a satisfaction):
   static_ops = number of non-push opcodes of the encoded script, has_free_verify = "the last
   opcode has a VERIFY form", pk_cost / script_size = length of the serialised script. *)
From Coq Require Import Lia.
From Verif Require Import ExecTr TypeCheck ExtModel ExtProofs ExtLemmas.
Local Open Scope N_scope.

Arguments N.add : simpl never. Arguments N.mul : simpl never. Arguments N.sub : simpl never.
Arguments N.max : simpl never. Arguments N.of_nat : simpl never. Arguments N.leb : simpl never.
Arguments N.ltb : simpl never. Arguments N.eqb : simpl never.

(* opcode counting is defined with the instrumented semantics in Script/ExecTr.v *)
Lemma count_if neg thn els :
  count_instr (IIf neg thn els) = 2 + count_ops thn + match els with Some e => 1 + count_ops e | None => 0 end.
Proof. destruct els; reflexivity. Qed.
Lemma count_ops_app a b : count_ops (a ++ b) = count_ops a + count_ops b.
Proof. induction a as [|i r IH]; cbn [app count_ops]; [lia|]. rewrite IH. lia. Qed.
Lemma count_ops_cons i r : count_ops (i :: r) = count_instr i + count_ops r.
Proof. reflexivity. Qed.
Lemma count_push_int n : count_instr (push_int n) = 0.
Proof. unfold push_int. destruct (n =? 0)%Z; [reflexivity|]. destruct ((n =? -1)%Z || ((1 <=? n)%Z && (n <=? 16)%Z)); reflexivity. Qed.

(* the last opcode can absorb a VERIFY *)
Definition is_some {A} (o : option A) : bool := match o with Some _ => true | None => false end.
Fixpoint fv_script (s : script) : bool :=
  match s with
  | [] => false
  | [IOp o] => is_some (verify_form o)
  | [_] => false
  | _ :: r => fv_script r
  end.
Lemma push_verify_cons2 i j t : push_verify (i :: j :: t) = i :: push_verify (j :: t).
Proof. destruct i as [| |o|]; reflexivity. Qed.
Lemma fv_script_cons2 i j t : fv_script (i :: j :: t) = fv_script (j :: t).
Proof. destruct i as [| |o|]; reflexivity. Qed.
Lemma fv_script_app a b : b <> [] -> fv_script (a ++ b) = fv_script b.
Proof.
  intros Hb. induction a as [|i r IH]; [reflexivity|]. cbn [app].
  destruct (r ++ b) as [|j t] eqn:E.
  - destruct r; [cbn in E; contradiction|discriminate].
  - rewrite <- IH. destruct i as [| |o|]; reflexivity.
Qed.
Lemma fv_push_verify s : fv_script (push_verify s) = false.
Proof.
  induction s as [|i r IH]; [reflexivity|].
  destruct r as [|j t].
  - destruct i as [b|n|o|ng th el]; try reflexivity. cbn [push_verify].
    destruct (verify_form o) as [o'|] eqn:E; [|reflexivity].
    destruct o; inversion E; reflexivity.
  - rewrite push_verify_cons2.
    destruct (push_verify (j :: t)) as [|x y] eqn:E.
    + destruct t; [destruct j as [| |o|]; cbn in E; try discriminate; destruct (verify_form o); discriminate|rewrite push_verify_cons2 in E; discriminate].
    + rewrite fv_script_cons2. exact IH.
Qed.
Lemma count_push_verify s : count_ops (push_verify s) = count_ops s + (if fv_script s then 0 else 1).
Proof.
  induction s as [|i r IH]; [reflexivity|].
  destruct r as [|j t].
  - destruct i as [b|n|o|ng th el]; try (cbn [push_verify count_ops fv_script app]; rewrite ?count_if; cbn [count_instr]; lia).
    cbn [push_verify fv_script]. destruct (verify_form o); cbn [is_some count_ops count_instr]; lia.
  - rewrite push_verify_cons2, fv_script_cons2. rewrite !count_ops_cons with (i := i). rewrite IH. lia.
Qed.

Lemma push_verify_len s : (1 <= length (push_verify s))%nat.
Proof.
  induction s as [|i r IH]; [cbn; lia|]. destruct r as [|j t].
  - destruct i as [| |o|]; cbn [push_verify length]; try lia. destruct (verify_form o); cbn [length]; lia.
  - rewrite push_verify_cons2. cbn [length]. lia.
Qed.
Lemma enc_len_pos ke m : (1 <= length (enc ke m))%nat.
Proof.
  induction m using ms_ind_ext; cbn [enc]; unfold hash_frag; rewrite ?app_length; cbn [length]; try lia.
  apply push_verify_len.
Qed.
Lemma enc_nonempty ke m : enc ke m <> [].
Proof. intros H. pose proof (enc_len_pos ke m) as L. rewrite H in L. cbn in L. lia. Qed.

(* no multi_a / sortedmulti_a (their op count is declared irrelevant: static_ops = 0) *)
Fixpoint no_multi_a (m : ms) : bool :=
  match m with
  | MMultiA _ _ | MSortedMultiA _ _ => false
  | MAlt x | MSwap x | MCheck x | MDupIf x | MVerify x | MNonZero x | MZeroNotEqual x => no_multi_a x
  | MAndV x y | MAndB x y | MOrB x y | MOrD x y | MOrC x y | MOrI x y => no_multi_a x && no_multi_a y
  | MAndOr x y z => no_multi_a x && no_multi_a y && no_multi_a z
  | MThresh _ xs => (fix go (l : list ms) : bool := match l with [] => true | x :: r => no_multi_a x && go r end) xs
  | _ => true
  end.

Lemma fv_last_op a o : fv_script (a ++ [IOp o]) = is_some (verify_form o).
Proof. rewrite fv_script_app by discriminate. reflexivity. Qed.
Lemma fv_last_two a x o : fv_script (a ++ [x; IOp o]) = is_some (verify_form o).
Proof. rewrite fv_script_app by discriminate. rewrite fv_script_cons2. reflexivity. Qed.
Lemma fv_last_if a ng th el : fv_script (a ++ [IIf ng th el]) = false.
Proof. rewrite fv_script_app by discriminate. reflexivity. Qed.

(* has_free_verify says exactly whether the encoder's push_verify can fuse the VERIFY *)
Theorem fv_enc fx c ke m : fv_script (enc ke m) = has_free_verify (ext_of_gen fx c m).
Proof.
  induction m using ms_ind_ext; cbn [enc ext_of_gen]; unfold hash_frag; try reflexivity.
  - (* pk_k *) unfold ext_pk_k. destruct (key_sig_bytes (fx_pkk fx) (xc_schnorr c) (xc_unc c k)). reflexivity.
  - (* pk_h *) unfold ext_pk_h. destruct (key_sig_bytes fx (xc_schnorr c) (xc_unc c k)). reflexivity.
  - (* raw_pk_h *) unfold ext_pk_h_none, ext_pk_h. destruct (key_sig_bytes (fx_pkk fx) (xc_schnorr c) true). reflexivity.
  - (* after *) rewrite fv_script_cons2. reflexivity.
  - (* older *) rewrite fv_script_cons2. reflexivity.
  - (* a: *) rewrite app_assoc, fv_last_op. reflexivity.
  - (* s: *) rewrite fv_script_app by apply enc_nonempty. exact IHm.
  - (* c: *) rewrite fv_last_op. reflexivity.
  - (* v: *) apply fv_push_verify.
  - (* n: *) rewrite fv_last_op. reflexivity.
  - (* and_v *) rewrite fv_script_app by apply enc_nonempty. exact IHm2.
  - (* and_b *) rewrite app_assoc, fv_last_op. reflexivity.
  - (* andor *) rewrite fv_last_if. reflexivity.
  - (* or_b *) rewrite app_assoc, fv_last_op. reflexivity.
  - (* or_d *) rewrite fv_script_app by discriminate. reflexivity.
  - (* or_c *) rewrite fv_last_if. reflexivity.
  - (* thresh *) rewrite fv_last_two. reflexivity.
  - (* multi *) rewrite app_assoc, fv_last_two. reflexivity.
  - rewrite app_assoc, fv_last_two. reflexivity.
  - (* multi_a *) rewrite fv_last_two. reflexivity.
  - rewrite fv_last_two. reflexivity.
Qed.

Lemma count_map_push (f : key -> bytes) ks : count_ops (map (fun k => IPush (f k)) ks) = 0.
Proof. induction ks as [|k r IH]; [reflexivity|]. cbn [map count_ops count_instr]. rewrite IH. reflexivity. Qed.

Lemma fold_add_static (subs : list ext) a :
  fold_left (fun acc s => acc + static_ops s) subs a = a + sum_map static_ops subs.
Proof.
  revert a. induction subs as [|s r IH]; intros a; cbn [fold_left sum_map fold_right]; [lia|].
  rewrite IH. fold (sum_map static_ops r). lia.
Qed.

Lemma go_ext_len fx c l :
  length ((fix go (l : list ms) : list ext := match l with [] => [] | x :: r => ext_of_gen fx c x :: go r end) l) = length l.
Proof. induction l as [|x r IH]; [reflexivity|]. cbn [length]. rewrite IH. reflexivity. Qed.

(* static_ops is the opcode count of the encoded script (contexts with an opcode limit) *)
Theorem static_ops_exact fx c ke m :
  no_multi_a m = true -> count_ops (enc ke m) = static_ops (ext_of_gen fx c m).
Proof.
  induction m using ms_ind_ext; cbn [enc ext_of_gen no_multi_a]; unfold hash_frag; intros Hn;
    rewrite ?count_ops_app, ?count_ops_cons, ?count_if; cbn [count_ops count_instr]; rewrite ?count_push_int.
  - reflexivity.
  - reflexivity.
  - unfold ext_pk_k. destruct (key_sig_bytes (fx_pkk fx) (xc_schnorr c) (xc_unc c k)). reflexivity.
  - unfold ext_pk_h. destruct (key_sig_bytes fx (xc_schnorr c) (xc_unc c k)). reflexivity.
  - unfold ext_pk_h_none, ext_pk_h. destruct (key_sig_bytes (fx_pkk fx) (xc_schnorr c) true). reflexivity.
  - reflexivity.
  - reflexivity.
  - reflexivity. - reflexivity. - reflexivity. - reflexivity.
  - (* a: *) rewrite (IHm Hn). cbn [ext_cast_alt static_ops]. lia.
  - rewrite (IHm Hn). cbn [ext_cast_swap static_ops]. lia.
  - rewrite (IHm Hn). cbn [ext_cast_check static_ops]. lia.
  - (* d: *) rewrite (IHm Hn). unfold ext_cast_dupif. cbn [static_ops]. lia.
  - (* v: *) rewrite count_push_verify, (IHm Hn), (fv_enc fx c). unfold ext_cast_verify. cbn [static_ops].
    destruct (has_free_verify (ext_of_gen fx c m)); cbn [negb b2n]; lia.
  - (* j: *) rewrite (IHm Hn). cbn [ext_cast_nonzero static_ops]. lia.
  - rewrite (IHm Hn). cbn [ext_cast_zeronotequal static_ops]. lia.
  - (* and_v *) apply andb_prop in Hn. destruct Hn as [H1 H2]. rewrite (IHm1 H1), (IHm2 H2). unfold ext_and_v. cbn [static_ops]. lia.
  - apply andb_prop in Hn. destruct Hn as [H1 H2]. rewrite (IHm1 H1), (IHm2 H2). cbn [ext_and_b static_ops]. lia.
  - (* andor *) apply andb_prop in Hn. destruct Hn as [H12 H3]. apply andb_prop in H12. destruct H12 as [H1 H2].
    rewrite (IHm1 H1), (IHm2 H2), (IHm3 H3). cbn [ext_and_or static_ops]. lia.
  - apply andb_prop in Hn. destruct Hn as [H1 H2]. rewrite (IHm1 H1), (IHm2 H2). cbn [ext_or_b static_ops]. lia.
  - apply andb_prop in Hn. destruct Hn as [H1 H2]. rewrite (IHm1 H1), (IHm2 H2). cbn [ext_or_d static_ops]. lia.
  - apply andb_prop in Hn. destruct Hn as [H1 H2]. rewrite (IHm1 H1), (IHm2 H2). cbn [ext_or_c static_ops]. lia.
  - apply andb_prop in Hn. destruct Hn as [H1 H2]. rewrite (IHm1 H1), (IHm2 H2). cbn [ext_or_i static_ops]. lia.
  - (* thresh *)
    unfold ext_threshold. cbn [static_ops]. rewrite fold_add_static.
    assert (G : forall l, Forall (fun m => no_multi_a m = true -> count_ops (enc ke m) = static_ops (ext_of_gen fx c m)) l ->
                (fix go (l : list ms) : bool := match l with [] => true | x :: r => no_multi_a x && go r end) l = true ->
                count_ops ((fix go (l : list ms) : script :=
                              match l with [] => [] | x :: r => enc ke x ++ [IOp OP_ADD] ++ go r end) l)
                = sum_map static_ops ((fix go (l : list ms) : list ext :=
                                         match l with [] => [] | x :: r => ext_of_gen fx c x :: go r end) l)
                  + N.of_nat (length l)).
    { induction l as [|x r IHl]; intros HF Hg; [reflexivity|].
      inversion HF as [|? ? Hx HF']; subst. apply andb_prop in Hg. destruct Hg as [Hg1 Hg2].
      rewrite !count_ops_app. cbn [count_ops count_instr]. rewrite (Hx Hg1), (IHl HF' Hg2).
      cbn [sum_map fold_right length]. fold (sum_map static_ops
        ((fix go (l : list ms) : list ext := match l with [] => [] | x0 :: r0 => ext_of_gen fx c x0 :: go r0 end) r)). lia. }
    destruct xs as [|x0 rest]; [reflexivity|].
    inversion H as [|? ? Hx0 HF']; subst. apply andb_prop in Hn. destruct Hn as [Hn0 Hnr].
    rewrite count_ops_app, (Hx0 Hn0), (G rest HF' Hnr).
    cbn [sum_map fold_right length]. fold (sum_map static_ops
        ((fix go (l : list ms) : list ext := match l with [] => [] | x1 :: r0 => ext_of_gen fx c x1 :: go r0 end) rest)). rewrite go_ext_len. lia.
  - (* multi *) rewrite count_map_push. reflexivity.
  - rewrite count_map_push. reflexivity.
  - discriminate.
  - discriminate.
Qed.

(* ------------------------------------------------------------------ pk_cost against script_size
   The two figures are computed by different code (ExtData rules vs Miniscript::script_size). They
   agree on the class [size_wf]: Ctx::pk_len equals the key-byte constant of the pk_k rule
   (true for the harness contexts since /repo 4c5160f8), multi with k, n < 128,
   multi_a with 33-byte pk_len (Tap). With script_size = encoded length (C04: script_size_ok) this gives pk_cost = length. *)
Fixpoint size_wf (fx : fixes) (c : xctx) (m : ms) : bool :=
  match m with
  | MPkK k => xc_pklen c k =? fst (key_sig_bytes (fx_pkk fx) (xc_schnorr c) (xc_unc c k))
  | MMulti k ks | MSortedMulti k ks =>
    (k <? 128) && (N.of_nat (length ks) <? 128)
    && forallb (fun key => xc_pklen c key =? (if xc_unc c key then 66 else 34)) ks
  | MMultiA k ks | MSortedMultiA k ks => forallb (fun key => xc_pklen c key =? 33) ks
  | MAlt x | MSwap x | MCheck x | MDupIf x | MVerify x | MNonZero x | MZeroNotEqual x => size_wf fx c x
  | MAndV x y | MAndB x y | MOrB x y | MOrD x y | MOrC x y | MOrI x y => size_wf fx c x && size_wf fx c y
  | MAndOr x y z => size_wf fx c x && size_wf fx c y && size_wf fx c z
  | MThresh _ xs => (fix go (l : list ms) : bool := match l with [] => true | x :: r => size_wf fx c x && go r end) xs
  | _ => true
  end.

Lemma fold_add_pk (subs : list ext) a :
  fold_left (fun acc s => acc + pk_cost s) subs a = a + sum_map pk_cost subs.
Proof.
  revert a. induction subs as [|s r IH]; intros a; cbn [fold_left sum_map fold_right]; [lia|].
  rewrite IH. fold (sum_map pk_cost r). lia.
Qed.
Lemma num_cost_multi k n : k < 128 -> n < 128 -> num_cost k n = script_num_size k + script_num_size n.
Proof.
  intros Hk Hn. unfold num_cost, script_num_size.
  destruct (N.ltb_spec 16 k), (N.ltb_spec 16 n), (N.leb_spec k 16), (N.leb_spec n 16),
    (N.ltb_spec k 128), (N.ltb_spec n 128); lia.
Qed.
Lemma num_cost_multi_a k n : k < 128 -> n <= 16 -> num_cost k n = script_num_size k + 1.
Proof.
  intros Hk Hn. unfold num_cost, script_num_size.
  destruct (N.ltb_spec 16 k), (N.ltb_spec 16 n), (N.leb_spec k 16), (N.ltb_spec k 128); lia.
Qed.
Lemma sum_pklen_multi c ks :
  forallb (fun key => xc_pklen c key =? (if xc_unc c key then 66 else 34)) ks = true ->
  sum_map (xc_pklen c) ks = fold_right (fun (u : bool) a => (if u then 66 else 34) + a) 0 (map (xc_unc c) ks).
Proof.
  induction ks as [|k r IH]; intros H; [reflexivity|]. cbn [forallb] in H. apply andb_prop in H. destruct H as [Hk Hr].
  apply N.eqb_eq in Hk. cbn [sum_map fold_right map]. fold (sum_map (xc_pklen c) r). rewrite (IH Hr), Hk. reflexivity.
Qed.
Lemma sum_pklen_33 c ks :
  forallb (fun key => xc_pklen c key =? 33) ks = true -> sum_map (xc_pklen c) ks = 33 * N.of_nat (length ks).
Proof.
  induction ks as [|k r IH]; intros H; [reflexivity|]. cbn [forallb] in H. apply andb_prop in H. destruct H as [Hk Hr].
  apply N.eqb_eq in Hk. cbn [sum_map fold_right length]. fold (sum_map (xc_pklen c) r). rewrite (IH Hr), Hk. lia.
Qed.

Theorem ext_pk_cost_is_size fx c m :
  size_wf fx c m = true -> pk_cost (ext_of_gen fx c m) = script_size_gen fx c m.
Proof.
  induction m using ms_ind_ext; cbn [size_wf ext_of_gen script_size_gen]; intros Hw.
  - reflexivity.
  - reflexivity.
  - apply N.eqb_eq in Hw. rewrite Hw. unfold ext_pk_k. destruct (key_sig_bytes (fx_pkk fx) (xc_schnorr c) (xc_unc c k)). reflexivity.
  - unfold ext_pk_h. destruct (key_sig_bytes fx (xc_schnorr c) (xc_unc c k)). reflexivity.
  - unfold ext_pk_h_none, ext_pk_h. destruct (key_sig_bytes (fx_pkk fx) (xc_schnorr c) true). reflexivity.
  - reflexivity.
  - reflexivity.
  - reflexivity. - reflexivity. - reflexivity. - reflexivity.
  - cbn [ext_cast_alt pk_cost]. rewrite (IHm Hw). lia.
  - cbn [ext_cast_swap pk_cost]. rewrite (IHm Hw). lia.
  - cbn [ext_cast_check pk_cost]. rewrite (IHm Hw). lia.
  - unfold ext_cast_dupif. cbn [pk_cost]. rewrite (IHm Hw). lia.
  - unfold ext_cast_verify. cbn [pk_cost]. rewrite (IHm Hw). lia.
  - cbn [ext_cast_nonzero pk_cost]. rewrite (IHm Hw). lia.
  - cbn [ext_cast_zeronotequal pk_cost]. rewrite (IHm Hw). lia.
  - apply andb_prop in Hw. destruct Hw as [H1 H2]. unfold ext_and_v. cbn [pk_cost]. rewrite (IHm1 H1), (IHm2 H2). lia.
  - apply andb_prop in Hw. destruct Hw as [H1 H2]. cbn [ext_and_b pk_cost]. rewrite (IHm1 H1), (IHm2 H2). lia.
  - apply andb_prop in Hw. destruct Hw as [H12 H3]. apply andb_prop in H12. destruct H12 as [H1 H2].
    cbn [ext_and_or pk_cost]. rewrite (IHm1 H1), (IHm2 H2), (IHm3 H3). lia.
  - apply andb_prop in Hw. destruct Hw as [H1 H2]. cbn [ext_or_b pk_cost]. rewrite (IHm1 H1), (IHm2 H2). lia.
  - apply andb_prop in Hw. destruct Hw as [H1 H2]. cbn [ext_or_d pk_cost]. rewrite (IHm1 H1), (IHm2 H2). lia.
  - apply andb_prop in Hw. destruct Hw as [H1 H2]. cbn [ext_or_c pk_cost]. rewrite (IHm1 H1), (IHm2 H2). lia.
  - apply andb_prop in Hw. destruct Hw as [H1 H2]. cbn [ext_or_i pk_cost]. rewrite (IHm1 H1), (IHm2 H2). lia.
  - (* thresh *)
    unfold ext_threshold. cbn [pk_cost]. rewrite fold_add_pk.
    assert (G : forall l, Forall (fun m => size_wf fx c m = true -> pk_cost (ext_of_gen fx c m) = script_size_gen fx c m) l ->
                (fix go (l : list ms) : bool := match l with [] => true | x :: r => size_wf fx c x && go r end) l = true ->
                sum_map pk_cost ((fix go (l : list ms) : list ext :=
                                    match l with [] => [] | x :: r => ext_of_gen fx c x :: go r end) l)
                = (fix go (l : list ms) : N := match l with [] => 0 | x :: r => script_size_gen fx c x + go r end) l).
    { induction l as [|x r IHl]; intros HF Hg; [reflexivity|].
      inversion HF as [|? ? Hx HF']; subst. apply andb_prop in Hg. destruct Hg as [Hg1 Hg2].
      cbn [sum_map fold_right]. fold (sum_map pk_cost
        ((fix go (l : list ms) : list ext := match l with [] => [] | x0 :: r0 => ext_of_gen fx c x0 :: go r0 end) r)).
      rewrite (Hx Hg1), (IHl HF' Hg2). reflexivity. }
    rewrite (G xs H Hw), go_ext_len. lia.
  - (* multi *) apply andb_prop in Hw. destruct Hw as [Hw Hk3]. apply andb_prop in Hw. destruct Hw as [Hk1 Hk2].
    apply N.ltb_lt in Hk1. apply N.ltb_lt in Hk2.
    unfold ext_multi. cbn [pk_cost]. rewrite map_length, (num_cost_multi _ _ Hk1 Hk2), (sum_pklen_multi c ks Hk3). lia.
  - apply andb_prop in Hw. destruct Hw as [Hw Hk3]. apply andb_prop in Hw. destruct Hw as [Hk1 Hk2].
    apply N.ltb_lt in Hk1. apply N.ltb_lt in Hk2.
    unfold ext_multi. cbn [pk_cost]. rewrite map_length, (num_cost_multi _ _ Hk1 Hk2), (sum_pklen_multi c ks Hk3). lia.
  - (* multi_a *) unfold ext_multi_a. cbn [pk_cost]. rewrite (sum_pklen_33 c ks Hw). lia.
  - unfold ext_multi_a. cbn [pk_cost]. rewrite (sum_pklen_33 c ks Hw). lia.
Qed.

(* since /repo 4c5160f8 the class contains the scripts with uncompressed keys of the harness contexts *)
Example ext_pk_cost_unc_ok :
  size_wf as_written cx_legacy (MCheck (MPkK 6)) = true
  /\ pk_cost (ext_of cx_legacy (MCheck (MPkK 6))) = 67.
Proof. vm_compute. auto. Qed.
