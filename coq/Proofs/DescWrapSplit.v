(* C16 proofs, part 5: into_single_descriptors (the code after /repo 4fc1acf3: every
   multipath key must have the same number of paths as the first one). *)
From Coq Require Import List Bool NArith Lia Arith.
Import ListNotations.
From Verif Require Import DescWrapModel DescWrapKeys.
Local Open Scope N_scope.

Definition n_paths (k : dkey) : nat := match k with KMulti _ _ ps _ => length ps | _ => 0 end.

Lemma index_choser_ok : forall i n k,
  (key_is_multipath k = true -> n_paths k = n /\ (i < n)%nat) ->
  index_choser i n k = KOk (select_key i k).
Proof.
  intros i n k H. destruct k as [o s|o x p w|o x ps w]; try reflexivity.
  cbn [index_choser into_single_keys select_key]. destruct (H eq_refl) as [Hn Hi]. cbn [n_paths] in Hn.
  rewrite map_length, Hn, Nat.eqb_refl. cbn [negb].
  rewrite nth_error_map. destruct (nth_error ps i) eqn:E.
  - cbn [option_map]. rewrite (nth_error_nth _ _ _ E). reflexivity.
  - apply nth_error_None in E. lia.
Qed.
Lemma index_choser_mismatch : forall i n k, key_is_multipath k = true -> n_paths k <> n ->
  index_choser i n k = KErr ELenMismatch.
Proof.
  intros i n k Hm H. destruct k as [o s|o x p w|o x ps w]; try discriminate.
  cbn [index_choser into_single_keys n_paths] in *. rewrite map_length.
  destruct (Nat.eqb_spec (length ps) n); [contradiction | reflexivity].
Qed.
Lemma index_choser_cases : forall i n k,
  (exists y, index_choser i n k = KOk y) \/ index_choser i n k = KErr ELenMismatch.
Proof.
  intros i n k. destruct k as [o s|o x p w|o x ps w]; try (left; eexists; reflexivity).
  cbn [index_choser]. destruct (negb _); [auto|]. destruct (nth_error _ i); eauto.
Qed.

Lemma first_multipath_none : forall ks, (forall k, In k ks -> key_is_multipath k = false) ->
  first_multipath_len ks = None.
Proof.
  intros ks H. unfold first_multipath_len.
  replace (filter key_is_multipath ks) with (@nil dkey); [reflexivity|].
  symmetry. induction ks as [|k ks IH]; [reflexivity|]. cbn [filter].
  rewrite (H k (or_introl eq_refl)). apply IH. intros. apply H. right. assumption.
Qed.
(* if there is a multipath key, the count is the number of paths of one of them (the first) *)
Lemma first_multipath_exists : forall ks,
  (exists k, In k ks /\ key_is_multipath k = true) ->
  exists kf, In kf ks /\ key_is_multipath kf = true /\ first_multipath_len ks = Some (n_paths kf).
Proof.
  intros ks [k0 [Hin Hm]]. unfold first_multipath_len.
  induction ks as [|k ks IH]; [contradiction|]. cbn [filter].
  destruct (key_is_multipath k) eqn:M.
  - exists k. split; [left; reflexivity|]. split; [exact M|]. destruct k; try discriminate. reflexivity.
  - destruct IH as [kf [A [B C]]]; [destruct Hin as [->|]; [congruence | assumption]|].
    exists kf. split; [right; exact A|]. auto.
Qed.
Lemma first_multipath_some : forall ks n,
  (exists k, In k ks /\ key_is_multipath k = true) ->
  (forall k, In k ks -> key_is_multipath k = true -> n_paths k = n) ->
  first_multipath_len ks = Some n.
Proof.
  intros ks n Hex Hall. destruct (first_multipath_exists ks Hex) as [kf [A [B C]]].
  rewrite C, (Hall kf A B). reflexivity.
Qed.

(* ---- multipath_split ---- *)
Theorem split_no_multipath : forall d,
  (forall k, In k (desc_keys d) -> key_is_multipath k = false) -> into_single_descriptors d = KOk [d].
Proof. intros d H. unfold into_single_descriptors. rewrite first_multipath_none by exact H. reflexivity. Qed.

Theorem split_uniform : forall d n,
  (exists k, In k (desc_keys d) /\ key_is_multipath k = true) ->
  (forall k, In k (desc_keys d) -> key_is_multipath k = true -> n_paths k = n) ->
  into_single_descriptors d = KOk (map (fun i => select_desc i d) (seq 0 n)).
Proof.
  intros d n Hex Hall. unfold into_single_descriptors.
  rewrite (first_multipath_some _ n Hex Hall).
  apply try_map_ok. intros i Hi. apply in_seq in Hi. unfold select_desc.
  apply desc_try_map_ok. intros k Hk. apply index_choser_ok. intros M. split; [apply Hall; assumption | lia].
Qed.

(* every result is a single-path descriptor: no multipath key is left *)
Theorem select_desc_single : forall i d k, In k (desc_keys (select_desc i d)) -> key_is_multipath k = false.
Proof.
  intros i d k H. unfold select_desc in H. rewrite desc_keys_map in H. apply in_map_iff in H.
  destruct H as [k0 [<- _]]. destruct k0; reflexivity.
Qed.

(* "error otherwise": two multipath keys with different numbers of alternatives (each key
   having at least one path, the DerivPaths invariant) always give the length-mismatch error *)
Theorem split_error_mismatch : forall d k1 k2,
  (forall k, In k (desc_keys d) -> key_is_multipath k = true -> (0 < n_paths k)%nat) ->
  In k1 (desc_keys d) -> In k2 (desc_keys d) ->
  key_is_multipath k1 = true -> key_is_multipath k2 = true -> n_paths k1 <> n_paths k2 ->
  into_single_descriptors d = KErr ELenMismatch.
Proof.
  intros d k1 k2 Hpos H1 H2 M1 M2 Hne. unfold into_single_descriptors.
  destruct (first_multipath_exists (desc_keys d)) as [kf [A [B C]]]; [eauto|]. rewrite C.
  set (n := n_paths kf). assert (Hn : (0 < n)%nat) by (apply Hpos; assumption).
  assert (Hbad : exists k, In k (desc_keys d) /\ key_is_multipath k = true /\ n_paths k <> n).
  { destruct (Nat.eq_dec (n_paths k1) n); [exists k2 | exists k1]; repeat split; auto; lia. }
  destruct Hbad as [k [Hk [Mk Nk]]].
  apply try_map_err.
  - intros i _. apply desc_try_map_ok_or_err. intros; apply index_choser_cases.
  - exists 0%nat. split; [apply in_seq; lia|].
    apply desc_try_map_err; [intros; apply index_choser_cases|].
    exists k. split; [exact Hk|]. apply index_choser_mismatch; assumption.
Qed.
