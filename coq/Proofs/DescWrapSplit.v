(* C16 proofs, part 5: into_single_descriptors, and find_derivation_index_for_spk as the
   inverse of derivation. *)
From Coq Require Import List Bool NArith Lia Arith.
Import ListNotations.
From Verif Require Import DescWrapModel DescWrapKeys.
Local Open Scope N_scope.

Definition n_paths (k : dkey) : nat := match k with KMulti _ _ ps _ => length ps | _ => 0 end.

Lemma index_choser_ok : forall i k, (key_is_multipath k = true -> (i < n_paths k)%nat) ->
  index_choser i k = KOk (select_key i k).
Proof.
  intros i k H. destruct k as [o s|o x p w|o x ps w]; try reflexivity.
  cbn [index_choser into_single_keys select_key]. specialize (H eq_refl). cbn [n_paths] in H.
  rewrite nth_error_map. destruct (nth_error ps i) eqn:E.
  - cbn [option_map]. rewrite (nth_error_nth _ _ _ E). reflexivity.
  - apply nth_error_None in E. lia.
Qed.
Lemma index_choser_short : forall i k, key_is_multipath k = true -> (n_paths k <= i)%nat ->
  index_choser i k = KErr ELenMismatch.
Proof.
  intros i k Hm H. destruct k as [o s|o x p w|o x ps w]; try discriminate.
  cbn [index_choser into_single_keys n_paths] in *. rewrite nth_error_map.
  destruct (nth_error ps i) eqn:E; [|reflexivity].
  assert (nth_error ps i <> None) by congruence. apply nth_error_Some in H0. lia.
Qed.
Lemma index_choser_cases : forall i k, (exists y, index_choser i k = KOk y) \/ index_choser i k = KErr ELenMismatch.
Proof.
  intros i k. destruct (key_is_multipath k) eqn:M.
  - destruct (Nat.lt_ge_cases i (n_paths k)).
    + left. eexists. apply index_choser_ok. auto.
    + right. apply index_choser_short; assumption.
  - left. eexists. apply index_choser_ok. congruence.
Qed.

Lemma first_multipath_none : forall ks, (forall k, In k ks -> key_is_multipath k = false) ->
  first_multipath_len ks = None.
Proof.
  intros ks H. unfold first_multipath_len.
  replace (filter key_is_multipath ks) with (@nil dkey); [reflexivity|].
  symmetry. induction ks as [|k ks IH]; [reflexivity|]. cbn [filter].
  rewrite (H k (or_introl eq_refl)). apply IH. intros. apply H. right. assumption.
Qed.
Lemma first_multipath_some : forall ks n,
  (exists k, In k ks /\ key_is_multipath k = true) ->
  (forall k, In k ks -> key_is_multipath k = true -> n_paths k = n) ->
  first_multipath_len ks = Some n.
Proof.
  intros ks n [k0 [Hin Hm]] Hall. unfold first_multipath_len.
  induction ks as [|k ks IH]; [contradiction|]. cbn [filter].
  destruct (key_is_multipath k) eqn:M.
  - destruct k; try discriminate. f_equal. apply (Hall _ (or_introl eq_refl) eq_refl).
  - apply IH; [destruct Hin as [->|]; [congruence | assumption]|]. intros. apply Hall; [right|]; assumption.
Qed.
(* in general the count is the number of paths of the FIRST multipath key *)
Lemma first_multipath_is_first : forall pre k post,
  (forall x, In x pre -> key_is_multipath x = false) -> key_is_multipath k = true ->
  first_multipath_len (pre ++ k :: post) = Some (n_paths k).
Proof.
  intros pre k post Hpre Hk. unfold first_multipath_len. rewrite filter_app.
  replace (filter key_is_multipath pre) with (@nil dkey).
  - cbn [app filter]. rewrite Hk. destruct k; try discriminate. reflexivity.
  - symmetry. induction pre as [|x pre IH]; [reflexivity|]. cbn [filter].
    rewrite (Hpre x (or_introl eq_refl)). apply IH. intros. apply Hpre. right. assumption.
Qed.

(* ---- multipath_split ---- *)
Theorem split_no_multipath : forall d,
  (forall k, In k (desc_keys d) -> key_is_multipath k = false) -> into_single_descriptors d = KOk [d].
Proof. intros d H. unfold into_single_descriptors. rewrite first_multipath_none by exact H. reflexivity. Qed.

Theorem split_uniform : forall d n,
  (exists k, In k (desc_keys d) /\ key_is_multipath k = true) ->
  (forall k, In k (desc_keys d) -> key_is_multipath k = true -> n_paths k = n) ->
  into_single_descriptors d = KOk (map (fun i => select_desc i d) (seq 0 n)).
Proof.
  intros d n Hex Hall. unfold into_single_descriptors.
  rewrite (first_multipath_some _ n Hex Hall).
  apply try_map_ok. intros i Hi. apply in_seq in Hi. unfold select_desc.
  apply desc_try_map_ok. intros k Hk. apply index_choser_ok. intros M. rewrite (Hall k Hk M). lia.
Qed.

(* every result is a single-path descriptor: no multipath key is left *)
Theorem select_desc_single : forall i d k, In k (desc_keys (select_desc i d)) -> key_is_multipath k = false.
Proof.
  intros i d k H. unfold select_desc in H. rewrite desc_keys_map in H. apply in_map_iff in H.
  destruct H as [k0 [<- _]]. destruct k0; reflexivity.
Qed.

(* a later key with FEWER alternatives than the first multipath key: error *)
Theorem split_error_shorter : forall d n,
  first_multipath_len (desc_keys d) = Some n ->
  (exists k, In k (desc_keys d) /\ key_is_multipath k = true /\ (n_paths k < n)%nat) ->
  into_single_descriptors d = KErr ELenMismatch.
Proof.
  intros d n Hn [k [Hin [Hm Hlt]]]. unfold into_single_descriptors. rewrite Hn.
  apply try_map_err.
  - intros i _. apply desc_try_map_ok_or_err. intros; apply index_choser_cases.
  - exists (n_paths k). split; [apply in_seq; lia|].
    apply desc_try_map_err; [intros; apply index_choser_cases|].
    exists k. split; [exact Hin|]. apply index_choser_short; [exact Hm | lia].
Qed.
