(* C16 proofs, part 9: the three entry points of derivation (into_definite, derive_at_index,
   at_derivation_index) agree. *)
From Coq Require Import List Bool NArith Lia Arith.
Import ListNotations.
From Verif Require Import DescWrapModel DescWrapKeys.
Local Open Scope N_scope.

Lemma try_map_ext : forall {K K'} (f g : K -> kres K') l,
  (forall x, In x l -> f x = g x) -> try_map f l = try_map g l.
Proof.
  induction l as [|x l IH]; intros H; cbn [try_map]; [reflexivity|].
  rewrite (H x (or_introl eq_refl)), IH; [reflexivity|]. intros y Hy. apply H. right. exact Hy.
Qed.
Lemma ms_try_map_ext : forall {K K'} (f g : K -> kres K') m,
  (forall k, In k (ms_keys m) -> f k = g k) -> ms_try_map f m = ms_try_map g m.
Proof.
  intros K K' f g m H. destruct m; cbn [ms_try_map ms_keys] in *;
    try (rewrite (H k (or_introl eq_refl)); reflexivity);
    rewrite (try_map_ext f g) by exact H; reflexivity.
Qed.
Lemma desc_try_map_ext : forall {K K'} (f g : K -> kres K') d,
  (forall k, In k (desc_keys d) -> f k = g k) -> desc_try_map f d = desc_try_map g d.
Proof.
  intros K K' f g d H. destruct d as [m|k|k|m|m|k|m|leaves ik]; cbn [desc_try_map desc_keys] in *;
    try (rewrite (ms_try_map_ext f g) by exact H; reflexivity);
    try (rewrite (H k (or_introl eq_refl)); reflexivity).
  rewrite (H ik) by (apply in_or_app; right; left; reflexivity).
  rewrite (try_map_ext
             (fun l => kbind (ms_try_map f (snd l)) (fun m' => KOk (fst l, m')))
             (fun l => kbind (ms_try_map g (snd l)) (fun m' => KOk (fst l, m')))); [reflexivity|].
  intros l Hl. rewrite (ms_try_map_ext f g); [reflexivity|]. intros k Hk. apply H.
  apply in_or_app. left. apply in_flat_map. exists l. auto.
Qed.

Lemma existsb_false_in : forall {A} (f : A -> bool) l x, existsb f l = false -> In x l -> f x = false.
Proof.
  intros A f l x H Hin. destruct (f x) eqn:E; [|reflexivity].
  assert (existsb f l = true) by (apply existsb_exists; eauto). congruence.
Qed.

(* Without a wildcard the index is irrelevant: on a single-path descriptor into_definite is
   at_derivation_index at any index, and derive_at_index reports NoWildcard.  With a wildcard
   derive_at_index IS at_derivation_index and into_definite reports Wildcard.
   (On a descriptor that still has multipath keys both into_definite and at_derivation_index
   fail, possibly with different classes: HardenedStep is tested before Multipath by
   DefiniteDescriptorKey::new only.) *)
Theorem derivation_entry_points : forall i d,
  (desc_has_wildcard d = false ->
     derive_at_index i d = KErr ENoWildcard /\
     (desc_is_multipath d = false -> into_definite d = at_derivation_index i d)) /\
  (desc_has_wildcard d = true ->
     derive_at_index i d = at_derivation_index i d /\ into_definite d = KErr EWildcard).
Proof.
  intros i d. split; intros W; unfold into_definite, derive_at_index; rewrite W; cbn [negb]; split; try reflexivity.
  intros M. unfold at_derivation_index. apply desc_try_map_ext. intros k Hk.
  pose proof (existsb_false_in _ _ k W Hk) as Wk. pose proof (existsb_false_in _ _ k M Hk) as Mk.
  destruct k as [o s|o x p w|o x ps w]; cbn [key_at_derivation_index]; try reflexivity; [|discriminate].
  destruct w; cbn in Wk; try discriminate. reflexivity.
Qed.
