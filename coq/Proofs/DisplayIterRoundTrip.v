(* C10 — the text round trip for the printer loop the code runs (Ms/DisplayIterModel.v):
   display_iter_eq_recursive composed with the round-trip theorems of Proofs/MsTextCompose.v. *)
From Coq Require Import List NArith Bool.
From Verif Require Import Bytes RobustModel VerboseIterModel MsTextModel DisplayIterModel DisplayIterProofs.
From Verif Require Import ExprTreeModel MsTextCompose.
Import ListNotations.
Local Open Scope N_scope.

Theorem display_iter_roundtrip :
  forall (print_key : key -> tbytes) (parse_key : tbytes -> option key)
         (print_hash : hkind -> tbytes -> tbytes) (parse_hash : hkind -> tbytes -> option tbytes)
         (chk : ms -> bool),
  (forall k, parse_key (print_key k) = Some k) ->
  (forall h b, parse_hash h (print_hash h b) = Some b) ->
  (forall k, forallb name_char (print_key k) = true) ->
  (forall h b, forallb name_char (print_hash h b) = true) ->
  forall m, ms_text_ok chk m = true -> depth (to_tree print_key print_hash m) <= MAX_RECURSION_DEPTH ->
  exists s, display_iter print_key print_hash m = ROk s /\
            from_str_model parse_key parse_hash chk s = Ok m.
Proof.
  intros pk pa ph pha chk H1 H2 H3 H4 m Hok Hd. exists (ms_to_text pk ph m). split.
  - apply display_iter_eq_recursive.
  - now apply text_roundtrip.
Qed.

Theorem display_iter_fixpoint :
  forall (print_key : key -> tbytes) (parse_key : tbytes -> option key)
         (print_hash : hkind -> tbytes -> tbytes) (parse_hash : hkind -> tbytes -> option tbytes)
         (chk : ms -> bool),
  (forall k, parse_key (print_key k) = Some k) ->
  (forall h b, parse_hash h (print_hash h b) = Some b) ->
  (forall k, forallb name_char (print_key k) = true) ->
  (forall h b, forallb name_char (print_hash h b) = true) ->
  forall s m, from_str_model parse_key parse_hash chk s = Ok m ->
  depth (to_tree print_key print_hash m) <= MAX_RECURSION_DEPTH ->
  exists s1, display_iter print_key print_hash m = ROk s1 /\
             from_str_model parse_key parse_hash chk s1 = Ok m /\
             (forall m', from_str_model parse_key parse_hash chk s1 = Ok m' ->
                         display_iter print_key print_hash m' = ROk s1).
Proof.
  intros pk pa ph pha chk H1 H2 H3 H4 s m Hs Hd. exists (ms_to_text pk ph m).
  destruct (text_fixpoint pk pa ph pha chk H1 H2 H3 H4 s m Hs Hd) as [A B].
  split; [apply display_iter_eq_recursive|]. split; [exact A|].
  intros m' Hm'. rewrite display_iter_eq_recursive. f_equal. now apply B.
Qed.
