(* C05: the model of the code's typing rules refines the specification tables.
   Finite domains are swept completely by vm_compute and lifted to universally
   quantified statements; thresh is proved by induction on the child list. *)
From Verif Require Import Types Spec.
From Coq Require Import Lia.

(* ---------- completeness of the enumerations ---------- *)
Lemma all_base_complete b : In b all_base. Proof. destruct b; simpl; tauto. Qed.
Lemma all_input_complete i : In i all_input. Proof. destruct i; simpl; tauto. Qed.
Lemma all_bool_complete b : In b all_bool. Proof. destruct b; simpl; tauto. Qed.
Lemma all_dissat_complete d : In d all_dissat. Proof. destruct d; simpl; tauto. Qed.

Lemma all_corr_complete c : In c all_corr.
Proof.
  destruct c as [b i d u]. unfold all_corr.
  apply in_flat_map. exists b. split; [apply all_base_complete|].
  apply in_flat_map. exists i. split; [apply all_input_complete|].
  apply in_flat_map. exists d. split; [apply all_bool_complete|].
  apply in_map. apply all_bool_complete.
Qed.
Lemma all_mall_complete m : In m all_mall.
Proof.
  destruct m as [d s n]. unfold all_mall.
  apply in_flat_map. exists d. split; [apply all_dissat_complete|].
  apply in_flat_map. exists s. split; [apply all_bool_complete|].
  apply in_map. apply all_bool_complete.
Qed.

Lemma forall_corr (p : corr -> bool) : forallb p all_corr = true -> forall c, p c = true.
Proof. intros H c. rewrite forallb_forall in H. apply H, all_corr_complete. Qed.
Lemma forall_mall (p : mall -> bool) : forallb p all_mall = true -> forall c, p c = true.
Proof. intros H c. rewrite forallb_forall in H. apply H, all_mall_complete. Qed.

(* ---------- the three clauses for one rule instance ---------- *)
(* [dev] tells whether (fragment, children) is a declared deviation. *)
Definition refines (dev : bool) (impl : res corr) (spec : option scorr) : bool :=
  match impl, spec with
  | RErr _, None => true                                   (* rejects exactly what the spec rejects *)
  | ROk t, Some s => scorr_le (alpha_c t) s               (* never stronger *)
                     && (dev || scorr_eqb (alpha_c t) s)  (* equal outside declared deviations *)
  | _, _ => false
  end.

Definition chk1 (dev : corr -> bool) (f : corr -> res corr) (sp : scorr -> option scorr) : bool :=
  forallb (fun x => refines (dev x) (f x) (sp (alpha_c x))) all_corr.
Definition chk2 (f : corr -> corr -> res corr) (sp : scorr -> scorr -> option scorr) : bool :=
  forallb (fun x => forallb (fun y => refines false (f x y) (sp (alpha_c x) (alpha_c y))) all_corr) all_corr.
Definition chk3 (f : corr -> corr -> corr -> res corr) (sp : scorr -> scorr -> scorr -> option scorr) : bool :=
  forallb (fun x => forallb (fun y => forallb (fun z =>
     refines false (f x y z) (sp (alpha_c x) (alpha_c y) (alpha_c z))) all_corr) all_corr) all_corr.

Definition nodev (_ : corr) := false.

(* Declared deviation (the only one): d:X is never typed unit by the code, the
   specification grants u in Tapscript. *)
Definition dupif_dev (tap : bool) (_ : corr) : bool := tap.

Lemma chk1_sound dev f sp : chk1 dev f sp = true -> forall x, refines (dev x) (f x) (sp (alpha_c x)) = true.
Proof. intros H. apply (forall_corr _ H). Qed.
Lemma chk2_sound f sp : chk2 f sp = true -> forall x y, refines false (f x y) (sp (alpha_c x) (alpha_c y)) = true.
Proof. intros H x y. pose proof (forall_corr _ H x) as H1. cbv beta in H1. apply (forall_corr _ H1). Qed.
Lemma chk3_sound f sp : chk3 f sp = true ->
  forall x y z, refines false (f x y z) (sp (alpha_c x) (alpha_c y) (alpha_c z)) = true.
Proof.
  intros H x y z. pose proof (forall_corr _ H x) as H1. cbv beta in H1.
  pose proof (forall_corr _ H1 y) as H2. cbv beta in H2. apply (forall_corr _ H2).
Qed.

(* ---------- correctness: wrappers ---------- *)
Lemma corr_alt : forall x, refines false (c_cast_alt x) (sc_alt (alpha_c x)) = true.
Proof. apply (chk1_sound nodev). vm_compute. reflexivity. Qed.
Lemma corr_swap : forall x, refines false (c_cast_swap x) (sc_swap (alpha_c x)) = true.
Proof. apply (chk1_sound nodev). vm_compute. reflexivity. Qed.
(* c:X on a child typed K *and* z: the code would propagate z, the specification's row for
   c: has no z.  No well-typed term has such a type ([kz_unreachable_*] below: the set of
   types without K/z is closed under every rule and contains every leaf), so the row is
   vacuous; it is excluded here by name and nowhere else. *)
Definition kz (x : corr) : bool := base_eqb (c_base x) BK && input_eqb (c_input x) IZero.
Lemma corr_check : forall x, kz x = false -> refines false (c_cast_check x) (sc_check (alpha_c x)) = true.
Proof.
  intros x Hx.
  assert (H : forall x, (kz x || refines false (c_cast_check x) (sc_check (alpha_c x))) = true)
    by (apply forall_corr; vm_compute; reflexivity).
  specialize (H x). rewrite Hx in H. exact H.
Qed.
(* acceptance is exact on the whole domain, K/z included *)
Lemma corr_check_accept : forall x,
  (match c_cast_check x, sc_check (alpha_c x) with ROk _, Some _ | RErr _, None => true | _, _ => false end) = true.
Proof. apply forall_corr. vm_compute. reflexivity. Qed.

Definition okz (r : res corr) : bool := match r with ROk t => negb (kz t) | RErr _ => true end.
Lemma kz_unreachable_leaves :
  forallb (fun c => negb (kz c)) [c_true; c_false; c_pk_k; c_pk_h; c_multi; c_sortedmulti; c_multi_a;
                                  c_sortedmulti_a; c_hash; c_time] = true.
Proof. vm_compute. reflexivity. Qed.
Lemma kz_unreachable_1 : forall x, kz x = false ->
  forallb (fun f : corr -> res corr => okz (f x))
    [c_cast_alt; c_cast_swap; c_cast_check; c_cast_dupif; c_cast_verify; c_cast_nonzero;
     c_cast_zeronotequal; c_cast_true; c_cast_or_i_false] = true.
Proof.
  intros x Hx.
  assert (H : forall x, (kz x || forallb (fun f : corr -> res corr => okz (f x))
    [c_cast_alt; c_cast_swap; c_cast_check; c_cast_dupif; c_cast_verify; c_cast_nonzero;
     c_cast_zeronotequal; c_cast_true; c_cast_or_i_false]) = true)
    by (apply forall_corr; vm_compute; reflexivity).
  specialize (H x). rewrite Hx in H. exact H.
Qed.
Lemma kz_unreachable_2 : forall x y, kz x = false -> kz y = false ->
  forallb (fun f : corr -> corr -> res corr => okz (f x y))
    [c_and_b; c_and_v; c_or_b; c_or_c; c_or_d; c_or_i] = true.
Proof.
  intros x y Hx Hy.
  assert (H : forall x y, (kz x || kz y || forallb (fun f : corr -> corr -> res corr => okz (f x y))
    [c_and_b; c_and_v; c_or_b; c_or_c; c_or_d; c_or_i]) = true).
  { intros a. apply forall_corr. revert a. apply forall_corr. vm_compute. reflexivity. }
  specialize (H x y). rewrite Hx, Hy in H. exact H.
Qed.
Lemma kz_unreachable_3 : forall x y z, kz x = false -> kz y = false -> kz z = false ->
  okz (c_and_or x y z) = true.
Proof.
  intros x y z Hx Hy Hz.
  assert (H : forall x y z, (kz x || kz y || kz z || okz (c_and_or x y z)) = true).
  { intros a b. apply forall_corr. revert b. apply forall_corr. revert a. apply forall_corr. vm_compute. reflexivity. }
  specialize (H x y z). rewrite Hx, Hy, Hz in H. exact H.
Qed.
Lemma kz_unreachable_thresh : forall k xs, okz (c_threshold k xs) = true.
Proof. intros k xs. unfold c_threshold. destruct (c_thresh_loop 0 0 xs) as [n|e]; [|reflexivity].
  destruct n as [|[p|p|]]; reflexivity. Qed.
Lemma corr_dupif : forall tap x, refines tap (c_cast_dupif x) (sc_dupif tap (alpha_c x)) = true.
Proof. intros tap. apply (chk1_sound (dupif_dev tap)). destruct tap; vm_compute; reflexivity. Qed.
(* outside Tapscript d: is not a deviation at all *)
Lemma corr_dupif_nontap : forall x, refines false (c_cast_dupif x) (sc_dupif false (alpha_c x)) = true.
Proof. apply (corr_dupif false). Qed.
Lemma corr_verify : forall x, refines false (c_cast_verify x) (sc_verify (alpha_c x)) = true.
Proof. apply (chk1_sound nodev). vm_compute. reflexivity. Qed.
Lemma corr_nonzero : forall x, refines false (c_cast_nonzero x) (sc_nonzero (alpha_c x)) = true.
Proof. apply (chk1_sound nodev). vm_compute. reflexivity. Qed.
Lemma corr_zeronotequal : forall x, refines false (c_cast_zeronotequal x) (sc_zeronotequal (alpha_c x)) = true.
Proof. apply (chk1_sound nodev). vm_compute. reflexivity. Qed.

(* ---------- correctness: combinators ---------- *)
Lemma corr_and_v : forall x y, refines false (c_and_v x y) (sc_and_v (alpha_c x) (alpha_c y)) = true.
Proof. apply chk2_sound. vm_compute. reflexivity. Qed.
Lemma corr_and_b : forall x y, refines false (c_and_b x y) (sc_and_b (alpha_c x) (alpha_c y)) = true.
Proof. apply chk2_sound. vm_compute. reflexivity. Qed.
Lemma corr_or_b : forall x y, refines false (c_or_b x y) (sc_or_b (alpha_c x) (alpha_c y)) = true.
Proof. apply chk2_sound. vm_compute. reflexivity. Qed.
Lemma corr_or_c : forall x y, refines false (c_or_c x y) (sc_or_c (alpha_c x) (alpha_c y)) = true.
Proof. apply chk2_sound. vm_compute. reflexivity. Qed.
Lemma corr_or_d : forall x y, refines false (c_or_d x y) (sc_or_d (alpha_c x) (alpha_c y)) = true.
Proof. apply chk2_sound. vm_compute. reflexivity. Qed.
Lemma corr_or_i : forall x y, refines false (c_or_i x y) (sc_or_i (alpha_c x) (alpha_c y)) = true.
Proof. apply chk2_sound. vm_compute. reflexivity. Qed.
Lemma corr_andor : forall x y z, refines false (c_and_or x y z) (sc_andor (alpha_c x) (alpha_c y) (alpha_c z)) = true.
Proof. apply chk3_sound. vm_compute. reflexivity. Qed.

(* sugar: t:X = and_v(X,1), l:X = or_i(0,X), u:X = or_i(X,0) — correctness half *)
Definition res_corr_eqb := res_eqb corr_eqb.
Lemma corr_true_sugar : forall x, res_corr_eqb (c_cast_true x)
   (match c_base x with BV => c_and_v x c_true | b => RErr (ChildBase1 b) end) = true.
Proof. apply forall_corr. vm_compute. reflexivity. Qed.
(* The code's single rule for l:/u: is weaker than or_i on the input property only:
   or_i(0,X) with X:z is typed `o`; the rule also answers `o`; elsewhere identical.
   Stated as: same acceptance, and result equal to both or_i forms. *)
Lemma corr_likely_sugar : forall x, res_corr_eqb (c_cast_or_i_false x)
   (match c_base x with BB => c_or_i c_false x | b => RErr (ChildBase1 b) end) = true.
Proof. apply forall_corr. vm_compute. reflexivity. Qed.
Lemma corr_unlikely_sugar : forall x, res_corr_eqb (c_cast_or_i_false x)
   (match c_base x with BB => c_or_i x c_false | b => RErr (ChildBase1 b) end) = true.
Proof. apply forall_corr. vm_compute. reflexivity. Qed.

(* ---------- leaves ---------- *)
Lemma corr_leaves :
  alpha_c c_false = sc_false /\ alpha_c c_true = sc_true /\ alpha_c c_pk_k = sc_pk_k /\
  alpha_c c_pk_h = sc_pk_h /\ alpha_c c_time = sc_time /\ alpha_c c_hash = sc_hash /\
  alpha_c c_multi = sc_multi /\ alpha_c c_sortedmulti = sc_multi /\
  alpha_c c_multi_a = sc_multi_a /\ alpha_c c_sortedmulti_a = sc_multi_a.
Proof. repeat split. Qed.
Lemma mall_leaves :
  alpha_m m_false = sm_false /\ alpha_m m_true = sm_true /\ alpha_m m_pk_k = sm_key /\
  alpha_m m_pk_h = sm_key /\ alpha_m m_time = sm_time /\ alpha_m m_hash = sm_hash /\
  alpha_m m_multi = sm_key /\ alpha_m m_sortedmulti = sm_key /\
  alpha_m m_multi_a = sm_key /\ alpha_m m_sortedmulti_a = sm_key.
Proof. repeat split. Qed.

(* ---------- malleability: exact equality everywhere ---------- *)
Definition mchk1 (f : mall -> mall) (sp : small -> small) : bool :=
  forallb (fun x => small_eqb (alpha_m (f x)) (sp (alpha_m x))) all_mall.
Definition mchk2 (f : mall -> mall -> mall) (sp : small -> small -> small) : bool :=
  forallb (fun x => forallb (fun y => small_eqb (alpha_m (f x y)) (sp (alpha_m x) (alpha_m y))) all_mall) all_mall.
Definition mchk3 (f : mall -> mall -> mall -> mall) (sp : small -> small -> small -> small) : bool :=
  forallb (fun x => forallb (fun y => forallb (fun z =>
    small_eqb (alpha_m (f x y z)) (sp (alpha_m x) (alpha_m y) (alpha_m z))) all_mall) all_mall) all_mall.

Lemma small_eqb_eq a b : small_eqb a b = true -> a = b.
Proof.
  destruct a, b; unfold small_eqb; simpl; intros H.
  repeat (apply andb_prop in H; destruct H as [H ?]).
  repeat match goal with E : Bool.eqb _ _ = true |- _ => apply eqb_prop in E end; subst; reflexivity.
Qed.
Lemma scorr_eqb_eq a b : scorr_eqb a b = true -> a = b.
Proof.
  destruct a as [b1 ? ? ? ? ?], b as [b2 ? ? ? ? ?]; unfold scorr_eqb; simpl; intros H.
  repeat (apply andb_prop in H; destruct H as [H ?]).
  repeat match goal with E : Bool.eqb _ _ = true |- _ => apply eqb_prop in E end; subst.
  destruct b1, b2; try discriminate; reflexivity.
Qed.

Lemma mchk1_sound f sp : mchk1 f sp = true -> forall x, alpha_m (f x) = sp (alpha_m x).
Proof. intros H x. apply small_eqb_eq. apply (forall_mall _ H). Qed.
Lemma mchk2_sound f sp : mchk2 f sp = true -> forall x y, alpha_m (f x y) = sp (alpha_m x) (alpha_m y).
Proof. intros H x y. apply small_eqb_eq. pose proof (forall_mall _ H x) as H1. cbv beta in H1. apply (forall_mall _ H1). Qed.
Lemma mchk3_sound f sp : mchk3 f sp = true -> forall x y z, alpha_m (f x y z) = sp (alpha_m x) (alpha_m y) (alpha_m z).
Proof.
  intros H x y z. apply small_eqb_eq. pose proof (forall_mall _ H x) as H1. cbv beta in H1.
  pose proof (forall_mall _ H1 y) as H2. cbv beta in H2. apply (forall_mall _ H2).
Qed.

Lemma mall_alt : forall x, alpha_m (m_cast_alt x) = sm_same (alpha_m x). Proof. apply mchk1_sound. vm_compute. reflexivity. Qed.
Lemma mall_swap : forall x, alpha_m (m_cast_swap x) = sm_same (alpha_m x). Proof. apply mchk1_sound. vm_compute. reflexivity. Qed.
Lemma mall_check : forall x, alpha_m (m_cast_check x) = sm_same (alpha_m x). Proof. apply mchk1_sound. vm_compute. reflexivity. Qed.
Lemma mall_zeronotequal : forall x, alpha_m (m_cast_zeronotequal x) = sm_same (alpha_m x). Proof. apply mchk1_sound. vm_compute. reflexivity. Qed.
Lemma mall_dupif : forall x, alpha_m (m_cast_dupif x) = sm_dupif (alpha_m x). Proof. apply mchk1_sound. vm_compute. reflexivity. Qed.
Lemma mall_verify : forall x, alpha_m (m_cast_verify x) = sm_verify (alpha_m x). Proof. apply mchk1_sound. vm_compute. reflexivity. Qed.
Lemma mall_nonzero : forall x, alpha_m (m_cast_nonzero x) = sm_nonzero (alpha_m x). Proof. apply mchk1_sound. vm_compute. reflexivity. Qed.
Lemma mall_and_v : forall x y, alpha_m (m_and_v x y) = sm_and_v (alpha_m x) (alpha_m y). Proof. apply mchk2_sound. vm_compute. reflexivity. Qed.
Lemma mall_and_b : forall x y, alpha_m (m_and_b x y) = sm_and_b (alpha_m x) (alpha_m y). Proof. apply mchk2_sound. vm_compute. reflexivity. Qed.
Lemma mall_or_b : forall x y, alpha_m (m_or_b x y) = sm_or_b (alpha_m x) (alpha_m y). Proof. apply mchk2_sound. vm_compute. reflexivity. Qed.
Lemma mall_or_c : forall x y, alpha_m (m_or_c x y) = sm_or_c (alpha_m x) (alpha_m y). Proof. apply mchk2_sound. vm_compute. reflexivity. Qed.
Lemma mall_or_d : forall x y, alpha_m (m_or_d x y) = sm_or_d (alpha_m x) (alpha_m y). Proof. apply mchk2_sound. vm_compute. reflexivity. Qed.
Lemma mall_or_i : forall x y, alpha_m (m_or_i x y) = sm_or_i (alpha_m x) (alpha_m y). Proof. apply mchk2_sound. vm_compute. reflexivity. Qed.
Lemma mall_andor : forall x y z, alpha_m (m_and_or x y z) = sm_andor (alpha_m x) (alpha_m y) (alpha_m z). Proof. apply mchk3_sound. vm_compute. reflexivity. Qed.

Definition mall_eq_dec_b := mall_eqb.
Lemma mall_true_sugar : forall x, mall_eqb (m_cast_true x) (m_and_v x m_true) = true.
Proof. apply forall_mall. vm_compute. reflexivity. Qed.
Lemma mall_likely_sugar : forall x, mall_eqb (m_cast_or_i_false x) (m_or_i m_false x) = true.
Proof. apply forall_mall. vm_compute. reflexivity. Qed.
Lemma mall_unlikely_sugar : forall x, mall_eqb (m_cast_or_i_false x) (m_or_i x m_false) = true.
Proof. apply forall_mall. vm_compute. reflexivity. Qed.

(* the abstraction always produces internally consistent property vectors *)
Lemma alpha_c_wf : forall c, scorr_wf (alpha_c c) = true. Proof. apply forall_corr. vm_compute. reflexivity. Qed.
Lemma alpha_m_wf : forall m, small_wf (alpha_m m) = true. Proof. apply forall_mall. vm_compute. reflexivity. Qed.
(* and is injective, so "alpha t = spec" pins t down *)
Lemma alpha_c_inj : forall a b, alpha_c a = alpha_c b -> a = b.
Proof. intros [b1 i1 d1 u1] [b2 i2 d2 u2]; unfold alpha_c; simpl; intros H; inversion H; subst.
  destruct i1, i2; try discriminate; reflexivity. Qed.
Lemma alpha_m_inj : forall a b, alpha_m a = alpha_m b -> a = b.
Proof. intros [d1 s1 n1] [d2 s2 n2]; unfold alpha_m; simpl; intros H; inversion H; subst.
  destruct d1, d2; try discriminate; reflexivity. Qed.

(* ---------- thresh: all k, all child lists (induction) ---------- *)
Definition weight (s : corr) : N :=
  match c_input s with IZero => 0 | IOne | IOneNonZero => 1 | IAny | IAnyNonZero => 2 end%N.
Definition child_ok (first : bool) (s : corr) : bool :=
  base_eqb (c_base s) (if first then BB else BW) && c_unit s && c_dissat s.
Fixpoint sumw (xs : list corr) : N := match xs with [] => 0 | x :: r => weight x + sumw r end%N.

Lemma child_ok_alpha first s : thresh_child_ok first (alpha_c s) = child_ok first s.
Proof. destruct s as [b i d u]; destruct first, b, d, u; reflexivity. Qed.

Lemma loop_rest xs : forall i acc, i <> 0%N ->
  (forallb (child_ok false) xs = true -> c_thresh_loop i acc xs = ROk (acc + sumw xs)%N) /\
  (forallb (child_ok false) xs = false -> exists e, c_thresh_loop i acc xs = RErr e).
Proof.
  induction xs as [|s r IH]; intros i acc Hi; cbn [forallb c_thresh_loop sumw].
  - split; [intros _; f_equal; lia | discriminate].
  - apply N.eqb_neq in Hi. rewrite Hi. cbn [andb negb].
    assert (Hi' : (i + 1 <> 0)%N) by lia.
    destruct (IH (i + 1)%N (acc + weight s)%N Hi') as [IHt IHf].
    unfold child_ok at 1 3. destruct s as [b inp d u]; cbn [c_base c_unit c_dissat c_input].
    unfold weight in *; cbn [c_input] in *.
    destruct b, u, d; cbn; try (split; [discriminate | intros _; eexists; reflexivity]).
    split; intros H.
    + rewrite (IHt H). f_equal. rewrite N.add_assoc. reflexivity.
    + apply IHf, H.
Qed.

Lemma loop_first s r :
  (child_ok true s && forallb (child_ok false) r = true ->
     c_thresh_loop 0 0 (s :: r) = ROk (sumw (s :: r))) /\
  (child_ok true s && forallb (child_ok false) r = false ->
     exists e, c_thresh_loop 0 0 (s :: r) = RErr e).
Proof.
  cbn [c_thresh_loop sumw]. rewrite !N.add_0_l. change (N.eqb 0 0) with true. cbn [andb negb].
  assert (H1 : (1 <> 0)%N) by lia.
  destruct (loop_rest r 1%N (weight s)%N H1) as [Ht Hf].
  unfold child_ok at 1 3. destruct s as [b inp d u]; cbn [c_base c_unit c_dissat c_input].
  unfold weight in *; cbn [c_input] in *.
  destruct b, u, d; cbn [base_eqb andb negb]; try (split; [discriminate | intros _; eexists; reflexivity]).
  split; intros H.
  - rewrite (Ht H). reflexivity.
  - apply Hf, H.
Qed.

Lemma sumw_zero xs : (sumw xs = 0)%N <-> count_if (fun x => negb (s_z x)) (map alpha_c xs) = 0%N.
Proof.
  unfold count_if. induction xs as [|[b i d u] r IH]; cbn [sumw map filter]; [tauto|].
  unfold weight at 1; cbn [c_input alpha_c s_z]. destruct i; cbn [negb length]; lia.
Qed.
Lemma sumw_one xs : (sumw xs = 1)%N <->
  count_if (fun x => negb (s_z x)) (map alpha_c xs) = 1%N /\
  forallb (fun x => s_z x || s_o x) (map alpha_c xs) = true.
Proof.
  unfold count_if. induction xs as [|[b i d u] r IH]; cbn [sumw map filter forallb].
  - cbn. split; [discriminate | intros [H _]; discriminate].
  - pose proof (sumw_zero r) as Hz. unfold count_if in Hz.
    unfold weight at 1; cbn [c_input alpha_c s_z s_o].
    destruct i; cbn [negb length orb andb].
    + rewrite N.add_0_l. exact IH.
    + split.
      * intros H. assert (Hr : sumw r = 0%N) by lia. apply Hz in Hr. split; [lia|].
        clear -Hr. induction r as [|[b' i' d' u'] r IHr]; [reflexivity|].
        cbn [map filter alpha_c s_z c_input] in Hr. cbn [map forallb alpha_c s_z s_o c_input].
        destruct i'; cbn [negb length] in Hr; try lia. cbn [orb andb]. apply IHr, Hr.
      * intros [H _]. assert (Hr : N.of_nat (length (filter (fun x => negb (s_z x)) (map alpha_c r))) = 0%N) by lia.
        apply Hz in Hr. lia.
    + split; [lia | intros [_ H]; discriminate].
    + split.
      * intros H. assert (Hr : sumw r = 0%N) by lia. apply Hz in Hr. split; [lia|].
        clear -Hr. induction r as [|[b' i' d' u'] r IHr]; [reflexivity|].
        cbn [map filter alpha_c s_z c_input] in Hr. cbn [map forallb alpha_c s_z s_o c_input].
        destruct i'; cbn [negb length] in Hr; try lia. cbn [orb andb]. apply IHr, Hr.
      * intros [H _]. assert (Hr : N.of_nat (length (filter (fun x => negb (s_z x)) (map alpha_c r))) = 0%N) by lia.
        apply Hz in Hr. lia.
    + split; [lia | intros [_ H]; discriminate].
Qed.

Theorem corr_thresh : forall k xs, xs <> [] ->
  refines false (c_threshold k xs) (sc_thresh (map alpha_c xs)) = true.
Proof.
  intros k [|s r] Hne; [congruence|]. clear Hne.
  unfold c_threshold, sc_thresh. cbn [map].
  rewrite child_ok_alpha.
  assert (Hr : forallb (thresh_child_ok false) (map alpha_c r) = forallb (child_ok false) r).
  { clear. induction r as [|x r IH]; [reflexivity|]. cbn [map forallb]. rewrite child_ok_alpha, IH. reflexivity. }
  rewrite Hr. destruct (loop_first s r) as [Ht Hf].
  destruct (child_ok true s && forallb (child_ok false) r) eqn:E.
  - rewrite (Ht eq_refl). unfold refines.
    pose proof (sumw_zero (s :: r)) as Hz. pose proof (sumw_one (s :: r)) as Ho.
    cbn [map] in Hz, Ho.
    set (nz := count_if (fun x => negb (s_z x)) (alpha_c s :: map alpha_c r)) in *.
    set (fo := forallb (fun x => s_z x || s_o x) (alpha_c s :: map alpha_c r)) in *.
    assert (Heq : alpha_c (mkCorr BB (match sumw (s :: r) with 0%N => IZero | 1%N => IOne | _ => IAny end) true true)
                  = mkSC BB (N.eqb nz 0) (N.eqb nz 1 && fo) false true true).
    { destruct (sumw (s :: r)) as [|[p|p|]] eqn:Es; unfold alpha_c; cbn [c_base c_input c_dissat c_unit].
      - destruct Hz as [Hz _]. rewrite (Hz eq_refl). reflexivity.
      - assert (nz <> 0%N) by (intros H; apply Hz in H; discriminate).
        assert (~ (nz = 1%N /\ fo = true)) by (intros H'; apply Ho in H'; lia).
        f_equal.
        + symmetry. apply N.eqb_neq. assumption.
        + destruct (N.eqb_spec nz 1), fo; cbn; try reflexivity. exfalso; auto.
      - assert (nz <> 0%N) by (intros H; apply Hz in H; discriminate).
        assert (~ (nz = 1%N /\ fo = true)) by (intros H'; apply Ho in H'; lia).
        f_equal.
        + symmetry. apply N.eqb_neq. assumption.
        + destruct (N.eqb_spec nz 1), fo; cbn; try reflexivity. exfalso; auto.
      - destruct Ho as [Ho _]. destruct (Ho eq_refl) as [H1 H2]. rewrite H1, H2. reflexivity. }
    rewrite Heq. generalize (N.eqb nz 0) (N.eqb nz 1 && fo). intros [|] [|]; reflexivity.
  - destruct (Hf eq_refl) as [e He]. rewrite He. reflexivity.
Qed.

(* malleability half of thresh *)
Lemma m_loop xs : forall sc du nm,
  m_thresh_loop xs sc du nm =
  ((sc + count_if m_signed xs)%N,
   du && forallb (fun s => dissat_eqb (m_dissat s) DUnique) xs,
   nm && forallb m_nm xs).
Proof.
  unfold count_if. induction xs as [|s r IH]; intros sc du nm; cbn [m_thresh_loop filter forallb].
  - cbn. rewrite N.add_0_r, !andb_true_r. reflexivity.
  - rewrite IH. rewrite !andb_assoc. f_equal. f_equal.
    destruct (m_signed s); cbn [length]; lia.
Qed.

Lemma count_split {A} (p : A -> bool) xs :
  (count_if p xs + count_if (fun x => negb (p x)) xs = N.of_nat (length xs))%N.
Proof. unfold count_if. induction xs as [|x r IH]; [reflexivity|]. cbn [filter length].
  destruct (p x); cbn [negb length]; lia. Qed.

Lemma forallb_map {A B} (f : A -> B) p xs : forallb p (map f xs) = forallb (fun x => p (f x)) xs.
Proof. induction xs as [|x r IH]; [reflexivity|]. cbn. rewrite IH. reflexivity. Qed.
Lemma count_map {A B} (f : A -> B) p xs : count_if p (map f xs) = count_if (fun x => p (f x)) xs.
Proof. unfold count_if. induction xs as [|x r IH]; [reflexivity|]. cbn. destruct (p (f x)); cbn; rewrite ?IH; lia. Qed.
Lemma forallb_ext' {A} (p q : A -> bool) xs : (forall x, p x = q x) -> forallb p xs = forallb q xs.
Proof. intros H. induction xs as [|x r IH]; [reflexivity|]. cbn. rewrite H, IH. reflexivity. Qed.
Lemma count_all {A} (p : A -> bool) xs : count_if p xs = N.of_nat (length xs) <-> forallb p xs = true.
Proof.
  unfold count_if. induction xs as [|x r IH]; cbn [filter forallb length]; [tauto|].
  assert (Hl : length (filter p r) <= length r).
  { clear. induction r as [|y r IHr]; [apply le_n|]. cbn [filter]. destruct (p y); cbn [length]; lia. }
  destruct (p x); cbn [length andb].
  - rewrite <- IH. lia.
  - split; [lia | discriminate].
Qed.

Theorem mall_thresh : forall k xs, (1 <= k)%N -> (k <= N.of_nat (length xs))%N ->
  alpha_m (m_threshold k xs) = sm_thresh k (map alpha_m xs).
Proof.
  intros k xs Hk1 Hkn. unfold m_threshold, sm_thresh. rewrite m_loop. cbn [andb].
  rewrite N.add_0_l.
  rewrite !forallb_map, count_map.
  assert (Hs : count_if (fun x => negb (s_s (alpha_m x))) xs = count_if (fun x => negb (m_signed x)) xs)
    by reflexivity. rewrite Hs; clear Hs.
  pose proof (count_split m_signed xs) as Hsplit.
  set (sc := count_if m_signed xs) in *. set (ns := count_if (fun x => negb (m_signed x)) xs) in *.
  set (n := N.of_nat (length xs)) in *.
  assert (He : forallb (fun x => s_e (alpha_m x)) xs = forallb (fun s => dissat_eqb (m_dissat s) DUnique) xs).
  { apply forallb_ext'. intros [d s m]; destruct d; reflexivity. }
  assert (Hm : forallb (fun x => s_m (alpha_m x)) xs = forallb m_nm xs) by (apply forallb_ext'; reflexivity).
  assert (Hss : forallb (fun x => s_s (alpha_m x)) xs = N.eqb sc n).
  { pose proof (count_all m_signed xs) as Hc. fold sc n in Hc.
    destruct (N.eqb_spec sc n) as [E|E].
    - apply Hc, E.
    - destruct (forallb (fun x => s_s (alpha_m x)) xs) eqn:F; [|reflexivity].
      exfalso. apply E, Hc. exact F. }
  rewrite He, Hm, Hss.
  set (du := forallb (fun s => dissat_eqb (m_dissat s) DUnique) xs).
  set (nm := forallb m_nm xs).
  assert (H1 : N.ltb (n - k) sc = N.ltb ns k).
  { destruct (N.ltb_spec (n - k) sc), (N.ltb_spec ns k); try reflexivity; lia. }
  assert (H2 : N.leb (n - k) sc = N.leb ns k).
  { destruct (N.leb_spec (n - k) sc), (N.leb_spec ns k); try reflexivity; lia. }
  rewrite H1, H2. unfold alpha_m; cbn [m_dissat m_signed m_nm].
  destruct du, (N.eqb sc n), nm, (N.leb ns k); reflexivity.
Qed.
